/-
  GH targets: the counting wrappers (lean/Dsi/Props/CountGen.lean), the tracing wrappers
  (lean/Dsi/Props/DbgGen.lean) and the statistics (lean/Dsi/Props/StatsGen.lean).

  The wrapper theorems hold for every wrapped implementation; the targets instantiate it with the
  back ends of `Dsi.GH.Core` (`T` / `R…` writers, `M…` / `R…` readers).  A scripted reader can return
  values no materialised stream could hold (a unary read of 2^32 zeros).
  Code-forwarding methods take "the inner method" as a function; the targets pass a one-call program
  (`write_unary value` / `read_unary`), whose result is what the wrapper adds to its counter.
-/
import Dsi.GH.Core
import Dsi.Gen.CountBodies
import Dsi.Gen.DbgBodies
import Dsi.Gen.StatsBodies
import Dsi.Glue.StatsWrapper
namespace Dsi.GH
open Dsi

def countW : P (CountW WB) := do
  let bw ← nat; let w ← wb
  pure { inner := w, bitsWritten := bw }

def countR : P (CountR RB) := do
  let br ← nat; let r ← rb
  pure { inner := r, bitsRead := br }

/-- the inner "code writer": one unary write (returns `value + 1`) -/
def innerW : Nat → WProg Nat := fun v => WProg.wunary v
def innerW2 : Nat → Nat → WProg Nat := fun v k => (WProg.wbits k 7).bind fun a => (WProg.wunary v).bind fun b => .ret (a + b)
/-- the inner "code reader": one unary read (returns the next scripted value) -/
def innerR : RProg Nat := RProg.runary
def innerR2 : Nat → RProg Nat := fun k => (RProg.rbits k).bind fun _ => RProg.runary

def countTargets : List Target := [
  ⟨"count_write_bits", do
    let pr ← bool; let s ← countW; let v ← nat; let n ← nat
    pure (cmp (Gen.CountBitWriter.write_bits WB.impl pr s v n) ((CountW.impl WB.impl).writeBits s v n))⟩,
  ⟨"count_write_unary", do
    let pr ← bool; let s ← countW; let x ← nat
    pure (cmp (Gen.CountBitWriter.write_unary WB.impl pr s x) ((CountW.impl WB.impl).writeUnary s x))⟩,
  ⟨"count_flush", do
    let pr ← bool; let s ← countW
    pure (cmp (Gen.CountBitWriter.flush WB.impl pr s) ((CountW.impl WB.impl).flush s))⟩,
  ⟨"count_write_gamma", do
    let pr ← bool; let s ← countW; let v ← nat
    pure (cmp (Gen.CountBitWriter.write_gamma (fun i v => (innerW v).run WB.impl i) pr s v)
      (CountW.forward WB.impl (innerW v) s))⟩,
  ⟨"count_write_delta", do
    let pr ← bool; let s ← countW; let v ← nat
    pure (cmp (Gen.CountBitWriter.write_delta (fun i v => (innerW v).run WB.impl i) pr s v)
      (CountW.forward WB.impl (innerW v) s))⟩,
  ⟨"count_write_zeta", do
    let pr ← bool; let s ← countW; let v ← nat; let k ← nat
    pure (cmp (Gen.CountBitWriter.write_zeta (fun i v k => (innerW2 v k).run WB.impl i) pr s v k)
      (CountW.forward WB.impl (innerW2 v k) s))⟩,
  ⟨"count_write_zeta3", do
    let pr ← bool; let s ← countW; let v ← nat
    pure (cmp (Gen.CountBitWriter.write_zeta3 (fun i v => (innerW v).run WB.impl i) pr s v)
      (CountW.forward WB.impl (innerW v) s))⟩,
  ⟨"count_read_bits", do
    let pr ← bool; let s ← countR; let n ← nat
    pure (cmp (Gen.CountBitReader.read_bits RB.impl pr s n) ((CountR.impl RB.impl).readBits s n))⟩,
  ⟨"count_read_unary", do
    let pr ← bool; let s ← countR
    pure (cmp (Gen.CountBitReader.read_unary RB.impl pr s) ((CountR.impl RB.impl).readUnary s))⟩,
  ⟨"count_peek_bits", do
    let pr ← bool; let s ← countR; let n ← nat
    pure (cmp (Gen.CountBitReader.peek_bits RB.impl pr s n) ((CountR.impl RB.impl).peekBits s n))⟩,
  ⟨"count_skip_bits", do
    let pr ← bool; let s ← countR; let n ← nat
    pure (cmp (Gen.CountBitReader.skip_bits RB.impl pr s n) ((CountR.impl RB.impl).skipBits s n))⟩,
  ⟨"count_skip_bits_after_peek", do
    let pr ← bool; let s ← countR; let n ← nat
    pure (cmp (Gen.CountBitReader.skip_bits_after_peek RB.impl pr s n) ((CountR.impl RB.impl).skipAfterPeek s n))⟩,
  ⟨"count_read_gamma", do
    let pr ← bool; let s ← countR
    pure (cmp (Gen.CountBitReader.read_gamma (fun i => innerR.run RB.impl i) pr s)
      (CountR.forward RB.impl innerR lenGammaD s))⟩,
  ⟨"count_read_delta", do
    let pr ← bool; let s ← countR
    pure (cmp (Gen.CountBitReader.read_delta (fun i => innerR.run RB.impl i) pr s)
      (CountR.forward RB.impl innerR lenDeltaD s))⟩,
  ⟨"count_read_zeta", do
    let pr ← bool; let s ← countR; let k ← nat; capIf (k > 65536)
    -- hypothesis of `read_zeta_eq`: the value read is below 2^64 - 1
    match (innerR2 k).run RB.impl s.inner with
    | .ok (v, _) => hyp (v < 2 ^ 64 - 1)
    | _ => pure ()
    pure (cmp (Gen.CountBitReader.read_zeta (fun i k => (innerR2 k).run RB.impl i) pr s k)
      (CountR.forward RB.impl (innerR2 k) (fun v => lenZetaD v k) s))⟩,
  ⟨"count_read_zeta3", do
    let pr ← bool; let s ← countR
    match innerR.run RB.impl s.inner with
    | .ok (v, _) => hyp (v < 2 ^ 64 - 1)
    | _ => pure ()
    pure (cmp (Gen.CountBitReader.read_zeta3 (fun i => innerR.run RB.impl i) pr s)
      (CountR.forward RB.impl innerR (fun v => lenZetaD v 3) s))⟩
]

def dbgTargets : List Target := [
  ⟨"dbg_read_bits", do
    let r ← rb; let n ← nat
    pure (cmp (Gen.DbgBitReader.read_bits RB.impl r n) (RB.impl.readBits r n))⟩,
  ⟨"dbg_peek_bits", do
    let r ← rb; let n ← nat
    pure (cmp (Gen.DbgBitReader.peek_bits RB.impl r n) (RB.impl.peekBits r n))⟩,
  ⟨"dbg_read_unary", do
    let r ← rb
    pure (cmp (Gen.DbgBitReader.read_unary RB.impl r) (RB.impl.readUnary r))⟩,
  ⟨"dbg_skip_bits", do
    let r ← rb; let n ← nat
    pure (cmp (Gen.DbgBitReader.skip_bits RB.impl r n) (RB.impl.skipBits r n))⟩,
  ⟨"dbg_skip_bits_after_peek", do
    let r ← rb; let n ← nat
    pure (cmp (Gen.DbgBitReader.skip_bits_after_peek RB.impl r n) (RB.impl.skipAfterPeek r n))⟩,
  ⟨"dbg_write_bits", do
    let w ← wb; let v ← nat; let n ← nat
    pure (cmp (Gen.DbgBitWriter.write_bits WB.impl w v n) (WB.impl.writeBits w v n))⟩,
  ⟨"dbg_write_unary", do
    let w ← wb; let x ← nat
    pure (cmp (Gen.DbgBitWriter.write_unary WB.impl w x) (WB.impl.writeUnary w x))⟩,
  ⟨"dbg_flush", do
    let w ← wb
    pure (cmp (Gen.DbgBitWriter.flush WB.impl w) (WB.impl.flush w))⟩,
  ⟨"dbg_read_gamma", do
    let r ← rb
    pure (cmp (Gen.DbgBitReader.read_gamma (inner_read_gamma := fun i => innerR.run RB.impl i) r) (innerR.run RB.impl r))⟩,
  ⟨"dbg_read_delta", do
    let r ← rb
    pure (cmp (Gen.DbgBitReader.read_delta (inner_read_delta := fun i => innerR.run RB.impl i) r) (innerR.run RB.impl r))⟩,
  ⟨"dbg_read_zeta", do
    let r ← rb; let k ← nat
    pure (cmp (Gen.DbgBitReader.read_zeta (inner_read_zeta := fun i k => (innerR2 k).run RB.impl i) r k)
      ((innerR2 k).run RB.impl r))⟩,
  ⟨"dbg_read_zeta3", do
    let r ← rb
    pure (cmp (Gen.DbgBitReader.read_zeta3 (inner_read_zeta3 := fun i => innerR.run RB.impl i) r) (innerR.run RB.impl r))⟩,
  ⟨"dbg_write_gamma", do
    let w ← wb; let v ← nat
    pure (cmp (Gen.DbgBitWriter.write_gamma (inner_write_gamma := fun i v => (innerW v).run WB.impl i) w v)
      ((innerW v).run WB.impl w))⟩,
  ⟨"dbg_write_delta", do
    let w ← wb; let v ← nat
    pure (cmp (Gen.DbgBitWriter.write_delta (inner_write_delta := fun i v => (innerW v).run WB.impl i) w v)
      ((innerW v).run WB.impl w))⟩,
  ⟨"dbg_write_zeta", do
    let w ← wb; let v ← nat; let k ← nat
    pure (cmp (Gen.DbgBitWriter.write_zeta (inner_write_zeta := fun i v k => (innerW2 v k).run WB.impl i) w v k)
      ((innerW2 v k).run WB.impl w))⟩,
  ⟨"dbg_write_zeta3", do
    let w ← wb; let v ← nat
    pure (cmp (Gen.DbgBitWriter.write_zeta3 (inner_write_zeta3 := fun i v => (innerW v).run WB.impl i) w v)
      ((innerW v).run WB.impl w))⟩,
  ⟨"dbg_methods", do
    pure (cmp (Gen.DbgBitReader.methods, Gen.DbgBitWriter.methods)
      (["BitRead::peek_bits", "BitRead::read_bits", "BitRead::read_unary", "BitRead::skip_bits",
        "BitRead::skip_bits_after_peek", "DeltaRead::read_delta", "GammaRead::read_gamma", "Self::new",
        "ZetaRead::read_zeta", "ZetaRead::read_zeta3"],
       ["BitWrite::flush", "BitWrite::write_bits", "BitWrite::write_unary", "DeltaWrite::write_delta",
        "GammaWrite::write_gamma", "Self::new", "ZetaWrite::write_zeta", "ZetaWrite::write_zeta3"]))⟩
]

/-! ### statistics -/

open Gen.StatsBodies

/-- a `Stats` value: `U<updates>` (the hand model's `applyUpdates` from `default()`, e.g. `U5:2,9:1`,
    `U-` for the empty statistics) or the eleven fields
    `total unary gamma delta omega vbyte zeta golomb exp_golomb rice pi` (lists `a,b,c` or `-`) -/
def stats : P Stats := do
  let t ← tok
  match t.toList with
  | 'U' :: rest =>
    match parseUpdates? (String.ofList rest) with
    | some us => pure (applyUpdates Stats.empty us)
    | none => throw "bad-args"
  | _ =>
    match num? t with
    | none => throw "bad-args"
    | some total =>
      let unary ← nat; let gamma ← nat; let delta ← nat; let omega ← nat; let vbyte ← nat
      let zeta ← nats; let golomb ← nats; let eg ← nats; let rice ← nats; let pi ← nats
      pure { total := total, unary := unary, gamma := gamma, delta := delta, omega := omega, vbyte := vbyte,
             zeta := zeta, golomb := golomb, expGolomb := eg, rice := rice, pi := pi }

def small (s : Stats) : Bool :=
  s.zeta.length + 2 < 2 ^ 64 && s.golomb.length + 2 < 2 ^ 64 && s.expGolomb.length + 2 < 2 ^ 64 &&
  s.rice.length + 2 < 2 ^ 64 && s.pi.length + 2 < 2 ^ 64

def sameShape (s r : Stats) : Bool :=
  s.zeta.length = r.zeta.length && s.golomb.length = r.golomb.length &&
  s.expGolomb.length = r.expGolomb.length && s.rice.length = r.rice.length && s.pi.length = r.pi.length

def foldFits : Stats → List Stats → Bool
  | _, [] => true
  | acc, r :: rs => sameShape acc r && (acc.add r).fits && foldFits (acc.add r) rs

/-- `runUpdates` of lean/Dsi/Props/StatsGen.lean -/
def runUpdates (s : Stats) : List (Nat × Nat) → Res Stats
  | [] => .ok s
  | u :: us => Res.bind (CodesStats.update_many s u.1 u.2) fun r => runUpdates r.2 us

def prefixesFit (us : List (Nat × Nat)) : Bool :=
  (List.range (us.length + 1)).all fun k => (applyUpdates Stats.empty (us.take k)).fits

instance {W} [Sh W] : Sh (StatsWrapper W) :=
  ⟨fun w => s!"(stats={sh w.stats.val} poisoned={sh w.stats.poisoned} wrapped={sh w.wrapped})"⟩

def statsWrapper : P (StatsWrapper Unit) := do
  let po ← bool; let s ← stats
  pure { stats := { val := s, poisoned := po }, wrapped := () }

def statsTargets : List Target := [
  ⟨"stats_update_many", do
    let s ← stats; let n ← nat; let c ← nat
    hyp (n < 2 ^ 64 - 1 && small s && (s.updateMany n c).fits)
    pure (cmp (CodesStats.update_many s n c) (.ok (n, s.updateMany n c)))⟩,
  ⟨"stats_update", do
    let s ← stats; let n ← nat
    hyp (small s && (s.update n).fits)
    pure (cmp (CodesStats.update s n) (.ok (n, s.update n)))⟩,
  ⟨"stats_add", do
    let s ← stats; let r ← stats; hyp (sameShape s r && (s.add r).fits)
    pure (cmp (CodesStats.add s r) (.ok (s.add r)))⟩,
  ⟨"stats_add_assign", do
    let s ← stats; let r ← stats; hyp (sameShape s r && (s.add r).fits)
    pure (cmp (CodesStats.AddAssign.add_assign s r) (.ok (s.add r)))⟩,
  ⟨"stats_add_trait", do
    let s ← stats; let r ← stats; hyp (sameShape s r && (s.add r).fits)
    pure (cmp (CodesStats.Add.add s r) (.ok (s.add r)))⟩,
  ⟨"stats_default", do
    pure (cmp (CodesStats.Default.default Gen.Stats.ZETA Gen.Stats.GOLOMB Gen.Stats.EXP_GOLOMB Gen.Stats.RICE Gen.Stats.PI)
      (.ok Stats.empty))⟩,
  ⟨"stats_sum", do
    let k ← nat; capIf (k > 64)
    let l ← (List.range k).mapM fun _ => stats
    hyp (foldFits Stats.empty l)
    pure (cmp (CodesStats.Sum.sum Gen.Stats.ZETA Gen.Stats.GOLOMB Gen.Stats.EXP_GOLOMB Gen.Stats.RICE Gen.Stats.PI l)
      (.ok (Stats.sum l)))⟩,
  ⟨"stats_best_code", do
    let s ← stats; hyp (small s)
    pure (cmp (CodesStats.best_code s) (.ok s.bestCode))⟩,
  ⟨"stats_run_updates", do
    let t ← tok
    match parseUpdates? t with
    | none => throw "bad-args"
    | some us =>
      capIf (us.length > 256)
      hyp (us.all (fun u => u.1 < 2 ^ 64 - 1) && prefixesFit us)
      pure (cmp (runUpdates Stats.empty us) (.ok (Stats.exact us)))⟩,
  ⟨"stats_wrapper_new", do
    pure (cmp (CodesStatsWrapper.new Gen.Stats.ZETA Gen.Stats.GOLOMB Gen.Stats.EXP_GOLOMB Gen.Stats.RICE Gen.Stats.PI ())
      (.ok { stats := { val := Stats.empty, poisoned := false }, wrapped := () }))⟩,
  ⟨"stats_wrapper_into_inner", do
    let w ← statsWrapper
    pure (cmp (CodesStatsWrapper.into_inner w) (if w.stats.poisoned then .panic else .ok (w.wrapped, w.stats.val)))⟩,
  ⟨"stats_read_dyn", do
    let w ← statsWrapper; let r ← rb
    let inner : RB → Res (Nat × RB) := fun r => RB.impl.readUnary r
    match inner r with
    | .ok x => hyp ((w.stats.val.update x.1).fits)
    | _ => pure ()
    hyp (small w.stats.val)
    pure (cmp (CodesStatsWrapper.DynamicCodeRead.read inner w r) (StatsWrapper.read inner w r))⟩,
  ⟨"stats_read_static", do
    let w ← statsWrapper; let r ← rb
    let inner : RB → Res (Nat × RB) := fun r => RB.impl.readUnary r
    match inner r with
    | .ok x => hyp ((w.stats.val.update x.1).fits)
    | _ => pure ()
    hyp (small w.stats.val)
    pure (cmp (CodesStatsWrapper.StaticCodeRead.read inner w r) (StatsWrapper.read inner w r))⟩,
  ⟨"stats_write_dyn", do
    let w ← statsWrapper; let wr ← wb; let v ← nat
    let inner : WB → Nat → Res (Nat × WB) := fun w v => WB.impl.writeUnary w v
    match inner wr v with
    | .ok _ => hyp ((w.stats.val.update v).fits)
    | _ => pure ()
    hyp (small w.stats.val)
    pure (cmp (CodesStatsWrapper.DynamicCodeWrite.write inner w wr v) (StatsWrapper.write inner w wr v))⟩,
  ⟨"stats_write_static", do
    let w ← statsWrapper; let wr ← wb; let v ← nat
    let inner : WB → Nat → Res (Nat × WB) := fun w v => WB.impl.writeUnary w v
    match inner wr v with
    | .ok _ => hyp ((w.stats.val.update v).fits)
    | _ => pure ()
    hyp (small w.stats.val)
    pure (cmp (CodesStatsWrapper.StaticCodeWrite.write inner w wr v) (StatsWrapper.write inner w wr v))⟩
]

end Dsi.GH
