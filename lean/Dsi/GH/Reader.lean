/-
  GH targets: `BufBitReader` (lean/Dsi/Props/BufReaderGen.lean), `BitReader`
  (lean/Dsi/Props/BitReaderGen.lean), the in-memory word streams (lean/Dsi/Props/MemWordGen.lean).
  State arguments: `W buffer bib data pos strict` (BufR), `data pos strict bitIndex` (BitR),
  `W data pos strict` (MemR), `W data pos growable` (MemW).
-/
import Dsi.GH.Core
import Dsi.Gen.BufReaderBodies
import Dsi.Gen.BitReaderBodies
import Dsi.Gen.MemWordBodies
namespace Dsi.GH
open Dsi

/-- a zero-extended backend never runs out: skipping is linear in `n / W` there -/
def skipCap {W : Nat} (m : MemR W) (n : Nat) : P Unit := capIf (!m.strict && n > 2 ^ 22)

/-- a shift by an astronomically large bit count would be materialised (`x <<< n` on `Nat`) -/
def ncap (n : Nat) : P Unit := capIf (n > 65536)

/-- a unary read scans the remaining words (each one is looked at once) -/
def scanCap {W : Nat} (m : MemR W) : P Unit := capIf (m.data.length > 65536)

def bufReaderTargets : List Target := [
  ⟨"bufr_refill_be", do let ⟨W, s⟩ ← bufR; hyp (0 < W); pure (cmp (Gen.BufR.refill_be s) (BufR.refillBE s))⟩,
  ⟨"bufr_refill_le", do let ⟨W, s⟩ ← bufR; hyp (0 < W); pure (cmp (Gen.BufR.refill_le s) (BufR.refillLE s))⟩,
  ⟨"bufr_peek_bits_be", do
    let ⟨W, s⟩ ← bufR; let n ← nat; hyp (0 < W); ncap n
    pure (cmp (natOut (Gen.BufR.peek_bits_be s n)) (BufR.peekBitsBE s n))⟩,
  ⟨"bufr_peek_bits_le", do
    let ⟨W, s⟩ ← bufR; let n ← nat; hyp (0 < W); ncap n
    pure (cmp (natOut (Gen.BufR.peek_bits_le s n)) (BufR.peekBitsLE s n))⟩,
  ⟨"bufr_skip_bits_after_peek_be", do
    let ⟨_, s⟩ ← bufR; let n ← nat; ncap n
    pure (cmp (Gen.BufR.skip_bits_after_peek_be s n) (.ok (BufR.skipAfterPeekBE s n)))⟩,
  ⟨"bufr_skip_bits_after_peek_le", do
    let ⟨_, s⟩ ← bufR; let n ← nat; ncap n
    pure (cmp (Gen.BufR.skip_bits_after_peek_le s n) (.ok (BufR.skipAfterPeekLE s n)))⟩,
  ⟨"bufr_read_bits_be", do
    let ⟨W, s⟩ ← bufR; let n ← nat; hyp (0 < W && s.bib < 2 * W); ncap n
    pure (cmp (natOut (Gen.BufR.read_bits_be s n)) (BufR.readBitsBE s n))⟩,
  ⟨"bufr_read_bits_le", do
    let ⟨W, s⟩ ← bufR; let n ← nat; hyp (0 < W && s.bib < 2 * W); ncap n
    pure (cmp (natOut (Gen.BufR.read_bits_le s n)) (BufR.readBitsLE s n))⟩,
  ⟨"bufr_read_unary_be", do
    let ⟨W, s⟩ ← bufR
    hyp (s.bib < 2 * W && s.bib + (s.back.data.length + 2 - s.back.pos) * W < 2 ^ 64); scanCap s.back
    pure (cmp (natOut (Gen.BufR.read_unary_be s)) (BufR.readUnaryBE s))⟩,
  ⟨"bufr_read_unary_le", do
    let ⟨W, s⟩ ← bufR
    hyp (s.bib < 2 * W && s.bib + (s.back.data.length + 2 - s.back.pos) * W < 2 ^ 64); scanCap s.back
    pure (cmp (natOut (Gen.BufR.read_unary_le s)) (BufR.readUnaryLE s))⟩,
  ⟨"bufr_skip_bits_be", do
    let ⟨W, s⟩ ← bufR; let n ← nat; hyp (s.bib < 2 * W); skipCap s.back n
    pure (cmp (Gen.BufR.skip_bits_be s n) (BufR.skipBitsBE s n))⟩,
  ⟨"bufr_skip_bits_le", do
    let ⟨W, s⟩ ← bufR; let n ← nat; hyp (s.bib < 2 * W); skipCap s.back n
    pure (cmp (Gen.BufR.skip_bits_le s n) (BufR.skipBitsLE s n))⟩,
  ⟨"bufr_set_bit_pos_be", do
    let ⟨W, s⟩ ← bufR; let p ← bv 64; hyp (W < 2 ^ 64)
    pure (cmp (Gen.BufR.set_bit_pos_be s p) (BufR.setBitPosBE s p.toNat))⟩,
  ⟨"bufr_set_bit_pos_le", do
    let ⟨W, s⟩ ← bufR; let p ← bv 64; hyp (W < 2 ^ 64)
    pure (cmp (Gen.BufR.set_bit_pos_le s p) (BufR.setBitPosLE s p.toNat))⟩,
  ⟨"bufr_bit_pos_be", do
    let ⟨W, s⟩ ← bufR; hyp (s.back.pos * W < 2 ^ 64 && s.bib ≤ s.back.pos * W)
    pure (cmp (natOut (Gen.BufR.bit_pos_be s)) (.ok (s.bitPos, s)))⟩,
  ⟨"bufr_bit_pos_le", do
    let ⟨W, s⟩ ← bufR; hyp (s.back.pos * W < 2 ^ 64 && s.bib ≤ s.back.pos * W)
    pure (cmp (natOut (Gen.BufR.bit_pos_le s)) (.ok (s.bitPos, s)))⟩
]

def bitReaderTargets : List Target := [
  ⟨"bitr_skip_bits_be", do
    let s ← bitR; let n ← nat; hyp (s.bitIndex + n < 2 ^ 64)
    pure (cmp (Gen.BitR.skip_bits_be s n) (BitR.skipBits s n))⟩,
  ⟨"bitr_skip_bits_le", do
    let s ← bitR; let n ← nat; hyp (s.bitIndex + n < 2 ^ 64)
    pure (cmp (Gen.BitR.skip_bits_le s n) (BitR.skipBits s n))⟩,
  ⟨"bitr_read_bits_be", do
    let s ← bitR; let n ← nat; hyp (s.bitIndex + n < 2 ^ 64); ncap n
    pure (cmp (natOut (Gen.BitR.read_bits_be s n)) (BitR.readBits .be s n))⟩,
  ⟨"bitr_read_bits_le", do
    let s ← bitR; let n ← nat; hyp (s.bitIndex + n < 2 ^ 64); ncap n
    pure (cmp (natOut (Gen.BitR.read_bits_le s n)) (BitR.readBits .le s n))⟩,
  ⟨"bitr_peek_bits_be", do
    let s ← bitR; let n ← nat; hyp (s.bitIndex < 2 ^ 64); ncap n
    pure (cmp (Gen.BitR.peek_bits_be s n) (BitR.peekBits .be s n))⟩,
  ⟨"bitr_peek_bits_le", do
    let s ← bitR; let n ← nat; hyp (s.bitIndex < 2 ^ 64); ncap n
    pure (cmp (Gen.BitR.peek_bits_le s n) (BitR.peekBits .le s n))⟩,
  ⟨"bitr_skip_bits_after_peek_be", do
    let s ← bitR; let n ← nat; hyp (s.bitIndex + n < 2 ^ 64)
    pure (cmp (Gen.BitR.skip_bits_after_peek_be s n) (.ok (BitR.skipAfterPeek s n)))⟩,
  ⟨"bitr_skip_bits_after_peek_le", do
    let s ← bitR; let n ← nat; hyp (s.bitIndex + n < 2 ^ 64)
    pure (cmp (Gen.BitR.skip_bits_after_peek_le s n) (.ok (BitR.skipAfterPeek s n)))⟩,
  ⟨"bitr_bit_pos_be", do
    let s ← bitR; hyp (s.bitIndex < 2 ^ 64)
    pure (cmp (natOut (Gen.BitR.bit_pos_be s)) (.ok (s.bitPos, s)))⟩,
  ⟨"bitr_bit_pos_le", do
    let s ← bitR; hyp (s.bitIndex < 2 ^ 64)
    pure (cmp (natOut (Gen.BitR.bit_pos_le s)) (.ok (s.bitPos, s)))⟩,
  ⟨"bitr_set_bit_pos_be", do
    let s ← bitR; let p ← bv 64
    pure (cmp (Gen.BitR.set_bit_pos_be s p) (.ok (BitR.setBitPos s p.toNat)))⟩,
  ⟨"bitr_set_bit_pos_le", do
    let s ← bitR; let p ← bv 64
    pure (cmp (Gen.BitR.set_bit_pos_le s p) (.ok (BitR.setBitPos s p.toNat)))⟩,
  ⟨"bitr_read_unary_be", do
    let s ← bitR; hyp (s.bitIndex + (s.data.data.length + 3) * 64 < 2 ^ 64); scanCap s.data
    pure (cmp (natOut (Gen.BitR.read_unary_be s)) (BitR.readUnary .be s))⟩,
  ⟨"bitr_read_unary_le", do
    let s ← bitR; hyp (s.bitIndex + (s.data.data.length + 3) * 64 < 2 ^ 64); scanCap s.data
    pure (cmp (natOut (Gen.BitR.read_unary_le s)) (BitR.readUnary .le s))⟩
]

def memTargets : List Target := [
  ⟨"memr_read_word_inf", do
    let W ← nat; let m ← memR W; hyp (m.strict = false)
    pure (cmp (Gen.MemR.read_word_inf m) m.readWord)⟩,
  ⟨"memr_read_word_strict", do
    let W ← nat; let m ← memR W; hyp (m.strict = true)
    pure (cmp (Gen.MemR.read_word_strict m) m.readWord)⟩,
  ⟨"memr_word_pos_inf", do
    let W ← nat; let m ← memR W; hyp (m.pos < 2 ^ 64)
    pure (cmp (natOut (Gen.MemR.word_pos_inf m)) (.ok (m.wordPos, m)))⟩,
  ⟨"memr_word_pos_strict", do
    let W ← nat; let m ← memR W; hyp (m.pos < 2 ^ 64)
    pure (cmp (natOut (Gen.MemR.word_pos_strict m)) (.ok (m.wordPos, m)))⟩,
  ⟨"memr_set_word_pos_inf", do
    let W ← nat; let m ← memR W; let p ← bv 64; hyp (m.strict = false)
    pure (cmp (Gen.MemR.set_word_pos_inf m p) (m.setWordPos p.toNat))⟩,
  ⟨"memr_set_word_pos_strict", do
    let W ← nat; let m ← memR W; let p ← bv 64; hyp (m.strict = true && m.data.length < 2 ^ 64)
    pure (cmp (Gen.MemR.set_word_pos_strict m p) (m.setWordPos p.toNat))⟩,
  ⟨"memw_read_word_slice", do let ⟨_, m⟩ ← memW; pure (cmp (Gen.MemW.read_word_slice m) m.readWord)⟩,
  ⟨"memw_read_word_vec", do let ⟨_, m⟩ ← memW; pure (cmp (Gen.MemW.read_word_vec m) m.readWord)⟩,
  ⟨"memw_word_pos_slice", do
    let ⟨_, m⟩ ← memW; hyp (m.pos < 2 ^ 64)
    pure (cmp (natOut (Gen.MemW.word_pos_slice m)) (.ok (m.wordPos, m)))⟩,
  ⟨"memw_word_pos_vec", do
    let ⟨_, m⟩ ← memW; hyp (m.pos < 2 ^ 64)
    pure (cmp (natOut (Gen.MemW.word_pos_vec m)) (.ok (m.wordPos, m)))⟩,
  ⟨"memw_set_word_pos_slice", do
    let ⟨_, m⟩ ← memW; let p ← bv 64; hyp (m.data.length < 2 ^ 64)
    pure (cmp (Gen.MemW.set_word_pos_slice m p) (m.setWordPos p.toNat))⟩,
  ⟨"memw_set_word_pos_vec", do
    let ⟨_, m⟩ ← memW; let p ← bv 64; hyp (m.data.length < 2 ^ 64)
    pure (cmp (Gen.MemW.set_word_pos_vec m p) (m.setWordPos p.toNat))⟩,
  ⟨"memw_len_slice", do let ⟨_, m⟩ ← memW; pure (cmp (Gen.MemW.len_slice m) m.len)⟩,
  ⟨"memw_len_vec", do let ⟨_, m⟩ ← memW; pure (cmp (Gen.MemW.len_vec m) m.len)⟩,
  -- writing beyond the end of a growable vector resizes it: linear in the position
  ⟨"memw_write_word_slice", do
    let ⟨W, m⟩ ← memW; let w ← bv W; hyp (m.growable = false)
    pure (cmp (Gen.MemW.write_word_slice m w) (m.writeWord w))⟩,
  ⟨"memw_write_word_vec", do
    let ⟨W, m⟩ ← memW; let w ← bv W; hyp (m.growable = true); capIf (m.pos > 65536)
    pure (cmp (Gen.MemW.write_word_vec m w) (m.writeWord w))⟩
]

end Dsi.GH
