/-
  GH targets: the code readers / writers as programs over `BitRead` / `BitWrite`
  (lean/Dsi/Props/CodeBodiesGen.lean, OmegaGen.lean, VByteGen.lean, TableFnsGen.lean).

  A writer target takes a back end (`T` trace, or `R<e>,<W>,<checks>,<cap>` reference writer) after
  its own arguments; a reader target takes `M<script>` or `R<e>,<strict>,<peekMax>,<pos>,<hex>`.
  Writers: the theorems are equalities of programs, so both are run on the back end and compared.
  Readers: the theorems are `Guarded hand gen`; by `Guarded.sound` the hand program panics or equals
  the generated one on every implementation honouring the `read_bits` contract (both back ends do).
-/
import Dsi.GH.Core
import Dsi.Defaults
import Dsi.Gen.CodeBodies
import Dsi.Gen.OmegaBodies
import Dsi.Gen.VByteBodies
import Dsi.Gen.TableFns
namespace Dsi.GH
open Dsi

def pcap2 (k : Nat) : P Unit := capIf (k > 65536)

def wrun {α} [Sh α] (gen hand : WProg α) : P String := do
  let w ← wb
  pure (cmp (gen.run WB.impl w) (hand.run WB.impl w))

def rrunG {α} [Sh α] (gen hand : RProg α) : P String := do
  let r ← rb
  -- the hand side first: where it panics nothing is claimed (and the generated program, which has
  -- no panic points, may shift by an astronomically large amount there)
  match hand.run RB.impl r with
  | .panic => pure "-"
  | .dpanic => pure "-"
  | h => pure (cmp (gen.run RB.impl r) h)

def rrun {α} [Sh α] (gen hand : RProg α) : P String := do
  let r ← rb
  pure (cmp (gen.run RB.impl r) (hand.run RB.impl r))

/-! `x_tables::read_table_be / le` … by endianness (lean/Dsi/Props/TableFnsGen.lean) -/
def gammaReadTable : Endian → RProg (Option (Nat × Nat))
  | .be => Gen.Gamma.read_table_be
  | .le => Gen.Gamma.read_table_le
def deltaReadTable : Endian → RProg (Option (Nat × Nat))
  | .be => Gen.Delta.read_table_be
  | .le => Gen.Delta.read_table_le
def zetaReadTable : Endian → RProg (Option (Nat × Nat))
  | .be => Gen.Zeta.read_table_be
  | .le => Gen.Zeta.read_table_le
def gammaLenTable : Endian → RProg (Option Nat)
  | .be => Gen.Gamma.len_table_be
  | .le => Gen.Gamma.len_table_le
def deltaLenTable : Endian → RProg (Option Nat)
  | .be => Gen.Delta.len_table_be
  | .le => Gen.Delta.len_table_le
def zetaLenTable : Endian → RProg (Option Nat)
  | .be => Gen.Zeta.len_table_be
  | .le => Gen.Zeta.len_table_le
def gammaWriteTable : Endian → Nat → WProg (Option Nat)
  | .be => Gen.Gamma.write_table_be
  | .le => Gen.Gamma.write_table_le
def deltaWriteTable : Endian → Nat → WProg (Option Nat)
  | .be => Gen.Delta.write_table_be
  | .le => Gen.Delta.write_table_le
def zetaWriteTable : Endian → Nat → WProg (Option Nat)
  | .be => Gen.Zeta.write_table_be
  | .le => Gen.Zeta.write_table_le
def orElseR (fb : RProg Nat) : Option (Nat × Nat) → RProg Nat
  | some (res, _) => .ret res
  | none => fb
def orElseW (fb : WProg Nat) : Option Nat → WProg Nat
  | some len => .ret len
  | none => fb
def readGammaParam : Endian → Bool → RProg Nat
  | .be => Gen.read_gamma_param_be
  | .le => Gen.read_gamma_param_le
def writeGammaParam : Endian → Bool → Bool → Nat → WProg Nat
  | .be => Gen.write_gamma_param_be
  | .le => Gen.write_gamma_param_le
def readDeltaParam : Endian → Bool → Bool → RProg Nat
  | .be => Gen.read_delta_param_be
  | .le => Gen.read_delta_param_le
def writeDeltaParam : Endian → Bool → Bool → Bool → Nat → WProg Nat
  | .be => Gen.write_delta_param_be
  | .le => Gen.write_delta_param_le
def readZetaParam : Endian → Nat → RProg Nat
  | .be => Gen.read_zeta_param_be
  | .le => Gen.read_zeta_param_le
def readZeta3Param : Endian → Bool → RProg Nat
  | .be => Gen.read_zeta3_param_be
  | .le => Gen.read_zeta3_param_le
def writeZetaParam : Endian → Bool → Nat → Nat → WProg Nat
  | .be => Gen.write_zeta_param_be
  | .le => Gen.write_zeta_param_le
def writeZeta3Param : Endian → Bool → Nat → WProg Nat
  | .be => Gen.write_zeta3_param_be
  | .le => Gen.write_zeta3_param_le

/-- the fall-back program used to exercise the table readers / writers: one unary access -/
def fbR : RProg Nat := RProg.runary
def fbW : WProg Nat := WProg.wunary 7

def codeWriteTargets : List Target := [
  ⟨"write_rice", do
    let ch ← bool; let n ← nat; let k ← nat; hyp (k < 64)
    wrun (Gen.write_rice ch n k) (writeRice ch n k)⟩,
  ⟨"write_pi", do
    let ch ← bool; let n ← nat; let k ← nat; hyp (n < 2 ^ 64 - 1 && k < 64)
    wrun (Gen.write_pi ch n k) (writePi ch n k)⟩,
  ⟨"write_minimal_binary", do
    let n ← nat; let max ← nat; hyp (max ≠ 0 && n + mbLimit max < 2 ^ 64)
    wrun (Gen.write_minimal_binary n max) (writeMinimalBinary n max)⟩,
  ⟨"write_golomb", do
    let n ← nat; let b ← nat; hyp (b ≠ 0 && b < 2 ^ 64)
    wrun (Gen.write_golomb n b) (writeGolomb n b)⟩,
  ⟨"write_exp_golomb", do
    let e ← endian; let ch ← bool; let t ← bool; let n ← nat; let k ← nat; hyp (k < 64)
    let gtab := opt t (gammaWTab e)
    wrun (Gen.write_exp_golomb (writeGamma ch gtab) ch n k) (writeExpGolomb ch gtab n k)⟩,
  ⟨"default_write_gamma", do
    let ch ← bool; let n ← nat; hyp (n < 2 ^ 64 - 1)
    wrun (Gen.default_write_gamma ch n) (writeGammaDefault ch n)⟩,
  ⟨"default_write_delta", do
    let e ← endian; let ch ← bool; let tg ← bool; let n ← nat; hyp (n < 2 ^ 64 - 1)
    wrun (Gen.default_write_delta (fun t m => writeGammaP e ch t m) ch tg n)
      (writeDeltaDefault ch (opt tg (gammaWTab e)) n)⟩,
  ⟨"default_write_zeta", do
    let n ← nat; let k ← nat; hyp (n < 2 ^ 64 - 1 && k ≠ 0 && k < 64)
    wrun (Gen.default_write_zeta n k) (writeZetaDefault n k)⟩,
  ⟨"recursive_write", do
    let e ← endian; let ch ← bool; let fuel ← nat; let n ← nat; hyp (n < 2 ^ 64); capIf (fuel > 64)
    wrun (Gen.recursive_write fuel e ch n) (omegaWriteRec e ch fuel n)⟩,
  ⟨"write_omega", do
    let e ← endian; let ch ← bool; let n ← nat; hyp (n < 2 ^ 64 - 1)
    wrun (Gen.write_omega e ch n) (writeOmega e ch n)⟩,
  ⟨"write_vbyte_be", do
    let v ← nat; hyp (v < 2 ^ 64)
    wrun (Gen.write_vbyte_be v) (writeVByteBe v)⟩,
  ⟨"write_vbyte_le", do
    let v ← nat; hyp (v < 2 ^ 64)
    wrun (Gen.write_vbyte_le v) (writeVByteLe v)⟩,
  -- tables and the `*Param` impls
  ⟨"gamma_write_table", do
    let e ← endian; let n ← nat
    wrun ((gammaWriteTable e n).bind (orElseW fbW)) (writeTable (gammaWTab e) n fbW)⟩,
  ⟨"delta_write_table", do
    let e ← endian; let n ← nat
    wrun ((deltaWriteTable e n).bind (orElseW fbW)) (writeTable (deltaWTab e) n fbW)⟩,
  ⟨"zeta_write_table", do
    let e ← endian; let n ← nat
    wrun ((zetaWriteTable e n).bind (orElseW fbW)) (writeTable (zetaWTab e) n fbW)⟩,
  ⟨"write_gamma_param", do
    let e ← endian; let ch ← bool; let t ← bool; let n ← nat; hyp (n < 2 ^ 64 - 1)
    wrun (writeGammaParam e ch t n) (writeGammaP e ch t n)⟩,
  ⟨"write_delta_param", do
    let e ← endian; let ch ← bool; let td ← bool; let tg ← bool; let n ← nat; hyp (n < 2 ^ 64 - 1)
    wrun (writeDeltaParam e ch td tg n) (writeDeltaP e ch td tg n)⟩,
  ⟨"default_write_delta_param", do
    let e ← endian; let ch ← bool; let tg ← bool; let n ← nat; hyp (n < 2 ^ 64 - 1)
    wrun (Gen.default_write_delta (writeGammaParam e ch) ch tg n)
      (writeDeltaDefault ch (opt tg (gammaWTab e)) n)⟩,
  ⟨"write_zeta_param", do
    let e ← endian; let t ← bool; let n ← nat; let k ← nat; hyp (n < 2 ^ 64 - 1 && k ≠ 0 && k < 64)
    wrun (writeZetaParam e t n k) (writeZetaDefault n k)⟩,
  ⟨"write_zeta3_param", do
    let e ← endian; let t ← bool; let n ← nat; hyp (n < 2 ^ 64 - 1)
    wrun (writeZeta3Param e t n) (writeZeta3P e t n)⟩
]

def codeReadTargets : List Target := [
  ⟨"read_rice", do let k ← nat; pcap2 k; rrunG (Gen.read_rice k) (readRice k)⟩,
  ⟨"read_pi", do let k ← nat; pcap2 k; rrunG (Gen.read_pi k) (readPi k)⟩,
  ⟨"read_minimal_binary", do let max ← nat; rrunG (Gen.read_minimal_binary max) (readMinimalBinary max)⟩,
  ⟨"read_golomb", do let b ← nat; rrunG (Gen.read_golomb b) (readGolomb b)⟩,
  ⟨"read_exp_golomb", do
    let e ← endian; let t ← bool; let k ← nat; pcap2 k
    let gtab := opt t (gammaRTab e)
    rrunG (Gen.read_exp_golomb (readGamma gtab) k) (readExpGolomb gtab k)⟩,
  ⟨"default_read_gamma", do rrunG Gen.default_read_gamma readGammaDefault⟩,
  ⟨"default_read_delta", do
    let e ← endian; let tg ← bool
    rrunG (Gen.default_read_delta (fun t => readGammaP e t) tg) (readDeltaDefault (opt tg (gammaRTab e)))⟩,
  ⟨"default_read_zeta", do let k ← nat; pcap2 k; rrunG (Gen.default_read_zeta k) (readZetaDefault k)⟩,
  ⟨"read_omega_loop", do
    let e ← endian; let fuel ← nat; let n ← nat; capIf (fuel > 64)
    rrunG (Gen.read_omega_loop1 fuel e n) (omegaReadLoop e fuel n)⟩,
  ⟨"read_omega", do let e ← endian; rrunG (Gen.read_omega e) (readOmega e)⟩,
  ⟨"read_vbyte_be", do let fuel ← nat; capIf (fuel > 64); rrunG (Gen.read_vbyte_be fuel) (readVByteBe fuel)⟩,
  ⟨"read_vbyte_le", do let fuel ← nat; capIf (fuel > 64); rrunG (Gen.read_vbyte_le fuel) (readVByteLe fuel)⟩,
  -- tables and the `*Param` impls
  ⟨"gamma_read_table", do
    let e ← endian; hyp ((gammaRTab e).vals.size = (gammaRTab e).lens.size)
    rrun ((gammaReadTable e).bind (orElseR fbR)) (readTable (gammaRTab e) fbR)⟩,
  ⟨"delta_read_table", do
    let e ← endian; hyp ((deltaRTab e).vals.size = (deltaRTab e).lens.size)
    rrun ((deltaReadTable e).bind (orElseR fbR)) (readTable (deltaRTab e) fbR)⟩,
  ⟨"zeta_read_table", do
    let e ← endian; hyp ((zetaRTab e).vals.size = (zetaRTab e).lens.size)
    rrun ((zetaReadTable e).bind (orElseR fbR)) (readTable (zetaRTab e) fbR)⟩,
  ⟨"gamma_len_table", do
    let e ← endian; hyp ((gammaRTab e).vals.size = (gammaRTab e).lens.size)
    rrun (gammaLenTable e) ((gammaReadTable e).bind fun o => .ret (o.map Prod.snd))⟩,
  ⟨"delta_len_table", do
    let e ← endian; hyp ((deltaRTab e).vals.size = (deltaRTab e).lens.size)
    rrun (deltaLenTable e) ((deltaReadTable e).bind fun o => .ret (o.map Prod.snd))⟩,
  ⟨"zeta_len_table", do
    let e ← endian; hyp ((zetaRTab e).vals.size = (zetaRTab e).lens.size)
    rrun (zetaLenTable e) ((zetaReadTable e).bind fun o => .ret (o.map Prod.snd))⟩,
  ⟨"read_gamma_param", do
    let e ← endian; let t ← bool
    rrunG (readGammaParam e t) (readGammaP e t)⟩,
  ⟨"read_delta_param", do
    let e ← endian; let td ← bool; let tg ← bool
    rrunG (readDeltaParam e td tg) (readDeltaP e td tg)⟩,
  ⟨"default_read_delta_param", do
    let e ← endian; let tg ← bool
    rrunG (Gen.default_read_delta (readGammaParam e) tg) (readDeltaDefault (opt tg (gammaRTab e)))⟩,
  ⟨"read_zeta_param", do
    let e ← endian; let k ← nat; pcap2 k
    rrunG (readZetaParam e k) (readZetaDefault k)⟩,
  ⟨"read_zeta3_param", do
    let e ← endian; let t ← bool
    rrunG (readZeta3Param e t) (readZeta3P e t)⟩
]

end Dsi.GH
