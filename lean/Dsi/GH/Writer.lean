/-
  GH targets: `BufBitWriter` (lean/Dsi/Props/BufWriterGen.lean, BufWriterCopyGen.lean) and the
  teardown paths (lean/Dsi/Props/TeardownGen.lean).
  State arguments: `W buffer space out cap checks` (see `Dsi.GH.bufW`).
-/
import Dsi.GH.Core
import Dsi.Impl.Copy
import Dsi.Gen.BufWriterBodies
import Dsi.Gen.TeardownBodies
namespace Dsi.GH
open Dsi

/-- the unary writers emit one word per `W` zeros (and the model's backend appends to a list):
    inherently linear in the value.  With a fixed backend (`cap`) the loop stops at the capacity,
    so huge values are fine there; otherwise the value is capped. -/
def unaryCap {W : Nat} (s : BufW W) (v : Nat) : P Unit :=
  match s.cap with
  | some c => capIf (c > 4096 + s.out.length)
  | none => capIf (v > 65536)

/-- a zero-extended reference reader never runs out: bulk operations are linear in `n` there -/
def slowR (r : RB) (n : Nat) : Bool :=
  match r with
  | .rf r => !r.strict && n > 2 ^ 20
  | _ => false

/-- `genCopyFrom` of lean/Dsi/Props/BufWriterCopyGen.lean -/
def genCopyFrom {W : Nat} {ρ : Type} (e : Endian) (ri : RImpl ρ) (s : BufW W) (r : ρ) (n : BitVec 64) :
    Res (ρ × BufW W) :=
  match e with
  | .be => Gen.BufW.copy_from_be ri s r n
  | .le => Gen.BufW.copy_from_le ri s r n

def writerTargets : List Target := [
  ⟨"flush_be", do let ⟨_, s⟩ ← bufW; pure (cmp (Gen.BufW.flush_be s) (BufW.flush .be s))⟩,
  ⟨"flush_le", do let ⟨_, s⟩ ← bufW; pure (cmp (Gen.BufW.flush_le s) (BufW.flush .le s))⟩,
  ⟨"write_bits_be", do
    let ⟨_, s⟩ ← bufW; let v ← bv 64; let n ← nat
    hyp (0 < s.space)
    pure (cmp (Gen.BufW.write_bits_be s v n) (BufW.writeBitsBE s v n))⟩,
  ⟨"write_bits_le", do
    let ⟨_, s⟩ ← bufW; let v ← bv 64; let n ← nat
    hyp (0 < s.space)
    pure (cmp (Gen.BufW.write_bits_le s v n) (BufW.writeBitsLE s v n))⟩,
  ⟨"write_unary_be", do
    let ⟨W, s⟩ ← bufW; let v ← bv 64
    hyp (0 < s.space && s.space ≤ W && W < 2 ^ 64); unaryCap s v.toNat
    pure (cmp (Gen.BufW.write_unary_be s v) (BufW.writeUnary .be s v.toNat))⟩,
  ⟨"write_unary_le", do
    let ⟨W, s⟩ ← bufW; let v ← bv 64
    hyp (0 < s.space && s.space ≤ W && W < 2 ^ 64); unaryCap s v.toNat
    pure (cmp (Gen.BufW.write_unary_le s v) (BufW.writeUnary .le s v.toNat))⟩,
  -- bulk copies into the writer: `ri` is the scripted mock or the reference reader
  ⟨"copy_from_be", do
    let ⟨W, s⟩ ← bufW; let r ← rb; let n ← bv 64
    hyp (W ≤ 64 && s.space ≤ W); capIf (slowR r n.toNat); unaryCap s 0
    pure (cmp (Gen.BufW.copy_from_be RB.impl s r n) (BufW.copyFrom .be RB.impl s r n.toNat))⟩,
  ⟨"copy_from_le", do
    let ⟨W, s⟩ ← bufW; let r ← rb; let n ← bv 64
    hyp (0 < W && W ≤ 64 && s.space ≤ W); capIf (slowR r n.toNat); unaryCap s 0
    pure (cmp (Gen.BufW.copy_from_le RB.impl s r n) (BufW.copyFrom .le RB.impl s r n.toNat))⟩,
  -- teardown
  ⟨"td_flush", do
    let e ← endian; let ⟨_, s⟩ ← bufW
    pure (cmp (Gen.Teardown.BufBitWriter.flush e s) ((BufW.impl e).flush s))⟩,
  ⟨"td_drop", do
    let e ← endian; let ⟨_, s⟩ ← bufW
    pure (cmp (Gen.Teardown.BufBitWriter.drop e s) (BufW.dropW e s))⟩,
  ⟨"td_into_inner", do
    let e ← endian; let ⟨_, s⟩ ← bufW
    pure (cmp (Gen.Teardown.BufBitWriter.into_inner e s) (BufW.intoInner e s))⟩,
  ⟨"td_bufr_into_inner", do
    let ⟨_, s⟩ ← bufR
    pure (cmp (Gen.Teardown.BufBitReader.into_inner s) (BufR.intoInner s))⟩,
  ⟨"td_countw_into_inner", do
    let bw ← nat; let w ← wb
    let s : CountW WB := { inner := w, bitsWritten := bw }
    pure (cmp (Gen.Teardown.CountBitWriter.into_inner s) (CountW.intoInner s))⟩,
  ⟨"td_countr_into_inner", do
    let br ← nat; let r ← rb
    let s : CountR RB := { inner := r, bitsRead := br }
    pure (cmp (Gen.Teardown.CountBitReader.into_inner s) (CountR.intoInner s))⟩,
  ⟨"td_memw_slice_into_inner", do
    let ⟨_, m⟩ ← memW
    pure (cmp (Gen.Teardown.MemWordWriterSlice.into_inner m) (MemW.intoInner m))⟩,
  ⟨"td_memw_vec_into_inner", do
    let ⟨_, m⟩ ← memW
    pure (cmp (Gen.Teardown.MemWordWriterVec.into_inner m) (MemW.intoInner m))⟩,
  ⟨"td_memr_into_inner", do
    let W ← nat; let m ← memR W
    pure (cmp (Gen.Teardown.MemWordReader.into_inner m) (MemR.intoInner m))⟩
]

end Dsi.GH
