/-
  GH targets: `len_*` (lean/Dsi/Props/LenGen.lean) and zig-zag (lean/Dsi/Props/ZigZagGen.lean).
-/
import Dsi.GH.Core
import Dsi.Defaults
import Dsi.Gen.LenFormulas
import Dsi.Gen.ZigZagBodies
import Dsi.Glue.ZigZag
namespace Dsi.GH
open Dsi

/-- shifts / powers by astronomically large parameters are not evaluated (`2 ^ k` would be
    materialised): parameters are capped at 2^16 -/
def pcap (k : Nat) : P Unit := capIf (k > 65536)

def lenTargets : List Target := [
  ⟨"len_gamma_param", do let t ← bool; let n ← nat; pure (cmp (Gen.len_gamma_param t n) (lenGammaP t n))⟩,
  ⟨"len_gamma", do let n ← nat; pure (cmp (Gen.len_gamma n) (lenGammaD n))⟩,
  ⟨"len_delta_param", do
    let td ← bool; let tg ← bool; let n ← nat
    pure (cmp (Gen.len_delta_param td tg n) (lenDeltaP td tg n))⟩,
  ⟨"len_delta", do let n ← nat; pure (cmp (Gen.len_delta n) (lenDeltaD n))⟩,
  ⟨"len_minimal_binary", do
    let n ← nat; let max ← nat
    pure (cmp (Gen.len_minimal_binary n max) (lenMinimalBinary n max))⟩,
  ⟨"len_zeta_param", do
    let t ← bool; let n ← nat; let k ← nat
    hyp (n < 2 ^ 64 - 1); pcap k
    pure (cmp (Gen.len_zeta_param t n k) (lenZetaP t n k))⟩,
  ⟨"len_zeta", do
    let n ← nat; let k ← nat
    hyp (n < 2 ^ 64 - 1); pcap k
    pure (cmp (Gen.len_zeta n k) (lenZetaD n k))⟩,
  ⟨"len_omega", do let n ← nat; hyp (n < 2 ^ 64 - 1); pure (cmp (Gen.len_omega n) (lenOmega n))⟩,
  ⟨"len_rice", do let n ← nat; let k ← nat; pcap k; pure (cmp (Gen.len_rice n k) (lenRice n k))⟩,
  ⟨"len_pi", do let n ← nat; let k ← nat; pcap k; pure (cmp (Gen.len_pi n k) (lenPi n k))⟩,
  ⟨"len_golomb", do let n ← nat; let b ← nat; pure (cmp (Gen.len_golomb n b) (lenGolomb n b))⟩,
  ⟨"len_exp_golomb", do
    let n ← nat; let k ← nat; pcap k
    pure (cmp (Gen.len_exp_golomb n k) (lenExpGolombD n k))⟩,
  ⟨"byte_len_vbyte", do let v ← nat; hyp (v < 2 ^ 64); pure (cmp (Gen.byte_len_vbyte v) (byteLenVByte v))⟩,
  ⟨"bit_len_vbyte", do let v ← nat; hyp (v < 2 ^ 64); pure (cmp (Gen.bit_len_vbyte v) (bitLenVByte v))⟩
]

/-! ### zig-zag: `GH to_nat <w> <x>` / `GH to_int <w> <x>`, `x` the bit pattern (any width, also the
    named per-type instances `to_nat_i128` … which take the pattern only) -/

open Gen.ZigZag in
def zigzagTargets : List Target := [
  ⟨"to_int", do let w ← nat; let x ← bv w; pure (cmp (to_int x) (zzToInt x))⟩,
  ⟨"to_nat", do let w ← nat; let x ← bv w; pure (cmp (to_nat x) (zzToNat x))⟩,
  ⟨"to_int_u8", do let x ← bv 8; pure (cmp (to_int_u8 x) (zzToInt x))⟩,
  ⟨"to_int_u16", do let x ← bv 16; pure (cmp (to_int_u16 x) (zzToInt x))⟩,
  ⟨"to_int_u32", do let x ← bv 32; pure (cmp (to_int_u32 x) (zzToInt x))⟩,
  ⟨"to_int_u64", do let x ← bv 64; pure (cmp (to_int_u64 x) (zzToInt x))⟩,
  ⟨"to_int_usize", do let x ← bv 64; pure (cmp (to_int_usize x) (zzToInt x))⟩,
  ⟨"to_int_u128", do let x ← bv 128; pure (cmp (to_int_u128 x) (zzToInt x))⟩,
  ⟨"to_nat_i8", do let x ← bv 8; pure (cmp (to_nat_i8 x) (zzToNat x))⟩,
  ⟨"to_nat_i16", do let x ← bv 16; pure (cmp (to_nat_i16 x) (zzToNat x))⟩,
  ⟨"to_nat_i32", do let x ← bv 32; pure (cmp (to_nat_i32 x) (zzToNat x))⟩,
  ⟨"to_nat_i64", do let x ← bv 64; pure (cmp (to_nat_i64 x) (zzToNat x))⟩,
  ⟨"to_nat_isize", do let x ← bv 64; pure (cmp (to_nat_isize x) (zzToNat x))⟩,
  ⟨"to_nat_i128", do let x ← bv 128; pure (cmp (to_nat_i128 x) (zzToNat x))⟩,
  ⟨"zz_impls", do
    pure (cmp (toIntImpls, toNatImpls)
      ([("u8", 8), ("u16", 16), ("u32", 32), ("u64", 64), ("usize", 64), ("u128", 128)],
       [("i8", 8), ("i16", 16), ("i32", 32), ("i64", 64), ("isize", 64), ("i128", 128)]))⟩
]

end Dsi.GH
