/-
  GH — generated-vs-hand witness search, Lean side (executable `ghdriver`, root lean/GH.lean).

  One request per line: `GH <target> <args…>`; the answer is `<generated> || <hand>`: both sides of
  an equality theorem of lean/Dsi/Props/*Gen.lean evaluated on the explicit input, rendered with
  the conventions of `showRes` (lean/Dsi/Session.lean).  Other answers:
    `-`          the theorem makes no claim on this input (a hypothesis is not met, or the hand
                 side of a `Guarded` pair panics)
    `bad-args`   the arguments do not parse;  `bad-target` unknown target.
  No imports outside the model files and lean/Dsi/Gen (no Mathlib): this is a compiled `lean_exe`.
  Helper definitions that the theorems use but that live in proof modules (`natOut`, `absOut`,
  `genCopyTo`, …) are restated here, next to the targets that use them.
-/
import Dsi.Session
import Dsi.Glue.StatsDriver
namespace Dsi.GH

/-! ### rendering -/

def hexNat (n : Nat) : String :=
  if n = 0 then "0" else
  let rec go (fuel n : Nat) (acc : List Char) : List Char :=
    match fuel with
    | 0 => acc
    | fuel + 1 => if n = 0 then acc else go fuel (n / 16) (hexDigit (n % 16) :: acc)
  String.ofList (go (n.log2 / 4 + 2) n [])

class Sh (α : Type) where
  sh : α → String
export Sh (sh)

instance : Sh Nat := ⟨toString⟩
instance : Sh Int := ⟨toString⟩
instance : Sh String := ⟨id⟩
instance : Sh Unit := ⟨fun _ => "ok"⟩
instance : Sh Bool := ⟨fun b => if b then "1" else "0"⟩
instance {w : Nat} : Sh (BitVec w) := ⟨fun x => "x" ++ hexNat x.toNat⟩
instance : Sh Endian := ⟨fun e => match e with | .be => "be" | .le => "le"⟩
instance {α} [Sh α] : Sh (List α) := ⟨fun l => "[" ++ ",".intercalate (l.map sh) ++ "]"⟩
instance {α} [Sh α] : Sh (Array α) := ⟨fun l => "[" ++ ",".intercalate (l.toList.map sh) ++ "]"⟩
instance {α} [Sh α] : Sh (Option α) := ⟨fun o => match o with | none => "none" | some a => "some:" ++ sh a⟩
instance {α β} [Sh α] [Sh β] : Sh (α × β) := ⟨fun p => sh p.1 ++ " " ++ sh p.2⟩
instance {α} [Sh α] : Sh (Res α) := ⟨showRes sh⟩
instance : Sh Err := ⟨fun e => showRes (fun (_ : Unit) => "") (.err e)⟩
instance {α} [Sh α] : Sh (Except Err α) := ⟨fun x => match x with | .ok a => sh a | .error e => sh e⟩

instance {W : Nat} : Sh (MemR W) := ⟨fun m => s!"(data={sh m.data} pos={m.pos} strict={sh m.strict})"⟩
instance {W : Nat} : Sh (MemW W) := ⟨fun m => s!"(data={sh m.data} pos={m.pos} grow={sh m.growable})"⟩
instance {W : Nat} : Sh (BufW W) :=
  ⟨fun s => s!"(buf={sh s.buffer} sp={s.space} out={sh s.out} cap={sh s.cap} ch={sh s.checks})"⟩
instance {W : Nat} : Sh (WBackend W) := ⟨fun s => s!"(out={sh s.out} cap={sh s.cap})"⟩
instance {W : Nat} : Sh (BufR W) := ⟨fun s => s!"(buf={sh s.buffer} bib={s.bib} back={sh s.back})"⟩
instance : Sh BitR := ⟨fun s => s!"(data={sh s.data} ix={s.bitIndex})"⟩
instance {ω} [Sh ω] : Sh (CountW ω) := ⟨fun s => s!"(bw={s.bitsWritten} inner={sh s.inner})"⟩
instance {ρ} [Sh ρ] : Sh (CountR ρ) := ⟨fun s => s!"(br={s.bitsRead} inner={sh s.inner})"⟩
instance : Sh Stats :=
  ⟨fun s => "/".intercalate [showNats [s.total, s.unary, s.gamma, s.delta, s.omega, s.vbyte],
    showNats s.zeta, showNats s.golomb, showNats s.expGolomb, showNats s.rice, showNats s.pi]⟩
instance : Sh StatCodeId := ⟨StatCodeId.show⟩

/-- the two sides of an equality -/
def cmp {α} [Sh α] (gen hand : α) : String := sh gen ++ " || " ++ sh hand

/-- a `Guarded`-style claim: nothing is claimed where the hand side panics -/
def cmpGuarded {α} [Sh α] (gen hand : Res α) : String :=
  match hand with
  | .panic => "-"
  | .dpanic => "-"
  | _ => cmp gen hand

/-! ### argument parsing -/

abbrev P := StateT (List String) (Except String)

def tok : P String := do
  match (← get) with
  | [] => throw "bad-args"
  | t :: ts => set ts; pure t

def nat : P Nat := do
  match num? (← tok) with
  | some n => pure n
  | none => throw "bad-args"

def bool : P Bool := do
  let t ← tok
  if t == "1" then pure true else if t == "0" then pure false else throw "bad-args"

def endian : P Endian := do
  let t ← tok
  if t == "be" then pure .be else if t == "le" then pure .le else throw "bad-args"

def natsOf (t : String) : Except String (List Nat) :=
  if t == "-" then pure [] else
  match (t.splitOn ",").mapM num? with
  | some l => pure l
  | none => throw "bad-args"

/-- `-` (empty) or a comma-separated list of numbers -/
def nats : P (List Nat) := do
  match natsOf (← tok) with
  | .ok l => pure l
  | .error e => throw e

def optNat : P (Option Nat) := do
  let t ← tok
  if t == "-" then pure none else
  match num? t with
  | some n => pure (some n)
  | none => throw "bad-args"

def hexb : P (List Nat) := do
  match hexBytes? (← tok) with
  | some l => pure l
  | none => throw "bad-args"

def bv (w : Nat) : P (BitVec w) := do pure (BitVec.ofNat w (← nat))

/-- a hypothesis of the theorem: when it is not met nothing is claimed -/
def hyp (b : Bool) : P Unit := if b then pure () else throw "-"

/-- refuse inputs on which a definition is inherently too slow (documented caps) -/
def capIf (b : Bool) : P Unit := if b then throw "capped" else pure ()

/-- `W buffer space out cap checks` -/
def bufW : P ((W : Nat) × BufW W) := do
  let W ← nat
  let b ← bv W
  let sp ← nat
  let out ← nats
  let cap ← optNat
  let ch ← bool
  pure ⟨W, { buffer := b, space := sp, out := out.map (BitVec.ofNat W), cap := cap, checks := ch }⟩

/-- `data pos strict` of a `MemR W` -/
def memR (W : Nat) : P (MemR W) := do
  let d ← nats
  let p ← nat
  let st ← bool
  pure { data := d.map (BitVec.ofNat W), pos := p, strict := st }

/-- `W buffer bib data pos strict` -/
def bufR : P ((W : Nat) × BufR W) := do
  let W ← nat
  let b ← bv (2 * W)
  let bib ← nat
  let back ← memR W
  pure ⟨W, { buffer := b, bib := bib, back := back }⟩

/-- `data pos strict bitIndex` -/
def bitR : P BitR := do
  let d ← memR 64
  let ix ← nat
  pure { data := d, bitIndex := ix }

/-- `W data pos growable` -/
def memW : P ((W : Nat) × MemW W) := do
  let W ← nat
  let d ← nats
  let p ← nat
  let g ← bool
  pure ⟨W, { data := d.map (BitVec.ofNat W), pos := p, growable := g }⟩

structure Target where
  name : String
  run : P String

def Target.exec (t : Target) (args : List String) : String :=
  match t.run.run args with
  | .ok (s, []) => s
  | .ok (_, _) => "bad-args"
  | .error e => e

/-! ### reader / writer back ends for the definitions that are generic in an implementation

A scripted mock lets a witness use values no materialised stream could hold (a unary read
returning 2^32, a 64-bit field with every bit set); the L1 reference (`RefR` / `RefW`,
lean/Dsi/Ref.lean) is the implementation the property theorems are instantiated with. -/

/-- writer back end: a trace of the calls (the value each call returns is the one every
    implementation returns: the number of bits), or the reference writer -/
inductive WB where
  | tr (log : List String)
  | rf (r : RefW)

def WB.impl : WImpl WB :=
  { writeBits := fun s v n =>
      match s with
      | .tr log => .ok (n, .tr (s!"wb:{v}:{n}" :: log))
      | .rf r => (RefW.writeBits r v n).map fun p => (p.1, .rf p.2),
    writeUnary := fun s x =>
      match s with
      | .tr log => .ok (x + 1, .tr (s!"wu:{x}" :: log))
      -- the reference writer materialises the `x` zeros: huge unary writes are refused (`E:other`,
      -- the same on both sides of a comparison)
      | .rf r => if x > 2 ^ 20 then .err .other else (RefW.writeUnary r x).map fun p => (p.1, .rf p.2),
    flush := fun s =>
      match s with
      | .tr log => .ok (0, .tr ("wf" :: log))
      | .rf r => (RefW.flush r).map fun p => (p.1, .rf p.2) }

instance : Sh WB :=
  ⟨fun s => match s with
    | .tr log => "{" ++ ";".intercalate log.reverse ++ "}"
    | .rf r => s!"(bits={r.bits.length}:{bytesHex (layout r.e r.bits)})"⟩

/-- `T` (trace) or `R<e>,<W>,<checks>,<cap|->` (reference writer, empty) -/
def wb : P WB := do
  let t ← tok
  if t == "T" then pure (.tr []) else
  match t.toList with
  | 'R' :: rest =>
    match (String.ofList rest).splitOn "," with
    | [e, w, ch, cap] =>
      match num? w with
      | some w =>
        if w = 0 then throw "bad-args" else
        let e := if e == "le" then Endian.le else Endian.be
        let cap := if cap == "-" then none else num? cap
        pure (.rf { e := e, W := w, checks := ch == "1", cap := cap })
      | none => throw "bad-args"
    | _ => throw "bad-args"
  | _ => throw "bad-args"

/-- `v % 2 ^ n` without materialising `2 ^ n` for astronomically large `n` -/
def lowBits (v n : Nat) : Nat := if v.log2 < n then v else v % 2 ^ n

/-- reader back end: a script of values (one per read; `read_bits n` reduces its value modulo
    `2^n`, as the `BitRead` contract demands) or the reference reader -/
inductive RB where
  | mk (script : List Nat) (log : List String)
  | rf (r : RefR)

def RB.impl : RImpl RB :=
  { readBits := fun s n =>
      match s with
      | .mk (v :: vs) log => .ok (lowBits v n, .mk vs (s!"rb:{n}" :: log))
      | .mk [] _ => .err .eof
      | .rf r => (RefR.readBits r n).map fun p => (p.1, .rf p.2),
    peekBits := fun s n =>
      match s with
      | .mk (v :: vs) log => .ok (lowBits v n, .mk (v :: vs) (s!"rp:{n}" :: log))
      | .mk [] _ => .err .eof
      | .rf r => (RefR.peekBits r n).map fun p => (p.1, .rf p.2),
    skipAfterPeek := fun s n =>
      match s with
      | .mk vs log => .mk vs (s!"sap:{n}" :: log)
      | .rf r => .rf (RefR.skipAfterPeek r n),
    skipBits := fun s n =>
      match s with
      | .mk vs log => .ok (.mk vs (s!"rs:{n}" :: log))
      | .rf r => (RefR.skipBits r n).map .rf,
    readUnary := fun s =>
      match s with
      | .mk (v :: vs) log => .ok (v, .mk vs ("ru" :: log))
      | .mk [] _ => .err .eof
      | .rf r => (RefR.readUnary r).map fun p => (p.1, .rf p.2) }

instance : Sh RB :=
  ⟨fun s => match s with
    | .mk vs log => "{" ++ ";".intercalate log.reverse ++ "|" ++ sh vs ++ "}"
    | .rf r => s!"(pos={r.pos})"⟩

/-- `M<v1,v2,…>` (script; `M-` empty) or `R<e>,<strict>,<peekMax>,<pos>,<hex bytes>` -/
def rb : P RB := do
  let t ← tok
  match t.toList with
  | 'M' :: rest =>
    match natsOf (String.ofList rest) with
    | .ok l => pure (.mk l [])
    | .error e => throw e
  | 'R' :: rest =>
    match (String.ofList rest).splitOn "," with
    | [e, st, pm, pos, hx] =>
      match num? pm, num? pos, hexBytes? hx with
      | some pm, some pos, some bytes =>
        let e := if e == "le" then Endian.le else Endian.be
        pure (.rf { e := e, stream := bitsOfBytes e bytes, pos := pos, strict := st == "1", peekMax := pm })
      | _, _, _ => throw "bad-args"
    | _ => throw "bad-args"
  | _ => throw "bad-args"

/-- the translated functions return `u64` / the peek word; the hand model returns `Nat`
    (`natOut` of lean/Dsi/Props/BufReaderGen.lean, BitReaderGen.lean, MemWordGen.lean) -/
def natOut {w : Nat} {σ : Type} (x : Res (BitVec w × σ)) : Res (Nat × σ) :=
  x.map fun p => (p.1.toNat, p.2)

end Dsi.GH
