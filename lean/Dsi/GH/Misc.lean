/-
  GH targets: the byte-stream adapter (lean/Dsi/Props/AdapterGen.lean), `FindChangePoints::next`
  (FindChangeGen.lean), byte-level VByte (VByteIOGen.lean), `copy_to` (CopyGen.lean), the
  `io::Read` / `io::Write` views (IOGen.lean), the table diagnostics (CheckTablesGen.lean).
-/
import Dsi.GH.Core
import Dsi.GH.Writer
import Dsi.GH.Reader
import Dsi.Glue.MiscDriver
import Dsi.Gen.AdapterBodies
import Dsi.Gen.FindChangeBody
import Dsi.Gen.VByteIOBodies
import Dsi.Gen.CopyBodies
import Dsi.Gen.IOBodies
import Dsi.Gen.CheckTablesBodies
namespace Dsi.GH
open Dsi

/-! ### adapter -/

instance : Sh AdCursor := ⟨fun c => s!"(pos={c.pos} data={bytesHex c.data})"⟩
instance : Sh IoResp := ⟨fun r => match r with | .accept k => s!"a{k}" | .interrupted => "i" | .fail => "f"⟩
instance : Sh Sink := ⟨fun s => s!"(bytes={bytesHex s.bytes} sched={sh s.sched})"⟩
instance : Sh Source := ⟨fun s => s!"(bytes={bytesHex s.bytes} sched={sh s.sched})"⟩
instance {β} [Sh β] : Sh (WordAdapter β) := ⟨fun a => s!"(backend={sh a.backend})"⟩

/-- `data(hex) pos` -/
def adCursor : P AdCursor := do
  let d ← hexb; let p ← nat
  pure { data := d, pos := p }

def sched : P (List IoResp) := do pure (parseSched (← tok))

def adapterTargets : List Target := [
  ⟨"ad_read_word_cursor", do
    let n ← nat; let c ← adCursor; capIf (n > 4096)
    pure (cmp (Gen.WordAdapter.read_word n (fun c buf => c.readWord buf.length) { backend := c })
      (Res.map (fun x => (leVal x.1, ({ backend := x.2 } : WordAdapter AdCursor))) (c.readWord n)))⟩,
  ⟨"ad_read_word_source", do
    let n ← nat; let bytes ← hexb; let sc ← sched; capIf (n > 4096)
    let src : Source := { bytes := bytes, sched := sc }
    pure (cmp (Gen.WordAdapter.read_word n (fun s buf => s.readWord buf.length) { backend := src })
      (Res.map (fun x => (leVal x.1, ({ backend := x.2 } : WordAdapter Source))) (src.readWord n)))⟩,
  ⟨"ad_write_word_sink", do
    let n ← nat; let bytes ← hexb; let sc ← sched; let w ← nat; capIf (n > 4096)
    let s : Sink := { bytes := bytes, sched := sc }
    pure (cmp (Gen.WordAdapter.write_word n Sink.writeWord { backend := s } w)
      (Res.map (fun b => ({ backend := b } : WordAdapter Sink)) (s.writeWord (leBytes w n))))⟩,
  ⟨"ad_flush", do
    let c ← adCursor
    let fl : AdCursor → Res AdCursor := fun c => .ok c
    pure (cmp (Gen.WordAdapter.flush fl { backend := c })
      (Res.map (fun b => ({ backend := b } : WordAdapter AdCursor)) (fl c)))⟩,
  ⟨"ad_new_into_inner", do
    let c ← adCursor
    pure (cmp (Gen.WordAdapter.into_inner (Gen.WordAdapter.new c)) c)⟩,
  ⟨"ad_word_pos", do
    let n ← nat; let c ← adCursor; hyp (0 < n)
    pure (cmp (Gen.WordAdapter.word_pos n AdCursor.streamPosition { backend := c })
      (.ok (c.wordPos n, { backend := c })))⟩,
  ⟨"ad_set_word_pos", do
    let n ← nat; let c ← adCursor; let k ← nat; hyp (k * n < 2 ^ 64)
    pure (cmp (Gen.WordAdapter.set_word_pos n AdCursor.seek { backend := c } k)
      (.ok { backend := c.setWordPos n k }))⟩,
  ⟨"ad_set_word_pos_wraps", do
    let n ← nat; let c ← adCursor; let k ← nat
    pure (cmp (Gen.WordAdapter.set_word_pos n AdCursor.seek { backend := c } k)
      (.ok { backend := { c with pos := (k * n) % 2 ^ 64 } }))⟩,
  ⟨"ad_div_ceil", do
    let a ← nat; let b ← nat; hyp (0 < b)
    pure (cmp (StdIO.divCeil a b) ((a + b - 1) / b))⟩
]

/-! ### FindChangePoints -/

instance : Sh FC := ⟨fun s => s!"(cur={s.current} prev={sh s.prev})"⟩

/-- `absOut` of lean/Dsi/Props/FindChangeGen.lean -/
def absOut : Option (Nat × Nat) × FC → Option (Nat × Nat) × Nat × Nat
  | (o, s) => (o, s.current, s.prevValue)

/-- the function iterated: `lib:<code>:<param>` (a library length function, as in `FC lib`) or
    `steps:<p1,p2,…>` (the number of listed thresholds `≤ x`, as in `FC steps`) -/
def fcFun : P (Nat → Nat) := do
  let t ← tok
  match t.splitOn ":" with
  | ["lib", code, p] =>
    match num? p with
    | some p =>
      match libLen code p with
      | some f => pure f
      | none => throw "bad-args"
    | none => throw "bad-args"
  | ["steps", ps] =>
    match natsOf ps with
    | .ok ps => pure (FC.stepFn ps)
    | .error e => throw e
  | _ => throw "bad-args"

def fcTargets : List Target := [
  ⟨"fc_next", do
    let f ← fcFun; let cur ← nat; let prev ← optNat
    let s : FC := { current := cur, prev := prev }
    hyp (prev ≠ some FC.U64MAX)
    pure (cmp (Gen.FindChange.next f s.current s.prevValue) ((FC.next f s).map absOut))⟩
]

/-! ### byte-level VByte -/

/-- `withOut` of lean/Dsi/Props/VByteIOGen.lean -/
def withOut (out : List Nat) (r : Res (Nat × List Nat)) : Res (Nat × List Nat × List Nat) :=
  r.map fun (v, rest) => (v, rest, out)

def shB (r : Res (Nat × List Nat × List Nat)) : String :=
  showRes (fun (x : Nat × List Nat × List Nat) => s!"{x.1} in={bytesHex x.2.1} out={bytesHex x.2.2}") r

def vbyteIOTargets : List Target := [
  ⟨"vbyte_write_be", do
    let v ← nat; let inp ← hexb; let out ← hexb; hyp (v < 2 ^ 64)
    pure (shB ((Gen.vbyte_write_be v).run inp out) ++ " || " ++
      shB (.ok ((vbyteWriteBe v).2, inp, out ++ (vbyteWriteBe v).1)))⟩,
  ⟨"vbyte_write_le", do
    let v ← nat; let inp ← hexb; let out ← hexb; hyp (v < 2 ^ 64)
    pure (shB ((Gen.vbyte_write_le v).run inp out) ++ " || " ++
      shB (.ok ((vbyteWriteLe v).2, inp, out ++ (vbyteWriteLe v).1)))⟩,
  ⟨"vbyte_write_dispatch", do
    let e ← endian; let v ← nat; let inp ← hexb; let out ← hexb
    let h := match e with | .be => Gen.vbyte_write_be v | .le => Gen.vbyte_write_le v
    pure (shB ((Gen.vbyte_write e v).run inp out) ++ " || " ++ shB (h.run inp out))⟩,
  ⟨"vbyte_read_be", do
    let bytes ← hexb; let out ← hexb
    match vbyteReadBe bytes with
    | .dpanic => pure "-"
    | h => pure (shB ((Gen.vbyte_read_be (bytes.length + 1)).run bytes out) ++ " || " ++ shB (withOut out h))⟩,
  ⟨"vbyte_read_le", do
    let bytes ← hexb; let out ← hexb
    match vbyteReadLe bytes with
    | .dpanic => pure "-"
    | h => pure (shB ((Gen.vbyte_read_le (bytes.length + 1)).run bytes out) ++ " || " ++ shB (withOut out h))⟩,
  ⟨"vbyte_read_dispatch", do
    let e ← endian; let bytes ← hexb; let out ← hexb
    let fuel := bytes.length + 1
    let h := match e with | .be => Gen.vbyte_read_be fuel | .le => Gen.vbyte_read_le fuel
    pure (shB ((Gen.vbyte_read fuel e).run bytes out) ++ " || " ++ shB (h.run bytes out))⟩
]

/-! ### bulk copies out of the buffered reader, and the default loops -/

def copyTargets : List Target := [
  ⟨"copy_to_be", do
    let ch ← bool; let ⟨W, s⟩ ← bufR; let w ← wb; let n ← bv 64
    hyp (0 < W && W < 2 ^ 63 && s.bib < 2 * W); skipCap s.back n.toNat
    pure (cmp (Gen.BufR.copy_to_be ch WB.impl s w n) (BufR.copyTo .be ch WB.impl s w n.toNat))⟩,
  ⟨"copy_to_le", do
    let ch ← bool; let ⟨W, s⟩ ← bufR; let w ← wb; let n ← bv 64
    hyp (0 < W && W < 2 ^ 63 && s.bib < 2 * W); skipCap s.back n.toNat
    pure (cmp (Gen.BufR.copy_to_le ch WB.impl s w n) (BufR.copyTo .le ch WB.impl s w n.toNat))⟩,
  ⟨"copy_to_default", do
    let r ← rb; let w ← wb; let n ← bv 64; capIf (slowR r n.toNat)
    pure (cmp (Gen.Traits.copy_to_default RB.impl WB.impl r w n)
      (copyGeneric RB.impl WB.impl (n.toNat / 64 + 1) r w n.toNat))⟩,
  ⟨"copy_from_default", do
    let r ← rb; let w ← wb; let n ← bv 64; capIf (slowR r n.toNat)
    pure (cmp (Gen.Traits.copy_from_default RB.impl WB.impl r w n)
      (copyGeneric RB.impl WB.impl (n.toNat / 64 + 1) r w n.toNat))⟩
]

/-! ### io::Read / io::Write views -/

def ioTargets : List Target := [
  ⟨"io_write_be", do
    let W ← nat; let w ← wb; let buf ← hexb
    pure (cmp (Gen.IO.write_be W WB.impl w buf) ((ioWrite .be 8 buf).run WB.impl w))⟩,
  ⟨"io_write_le", do
    let W ← nat; let w ← wb; let buf ← hexb
    pure (cmp (Gen.IO.write_le W WB.impl w buf) ((ioWrite .le 8 buf).run WB.impl w))⟩,
  ⟨"io_read_bufr_be", do
    let W ← nat; let r ← rb; let buf ← hexb
    pure (cmp (Gen.IO.read_bufr_be W RB.impl r buf)
      (((ioRead .be buf.length).run RB.impl r).map fun p => (buf.length, p.1, p.2)))⟩,
  ⟨"io_read_bufr_le", do
    let W ← nat; let r ← rb; let buf ← hexb
    pure (cmp (Gen.IO.read_bufr_le W RB.impl r buf)
      (((ioRead .le buf.length).run RB.impl r).map fun p => (buf.length, p.1, p.2)))⟩,
  ⟨"io_read_bitr_be", do
    let W ← nat; let r ← rb; let buf ← hexb
    pure (cmp (Gen.IO.read_bitr_be W RB.impl r buf)
      (((ioRead .be buf.length).run RB.impl r).map fun p => (buf.length, p.1, p.2)))⟩,
  ⟨"io_read_bitr_le", do
    let W ← nat; let r ← rb; let buf ← hexb
    pure (cmp (Gen.IO.read_bitr_le W RB.impl r buf)
      (((ioRead .le buf.length).run RB.impl r).map fun p => (buf.length, p.1, p.2)))⟩
]

/-! ### table diagnostics -/

open Gen.CheckTables in
def checkTablesTargets : List Target := [
  ⟨"check_tables", do let n ← nat; pure (cmp (check_tables n) (checkTables n))⟩,
  ⟨"check_tables_buf", do
    let W ← nat
    pure (cmp (BufBitReader.new_peek_bits W, BufBitReader.new_diag W) (bufReaderCapacity W, bufReaderDiag W))⟩,
  ⟨"check_tables_bit", do
    pure (cmp (BitReader.new_peek_bits, BitReader.new_diag) (bitReaderCapacity, bitReaderDiag))⟩,
  ⟨"check_tables_consts", do
    pure (cmp (checkTablesCompared, checkTablesCallers)
      ([("gamma", "READ_BITS", Gen.Gamma.READ_BITS), ("delta", "READ_BITS", Gen.Delta.READ_BITS),
        ("zeta3", "READ_BITS", Gen.Zeta.READ_BITS)],
       [("src/impls/bit_reader.rs", "BitReader::new"), ("src/impls/buf_bit_reader.rs", "BufBitReader::new")]))⟩
]

end Dsi.GH
