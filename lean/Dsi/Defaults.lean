/-
  Glue between the generated tables / parameters and the L2 programs: the table records and the
  parameterless "default" methods selected by `codes/params.rs`.
-/
import Dsi.Codes
import Dsi.Gen.TablesGamma
import Dsi.Gen.TablesDelta
import Dsi.Gen.TablesZeta
import Dsi.Gen.Params
namespace Dsi
open Gen

def gammaRTab : Endian → RTab
  | .be => { readBits := Gamma.READ_BITS, missing := Gamma.MISSING_VALUE_LEN_BE, vals := Gamma.READ_BE, lens := Gamma.READ_LEN_BE }
  | .le => { readBits := Gamma.READ_BITS, missing := Gamma.MISSING_VALUE_LEN_LE, vals := Gamma.READ_LE, lens := Gamma.READ_LEN_LE }
def deltaRTab : Endian → RTab
  | .be => { readBits := Delta.READ_BITS, missing := Delta.MISSING_VALUE_LEN_BE, vals := Delta.READ_BE, lens := Delta.READ_LEN_BE }
  | .le => { readBits := Delta.READ_BITS, missing := Delta.MISSING_VALUE_LEN_LE, vals := Delta.READ_LE, lens := Delta.READ_LEN_LE }
def zetaRTab : Endian → RTab
  | .be => { readBits := Zeta.READ_BITS, missing := Zeta.MISSING_VALUE_LEN_BE, vals := Zeta.READ_BE, lens := Zeta.READ_LEN_BE }
  | .le => { readBits := Zeta.READ_BITS, missing := Zeta.MISSING_VALUE_LEN_LE, vals := Zeta.READ_LE, lens := Zeta.READ_LEN_LE }

def gammaWTab : Endian → WTab
  | .be => { vals := Gamma.WRITE_BE, lens := Gamma.WRITE_LEN_BE }
  | .le => { vals := Gamma.WRITE_LE, lens := Gamma.WRITE_LEN_LE }
def deltaWTab : Endian → WTab
  | .be => { vals := Delta.WRITE_BE, lens := Delta.WRITE_LEN_BE }
  | .le => { vals := Delta.WRITE_LE, lens := Delta.WRITE_LEN_LE }
def zetaWTab : Endian → WTab
  | .be => { vals := Zeta.WRITE_BE, lens := Zeta.WRITE_LEN_BE }
  | .le => { vals := Zeta.WRITE_LE, lens := Zeta.WRITE_LEN_LE }

@[inline] def opt {α} (b : Bool) (a : α) : Option α := if b then some a else none

/-! Parameterised methods (`*_param::<…>`) -/
def readGammaP (e : Endian) (t : Bool) : RProg Nat := readGamma (opt t (gammaRTab e))
def readDeltaP (e : Endian) (td tg : Bool) : RProg Nat := readDelta (opt td (deltaRTab e)) (opt tg (gammaRTab e))
def readZeta3P (e : Endian) (t : Bool) : RProg Nat := readZeta3 (opt t (zetaRTab e))
def writeGammaP (e : Endian) (checks t : Bool) (n : Nat) : WProg Nat := writeGamma checks (opt t (gammaWTab e)) n
def writeDeltaP (e : Endian) (checks td tg : Bool) (n : Nat) : WProg Nat :=
  writeDelta checks (opt td (deltaWTab e)) (opt tg (gammaWTab e)) n
def writeZeta3P (e : Endian) (t : Bool) (n : Nat) : WProg Nat := writeZeta3 (opt t (zetaWTab e)) n
def lenGammaP (t : Bool) (n : Nat) : Nat := lenGamma (opt t Gamma.LEN) n
def lenDeltaP (td tg : Bool) (n : Nat) : Nat := lenDelta (opt td Delta.LEN) (opt tg Gamma.LEN) n
def lenZetaP (t : Bool) (n k : Nat) : Nat := lenZeta (opt t (Zeta.LEN, Zeta.K)) n k

/-! Parameterless default methods (selected in `codes/params.rs` / the `len_*` wrappers) -/
def readGammaD (e : Endian) : RProg Nat := readGammaP e Params.readGammaTable
def readDeltaD (e : Endian) : RProg Nat := readDeltaP e Params.readDeltaTable Params.readDeltaGammaTable
def readZeta3D (e : Endian) : RProg Nat := readZeta3P e Params.readZeta3Table
def writeGammaD (e : Endian) (checks : Bool) (n : Nat) : WProg Nat := writeGammaP e checks Params.writeGammaTable n
def writeDeltaD (e : Endian) (checks : Bool) (n : Nat) : WProg Nat :=
  writeDeltaP e checks Params.writeDeltaTable Params.writeDeltaGammaTable n
def writeZeta3D (e : Endian) (n : Nat) : WProg Nat := writeZeta3P e Params.writeZeta3Table n
def lenGammaD (n : Nat) : Nat := lenGammaP Params.lenGammaTable n
def lenDeltaD (n : Nat) : Nat := lenDeltaP Params.lenDeltaTable Params.lenDeltaGammaTable n
def lenZetaD (n k : Nat) : Nat := lenZetaP Params.lenZetaTable n k
/-- exp-Golomb goes through the default γ. -/
def readExpGolombD (e : Endian) (k : Nat) : RProg Nat := readExpGolomb (opt Params.readGammaTable (gammaRTab e)) k
def writeExpGolombD (e : Endian) (checks : Bool) (n k : Nat) : WProg Nat :=
  writeExpGolomb checks (opt Params.writeGammaTable (gammaWTab e)) n k
def lenExpGolombD (n k : Nat) : Nat := lenExpGolomb (opt Params.lenGammaTable Gamma.LEN) n k

end Dsi
