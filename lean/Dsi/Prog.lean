/-
  L2 infrastructure: programs over the BitRead / BitWrite interfaces as free monads,
  and the interface records any implementation (L1 reference, L3 concrete) provides.
-/
import Dsi.Basic
namespace Dsi

/-- What a bit reader implementation offers (mirrors `trait BitRead`). -/
structure RImpl (σ : Type) where
  readBits      : σ → Nat → Res (Nat × σ)
  peekBits      : σ → Nat → Res (Nat × σ)
  skipAfterPeek : σ → Nat → σ
  skipBits      : σ → Nat → Res σ
  readUnary     : σ → Res (Nat × σ)

/-- What a bit writer implementation offers (mirrors `trait BitWrite`). Values are u64 as `Nat`. -/
structure WImpl (σ : Type) where
  writeBits  : σ → Nat → Nat → Res (Nat × σ)
  writeUnary : σ → Nat → Res (Nat × σ)
  flush      : σ → Res (Nat × σ)

/-- Reader programs. `peek` continues with the error if the peek failed (table readers fall
    back, ω propagates). -/
inductive RProg (α : Type) where
  | ret    : α → RProg α
  | fail   : Err → RProg α
  | panic  : RProg α
  | dpanic : RProg α
  | readBits  : Nat → (Nat → RProg α) → RProg α
  | readUnary : (Nat → RProg α) → RProg α
  | peek      : Nat → (Except Err Nat → RProg α) → RProg α
  | skipAfterPeek : Nat → RProg α → RProg α
  | skip      : Nat → RProg α → RProg α

namespace RProg
def bind {α β} : RProg α → (α → RProg β) → RProg β
  | ret a, f => f a
  | fail e, _ => fail e
  | panic, _ => panic
  | dpanic, _ => dpanic
  | readBits n k, f => readBits n (fun v => (k v).bind f)
  | readUnary k, f => readUnary (fun v => (k v).bind f)
  | peek n k, f => peek n (fun v => (k v).bind f)
  | skipAfterPeek n k, f => skipAfterPeek n (k.bind f)
  | skip n k, f => skip n (k.bind f)
instance : Monad RProg where
  pure := ret
  bind := bind

@[inline] def rbits (n : Nat) : RProg Nat := readBits n ret
@[inline] def runary : RProg Nat := readUnary ret

/-- Run a reader program on an implementation. -/
def run {σ α} (I : RImpl σ) : RProg α → σ → Res (α × σ)
  | ret a, s => .ok (a, s)
  | fail e, _ => .err e
  | panic, _ => .panic
  | dpanic, _ => .dpanic
  | readBits n k, s =>
    match I.readBits s n with
    | .ok (v, s') => run I (k v) s'
    | .err e => .err e
    | .panic => .panic
    | .dpanic => .dpanic
  | readUnary k, s =>
    match I.readUnary s with
    | .ok (v, s') => run I (k v) s'
    | .err e => .err e
    | .panic => .panic
    | .dpanic => .dpanic
  | peek n k, s =>
    match I.peekBits s n with
    | .ok (v, s') => run I (k (.ok v)) s'
    | .err e => run I (k (.error e)) s
    | .panic => .panic
    | .dpanic => .dpanic
  | skipAfterPeek n k, s => run I k (I.skipAfterPeek s n)
  | skip n k, s =>
    match I.skipBits s n with
    | .ok s' => run I k s'
    | .err e => .err e
    | .panic => .panic
    | .dpanic => .dpanic
end RProg

/-- Writer programs. -/
inductive WProg (α : Type) where
  | ret    : α → WProg α
  | panic  : WProg α
  | dpanic : WProg α
  | writeBits  : Nat → Nat → (Nat → WProg α) → WProg α
  | writeUnary : Nat → (Nat → WProg α) → WProg α
  | flush      : (Nat → WProg α) → WProg α

namespace WProg
def bind {α β} : WProg α → (α → WProg β) → WProg β
  | ret a, f => f a
  | panic, _ => panic
  | dpanic, _ => dpanic
  | writeBits v n k, f => writeBits v n (fun r => (k r).bind f)
  | writeUnary x k, f => writeUnary x (fun r => (k r).bind f)
  | flush k, f => flush (fun r => (k r).bind f)
instance : Monad WProg where
  pure := ret
  bind := bind

@[inline] def wbits (v n : Nat) : WProg Nat := writeBits v n ret
@[inline] def wunary (x : Nat) : WProg Nat := writeUnary x ret

def run {σ α} (I : WImpl σ) : WProg α → σ → Res (α × σ)
  | ret a, s => .ok (a, s)
  | panic, _ => .panic
  | dpanic, _ => .dpanic
  | writeBits v n k, s =>
    match I.writeBits s v n with
    | .ok (r, s') => run I (k r) s'
    | .err e => .err e
    | .panic => .panic
    | .dpanic => .dpanic
  | writeUnary x k, s =>
    match I.writeUnary s x with
    | .ok (r, s') => run I (k r) s'
    | .err e => .err e
    | .panic => .panic
    | .dpanic => .dpanic
  | flush k, s =>
    match I.flush s with
    | .ok (r, s') => run I (k r) s'
    | .err e => .err e
    | .panic => .panic
    | .dpanic => .dpanic
end WProg

end Dsi
