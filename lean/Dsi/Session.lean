/-
  The session interpreter of the line protocol: one writer, one reader (+ a clone slot) and the
  operations of C01–C09, C12, C14, C19.  It is generic in the machine (L3 concrete model or
  L1 reference) so both produce their answers from the same script.
-/
import Dsi.Ref
import Dsi.Defaults
import Dsi.IOView
import Dsi.Impl.Copy
import Dsi.Impl.BitReader
import Dsi.Spec
import Dsi.Glue.Wrappers
import Dsi.Impl.Teardown
namespace Dsi

/-! ### text helpers -/
def hexDigit (n : Nat) : Char := if n < 10 then Char.ofNat (48 + n) else Char.ofNat (87 + n)
def byteHex (b : Nat) : String := String.ofList [hexDigit (b / 16 % 16), hexDigit (b % 16)]
def bytesHex (bs : List Nat) : String := if bs.isEmpty then "-" else String.join (bs.map byteHex)
def hexVal? (c : Char) : Option Nat :=
  if '0' ≤ c ∧ c ≤ '9' then some (c.toNat - 48)
  else if 'a' ≤ c ∧ c ≤ 'f' then some (c.toNat - 87)
  else if 'A' ≤ c ∧ c ≤ 'F' then some (c.toNat - 55) else none
def hexBytes? (s : String) : Option (List Nat) :=
  if s = "-" then some [] else
  let rec go : List Char → List Nat → Option (List Nat)
    | [], acc => some acc.reverse
    | [_], _ => none
    | a :: b :: rest, acc =>
      match hexVal? a, hexVal? b with
      | some x, some y => go rest ((16 * x + y) :: acc)
      | _, _ => none
  go s.toList []
/-- decimal, or hexadecimal with an `x` prefix -/
def num? (s : String) : Option Nat :=
  match s.toList with
  | 'x' :: rest =>
    if rest.isEmpty then none else
    rest.foldl (fun acc c => match acc, hexVal? c with
      | some a, some d => some (16 * a + d)
      | _, _ => none) (some 0)
  | _ => s.toNat?

def showRes {α} (f : α → String) : Res α → String
  | .ok a => f a
  | .err .eof => "E:eof"
  | .err .io => "E:io"
  | .err .interrupted => "E:interrupted"
  | .err .writeZero => "E:writezero"
  | .err .other => "E:other"
  | .panic => "P"
  | .dpanic => "D"

/-! ### machines -/

/-- Everything a session needs from a writer state `ω` and a reader state `ρ`. -/
structure Mach (ω ρ : Type) where
  e        : Endian
  checks   : Bool
  wi       : WImpl ω
  ri       : RImpl ρ
  pos      : ρ → Res Nat
  seek     : ρ → Nat → Res ρ
  dump     : ω → List Nat
  mkReader : List Nat → ρ
  newWriter : ω              -- a fresh writer of the same configuration
  copyTo   : ρ → ω → Nat → Res (ρ × ω)
  copyFrom : ω → ρ → Nat → Res (ρ × ω)
  noOneAhead : ρ → Bool     -- zero-extended and no one bit ahead: a unary read would not return
  ioChunk  : Nat            -- chunk size used by `io::Write`
  stat     : ω → ρ → String -- wrapper counters (`bw=… br=…`), "- -" without a counting wrapper
  /-- read a code by name; `none` = unknown name -/
  rcode    : ρ → String → String → Nat → Option (Res (Nat × ρ))
  /-- write a code by name; `none` = unknown name -/
  wcode    : ω → String → String → Nat → Nat → Option (Res (Nat × ω))

structure Sess (ω ρ : Type) where
  w  : ω
  r  : ρ
  r2 : ρ

/-- read programs by name: `<code> <flags> [param]` -/
def readProg (e : Endian) (code flags : String) (p : Nat) : Option (RProg Nat) :=
  let fl := flags.toList.map (· == '1')
  match code, flags, fl with
  | "unary", _, _ => some readUnaryC
  | "gamma", "d", _ => some (readGammaD e)
  | "gamma", _, [t] => some (readGammaP e t)
  | "delta", "d", _ => some (readDeltaD e)
  | "delta", _, [td, tg] => some (readDeltaP e td tg)
  | "zeta3", "d", _ => some (readZeta3D e)
  | "zeta3", _, [t] => some (readZeta3P e t)
  | "zeta", _, _ => some (readZetaDefault p)
  | "omega", _, _ => some (readOmega e)
  | "pi", _, _ => some (readPi p)
  | "rice", _, _ => some (readRice p)
  | "golomb", _, _ => some (readGolomb p)
  | "expg", _, _ => some (readExpGolombD e p)
  | "minbin", _, _ => some (readMinimalBinary p)
  | "vbbe", _, _ => some (readVByteBe 64)
  | "vble", _, _ => some (readVByteLe 64)
  | _, _, _ => none

def writeProg (e : Endian) (checks : Bool) (code flags : String) (p v : Nat) : Option (WProg Nat) :=
  let fl := flags.toList.map (· == '1')
  match code, flags, fl with
  | "unary", _, _ => some (writeUnaryC v)
  | "gamma", "d", _ => some (writeGammaD e checks v)
  | "gamma", _, [t] => some (writeGammaP e checks t v)
  | "delta", "d", _ => some (writeDeltaD e checks v)
  | "delta", _, [td, tg] => some (writeDeltaP e checks td tg v)
  | "zeta3", "d", _ => some (writeZeta3D e v)
  | "zeta3", _, [t] => some (writeZeta3P e t v)
  | "zeta", _, _ => some (writeZetaDefault v p)
  | "omega", _, _ => some (writeOmega e checks v)
  | "pi", _, _ => some (writePi checks v p)
  | "rice", _, _ => some (writeRice checks v p)
  | "golomb", _, _ => some (writeGolomb v p)
  | "expg", _, _ => some (writeExpGolombD e checks v p)
  | "minbin", _, _ => some (writeMinimalBinary v p)
  | "vbbe", _, _ => some (writeVByteBe v)
  | "vble", _, _ => some (writeVByteLe v)
  | _, _, _ => none

/-- One session operation: the printed answer and the new state (`none`: session over). -/
def sessStep {ω ρ} (M : Mach ω ρ) (s : Sess ω ρ) (op : List String) : String × Option (Sess ω ρ) :=
  let wres (r : Res (Nat × ω)) : String × Option (Sess ω ρ) :=
    match r with
    | .ok (v, w) => (toString v, some { s with w := w })
    | r => (showRes (fun _ => "") r, none)
  let rres (r : Res (Nat × ρ)) : String × Option (Sess ω ρ) :=
    match r with
    | .ok (v, r') => (toString v, some { s with r := r' })
    | r => (showRes (fun _ => "") r, none)
  let bad : String × Option (Sess ω ρ) := ("bad-op", none)
  match op with
  | ["wb", v, n] =>
    match num? v, num? n with
    | some v, some n => wres (M.wi.writeBits s.w v n)
    | _, _ => bad
  | ["wu", x] =>
    match num? x with
    | some x => wres (M.wi.writeUnary s.w x)
    | _ => bad
  | ["wf"] => wres (M.wi.flush s.w)
  | ["wc", code, flags, p, v] =>
    match num? p, num? v with
    | some p, some v =>
      match M.wcode s.w code flags p v with
      | some r => wres r
      | none => bad
    | _, _ => bad
  | ["wio", hex] =>
    match hexBytes? hex with
    | some bs => wres ((ioWrite M.e M.ioChunk bs).run M.wi s.w)
    | none => bad
  | ["wd"] => (bytesHex (M.dump s.w), some s)
  | ["wdrop"] =>      -- Drop flushes (and unwraps the result: an error there would be a panic)
    match M.wi.dropW s.w with          -- lean/Dsi/Impl/Teardown.lean
    | .ok w' => (bytesHex (M.dump w'), some { s with w := M.newWriter })
    | r => (showRes (fun _ => "") r, none)
  | ["winto"] =>      -- into_inner flushes and returns the backend; when that flush fails the writer
                      -- is dropped on the error path, and Drop flushes again and unwraps: a panic
    match M.wi.intoInnerW s.w with     -- lean/Dsi/Impl/Teardown.lean
    | .ok w' => (bytesHex (M.dump w'), some { s with w := M.newWriter })
    | r => (showRes (fun _ => "") r, none)
  | ["rb", n] =>
    match num? n with
    | some n => rres (M.ri.readBits s.r n)
    | _ => bad
  | ["rp", n] =>
    match num? n with
    | some n => rres (M.ri.peekBits s.r n)
    | _ => bad
  | ["rsp", n] =>
    match num? n with
    | some n => ("ok", some { s with r := M.ri.skipAfterPeek s.r n })
    | _ => bad
  | ["rs", n] =>
    match num? n with
    | some n =>
      match M.ri.skipBits s.r n with
      | .ok r' => ("ok", some { s with r := r' })
      | r => (showRes (fun _ => "") r, none)
    | _ => bad
  | ["ru"] =>
    if M.noOneAhead s.r then ("loop", none) else rres (M.ri.readUnary s.r)
  | ["rc", code, flags, p] =>
    match num? p with
    | some p =>
      if M.noOneAhead s.r && !(code == "omega" || code == "minbin" || code == "vbbe" || code == "vble")
      then ("loop", none)
      else
        match M.rcode s.r code flags p with
        | some r => rres r
        | none => bad
    | _ => bad
  | ["rio", n] =>
    match num? n with
    | some n =>
      match (ioRead M.e n).run M.ri s.r with
      | .ok (bs, r') => (bytesHex bs, some { s with r := r' })
      | .err _ => ("E:eof", none)
      | r => (showRes (fun _ => "") r, none)
    | _ => bad
  | ["pos"] =>
    match M.pos s.r with
    | .ok p => (toString p, some s)
    | r => (showRes (fun _ => "") r, none)
  | ["seek", p] =>
    match num? p with
    | some p =>
      match M.seek s.r p with
      | .ok r' => ("ok", some { s with r := r' })
      | r => (showRes (fun _ => "") r, none)
    | _ => bad
  | ["clone"] => ("ok", some { s with r2 := s.r })
  | ["swap"] => ("ok", some { s with r := s.r2, r2 := s.r })
  | ["stat"] => (M.stat s.w s.r, some s)
  | ["reopen"] => ("ok", some { s with r := M.mkReader (M.dump s.w), r2 := M.mkReader (M.dump s.w) })
  | ["ct", n] =>
    match num? n with
    | some n =>
      match M.copyTo s.r s.w n with
      | .ok (r', w') => ("ok", some { s with r := r', w := w' })
      | r => (showRes (fun _ => "") r, none)
    | _ => bad
  | ["cf", n] =>
    match num? n with
    | some n =>
      match M.copyFrom s.w s.r n with
      | .ok (r', w') => ("ok", some { s with r := r', w := w' })
      | r => (showRes (fun _ => "") r, none)
    | _ => bad
  | ["gc", n] =>       -- the generic default copy loop
    match num? n with
    | some n =>
      match copyGeneric M.ri M.wi (n / 64 + 2) s.r s.w n with
      | .ok (r', w') => ("ok", some { s with r := r', w := w' })
      | r => (showRes (fun _ => "") r, none)
    | _ => bad
  | _ => bad

def sessRun {ω ρ} (M : Mach ω ρ) : Sess ω ρ → List (List String) → List String → List String
  | _, [], acc => acc.reverse
  | s, op :: ops, acc =>
    match sessStep M s op with
    | (out, some s') => sessRun M s' ops (out :: acc)
    | (out, none) => (out :: acc).reverse

/-! ### the two machines -/

def padTo (k : Nat) (bs : List Nat) : List Nat :=
  if k = 0 then bs else bs ++ List.replicate ((k - bs.length % k) % k) 0

/-- logical words of a byte image -/
def wordsOfBytes (e : Endian) (W : Nat) (bytes : List Nat) : List (BitVec W) :=
  let B := W / 8
  let (cs, _) := chunksExact B (padTo B bytes) bytes.length
  cs.map fun c => BitVec.ofNat W (match e with | .be => beVal c | .le => leVal c)

def wordBitsL {W} (e : Endian) (w : BitVec W) : List Bool := fieldBits e w.toNat W

inductive RState (rw : Nat) where
  | buf : BufR rw → RState rw
  | bit : BitR → RState rw

namespace RState
variable {rw : Nat}
def lift1 {α} (f : BufR rw → Res (α × BufR rw)) (g : BitR → Res (α × BitR)) : RState rw → Res (α × RState rw)
  | .buf s => (f s).map fun (a, s') => (a, .buf s')
  | .bit s => (g s).map fun (a, s') => (a, .bit s')
def impl (e : Endian) : RImpl (RState rw) :=
  { readBits := fun s n => lift1 (fun b => (BufR.impl e).readBits b n) (fun b => BitR.readBits e b n) s,
    peekBits := fun s n => lift1 (fun b => (BufR.impl e).peekBits b n) (fun b => BitR.peekBits e b n) s,
    skipAfterPeek := fun s n => match s with
      | .buf b => .buf ((BufR.impl e).skipAfterPeek b n)
      | .bit b => .bit (BitR.skipAfterPeek b n),
    skipBits := fun s n => match s with
      | .buf b => ((BufR.impl e).skipBits b n).map .buf
      | .bit b => (BitR.skipBits b n).map .bit,
    readUnary := fun s => lift1 (fun b => (BufR.impl e).readUnary b) (fun b => BitR.readUnary e b) s }
def pos : RState rw → Nat
  | .buf s => s.bitPos
  | .bit s => s.bitPos
def seek (e : Endian) : RState rw → Nat → Res (RState rw)
  | .buf s, p => (BufR.setBitPos e s p).map .buf
  | .bit s, p => .ok (.bit (s.setBitPos p))
def allBits (e : Endian) : RState rw → List Bool
  | .buf s => s.back.data.flatMap (wordBitsL e)
  | .bit s => s.data.data.flatMap (wordBitsL e)
def isStrict : RState rw → Bool
  | .buf s => s.back.strict
  | .bit s => s.data.strict
def stat : RState rw → String
  | .buf s => s!"bib={s.bib},wp={s.back.pos}"
  | .bit s => s!"bi={s.bitIndex}"
end RState

/-- L3 machine: `BufBitWriter<E, ww>` with `BufBitReader<E, rw>` or `BitReader<E>`. -/
def machL3 (e : Endian) (ww rw : Nat) (bitReader strict checks : Bool) (cap : Option Nat)
    (specialisedCopy : Bool) (ioChunk : Nat) : Mach (BufW ww) (RState rw) :=
  let ri := RState.impl e
  let wi := BufW.impl e
  { e := e, checks := checks, wi := wi, ri := ri,
    pos := fun r => .ok r.pos,
    seek := RState.seek e,
    dump := fun w =>
      let bs := w.outBytes e
      match cap with
      | some c => bs ++ List.replicate ((c - w.out.length) * (ww / 8)) 0
      | none => bs,
    newWriter := BufW.new ww checks cap,
    mkReader := fun bytes =>
      if bitReader then .bit { data := { data := wordsOfBytes e 64 bytes, strict := strict } }
      else .buf (BufR.new { data := wordsOfBytes e rw bytes, strict := strict }),
    copyTo := fun r w n =>
      match r with
      | .buf b =>
        if specialisedCopy then (BufR.copyTo e checks wi b w n).map fun (b', w') => (.buf b', w')
        else copyGeneric ri wi (n / 64 + 2) r w n
      | .bit _ => copyGeneric ri wi (n / 64 + 2) r w n,
    copyFrom := fun w r n =>
      if specialisedCopy then BufW.copyFrom e ri w r n else copyGeneric ri wi (n / 64 + 2) r w n,
    noOneAhead := fun r => !r.isStrict && !((r.allBits e).drop r.pos).any id,
    ioChunk := ioChunk,
    stat := fun _ _ => "- -",
    rcode := fun r code flags p => (readProg e code flags p).map fun prog => prog.run ri r,
    wcode := fun w code flags p v => (writeProg e checks code flags p v).map fun prog => prog.run wi w }

/-- L1 machine: the reference. -/
def machL1 (e : Endian) (ww rw : Nat) (bitReader strict checks : Bool) (cap : Option Nat) :
    Mach RefW RefR :=
  let peekMax := if bitReader then 32 else rw
  let rwb := if bitReader then 64 else rw
  { e := e, checks := checks, wi := RefW.impl, ri := RefR.impl,
    pos := fun r => .ok r.pos,
    seek := fun r p =>
      -- a strict backend rejects positions beyond the data
      if r.strict && decide (p > r.stream.length) then .err .eof else .ok (r.seek p),
    dump := fun w =>
      let bs := layout e w.delivered
      match cap with
      | some c => bs ++ List.replicate (c * (ww / 8) - bs.length) 0
      | none => bs,
    newWriter := { e := e, W := ww, checks := checks, cap := cap },
    mkReader := fun bytes =>
      { e := e, stream := bitsOfBytes e (padTo (rwb / 8) bytes), strict := strict, peekMax := peekMax },
    copyTo := fun r w n =>
      if r.avail n then
        match (RefW.put w (takeZ n r.rest) 0) with
        | .ok (_, w') => .ok ({ r with pos := r.pos + n }, w')
        | .err er => .err er
        | .panic => .panic
        | .dpanic => .dpanic
      else .err .eof,
    copyFrom := fun w r n =>
      if r.avail n then
        match (RefW.put w (takeZ n r.rest) 0) with
        | .ok (_, w') => .ok ({ r with pos := r.pos + n }, w')
        | .err er => .err er
        | .panic => .panic
        | .dpanic => .dpanic
      else .err .eof,
    noOneAhead := fun r => !r.strict && !(r.rest.any id),
    ioChunk := 8,
    stat := fun _ _ => "- -",
    -- the reference decodes bit by bit: table options and the default-parameter choices are
    -- ignored (C05 says they change nothing), so a wrong table entry shows up as a difference
    rcode := fun r code flags p =>
      let plain := match code with
        | "gamma" => "0"
        | "delta" => "00"
        | "zeta3" => "0"
        | _ => flags
      (readProg e code plain p).map fun prog => prog.run RefR.impl r,
    -- the reference writes the *published* codeword (Dsi.Spec) wherever the implemented writer
    -- program accepts the arguments (its panics delimit the domain)
    wcode := fun w code flags p v =>
      match writeProg e checks code flags p v, Spec.codeword e (if code == "zeta" then "zetaw" else if code == "zeta3" then "zetaw3" else code) p v with
      | some prog, some bits =>
        some (match prog.run RefW.impl w with
          | .ok _ => RefW.put w bits bits.length
          | r => r)
      | _, _ => none }


/-! ### counting wrappers (C14) -/

/-- the specialised trait impls of the counting wrappers forward these default methods whole -/
def forwardedLen (code flags : String) (p : Nat) : Option (Nat → Nat) :=
  match code, flags with
  | "gamma", "d" => some lenGammaD
  | "delta", "d" => some lenDeltaD
  | "zeta3", "d" => some (fun v => lenZetaD v 3)
  | "zeta", "d" => some (fun v => lenZetaD v p)
  | _, _ => none

/-- `CountBitWriter` / `CountBitReader` around the machines of `M` (model of the code) -/
def machCount {ω ρ} (M : Mach ω ρ) : Mach (CountW ω) (CountR ρ) :=
  let wi := CountW.impl M.wi
  let ri := CountR.impl M.ri
  { e := M.e, checks := M.checks, wi := wi, ri := ri,
    pos := fun r => M.pos r.inner,
    seek := fun r p => (M.seek r.inner p).map fun i => { r with inner := i },
    dump := fun w => M.dump w.inner,
    mkReader := fun bytes => { inner := M.mkReader bytes },
    newWriter := { inner := M.newWriter },
    -- the wrappers do not override the bulk copies: the generic loop runs through them
    copyTo := fun r w n => copyGeneric ri wi (n / 64 + 2) r w n,
    copyFrom := fun w r n => copyGeneric ri wi (n / 64 + 2) r w n,
    noOneAhead := fun r => M.noOneAhead r.inner,
    ioChunk := M.ioChunk,
    stat := fun w r => s!"bw={w.bitsWritten} br={r.bitsRead}",
    rcode := fun r code flags p =>
      match forwardedLen code flags p, readProg M.e code flags p with
      | some len, some prog => some (CountR.forward M.ri prog len r)
      | none, some prog => some (prog.run ri r)
      | _, none => none,
    wcode := fun w code flags p v =>
      match forwardedLen code flags p, writeProg M.e M.checks code flags p v with
      | some _, some prog => some (CountW.forward M.wi prog w)
      | none, some prog => some (prog.run wi w)
      | _, none => none }

/-- reference for the counting wrappers: values, bits and positions are those of the bare
    reference machines; the write counter is the number of bits handed to write operations
    (padding added by a flush is not written by the caller), the read counter is the distance
    travelled by the reference cursor. -/
def machCountRef (M : Mach RefW RefR) : Mach (CountW RefW) (CountR RefR) :=
  let lift (r : Res (Nat × RefW)) (w : CountW RefW) (isFlush : Bool) : Res (Nat × CountW RefW) :=
    r.map fun (k, i) => (k, { inner := i, bitsWritten := if isFlush then w.bitsWritten else w.bitsWritten + k })
  let wi : WImpl (CountW RefW) :=
    { writeBits := fun w v n => lift (M.wi.writeBits w.inner v n) w false,
      writeUnary := fun w x => lift (M.wi.writeUnary w.inner x) w false,
      flush := fun w => lift (M.wi.flush w.inner) w true }
  -- every consuming operation adds the distance the reference cursor travelled; seeks add nothing
  let adv (r : CountR RefR) (i : RefR) : CountR RefR := { inner := i, bitsRead := r.bitsRead + (i.pos - r.inner.pos) }
  let ri : RImpl (CountR RefR) :=
    { readBits := fun r n => (M.ri.readBits r.inner n).map fun (v, i) => (v, adv r i),
      peekBits := fun r n => (M.ri.peekBits r.inner n).map fun (v, i) => (v, adv r i),
      skipAfterPeek := fun r n => adv r (M.ri.skipAfterPeek r.inner n),
      skipBits := fun r n => (M.ri.skipBits r.inner n).map fun i => adv r i,
      readUnary := fun r => (M.ri.readUnary r.inner).map fun (v, i) => (v, adv r i) }
  { e := M.e, checks := M.checks, wi := wi, ri := ri,
    pos := fun r => M.pos r.inner,
    seek := fun r p => (M.seek r.inner p).map fun i => { r with inner := i },
    dump := fun w => M.dump w.inner,
    mkReader := fun bytes => { inner := M.mkReader bytes },
    newWriter := { inner := M.newWriter },
    copyTo := fun r w n => (M.copyTo r.inner w.inner n).map fun (ri', wi') =>
      (adv r ri', { inner := wi', bitsWritten := w.bitsWritten + n }),
    copyFrom := fun w r n => (M.copyFrom w.inner r.inner n).map fun (ri', wi') =>
      (adv r ri', { inner := wi', bitsWritten := w.bitsWritten + n }),
    noOneAhead := fun r => M.noOneAhead r.inner,
    ioChunk := M.ioChunk,
    stat := fun w r => s!"bw={w.bitsWritten} br={r.bitsRead}",
    rcode := fun r code flags p => (M.rcode r.inner code flags p).map fun x => x.map fun (v, i) => (v, adv r i),
    wcode := fun w code flags p v => (M.wcode w.inner code flags p v).map fun x => lift x w false }

end Dsi
