/-
  C05 — kernel-evaluated table theorems (δ decoding, BE, piece 0 of 1: chunks 0 and 1).  Each statement is a closed Boolean
  computation over the *generated* table (no table content is mentioned here), checked by the
  kernel's evaluator (`decide +kernel`: no `native_decide`, no compiler trust).
-/
import Dsi.Lemmas.TablesCheck
import Dsi.Gen.TablesDelta
namespace Dsi
open Gen

theorem Tables.delta_read_be_p0 :
    chkReadHead .be (readDeltaDefault none) Delta.READ_BITS Delta.MISSING_VALUE_LEN_BE 2
      (0, Delta.READ_BE_chunks, Delta.READ_LEN_BE_chunks) = true := by decide +kernel

end Dsi
