/-
  Headline, part 2, readers: the code readers as GENERATED from src/codes/*.rs on this run,
  assembled per code like the hand-written `ownRead`, and
  * `genOwnRead_guarded`: the hand-written reader is the generated one with (debug-)panic points
    inserted (`Guarded`);
  * `genOwnRead_peekLe` : the generated reader peeks at most `tablePeek` (= 12) bits.
-/
import Dsi.Lemmas.HeadlineRunR
import Dsi.Props.TableFnsGen
import Dsi.Props.OmegaGen
import Dsi.Props.VByteGen
import Dsi.Props.Equiv
namespace Dsi
namespace Headline
open Gen CodeBodiesGen TableFnsGen
variable {W : Nat}

/-- the generated reader of a code -/
def genOwnRead (e : Endian) (c : CodeId) : RProg Nat :=
  match c.fam with
  | .unary => .readUnary .ret
  | .gamma => readGammaParam e Params.readGammaTable
  | .delta => readDeltaParam e Params.readDeltaTable Params.readDeltaGammaTable
  | .omega => Gen.read_omega e
  | .vbyteBe => Gen.read_vbyte_be vbFuel
  | .vbyteLe => Gen.read_vbyte_le vbFuel
  | .zeta => readZetaParam e c.p
  | .pi => Gen.read_pi c.p
  | .golomb => Gen.read_golomb c.p
  | .expGolomb => Gen.read_exp_golomb (readGammaParam e Params.readGammaTable) c.p
  | .rice => Gen.read_rice c.p

/-! ## readers -/

/-- exp-Golomb over the *generated* γ reader -/
theorem read_exp_golomb_param_guarded (e : Endian) (t : Bool) (k : Nat) :
    Guarded (readExpGolomb (opt t (gammaRTab e)) k) (Gen.read_exp_golomb (readGammaParam e t) k) := by
  unfold readExpGolomb Gen.read_exp_golomb
  split
  · exact Guarded.dpanic _
  · refine Guarded.bind (read_gamma_param_guarded e t) fun g => Guarded.readBits k fun v _ => ?_
    split
    · exact Guarded.dpanic _
    · rename_i h
      have hu : g * 2 ^ k < 2 ^ 64 := by omega
      rw [Nat.shiftLeft_eq, Nat.mod_eq_of_lt hu]
      exact Guarded.refl _

theorem genOwnRead_guarded (e : Endian) (c : CodeId) : Guarded (ownRead e c) (genOwnRead e c) := by
  obtain ⟨fam, p⟩ := c
  cases fam
  case unary => exact Guarded.refl _
  case gamma => exact read_gamma_param_guarded e Params.readGammaTable
  case delta => exact read_delta_param_guarded e Params.readDeltaTable Params.readDeltaGammaTable
  case omega => exact OmegaGen.read_omega_guarded e
  case vbyteBe => exact VByteGen.read_vbyte_be_guarded _
  case vbyteLe => exact VByteGen.read_vbyte_le_guarded _
  case zeta => exact read_zeta_param_guarded e p
  case pi => exact read_pi_guarded p
  case golomb => exact read_golomb_guarded p
  case expGolomb => exact read_exp_golomb_param_guarded e _ p
  case rice => exact read_rice_guarded p

/-! ### the generated readers peek at most `tablePeek` bits -/

theorem peekLe_default_read_gamma : PeekLe W Gen.default_read_gamma := fun _ _ => trivial

theorem peekLe_read_rice (k : Nat) : PeekLe W (Gen.read_rice k) := fun _ _ => trivial

theorem peekLe_read_pi (k : Nat) : PeekLe W (Gen.read_pi k) :=
  PeekLe.bind (peekLe_read_rice k) fun _ _ => trivial

/-- (the shape of `read_minimal_binary`, with the u64 arithmetic abstracted: unfolding it makes
    the kernel evaluate `2 ^ 64`-sized terms) -/
theorem peekLe_mb_shape (l limit : Nat) (f : Nat → Nat → Nat) :
    PeekLe W (RProg.readBits l fun p =>
      if p < limit then RProg.ret p else RProg.readBits 1 fun r1 => RProg.ret (f p r1)) := by
  intro v
  show PeekLe W (if v < limit then _ else _)
  split
  · exact True.intro
  · exact fun _ => True.intro

theorem peekLe_read_minimal_binary (max : Nat) : PeekLe W (Gen.read_minimal_binary max) :=
  peekLe_mb_shape _ _ _

theorem peekLe_read_golomb (b : Nat) : PeekLe W (Gen.read_golomb b) :=
  fun _ => PeekLe.bind (peekLe_read_minimal_binary b) fun _ => trivial

theorem peekLe_read_exp_golomb {rg : RProg Nat} (h : PeekLe W rg) (k : Nat) :
    PeekLe W (Gen.read_exp_golomb rg k) :=
  PeekLe.bind h fun _ _ => trivial

theorem peekLe_default_read_delta {rgp : Bool → RProg Nat} (t : Bool) (h : PeekLe W (rgp t)) :
    PeekLe W (Gen.default_read_delta rgp t) :=
  PeekLe.bind h fun _ _ => trivial

theorem peekLe_default_read_zeta (k : Nat) : PeekLe W (Gen.default_read_zeta k) :=
  fun _ => PeekLe.bind (peekLe_read_minimal_binary _) fun _ => trivial

theorem peekLe_read_omega_loop (e : Endian) (hW : 1 ≤ W) (fuel : Nat) :
    ∀ n, PeekLe W (Gen.read_omega_loop1 fuel e n) := by
  induction fuel with
  | zero => intro n; trivial
  | succ fuel ih =>
    intro n
    unfold Gen.read_omega_loop1
    refine ⟨hW, fun v => ?_⟩
    cases v with
    | error x => trivial
    | ok bit =>
      dsimp only
      split
      · trivial
      · intro m
        split
        · exact ih _
        · exact ih _

theorem peekLe_read_omega (e : Endian) (hW : 1 ≤ W) : PeekLe W (Gen.read_omega e) :=
  peekLe_read_omega_loop e hW 8 1

theorem peekLe_vbyte_be_while (fuel : Nat) : ∀ (byte value : Nat) (k : Nat → Nat → RProg Nat),
    (∀ a b, PeekLe W (k a b)) → PeekLe W (Gen.read_vbyte_be_while1 fuel byte value k) := by
  induction fuel with
  | zero => intro _ _ _ _; trivial
  | succ fuel ih =>
    intro byte value k hk
    unfold Gen.read_vbyte_be_while1
    split
    · intro b; exact ih _ _ k hk
    · exact hk _ _

theorem peekLe_read_vbyte_be (fuel : Nat) : PeekLe W (Gen.read_vbyte_be fuel) :=
  fun _ => peekLe_vbyte_be_while fuel _ _ _ fun _ _ => trivial

theorem peekLe_vbyte_le_loop (fuel : Nat) : ∀ (result shift : Nat) (k : Nat → Nat → RProg Nat),
    (∀ a b, PeekLe W (k a b)) → PeekLe W (Gen.read_vbyte_le_loop1 fuel result shift k) := by
  induction fuel with
  | zero => intro _ _ _ _; trivial
  | succ fuel ih =>
    intro result shift k hk
    unfold Gen.read_vbyte_le_loop1
    intro b
    dsimp only
    split
    · exact hk _ _
    · exact ih _ _ k hk

theorem peekLe_read_vbyte_le (fuel : Nat) : PeekLe W (Gen.read_vbyte_le fuel) :=
  peekLe_vbyte_le_loop fuel _ _ _ fun _ _ => trivial

/-- the text of `read_table_be/le` peeks `bits` bits -/
theorem peekLe_readTableG {bits : Nat} (hb : bits ≤ W) (missing : Nat) (vals lens : Array Nat) :
    PeekLe W (readTableG bits missing vals lens) := by
  unfold readTableG
  refine ⟨hb, fun v => ?_⟩
  cases v with
  | error x => trivial
  | ok idx =>
    dsimp only
    split
    · trivial
    · split
      · show PeekLe W (match vals[idx]? with | none => RProg.panic | some r1 => RProg.ret _)
        split <;> trivial
      · trivial

theorem peekLe_orElseR {fb : RProg Nat} (h : PeekLe W fb) : ∀ a, PeekLe W (orElseR fb a)
  | some (_, _) => trivial
  | none => h

theorem peekLe_readGammaParam (e : Endian) (t : Bool) (hW : t = true → Gamma.READ_BITS ≤ W) :
    PeekLe W (readGammaParam e t) := by
  cases t
  · cases e <;> exact peekLe_default_read_gamma
  · have hb := hW rfl
    cases e
    · show PeekLe W (Gen.Gamma.read_table_be.bind (orElseR Gen.default_read_gamma))
      rw [gamma_read_table_shape.1]
      exact PeekLe.bind (peekLe_readTableG hb _ _ _) (peekLe_orElseR peekLe_default_read_gamma)
    · show PeekLe W (Gen.Gamma.read_table_le.bind (orElseR Gen.default_read_gamma))
      rw [gamma_read_table_shape.2]
      exact PeekLe.bind (peekLe_readTableG hb _ _ _) (peekLe_orElseR peekLe_default_read_gamma)

theorem peekLe_readDeltaParam (e : Endian) (td tg : Bool) (hd : td = true → Delta.READ_BITS ≤ W)
    (hg : tg = true → Gamma.READ_BITS ≤ W) : PeekLe W (readDeltaParam e td tg) := by
  have hfb : PeekLe W (Gen.default_read_delta (readGammaParam e) tg) :=
    peekLe_default_read_delta tg (peekLe_readGammaParam e tg hg)
  cases td
  · cases e <;> exact hfb
  · have hb := hd rfl
    cases e
    · show PeekLe W (Gen.Delta.read_table_be.bind (orElseR (Gen.default_read_delta Gen.read_gamma_param_be tg)))
      rw [delta_read_table_shape.1]
      exact PeekLe.bind (peekLe_readTableG hb _ _ _) (peekLe_orElseR hfb)
    · show PeekLe W (Gen.Delta.read_table_le.bind (orElseR (Gen.default_read_delta Gen.read_gamma_param_le tg)))
      rw [delta_read_table_shape.2]
      exact PeekLe.bind (peekLe_readTableG hb _ _ _) (peekLe_orElseR hfb)

theorem peekLe_readZetaParam (e : Endian) (k : Nat) : PeekLe W (readZetaParam e k) := by
  cases e <;> exact peekLe_default_read_zeta k

theorem peekLe_readZeta3Param (e : Endian) (t : Bool) (hW : t = true → Zeta.READ_BITS ≤ W) :
    PeekLe W (readZeta3Param e t) := by
  cases t
  · cases e <;> exact peekLe_default_read_zeta 3
  · have hb := hW rfl
    cases e
    · show PeekLe W (Gen.Zeta.read_table_be.bind (orElseR (Gen.default_read_zeta 3)))
      rw [zeta_read_table_shape.1]
      exact PeekLe.bind (peekLe_readTableG hb _ _ _) (peekLe_orElseR (peekLe_default_read_zeta 3))
    · show PeekLe W (Gen.Zeta.read_table_le.bind (orElseR (Gen.default_read_zeta 3)))
      rw [zeta_read_table_shape.2]
      exact PeekLe.bind (peekLe_readTableG hb _ _ _) (peekLe_orElseR (peekLe_default_read_zeta 3))

theorem genOwnRead_peekLe (e : Endian) (c : CodeId) (hW : tablePeek ≤ W) :
    PeekLe W (genOwnRead e c) := by
  have hg : Gamma.READ_BITS ≤ W := Nat.le_trans gamma_le_tablePeek hW
  have hd : Delta.READ_BITS ≤ W := Nat.le_trans delta_le_tablePeek hW
  have h1 : 1 ≤ W := Nat.le_trans one_le_tablePeek hW
  obtain ⟨fam, p⟩ := c
  cases fam
  case unary => exact fun _ => trivial
  case gamma => exact peekLe_readGammaParam e _ fun _ => hg
  case delta => exact peekLe_readDeltaParam e _ _ (fun _ => hd) fun _ => hg
  case omega => exact peekLe_read_omega e h1
  case vbyteBe => exact peekLe_read_vbyte_be _
  case vbyteLe => exact peekLe_read_vbyte_le _
  case zeta => exact peekLe_readZetaParam e p
  case pi => exact peekLe_read_pi p
  case golomb => exact peekLe_read_golomb p
  case expGolomb => exact peekLe_read_exp_golomb (peekLe_readGammaParam e _ fun _ => hg) p
  case rice => exact peekLe_read_rice p

end Headline
end Dsi
