/-
  C05 — kernel-evaluated table theorems (δ encoding, BE).  Each statement is a closed Boolean
  computation over the *generated* table (no table content is mentioned here), checked by the
  kernel's evaluator (`decide +kernel`: no `native_decide`, no compiler trust).
-/
import Dsi.Lemmas.TablesCheck
import Dsi.Gen.TablesDelta
namespace Dsi
open Gen

/-- every entry of the BE δ encoding table is the codeword `writeDeltaDefault` (no γ table) writes;
    the table has `WRITE_MAX + 1` entries -/
theorem delta_write_be_ok :
    chkWriteTable .be (writeDeltaDefault false none) Delta.WRITE_MAX
      Delta.WRITE_BE_chunks Delta.WRITE_LEN_BE_chunks = true := by decide +kernel

end Dsi
