/-
  Bulk copy, reference level: the specification `refCopy` ("move `n` bits"), its algebra
  (copying `a + b` bits is copying `a` then `b`), and the generic chunked loop on the reference
  machines.
-/
import Dsi.Impl.Copy
import Dsi.Lemmas.ReaderBits
import Dsi.Lemmas.CodesABits
namespace Dsi

/-- The specification of a bulk copy: if the reader has `n` more bits (always, on a zero-extended
    stream) append them to the writer and advance the reader by `n`; otherwise `UnexpectedEof`.
    A fixed-capacity writer that cannot take the bits refuses (`RefW.put`). -/
def refCopy (r : RefR) (w : RefW) (n : Nat) : Res (RefR × RefW) :=
  if r.avail n then
    match w.put (takeZ n r.rest) n with
    | .ok (_, w') => .ok ({ r with pos := r.pos + n }, w')
    | .err e => .err e
    | .panic => .panic
    | .dpanic => .dpanic
  else .err .eof

namespace CopyL

/-! ### lists -/

theorem takeZ_add (a b : Nat) (l : List Bool) :
    takeZ (a + b) l = takeZ a l ++ takeZ b (l.drop a) := by
  induction a generalizing l with
  | zero => simp [takeZ]
  | succ a ih =>
    rw [Nat.succ_add]
    cases l with
    | nil =>
      have := ih []
      simp only [List.drop_nil] at this
      simp [takeZ, this]
    | cons x xs => simp [takeZ, ih]

theorem natLE_lt (l : List Bool) : natLE l < 2 ^ l.length := by
  induction l with
  | nil => simp [natLE]
  | cons b bs ih =>
    simp only [natLE, List.length_cons, Nat.pow_succ]
    cases b <;> simp <;> omega

theorem bitsVal_lt (e : Endian) (l : List Bool) : bitsVal e l < 2 ^ l.length := by
  cases e
  · have := natLE_lt l.reverse
    simpa [bitsVal] using this
  · exact natLE_lt l

theorem fieldLE_natLE (l : List Bool) : fieldLE (natLE l) l.length = l := by
  induction l with
  | nil => rfl
  | cons b bs ih =>
    simp only [natLE, List.length_cons, fieldLE]
    have h1 : ((if b = true then 1 else 0) + 2 * natLE bs) % 2 = if b = true then 1 else 0 := by
      cases b <;> simp <;> omega
    have h2 : ((if b = true then 1 else 0) + 2 * natLE bs) / 2 = natLE bs := by
      cases b <;> simp <;> omega
    rw [h1, h2, ih]
    cases b <;> simp

theorem fieldBits_bitsVal (e : Endian) (l : List Bool) : fieldBits e (bitsVal e l) l.length = l := by
  cases e
  · have := fieldLE_natLE l.reverse
    simp only [List.length_reverse] at this
    simp [fieldBits, bitsVal, this]
  · exact fieldLE_natLE l

theorem fieldBits_bitsVal' (e : Endian) (l : List Bool) {n : Nat} (h : l.length = n) :
    fieldBits e (bitsVal e l) n = l := by
  subst h; exact fieldBits_bitsVal e l

/-! ### the reference writer -/

theorem fits_mono (w : RefW) (a b : List Bool) (h : w.fits (a ++ b) = true) : w.fits a = true := by
  unfold RefW.fits at *
  cases hc : w.cap with
  | none => rfl
  | some c =>
    simp only [hc, List.length_append, decide_eq_true_eq] at h ⊢
    exact Nat.le_trans (Nat.div_le_div_right (Nat.le_add_right _ _)) h

theorem fits_with_bits (w : RefW) (b l : List Bool) :
    RefW.fits { w with bits := b } l = w.fits l := rfl

theorem put_eq (w : RefW) (bs : List Bool) (k : Nat) :
    w.put bs k = if w.fits (w.bits ++ bs) then .ok (k, { w with bits := w.bits ++ bs })
      else .err .eof := rfl

/-! ### the reference reader -/

theorem avail_mono (r : RefR) {a b : Nat} (h : a ≤ b) (hb : r.avail b = true) : r.avail a = true := by
  unfold RefR.avail at *
  cases hs : r.strict
  · rfl
  · rw [hs] at hb
    simp only [Bool.not_true, Bool.false_or, decide_eq_true_eq] at hb ⊢
    omega

theorem avail_advance (r : RefR) (a b : Nat) :
    RefR.avail { r with pos := r.pos + a } b = r.avail (a + b) := by
  simp [RefR.avail, Nat.add_assoc]

theorem rest_advance (r : RefR) (a : Nat) :
    RefR.rest { r with pos := r.pos + a } = r.rest.drop a := by
  simp [RefR.rest, List.drop_drop, Nat.add_comm]

end CopyL

open CopyL

/-! ### `refCopy` -/

theorem refCopy_eq (r : RefR) (w : RefW) (n : Nat) :
    refCopy r w n =
      if r.avail n = true ∧ w.fits (w.bits ++ takeZ n r.rest) = true then
        .ok ({ r with pos := r.pos + n }, { w with bits := w.bits ++ takeZ n r.rest })
      else .err .eof := by
  unfold refCopy
  rw [put_eq]
  by_cases h1 : r.avail n = true <;> by_cases h2 : w.fits (w.bits ++ takeZ n r.rest) = true <;>
    simp [h1, h2]

/-- on a growable writer a copy of available bits always succeeds -/
theorem refCopy_growable (r : RefR) (w : RefW) (n : Nat) (hav : r.avail n = true)
    (hcap : w.cap = none) :
    refCopy r w n =
      .ok ({ r with pos := r.pos + n }, { w with bits := w.bits ++ takeZ n r.rest }) := by
  rw [refCopy_eq]
  simp [hav, RefW.fits, hcap]

theorem refCopy_zero (r : RefR) (w : RefW) (h0 : r.avail 0 = true) (hfit : w.fits w.bits = true) :
    refCopy r w 0 = .ok (r, w) := by
  rw [refCopy_eq]
  simp [takeZ, h0, hfit]

/-- copying `a + b` bits is copying `a` bits, then `b` bits (also when it fails: every failure is
    `UnexpectedEof`) -/
theorem refCopy_add (r : RefR) (w : RefW) (a b : Nat) :
    refCopy r w (a + b) = (refCopy r w a).bind (fun p => refCopy p.1 p.2 b) := by
  rw [refCopy_eq r w a]
  by_cases h1 : r.avail a = true ∧ w.fits (w.bits ++ takeZ a r.rest) = true
  · rw [if_pos h1]
    show _ = refCopy _ _ b
    rw [refCopy_eq, refCopy_eq, avail_advance, rest_advance, takeZ_add]
    simp only [RefW.fits, List.append_assoc, Nat.add_assoc]
    rfl
  · rw [if_neg h1]
    show _ = Res.err Err.eof
    rw [refCopy_eq, if_neg]
    rintro ⟨h2, h3⟩
    apply h1
    refine ⟨avail_mono r (Nat.le_add_right a b) h2, ?_⟩
    rw [takeZ_add, ← List.append_assoc] at h3
    exact fits_mono w _ _ h3

/-- the successful outcome of a copy, for `ResRel` targets -/
theorem refCopy_ok_iff {r r' : RefR} {w w' : RefW} {n : Nat} :
    refCopy r w n = .ok (r', w') ↔
      (r.avail n = true ∧ w.fits (w.bits ++ takeZ n r.rest) = true) ∧
      r' = { r with pos := r.pos + n } ∧ w' = { w with bits := w.bits ++ takeZ n r.rest } := by
  rw [refCopy_eq]
  by_cases h : r.avail n = true ∧ w.fits (w.bits ++ takeZ n r.rest) = true
  · simp [h, eq_comm]
  · simp [h]

/-! ### one step of the chunked loops -/

/-- `write_bits(read_bits(k)?, k)?` -/
def copyStep {ρ ω} (ri : RImpl ρ) (wi : WImpl ω) (r : ρ) (w : ω) (k : Nat) : Res (ρ × ω) :=
  match ri.readBits r k with
  | .ok (v, r') =>
    match wi.writeBits w v k with
    | .ok (_, w') => .ok (r', w')
    | .err e => .err e
    | .panic => .panic
    | .dpanic => .dpanic
  | .err e => .err e
  | .panic => .panic
  | .dpanic => .dpanic

theorem copyGeneric_succ {ρ ω} (ri : RImpl ρ) (wi : WImpl ω) (fuel : Nat) (r : ρ) (w : ω) (n : Nat) :
    copyGeneric ri wi (fuel + 1) r w n =
      if n = 0 then .ok (r, w)
      else (copyStep ri wi r w (min n 64)).bind
        (fun p => copyGeneric ri wi fuel p.1 p.2 (n - min n 64)) := by
  rw [copyGeneric]
  unfold copyStep
  by_cases hn : n = 0
  · simp [hn]
  · simp only [hn, if_false]
    cases ri.readBits r (min n 64) with
    | ok p =>
      obtain ⟨v, r'⟩ := p
      simp only
      cases wi.writeBits w v (min n 64) with
      | ok q => obtain ⟨_, w'⟩ := q; rfl
      | err _ => rfl
      | panic => rfl
      | dpanic => rfl
    | err _ => rfl
    | panic => rfl
    | dpanic => rfl

/-- on the reference machines a step moves the next `k ≤ 64` bits: the value read is clean, so
    the `checks` assertion of `write_bits` never fires -/
theorem copyStep_ref (r : RefR) (w : RefW) (k : Nat) (hk : k ≤ 64) (he : w.e = r.e) :
    copyStep RefR.impl RefW.impl r w k = refCopy r w k := by
  unfold copyStep refCopy
  have e1 : RefR.impl.readBits = RefR.readBits := rfl
  have e2 : RefW.impl.writeBits = RefW.writeBits := rfl
  rw [e1, e2]
  unfold RefR.readBits
  rw [if_neg (by omega)]
  by_cases hav : r.avail k = true
  · rw [if_pos hav, if_pos hav]
    simp only
    unfold RefW.writeBits
    have hlt : bitsVal r.e (takeZ k r.rest) < 2 ^ k := by
      have := bitsVal_lt r.e (takeZ k r.rest)
      rwa [length_takeZ] at this
    have hlt64 : bitsVal r.e (takeZ k r.rest) < 2 ^ 64 :=
      Nat.lt_of_lt_of_le hlt (Nat.pow_le_pow_right (by decide) hk)
    rw [if_neg (by omega), if_neg]
    · rw [he, fieldBits_bitsVal' r.e _ (length_takeZ k _)]
      cases w.put (takeZ k r.rest) k with
      | ok q => obtain ⟨_, _⟩ := q; rfl
      | err _ => rfl
      | panic => rfl
      | dpanic => rfl
    · rw [Nat.mod_eq_of_lt hlt64]
      simp
      intro _
      exact hlt
  · rw [if_neg hav, if_neg hav]

/-- **The generic chunked loop on the reference machines is the specification.**  `fuel` bounds
    the number of iterations (`n ≤ 64 * fuel`; the driver uses `n / 64 + 2`).  `r.avail 0` only excludes a strict
    reader positioned beyond the end of its stream, `w.fits w.bits` a fixed writer already over
    capacity (both hold in every reachable state, and follow from `r.avail n`, `w.cap = none`).
    When the stream ends inside the copy both sides are `UnexpectedEof` (the generic loop has
    then already appended some chunks to a writer that is no longer observable in `Res`). -/
theorem copyGeneric_ref_gen (fuel : Nat) (r : RefR) (w : RefW) (n : Nat) (he : w.e = r.e)
    (h0 : r.avail 0 = true) (hfit : w.fits w.bits = true) (hfuel : n ≤ 64 * fuel) :
    copyGeneric RefR.impl RefW.impl fuel r w n = refCopy r w n := by
  induction fuel generalizing r w n with
  | zero =>
    have hn : n = 0 := by omega
    subst hn
    rw [refCopy_zero r w h0 hfit]
    rfl
  | succ fuel ih =>
    rw [copyGeneric_succ]
    by_cases hn : n = 0
    · subst hn
      rw [if_pos rfl, refCopy_zero r w h0 hfit]
    · rw [if_neg hn, copyStep_ref r w _ (Nat.min_le_right _ _) he]
      have hsplit : n = min n 64 + (n - min n 64) := by omega
      conv => rhs; rw [hsplit, refCopy_add]
      cases hstep : refCopy r w (min n 64) with
      | ok p =>
        obtain ⟨r', w'⟩ := p
        obtain ⟨⟨hav, hf⟩, rfl, rfl⟩ := refCopy_ok_iff.1 hstep
        show copyGeneric _ _ fuel _ _ _ = refCopy _ _ _
        apply ih
        · exact he
        · rw [avail_advance]; exact hav
        · exact hf
        · omega
      | err x => rfl
      | panic => rfl
      | dpanic => rfl

end Dsi
