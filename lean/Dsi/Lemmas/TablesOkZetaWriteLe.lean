/-
  C05 — kernel-evaluated table theorems (ζ₃ encoding, LE; lengths).  Each statement is a closed Boolean
  computation over the *generated* table (no table content is mentioned here), checked by the
  kernel's evaluator (`decide +kernel`: no `native_decide`, no compiler trust).
-/
import Dsi.Lemmas.TablesCheck
import Dsi.Gen.TablesZeta
namespace Dsi
open Gen

/-- every entry of the LE ζ₃ encoding table is the codeword `writeZetaDefault · 3` writes;
    the table has `WRITE_MAX + 1` entries -/
theorem zeta_write_le_ok :
    chkWriteTable .le (writeZetaDefault · 3) Zeta.WRITE_MAX
      Zeta.WRITE_LE_chunks Zeta.WRITE_LEN_LE_chunks = true := by decide +kernel

/-- `LEN[v] = lenZetaDefault v K` for the `WRITE_MAX + 1` entries of the ζ length table -/
theorem zeta_len_ok :
    chkLenTable (lenZetaDefault · Zeta.K) Zeta.WRITE_MAX Zeta.LEN_chunks = true := by decide +kernel

/-- the ζ tables are generated for `k = 3` (the only `k` the table-driven methods serve) -/
theorem zeta_k_ok : Zeta.K = 3 := by decide +kernel

end Dsi
