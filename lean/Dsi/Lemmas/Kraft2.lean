/-
  Kraft inequality, second part: minimal binary, Golomb, ζ_k, VByte, ω (codes whose suffix
  length is not a function of the prefix value, and codes that are prefix-free only on a
  bounded domain).
-/
import Dsi.Lemmas.Kraft
import Dsi.Lemmas.LenMono

namespace Dsi

open InformationTheory

/-! ### Prefix-freeness on a domain -/

/-- `PF` restricted to the arguments satisfying `D`. -/
def PFOn (D : ℕ → Prop) (c : ℕ → List Bool) : Prop :=
  ∀ m n s t, D m → D n → c m ++ s = c n ++ t → m = n

theorem PF.toPFOn {c : ℕ → List Bool} (h : PF c) (D : ℕ → Prop) : PFOn D c :=
  fun m n s t _ _ => h m n s t

theorem PFOn.toPF {c : ℕ → List Bool} (h : PFOn (fun _ => True) c) : PF c :=
  fun m n s t => h m n s t trivial trivial

theorem PFOn.mono {D D' : ℕ → Prop} {c : ℕ → List Bool} (h : PFOn D c)
    (hD : ∀ n, D' n → D n) : PFOn D' c :=
  fun m n s t hm hn => h m n s t (hD m hm) (hD n hn)

theorem PFOn.prefix_free {D : ℕ → Prop} {c : ℕ → List Bool} (h : PFOn D c) (m n : ℕ)
    (hm : D m) (hn : D n) : c m <+: c n → m = n := by
  rintro ⟨t, ht⟩
  exact h m n t [] hm hn (by simpa using ht)

/-- A code that is prefix-free on `D`, followed by a suffix code that is prefix-free among the
    arguments sharing the same prefix value. -/
theorem PFOn.comp {D D' : ℕ → Prop} {c : ℕ → List Bool} (hc : PFOn D c)
    (f : ℕ → ℕ) (g : ℕ → List Bool) (hD : ∀ n, D' n → D (f n))
    (hg : ∀ m n s t, D' m → D' n → f m = f n → g m ++ s = g n ++ t → m = n) :
    PFOn D' (fun n => c (f n) ++ g n) := by
  intro m n s t hm hn h
  simp only [List.append_assoc] at h
  have hf : f m = f n := hc (f m) (f n) _ _ (hD m hm) (hD n hn) h
  rw [hf] at h
  exact hg m n s t hm hn hf (List.append_cancel_left h)

/-- Kraft's inequality for an initial segment inside the domain of a prefix-free code. -/
theorem kraft_of_PFOn {D : ℕ → Prop} {c : ℕ → List Bool} (hc : PFOn D c) (len : ℕ → ℕ)
    (hlen : ∀ n, D n → (c n).length = len n) (N : ℕ) (hN : ∀ n, n < N → D n) :
    ∑ n ∈ Finset.range N, ((1:ℝ)/2) ^ len n ≤ 1 := by
  have hinj : Set.InjOn c (Finset.range N : Set ℕ) := by
    intro m hm n hn h
    have hm' : m < N := by simpa using hm
    have hn' : n < N := by simpa using hn
    exact hc.prefix_free m n (hN m hm') (hN n hn') (h ▸ List.prefix_refl _)
  have h := kraft_of_prefix_free ((Finset.range N).image c) (by
    intro a ha b hb hab
    obtain ⟨m, hm, rfl⟩ := Finset.mem_image.mp ha
    obtain ⟨n, hn, rfl⟩ := Finset.mem_image.mp hb
    rw [hc.prefix_free m n (hN m (by simpa using hm)) (hN n (by simpa using hn)) hab])
  rw [Finset.sum_image hinj] at h
  refine le_trans (le_of_eq ?_) h
  refine Finset.sum_congr rfl fun n hn => ?_
  rw [hlen n (hN n (by simpa using hn))]

namespace Kraft

theorem fieldBits_append_inj (e : Endian) (v w n : ℕ) (s t : List Bool)
    (h : fieldBits e v n ++ s = fieldBits e w n ++ t) : v % 2 ^ n = w % 2 ^ n ∧ s = t := by
  have h' := List.append_inj h (by simp [fieldBits_length])
  exact ⟨fieldBits_inj e v w n h'.1, h'.2⟩

end Kraft

/-! ### minimal binary -/

/-- The implemented threshold is the published one for every bound that fits in 64 bits
    (for `⌊log₂ u⌋ = 63` the shift wraps to zero and the wrapping subtraction repairs it). -/
theorem mbLimit_eq {u : ℕ} (hu1 : 1 ≤ u) (hu : u < 2 ^ 64) :
    mbLimit u = 2 ^ (u.log2 + 1) - u := by
  unfold mbLimit wsub64 shl64
  have hl : u.log2 < 64 := (Nat.log2_lt (by omega)).2 hu
  have h2 : u < 2 ^ (u.log2 + 1) := Nat.lt_log2_self
  rw [← Nat.pow_add]
  by_cases hc : u.log2 + 1 < 64
  · have hP : 2 ^ (u.log2 + 1) < 2 ^ 64 := Nat.pow_lt_pow_right (by omega) hc
    generalize 2 ^ (u.log2 + 1) = P at *
    omega
  · have h64 : u.log2 + 1 = 64 := by omega
    rw [h64]
    omega

theorem minimalBinary_length (e : Endian) (x : ℕ) {u : ℕ} (hu1 : 1 ≤ u) (hu : u < 2 ^ 64) :
    (Spec.minimalBinary e x u).length = lenMinimalBinary x u := by
  unfold Spec.minimalBinary lenMinimalBinary
  rw [if_neg (show ¬ u = 0 by omega), mbLimit_eq hu1 hu]
  simp only
  generalize 2 ^ (u.log2 + 1) - u = T
  by_cases hx : x < T
  · rw [if_pos hx, if_neg (show ¬ x ≥ T by omega)]
    simp [Kraft.fieldBits_length]
  · rw [if_neg hx, if_pos (show x ≥ T by omega)]
    simp [Kraft.fieldBits_length]

/-- Minimal binary with bound `u` is prefix-free on its domain `x < u`. -/
theorem minimalBinary_PFOn (e : Endian) {u : ℕ} (hu1 : 1 ≤ u) :
    PFOn (fun x => x < u) (fun x => Spec.minimalBinary e x u) := by
  intro x y s t hx hy h
  have h1 : 2 ^ u.log2 ≤ u := Nat.log2_self_le (by omega)
  have h2 : u < 2 ^ (u.log2 + 1) := Nat.lt_log2_self
  simp only [Spec.minimalBinary] at h
  rw [pow_succ] at h2 h
  generalize u.log2 = l at *
  generalize hP : 2 ^ l = P at *
  by_cases cx : x < P * 2 - u <;> by_cases cy : y < P * 2 - u
  · rw [if_pos cx, if_pos cy] at h
    have h' := (Kraft.fieldBits_append_inj e _ _ _ _ _ h).1
    rw [hP, Nat.mod_eq_of_lt (by omega), Nat.mod_eq_of_lt (by omega)] at h'
    exact h'
  · exfalso
    rw [if_pos cx, if_neg cy, List.append_assoc] at h
    have h' := (Kraft.fieldBits_append_inj e _ _ _ _ _ h).1
    rw [hP, Nat.mod_eq_of_lt (by omega), Nat.mod_eq_of_lt (by omega)] at h'
    omega
  · exfalso
    rw [if_neg cx, if_pos cy, List.append_assoc] at h
    have h' := (Kraft.fieldBits_append_inj e _ _ _ _ _ h).1
    rw [hP, Nat.mod_eq_of_lt (by omega), Nat.mod_eq_of_lt (by omega)] at h'
    omega
  · rw [if_neg cx, if_neg cy, List.append_assoc, List.append_assoc] at h
    obtain ⟨h', hb⟩ := Kraft.fieldBits_append_inj e _ _ _ _ _ h
    rw [hP, Nat.mod_eq_of_lt (by omega), Nat.mod_eq_of_lt (by omega)] at h'
    have hb' : ((x + P * 2 - u) % 2 == 1) = ((y + P * 2 - u) % 2 == 1) := by
      simpa using (List.cons.inj hb).1
    have hb2 : (x + P * 2 - u) % 2 = (y + P * 2 - u) % 2 := by
      rcases Nat.mod_two_eq_zero_or_one (x + P * 2 - u) with a | a <;>
        rcases Nat.mod_two_eq_zero_or_one (y + P * 2 - u) with b | b <;>
        simp [a, b] at hb' ⊢
    omega

theorem minimalBinary_prefix_free (e : Endian) {u : ℕ} (hu1 : 1 ≤ u) (x y : ℕ)
    (hx : x < u) (hy : y < u) :
    Spec.minimalBinary e x u <+: Spec.minimalBinary e y u → x = y :=
  (minimalBinary_PFOn e hu1).prefix_free x y hx hy

theorem kraft_minimalBinary (u : ℕ) (hu1 : 1 ≤ u) (hu : u < 2 ^ 64) (N : ℕ) (hN : N ≤ u) :
    ∑ x ∈ Finset.range N, ((1:ℝ)/2) ^ lenMinimalBinary x u ≤ 1 :=
  kraft_of_PFOn (minimalBinary_PFOn .be hu1) _
    (fun x _ => minimalBinary_length .be x hu1 hu) N (fun n hn => by omega)

/-! ### Golomb -/

theorem golomb_length (e : Endian) (n : ℕ) {b : ℕ} (hb1 : 1 ≤ b) (hb : b < 2 ^ 64) :
    (Spec.golomb e b n).length = lenGolomb n b := by
  simp [Spec.golomb, unary_length, lenUnary, minimalBinary_length e _ hb1 hb, lenGolomb]

theorem golomb_PF (e : Endian) {b : ℕ} (hb1 : 1 ≤ b) : PF (Spec.golomb e b) := by
  apply PFOn.toPF
  refine (unary_PF.toPFOn (fun _ => True)).comp (fun n => n / b)
    (fun n => Spec.minimalBinary e (n % b) b) (fun _ _ => trivial) ?_
  intro m n s t _ _ hq h
  have hr : m % b = n % b :=
    minimalBinary_PFOn e hb1 (m % b) (n % b) s t (Nat.mod_lt _ (by omega))
      (Nat.mod_lt _ (by omega)) h
  rw [← Nat.div_add_mod m b, ← Nat.div_add_mod n b, hq, hr]

theorem golomb_prefix_free (e : Endian) {b : ℕ} (hb1 : 1 ≤ b) (m n : ℕ) :
    Spec.golomb e b m <+: Spec.golomb e b n → m = n :=
  (golomb_PF e hb1).prefix_free m n

theorem kraft_golomb (b : ℕ) (hb1 : 1 ≤ b) (hb : b < 2 ^ 64) (N : ℕ) :
    ∑ n ∈ Finset.range N, ((1:ℝ)/2) ^ lenGolomb n b ≤ 1 :=
  kraft_of_PF (golomb_PF .be hb1) _ (fun n => golomb_length .be n hb1 hb) N

/-! ### ζ_k -/

/-- exclusive upper end of block `h` as the implementation sees it (capped at `2^64`) -/
def zetaHi (h k : ℕ) : ℕ := if (h + 1) * k ≤ 64 then 2 ^ ((h + 1) * k) else 2 ^ 64

theorem zetaWrapped_eq (e : Endian) (k n : ℕ) :
    Spec.zetaWrapped e k n =
      Spec.unary ((n + 1).log2 / k) ++
        Spec.minimalBinary e (n + 1 - 2 ^ ((n + 1).log2 / k * k))
          (zetaHi ((n + 1).log2 / k) k - 2 ^ ((n + 1).log2 / k * k)) := rfl

theorem zeta_eq_zetaWrapped (e : Endian) (k n : ℕ) (h : ((n + 1).log2 / k + 1) * k ≤ 64) :
    Spec.zeta e k n = Spec.zetaWrapped e k n := by
  simp [Spec.zeta, Spec.zetaWrapped, h]

theorem zetaHi_eq (h k : ℕ) : zetaHi h k = 2 ^ (min (h * k + k) 64) := by
  unfold zetaHi
  rw [Nat.succ_mul]
  split
  · rw [Nat.min_eq_left (by assumption)]
  · rw [Nat.min_eq_right (by omega)]

/-- `n+1` lies in its block: `2^{hk} ≤ n+1 < hi`, and the block starts below `2^64`. -/
theorem zeta_block {k : ℕ} (hk1 : 1 ≤ k) {n : ℕ} (hn : n < 2 ^ 64 - 1) :
    (n + 1).log2 / k * k < 64 ∧ 2 ^ ((n + 1).log2 / k * k) ≤ n + 1 ∧
      n + 1 < zetaHi ((n + 1).log2 / k) k := by
  have hl : (n + 1).log2 < 64 := (Nat.log2_lt (by omega)).2 (by omega)
  have hd := Nat.div_mul_le_self (n + 1).log2 k
  have h1 : 2 ^ (n + 1).log2 ≤ n + 1 := Nat.log2_self_le (by omega)
  have h2 : n + 1 < 2 ^ ((n + 1).log2 + 1) := Nat.lt_log2_self
  have hlt : (n + 1).log2 < k * ((n + 1).log2 / k + 1) := Nat.lt_mul_div_succ _ (by omega)
  refine ⟨by omega, le_trans (Nat.pow_le_pow_right (by omega) hd) h1, ?_⟩
  unfold zetaHi
  split
  · refine lt_of_lt_of_le h2 (Nat.pow_le_pow_right (by omega) ?_)
    rw [Nat.mul_comm]; omega
  · omega

theorem zetaWrapped_length (e : Endian) {k : ℕ} (hk1 : 1 ≤ k) (n : ℕ) (hn : n < 2 ^ 64 - 1) :
    (Spec.zetaWrapped e k n).length = lenZetaDefault n k := by
  obtain ⟨hb, hlo, hhi⟩ := zeta_block hk1 hn
  have hU : zetaU ((n + 1).log2 / k) k =
      zetaHi ((n + 1).log2 / k) k - 2 ^ ((n + 1).log2 / k * k) := by
    rw [zetaU_eq hb, zetaHi_eq]
  have hle : zetaHi ((n + 1).log2 / k) k ≤ 2 ^ 64 := by
    rw [zetaHi_eq]; exact Nat.pow_le_pow_right (by omega) (Nat.min_le_right _ _)
  have hpos : 0 < 2 ^ ((n + 1).log2 / k * k) := Nat.pow_pos (by omega)
  rw [zetaWrapped_eq, List.length_append, unary_length, lenUnary,
    minimalBinary_length e _ (by omega) (by omega)]
  unfold lenZetaDefault
  simp only [hU]

/-- ζ_k is prefix-free on the arguments the writer accepts. -/
theorem zetaWrapped_PFOn (e : Endian) {k : ℕ} (hk1 : 1 ≤ k) :
    PFOn (fun n => n < 2 ^ 64 - 1) (Spec.zetaWrapped e k) := by
  have h := (unary_PF.toPFOn (fun _ => True)).comp (D' := fun n => n < 2 ^ 64 - 1)
    (fun n => (n + 1).log2 / k)
    (fun n => Spec.minimalBinary e (n + 1 - 2 ^ ((n + 1).log2 / k * k))
          (zetaHi ((n + 1).log2 / k) k - 2 ^ ((n + 1).log2 / k * k)))
    (fun _ _ => trivial) (by
      intro m n s t hm hn hf h
      obtain ⟨_, mlo, mhi⟩ := zeta_block hk1 hm
      obtain ⟨_, nlo, nhi⟩ := zeta_block hk1 hn
      rw [hf] at h mlo mhi
      generalize (n + 1).log2 / k = hh at *
      have := minimalBinary_PFOn e (u := zetaHi hh k - 2 ^ (hh * k)) (by omega) _ _ s t
        (by omega) (by omega) h
      omega)
  exact h

theorem zetaWrapped_prefix_free (e : Endian) {k : ℕ} (hk1 : 1 ≤ k) (m n : ℕ)
    (hm : m < 2 ^ 64 - 1) (hn : n < 2 ^ 64 - 1) :
    Spec.zetaWrapped e k m <+: Spec.zetaWrapped e k n → m = n :=
  (zetaWrapped_PFOn e hk1).prefix_free m n hm hn

theorem kraft_zeta (k : ℕ) (hk1 : 1 ≤ k) (N : ℕ) (hN : N ≤ 2 ^ 64 - 1) :
    ∑ n ∈ Finset.range N, ((1:ℝ)/2) ^ lenZetaDefault n k ≤ 1 :=
  kraft_of_PFOn (zetaWrapped_PFOn .be hk1) _
    (fun n hn => zetaWrapped_length .be hk1 n hn) N (fun n hn => by omega)

/-! ### VByte -/

namespace Kraft

theorem vbyteOffset_succ (j : ℕ) :
    Spec.vbyteOffset (j + 1) = 128 * (Spec.vbyteOffset j + 1) := by
  induction j with
  | zero => simp [Spec.vbyteOffset]
  | succ j ih =>
    have hp : 2 ^ (7 * (j + 1 + 1)) = 128 * 2 ^ (7 * (j + 1)) := by
      rw [show 7 * (j + 1 + 1) = 7 + 7 * (j + 1) by ring, pow_add]; norm_num
    have h1 : Spec.vbyteOffset (j + 1 + 1) = Spec.vbyteOffset (j + 1) + 2 ^ (7 * (j + 1 + 1)) := rfl
    have h2 : Spec.vbyteOffset (j + 1) = Spec.vbyteOffset j + 2 ^ (7 * (j + 1)) := rfl
    rw [h1, hp]
    conv_rhs => rw [h2]
    rw [ih]
    ring

theorem vbyteOffset_mono {j k : ℕ} (h : j ≤ k) : Spec.vbyteOffset j ≤ Spec.vbyteOffset k := by
  induction k with
  | zero => rw [Nat.le_zero.mp h]
  | succ k ih =>
    rcases Nat.eq_or_lt_of_le h with rfl | hlt
    · exact Nat.le_refl _
    · exact le_trans (ih (by omega)) (by simp [Spec.vbyteOffset])

/-- every value below `offset K` lies in exactly one block `[offset k, offset (k+1))`, `k < K` -/
theorem exists_block (v : ℕ) : ∀ K, v < Spec.vbyteOffset K →
    ∃ k, k < K ∧ Spec.vbyteOffset k ≤ v ∧ v < Spec.vbyteOffset (k + 1) := by
  intro K
  induction K with
  | zero => intro h; simp [Spec.vbyteOffset] at h
  | succ K ih =>
    intro h
    by_cases hK : v < Spec.vbyteOffset K
    · obtain ⟨k, hk, h1, h2⟩ := ih hK
      exact ⟨k, by omega, h1, h2⟩
    · exact ⟨K, by omega, by omega, h⟩

theorem vbyteLen_of_block {v k : ℕ} (hk : k ≤ 10) (h1 : Spec.vbyteOffset k ≤ v)
    (h2 : v < Spec.vbyteOffset (k + 1)) : Spec.vbyteLen v = k + 1 := by
  unfold Spec.vbyteLen
  have hf : (List.range 11).find? (fun k => decide (v < Spec.vbyteOffset (k + 1))) = some k := by
    rw [List.find?_range_eq_some]
    refine ⟨by simpa using h2, by simp; omega, ?_⟩
    intro j hj
    have := vbyteOffset_mono (show j + 1 ≤ k by omega)
    simp; omega
  rw [hf]; rfl

theorem vbyteByteLenLoop_of_block : ∀ (f k v len : ℕ), k ≤ f → Spec.vbyteOffset k ≤ v →
    v < Spec.vbyteOffset (k + 1) → vbyteByteLenLoop f v len = len + k := by
  intro f
  induction f with
  | zero =>
    intro k v len hk _ _
    have : k = 0 := by omega
    simp [vbyteByteLenLoop, this]
  | succ f ih =>
    intro k v len hk h1 h2
    rw [vbyteOffset_succ] at h2
    simp only [vbyteByteLenLoop]
    cases k with
    | zero =>
      have : Spec.vbyteOffset 0 = 0 := rfl
      rw [if_pos (by omega)]; rfl
    | succ k =>
      rw [vbyteOffset_succ] at h1
      rw [if_neg (by omega), ih k (v / 128 - 1) (len + 1) (by omega) (by omega)
        (by omega)]
      omega

theorem two_pow_64_lt_offset : 2 ^ 64 < Spec.vbyteOffset 10 := by
  simp [Spec.vbyteOffset]

/-- the block of a 64-bit value -/
theorem block_of_lt {v : ℕ} (hv : v < 2 ^ 64) :
    ∃ k, k < 10 ∧ Spec.vbyteOffset k ≤ v ∧ v < Spec.vbyteOffset (k + 1) :=
  exists_block v 10 (lt_trans hv two_pow_64_lt_offset)

end Kraft

theorem vbyteLen_eq (v : ℕ) (hv : v < 2 ^ 64) : Spec.vbyteLen v = byteLenVByte v := by
  obtain ⟨k, hk, h1, h2⟩ := Kraft.block_of_lt hv
  rw [Kraft.vbyteLen_of_block (by omega) h1 h2, byteLenVByte,
    Kraft.vbyteByteLenLoop_of_block 10 k v 1 (by omega) h1 h2]
  omega

theorem vbyteBytes_length (big : Bool) (v : ℕ) :
    (Spec.vbyteBytes big v).length = Spec.vbyteLen v := by
  simp [Spec.vbyteBytes]

theorem vbyte_length' (e : Endian) (big : Bool) (v : ℕ) :
    (Spec.vbyte e big v).length = 8 * Spec.vbyteLen v := by
  have : ∀ B : List ℕ, (B.flatMap fun b => fieldBits e b 8).length = 8 * B.length := by
    intro B
    induction B with
    | nil => rfl
    | cons b B ih => simp [List.flatMap_cons, Kraft.fieldBits_length, ih]; omega
  rw [Spec.vbyte, this, vbyteBytes_length]

theorem vbyte_length (e : Endian) (big : Bool) (v : ℕ) (hv : v < 2 ^ 64) :
    (Spec.vbyte e big v).length = bitLenVByte v := by
  rw [vbyte_length', vbyteLen_eq v hv, bitLenVByte]

namespace Kraft

def vbGroups (k r : ℕ) : List ℕ := (List.range k).map fun i => (r / 128 ^ i) % 128

def vbOrd (big : Bool) (k r : ℕ) : List ℕ :=
  if big then (vbGroups k r).reverse else vbGroups k r

/-- payload (low seven bits) of byte `i` of the code of `v` -/
def vbA (big : Bool) (v i : ℕ) : ℕ :=
  (vbOrd big (Spec.vbyteLen v) (v - Spec.vbyteOffset (Spec.vbyteLen v - 1))).getD i 0

theorem vbyteBytes_eq (big : Bool) (v : ℕ) :
    Spec.vbyteBytes big v = (List.range (Spec.vbyteLen v)).map fun i =>
      vbA big v i + (if i + 1 < Spec.vbyteLen v then 128 else 0) := rfl

theorem vbOrd_length (big : Bool) (k r : ℕ) : (vbOrd big k r).length = k := by
  unfold vbOrd vbGroups
  split <;> simp

theorem vbOrd_lt (big : Bool) (k r x : ℕ) (hx : x ∈ vbOrd big k r) : x < 128 := by
  unfold vbOrd vbGroups at hx
  split at hx
  · simp only [List.mem_reverse, List.mem_map] at hx
    obtain ⟨i, _, rfl⟩ := hx
    exact Nat.mod_lt _ (by omega)
  · simp only [List.mem_map] at hx
    obtain ⟨i, _, rfl⟩ := hx
    exact Nat.mod_lt _ (by omega)

theorem vbA_lt (big : Bool) (v i : ℕ) : vbA big v i < 128 := by
  unfold vbA
  rw [List.getD_eq_getElem?_getD]
  cases hx : (vbOrd big (Spec.vbyteLen v) (v - Spec.vbyteOffset (Spec.vbyteLen v - 1)))[i]? with
  | none => simp
  | some x => simpa using vbOrd_lt _ _ _ x (List.mem_of_getElem? hx)

theorem vbyteBytes_getElem (big : Bool) (v i : ℕ) (h : i < (Spec.vbyteBytes big v).length) :
    (Spec.vbyteBytes big v)[i] =
      vbA big v i + (if i + 1 < Spec.vbyteLen v then 128 else 0) := by
  simp only [vbyteBytes_eq, List.getElem_map, List.getElem_range]

theorem one_le_vbyteLen (v : ℕ) : 1 ≤ Spec.vbyteLen v := by
  unfold Spec.vbyteLen; omega

/-- equal bit strings made of whole bytes have equal bytes (modulo 256) -/
theorem flatMap_field_inj (e : Endian) : ∀ (B1 B2 : List ℕ) (s t : List Bool),
    B1.flatMap (fun b => fieldBits e b 8) ++ s = B2.flatMap (fun b => fieldBits e b 8) ++ t →
    ∀ i (h1 : i < B1.length) (h2 : i < B2.length), B1[i] % 2 ^ 8 = B2[i] % 2 ^ 8 := by
  intro B1
  induction B1 with
  | nil => intro B2 s t _ i h1; simp at h1
  | cons b B1 ih =>
    intro B2 s t h i h1 h2
    cases B2 with
    | nil => simp at h2
    | cons c B2 =>
      simp only [List.flatMap_cons, List.append_assoc] at h
      obtain ⟨hb, hrest⟩ := fieldBits_append_inj e _ _ _ _ _ h
      cases i with
      | zero => simpa using hb
      | succ i => simpa using ih B2 s t hrest i (by simpa using h1) (by simpa using h2)

/-- the last byte of the shorter word has its top bit clear, the byte at that place in the
    longer word has it set -/
theorem vbyteLen_not_lt (e : Endian) (big : Bool) (m n : ℕ) (s t : List Bool)
    (h : Spec.vbyte e big m ++ s = Spec.vbyte e big n ++ t) :
    ¬ Spec.vbyteLen m < Spec.vbyteLen n := by
  intro hlt
  have hm1 := one_le_vbyteLen m
  have hi1 : Spec.vbyteLen m - 1 < (Spec.vbyteBytes big m).length := by
    rw [vbyteBytes_length]; omega
  have hi2 : Spec.vbyteLen m - 1 < (Spec.vbyteBytes big n).length := by
    rw [vbyteBytes_length]; omega
  have := flatMap_field_inj e _ _ s t h _ hi1 hi2
  rw [vbyteBytes_getElem, vbyteBytes_getElem, if_neg (by omega), if_pos (by omega)] at this
  have a1 := vbA_lt big m (Spec.vbyteLen m - 1)
  have a2 := vbA_lt big n (Spec.vbyteLen m - 1)
  norm_num at this
  omega

theorem digits_inj (a b : ℕ) : ∀ k, (∀ i, i < k → a / 128 ^ i % 128 = b / 128 ^ i % 128) →
    a % 128 ^ k = b % 128 ^ k := by
  intro k
  induction k with
  | zero => intro _; simp [Nat.mod_one]
  | succ k ih =>
    intro h
    rw [Nat.mod_pow_succ, Nat.mod_pow_succ, ih (fun i hi => h i (by omega)), h k (by omega)]

end Kraft

/-- VByte (either byte order, either bit order) is prefix-free on the 64-bit values. -/
theorem vbyte_PFOn (e : Endian) (big : Bool) : PFOn (fun v => v < 2 ^ 64) (Spec.vbyte e big) := by
  intro m n s t hm hn h
  have hlen : Spec.vbyteLen m = Spec.vbyteLen n := by
    have := Kraft.vbyteLen_not_lt e big m n s t h
    have := Kraft.vbyteLen_not_lt e big n m t s h.symm
    omega
  obtain ⟨k, hk10, m1, m2⟩ := Kraft.block_of_lt hm
  obtain ⟨k', hk10', n1, n2⟩ := Kraft.block_of_lt hn
  have hkm := Kraft.vbyteLen_of_block (by omega) m1 m2
  have hkn := Kraft.vbyteLen_of_block (by omega) n1 n2
  have hkk : k' = k := by omega
  subst hkk
  have ha : ∀ i, i < k' + 1 → Kraft.vbA big m i = Kraft.vbA big n i := by
    intro i hi
    have := Kraft.flatMap_field_inj e _ _ s t h i
      (by rw [vbyteBytes_length]; omega) (by rw [vbyteBytes_length]; omega)
    rw [Kraft.vbyteBytes_getElem, Kraft.vbyteBytes_getElem, hkm, hkn] at this
    have a1 := Kraft.vbA_lt big m i
    have a2 := Kraft.vbA_lt big n i
    norm_num at this
    split at this <;> omega
  unfold Kraft.vbA at ha
  rw [hkm, hkn] at ha
  simp only [Nat.add_sub_cancel] at ha
  have hord : Kraft.vbOrd big (k' + 1) (m - Spec.vbyteOffset k') =
      Kraft.vbOrd big (k' + 1) (n - Spec.vbyteOffset k') := by
    refine List.ext_getElem (by simp [Kraft.vbOrd_length]) (fun i h1 h2 => ?_)
    have := ha i (by simpa [Kraft.vbOrd_length] using h1)
    rwa [List.getD_eq_getElem?_getD, List.getD_eq_getElem?_getD, List.getElem?_eq_getElem h1,
      List.getElem?_eq_getElem h2, Option.getD_some, Option.getD_some] at this
  have hg : Kraft.vbGroups (k' + 1) (m - Spec.vbyteOffset k') =
      Kraft.vbGroups (k' + 1) (n - Spec.vbyteOffset k') := by
    unfold Kraft.vbOrd at hord
    cases big <;> simpa using hord
  have hd : ∀ i, i < k' + 1 → (m - Spec.vbyteOffset k') / 128 ^ i % 128 =
      (n - Spec.vbyteOffset k') / 128 ^ i % 128 := by
    unfold Kraft.vbGroups at hg
    rw [List.map_inj_left] at hg
    intro i hi
    exact hg i (by simpa using hi)
  have hmod := Kraft.digits_inj _ _ (k' + 1) hd
  have hoff : Spec.vbyteOffset (k' + 1) = Spec.vbyteOffset k' + 128 ^ (k' + 1) := by
    rw [show (128 : ℕ) = 2 ^ 7 by norm_num, ← pow_mul]; rfl
  rw [hoff] at m2 n2
  rw [Nat.mod_eq_of_lt (by omega), Nat.mod_eq_of_lt (by omega)] at hmod
  omega

theorem vbyte_prefix_free (e : Endian) (big : Bool) (m n : ℕ) (hm : m < 2 ^ 64)
    (hn : n < 2 ^ 64) : Spec.vbyte e big m <+: Spec.vbyte e big n → m = n :=
  (vbyte_PFOn e big).prefix_free m n hm hn

theorem kraft_vbyte (N : ℕ) (hN : N ≤ 2 ^ 64) :
    ∑ v ∈ Finset.range N, ((1:ℝ)/2) ^ bitLenVByte v ≤ 1 :=
  kraft_of_PFOn (vbyte_PFOn .be true) _
    (fun v hv => vbyte_length .be true v hv) N (fun n hn => by omega)

/-! ### ω -/

namespace Kraft

theorem fieldLE_succ_snoc (v n : ℕ) :
    fieldLE v (n + 1) = fieldLE v n ++ [(v / 2 ^ n) % 2 == 1] := by
  induction n generalizing v with
  | zero => simp [fieldLE]
  | succ n ih =>
    show (v % 2 == 1) :: fieldLE (v / 2) (n + 1) = ((v % 2 == 1) :: fieldLE (v / 2) n) ++ [_]
    rw [ih (v / 2)]
    simp [Nat.div_div_eq_div_mul, pow_succ']

/-- in both bit orders an ω block is a one followed by the number without its top bit -/
theorem omegaBlock_eq (e : Endian) {m : ℕ} (hm : 1 ≤ m) :
    Spec.omegaBlock e m = true :: fieldBits e m m.log2 := by
  cases e
  · have h1 : 2 ^ m.log2 ≤ m := Nat.log2_self_le (by omega)
    have h2 : m < 2 ^ (m.log2 + 1) := Nat.lt_log2_self
    have hd : m / 2 ^ m.log2 = 1 :=
      Nat.div_eq_of_lt_le (by simpa using h1) (by rw [pow_succ] at h2; omega)
    simp [Spec.omegaBlock, fieldBits, fieldLE_succ_snoc, hd]
  · rfl

theorem omegaBlock_length (e : Endian) {m : ℕ} (hm : 1 ≤ m) :
    (Spec.omegaBlock e m).length = m.log2 + 1 := by
  simp [omegaBlock_eq e hm, fieldBits_length]

theorem omegaBlocks_length (e : Endian) : ∀ f m,
    (Spec.omegaBlocks e f m).length + 1 = omegaLenRec f m := by
  intro f
  induction f with
  | zero => intro m; simp [Spec.omegaBlocks, omegaLenRec]
  | succ f ih =>
    intro m
    simp only [Spec.omegaBlocks, omegaLenRec]
    split
    · simp
    · rw [List.length_append, omegaBlock_length e (by omega), ← ih m.log2]
      omega

theorem eq_of_log2_eq_of_mod_eq {a b N : ℕ} (ha0 : 1 ≤ a) (hb0 : 1 ≤ b) (ha : a.log2 = N)
    (hb : b.log2 = N) (h : a % 2 ^ N = b % 2 ^ N) : a = b := by
  have a1 : 2 ^ a.log2 ≤ a := Nat.log2_self_le (by omega)
  have a2 : a < 2 ^ (a.log2 + 1) := Nat.lt_log2_self
  have b1 : 2 ^ b.log2 ≤ b := Nat.log2_self_le (by omega)
  have b2 : b < 2 ^ (b.log2 + 1) := Nat.lt_log2_self
  rw [ha] at a1 a2
  rw [hb] at b1 b2
  rw [pow_succ] at a2 b2
  have e1 : a % 2 ^ N = a - 2 ^ N := by
    rw [Nat.mod_eq_sub_mod a1, Nat.mod_eq_of_lt (by omega)]
  have e2 : b % 2 ^ N = b - 2 ^ N := by
    rw [Nat.mod_eq_sub_mod b1, Nat.mod_eq_of_lt (by omega)]
  omega

/-- `cs` is a sequence of ω block values starting from block length `N+1`: each value has
    `⌊log₂⌋` equal to its predecessor. -/
def Chain : ℕ → List ℕ → Prop
  | _, [] => True
  | N, c :: cs => c.log2 = N ∧ 2 ≤ c ∧ Chain c cs

/-- last value of the chain (`N` for the empty chain) -/
def lastOr : ℕ → List ℕ → ℕ
  | N, [] => N
  | _, c :: cs => lastOr c cs

def enc (e : Endian) (cs : List ℕ) : List Bool := cs.flatMap (Spec.omegaBlock e)

/-- the blocks followed by the terminator determine the chain (parsing from the left) -/
theorem chain_inj (e : Endian) : ∀ (cs cs' : List ℕ) (N : ℕ) (s t : List Bool),
    Chain N cs → Chain N cs' → enc e cs ++ false :: s = enc e cs' ++ false :: t → cs = cs' := by
  intro cs
  induction cs with
  | nil =>
    intro cs' N s t _ h2 h
    cases cs' with
    | nil => rfl
    | cons c' cs' =>
      exfalso
      obtain ⟨_, hc, _⟩ := h2
      simp [enc, List.flatMap_cons, omegaBlock_eq e (show 1 ≤ c' by omega)] at h
  | cons c cs ih =>
    intro cs' N s t h1 h2 h
    obtain ⟨hl, hc, hch⟩ := h1
    cases cs' with
    | nil =>
      exfalso
      simp [enc, List.flatMap_cons, omegaBlock_eq e (show 1 ≤ c by omega)] at h
    | cons c' cs' =>
      obtain ⟨hl', hc', hch'⟩ := h2
      simp only [enc, List.flatMap_cons, List.append_assoc] at h
      rw [omegaBlock_eq e (show 1 ≤ c by omega), omegaBlock_eq e (show 1 ≤ c' by omega),
        hl, hl'] at h
      simp only [List.cons_append, List.cons.injEq, true_and] at h
      obtain ⟨hmod, hrest⟩ := fieldBits_append_inj e _ _ _ _ _ h
      have hcc : c = c' := eq_of_log2_eq_of_mod_eq (by omega) (by omega) hl hl' hmod
      subst hcc
      rw [ih cs' c s t hch hch' hrest]

theorem chain_snoc : ∀ (cs : List ℕ) (N m : ℕ), Chain N cs → m.log2 = lastOr N cs → 2 ≤ m →
    Chain N (cs ++ [m]) ∧ lastOr N (cs ++ [m]) = m := by
  intro cs
  induction cs with
  | nil =>
    intro N m _ hl hm
    exact ⟨⟨hl, hm, trivial⟩, rfl⟩
  | cons c cs ih =>
    intro N m h hl hm
    obtain ⟨h1, h2, h3⟩ := h
    obtain ⟨i1, i2⟩ := ih c m h3 hl hm
    exact ⟨⟨h1, h2, i1⟩, i2⟩

/-- the fuel is enough for the recursion on `m` to reach `m ≤ 1` -/
def Adq : ℕ → ℕ → Prop
  | 0, m => m ≤ 1
  | f + 1, m => m ≤ 1 ∨ Adq f m.log2

theorem blocks_chain (e : Endian) : ∀ f m, 1 ≤ m → Adq f m →
    ∃ cs, Chain 1 cs ∧ lastOr 1 cs = m ∧ Spec.omegaBlocks e f m = enc e cs := by
  intro f
  induction f with
  | zero =>
    intro m hm ha
    have : m = 1 := by simp only [Adq] at ha; omega
    subst this
    exact ⟨[], trivial, rfl, rfl⟩
  | succ f ih =>
    intro m hm ha
    by_cases h1 : m ≤ 1
    · have : m = 1 := by omega
      subst this
      exact ⟨[], trivial, rfl, by simp [Spec.omegaBlocks, enc]⟩
    · have ha' : Adq f m.log2 := by
        simp only [Adq] at ha
        rcases ha with h | h
        · omega
        · exact h
      have hl1 : 1 ≤ m.log2 := (Nat.le_log2 (by omega)).2 (by omega)
      obtain ⟨cs, c1, c2, c3⟩ := ih m.log2 hl1 ha'
      obtain ⟨d1, d2⟩ := chain_snoc cs 1 m c1 c2.symm (by omega)
      refine ⟨cs ++ [m], d1, d2, ?_⟩
      simp [Spec.omegaBlocks, h1, c3, enc, List.flatMap_append]

theorem log2_lt' {n k : ℕ} (hk : 0 < k) (h : n < 2 ^ k) : n.log2 < k := by
  by_cases hn : n = 0
  · subst hn; simpa using hk
  · exact (Nat.log2_lt hn).2 h

theorem adq_of_lt {m : ℕ} (hm : m < 2 ^ 64) : Adq 8 m := by
  have h1 : m.log2 < 64 := log2_lt' (by omega) hm
  have h2 : m.log2.log2 < 6 := log2_lt' (by omega) (by omega)
  have h3 : m.log2.log2.log2 < 3 := log2_lt' (by omega) (by omega)
  have h4 : m.log2.log2.log2.log2 < 2 := log2_lt' (by omega) (by omega)
  simp only [Adq]
  omega

end Kraft

theorem omega_length (e : Endian) (n : ℕ) : (Spec.omega e n).length = lenOmega n := by
  simp [Spec.omega, lenOmega, ← Kraft.omegaBlocks_length e]

/-- ω is prefix-free on the arguments the writer accepts. -/
theorem omega_PFOn (e : Endian) : PFOn (fun n => n < 2 ^ 64 - 1) (Spec.omega e) := by
  intro m n s t hm hn h
  obtain ⟨cs, c1, c2, c3⟩ := Kraft.blocks_chain e 8 (m + 1) (by omega) (Kraft.adq_of_lt (by omega))
  obtain ⟨cs', d1, d2, d3⟩ := Kraft.blocks_chain e 8 (n + 1) (by omega) (Kraft.adq_of_lt (by omega))
  simp only [Spec.omega, List.append_assoc, List.singleton_append] at h
  rw [c3, d3] at h
  have := Kraft.chain_inj e cs cs' 1 s t c1 d1 h
  subst this
  omega

theorem omega_prefix_free (e : Endian) (m n : ℕ) (hm : m < 2 ^ 64 - 1) (hn : n < 2 ^ 64 - 1) :
    Spec.omega e m <+: Spec.omega e n → m = n :=
  (omega_PFOn e).prefix_free m n hm hn

theorem kraft_omega (N : ℕ) (hN : N ≤ 2 ^ 64 - 1) :
    ∑ n ∈ Finset.range N, ((1:ℝ)/2) ^ lenOmega n ≤ 1 :=
  kraft_of_PFOn (omega_PFOn .be) _ (fun n _ => omega_length .be n) N (fun n hn => by omega)

end Dsi
