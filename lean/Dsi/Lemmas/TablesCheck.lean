/-
  C05 — executable checkers for the precomputed coding tables.  Core Lean only: everything here
  is meant to be evaluated by the kernel (`decide +kernel`) over the *generated* table literals.

  The checkers walk `List Nat` chunks linearly with a running index (no array indexing: `Array`
  access on big literals is quadratic in the kernel).
-/
import Dsi.Codes
import Dsi.Ref
namespace Dsi

/-! ### decoding tables -/

/-- the strict reference reader over exactly the `rb` bits of the table index `idx` -/
def Tables.idxReader (e : Endian) (idx rb : Nat) : RefR :=
  { e := e, stream := fieldBits e idx rb, pos := 0, strict := true, peekMax := 64 }

/-- One entry of a decoding table: run the bit-by-bit reader `dflt` on the `rb` index bits alone
    (strict stream).  A miss (`len = missing`) is always safe because the table reader falls
    back; a hit must return the value and the length the bit-by-bit reader finds within those
    `rb` bits.  If the bit-by-bit reader runs out of bits the entry must be a miss. -/
def chkReadEntry (e : Endian) (dflt : RProg Nat) (rb missing idx val len : Nat) : Bool :=
  match dflt.run RefR.impl (Tables.idxReader e idx rb) with
  | .ok (v, r) => len == missing || (val == v && len == r.pos)
  | .err _ => len == missing
  | .panic => false
  | .dpanic => false

/-- a chunk of a decoding table (values, lengths) whose first entry has index `start` -/
def chkReadChunk (e : Endian) (dflt : RProg Nat) (rb missing : Nat) :
    Nat → List Nat → List Nat → Bool
  | _, [], [] => true
  | i, v :: vs, l :: ls =>
    chkReadEntry e dflt rb missing i v l && chkReadChunk e dflt rb missing (i + 1) vs ls
  | _, _, _ => false

/-- all chunks from index `start` on; at the end the number of entries must be `2^rb` -/
def chkReadChunks (e : Endian) (dflt : RProg Nat) (rb missing : Nat) :
    Nat → List (List Nat) → List (List Nat) → Bool
  | i, [], [] => i == 2 ^ rb
  | i, vc :: vcs, lc :: lcs =>
    chkReadChunk e dflt rb missing i vc lc &&
      chkReadChunks e dflt rb missing (i + vc.length) vcs lcs
  | _, _, _ => false

/-- A whole decoding table, given as chunks: the index width is at least one, both arrays have
    exactly `2^rb` entries and every entry passes `chkReadEntry`. -/
def chkReadTable (e : Endian) (dflt : RProg Nat) (rb missing : Nat)
    (vals lens : List (List Nat)) : Bool :=
  decide (1 ≤ rb) && chkReadChunks e dflt rb missing 0 vals lens

/-! #### splitting a decoding-table check into independently evaluated pieces

  A check of `2^rb` entries is one kernel evaluation; to let `lake` evaluate a big table in
  parallel it is cut into a few *heads* (the next `n` chunks, no size check) and a *rest*.
  The cut is by position in the chunk list, so the statements mention no table content and remain
  meaningful (if unbalanced) when the generated tables change size.
  `chkReadRest_split` (`Dsi.Lemmas.TablesSound`) recombines the pieces. -/

/-- like `chkReadChunks`, without the final size check -/
def chkReadChunksNoEnd (e : Endian) (dflt : RProg Nat) (rb missing : Nat) :
    Nat → List (List Nat) → List (List Nat) → Bool
  | _, [], [] => true
  | i, vc :: vcs, lc :: lcs =>
    chkReadChunk e dflt rb missing i vc lc &&
      chkReadChunksNoEnd e dflt rb missing (i + vc.length) vcs lcs
  | _, _, _ => false

/-- position in a table walk: next index, remaining value chunks, remaining length chunks -/
abbrev Tables.RPos := Nat × List (List Nat) × List (List Nat)

/-- skip the next `n` chunks -/
def Tables.RPos.adv (n : Nat) (st : Tables.RPos) : Tables.RPos :=
  (st.1 + (st.2.1.take n).flatten.length, st.2.1.drop n, st.2.2.drop n)

/-- check the next `n` chunks -/
def chkReadHead (e : Endian) (dflt : RProg Nat) (rb missing n : Nat) (st : Tables.RPos) : Bool :=
  chkReadChunksNoEnd e dflt rb missing st.1 (st.2.1.take n) (st.2.2.take n)

/-- check all remaining chunks and the final size -/
def chkReadRest (e : Endian) (dflt : RProg Nat) (rb missing : Nat) (st : Tables.RPos) : Bool :=
  chkReadChunks e dflt rb missing st.1 st.2.1 st.2.2

/-! ### encoding tables -/

/-- the empty growable reference writer -/
def Tables.emptyW (e : Endian) (checks : Bool) : RefW :=
  { e := e, W := 64, checks := checks, cap := none, bits := [] }

/-- One entry of an encoding table: the bit-by-bit writer `dflt v`, run on an empty growable
    writer, appends exactly the `len` low bits of `bits` and returns `len`; moreover
    `1 ≤ len ≤ 64` and `bits` has no bit set beyond `len` (so `write_bits` accepts it under
    `checks`). -/
def chkWriteEntry (e : Endian) (dflt : Nat → WProg Nat) (v bits len : Nat) : Bool :=
  match (dflt v).run RefW.impl (Tables.emptyW e false) with
  | .ok (r, w) => r == len && w.bits == fieldBits e bits len && decide (1 ≤ len)
      && decide (len ≤ 64) && decide (bits < 2 ^ len)
  | _ => false

def chkWriteChunk (e : Endian) (dflt : Nat → WProg Nat) : Nat → List Nat → List Nat → Bool
  | _, [], [] => true
  | i, b :: bs, l :: ls => chkWriteEntry e dflt i b l && chkWriteChunk e dflt (i + 1) bs ls
  | _, _, _ => false

/-- all chunks from value `start` on; at the end the number of entries must be `wmax + 1` -/
def chkWriteChunks (e : Endian) (dflt : Nat → WProg Nat) (wmax : Nat) :
    Nat → List (List Nat) → List (List Nat) → Bool
  | i, [], [] => i == wmax + 1
  | i, bc :: bcs, lc :: lcs =>
    chkWriteChunk e dflt i bc lc && chkWriteChunks e dflt wmax (i + bc.length) bcs lcs
  | _, _, _ => false

/-- A whole encoding table: `wmax + 1` entries in both arrays (all values below `2^64 - 1`), each
    passing `chkWriteEntry`. -/
def chkWriteTable (e : Endian) (dflt : Nat → WProg Nat) (wmax : Nat)
    (vals lens : List (List Nat)) : Bool :=
  decide (wmax + 1 < 2 ^ 64) && chkWriteChunks e dflt wmax 0 vals lens

/-! ### length tables -/

def chkLenEntry (dflt : Nat → Nat) (v len : Nat) : Bool := len == dflt v

def chkLenChunk (dflt : Nat → Nat) : Nat → List Nat → Bool
  | _, [] => true
  | i, l :: ls => chkLenEntry dflt i l && chkLenChunk dflt (i + 1) ls

def chkLenChunks (dflt : Nat → Nat) (wmax : Nat) : Nat → List (List Nat) → Bool
  | i, [] => i == wmax + 1
  | i, c :: cs => chkLenChunk dflt i c && chkLenChunks dflt wmax (i + c.length) cs

/-- A whole length table: `wmax + 1` entries, entry `v` equal to `dflt v`. -/
def chkLenTable (dflt : Nat → Nat) (wmax : Nat) (lens : List (List Nat)) : Bool :=
  chkLenChunks dflt wmax 0 lens

end Dsi
