/-
  Headline2, readers (C07, C09, and reused by C08 / C12 / C14): the generated `BufBitReader` /
  `BitReader` (`genRImpl`, `genBitRImpl` of Lemmas/HeadlineRunR.lean, `GenBufR.genBitPos`,
  `GenBufR.genSetBitPos`) against the reference reader `RefR` (a cursor in a list of bits), from a
  freshly constructed reader.

  `GInv e s r` is the invariant that links a state `s` of the generated reader to the reference
  reader `r` (`BufR.Rel`) plus the struct invariant the generated bodies rely on (`RInv`).  It holds
  for a fresh reader (`ginv_new`), every generated program keeps it (`gen_run_sim`), so does the
  generated `set_bit_pos` (`gen_setBitPos_ginv`), and under it the generated `bit_pos` answers the
  reference position (`gen_bitPos_ginv`).  It does not occur in the headline statements.
-/
import Dsi.Lemmas.HeadlineRunR
import Dsi.Props.Reader
import Dsi.Props.BitReader
namespace Dsi
namespace Headline2
open Headline
variable {W : Nat}

/-! ## the reference side -/

/-- the reference reader over the bits of the words `data`, standing at bit `pos` -/
def refAt (e : Endian) (data : List (BitVec W)) (strict : Bool) (pm : Nat) (pos : Nat) : RefR :=
  { e := e, stream := data.flatMap (wordBits e), pos := pos, strict := strict, peekMax := pm }

/-- same stream, endianness, strictness, look-ahead capacity -/
def SameStream (r r' : RefR) : Prop :=
  r'.e = r.e ∧ r'.stream = r.stream ∧ r'.strict = r.strict ∧ r'.peekMax = r.peekMax

theorem SameStream.refl (r : RefR) : SameStream r r := ⟨rfl, rfl, rfl, rfl⟩
theorem SameStream.trans {a b c : RefR} (h1 : SameStream a b) (h2 : SameStream b c) : SameStream a c :=
  ⟨h2.1.trans h1.1, h2.2.1.trans h1.2.1, h2.2.2.1.trans h1.2.2.1, h2.2.2.2.trans h1.2.2.2⟩

theorem SameStream.eq_pos {r r' : RefR} (h : SameStream r r') : r' = { r with pos := r'.pos } := by
  obtain ⟨e, st, p, s, pm⟩ := r
  obtain ⟨e', st', p', s', pm'⟩ := r'
  obtain ⟨h1, h2, h3, h4⟩ := h
  simp only at h1 h2 h3 h4
  subst h1 h2 h3 h4
  rfl

theorem ref_readBits_same {r r' : RefR} {n v : Nat} (h : RefR.readBits r n = .ok (v, r')) :
    SameStream r r' := by
  unfold RefR.readBits at h
  split at h
  · cases h
  · split at h
    · cases h; exact ⟨rfl, rfl, rfl, rfl⟩
    · cases h

theorem ref_peekBits_same {r r' : RefR} {n v : Nat} (h : RefR.peekBits r n = .ok (v, r')) :
    SameStream r r' := by
  unfold RefR.peekBits at h
  split at h
  · cases h
  · split at h
    · cases h; exact SameStream.refl _
    · cases h

theorem ref_skipBits_same {r r' : RefR} {n : Nat} (h : RefR.skipBits r n = .ok r') :
    SameStream r r' := by
  unfold RefR.skipBits at h
  split at h
  · cases h; exact ⟨rfl, rfl, rfl, rfl⟩
  · cases h

theorem ref_readUnary_same {r r' : RefR} {v : Nat} (h : RefR.readUnary r = .ok (v, r')) :
    SameStream r r' := by
  unfold RefR.readUnary at h
  split at h
  · cases h; exact ⟨rfl, rfl, rfl, rfl⟩
  · split at h <;> cases h

/-- a reference run only moves the cursor -/
theorem ref_run_same {α : Type} (p : RProg α) : ∀ (r : RefR) (a : α) (r' : RefR),
    p.run RefR.impl r = .ok (a, r') → SameStream r r' := by
  induction p with
  | ret a => intro r b r' h; simp only [RProg.run] at h; cases h; exact SameStream.refl _
  | fail x => intro r b r' h; simp only [RProg.run] at h; cases h
  | panic => intro r b r' h; simp only [RProg.run] at h; cases h
  | dpanic => intro r b r' h; simp only [RProg.run] at h; cases h
  | readBits n k ih =>
    intro r b r' h
    simp only [RProg.run] at h
    cases hr : RefR.impl.readBits r n with
    | ok q => obtain ⟨v, r1⟩ := q; rw [hr] at h; exact (ref_readBits_same hr).trans (ih v r1 b r' h)
    | err _ => rw [hr] at h; cases h
    | panic => rw [hr] at h; cases h
    | dpanic => rw [hr] at h; cases h
  | readUnary k ih =>
    intro r b r' h
    simp only [RProg.run] at h
    cases hr : RefR.impl.readUnary r with
    | ok q => obtain ⟨v, r1⟩ := q; rw [hr] at h; exact (ref_readUnary_same hr).trans (ih v r1 b r' h)
    | err _ => rw [hr] at h; cases h
    | panic => rw [hr] at h; cases h
    | dpanic => rw [hr] at h; cases h
  | peek n k ih =>
    intro r b r' h
    simp only [RProg.run] at h
    cases hr : RefR.impl.peekBits r n with
    | ok q => obtain ⟨v, r1⟩ := q; rw [hr] at h; exact (ref_peekBits_same hr).trans (ih (.ok v) r1 b r' h)
    | err x => rw [hr] at h; exact ih (.error x) r b r' h
    | panic => rw [hr] at h; cases h
    | dpanic => rw [hr] at h; cases h
  | skipAfterPeek n k ih =>
    intro r b r' h
    simp only [RProg.run] at h
    exact SameStream.trans (b := RefR.skipAfterPeek r n) ⟨rfl, rfl, rfl, rfl⟩ (ih (RefR.skipAfterPeek r n) b r' h)
  | skip n k ih =>
    intro r b r' h
    simp only [RProg.run] at h
    cases hr : RefR.impl.skipBits r n with
    | ok r1 => rw [hr] at h; exact (ref_skipBits_same hr).trans (ih r1 b r' h)
    | err _ => rw [hr] at h; cases h
    | panic => rw [hr] at h; cases h
    | dpanic => rw [hr] at h; cases h

/-- a reference run from `refAt … pos` ends in `refAt … pos'` -/
theorem ref_run_refAt {α : Type} {p : RProg α} {e : Endian} {data : List (BitVec W)} {strict : Bool}
    {pm pos : Nat} {a : α} {r' : RefR} (h : p.run RefR.impl (refAt e data strict pm pos) = .ok (a, r')) :
    r' = refAt e data strict pm r'.pos :=
  (ref_run_same p _ a r' h).eq_pos

/-- two outcomes related to the same reference outcome by relations that fix the value agree on
    the value (and on the kind of failure) -/
theorem resRel_fst_eq {α σ τ ρ : Type} {R : α × σ → α × ρ → Prop} {R' : α × τ → α × ρ → Prop}
    (hR : ∀ x y, R x y → x.1 = y.1) (hR' : ∀ x y, R' x y → x.1 = y.1)
    {x : Res (α × σ)} {x' : Res (α × τ)} {y : Res (α × ρ)} (h : ResRel R x y) (h' : ResRel R' x' y) :
    x.map Prod.fst = x'.map Prod.fst := by
  cases x <;> cases x' <;> cases y <;> simp only [ResRel] at h h' <;> simp only [Res.map]
  · rw [hR _ _ h, hR' _ _ h']
  · rw [h, h']

/-! ## the buffered reader -/

/-- `s` represents the reference reader `r`, and satisfies the struct invariant -/
def GInv (e : Endian) (s : BufR W) (r : RefR) : Prop := BufR.Rel e s r ∧ RInv s

theorem ginv_new (e : Endian) (hW : 0 < W) (data : List (BitVec W)) (strict : Bool)
    (hfit : data.length * W + 4 * W < 2 ^ 64) :
    GInv e (BufR.new ⟨data, 0, strict⟩) (refAt e data strict W 0) :=
  ⟨new_rel e hW data strict, rinv_new _ hW hfit⟩

theorem ginv_data_length {e : Endian} {s s' : BufR W} {r r' : RefR} (h : BufR.Rel e s r)
    (h' : BufR.Rel e s' r') (hst : r'.stream = r.stream) : s'.back.data.length = s.back.data.length := by
  have hW := Rel.pos_W h
  have h1 := congrArg List.length h.2.2.2.2.2.1
  have h2 := congrArg List.length h'.2.2.2.2.2.1
  rw [length_flatMap_wordBits] at h1 h2
  rw [hst, h1] at h2
  exact (Nat.eq_of_mul_eq_mul_right hW h2).symm

/-- a state related to a reference reader over the same stream as one satisfying the invariant
    satisfies it -/
theorem GInv.of_rel {e : Endian} {s s' : BufR W} {r r' : RefR} (hi : GInv e s r)
    (h' : BufR.Rel e s' r') (hst : r'.stream = r.stream) : GInv e s' r' :=
  ⟨h', ⟨hi.2.posW, h'.1, by rw [ginv_data_length hi.1 h' hst]; exact hi.2.fit⟩⟩

/-- **every generated program simulates the reference reader and keeps the invariant** -/
theorem gen_run_sim {α : Type} {e : Endian} (hW64 : e = .be → W ≤ 64) (p : RProg α)
    (hp : PeekBounded W 0 p) {s : BufR W} {r : RefR} (hi : GInv e s r) :
    ResRel (fun (x : α × BufR W) (y : α × RefR) => x.1 = y.1 ∧ GInv e x.2 y.2)
      (p.run (genRImpl e) s) (p.run RefR.impl r) := by
  have hple := PeekLe.of_peekBounded p 0 hp
  rw [gen_rrun_eq e p s hi.2 hple]
  have hsim := rprog_sim hW64 p hp hi.1
  cases hx : p.run (BufR.impl e) s with
  | ok x =>
    obtain ⟨a, s'⟩ := x
    rw [hx] at hsim
    cases hy : p.run RefR.impl r with
    | ok y =>
      obtain ⟨b, r'⟩ := y
      rw [hy] at hsim
      exact ⟨hsim.1, hsim.2, hand_rrun_rinv e p s a s' hi.2 hple hx⟩
    | err _ => rw [hy] at hsim; exact hsim.elim
    | panic => rw [hy] at hsim; exact hsim.elim
    | dpanic => rw [hy] at hsim; exact hsim.elim
  | err x => rw [hx] at hsim; revert hsim; cases p.run RefR.impl r <;> exact id
  | panic => rw [hx] at hsim; revert hsim; cases p.run RefR.impl r <;> exact id
  | dpanic => rw [hx] at hsim; revert hsim; cases p.run RefR.impl r <;> exact id

/-- a generated run that succeeds: the reference run succeeds with the same value -/
theorem gen_run_ok {α : Type} {e : Endian} (hW64 : e = .be → W ≤ 64) (p : RProg α)
    (hp : PeekBounded W 0 p) {s : BufR W} {r : RefR} (hi : GInv e s r) {a : α} {s' : BufR W}
    (h : p.run (genRImpl e) s = .ok (a, s')) :
    ∃ r', p.run RefR.impl r = .ok (a, r') ∧ GInv e s' r' := by
  have hsim := gen_run_sim hW64 p hp hi
  rw [h] at hsim
  cases hy : p.run RefR.impl r with
  | ok y =>
    obtain ⟨b, r'⟩ := y
    rw [hy] at hsim
    obtain ⟨h1, h2⟩ := hsim
    cases h1
    exact ⟨r', rfl, h2⟩
  | err _ => rw [hy] at hsim; exact hsim.elim
  | panic => rw [hy] at hsim; exact hsim.elim
  | dpanic => rw [hy] at hsim; exact hsim.elim

/-- … and conversely -/
theorem gen_run_of_ref_ok {α : Type} {e : Endian} (hW64 : e = .be → W ≤ 64) (p : RProg α)
    (hp : PeekBounded W 0 p) {s : BufR W} {r : RefR} (hi : GInv e s r) {a : α} {r' : RefR}
    (h : p.run RefR.impl r = .ok (a, r')) :
    ∃ s', p.run (genRImpl e) s = .ok (a, s') ∧ GInv e s' r' := by
  have hsim := gen_run_sim hW64 p hp hi
  rw [h] at hsim
  cases hx : p.run (genRImpl e) s with
  | ok x =>
    obtain ⟨b, s'⟩ := x
    rw [hx] at hsim
    obtain ⟨h1, h2⟩ := hsim
    cases h1
    exact ⟨s', rfl, h2⟩
  | err _ => rw [hx] at hsim; exact hsim.elim
  | panic => rw [hx] at hsim; exact hsim.elim
  | dpanic => rw [hx] at hsim; exact hsim.elim

/-- the position of the reference reader fits a `u64` with the buffer's margin: automatic on a
    strict stream (the cursor never leaves it) -/
def PosFits (W : Nat) (r : RefR) : Prop := r.strict = true ∨ r.pos + 2 * W ≤ 2 ^ 64

/-- **the generated `bit_pos` answers the reference position** -/
theorem gen_bitPos_ginv {e : Endian} {s : BufR W} {r : RefR} (hi : GInv e s r) (hf : PosFits W r) :
    GenBufR.genBitPos e s = .ok (r.pos, s) := by
  apply GenBufR.gen_bitPos_eq hi.1
  have hp := hi.1.2.2.2.2.2.2.1
  have hb := hi.1.1
  rcases hf with hs | hs
  · have hle := hi.1.2.2.2.2.2.2.2.1 (by rw [← hi.1.2.2.2.1]; exact hs)
    have := Nat.mul_le_mul_right W hle
    have := hi.2.fit
    omega
  · omega

/-- **the generated `set_bit_pos` is the reference seek** (any target inside the stream, aligned
    or not) -/
theorem gen_setBitPos_ginv {e : Endian} {s : BufR W} {r : RefR} (hi : GInv e s r) {pos : Nat}
    (hpos : pos ≤ r.stream.length) :
    ∃ s', GenBufR.genSetBitPos e s (BitVec.ofNat 64 pos) = .ok s' ∧ GInv e s' (r.seek pos) := by
  have hW := hi.2.posW
  have hfit := hi.2.fit
  have hlen : r.stream.length = s.back.data.length * W := by
    rw [hi.1.2.2.2.2.2.1, length_flatMap_wordBits]
  have hp64 : pos < 2 ^ 64 := by omega
  have htn : (BitVec.ofNat 64 pos).toNat = pos := by
    rw [BitVec.toNat_ofNat, Nat.mod_eq_of_lt hp64]
  have hsim := GenBufR.gen_setBitPos_sim hi.1 (by omega : W < 2 ^ 64) (p := BitVec.ofNat 64 pos)
    (by rw [htn]; exact hpos)
  rw [htn] at hsim
  cases hx : GenBufR.genSetBitPos e s (BitVec.ofNat 64 pos) with
  | ok s' =>
    rw [hx] at hsim
    exact ⟨s', rfl, hi.of_rel hsim rfl⟩
  | err _ => rw [hx] at hsim; exact hsim.elim
  | panic => rw [hx] at hsim; exact hsim.elim
  | dpanic => rw [hx] at hsim; exact hsim.elim

/-- the generated `skip_bits` inside the stream -/
theorem gen_skip_ginv {e : Endian} {s : BufR W} {r : RefR} (hi : GInv e s r) {n : Nat}
    (hav : r.avail n = true) :
    ∃ s1, (genRImpl e).skipBits s n = .ok s1 ∧ GInv e s1 { r with pos := r.pos + n } := by
  have hsim := skipBits_sim hi.1 n
  rw [genR_skipBits e s hi.2]
  unfold RefR.skipBits at hsim
  rw [if_pos hav] at hsim
  cases hx : (BufR.impl e).skipBits s n with
  | ok s1 =>
    rw [hx] at hsim
    exact ⟨s1, rfl, hsim, hand_skipBits_rinv e hi.2 hx⟩
  | err _ => rw [hx] at hsim; exact hsim.elim
  | panic => rw [hx] at hsim; exact hsim.elim
  | dpanic => rw [hx] at hsim; exact hsim.elim

/-! ## the unbuffered reader -/

/-- `impl BitSeek for BitReader<E, _>::bit_pos`, from the translated bodies -/
def genBitRBitPos (e : Endian) (s : BitR) : Res (Nat × BitR) :=
  match e with
  | .be => GenBitR.natOut (Gen.BitR.bit_pos_be s)
  | .le => GenBitR.natOut (Gen.BitR.bit_pos_le s)

/-- `impl BitSeek for BitReader<E, _>::set_bit_pos`, from the translated bodies -/
def genBitRSetBitPos (e : Endian) (s : BitR) (p : BitVec 64) : Res BitR :=
  match e with
  | .be => Gen.BitR.set_bit_pos_be s p
  | .le => Gen.BitR.set_bit_pos_le s p

theorem genBitRBitPos_rel {e : Endian} {s : BitR} {r : RefR} (h : BitR.Rel e s r)
    (hfit : r.pos < 2 ^ 64) : genBitRBitPos e s = .ok (r.pos, s) := by
  have hb : s.bitIndex < 2 ^ 64 := by rw [← h.2.2.2.2]; exact hfit
  have := GenBitR.gen_bitr_bitPos h hb
  cases e
  · exact this.1
  · exact this.2

theorem genBitRSetBitPos_rel {e : Endian} {s : BitR} {r : RefR} (h : BitR.Rel' e s r) {pos : Nat}
    (hpos : pos < 2 ^ 64) (hin : r.strict = true → pos ≤ r.stream.length) :
    ∃ s', genBitRSetBitPos e s (BitVec.ofNat 64 pos) = .ok s' ∧ BitR.Rel' e s' (r.seek pos) ∧
      s'.data.data = s.data.data := by
  have htn : (BitVec.ofNat 64 pos).toNat = pos := by
    rw [BitVec.toNat_ofNat, Nat.mod_eq_of_lt hpos]
  refine ⟨BitR.setBitPos s pos, ?_, bitr_setBitPos' h hin, rfl⟩
  cases e
  · show Gen.BitR.set_bit_pos_be s _ = _
    rw [GenBitR.set_bit_pos_be_eq, htn]
  · show Gen.BitR.set_bit_pos_le s _ = _
    rw [GenBitR.set_bit_pos_le_eq, htn]

/-- a reader program the unbuffered reader accepts: reads of at most 64 bits, covered peeks of 1 to
    32 bits, and no `skip_bits` unless the stream is zero-extended (`skip_bits` of this reader never
    fails, the reference reader fails when the skip leaves a strict stream) -/
def BitROK {α : Type} (strict : Bool) (p : RProg α) : Prop :=
  BitR.ProgOK 0 p ∧ (BitR.NoSkip p ∨ strict = false)

/-- a successful reference run is reproduced by the generated unbuffered reader when the final
    position (with three words of margin) fits a `u64` -/
theorem gen_bitr_run_of_ref_ok {α : Type} {e : Endian} (p : RProg α) {s : BitR} {r : RefR}
    (h : BitR.Rel' e s r) (hok : BitROK r.strict p) {a : α} {r' : RefR}
    (hrun : p.run RefR.impl r = .ok (a, r'))
    (hfit : r'.pos + (s.data.data.length + 3) * 64 < 2 ^ 64) :
    ∃ s', p.run (genBitRImpl e) s = .ok (a, s') ∧ BitR.Rel' e s' r' ∧ s'.data.data = s.data.data := by
  have hsim : ResRel (fun (x : α × BitR) (y : α × RefR) => x.1 = y.1 ∧ BitR.Rel' e x.2 y.2)
      (p.run (BitR.impl e) s) (p.run RefR.impl r) := by
    rcases hok.2 with hns | hns
    · exact (bitr_rprog_sim_noSkip p hok.1 hns h).mono_rr (fun _ _ hab => hab)
    · exact (bitr_rprog_sim_nonstrict p hok.1 h.1 hns).mono_rr (fun _ _ hab => hab)
  rw [hrun] at hsim
  cases hx : p.run (BitR.impl e) s with
  | ok x =>
    obtain ⟨b, s'⟩ := x
    rw [hx] at hsim
    obtain ⟨h1, h2⟩ := hsim
    have h1 : b = a := h1
    rw [h1] at hx
    have hpos : s'.bitIndex = r'.pos := h2.1.2.2.2.2.symm
    exact ⟨s', gen_rrun_bitr_eq e p s a s' hx (by rw [hpos]; exact hfit), h2,
      (bitr_run_step e p s a s' hx).2⟩
  | err _ => rw [hx] at hsim; exact hsim.elim
  | panic => rw [hx] at hsim; exact hsim.elim
  | dpanic => rw [hx] at hsim; exact hsim.elim

end Headline2
end Dsi
