/-
  C05 — kernel-evaluated table theorems (γ: decoding, encoding, lengths).  Each statement is a closed Boolean
  computation over the whole *generated* table (no table content is mentioned here), checked by
  the kernel's evaluator (`decide +kernel`: no `native_decide`, no compiler trust).
-/
import Dsi.Lemmas.TablesCheck
import Dsi.Gen.TablesGamma
namespace Dsi
open Gen

/-- every entry of the big-endian γ decoding table is a miss or agrees with `readGammaDefault` -/
theorem gamma_read_be_ok :
    chkReadTable .be readGammaDefault Gamma.READ_BITS Gamma.MISSING_VALUE_LEN_BE
      Gamma.READ_BE_chunks Gamma.READ_LEN_BE_chunks = true := by decide +kernel

theorem gamma_read_le_ok :
    chkReadTable .le readGammaDefault Gamma.READ_BITS Gamma.MISSING_VALUE_LEN_LE
      Gamma.READ_LE_chunks Gamma.READ_LEN_LE_chunks = true := by decide +kernel

/-- every entry of the big-endian γ encoding table is the codeword `writeGammaDefault` writes -/
theorem gamma_write_be_ok :
    chkWriteTable .be (writeGammaDefault false) Gamma.WRITE_MAX
      Gamma.WRITE_BE_chunks Gamma.WRITE_LEN_BE_chunks = true := by decide +kernel

theorem gamma_write_le_ok :
    chkWriteTable .le (writeGammaDefault false) Gamma.WRITE_MAX
      Gamma.WRITE_LE_chunks Gamma.WRITE_LEN_LE_chunks = true := by decide +kernel

/-- `LEN[v] = lenGammaDefault v` for the `WRITE_MAX + 1` entries of the γ length table -/
theorem gamma_len_ok :
    chkLenTable lenGammaDefault Gamma.WRITE_MAX Gamma.LEN_chunks = true := by decide +kernel

end Dsi
