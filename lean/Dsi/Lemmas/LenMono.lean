/-
  Monotonicity of the length functions (`len_*`) of `src/codes/*.rs`, as modelled in
  `Dsi.Codes` / `Dsi.Defaults`: a larger value never gets a shorter code word.
  The table-backed defaults are first shown to coincide with the closed formulas.
-/
import Dsi.Defaults
import Mathlib.Data.Nat.Log
namespace Dsi

/-! ### `Nat.log2` -/

theorem log2_mono {a b : Nat} (h : a ≤ b) : a.log2 ≤ b.log2 := by
  rw [Nat.log2_eq_log_two, Nat.log2_eq_log_two]
  exact Nat.log_mono_right h

/-! ### unary, Rice, γ, π, exp-Golomb, δ, ω -/

theorem lenUnary_mono {m n : Nat} (h : m ≤ n) : lenUnary m ≤ lenUnary n := by
  unfold lenUnary; omega

theorem lenRice_mono (k : Nat) {m n : Nat} (h : m ≤ n) : lenRice m k ≤ lenRice n k := by
  unfold lenRice
  have := Nat.div_le_div_right (c := 2 ^ k) h
  omega

theorem lenGammaDefault_mono {m n : Nat} (h : m ≤ n) :
    lenGammaDefault m ≤ lenGammaDefault n := by
  unfold lenGammaDefault
  have := log2_mono (Nat.add_le_add_right h 1)
  omega

theorem lenPi_mono (k : Nat) {m n : Nat} (h : m ≤ n) : lenPi m k ≤ lenPi n k := by
  unfold lenPi
  have h1 := log2_mono (Nat.add_le_add_right h 1)
  have h2 := lenRice_mono k h1
  omega

theorem lenExpGolomb_none_mono (k : Nat) {m n : Nat} (h : m ≤ n) :
    lenExpGolomb none m k ≤ lenExpGolomb none n k := by
  have := lenGammaDefault_mono (Nat.div_le_div_right (c := 2 ^ k) h)
  simp only [lenExpGolomb, lenGamma]
  omega

theorem lenDelta_none_mono {m n : Nat} (h : m ≤ n) :
    lenDelta none none m ≤ lenDelta none none n := by
  have h1 := log2_mono (Nat.add_le_add_right h 1)
  have h2 := lenGammaDefault_mono h1
  simp only [lenDelta, lenGamma]
  omega

/-- the ω length recursion is monotone for every fuel. -/
theorem omegaLenRec_mono (f : Nat) : ∀ {a b : Nat}, a ≤ b → omegaLenRec f a ≤ omegaLenRec f b := by
  induction f with
  | zero => intro a b _; simp [omegaLenRec]
  | succ f ih =>
    intro a b h
    have hl := log2_mono h
    have hr := ih hl
    simp only [omegaLenRec]
    split <;> split <;> omega

theorem lenOmega_mono {m n : Nat} (h : m ≤ n) : lenOmega m ≤ lenOmega n :=
  omegaLenRec_mono 8 (Nat.add_le_add_right h 1)

/-! ### minimal binary, Golomb -/

theorem lenMinimalBinary_mono (u : Nat) {m n : Nat} (h : m ≤ n) :
    lenMinimalBinary m u ≤ lenMinimalBinary n u := by
  unfold lenMinimalBinary
  split
  · exact Nat.le_refl _
  · split <;> split <;> omega

theorem lenMinimalBinary_le (x u : Nat) : lenMinimalBinary x u ≤ u.log2 + 1 := by
  unfold lenMinimalBinary
  split
  · omega
  · split <;> omega

theorem le_lenMinimalBinary (x : Nat) {u : Nat} (hu : u ≠ 0) : u.log2 ≤ lenMinimalBinary x u := by
  unfold lenMinimalBinary
  rw [if_neg hu]
  split <;> omega

/-- Golomb lengths are monotone for every modulus (`b = 0` gives the constant 1). -/
theorem lenGolomb_mono' (b : Nat) {m n : Nat} (h : m ≤ n) : lenGolomb m b ≤ lenGolomb n b := by
  unfold lenGolomb
  by_cases hb : b = 0
  · subst hb; simp [lenMinimalBinary]
  · have hq := Nat.div_le_div_right (c := b) h
    rcases Nat.eq_or_lt_of_le hq with heq | hlt
    · have hm := Nat.div_add_mod m b
      have hn := Nat.div_add_mod n b
      rw [heq] at hm
      have := lenMinimalBinary_mono b (show m % b ≤ n % b by omega)
      omega
    · have h1 := lenMinimalBinary_le (m % b) b
      have h2 := le_lenMinimalBinary (n % b) hb
      omega

theorem lenGolomb_mono (b : Nat) (_hb : 1 ≤ b) (_hb64 : b < 2 ^ 64) {m n : Nat} (h : m ≤ n) :
    lenGolomb m b ≤ lenGolomb n b :=
  lenGolomb_mono' b h

/-! ### VByte -/

theorem le_vbyteByteLenLoop (f : Nat) : ∀ v len, len ≤ vbyteByteLenLoop f v len := by
  induction f with
  | zero => intro v len; simp [vbyteByteLenLoop]
  | succ f ih =>
    intro v len
    simp only [vbyteByteLenLoop]
    split
    · exact Nat.le_refl _
    · have := ih (v / 128 - 1) (len + 1); omega

theorem vbyteByteLenLoop_mono (f : Nat) :
    ∀ {v w : Nat} (len : Nat), v ≤ w → vbyteByteLenLoop f v len ≤ vbyteByteLenLoop f w len := by
  induction f with
  | zero => intro v w len _; simp [vbyteByteLenLoop]
  | succ f ih =>
    intro v w len h
    have hd := Nat.div_le_div_right (c := 128) h
    simp only [vbyteByteLenLoop]
    split
    · split
      · exact Nat.le_refl _
      · have := le_vbyteByteLenLoop f (w / 128 - 1) (len + 1); omega
    · split
      · omega
      · exact ih (len + 1) (by omega)

theorem byteLenVByte_mono {m n : Nat} (h : m ≤ n) : byteLenVByte m ≤ byteLenVByte n :=
  vbyteByteLenLoop_mono 10 1 h

theorem bitLenVByte_mono {m n : Nat} (h : m ≤ n) : bitLenVByte m ≤ bitLenVByte n := by
  unfold bitLenVByte
  have := byteLenVByte_mono h
  omega

/-! ### ζ -/

/-- The upper bound handed to minimal binary in block `h`: `2^((h+1)k) - 2^(hk)`, with the
    exponent capped at 64 (the wrapped last block; for `(h+1)k = 64` the shift wraps to 0 and
    the wrapping subtraction still yields the true value). -/
theorem zetaU_eq {h k : Nat} (hk : h * k < 64) :
    zetaU h k = 2 ^ (min (h * k + k) 64) - 2 ^ (h * k) := by
  unfold zetaU wsub64 shl64
  generalize h * k = a at hk
  rw [← Nat.pow_add]
  have hQ : 2 ^ a < 2 ^ 64 := Nat.pow_lt_pow_right (by omega) hk
  have hQ0 : 0 < 2 ^ a := Nat.pow_pos (by omega)
  by_cases hc : a + k < 64
  · have hP : 2 ^ (a + k) < 2 ^ 64 := Nat.pow_lt_pow_right (by omega) hc
    have hQP : 2 ^ a ≤ 2 ^ (a + k) := Nat.pow_le_pow_right (by omega) (by omega)
    rw [Nat.min_eq_left (by omega)]
    generalize 2 ^ (a + k) = P at *
    generalize 2 ^ a = Q at *
    omega
  · have hP : 2 ^ (a + k) % 2 ^ 64 = 0 :=
      Nat.mod_eq_zero_of_dvd (Nat.pow_dvd_pow 2 (by omega))
    rw [Nat.min_eq_right (by omega), hP]
    generalize 2 ^ a = Q at *
    omega

theorem log2_pow_sub_pow {a e : Nat} (h : a < e) : (2 ^ e - 2 ^ a).log2 = e - 1 := by
  obtain ⟨d, rfl⟩ : ∃ d, e = d + 1 := ⟨e - 1, by omega⟩
  have h1 : 2 ^ a ≤ 2 ^ d := Nat.pow_le_pow_right (by omega) (by omega)
  have h2 : 2 ^ (d + 1) = 2 * 2 ^ d := by rw [Nat.pow_succ]; omega
  have h3 : 0 < 2 ^ a := Nat.pow_pos (by omega)
  have hne : 2 ^ (d + 1) - 2 ^ a ≠ 0 := by omega
  rw [Nat.log2_eq_iff hne, Nat.add_sub_cancel]
  omega

theorem zetaU_log2 {h k : Nat} (hk1 : 1 ≤ k) (hk : h * k < 64) :
    (zetaU h k).log2 = min (h * k + k) 64 - 1 := by
  rw [zetaU_eq hk, log2_pow_sub_pow (by omega)]

theorem zetaU_ne_zero {h k : Nat} (hk1 : 1 ≤ k) (hk : h * k < 64) : zetaU h k ≠ 0 := by
  rw [zetaU_eq hk]
  have : 2 ^ (h * k) < 2 ^ (min (h * k + k) 64) := Nat.pow_lt_pow_right (by omega) (by omega)
  omega

/-- ζ_k monotonicity under the exact condition used by the proof: the block of the larger
    argument starts below `2^64`. -/
theorem lenZetaDefault_mono_of_block (k : Nat) (hk1 : 1 ≤ k) {m n : Nat} (h : m ≤ n)
    (hb : (n + 1).log2 / k * k < 64) : lenZetaDefault m k ≤ lenZetaDefault n k := by
  unfold lenZetaDefault
  simp only
  have hl := log2_mono (Nat.add_le_add_right h 1)
  have hq := Nat.div_le_div_right (c := k) hl
  generalize (m + 1).log2 / k = h1 at *
  generalize (n + 1).log2 / k = h2 at *
  rcases Nat.eq_or_lt_of_le hq with heq | hlt
  · subst heq
    have := lenMinimalBinary_mono (zetaU h1 k)
      (show m + 1 - 2 ^ (h1 * k) ≤ n + 1 - 2 ^ (h1 * k) by omega)
    omega
  · have hmul : h1 * k + k ≤ h2 * k := by
      have := Nat.mul_le_mul_right k (show h1 + 1 ≤ h2 from hlt)
      rw [Nat.add_mul] at this; omega
    have hb1 : h1 * k < 64 := by omega
    have a1 := lenMinimalBinary_le (m + 1 - 2 ^ (h1 * k)) (zetaU h1 k)
    have a2 := le_lenMinimalBinary (n + 1 - 2 ^ (h2 * k)) (zetaU_ne_zero hk1 hb)
    rw [zetaU_log2 hk1 hb1] at a1
    rw [zetaU_log2 hk1 hb] at a2
    omega

theorem lenZetaDefault_mono (k : Nat) (hk1 : 1 ≤ k) (_hk : k ≤ 63) {m n : Nat} (h : m ≤ n)
    (hn : n < 2 ^ 64 - 1) : lenZetaDefault m k ≤ lenZetaDefault n k := by
  apply lenZetaDefault_mono_of_block k hk1 h
  have h1 : (n + 1).log2 < 64 := (Nat.log2_lt (by omega)).2 (by omega)
  have h2 := Nat.div_mul_le_self (n + 1).log2 k
  omega

/-- the bound on `n` cannot be dropped: at `n = 2^64 - 1` the block bound `1 << (h*k)` itself
    overflows (`k = 1`: length 65 after length 127). -/
theorem lenZetaDefault_not_mono_at_max :
    ¬ lenZetaDefault (2 ^ 64 - 2) 1 ≤ lenZetaDefault (2 ^ 64 - 1) 1 := by decide +kernel

/-! ### table-backed defaults

  The generated `LEN` tables are compared with the closed formulas by kernel evaluation of a
  list equality (linear in the table size); the statements about the `P`/`D` wrappers are then
  proved for both values of every table flag, so a flipped default in `Gen.Params` does not
  affect them. -/
open Gen

/-- a list that equals the tabulation of `f` answers every in-range lookup with `f`. -/
theorem getElem?_toArray_of_eq_tab {f : Nat → Nat} {l : List Nat}
    (hl : l = (List.range l.length).map f) (n : Nat) (hn : n < l.toArray.size) :
    l.toArray[n]? = some (f n) := by
  have hn' : n < l.length := by simpa using hn
  rw [List.getElem?_toArray, hl, List.getElem?_map, List.getElem?_range hn']
  rfl

theorem gammaLen_l_eq :
    Gamma.LEN_l = (List.range Gamma.LEN_l.length).map lenGammaDefault := by decide +kernel
theorem deltaLen_l_eq :
    Delta.LEN_l = (List.range Delta.LEN_l.length).map (lenDelta none none) := by decide +kernel
theorem zetaLen_l_eq :
    Zeta.LEN_l = (List.range Zeta.LEN_l.length).map (lenZetaDefault · Zeta.K) := by decide +kernel

theorem gammaLenTable_eq : ∀ n, n < Gamma.LEN.size → Gamma.LEN[n]? = some (lenGammaDefault n) :=
  getElem?_toArray_of_eq_tab gammaLen_l_eq
theorem deltaLenTable_eq : ∀ n, n < Delta.LEN.size → Delta.LEN[n]? = some (lenDelta none none n) :=
  getElem?_toArray_of_eq_tab deltaLen_l_eq
theorem zetaLenTable_eq :
    ∀ n, n < Zeta.LEN.size → Zeta.LEN[n]? = some (lenZetaDefault n Zeta.K) :=
  getElem?_toArray_of_eq_tab zetaLen_l_eq

/-! The `P` variants agree with the closed formulas whatever the table flags are. -/

theorem lenGamma_opt_eq (b : Bool) (n : Nat) : lenGamma (opt b Gamma.LEN) n = lenGammaDefault n := by
  cases b
  · rfl
  · simp only [opt, lenGamma, if_true]
    by_cases hn : n < Gamma.LEN.size
    · rw [gammaLenTable_eq n hn]
    · rw [Array.getElem?_eq_none (by omega)]

theorem lenGammaP_eq (b : Bool) (n : Nat) : lenGammaP b n = lenGammaDefault n :=
  lenGamma_opt_eq b n

theorem lenDeltaP_eq (bd bg : Bool) (n : Nat) : lenDeltaP bd bg n = lenDelta none none n := by
  have hd : (n + 1).log2 + lenGamma (opt bg Gamma.LEN) (n + 1).log2 = lenDelta none none n := by
    rw [lenGamma_opt_eq]; rfl
  cases bd
  · simp only [lenDeltaP, opt, lenDelta, Bool.false_eq_true, if_false]
    exact hd
  · simp only [lenDeltaP, opt, lenDelta, if_true]
    by_cases hn : n < Delta.LEN.size
    · rw [deltaLenTable_eq n hn]; rfl
    · rw [Array.getElem?_eq_none (by omega)]
      exact hd

theorem lenZetaP_eq (b : Bool) (n k : Nat) : lenZetaP b n k = lenZetaDefault n k := by
  cases b
  · rfl
  · simp only [lenZetaP, opt, lenZeta, if_true]
    split
    · next hk =>
      subst hk
      by_cases hn : n < Zeta.LEN.size
      · rw [zetaLenTable_eq n hn]
      · rw [Array.getElem?_eq_none (by omega)]
    · rfl

theorem lenExpGolomb_opt_eq (b : Bool) (n k : Nat) :
    lenExpGolomb (opt b Gamma.LEN) n k = lenExpGolomb none n k := by
  unfold lenExpGolomb
  rw [lenGamma_opt_eq]; rfl

/-! The parameterless defaults (`len_gamma`, `len_delta`, `len_zeta`, `len_exp_golomb`). -/

theorem lenGammaD_eq (n : Nat) : lenGammaD n = lenGammaDefault n := lenGammaP_eq _ n
theorem lenDeltaD_eq (n : Nat) : lenDeltaD n = lenDelta none none n := lenDeltaP_eq _ _ n
theorem lenZetaD_eq (n k : Nat) : lenZetaD n k = lenZetaDefault n k := lenZetaP_eq _ n k
theorem lenExpGolombD_eq (n k : Nat) : lenExpGolombD n k = lenExpGolomb none n k :=
  lenExpGolomb_opt_eq _ n k

theorem lenGammaD_mono {m n : Nat} (h : m ≤ n) : lenGammaD m ≤ lenGammaD n := by
  rw [lenGammaD_eq, lenGammaD_eq]; exact lenGammaDefault_mono h

theorem lenDeltaD_mono {m n : Nat} (h : m ≤ n) : lenDeltaD m ≤ lenDeltaD n := by
  rw [lenDeltaD_eq, lenDeltaD_eq]; exact lenDelta_none_mono h

theorem lenZetaD_mono (k : Nat) (hk1 : 1 ≤ k) (hk : k ≤ 63) {m n : Nat} (h : m ≤ n)
    (hn : n < 2 ^ 64 - 1) : lenZetaD m k ≤ lenZetaD n k := by
  rw [lenZetaD_eq, lenZetaD_eq]; exact lenZetaDefault_mono k hk1 hk h hn

theorem lenExpGolombD_mono (k : Nat) {m n : Nat} (h : m ≤ n) :
    lenExpGolombD m k ≤ lenExpGolombD n k := by
  rw [lenExpGolombD_eq, lenExpGolombD_eq]; exact lenExpGolomb_none_mono k h

end Dsi
