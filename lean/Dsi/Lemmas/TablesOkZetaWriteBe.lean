/-
  C05 — kernel-evaluated table theorems (ζ₃ encoding, BE).  Each statement is a closed Boolean
  computation over the *generated* table (no table content is mentioned here), checked by the
  kernel's evaluator (`decide +kernel`: no `native_decide`, no compiler trust).
-/
import Dsi.Lemmas.TablesCheck
import Dsi.Gen.TablesZeta
namespace Dsi
open Gen

/-- every entry of the BE ζ₃ encoding table is the codeword `writeZetaDefault · 3` writes;
    the table has `WRITE_MAX + 1` entries -/
theorem zeta_write_be_ok :
    chkWriteTable .be (writeZetaDefault · 3) Zeta.WRITE_MAX
      Zeta.WRITE_BE_chunks Zeta.WRITE_LEN_BE_chunks = true := by decide +kernel

end Dsi
