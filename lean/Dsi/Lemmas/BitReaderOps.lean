/-
  Unbuffered `BitReader`: `read_bits`, `peek_bits`, `skip_bits`, `set_bit_pos` against the reference
  reader, under the plain relation `BitR.Rel` (no constraint on the position).
-/
import Dsi.Lemmas.BitReaderCore
namespace Dsi
namespace BitRd

theorem rel_length {e : Endian} {s : BitR} {r : RefR} (h : BitR.Rel e s r) :
    r.stream.length = s.data.data.length * 64 := by
  rw [h.2.2.2.1, length_flatMap_wordBits]

/-- a state over the same data (any backend cursor) and a reference reader over the same stream, at
    equal positions, are related -/
theorem rel_move {e : Endian} {s : BitR} {r : RefR} (h : BitR.Rel e s r) {s' : BitR} {r' : RefR}
    (hd : s'.data.data = s.data.data) (hs : s'.data.strict = s.data.strict)
    (he : r'.e = r.e) (hst : r'.stream = r.stream) (hstr : r'.strict = r.strict)
    (hpm : r'.peekMax = r.peekMax) (hp : r'.pos = s'.bitIndex) : BitR.Rel e s' r' := by
  obtain ⟨h1, h2, h3, h4, _⟩ := h
  exact ⟨by rw [he]; exact h1, by rw [hs, hstr]; exact h2, by rw [hpm]; exact h3,
    by rw [hd, hst]; exact h4, hp⟩

theorem extract_of_avail {e : Endian} {s : BitR} {r : RefR} (h : BitR.Rel e s r) {n : Nat}
    (h1 : 1 ≤ n) (hn : n ≤ 64) (hav : r.avail n = true) :
    ∃ v d, BitR.extract e s n = .ok (v, d) ∧ d.data = s.data.data ∧ d.strict = s.data.strict ∧
      v.toNat = bitsVal r.e (takeZ n r.rest) := by
  have hlen := rel_length h
  obtain ⟨he, hstr, hpm, hstream, hpos⟩ := h
  obtain ⟨d, hd, hd1, hd2⟩ := extract_ok e s n (by
    intro hs
    rw [← hstr] at hs
    simp only [RefR.avail, hs, Bool.not_true, Bool.false_or, decide_eq_true_eq] at hav
    omega) h1
  refine ⟨_, d, hd, hd1, hd2, ?_⟩
  rw [exval_toNat e _ _ _ h1 hn, he, RefR.rest, hstream, hpos]

theorem extract_of_not_avail {e : Endian} {s : BitR} {r : RefR} (h : BitR.Rel e s r) {n : Nat}
    (hn : n ≤ 64) (hav : r.avail n = false) : BitR.extract e s n = .err .eof := by
  have hlen := rel_length h
  obtain ⟨he, hstr, hpm, hstream, hpos⟩ := h
  have hs : r.strict = true := by
    cases hs : r.strict
    · simp [RefR.avail, hs] at hav
    · rfl
  simp only [RefR.avail, hs, Bool.not_true, Bool.false_or, decide_eq_false_iff_not] at hav
  exact extract_err e s n (by rw [← hstr]; exact hs) (by omega) hn

/-! ### readBits -/

theorem readBits_sim_pos {e : Endian} {s : BitR} {r : RefR} (h : BitR.Rel e s r) {n : Nat}
    (h1 : 1 ≤ n) (hn : n ≤ 64) :
    ResRel (fun a b => a.1 = b.1 ∧ BitR.Rel e a.2 b.2) (BitR.readBits e s n) (RefR.readBits r n) := by
  have c0 : ¬ n = 0 := by omega
  have c1 : ¬ n > 64 := by omega
  simp only [BitR.readBits, RefR.readBits, if_neg c0, if_neg c1]
  cases hav : r.avail n
  · rw [extract_of_not_avail h hn hav]
    simp [ResRel]
  · obtain ⟨v, d, hx, hd1, hd2, hv⟩ := extract_of_avail h h1 hn hav
    rw [hx]
    simp only [if_true]
    refine ⟨hv, ?_⟩
    exact rel_move h hd1 hd2 rfl rfl rfl rfl (by show r.pos + n = s.bitIndex + n; rw [h.2.2.2.2])

/-- `read_bits(0)` returns `0` without touching the backend; the reference does the same when
    `avail 0`, i.e. unless the stream is strict and the position is beyond its end -/
theorem readBits_zero {e : Endian} {s : BitR} {r : RefR} (h : BitR.Rel e s r) (hav : r.avail 0 = true) :
    ResRel (fun a b => a.1 = b.1 ∧ BitR.Rel e a.2 b.2) (BitR.readBits e s 0) (RefR.readBits r 0) := by
  simp only [BitR.readBits, RefR.readBits, if_true, hav]
  refine ⟨by simp [takeZ, bitsVal]; cases r.e <;> simp [natLE], ?_⟩
  exact h

/-! ### peekBits -/

theorem setWidth32_toNat (v : BitVec 64) {n : Nat} (hn : n ≤ 32) (hv : v.toNat < 2 ^ n) :
    (v.setWidth 32).toNat = v.toNat := by
  rw [BitVec.toNat_setWidth]
  apply Nat.mod_eq_of_lt
  exact Nat.lt_of_lt_of_le hv (Nat.pow_le_pow_right (by decide) hn)

theorem peekBits_sim {e : Endian} {s : BitR} {r : RefR} (h : BitR.Rel e s r) {n : Nat}
    (h1 : 1 ≤ n) (hn : n ≤ 32) :
    ResRel (fun a b => a.1 = b.1 ∧ BitR.Rel e a.2 b.2) (BitR.peekBits e s n) (RefR.peekBits r n) := by
  have c0 : ¬ n = 0 := by omega
  have c1 : ¬ n > 32 := by omega
  have c2 : ¬ (n = 0 ∨ n > r.peekMax) := by rw [h.2.2.1]; omega
  simp only [BitR.peekBits, RefR.peekBits, if_neg c0, if_neg c1, if_neg c2]
  cases hav : r.avail n
  · rw [extract_of_not_avail h (by omega) hav]
    simp [ResRel]
  · obtain ⟨v, d, hx, hd1, hd2, hv⟩ := extract_of_avail h h1 (by omega) hav
    rw [hx]
    simp only [if_true]
    refine ⟨?_, ?_⟩
    · show (v.setWidth 32).toNat = _
      rw [setWidth32_toNat v hn, hv]
      rw [hv]
      have := bitsVal_lt r.e (takeZ n r.rest)
      rwa [length_takeZ] at this
    · exact rel_move h hd1 hd2 rfl rfl rfl rfl h.2.2.2.2

/-! ### skips and seeks -/

theorem skipAfterPeek_rel {e : Endian} {s : BitR} {r : RefR} (h : BitR.Rel e s r) (k : Nat) :
    BitR.Rel e (BitR.skipAfterPeek s k) (RefR.skipAfterPeek r k) :=
  rel_move h rfl rfl rfl rfl rfl rfl (by show r.pos + k = s.bitIndex + k; rw [h.2.2.2.2])

theorem setBitPos_rel {e : Endian} {s : BitR} {r : RefR} (h : BitR.Rel e s r) (p : Nat) :
    BitR.Rel e (BitR.setBitPos s p) (r.seek p) :=
  rel_move h rfl rfl rfl rfl rfl rfl rfl

end BitRd
end Dsi
