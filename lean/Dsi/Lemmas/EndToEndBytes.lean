/-
  End-to-end, part 1: the byte image.  Bits of a byte list (`bitsOfBytes`), bytes of a bit list
  (`layout`), and the logical words the readers are built from (`wordsOfBytes`): they are mutually
  inverse up to zero padding.
-/
import Dsi.Props.Writer
import Dsi.Props.Reader
import Dsi.Session
namespace Dsi
namespace E2E

/-! ### `takeZ`, `bitsVal` -/

theorem takeZ_eq (n : Nat) (l : List Bool) :
    takeZ n l = l.take n ++ List.replicate (n - l.length) false := by
  induction n generalizing l with
  | zero => simp [takeZ]
  | succ n ih =>
    cases l with
    | nil =>
      have := ih []
      simp only [List.take_nil, List.length_nil, Nat.sub_zero, List.nil_append] at this
      simp [takeZ, this, List.replicate_succ]
    | cons b t => simp [takeZ, ih t]

theorem fieldLE_natLE (l : List Bool) : fieldLE (natLE l) l.length = l := by
  induction l with
  | nil => rfl
  | cons b t ih =>
    simp only [natLE, List.length_cons, fieldLE]
    have h1 : ((if b = true then 1 else 0) + 2 * natLE t) % 2 = if b = true then 1 else 0 := by
      cases b <;> simp <;> omega
    have h2 : ((if b = true then 1 else 0) + 2 * natLE t) / 2 = natLE t := by
      cases b <;> simp <;> omega
    rw [h1, h2, ih]
    cases b <;> simp

/-- a bit field is recovered from its value -/
theorem fieldBits_bitsVal (e : Endian) (l : List Bool) : fieldBits e (bitsVal e l) l.length = l := by
  cases e
  · simp only [fieldBits, bitsVal]
    have := fieldLE_natLE l.reverse
    rw [List.length_reverse] at this
    rw [this, List.reverse_reverse]
  · exact fieldLE_natLE l

theorem natLE_lt (l : List Bool) : natLE l < 2 ^ l.length := by
  induction l with
  | nil => simp [natLE]
  | cons b t ih =>
    simp only [natLE, List.length_cons, Nat.pow_succ]
    cases b <;> simp <;> omega

theorem byteOfBits_lt (e : Endian) (bs : List Bool) : byteOfBits e bs < 256 := by
  have h : (takeZ 8 bs).length = 8 := takeZ_length 8 bs
  unfold byteOfBits
  cases e
  · have := natLE_lt (takeZ 8 bs).reverse
    rw [List.length_reverse, h] at this
    exact this
  · have := natLE_lt (takeZ 8 bs)
    rw [h] at this
    exact this

/-! ### `bitsOfBytes` -/

@[simp] theorem bitsOfBytes_nil (e : Endian) : bitsOfBytes e [] = [] := rfl

@[simp] theorem bitsOfBytes_cons (e : Endian) (b : Nat) (l : List Nat) :
    bitsOfBytes e (b :: l) = fieldBits e b 8 ++ bitsOfBytes e l := by
  simp [bitsOfBytes]

theorem bitsOfBytes_append (e : Endian) (l1 l2 : List Nat) :
    bitsOfBytes e (l1 ++ l2) = bitsOfBytes e l1 ++ bitsOfBytes e l2 := by
  simp [bitsOfBytes]

theorem bitsOfBytes_zeros (e : Endian) (k : Nat) :
    bitsOfBytes e (List.replicate k 0) = List.replicate (8 * k) false := by
  induction k with
  | zero => rfl
  | succ k ih =>
    rw [List.replicate_succ, bitsOfBytes_cons, ih, ← replicate_false_eq e 8,
      List.replicate_append_replicate]
    congr 1
    omega

@[simp] theorem bitsOfBytes_length (e : Endian) (l : List Nat) : (bitsOfBytes e l).length = 8 * l.length := by
  induction l with
  | nil => rfl
  | cons b t ih => rw [bitsOfBytes_cons, List.length_append, ih, fieldBits_length, List.length_cons]; omega

theorem bitsOfBytes_flatten (e : Endian) (cs : List (List Nat)) :
    bitsOfBytes e cs.flatten = cs.flatMap (bitsOfBytes e) := by
  induction cs with
  | nil => rfl
  | cons c cs ih => rw [List.flatten_cons, bitsOfBytes_append, ih, List.flatMap_cons]

/-! ### `layout` then `bitsOfBytes` -/

/-- zero padding of a bit string up to the next multiple of `k` -/
def pad (k n : Nat) : List Bool := List.replicate ((k - n % k) % k) false

theorem layout_bytes_lt (e : Endian) (bits : List Bool) : ∀ b ∈ layout e bits, b < 256 := by
  suffices h : ∀ fuel bs, ∀ b ∈ layoutAux e fuel bs, b < 256 from h _ _
  intro fuel
  induction fuel with
  | zero => intro bs b hb; simp [layoutAux] at hb
  | succ f ih =>
    intro bs b hb
    simp only [layoutAux] at hb
    split at hb
    · simp at hb
    · rcases List.mem_cons.1 hb with h | h
      · rw [h]; exact byteOfBits_lt e bs
      · exact ih _ b h

theorem bits_of_layout_aux (e : Endian) (n : Nat) : ∀ bits : List Bool, bits.length ≤ n →
    bitsOfBytes e (layout e bits) = bits ++ pad 8 bits.length := by
  induction n with
  | zero =>
    intro bits h
    have : bits = [] := List.eq_nil_of_length_eq_zero (by omega)
    subst this
    rfl
  | succ n ih =>
    intro bits h
    cases bits with
    | nil => rfl
    | cons b t =>
      rw [layout_unfold, bitsOfBytes_cons, byteOfBits]
      have h8 := fieldBits_bitsVal e (takeZ 8 (b :: t))
      rw [takeZ_length] at h8
      rw [h8, ih ((b :: t).drop 8) (by simp only [List.length_drop, List.length_cons] at *; omega),
        takeZ_eq, List.append_assoc]
      by_cases hl : 8 ≤ (b :: t).length
      · rw [show 8 - (b :: t).length = 0 by omega, List.replicate_zero, List.nil_append,
          ← List.append_assoc, List.take_append_drop]
        congr 1
        simp only [pad, List.length_drop]
        congr 2
        omega
      · have hd : (b :: t).drop 8 = [] := List.drop_eq_nil_of_le (by omega)
        have ht : (b :: t).take 8 = b :: t := List.take_of_length_le (by omega)
        rw [hd, ht]
        have hm : (b :: t).length % 8 = (b :: t).length := Nat.mod_eq_of_lt (by omega)
        have h0 : 0 < (b :: t).length := by simp
        have e1 : (8 - (b :: t).length % 8) % 8 = 8 - (b :: t).length := by rw [hm]; omega
        simp only [pad, List.length_nil, List.nil_append, e1]
        simp

end E2E

open E2E

/-- **Byte image, 1.** Reading back the bits of the canonical byte layout of `bits` gives `bits`
    followed by the zero padding up to a byte boundary. -/
theorem e2e_bits_of_layout (e : Endian) (bits : List Bool) :
    bitsOfBytes e (layout e bits) = bits ++ List.replicate ((8 - bits.length % 8) % 8) false :=
  bits_of_layout_aux e bits.length bits (Nat.le_refl _)

/-- every byte of a layout is a byte -/
theorem e2e_layout_lt (e : Endian) (bits : List Bool) : ∀ b ∈ layout e bits, b < 256 :=
  layout_bytes_lt e bits

theorem e2e_layout_length (e : Endian) (bits : List Bool) :
    (layout e bits).length = (bits.length + 7) / 8 := by
  have := congrArg List.length (e2e_bits_of_layout e bits)
  rw [bitsOfBytes_length, List.length_append, List.length_replicate] at this
  omega

namespace E2E

/-! ### `chunksExact` -/

theorem chunksExact_spec {B : Nat} (hB : 0 < B) (k : Nat) : ∀ (l : List Nat) (fuel : Nat),
    l.length = k * B → k ≤ fuel →
    (chunksExact B l fuel).1.flatten = l ∧ (∀ c ∈ (chunksExact B l fuel).1, c.length = B) ∧
      (chunksExact B l fuel).1.length = k := by
  induction k with
  | zero =>
    intro l fuel hl _
    have : l = [] := List.eq_nil_of_length_eq_zero (by omega)
    subst this
    cases fuel with
    | zero => simp [chunksExact]
    | succ f =>
      have : ¬ B = 0 := by omega
      simp [chunksExact, this, hB]
  | succ k ih =>
    intro l fuel hl hk
    cases fuel with
    | zero => omega
    | succ f =>
      have h0 : ¬ B = 0 := by omega
      have hge : ¬ l.length < B := by
        rw [hl, Nat.succ_mul]; omega
      have hd : (l.drop B).length = k * B := by
        rw [List.length_drop, hl, Nat.succ_mul]; omega
      obtain ⟨h1, h2, h3⟩ := ih (l.drop B) f hd (by omega)
      simp only [chunksExact, h0, hge, if_false]
      refine ⟨?_, ?_, ?_⟩
      · simp only [List.flatten_cons, h1, List.take_append_drop]
      · intro c hc
        rcases List.mem_cons.1 hc with h | h
        · rw [h, List.length_take]; omega
        · exact h2 c h
      · simp [h3]

/-- with enough fuel the chunks do not depend on the fuel -/
theorem chunksExact_fuel {B : Nat} (hB : 0 < B) (k : Nat) : ∀ (l : List Nat) (f1 f2 : Nat),
    l.length = k * B → k ≤ f1 → k ≤ f2 → (chunksExact B l f1).1 = (chunksExact B l f2).1 := by
  have h0 : ¬ B = 0 := by omega
  induction k with
  | zero =>
    intro l f1 f2 hl _ _
    have : l = [] := List.eq_nil_of_length_eq_zero (by omega)
    subst this
    cases f1 <;> cases f2 <;> simp [chunksExact, h0, hB]
  | succ k ih =>
    intro l f1 f2 hl h1 h2
    cases f1 with
    | zero => omega
    | succ f1 =>
      cases f2 with
      | zero => omega
      | succ f2 =>
        have hge : ¬ l.length < B := by
          rw [hl, Nat.succ_mul]; omega
        have hd : (l.drop B).length = k * B := by
          rw [List.length_drop, hl, Nat.succ_mul]; omega
        simp only [chunksExact, h0, hge, if_false]
        rw [ih (l.drop B) f1 f2 hd (by omega) (by omega)]

/-! ### one word -/

theorem be_word_aux (c : List Nat) (hc : ∀ b ∈ c, b < 256) : ∀ (acc n : Nat),
    fieldBits .be (c.foldl (fun a b => a * 256 + b) acc) (8 * c.length + n)
      = fieldBits .be acc n ++ bitsOfBytes .be c := by
  induction c with
  | nil => intro acc n; simp
  | cons b t ih =>
    intro acc n
    have hb : b < 256 := hc b (by simp)
    rw [List.foldl_cons, List.length_cons, show 8 * (t.length + 1) + n = 8 * t.length + (n + 8) by omega,
      ih (fun x hx => hc x (by simp [hx])), bitsOfBytes_cons, ← List.append_assoc]
    congr 1
    rw [fieldBE_cut (acc * 256 + b) (n := n + 8) (b := 8) (by omega), Nat.add_sub_cancel]
    congr 1
    · congr 1
      show (acc * 256 + b) / 256 = acc
      omega
    · rw [← fieldBits_mod .be (acc * 256 + b) (Nat.le_refl 8), ← fieldBits_mod .be b (Nat.le_refl 8)]
      congr 1
      show (acc * 256 + b) % 256 = b % 256
      omega

theorem be_word (c : List Nat) (hc : ∀ b ∈ c, b < 256) :
    fieldBits .be (beVal c) (8 * c.length) = bitsOfBytes .be c := by
  have := be_word_aux c hc 0 0
  simpa [beVal, fieldBits, fieldLE] using this

theorem le_word (c : List Nat) (hc : ∀ b ∈ c, b < 256) :
    fieldBits .le (leVal c) (8 * c.length) = bitsOfBytes .le c := by
  induction c with
  | nil => rfl
  | cons b t ih =>
    have hb : b < 256 := hc b (by simp)
    have ih' := ih (fun x hx => hc x (by simp [hx]))
    simp only [fieldBits] at ih' ⊢
    rw [bitsOfBytes_cons, ← ih', List.length_cons,
      fieldLE_cut (leVal (b :: t)) (n := 8 * (t.length + 1)) (a := 8) (by omega),
      show 8 * (t.length + 1) - 8 = 8 * t.length by omega]
    have hv : leVal (b :: t) = b + 256 * leVal t := rfl
    congr 1
    · simp only [fieldBits]
      have h1 := fieldBits_mod .le (leVal (b :: t)) (Nat.le_refl 8)
      have h2 := fieldBits_mod .le b (Nat.le_refl 8)
      simp only [fieldBits] at h1 h2
      rw [← h1, ← h2]
      congr 1
      rw [hv]
      show (b + 256 * leVal t) % 256 = b % 256
      omega
    · congr 1
      rw [hv]
      show (b + 256 * leVal t) / 256 = leVal t
      omega

/-- the value of a chunk of bytes as a logical word -/
def wordVal (e : Endian) (c : List Nat) : Nat :=
  match e with
  | .be => beVal c
  | .le => leVal c

theorem wordsOfBytes_eq (e : Endian) (W : Nat) (bytes : List Nat) :
    wordsOfBytes e W bytes
      = (chunksExact (W / 8) (padTo (W / 8) bytes) bytes.length).1.map
          (fun c => BitVec.ofNat W (wordVal e c)) := by
  cases e <;> rfl

/-- the bits of the logical word built from a chunk of `W / 8` bytes are the bits of the chunk -/
theorem word_of_chunk (e : Endian) {W : Nat} (h8 : 8 ∣ W) (c : List Nat) (hl : c.length = W / 8)
    (hc : ∀ b ∈ c, b < 256) :
    wordBits e (BitVec.ofNat W (wordVal e c)) = bitsOfBytes e c := by
  obtain ⟨m, rfl⟩ := h8
  rw [Nat.mul_div_cancel_left m (by omega : 0 < 8)] at hl
  subst hl
  unfold wordBits
  rw [BitVec.toNat_ofNat, fieldBits_mod e _ (Nat.le_refl _)]
  cases e
  · exact be_word c hc
  · exact le_word c hc

/-! ### `padTo` -/

theorem padTo_eq {k : Nat} (hk : 0 < k) (bs : List Nat) :
    padTo k bs = bs ++ List.replicate ((k - bs.length % k) % k) 0 := by
  simp [padTo, Nat.ne_of_gt hk]

theorem padTo_length_mod {k : Nat} (hk : 0 < k) (bs : List Nat) : (padTo k bs).length % k = 0 := by
  rw [padTo_eq hk, List.length_append, List.length_replicate]
  by_cases h : bs.length % k = 0
  · rw [h, Nat.sub_zero, Nat.mod_self, Nat.add_zero, h]
  · have hlt := Nat.mod_lt bs.length hk
    rw [Nat.mod_eq_of_lt (by omega : k - bs.length % k < k)]
    have := Nat.div_add_mod bs.length k
    have h2 : bs.length + (k - bs.length % k) = k * (bs.length / k + 1) := by
      rw [Nat.mul_add, Nat.mul_one]; omega
    rw [h2, Nat.mul_mod_right]

theorem padTo_of_mod {k : Nat} (bs : List Nat) (h : bs.length % k = 0) : padTo k bs = bs := by
  by_cases hk : k = 0
  · simp [padTo, hk]
  · simp [padTo, hk, h]

theorem padTo_lt {k : Nat} (bs : List Nat) (h : ∀ b ∈ bs, b < 256) : ∀ b ∈ padTo k bs, b < 256 := by
  intro b hb
  unfold padTo at hb
  split at hb
  · exact h b hb
  · rcases List.mem_append.1 hb with h1 | h1
    · exact h b h1
    · rw [(List.mem_replicate.1 h1).2]; decide

/-- number of chunks of the padded list is at most the number of bytes -/
theorem padTo_chunks_le {k : Nat} (hk : 0 < k) (bs : List Nat) :
    (padTo k bs).length / k ≤ bs.length := by
  rw [padTo_eq hk, List.length_append, List.length_replicate]
  by_cases h : bs.length % k = 0
  · rw [h, Nat.sub_zero, Nat.mod_self, Nat.add_zero]
    exact Nat.div_le_self _ _
  · have hlt := Nat.mod_lt bs.length hk
    rw [Nat.mod_eq_of_lt (by omega : k - bs.length % k < k)]
    have := Nat.div_add_mod bs.length k
    have h2 : bs.length + (k - bs.length % k) = k * (bs.length / k + 1) := by
      rw [Nat.mul_add, Nat.mul_one]; omega
    rw [h2, Nat.mul_div_cancel_left _ hk]
    have h3 : bs.length / k * 1 ≤ bs.length / k * k := Nat.mul_le_mul_left _ hk
    have h4 : bs.length / k * k = k * (bs.length / k) := Nat.mul_comm _ _
    omega

end E2E

/-- **Byte image, 2 (general form).** The bits of the logical words a reader of word size `W` is
    built from are the bits of the byte image, zero-padded to a whole number of words. -/
theorem e2e_words_of_bytes_padded (e : Endian) {W : Nat} (h8 : 8 ∣ W) (hW : 0 < W) (bytes : List Nat)
    (hb : ∀ b ∈ bytes, b < 256) :
    (wordsOfBytes e W bytes).flatMap (wordBits e) = bitsOfBytes e (padTo (W / 8) bytes) := by
  have hB : 0 < W / 8 := by
    obtain ⟨m, rfl⟩ := h8
    rw [Nat.mul_div_cancel_left m (by omega : 0 < 8)]; omega
  have hmod := padTo_length_mod hB bytes
  have hlen : (padTo (W / 8) bytes).length = (padTo (W / 8) bytes).length / (W / 8) * (W / 8) := by
    have := Nat.div_add_mod (padTo (W / 8) bytes).length (W / 8)
    rw [hmod, Nat.add_zero, Nat.mul_comm] at this
    exact this.symm
  obtain ⟨h1, h2, _⟩ := chunksExact_spec hB _ (padTo (W / 8) bytes) bytes.length hlen
    (padTo_chunks_le hB bytes)
  have hlt := padTo_lt (k := W / 8) bytes hb
  rw [wordsOfBytes_eq]
  generalize (chunksExact (W / 8) (padTo (W / 8) bytes) bytes.length).1 = cs at h1 h2
  rw [← h1, bitsOfBytes_flatten, List.flatMap_map]
  have hmem : ∀ c ∈ cs, ∀ b ∈ c, b < 256 := by
    intro c hc b hbc
    apply hlt
    rw [← h1]
    exact List.mem_flatten.2 ⟨c, hc, hbc⟩
  clear h1
  induction cs with
  | nil => rfl
  | cons c cs ih =>
    rw [List.flatMap_cons, List.flatMap_cons,
      word_of_chunk e h8 c (h2 c (by simp)) (hmem c (by simp)),
      ih (fun c' hc' => h2 c' (by simp [hc'])) (fun c' hc' => hmem c' (by simp [hc']))]

/-- padding the byte image explicitly before building the words changes nothing (`wordsOfBytes`
    pads by itself) -/
theorem e2e_words_padTo (e : Endian) {W : Nat} (h8 : 8 ∣ W) (hW : 0 < W) (bytes : List Nat) :
    wordsOfBytes e W (padTo (W / 8) bytes) = wordsOfBytes e W bytes := by
  have hB : 0 < W / 8 := by
    obtain ⟨m, rfl⟩ := h8
    rw [Nat.mul_div_cancel_left m (by omega : 0 < 8)]; omega
  have hmod := padTo_length_mod hB bytes
  have hlen : (padTo (W / 8) bytes).length = (padTo (W / 8) bytes).length / (W / 8) * (W / 8) := by
    have := Nat.div_add_mod (padTo (W / 8) bytes).length (W / 8)
    rw [hmod, Nat.add_zero, Nat.mul_comm] at this
    exact this.symm
  rw [wordsOfBytes_eq, wordsOfBytes_eq, padTo_of_mod (padTo (W / 8) bytes) hmod]
  congr 1
  refine chunksExact_fuel hB _ _ _ _ hlen ?_ (padTo_chunks_le hB bytes)
  have : 1 ≤ W / 8 := hB
  calc (padTo (W / 8) bytes).length / (W / 8) ≤ (padTo (W / 8) bytes).length / 1 :=
        Nat.div_le_div_left this (by omega)
    _ = (padTo (W / 8) bytes).length := Nat.div_one _

/-- **Byte image, 2.** For a byte image of a whole number of words no padding is involved. -/
theorem e2e_words_of_bytes (e : Endian) {Wr : Nat} (h8 : 8 ∣ Wr) (hW : 0 < Wr) (bytes : List Nat)
    (hb : ∀ b ∈ bytes, b < 256) (hlen : bytes.length % (Wr / 8) = 0) :
    (wordsOfBytes e Wr bytes).flatMap (wordBits e) = bitsOfBytes e bytes := by
  rw [e2e_words_of_bytes_padded e h8 hW bytes hb, padTo_of_mod bytes hlen]

end Dsi
