/-
  Glue 2, part 3: the change-point list of `get_implied_distribution`
  (`FC.impliedChangePoints`: the iterator's outputs taken while `len ≤ 128`).
-/
import Dsi.Props.C20
namespace Dsi
namespace G2
open FC

/-- a change point within reach has a strictly larger value (non-decreasing `f`) -/
theorem step_lt {f : Nat → Nat} (hm : Mono f) {cur x : Nat} (hx : LeastChange f cur x)
    (hr : InReach cur x) : f cur < f x := by
  obtain ⟨j, hj1, hj2⟩ := hr
  have := hm cur x (Nat.le_of_lt hx.1) (by omega)
  have := hx.2.1
  omega

/-- everything in a chain lies strictly after its anchor, with a strictly larger value -/
theorem chain_gt {f : Nat → Nat} (hm : Mono f) {cur : Nat} {items : List (Nat × Nat)}
    (h : ChangeChain f cur items) : ∀ p ∈ items, cur < p.1 ∧ f cur < p.2 := by
  induction h with
  | nil cur => intro p hp; cases hp
  | cons hx hr _ ih =>
    intro p hp
    rcases List.mem_cons.1 hp with rfl | hp
    · exact ⟨hx.1, step_lt hm hx hr⟩
    · have := ih p hp
      have := step_lt hm hx hr
      have := hx.1
      omega

theorem chain_snd {f : Nat → Nat} {cur : Nat} {items : List (Nat × Nat)}
    (h : ChangeChain f cur items) : ∀ p ∈ items, p.2 = f p.1 := by
  induction h with
  | nil cur => intro p hp; cases hp
  | cons _ _ _ ih =>
    intro p hp
    rcases List.mem_cons.1 hp with rfl | hp
    · rfl
    · exact ih p hp

/-- positions and values increase strictly along `(cur, f cur) :: items` -/
theorem chain_pairwise {f : Nat → Nat} (hm : Mono f) {cur : Nat} {items : List (Nat × Nat)}
    (h : ChangeChain f cur items) :
    ((cur, f cur) :: items).Pairwise (fun a b => a.1 < b.1 ∧ a.2 < b.2) := by
  induction h with
  | nil cur => simp
  | cons hx hr hrest ih =>
    refine List.Pairwise.cons ?_ ih
    intro p hp
    exact chain_gt hm (.cons hx hr hrest) p hp

/-- consecutive entries of `(cur, f cur) :: items`: the later one is the least change point after
    the earlier one, within reach of it, and `f` really changes there -/
theorem chain_consecutive {f : Nat → Nat} {cur : Nat} {items : List (Nat × Nat)}
    (h : ChangeChain f cur items) :
    ∀ (i : Nat) (a b : Nat × Nat), ((cur, f cur) :: items)[i]? = some a →
      ((cur, f cur) :: items)[i + 1]? = some b →
      LeastChange f a.1 b.1 ∧ InReach a.1 b.1 ∧ f b.1 ≠ f (b.1 - 1) := by
  induction h with
  | nil cur => intro i a b _ hb; simp at hb
  | cons hx hr hrest ih =>
    rename_i cur x rest
    intro i a b ha hb
    cases i with
    | zero =>
      simp only [List.getElem?_cons_zero, Option.some.injEq, Nat.zero_add, List.getElem?_cons_succ]
        at ha hb
      subst ha; subst hb
      refine ⟨hx, hr, ?_⟩
      have := hx.2.2 (x - 1) (by have := hx.1; omega) (by have := hx.1; omega)
      rw [this]; exact hx.2.1
    | succ j =>
      simp only [List.getElem?_cons_succ] at ha hb
      exact ih j a b ha hb

/-- values grow by at least one per entry: a chain whose values stay `≤ 128` is short -/
theorem chain_short {f : Nat → Nat} (hm : Mono f) {cur : Nat} {items : List (Nat × Nat)}
    (h : ChangeChain f cur items) (hle : ∀ p ∈ items, p.2 ≤ 128) :
    items = [] ∨ f cur + items.length ≤ 128 := by
  induction h with
  | nil cur => exact .inl rfl
  | cons hx hr hrest ih =>
    rename_i cur x rest
    right
    have h1 := step_lt hm hx hr
    have h2 : f x ≤ 128 := hle (x, f x) (by simp)
    rcases ih (fun p hp => hle p (by simp [hp])) with h | h
    · subst h; simp; omega
    · simp only [List.length_cons]; omega

/-- why the list stops at `cur`: no further change point within reach, or the next one has a
    length above 128 -/
def Stops (f : Nat → Nat) (cur : Nat) : Prop :=
  (¬ ∃ x, LeastChange f cur x ∧ InReach cur x) ∨
  (∃ x, LeastChange f cur x ∧ InReach cur x ∧ 128 < f x)

/-- the loop of `get_implied_distribution` after the first item: it runs out of fuel only on a
    chain of `fuel` items with lengths `≤ 128`; otherwise it returns a chain of consecutive least
    change points with lengths `≤ 128` and stops for one of the two reasons of `Stops` -/
theorem impliedCollect_spec {f : Nat → Nat} (hm : Mono f) :
    ∀ (fuel : Nat) (s : FC) (acc : List (Nat × Nat)), Started f s →
      (impliedCollect f fuel s acc = .err .other ∧
        ∃ items, ChangeChain f s.current items ∧ items.length = fuel ∧ ∀ p ∈ items, p.2 ≤ 128) ∨
      (∃ items, impliedCollect f fuel s acc = .ok (acc.reverse ++ items) ∧
        ChangeChain f s.current items ∧ (∀ p ∈ items, p.2 ≤ 128) ∧ items.length < fuel ∧
        Stops f (lastPoint s.current items)) := by
  intro fuel
  induction fuel with
  | zero =>
    intro s acc _
    exact .inl ⟨rfl, [], .nil _, rfl, fun p hp => by cases hp⟩
  | succ fuel ih =>
    intro s acc hs
    rcases next_started hm hs with ⟨x, hx, hr, hn, hst⟩ | ⟨hno, hn⟩
    · by_cases h128 : f x ≤ 128
      · have hstep : impliedCollect f (fuel + 1) s acc =
            impliedCollect f fuel { current := x, prev := some (f x) } ((x, f x) :: acc) := by
          simp only [impliedCollect, hn, h128, if_true]
        rcases ih { current := x, prev := some (f x) } ((x, f x) :: acc) hst with
          ⟨he, items, hch, hl, hle⟩ | ⟨items, hc, hch, hle, hl, hstop⟩
        · left
          refine ⟨by rw [hstep, he], (x, f x) :: items, .cons hx hr hch, by simp [hl], ?_⟩
          intro p hp
          rcases List.mem_cons.1 hp with rfl | hp
          · exact h128
          · exact hle p hp
        · right
          refine ⟨(x, f x) :: items, ?_, .cons hx hr hch, ?_, by simp only [List.length_cons]; omega, ?_⟩
          · rw [hstep, hc]; simp
          · intro p hp
            rcases List.mem_cons.1 hp with rfl | hp
            · exact h128
            · exact hle p hp
          · rw [lastPoint_cons]; exact hstop
      · right
        refine ⟨[], ?_, .nil _, fun p hp => (by cases hp), by simp, ?_⟩
        · simp only [impliedCollect, hn, h128, if_false, List.append_nil]
        · exact .inr ⟨x, by simpa [lastPoint] using hx, by simpa [lastPoint] using hr,
            by omega⟩
    · right
      refine ⟨[], ?_, .nil _, fun p hp => (by cases hp), by simp, ?_⟩
      · simp only [impliedCollect, hn, List.append_nil]
      · exact .inl (by simpa [lastPoint] using hno)

/-- the specification of the list `get_implied_distribution` builds -/
structure ImpliedSpec (f : Nat → Nat) (l : List (Nat × Nat)) : Prop where
  /-- nothing at all if already `f 0 > 128` -/
  empty : 128 < f 0 → l = []
  /-- otherwise the list starts with `(0, f 0)` -/
  head : f 0 ≤ 128 → l.head? = some (0, f 0)
  /-- every entry is `(x, f x)` with `f x ≤ 128` -/
  entries : ∀ p ∈ l, p.2 = f p.1 ∧ p.2 ≤ 128
  /-- positions (and values) increase strictly -/
  increasing : l.Pairwise (fun a b => a.1 < b.1 ∧ a.2 < b.2)
  /-- every later entry is the least change point after its predecessor (within reach of the
      search), and `f` changes exactly there -/
  consecutive : ∀ (i : Nat) (a b : Nat × Nat), l[i]? = some a → l[i + 1]? = some b →
    LeastChange f a.1 b.1 ∧ InReach a.1 b.1 ∧ f b.1 ≠ f (b.1 - 1)
  /-- at most 129 entries (lengths `0 … 128`) -/
  short : l.length ≤ 129
  /-- nothing is missing at the end: after the last entry no change point is within reach, or
      the next one has a length above 128 -/
  complete : f 0 ≤ 128 → Stops f (lastPoint 0 l)

/-- for every fuel: either the fuel ran out (`err other`, only when `fuel < 130`), or the list
    satisfies the specification -/
theorem impliedChangePoints_spec {f : Nat → Nat} (hm : Mono f) (fuel : Nat) :
    (impliedChangePoints f fuel = .err .other ∧ fuel < 130) ∨
    (∃ l, impliedChangePoints f fuel = .ok l ∧ ImpliedSpec f l) := by
  cases fuel with
  | zero => exact .inl ⟨rfl, by omega⟩
  | succ n =>
    by_cases h0 : f 0 ≤ 128
    · have hstep : impliedChangePoints f (n + 1) =
          impliedCollect f n { current := 0, prev := some (f 0) } [(0, f 0)] := by
        simp only [impliedChangePoints, impliedCollect, next_first, h0, if_true]
      rcases impliedCollect_spec hm n { current := 0, prev := some (f 0) } [(0, f 0)]
          (started_first f) with ⟨he, items, hch, hl, hle⟩ | ⟨items, hc, hch, hle, hl, hstop⟩
      · left
        refine ⟨by rw [hstep, he], ?_⟩
        rcases chain_short hm hch hle with h | h
        · subst h; simp at hl; omega
        · simp only at h; omega
      · right
        refine ⟨(0, f 0) :: items, by rw [hstep, hc]; simp, ?_⟩
        have hpw := chain_pairwise hm hch
        refine ⟨fun h => by omega, fun _ => rfl, ?_, hpw, chain_consecutive hch, ?_, ?_⟩
        · intro p hp
          rcases List.mem_cons.1 hp with rfl | hp
          · exact ⟨rfl, h0⟩
          · exact ⟨chain_snd hch p hp, hle p hp⟩
        · rcases chain_short hm hch hle with h | h
          · subst h; simp
          · simp only at h; simp only [List.length_cons]; omega
        · intro _
          rw [lastPoint_cons]; exact hstop
    · right
      refine ⟨[], ?_, fun _ => rfl, fun h => absurd h h0, fun p hp => (by cases hp), by simp,
        fun i a b ha => (by simp at ha), by simp, fun h => absurd h h0⟩
      simp only [impliedChangePoints, impliedCollect, next_first, h0, if_false, List.reverse_nil]

/-! ### the list is the iterator's output taken while `len ≤ 128` -/

theorem impliedCollect_takeWhile {f : Nat → Nat} (hm : Mono f) :
    ∀ (fuel : Nat) (s : FC) (acc acc' : List (Nat × Nat)) (l : List (Nat × Nat)), Started f s →
      impliedCollect f fuel s acc = .ok l →
      ∃ items ended, collect f fuel s acc' = .ok (acc'.reverse ++ items, ended) ∧
        l = acc.reverse ++ items.takeWhile (fun p => decide (p.2 ≤ 128)) := by
  intro fuel
  induction fuel with
  | zero => intro s acc acc' l _ h; cases h
  | succ fuel ih =>
    intro s acc acc' l hs h
    rcases next_started hm hs with ⟨x, hx, hr, hn, hst⟩ | ⟨hno, hn⟩
    · by_cases h128 : f x ≤ 128
      · simp only [impliedCollect, hn, h128, if_true] at h
        obtain ⟨items, ended, hc, hl⟩ := ih _ _ ((x, f x) :: acc') l hst h
        refine ⟨(x, f x) :: items, ended, ?_, ?_⟩
        · simp only [collect, hn, hc]; simp
        · rw [hl]; simp [h128]
      · simp only [impliedCollect, hn, h128, if_false, Res.ok.injEq] at h
        obtain ⟨items, ended, hc, _⟩ := collect_spec hm fuel _ ((x, f x) :: acc') hst
        refine ⟨(x, f x) :: items, ended, ?_, ?_⟩
        · simp only [collect, hn, hc]; simp
        · rw [← h]; simp [h128]
    · simp only [impliedCollect, hn, Res.ok.injEq] at h
      exact ⟨[], true, by simp [collect, hn], by simp [← h]⟩

/-- `get_implied_distribution`'s list is `FindChangePoints`' output (same number of calls)
    cut at the first item whose length exceeds 128 -/
theorem impliedChangePoints_takeWhile {f : Nat → Nat} (hm : Mono f) (fuel : Nat)
    (l : List (Nat × Nat)) (h : impliedChangePoints f fuel = .ok l) :
    ∃ items ended, changePoints f fuel = .ok (items, ended) ∧
      l = items.takeWhile (fun p => decide (p.2 ≤ 128)) := by
  cases fuel with
  | zero => cases h
  | succ n =>
    by_cases h0 : f 0 ≤ 128
    · simp only [impliedChangePoints, impliedCollect, next_first, h0, if_true] at h
      obtain ⟨items, ended, hc, hl⟩ := impliedCollect_takeWhile hm n _ _ [(0, f 0)] l (started_first f) h
      refine ⟨(0, f 0) :: items, ended, ?_, ?_⟩
      · simp only [changePoints, collect, next_first, hc]; simp
      · rw [hl]; simp [h0]
    · simp only [impliedChangePoints, impliedCollect, next_first, h0, if_false, List.reverse_nil,
        Res.ok.injEq] at h
      obtain ⟨items, ended, hc, _⟩ := collect_spec hm n _ [(0, f 0)] (started_first f)
      refine ⟨(0, f 0) :: items, ended, ?_, ?_⟩
      · simp only [changePoints, collect, next_first, hc]; simp
      · rw [← h]; simp [h0]

end G2
end Dsi
