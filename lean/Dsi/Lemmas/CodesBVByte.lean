/-
  VByte: the byte lists produced by the implemented loops against the published definition
  (`Spec.vbyteBytes`), the byte-level readers (`Dsi.VByteIO`), the bit-stream readers/writers,
  and completeness (every accepted string is the encoding of its value).
-/
import Dsi.Lemmas.CodesBFrame
import Dsi.Spec
import Dsi.VByteIO
namespace Dsi.CodesB
open Dsi

/-! ### offsets and lengths -/

theorem off_succ (k : Nat) : Spec.vbyteOffset (k + 1) = 128 * (Spec.vbyteOffset k + 1) := by
  induction k with
  | zero => simp [Spec.vbyteOffset]
  | succ k ih =>
    show Spec.vbyteOffset (k + 1) + 2 ^ (7 * (k + 1 + 1)) = _
    have h2 : Spec.vbyteOffset (k + 1) = Spec.vbyteOffset k + 2 ^ (7 * (k + 1)) := rfl
    have : 2 ^ (7 * (k + 1 + 1)) = 128 * 2 ^ (7 * (k + 1)) := by
      rw [show 7 * (k + 1 + 1) = 7 + 7 * (k + 1) by omega, Nat.pow_add]
    omega

theorem off_mono (k : Nat) : Spec.vbyteOffset k < Spec.vbyteOffset (k + 1) := by
  rw [off_succ]; omega

theorem off_vals : Spec.vbyteOffset 0 = 0 ∧ Spec.vbyteOffset 1 = 128 ∧
    Spec.vbyteOffset 2 = 16512 ∧ Spec.vbyteOffset 3 = 2113664 ∧ Spec.vbyteOffset 4 = 270549120 ∧
    Spec.vbyteOffset 5 = 34630287488 ∧ Spec.vbyteOffset 6 = 4432676798592 ∧
    Spec.vbyteOffset 7 = 567382630219904 ∧ Spec.vbyteOffset 8 = 72624976668147840 ∧
    Spec.vbyteOffset 9 = 9295997013522923648 ∧ Spec.vbyteOffset 10 = 1189887617730934227072 ∧
    Spec.vbyteOffset 11 = 152305615069559581065344 := by
  simp [Spec.vbyteOffset]

theorem range11 : List.range 11 = [0, 1, 2, 3, 4, 5, 6, 7, 8, 9, 10] := by decide

/-- `Spec.vbyteLen` as an explicit step function -/
theorem vbyteLen_eq (v : Nat) : Spec.vbyteLen v =
    if v < 128 then 1 else if v < 16512 then 2 else if v < 2113664 then 3
    else if v < 270549120 then 4 else if v < 34630287488 then 5
    else if v < 4432676798592 then 6 else if v < 567382630219904 then 7
    else if v < 72624976668147840 then 8 else if v < 9295997013522923648 then 9
    else if v < 1189887617730934227072 then 10
    else 11 := by
  obtain ⟨h0, h1, h2, h3, h4, h5, h6, h7, h8, h9, h10, h11⟩ := off_vals
  unfold Spec.vbyteLen
  rw [range11]
  simp only [List.find?_cons, h1, h2, h3, h4, h5, h6, h7, h8, h9, h10, h11, Nat.zero_add,
    Nat.reduceAdd]
  by_cases c0 : v < 128
  · simp [c0]
  by_cases c1 : v < 16512
  · simp [c0, c1]
  by_cases c2 : v < 2113664
  · simp [c0, c1, c2]
  by_cases c3 : v < 270549120
  · simp [c0, c1, c2, c3]
  by_cases c4 : v < 34630287488
  · simp [c0, c1, c2, c3, c4]
  by_cases c5 : v < 4432676798592
  · simp [c0, c1, c2, c3, c4, c5]
  by_cases c6 : v < 567382630219904
  · simp [c0, c1, c2, c3, c4, c5, c6]
  by_cases c7 : v < 72624976668147840
  · simp [c0, c1, c2, c3, c4, c5, c6, c7]
  by_cases c8 : v < 9295997013522923648
  · simp [c0, c1, c2, c3, c4, c5, c6, c7, c8]
  by_cases c9 : v < 1189887617730934227072
  · simp [c0, c1, c2, c3, c4, c5, c6, c7, c8, c9]
  by_cases c10 : v < 152305615069559581065344
  · simp [c0, c1, c2, c3, c4, c5, c6, c7, c8, c9, c10]
  · simp [c0, c1, c2, c3, c4, c5, c6, c7, c8, c9, c10]

/-- every `v < 2^64` is `offset k + r` with `k + 1 = vbyteLen v ≤ 10` and `r < 128^(k+1)` -/
theorem vbyteLen_decomp (v : Nat) (hv : v < 2 ^ 64) :
    ∃ k r, Spec.vbyteLen v = k + 1 ∧ k ≤ 9 ∧ v = Spec.vbyteOffset k + r ∧ r < 128 ^ (k + 1) := by
  obtain ⟨h0, h1, h2, h3, h4, h5, h6, h7, h8, h9, h10, h11⟩ := off_vals
  rw [vbyteLen_eq]
  by_cases c0 : v < 128
  · refine ⟨0, v - 0, by simp [c0], by omega, by rw [h0]; omega, ?_⟩
    have := (by decide : (128 : Nat) ^ (0 + 1) = 128)
    omega
  by_cases c1 : v < 16512
  · refine ⟨1, v - 128, by simp [c0, c1], by omega, by rw [h1]; omega, ?_⟩
    have := (by decide : (128 : Nat) ^ (1 + 1) = 16384)
    omega
  by_cases c2 : v < 2113664
  · refine ⟨2, v - 16512, by simp [c0, c1, c2], by omega, by rw [h2]; omega, ?_⟩
    have := (by decide : (128 : Nat) ^ (2 + 1) = 2097152)
    omega
  by_cases c3 : v < 270549120
  · refine ⟨3, v - 2113664, by simp [c0, c1, c2, c3], by omega, by rw [h3]; omega, ?_⟩
    have := (by decide : (128 : Nat) ^ (3 + 1) = 268435456)
    omega
  by_cases c4 : v < 34630287488
  · refine ⟨4, v - 270549120, by simp [c0, c1, c2, c3, c4], by omega, by rw [h4]; omega, ?_⟩
    have := (by decide : (128 : Nat) ^ (4 + 1) = 34359738368)
    omega
  by_cases c5 : v < 4432676798592
  · refine ⟨5, v - 34630287488, by simp [c0, c1, c2, c3, c4, c5], by omega, by rw [h5]; omega, ?_⟩
    have := (by decide : (128 : Nat) ^ (5 + 1) = 4398046511104)
    omega
  by_cases c6 : v < 567382630219904
  · refine ⟨6, v - 4432676798592, by simp [c0, c1, c2, c3, c4, c5, c6], by omega, by rw [h6]; omega, ?_⟩
    have := (by decide : (128 : Nat) ^ (6 + 1) = 562949953421312)
    omega
  by_cases c7 : v < 72624976668147840
  · refine ⟨7, v - 567382630219904, by simp [c0, c1, c2, c3, c4, c5, c6, c7], by omega, by rw [h7]; omega, ?_⟩
    have := (by decide : (128 : Nat) ^ (7 + 1) = 72057594037927936)
    omega
  by_cases c8 : v < 9295997013522923648
  · refine ⟨8, v - 72624976668147840, by simp [c0, c1, c2, c3, c4, c5, c6, c7, c8], by omega, by rw [h8]; omega, ?_⟩
    have := (by decide : (128 : Nat) ^ (8 + 1) = 9223372036854775808)
    omega
  have c9 : v < 1189887617730934227072 := by omega
  refine ⟨9, v - 9295997013522923648, by simp [c0, c1, c2, c3, c4, c5, c6, c7, c8, c9], by omega, by rw [h9]; omega, ?_⟩
  have := (by decide : (128 : Nat) ^ (9 + 1) = 1180591620717411303424)
  omega

/-! ### the published byte list in closed form -/

theorem spec_bytes_le (v k r : Nat) (hlen : Spec.vbyteLen v = k + 1)
    (hv : v = Spec.vbyteOffset k + r) :
    Spec.vbyteBytes false v
      = (List.range (k + 1)).map fun i => r / 128 ^ i % 128 + (if i + 1 < k + 1 then 128 else 0) := by
  have hr : v - Spec.vbyteOffset k = r := by omega
  unfold Spec.vbyteBytes
  simp only [hlen, Nat.add_sub_cancel, hr]
  apply List.map_congr_left
  intro i hi
  have hi' : i < k + 1 := by simpa using hi
  simp [hi']

theorem spec_bytes_be (v k r : Nat) (hlen : Spec.vbyteLen v = k + 1)
    (hv : v = Spec.vbyteOffset k + r) :
    Spec.vbyteBytes true v
      = (List.range (k + 1)).map fun i =>
          r / 128 ^ (k - i) % 128 + (if i + 1 < k + 1 then 128 else 0) := by
  have hr : v - Spec.vbyteOffset k = r := by omega
  unfold Spec.vbyteBytes
  simp only [hlen, Nat.add_sub_cancel, hr]
  apply List.map_congr_left
  intro i hi
  have hi' : i < k + 1 := by simpa using hi
  simp [hi', List.getD_eq_getElem?_getD]

/-! ### the implemented loops in closed form -/

theorem leLoop_closed (k : Nat) : ∀ fuel r, r < 128 ^ (k + 1) → k + 1 ≤ fuel →
    vbyteLeBytesLoop fuel (Spec.vbyteOffset k + r)
      = (List.range (k + 1)).map fun i => r / 128 ^ i % 128 + (if i + 1 < k + 1 then 128 else 0) := by
  induction k with
  | zero =>
    intro fuel r hr hf
    obtain ⟨f, rfl⟩ : ∃ f, fuel = f + 1 := ⟨fuel - 1, by omega⟩
    have h0 : (Spec.vbyteOffset 0 + r) / 128 = 0 := by simp [Spec.vbyteOffset]; omega
    simp only [vbyteLeBytesLoop, h0]
    simp [Spec.vbyteOffset, List.range_succ]
  | succ k ih =>
    intro fuel r hr hf
    obtain ⟨f, rfl⟩ : ∃ f, fuel = f + 1 := ⟨fuel - 1, by omega⟩
    have hdiv : (Spec.vbyteOffset (k + 1) + r) / 128 = Spec.vbyteOffset k + 1 + r / 128 := by
      rw [off_succ]; omega
    have hmod : (Spec.vbyteOffset (k + 1) + r) % 128 = r % 128 := by
      rw [off_succ]; omega
    have hr' : r / 128 < 128 ^ (k + 1) := by
      rw [Nat.div_lt_iff_lt_mul (by omega), ← Nat.pow_succ]; exact hr
    simp only [vbyteLeBytesLoop, hdiv, hmod]
    rw [if_pos (by omega), show Spec.vbyteOffset k + 1 + r / 128 - 1 = Spec.vbyteOffset k + r / 128 by omega,
      ih f (r / 128) hr' (by omega), List.range_succ_eq_map (n := k + 1), List.map_cons, List.map_map]
    congr 1
    · simp
    · apply List.map_congr_left
      intro i _
      simp only [Function.comp, Nat.succ_eq_add_one, Nat.add_lt_add_iff_right, Nat.pow_succ',
        Nat.div_div_eq_div_mul]

theorem beLoop_closed (k : Nat) : ∀ fuel r acc, r < 128 ^ (k + 1) → k + 1 ≤ fuel →
    vbyteBeBytesLoop fuel (Spec.vbyteOffset k + r + 1) acc
      = ((List.range (k + 1)).map fun i => r / 128 ^ (k - i) % 128 + 128) ++ acc := by
  induction k with
  | zero =>
    intro fuel r acc hr hf
    obtain ⟨f, rfl⟩ : ∃ f, fuel = f + 1 := ⟨fuel - 1, by omega⟩
    have h0 : r / 128 = 0 := by omega
    have h1 : r % 128 = r := by omega
    simp only [vbyteBeBytesLoop, Spec.vbyteOffset, Nat.zero_add, Nat.add_sub_cancel, h0]
    rw [if_neg (by omega)]
    cases f <;> simp [vbyteBeBytesLoop, List.range_succ, h1, Nat.add_comm]
  | succ k ih =>
    intro fuel r acc hr hf
    obtain ⟨f, rfl⟩ : ∃ f, fuel = f + 1 := ⟨fuel - 1, by omega⟩
    have hdiv : (Spec.vbyteOffset (k + 1) + r) / 128 = Spec.vbyteOffset k + r / 128 + 1 := by
      rw [off_succ]; omega
    have hmod : (Spec.vbyteOffset (k + 1) + r) % 128 = r % 128 := by
      rw [off_succ]; omega
    have hr' : r / 128 < 128 ^ (k + 1) := by
      rw [Nat.div_lt_iff_lt_mul (by omega), ← Nat.pow_succ]; exact hr
    simp only [vbyteBeBytesLoop, Nat.add_sub_cancel, hdiv, hmod]
    rw [if_neg (by omega), ih f (r / 128) _ hr' (by omega), List.range_succ (n := k + 1),
      List.map_append, List.append_assoc]
    congr 1
    · apply List.map_congr_left
      intro i hi
      have hi' : i < k + 1 := by simpa using hi
      rw [show k + 1 - i = (k - i) + 1 by omega, Nat.pow_succ', Nat.div_div_eq_div_mul]
    · simp [Nat.add_comm]

/-- C: the implemented LE byte list is the published one -/
theorem vbyteLeBytes_spec (v : Nat) (hv : v < 2 ^ 64) : vbyteLeBytes v = Spec.vbyteBytes false v := by
  obtain ⟨k, r, hlen, hk, hvr, hr⟩ := vbyteLen_decomp v hv
  rw [spec_bytes_le v k r hlen hvr, vbyteLeBytes, hvr, leLoop_closed k 10 r hr (by omega)]

/-- C: the implemented BE byte list is the published one -/
theorem vbyteBeBytes_spec (v : Nat) (hv : v < 2 ^ 64) : vbyteBeBytes v = Spec.vbyteBytes true v := by
  obtain ⟨k, r, hlen, hk, hvr, hr⟩ := vbyteLen_decomp v hv
  rw [spec_bytes_be v k r hlen hvr, vbyteBeBytes, hvr]
  cases k with
  | zero =>
    have h0 : (Spec.vbyteOffset 0 + r) / 128 = 0 := by simp [Spec.vbyteOffset]; omega
    have h1 : r % 128 = r := by omega
    rw [h0]
    simp [vbyteBeBytesLoop, Spec.vbyteOffset, List.range_succ, h1]
  | succ k =>
    have hdiv : (Spec.vbyteOffset (k + 1) + r) / 128 = Spec.vbyteOffset k + r / 128 + 1 := by
      rw [off_succ]; omega
    have hmod : (Spec.vbyteOffset (k + 1) + r) % 128 = r % 128 := by
      rw [off_succ]; omega
    have hr' : r / 128 < 128 ^ (k + 1) := by
      rw [Nat.div_lt_iff_lt_mul (by omega), ← Nat.pow_succ]; exact hr
    rw [hdiv, hmod, beLoop_closed k 10 (r / 128) _ hr' (by omega), List.range_succ (n := k + 1),
      List.map_append]
    congr 1
    · apply List.map_congr_left
      intro i hi
      have hi' : i < k + 1 := by simpa using hi
      rw [show k + 1 - i = (k - i) + 1 by omega, Nat.pow_succ', Nat.div_div_eq_div_mul]
      simp [hi']
    · simp

/-! ### terminated strings and their (unbounded) values -/

/-- terminated byte string: non-empty, every byte except the last has its top bit set
    (`b / 128 ≠ 0`), the last has not -/
def Term : List Nat → Prop
  | [] => False
  | [l] => l / 128 = 0
  | b :: c :: cs => b / 128 ≠ 0 ∧ Term (c :: cs)

/-- mathematical (unbounded, non-wrapping) value of a big-endian VByte string:
    `value = b₀ & 0x7F`, then `value = (value + 1) * 128 + (b & 0x7F)` for every further byte -/
def vbyteValBe : List Nat → Nat
  | [] => 0
  | b :: bs => bs.foldl (fun v x => (v + 1) * 128 + x % 128) (b % 128)

/-- mathematical (unbounded, non-wrapping) value of a little-endian VByte string:
    the low 7 bits, plus 128 × (value of the rest, plus one when the continuation bit is set) -/
def vbyteValLe : List Nat → Nat
  | [] => 0
  | b :: bs => b % 128 + 128 * (vbyteValLe bs + (if b / 128 = 0 then 0 else 1))

theorem term_cons {b : Nat} {t : List Nat} (hb : b / 128 ≠ 0) (ht : Term t) : Term (b :: t) := by
  cases t with
  | nil => exact ht.elim
  | cons c cs => exact ⟨hb, ht⟩

theorem term_snoc (xs : List Nat) (l : Nat) (hx : ∀ x ∈ xs, x / 128 ≠ 0) (hl : l / 128 = 0) :
    Term (xs ++ [l]) := by
  induction xs with
  | nil => exact hl
  | cons x xs ih =>
    exact term_cons (hx x (by simp)) (ih fun y hy => hx y (by simp [hy]))

theorem term_snoc_inv : ∀ (s : List Nat), Term s →
    ∃ xs l, s = xs ++ [l] ∧ (∀ x ∈ xs, x / 128 ≠ 0) ∧ l / 128 = 0 := by
  intro s
  induction s with
  | nil => intro h; exact h.elim
  | cons b t ih =>
    intro h
    cases t with
    | nil => exact ⟨[], b, rfl, by simp, h⟩
    | cons c cs =>
      obtain ⟨xs, l, he, hx, hl⟩ := ih h.2
      refine ⟨b :: xs, l, by simp [he], ?_, hl⟩
      intro x hxm
      rcases List.mem_cons.1 hxm with rfl | hm
      · exact h.1
      · exact hx x hm

theorem shl64_of_lt {a k : Nat} (h : a * 2 ^ k < 2 ^ 64) : shl64 a k = a * 2 ^ k :=
  Nat.mod_eq_of_lt h

/-! ### big-endian byte-level reader -/

theorem foldl_gBe_ge (bs : List Nat) (v : Nat) :
    v ≤ bs.foldl (fun v x => (v + 1) * 128 + x % 128) v := by
  induction bs generalizing v with
  | nil => exact Nat.le_refl _
  | cons b bs ih =>
    simp only [List.foldl_cons]
    exact Nat.le_trans (by omega) (ih _)

theorem readBeLoop_ok : ∀ (bs : List Nat) (fuel value byte : Nat) (rest : List Nat),
    Term (byte :: bs) → bs.length + 1 ≤ fuel →
    bs.foldl (fun v x => (v + 1) * 128 + x % 128) value < 2 ^ 64 →
    vbyteReadBeLoop fuel value byte (bs ++ rest)
      = .ok (bs.foldl (fun v x => (v + 1) * 128 + x % 128) value, rest) := by
  intro bs
  induction bs with
  | nil =>
    intro fuel value byte rest ht hf _
    obtain ⟨f, rfl⟩ : ∃ f, fuel = f + 1 := ⟨fuel - 1, by omega⟩
    have ht' : byte / 128 = 0 := ht
    simp [vbyteReadBeLoop, ht']
  | cons b bs ih =>
    intro fuel value byte rest ht hf hb
    obtain ⟨f, rfl⟩ : ∃ f, fuel = f + 1 := ⟨fuel - 1, by simp at hf; omega⟩
    have hne : byte / 128 ≠ 0 := ht.1
    simp only [List.foldl_cons] at hb ⊢
    have hge := foldl_gBe_ge bs ((value + 1) * 128 + b % 128)
    have hsh : shl64 (value + 1) 7 = (value + 1) * 128 := shl64_of_lt (by omega)
    simp only [vbyteReadBeLoop, List.cons_append]
    rw [if_neg hne, if_neg (by omega), hsh]
    exact ih f _ b rest ht.2 (by simp at hf; omega) hb

theorem readBeLoop_inv : ∀ (fuel value byte : Nat) (bs : List Nat) (w : Nat),
    vbyteReadBeLoop fuel value byte bs = .ok (w, []) → Term (byte :: bs) := by
  intro fuel
  induction fuel with
  | zero => intro value byte bs w h; simp [vbyteReadBeLoop] at h
  | succ f ih =>
    intro value byte bs w h
    simp only [vbyteReadBeLoop] at h
    by_cases h0 : byte / 128 = 0
    · rw [if_pos h0] at h
      injection h with h
      have : bs = [] := (Prod.mk.inj h).2
      subst this
      exact h0
    · rw [if_neg h0] at h
      by_cases h1 : value + 1 ≥ 2 ^ 64
      · rw [if_pos h1] at h; cases h
      · rw [if_neg h1] at h
        cases bs with
        | nil => cases h
        | cons b rest' => exact ⟨h0, ih _ _ _ _ h⟩

theorem vbyteReadBe_ok (s rest : List Nat) (ht : Term s) (hv : vbyteValBe s < 2 ^ 64) :
    vbyteReadBe (s ++ rest) = .ok (vbyteValBe s, rest) := by
  cases s with
  | nil => exact ht.elim
  | cons b bs =>
    simp only [vbyteReadBe, List.cons_append]
    exact readBeLoop_ok bs _ (b % 128) b rest ht (by simp) hv

theorem vbyteReadBe_inv (s : List Nat) (w : Nat) (h : vbyteReadBe s = .ok (w, [])) : Term s := by
  cases s with
  | nil => simp [vbyteReadBe] at h
  | cons b bs => exact readBeLoop_inv _ _ _ _ _ h

/-! ### big-endian encoder -/

/-- `value + 1` after a run of continuation bytes -/
def contBe (xs : List Nat) : Nat := xs.foldl (fun c x => c * 128 + x % 128 + 1) 0

theorem contBe_snoc (xs : List Nat) (y : Nat) :
    contBe (xs ++ [y]) = contBe xs * 128 + y % 128 + 1 := by
  simp [contBe, List.foldl_append]

theorem foldl_stepC (bs : List Nat) (v : Nat) :
    bs.foldl (fun c x => c * 128 + x % 128 + 1) (v + 1)
      = bs.foldl (fun v x => (v + 1) * 128 + x % 128) v + 1 := by
  induction bs generalizing v with
  | nil => rfl
  | cons b bs ih => simp only [List.foldl_cons]; exact ih _

theorem valBe_snoc (xs : List Nat) (l : Nat) :
    vbyteValBe (xs ++ [l]) = contBe xs * 128 + l % 128 := by
  cases xs with
  | nil => simp [vbyteValBe, contBe]
  | cons x xs =>
    simp only [List.cons_append, vbyteValBe, List.foldl_append, List.foldl_cons, List.foldl_nil,
      contBe]
    rw [show 0 * 128 + x % 128 + 1 = x % 128 + 1 by omega, foldl_stepC]

theorem beLoop_acc : ∀ (fuel u : Nat) (acc : List Nat),
    vbyteBeBytesLoop fuel u acc = vbyteBeBytesLoop fuel u [] ++ acc := by
  intro fuel
  induction fuel with
  | zero => intro u acc; simp [vbyteBeBytesLoop]
  | succ f ih =>
    intro u acc
    simp only [vbyteBeBytesLoop]
    by_cases h : u = 0
    · simp [h]
    · rw [if_neg h, if_neg h, ih _ (_ :: acc), ih _ [_]]
      simp

theorem beLoop_succ (f u : Nat) (h : u ≠ 0) :
    vbyteBeBytesLoop (f + 1) u []
      = vbyteBeBytesLoop f ((u - 1) / 128) [] ++ [128 + (u - 1) % 128] := by
  simp only [vbyteBeBytesLoop]
  rw [if_neg h, beLoop_acc]

theorem beLoop_zero (f : Nat) : vbyteBeBytesLoop f 0 [] = [] := by
  cases f <;> simp [vbyteBeBytesLoop]

theorem vbyteBeBytes_eq (v : Nat) :
    vbyteBeBytes v = vbyteBeBytesLoop 10 (v / 128) [] ++ [v % 128] := by
  rw [vbyteBeBytes, beLoop_acc]

theorem beLoop_range : ∀ (fuel u : Nat), ∀ x ∈ vbyteBeBytesLoop fuel u [], 128 ≤ x ∧ x < 256 := by
  intro fuel
  induction fuel with
  | zero => intro u x hx; simp [vbyteBeBytesLoop] at hx
  | succ f ih =>
    intro u x hx
    by_cases h : u = 0
    · subst h; rw [beLoop_zero] at hx; simp at hx
    · rw [beLoop_succ f u h] at hx
      rcases List.mem_append.1 hx with hm | hm
      · exact ih _ x hm
      · have : x = 128 + (u - 1) % 128 := by simpa using hm
        omega

theorem beLoop_cont : ∀ (fuel u : Nat), u < 128 ^ fuel →
    contBe (vbyteBeBytesLoop fuel u []) = u := by
  intro fuel
  induction fuel with
  | zero => intro u hu; have : u = 0 := by simpa using hu
            subst this; rfl
  | succ f ih =>
    intro u hu
    by_cases h : u = 0
    · subst h; rw [beLoop_zero]; rfl
    · have hu' : (u - 1) / 128 < 128 ^ f := by
        rw [Nat.div_lt_iff_lt_mul (by omega), ← Nat.pow_succ]; omega
      rw [beLoop_succ f u h, contBe_snoc, ih _ hu']
      omega

/-- encoding the value of a run of continuation bytes gives the run back -/
theorem beLoop_complete : ∀ (n : Nat) (xs : List Nat) (fuel : Nat), xs.length = n →
    (∀ x ∈ xs, 128 ≤ x ∧ x < 256) → n ≤ fuel → vbyteBeBytesLoop fuel (contBe xs) [] = xs := by
  intro n
  induction n with
  | zero =>
    intro xs fuel hl _ _
    have : xs = [] := List.eq_nil_of_length_eq_zero hl
    subst this
    exact beLoop_zero fuel
  | succ n ih =>
    intro xs fuel hl hx hf
    obtain ⟨f, rfl⟩ : ∃ f, fuel = f + 1 := ⟨fuel - 1, by omega⟩
    have hne : xs ≠ [] := by intro h; subst h; simp at hl
    obtain ⟨ys, y, rfl⟩ : ∃ ys y, xs = ys ++ [y] :=
      ⟨xs.dropLast, xs.getLast hne, (List.dropLast_concat_getLast hne).symm⟩
    have hy := hx y (by simp)
    have hlen : ys.length = n := by simpa using hl
    rw [contBe_snoc, beLoop_succ f _ (by omega)]
    have h1 : (contBe ys * 128 + y % 128 + 1 - 1) / 128 = contBe ys := by omega
    have h2 : 128 + (contBe ys * 128 + y % 128 + 1 - 1) % 128 = y := by omega
    rw [h1, h2, ih ys f hlen (fun x hm => hx x (by simp [hm])) (by omega)]

/-! ### bounds: a terminated string of `k` bytes has value in `[offset (k-1), offset k)` -/

theorem off_le {a b : Nat} (h : a ≤ b) : Spec.vbyteOffset a ≤ Spec.vbyteOffset b := by
  induction b with
  | zero => have : a = 0 := by omega
            subst this; exact Nat.le_refl _
  | succ b ih =>
    by_cases hab : a = b + 1
    · subst hab; exact Nat.le_refl _
    · exact Nat.le_trans (ih (by omega)) (Nat.le_of_lt (off_mono b))

theorem foldl_gBe_bounds (bs : List Nat) (v j : Nat)
    (hlo : Spec.vbyteOffset j ≤ v) (hhi : v < Spec.vbyteOffset (j + 1)) :
    Spec.vbyteOffset (j + bs.length) ≤ bs.foldl (fun v x => (v + 1) * 128 + x % 128) v ∧
    bs.foldl (fun v x => (v + 1) * 128 + x % 128) v < Spec.vbyteOffset (j + bs.length + 1) := by
  induction bs generalizing v j with
  | nil => exact ⟨hlo, hhi⟩
  | cons b bs ih =>
    simp only [List.foldl_cons, List.length_cons]
    have := ih ((v + 1) * 128 + b % 128) (j + 1) (by rw [off_succ]; omega)
      (by rw [off_succ (j + 1)]; omega)
    rw [show j + (bs.length + 1) = j + 1 + bs.length by omega]
    exact this

theorem valBe_bounds (b : Nat) (bs : List Nat) :
    Spec.vbyteOffset bs.length ≤ vbyteValBe (b :: bs) ∧
    vbyteValBe (b :: bs) < Spec.vbyteOffset (bs.length + 1) := by
  have := foldl_gBe_bounds bs (b % 128) 0 (by simp [Spec.vbyteOffset])
    (by rw [off_succ]; simp [Spec.vbyteOffset]; omega)
  simpa [vbyteValBe] using this

theorem valLe_bounds : ∀ (s : List Nat), Term s →
    Spec.vbyteOffset (s.length - 1) ≤ vbyteValLe s ∧ vbyteValLe s < Spec.vbyteOffset s.length := by
  intro s
  induction s with
  | nil => intro h; exact h.elim
  | cons b t ih =>
    intro h
    cases t with
    | nil =>
      have h0 : b / 128 = 0 := h
      simp [vbyteValLe, h0, Spec.vbyteOffset]
      omega
    | cons c cs =>
      obtain ⟨i1, i2⟩ := ih h.2
      have hne : b / 128 ≠ 0 := h.1
      simp only [vbyteValLe, if_neg hne, List.length_cons, Nat.add_sub_cancel] at i1 i2 ⊢
      rw [off_succ (cs.length + 1), off_succ cs.length]
      rw [off_succ] at i2
      constructor <;> omega

theorem off10_gt : 2 ^ 64 < Spec.vbyteOffset 10 := by
  rw [off_vals.2.2.2.2.2.2.2.2.2.2.1]; decide

theorem off9_lt : Spec.vbyteOffset 9 < 2 ^ 64 := by
  rw [off_vals.2.2.2.2.2.2.2.2.2.1]; decide

end Dsi.CodesB
