/-
  Headline, part 1, readers: see the header of HeadlineRunW.lean.  `genRImpl`, `genBitRImpl`,
  `RInv`, `PeekLe`, `gen_rrun_eq`, `gen_rrun_rinv`, `gen_rrun_bitr_eq`.
-/
import Dsi.Props.BufReaderGen
import Dsi.Props.BitReaderGen
namespace Dsi
namespace Headline
variable {W : Nat}

/-! ## 2. the buffered reader -/

/-- `impl BitRead<E> for BufBitReader<E, _>`, assembled from the translated bodies (`natOut`: the
    Rust returns `u64` / the peek word, the interface `Nat`) -/
def genRImpl (e : Endian) : RImpl (BufR W) :=
  match e with
  | .be => { readBits := fun s n => GenBufR.natOut (Gen.BufR.read_bits_be s n),
             peekBits := fun s n => GenBufR.natOut (Gen.BufR.peek_bits_be s n),
             skipAfterPeek := fun s n =>
               match Gen.BufR.skip_bits_after_peek_be s n with
               | .ok s' => s'
               | _ => s,
             skipBits := Gen.BufR.skip_bits_be,
             readUnary := fun s => GenBufR.natOut (Gen.BufR.read_unary_be s) }
  | .le => { readBits := fun s n => GenBufR.natOut (Gen.BufR.read_bits_le s n),
             peekBits := fun s n => GenBufR.natOut (Gen.BufR.peek_bits_le s n),
             skipAfterPeek := fun s n =>
               match Gen.BufR.skip_bits_after_peek_le s n with
               | .ok s' => s'
               | _ => s,
             skipBits := Gen.BufR.skip_bits_le,
             readUnary := fun s => GenBufR.natOut (Gen.BufR.read_unary_le s) }

theorem genRImpl_eq (e : Endian) : genRImpl (W := W) e = GenBufR.genImpl e := by
  cases e <;> rfl

/-- the struct invariant of `BufBitReader` the translated bodies rely on: a positive word width,
    `bits_in_buffer < BB::BITS` (the Rust `debug_assert!`s it), and a backend shorter than `2^64`
    bits (`read_unary` counts in `u64`). -/
structure RInv (s : BufR W) : Prop where
  posW : 0 < W
  bib : s.bib < 2 * W
  fit : s.back.data.length * W + 4 * W < 2 ^ 64

theorem RInv.unaryFit {s : BufR W} (hi : RInv s) :
    s.bib + (s.back.data.length + 2 - s.back.pos) * W < 2 ^ 64 := by
  have h1 : (s.back.data.length + 2 - s.back.pos) * W ≤ (s.back.data.length + 2) * W :=
    Nat.mul_le_mul_right _ (by omega)
  rw [Nat.add_mul] at h1
  have := hi.bib
  have := hi.fit
  omega

theorem genR_readBits (e : Endian) (s : BufR W) (hi : RInv s) (n : Nat) :
    (genRImpl e).readBits s n = (BufR.impl e).readBits s n := by
  rw [genRImpl_eq]; exact GenBufR.genImpl_readBits e s hi.posW hi.bib n

theorem genR_peekBits (e : Endian) (s : BufR W) (hi : RInv s) (n : Nat) :
    (genRImpl e).peekBits s n = (BufR.impl e).peekBits s n := by
  rw [genRImpl_eq]; exact GenBufR.genImpl_peekBits e s hi.posW n

theorem genR_skipAfterPeek (e : Endian) (s : BufR W) (n : Nat) :
    (genRImpl e).skipAfterPeek s n = (BufR.impl e).skipAfterPeek s n := by
  rw [genRImpl_eq]; exact GenBufR.genImpl_skipAfterPeek e s n

theorem genR_skipBits (e : Endian) (s : BufR W) (hi : RInv s) (n : Nat) :
    (genRImpl e).skipBits s n = (BufR.impl e).skipBits s n := by
  rw [genRImpl_eq]; exact GenBufR.genImpl_skipBits e s hi.bib n

theorem genR_readUnary (e : Endian) (s : BufR W) (hi : RInv s) :
    (genRImpl e).readUnary s = (BufR.impl e).readUnary s := by
  rw [genRImpl_eq]; exact GenBufR.genImpl_readUnary e s hi.bib hi.unaryFit

/-! ### the hand-written methods keep `RInv` -/

theorem memr_readWord_data {m m' : MemR W} {w : BitVec W} (h : m.readWord = .ok (w, m')) :
    m'.data = m.data := by
  unfold MemR.readWord at h
  split at h
  · cases h; rfl
  · split at h
    · cases h
    · cases h; rfl

theorem readWordsBE_data : ∀ (fuel : Nat) (back : MemR W) (res : BitVec 64) (n : Nat)
    (r : BitVec 64) (n' : Nat) (back' : MemR W),
    BufR.readWordsBE fuel back res n = .ok (r, n', back') → back'.data = back.data
  | 0, back, res, n, r, n', back', h => by simp only [BufR.readWordsBE] at h; cases h; rfl
  | fuel + 1, back, res, n, r, n', back', h => by
    simp only [BufR.readWordsBE] at h
    split at h
    · split at h
      · rename_i w bk hw
        rw [readWordsBE_data fuel _ _ _ _ _ _ h, memr_readWord_data hw]
      all_goals cases h
    · cases h; rfl

theorem readWordsLE_data : ∀ (fuel : Nat) (back : MemR W) (res : BitVec 64) (b n : Nat)
    (r : BitVec 64) (b' : Nat) (back' : MemR W),
    BufR.readWordsLE fuel back res b n = .ok (r, b', back') → back'.data = back.data
  | 0, back, res, b, n, r, b', back', h => by simp only [BufR.readWordsLE] at h; cases h; rfl
  | fuel + 1, back, res, b, n, r, b', back', h => by
    simp only [BufR.readWordsLE] at h
    split at h
    · split at h
      · rename_i w bk hw
        rw [readWordsLE_data fuel _ _ _ _ _ _ _ h, memr_readWord_data hw]
      all_goals cases h
    · cases h; rfl

theorem skipWords_data : ∀ (fuel : Nat) (back : MemR W) (n n' : Nat) (back' : MemR W),
    BufR.skipWords fuel back n = .ok (n', back') → back'.data = back.data
  | 0, back, n, n', back', h => by simp only [BufR.skipWords] at h; cases h; rfl
  | fuel + 1, back, n, n', back', h => by
    simp only [BufR.skipWords] at h
    split at h
    · split at h
      · rename_i w bk hw
        rw [skipWords_data fuel _ _ _ _ h, memr_readWord_data hw]
      all_goals cases h
    · cases h; rfl

theorem unaryWordsBE_data : ∀ (fuel : Nat) (back : MemR W) (res v : Nat) (s' : BufR W),
    BufR.unaryWordsBE fuel back res = .ok (v, s') → s'.back.data = back.data ∧ s'.bib ≤ W
  | 0, back, res, v, s', h => by simp only [BufR.unaryWordsBE] at h; cases h
  | fuel + 1, back, res, v, s', h => by
    simp only [BufR.unaryWordsBE] at h
    split at h
    · rename_i w bk hw
      split at h
      · cases h
        exact ⟨memr_readWord_data hw, by show W - BufR.clz w - 1 ≤ W; omega⟩
      · have := unaryWordsBE_data fuel _ _ _ _ h
        exact ⟨by rw [this.1, memr_readWord_data hw], this.2⟩
    all_goals cases h

theorem unaryWordsLE_data : ∀ (fuel : Nat) (back : MemR W) (res v : Nat) (s' : BufR W),
    BufR.unaryWordsLE fuel back res = .ok (v, s') → s'.back.data = back.data ∧ s'.bib ≤ W
  | 0, back, res, v, s', h => by simp only [BufR.unaryWordsLE] at h; cases h
  | fuel + 1, back, res, v, s', h => by
    simp only [BufR.unaryWordsLE] at h
    split at h
    · rename_i w bk hw
      split at h
      · cases h
        exact ⟨memr_readWord_data hw, by show W - BufR.ctz w - 1 ≤ W; omega⟩
      · have := unaryWordsLE_data fuel _ _ _ _ h
        exact ⟨by rw [this.1, memr_readWord_data hw], this.2⟩
    all_goals cases h

/-- a state with the same backend data and fewer than `2W` buffered bits -/
theorem RInv.of_data {s s' : BufR W} (hi : RInv s) (hd : s'.back.data = s.back.data)
    (hb : s'.bib < 2 * W) : RInv s' :=
  ⟨hi.posW, hb, by rw [hd]; exact hi.fit⟩

theorem readBitsBE_rinv {s s' : BufR W} {n v : Nat} (hi : RInv s)
    (h : BufR.readBitsBE s n = .ok (v, s')) : RInv s' := by
  have hW := hi.posW
  have hb := hi.bib
  unfold BufR.readBitsBE at h
  split at h
  · cases h
  · split at h
    · cases h
      exact hi.of_data rfl (by show s.bib - n < 2 * W; omega)
    · dsimp only at h
      split at h
      · rename_i r n' bk hrw
        split at h
        · rename_i w bk' hw
          cases h
          refine hi.of_data ?_ (by show W - n' < 2 * W; omega)
          show bk'.data = s.back.data
          rw [memr_readWord_data hw, readWordsBE_data _ _ _ _ _ _ _ hrw]
        all_goals cases h
      all_goals cases h

theorem readBitsLE_rinv {s s' : BufR W} {n v : Nat} (hi : RInv s)
    (h : BufR.readBitsLE s n = .ok (v, s')) : RInv s' := by
  have hW := hi.posW
  have hb := hi.bib
  unfold BufR.readBitsLE at h
  split at h
  · cases h
  · split at h
    · cases h
      exact hi.of_data rfl (by show s.bib - n < 2 * W; omega)
    · dsimp only at h
      split at h
      · rename_i r b' bk hrw
        split at h
        · rename_i w bk' hw
          cases h
          refine hi.of_data ?_ (by show W - (n - b') < 2 * W; omega)
          show bk'.data = s.back.data
          rw [memr_readWord_data hw, readWordsLE_data _ _ _ _ _ _ _ _ hrw]
        all_goals cases h
      all_goals cases h

theorem readUnaryBE_rinv {s s' : BufR W} {v : Nat} (hi : RInv s)
    (h : BufR.readUnaryBE s = .ok (v, s')) : RInv s' := by
  have hW := hi.posW
  have hb := hi.bib
  unfold BufR.readUnaryBE at h
  dsimp only at h
  split at h
  · cases h
    exact hi.of_data rfl (by show s.bib - (BufR.clz s.buffer + 1) < 2 * W; omega)
  · have := unaryWordsBE_data _ _ _ _ _ h
    exact hi.of_data this.1 (by omega)

theorem readUnaryLE_rinv {s s' : BufR W} {v : Nat} (hi : RInv s)
    (h : BufR.readUnaryLE s = .ok (v, s')) : RInv s' := by
  have hW := hi.posW
  have hb := hi.bib
  unfold BufR.readUnaryLE at h
  dsimp only at h
  split at h
  · cases h
    exact hi.of_data rfl (by show s.bib - (BufR.ctz s.buffer + 1) < 2 * W; omega)
  · have := unaryWordsLE_data _ _ _ _ _ h
    exact hi.of_data this.1 (by omega)

theorem skipBitsBE_rinv {s s' : BufR W} {n : Nat} (hi : RInv s)
    (h : BufR.skipBitsBE s n = .ok s') : RInv s' := by
  have hW := hi.posW
  have hb := hi.bib
  unfold BufR.skipBitsBE at h
  split at h
  · cases h
    exact hi.of_data rfl (by show s.bib - n < 2 * W; omega)
  · dsimp only at h
    split at h
    · rename_i n' bk hsk
      split at h
      · rename_i w bk' hw
        cases h
        refine hi.of_data ?_ (by show W - n' < 2 * W; omega)
        show bk'.data = s.back.data
        rw [memr_readWord_data hw, skipWords_data _ _ _ _ _ hsk]
      all_goals cases h
    all_goals cases h

theorem skipBitsLE_rinv {s s' : BufR W} {n : Nat} (hi : RInv s)
    (h : BufR.skipBitsLE s n = .ok s') : RInv s' := by
  have hW := hi.posW
  have hb := hi.bib
  unfold BufR.skipBitsLE at h
  split at h
  · cases h
    exact hi.of_data rfl (by show s.bib - n < 2 * W; omega)
  · dsimp only at h
    split at h
    · rename_i n' bk hsk
      split at h
      · rename_i w bk' hw
        cases h
        refine hi.of_data ?_ (by show W - n' < 2 * W; omega)
        show bk'.data = s.back.data
        rw [memr_readWord_data hw, skipWords_data _ _ _ _ _ hsk]
      all_goals cases h
    all_goals cases h

theorem refillBE_rinv {s s' : BufR W} (hi : RInv s) (hb : s.bib < W)
    (h : BufR.refillBE s = .ok s') : RInv s' := by
  unfold BufR.refillBE at h
  split at h
  · cases h
  · split at h
    · rename_i w bk hw
      cases h
      exact hi.of_data (memr_readWord_data hw) (by show s.bib + W < 2 * W; omega)
    all_goals cases h

theorem refillLE_rinv {s s' : BufR W} (hi : RInv s) (hb : s.bib < W)
    (h : BufR.refillLE s = .ok s') : RInv s' := by
  unfold BufR.refillLE at h
  split at h
  · cases h
  · split at h
    · rename_i w bk hw
      cases h
      exact hi.of_data (memr_readWord_data hw) (by show s.bib + W < 2 * W; omega)
    all_goals cases h

theorem peekBitsBE_rinv {s s' : BufR W} {n v : Nat} (hi : RInv s) (hn : n ≤ W)
    (h : BufR.peekBitsBE s n = .ok (v, s')) : RInv s' := by
  unfold BufR.peekBitsBE at h
  split at h
  · cases h
  · dsimp only at h
    by_cases hnb : n > s.bib
    · rw [if_pos hnb] at h
      split at h
      · rename_i s1 hr
        split at h
        · cases h
        · cases h; exact refillBE_rinv hi (by omega) hr
      all_goals cases h
    · rw [if_neg hnb] at h
      dsimp only at h
      split at h
      · cases h
      · cases h; exact hi

theorem peekBitsLE_rinv {s s' : BufR W} {n v : Nat} (hi : RInv s) (hn : n ≤ W)
    (h : BufR.peekBitsLE s n = .ok (v, s')) : RInv s' := by
  unfold BufR.peekBitsLE at h
  split at h
  · cases h
  · dsimp only at h
    by_cases hnb : n > s.bib
    · rw [if_pos hnb] at h
      split at h
      · rename_i s1 hr
        split at h
        · cases h
        · cases h; exact refillLE_rinv hi (by omega) hr
      all_goals cases h
    · rw [if_neg hnb] at h
      dsimp only at h
      split at h
      · cases h
      · cases h; exact hi

theorem hand_readBits_rinv (e : Endian) {s s' : BufR W} {n v : Nat} (hi : RInv s)
    (h : (BufR.impl e).readBits s n = .ok (v, s')) : RInv s' := by
  cases e
  · exact readBitsBE_rinv hi h
  · exact readBitsLE_rinv hi h

theorem hand_readUnary_rinv (e : Endian) {s s' : BufR W} {v : Nat} (hi : RInv s)
    (h : (BufR.impl e).readUnary s = .ok (v, s')) : RInv s' := by
  cases e
  · exact readUnaryBE_rinv hi h
  · exact readUnaryLE_rinv hi h

theorem hand_skipBits_rinv (e : Endian) {s s' : BufR W} {n : Nat} (hi : RInv s)
    (h : (BufR.impl e).skipBits s n = .ok s') : RInv s' := by
  cases e
  · exact skipBitsBE_rinv hi h
  · exact skipBitsLE_rinv hi h

theorem hand_peekBits_rinv (e : Endian) {s s' : BufR W} {n v : Nat} (hi : RInv s) (hn : n ≤ W)
    (h : (BufR.impl e).peekBits s n = .ok (v, s')) : RInv s' := by
  cases e
  · exact peekBitsBE_rinv hi hn h
  · exact peekBitsLE_rinv hi hn h

theorem hand_skipAfterPeek_rinv (e : Endian) (s : BufR W) (n : Nat) (hi : RInv s) :
    RInv ((BufR.impl e).skipAfterPeek s n) := by
  have := hi.bib
  cases e
  · exact hi.of_data rfl (by show s.bib - n < 2 * W; omega)
  · exact hi.of_data rfl (by show s.bib - n < 2 * W; omega)

/-! ### programs -/

/-- every `peek_bits` of the program asks for at most `W` bits (`PeekBounded W c p` implies it) -/
def PeekLe {α : Type} (W : Nat) : RProg α → Prop
  | .ret _ => True
  | .fail _ => True
  | .panic => True
  | .dpanic => True
  | .readBits _ k => ∀ v, PeekLe W (k v)
  | .readUnary k => ∀ v, PeekLe W (k v)
  | .peek n k => n ≤ W ∧ ∀ v, PeekLe W (k v)
  | .skipAfterPeek _ k => PeekLe W k
  | .skip _ k => PeekLe W k

theorem PeekLe.of_peekBounded {α : Type} (p : RProg α) :
    ∀ c, PeekBounded W c p → PeekLe W p := by
  induction p with
  | ret a => intro _ _; trivial
  | fail x => intro _ _; trivial
  | panic => intro _ _; trivial
  | dpanic => intro _ _; trivial
  | readBits n k ih => intro c h v; exact ih v 0 (h v)
  | readUnary k ih => intro c h v; exact ih v 0 (h v)
  | peek n k ih =>
    intro c h
    refine ⟨h.1, fun v => ?_⟩
    cases v with
    | ok x => exact ih (.ok x) n (h.2.1 x)
    | error x => exact ih (.error x) c (h.2.2 x)
  | skipAfterPeek n k ih => intro c h; exact ih (c - n) h.2
  | skip n k ih => intro c h; exact ih 0 h

theorem PeekLe.bind {α β : Type} {p : RProg α} {f : α → RProg β} (hp : PeekLe W p)
    (hf : ∀ a, PeekLe W (f a)) : PeekLe W (p.bind f) := by
  induction p with
  | ret a => exact hf a
  | fail x => trivial
  | panic => trivial
  | dpanic => trivial
  | readBits n k ih => exact fun v => ih v (hp v)
  | readUnary k ih => exact fun v => ih v (hp v)
  | peek n k ih => exact ⟨hp.1, fun v => ih v (hp.2 v)⟩
  | skipAfterPeek n k ih => exact ih hp
  | skip n k ih => exact ih hp

/-- **Every reader program (peeks of at most `W` bits) runs on the translated `BufBitReader`
    exactly as on the hand-written model**, from every state of the struct invariant. -/
theorem gen_rrun_eq {α : Type} (e : Endian) (p : RProg α) :
    ∀ (s : BufR W), RInv s → PeekLe W p → p.run (genRImpl e) s = p.run (BufR.impl e) s := by
  induction p with
  | ret a => intro s _ _; rfl
  | fail x => intro s _ _; rfl
  | panic => intro s _ _; rfl
  | dpanic => intro s _ _; rfl
  | readBits n k ih =>
    intro s hi hp
    simp only [RProg.run]
    rw [genR_readBits e s hi]
    cases h : (BufR.impl e).readBits s n with
    | ok q => obtain ⟨v, s'⟩ := q; exact ih v s' (hand_readBits_rinv e hi h) (hp v)
    | err _ => rfl
    | panic => rfl
    | dpanic => rfl
  | readUnary k ih =>
    intro s hi hp
    simp only [RProg.run]
    rw [genR_readUnary e s hi]
    cases h : (BufR.impl e).readUnary s with
    | ok q => obtain ⟨v, s'⟩ := q; exact ih v s' (hand_readUnary_rinv e hi h) (hp v)
    | err _ => rfl
    | panic => rfl
    | dpanic => rfl
  | peek n k ih =>
    intro s hi hp
    simp only [RProg.run]
    rw [genR_peekBits e s hi]
    cases h : (BufR.impl e).peekBits s n with
    | ok q => obtain ⟨v, s'⟩ := q; exact ih (.ok v) s' (hand_peekBits_rinv e hi hp.1 h) (hp.2 _)
    | err x => exact ih (.error x) s hi (hp.2 _)
    | panic => rfl
    | dpanic => rfl
  | skipAfterPeek n k ih =>
    intro s hi hp
    simp only [RProg.run]
    rw [genR_skipAfterPeek e s]
    exact ih _ (hand_skipAfterPeek_rinv e s n hi) hp
  | skip n k ih =>
    intro s hi hp
    simp only [RProg.run]
    rw [genR_skipBits e s hi]
    cases h : (BufR.impl e).skipBits s n with
    | ok s' => exact ih s' (hand_skipBits_rinv e hi h) hp
    | err _ => rfl
    | panic => rfl
    | dpanic => rfl

/-- the invariant holds again after any such program has run (hand-written model) -/
theorem hand_rrun_rinv {α : Type} (e : Endian) (p : RProg α) :
    ∀ (s : BufR W) (a : α) (s' : BufR W), RInv s → PeekLe W p →
      p.run (BufR.impl e) s = .ok (a, s') → RInv s' := by
  induction p with
  | ret a => intro s b s' hi _ h; simp only [RProg.run] at h; cases h; exact hi
  | fail x => intro s b s' _ _ h; simp only [RProg.run] at h; cases h
  | panic => intro s b s' _ _ h; simp only [RProg.run] at h; cases h
  | dpanic => intro s b s' _ _ h; simp only [RProg.run] at h; cases h
  | readBits n k ih =>
    intro s b s' hi hp h
    simp only [RProg.run] at h
    cases hr : (BufR.impl e).readBits s n with
    | ok q => obtain ⟨v, s1⟩ := q; rw [hr] at h; exact ih v s1 b s' (hand_readBits_rinv e hi hr) (hp v) h
    | err _ => rw [hr] at h; cases h
    | panic => rw [hr] at h; cases h
    | dpanic => rw [hr] at h; cases h
  | readUnary k ih =>
    intro s b s' hi hp h
    simp only [RProg.run] at h
    cases hr : (BufR.impl e).readUnary s with
    | ok q => obtain ⟨v, s1⟩ := q; rw [hr] at h; exact ih v s1 b s' (hand_readUnary_rinv e hi hr) (hp v) h
    | err _ => rw [hr] at h; cases h
    | panic => rw [hr] at h; cases h
    | dpanic => rw [hr] at h; cases h
  | peek n k ih =>
    intro s b s' hi hp h
    simp only [RProg.run] at h
    cases hr : (BufR.impl e).peekBits s n with
    | ok q =>
      obtain ⟨v, s1⟩ := q; rw [hr] at h
      exact ih (.ok v) s1 b s' (hand_peekBits_rinv e hi hp.1 hr) (hp.2 _) h
    | err x => rw [hr] at h; exact ih (.error x) s b s' hi (hp.2 _) h
    | panic => rw [hr] at h; cases h
    | dpanic => rw [hr] at h; cases h
  | skipAfterPeek n k ih =>
    intro s b s' hi hp h
    simp only [RProg.run] at h
    exact ih _ b s' (hand_skipAfterPeek_rinv e s n hi) hp h
  | skip n k ih =>
    intro s b s' hi hp h
    simp only [RProg.run] at h
    cases hr : (BufR.impl e).skipBits s n with
    | ok s1 => rw [hr] at h; exact ih s1 b s' (hand_skipBits_rinv e hi hr) hp h
    | err _ => rw [hr] at h; cases h
    | panic => rw [hr] at h; cases h
    | dpanic => rw [hr] at h; cases h

/-- … and on the translated reader: every translated method keeps the invariant -/
theorem gen_rrun_rinv {α : Type} (e : Endian) (p : RProg α) (s : BufR W) (a : α) (s' : BufR W)
    (hi : RInv s) (hp : PeekLe W p) (h : p.run (genRImpl e) s = .ok (a, s')) : RInv s' := by
  rw [gen_rrun_eq e p s hi hp] at h
  exact hand_rrun_rinv e p s a s' hi hp h

theorem rinv_new (back : MemR W) (hW : 0 < W) (hfit : back.data.length * W + 4 * W < 2 ^ 64) :
    RInv (BufR.new back) :=
  ⟨hW, by show 0 < 2 * W; omega, hfit⟩

/-- the refinement relation to the reference reader gives the struct invariant (for a stream
    shorter than `2^64` bits) -/
theorem rinv_of_rel {e : Endian} {s : BufR W} {r : RefR} (h : BufR.Rel e s r)
    (hfit : s.back.data.length * W + 4 * W < 2 ^ 64) : RInv s :=
  ⟨Rel.pos_W h, h.1, hfit⟩

/-- **`PeekLe` is needed** (and this is where the hand-written model and the Rust differ): on an
    8-bit-word reader, `peek_bits(8)` then `peek_bits(9)` (allowed by the Rust's
    `debug_assert!(n_bits <= PeekWord::BITS)`, `PeekWord = u16`) refills twice and leaves
    `bits_in_buffer = 16 = BB::BITS`; the next `read_bits` of the translated body stops at
    `debug_assert!(self.bits_in_buffer < BB::<WR>::BITS)`, the hand-written model (which leaves that
    assertion out as "the struct invariant") goes on. -/
theorem peek_wide_breaks_invariant :
    let p : RProg Nat := .peek 8 fun _ => .peek 9 fun _ => .readBits 1 .ret
    let s : BufR 8 := BufR.new ⟨[0xA5#8, 0x3C#8, 0xF0#8], 0, true⟩
    p.run (genRImpl .be) s = .dpanic ∧ (∃ s', p.run (BufR.impl .be) s = .ok (1, s')) ∧
    p.run (genRImpl .le) s = .dpanic ∧ (∃ s', p.run (BufR.impl .le) s = .ok (1, s')) :=
  ⟨rfl, ⟨_, rfl⟩, rfl, ⟨_, rfl⟩⟩

/-! ## 3. the unbuffered reader -/

/-- `impl BitRead<E> for BitReader<E, _>`, assembled from the translated bodies -/
def genBitRImpl (e : Endian) : RImpl BitR :=
  match e with
  | .be => { readBits := fun s n => GenBitR.natOut (Gen.BitR.read_bits_be s n),
             peekBits := Gen.BitR.peek_bits_be,
             skipAfterPeek := fun s n =>
               match Gen.BitR.skip_bits_after_peek_be s n with
               | .ok s' => s'
               | _ => s,
             skipBits := Gen.BitR.skip_bits_be,
             readUnary := fun s => GenBitR.natOut (Gen.BitR.read_unary_be s) }
  | .le => { readBits := fun s n => GenBitR.natOut (Gen.BitR.read_bits_le s n),
             peekBits := Gen.BitR.peek_bits_le,
             skipAfterPeek := fun s n =>
               match Gen.BitR.skip_bits_after_peek_le s n with
               | .ok s' => s'
               | _ => s,
             skipBits := Gen.BitR.skip_bits_le,
             readUnary := fun s => GenBitR.natOut (Gen.BitR.read_unary_le s) }

theorem genBitRImpl_eq (e : Endian) : genBitRImpl e = GenBitR.genImpl e := by
  cases e <;> rfl

/-! ### what one hand-written method does to the position and to the backend data -/

theorem extract_data {e : Endian} {s : BitR} {n : Nat} {v : BitVec 64} {d : MemR 64}
    (h : BitR.extract e s n = .ok (v, d)) : d.data = s.data.data := by
  unfold BitR.extract at h
  split at h
  · rename_i d0 h0
    have e0 := GenBitR.setWordPos_data h0
    dsimp only at h
    split at h
    · split at h
      · rename_i w d1 h1
        have e1 := GenBitR.readWord_data h1
        cases e <;> (cases h; rw [e1, e0])
      all_goals cases h
    · split at h
      · rename_i w1 d1 h1
        have e1 := GenBitR.readWord_data h1
        split at h
        · rename_i w2 d2 h2
          have e2 := GenBitR.readWord_data h2
          cases e <;> (cases h; rw [e2, e1, e0])
        all_goals cases h
      all_goals cases h
  all_goals cases h

theorem unaryLoop_data (e : Endian) (fuel : Nat) : ∀ (d : MemR 64) (word : BitVec 64) (biw total r : Nat)
    (d' : MemR 64), BitR.unaryLoop e fuel d word biw total = .ok (r, d') → d'.data = d.data := by
  induction fuel with
  | zero => intro d word biw total r d' h; simp only [BitR.unaryLoop] at h; cases h
  | succ fuel ih =>
    intro d word biw total r d' h
    unfold BitR.unaryLoop at h
    cases e <;>
    · dsimp only at h
      split at h
      · cases h; rfl
      · split at h
        · rename_i w d1 h1
          rw [ih _ _ _ _ _ _ h, GenBitR.readWord_data h1]
        all_goals cases h

/-- position not smaller, same backend data -/
def BStep (s s' : BitR) : Prop := s.bitIndex ≤ s'.bitIndex ∧ s'.data.data = s.data.data

theorem BStep.refl (s : BitR) : BStep s s := ⟨Nat.le_refl _, rfl⟩
theorem BStep.trans {a b c : BitR} (h1 : BStep a b) (h2 : BStep b c) : BStep a c :=
  ⟨Nat.le_trans h1.1 h2.1, by rw [h2.2, h1.2]⟩

theorem bitr_readBits_step {e : Endian} {s s' : BitR} {n v : Nat}
    (h : (BitR.impl e).readBits s n = .ok (v, s')) :
    s'.bitIndex = s.bitIndex + n ∧ s'.data.data = s.data.data := by
  change BitR.readBits e s n = .ok (v, s') at h
  unfold BitR.readBits at h
  split at h
  · rename_i h0; cases h; subst h0; exact ⟨rfl, rfl⟩
  · split at h
    · cases e <;> cases h
    · split at h
      · rename_i x d hx
        cases h
        exact ⟨rfl, extract_data hx⟩
      all_goals cases h

theorem bitr_peekBits_step {e : Endian} {s s' : BitR} {n v : Nat}
    (h : (BitR.impl e).peekBits s n = .ok (v, s')) :
    s'.bitIndex = s.bitIndex ∧ s'.data.data = s.data.data := by
  change BitR.peekBits e s n = .ok (v, s') at h
  unfold BitR.peekBits at h
  split at h
  · cases h; exact ⟨rfl, rfl⟩
  · split at h
    · cases h
    · split at h
      · rename_i x d hx
        cases h
        exact ⟨rfl, extract_data hx⟩
      all_goals cases h

theorem bitr_readUnary_step {e : Endian} {s s' : BitR} {v : Nat}
    (h : (BitR.impl e).readUnary s = .ok (v, s')) :
    s'.bitIndex = s.bitIndex + v + 1 ∧ s'.data.data = s.data.data := by
  change BitR.readUnary e s = .ok (v, s') at h
  unfold BitR.readUnary at h
  split at h
  · rename_i d0 h0
    have e0 := GenBitR.setWordPos_data h0
    dsimp only at h
    split at h
    · rename_i w d1 h1
      have e1 := GenBitR.readWord_data h1
      split at h
      · rename_i r d2 h2
        cases h
        exact ⟨rfl, by show d2.data = s.data.data; rw [unaryLoop_data e _ _ _ _ _ _ _ h2, e1, e0]⟩
      all_goals cases h
    all_goals cases h
  all_goals cases h

theorem bitr_skipBits_step {e : Endian} {s s' : BitR} {n : Nat}
    (h : (BitR.impl e).skipBits s n = .ok s') :
    s'.bitIndex = s.bitIndex + n ∧ s'.data.data = s.data.data := by
  change BitR.skipBits s n = .ok s' at h
  unfold BitR.skipBits at h
  cases h; exact ⟨rfl, rfl⟩

/-- along a successful run of the hand-written `BitReader` the position only grows and the
    backend data stay -/
theorem bitr_run_step {α : Type} (e : Endian) (p : RProg α) :
    ∀ (s : BitR) (a : α) (s' : BitR), p.run (BitR.impl e) s = .ok (a, s') → BStep s s' := by
  induction p with
  | ret a => intro s b s' h; simp only [RProg.run] at h; cases h; exact BStep.refl _
  | fail x => intro s b s' h; simp only [RProg.run] at h; cases h
  | panic => intro s b s' h; simp only [RProg.run] at h; cases h
  | dpanic => intro s b s' h; simp only [RProg.run] at h; cases h
  | readBits n k ih =>
    intro s b s' h
    simp only [RProg.run] at h
    cases hr : (BitR.impl e).readBits s n with
    | ok q =>
      obtain ⟨v, s1⟩ := q; rw [hr] at h
      have := bitr_readBits_step hr
      exact BStep.trans ⟨by omega, this.2⟩ (ih v s1 b s' h)
    | err _ => rw [hr] at h; cases h
    | panic => rw [hr] at h; cases h
    | dpanic => rw [hr] at h; cases h
  | readUnary k ih =>
    intro s b s' h
    simp only [RProg.run] at h
    cases hr : (BitR.impl e).readUnary s with
    | ok q =>
      obtain ⟨v, s1⟩ := q; rw [hr] at h
      have := bitr_readUnary_step hr
      exact BStep.trans ⟨by omega, this.2⟩ (ih v s1 b s' h)
    | err _ => rw [hr] at h; cases h
    | panic => rw [hr] at h; cases h
    | dpanic => rw [hr] at h; cases h
  | peek n k ih =>
    intro s b s' h
    simp only [RProg.run] at h
    cases hr : (BitR.impl e).peekBits s n with
    | ok q =>
      obtain ⟨v, s1⟩ := q; rw [hr] at h
      have := bitr_peekBits_step hr
      exact BStep.trans ⟨by omega, this.2⟩ (ih (.ok v) s1 b s' h)
    | err x => rw [hr] at h; exact ih (.error x) s b s' h
    | panic => rw [hr] at h; cases h
    | dpanic => rw [hr] at h; cases h
  | skipAfterPeek n k ih =>
    intro s b s' h
    simp only [RProg.run] at h
    have hs : BStep s ((BitR.impl e).skipAfterPeek s n) := ⟨Nat.le_add_right _ _, rfl⟩
    exact BStep.trans hs (ih _ b s' h)
  | skip n k ih =>
    intro s b s' h
    simp only [RProg.run] at h
    cases hr : (BitR.impl e).skipBits s n with
    | ok s1 =>
      rw [hr] at h
      have := bitr_skipBits_step hr
      exact BStep.trans ⟨by omega, this.2⟩ (ih s1 b s' h)
    | err _ => rw [hr] at h; cases h
    | panic => rw [hr] at h; cases h
    | dpanic => rw [hr] at h; cases h

/-- **Every reader program that succeeds on the hand-written `BitReader` with a final position
    that (with three words of margin beyond the data) fits a `u64` runs identically on the
    translated `BitReader`.**  The translated bodies keep the position in a `u64`
    (`self.bit_index`), the hand-written model in a `Nat`; no invariant of the state alone can
    bound the arguments of `skip_bits`, so the bound is on the run. -/
theorem gen_rrun_bitr_eq {α : Type} (e : Endian) (p : RProg α) :
    ∀ (s : BitR) (a : α) (s' : BitR), p.run (BitR.impl e) s = .ok (a, s') →
      s'.bitIndex + (s.data.data.length + 3) * 64 < 2 ^ 64 →
      p.run (genBitRImpl e) s = .ok (a, s') := by
  rw [genBitRImpl_eq]
  induction p with
  | ret a => intro s b s' h _; exact h
  | fail x => intro s b s' h _; simp only [RProg.run] at h; cases h
  | panic => intro s b s' h _; simp only [RProg.run] at h; cases h
  | dpanic => intro s b s' h _; simp only [RProg.run] at h; cases h
  | readBits n k ih =>
    intro s b s' h hfit
    simp only [RProg.run] at h ⊢
    cases hr : (BitR.impl e).readBits s n with
    | ok q =>
      obtain ⟨v, s1⟩ := q; rw [hr] at h
      have h1 := bitr_readBits_step hr
      have h2 := (bitr_run_step e (k v) s1 b s' h).1
      have h3 := h1.1
      rw [GenBitR.genImpl_readBits e s n (by omega), hr]
      exact ih v s1 b s' h (by rw [h1.2]; exact hfit)
    | err _ => rw [hr] at h; cases h
    | panic => rw [hr] at h; cases h
    | dpanic => rw [hr] at h; cases h
  | readUnary k ih =>
    intro s b s' h hfit
    simp only [RProg.run] at h ⊢
    cases hr : (BitR.impl e).readUnary s with
    | ok q =>
      obtain ⟨v, s1⟩ := q; rw [hr] at h
      have h1 := bitr_readUnary_step hr
      have h2 := (bitr_run_step e (k v) s1 b s' h).1
      have h3 := h1.1
      rw [GenBitR.genImpl_readUnary e s (by omega), hr]
      exact ih v s1 b s' h (by rw [h1.2]; exact hfit)
    | err _ => rw [hr] at h; cases h
    | panic => rw [hr] at h; cases h
    | dpanic => rw [hr] at h; cases h
  | peek n k ih =>
    intro s b s' h hfit
    simp only [RProg.run] at h ⊢
    cases hr : (BitR.impl e).peekBits s n with
    | ok q =>
      obtain ⟨v, s1⟩ := q; rw [hr] at h
      have h1 := bitr_peekBits_step hr
      have h2 := (bitr_run_step e (k (.ok v)) s1 b s' h).1
      have h3 := h1.1
      rw [GenBitR.genImpl_peekBits e s n (by omega), hr]
      exact ih (.ok v) s1 b s' h (by rw [h1.2]; exact hfit)
    | err x =>
      rw [hr] at h
      have h2 := bitr_run_step e (k (.error x)) s b s' h
      rw [GenBitR.genImpl_peekBits e s n (by have := h2.1; omega), hr]
      exact ih (.error x) s b s' h hfit
    | panic => rw [hr] at h; cases h
    | dpanic => rw [hr] at h; cases h
  | skipAfterPeek n k ih =>
    intro s b s' h hfit
    simp only [RProg.run] at h ⊢
    have h2 := bitr_run_step e k _ b s' h
    have h3 : s.bitIndex + n ≤ s'.bitIndex := h2.1
    rw [GenBitR.genImpl_skipAfterPeek e s n (by omega)]
    exact ih _ b s' h hfit
  | skip n k ih =>
    intro s b s' h hfit
    simp only [RProg.run] at h ⊢
    cases hr : (BitR.impl e).skipBits s n with
    | ok s1 =>
      rw [hr] at h
      have h1 := bitr_skipBits_step hr
      have h2 := (bitr_run_step e k s1 b s' h).1
      have h3 := h1.1
      rw [GenBitR.genImpl_skipBits e s n (by omega), hr]
      exact ih s1 b s' h (by rw [h1.2]; exact hfit)
    | err _ => rw [hr] at h; cases h
    | panic => rw [hr] at h; cases h
    | dpanic => rw [hr] at h; cases h

end Headline
end Dsi
