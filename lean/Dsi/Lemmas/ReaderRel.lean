/-
  Bit-level forms of `BufR.Rel`: the window / cleanliness conjuncts restated bit by bit.
-/
import Dsi.Lemmas.ReaderBits
namespace Dsi
namespace BufR
variable {W : Nat}

/-- bit-level form of `Rel .le` -/
structure RelLE (s : BufR W) (r : RefR) : Prop where
  bib_lt  : s.bib < 2 * W
  he      : r.e = .le
  hstrict : r.strict = s.back.strict
  hpm     : r.peekMax = W
  hstream : r.stream = s.back.data.flatMap (wordBits .le)
  hpos    : r.pos + s.bib = s.back.pos * W
  hstr    : s.back.strict = true → s.back.pos ≤ s.back.data.length
  hin     : ∀ i, i < s.bib → s.buffer.getLsbD i = bitZ r.stream (r.pos + i)
  hout    : ∀ i, s.bib ≤ i → s.buffer.getLsbD i = false

/-- bit-level form of `Rel .be` -/
structure RelBE (s : BufR W) (r : RefR) : Prop where
  bib_lt  : s.bib < 2 * W
  he      : r.e = .be
  hstrict : r.strict = s.back.strict
  hpm     : r.peekMax = W
  hstream : r.stream = s.back.data.flatMap (wordBits .be)
  hpos    : r.pos + s.bib = s.back.pos * W
  hstr    : s.back.strict = true → s.back.pos ≤ s.back.data.length
  hin     : ∀ i, i < s.bib → s.buffer.getLsbD (2 * W - 1 - i) = bitZ r.stream (r.pos + i)
  hout    : ∀ j, j < 2 * W - s.bib → s.buffer.getLsbD j = false

theorem clean_le_iff (s : BufR W) :
    s.Clean .le ↔ ∀ i, s.bib ≤ i → s.buffer.getLsbD i = false := by
  simp only [Clean, BitVec.getLsbD]
  constructor
  · intro h i hi
    exact Nat.testBit_lt_two_pow (Nat.lt_of_lt_of_le h (Nat.pow_le_pow_right (by decide) hi))
  · intro h
    exact Nat.lt_pow_two_of_testBit _ h

theorem window_le_iff (s : BufR W) (r : RefR) :
    s.window .le = takeZ s.bib r.rest ↔
      ∀ i, i < s.bib → s.buffer.getLsbD i = bitZ r.stream (r.pos + i) := by
  simp only [window, fieldBits, RefR.rest, BitVec.getLsbD]
  constructor
  · intro h i hi
    have := congrArg (fun l => bitZ l i) h
    simpa [bitZ_fieldLE, bitZ_takeZ, bitZ_drop, hi] using this
  · intro h
    apply list_eq_of_bitZ (by simp)
    intro i hi
    have hi' : i < s.bib := by simpa using hi
    simp [bitZ_fieldLE, bitZ_takeZ, bitZ_drop, hi', h i hi']

theorem rel_le_iff (s : BufR W) (r : RefR) : Rel .le s r ↔ RelLE s r := by
  constructor
  · rintro ⟨h1, h2, h3, h4, h5, h6, h7, h8, h9⟩
    exact ⟨h1, h3, h4, h5, h6, h7, h8, (window_le_iff s r).1 h9, (clean_le_iff s).1 h2⟩
  · rintro ⟨h1, h3, h4, h5, h6, h7, h8, h9, h2⟩
    exact ⟨h1, (clean_le_iff s).2 h2, h3, h4, h5, h6, h7, h8, (window_le_iff s r).2 h9⟩

theorem clean_be_iff (s : BufR W) :
    s.Clean .be ↔ ∀ j, j < 2 * W - s.bib → s.buffer.getLsbD j = false := by
  simp only [Clean, BitVec.getLsbD]
  constructor
  · intro h j hj
    have := congrArg (fun x => Nat.testBit x j) h
    simpa [Nat.testBit_mod_two_pow, hj] using this
  · intro h
    apply Nat.eq_of_testBit_eq
    intro j
    rw [Nat.testBit_mod_two_pow]
    by_cases hj : j < 2 * W - s.bib
    · simp [h j hj]
    · simp [hj]

theorem window_be_iff (s : BufR W) (r : RefR) (hb : s.bib ≤ 2 * W) :
    s.window .be = takeZ s.bib r.rest ↔
      ∀ i, i < s.bib → s.buffer.getLsbD (2 * W - 1 - i) = bitZ r.stream (r.pos + i) := by
  simp only [window, fieldBits, RefR.rest, BitVec.getLsbD]
  have key : ∀ i, i < s.bib →
      bitZ (fieldLE (s.buffer.toNat / 2 ^ (2 * W - s.bib)) s.bib).reverse i
        = s.buffer.toNat.testBit (2 * W - 1 - i) := by
    intro i hi
    rw [bitZ_reverse (by simpa using hi)]
    simp only [length_fieldLE, bitZ_fieldLE, Nat.testBit_div_two_pow]
    have h1 : s.bib - 1 - i < s.bib := by omega
    have h2 : s.bib - 1 - i + (2 * W - s.bib) = 2 * W - 1 - i := by omega
    simp [h1, h2]
  constructor
  · intro h i hi
    have := congrArg (fun l => bitZ l i) h
    simp only [key i hi] at this
    simpa [bitZ_takeZ, bitZ_drop, hi] using this
  · intro h
    apply list_eq_of_bitZ (by simp)
    intro i hi
    have hi' : i < s.bib := by simpa using hi
    rw [key i hi', h i hi']
    simp [bitZ_takeZ, bitZ_drop, hi']

theorem rel_be_iff (s : BufR W) (r : RefR) : Rel .be s r ↔ RelBE s r := by
  constructor
  · rintro ⟨h1, h2, h3, h4, h5, h6, h7, h8, h9⟩
    exact ⟨h1, h3, h4, h5, h6, h7, h8, (window_be_iff s r (Nat.le_of_lt h1)).1 h9, (clean_be_iff s).1 h2⟩
  · rintro ⟨h1, h3, h4, h5, h6, h7, h8, h9, h2⟩
    exact ⟨h1, (clean_be_iff s).2 h2, h3, h4, h5, h6, h7, h8, (window_be_iff s r (Nat.le_of_lt h1)).2 h9⟩

end BufR
end Dsi
