/-
  Big-endian buffered reader: every operation of `BufR` simulates the reference reader.
  Statements are in the bit-level relation `RelBE` (equivalent to `Rel .be`, see `rel_be_iff`).
-/
import Dsi.Lemmas.ReaderLE
namespace Dsi
namespace BufR
variable {W : Nat}

theorem RelBE.length_stream {s : BufR W} {r : RefR} (h : RelBE s r) :
    r.stream.length = s.back.data.length * W := by
  rw [h.hstream, length_flatMap_wordBits]

theorem RelBE.avail_of_le {s : BufR W} {r : RefR} (h : RelBE s r) {n : Nat} (hn : n ≤ s.bib) :
    r.avail n = true := by
  unfold RefR.avail
  cases hs : r.strict
  · simp
  · have h1 := h.hstr (by rw [← h.hstrict]; exact hs)
    have h2 := Nat.mul_le_mul_right W h1
    have h3 := h.length_stream
    have h4 := h.hpos
    simp
    omega

theorem RelBE.not_avail {s : BufR W} {r : RefR} (h : RelBE s r) {n : Nat}
    (hs : s.back.strict = true) (hlt : s.back.data.length * W < r.pos + n) : r.avail n = false := by
  have h3 := h.length_stream
  simp only [RefR.avail, h.hstrict, hs]
  simp
  omega

/-- consuming `n` buffered bits -/
theorem RelBE.advance {s : BufR W} {r : RefR} (h : RelBE s r) {n : Nat} (hn : n ≤ s.bib) :
    RelBE { s with bib := s.bib - n, buffer := s.buffer <<< n } { r with pos := r.pos + n } := by
  obtain ⟨h1, h2, h3, h4, h5, h6, h7, h8, h9⟩ := h
  refine ⟨?_, h2, h3, h4, h5, ?_, h7, ?_, ?_⟩
  · show s.bib - n < 2 * W
    omega
  · show r.pos + n + (s.bib - n) = s.back.pos * W
    omega
  · intro i hi
    simp only [] at hi
    show (s.buffer <<< n).getLsbD (2 * W - 1 - i) = bitZ r.stream (r.pos + n + i)
    rw [BitVec.getLsbD_shiftLeft]
    have e1 : 2 * W - 1 - i < 2 * W := by omega
    have e2 : ¬ (2 * W - 1 - i < n) := by omega
    have e3 : 2 * W - 1 - i - n = 2 * W - 1 - (n + i) := by omega
    rw [e3, h8 (n + i) (by omega), Nat.add_assoc]
    simp [e1, e2]
  · intro j hj
    simp only [] at hj
    show (s.buffer <<< n).getLsbD j = false
    rw [BitVec.getLsbD_shiftLeft]
    by_cases hjn : j < n
    · simp [hjn]
    · rw [h9 (j - n) (by omega)]
      simp

/-- the state after reading word `m.pos` and discarding its `k` top bits -/
theorem relBE_after_word (hW : 0 < W) (m : MemR W) (k : Nat) (r' : RefR)
    (he : r'.e = .be) (hstrict : r'.strict = m.strict) (hpm : r'.peekMax = W)
    (hstream : r'.stream = m.data.flatMap (wordBits .be))
    (hpos : r'.pos = m.pos * W + k) (hk : k ≤ W)
    (hstr : m.strict = true → m.pos < m.data.length) :
    RelBE { buffer := (m.data.getD m.pos 0).setWidth (2 * W) <<< (W + k), bib := W - k,
            back := { m with pos := m.pos + 1 } } r' := by
  refine ⟨?_, he, hstrict, hpm, hstream, ?_, ?_, ?_, ?_⟩
  · show W - k < 2 * W
    omega
  · show r'.pos + (W - k) = (m.pos + 1) * W
    rw [Nat.succ_mul]; omega
  · intro hs
    exact hstr hs
  · intro i hi
    simp only [] at hi
    show ((m.data.getD m.pos 0).setWidth (2 * W) <<< (W + k)).getLsbD (2 * W - 1 - i)
      = bitZ r'.stream (r'.pos + i)
    have e1 : 2 * W - 1 - i < 2 * W := by omega
    have e2 : ¬ (2 * W - 1 - i < W + k) := by omega
    have e3 : 2 * W - 1 - i - (W + k) = W - 1 - (k + i) := by omega
    have e4 : W - 1 - (k + i) < 2 * W := by omega
    rw [BitVec.getLsbD_shiftLeft, BitVec.getLsbD_setWidth, e3,
      word_getLsbD_be _ _ _ (by omega : k + i < W), hstream, hpos]
    simp [e1, e2, e4, Nat.add_assoc]
  · intro j hj
    simp only [] at hj
    show ((m.data.getD m.pos 0).setWidth (2 * W) <<< (W + k)).getLsbD j = false
    have e2 : j < W + k := by omega
    rw [BitVec.getLsbD_shiftLeft]
    simp [e2]

theorem skipAfterPeekBE_rel {s : BufR W} {r : RefR} (h : RelBE s r) {k : Nat} (hk : k ≤ s.bib) :
    RelBE (skipAfterPeekBE s k) (RefR.skipAfterPeek r k) :=
  h.advance hk

/-- a number whose bits are the `n` top bits of the buffer is the reference field value -/
theorem RelBE.top_bits {s : BufR W} {r : RefR} (h : RelBE s r) {n : Nat} (hn : n ≤ s.bib) (v : Nat)
    (hv1 : ∀ i, i < n → v.testBit i = s.buffer.getLsbD (2 * W - n + i))
    (hv2 : ∀ i, n ≤ i → v.testBit i = false) :
    v = bitsVal r.e (takeZ n r.rest) := by
  rw [h.he]
  apply eq_bitsVal_be _ hv2
  intro i hi
  have hb := h.bib_lt
  rw [hv1 i hi, ← h.hin (n - 1 - i) (by omega)]
  congr 1
  omega

/-! ### refill / peek -/

theorem refillBE_err {s : BufR W} (hb : s.bib ≤ W) (hs : s.back.strict = true)
    (hp : s.back.data.length ≤ s.back.pos) : refillBE s = .err .eof := by
  unfold refillBE
  rw [if_neg (by omega), MemR.readWord_err _ hs hp]

theorem refillBE_ok {s : BufR W} {r : RefR} (h : RelBE s r) (hb : s.bib < W)
    (hp : s.back.strict = true → s.back.pos < s.back.data.length) :
    ∃ s', refillBE s = .ok s' ∧ RelBE s' r ∧ s'.bib = s.bib + W := by
  unfold refillBE
  rw [if_neg (by omega), MemR.readWord_ok _ hp]
  refine ⟨_, rfl, ?_, rfl⟩
  obtain ⟨h1, h2, h3, h4, h5, h6, h7, h8, h9⟩ := h
  refine ⟨?_, h2, h3, h4, h5, ?_, ?_, ?_, ?_⟩
  · show s.bib + W < 2 * W
    omega
  · show r.pos + (s.bib + W) = (s.back.pos + 1) * W
    rw [Nat.succ_mul]; omega
  · intro hs
    exact hp hs
  · intro i hi
    simp only [] at hi
    show (s.buffer ||| ((s.back.data.getD s.back.pos 0).setWidth (2 * W)
      <<< (2 * W - (s.bib + W)))).getLsbD (2 * W - 1 - i) = bitZ r.stream (r.pos + i)
    rw [BitVec.getLsbD_or, BitVec.getLsbD_shiftLeft, BitVec.getLsbD_setWidth]
    have e1 : 2 * W - 1 - i < 2 * W := by omega
    by_cases hi' : i < s.bib
    · rw [h8 i hi', BitVec.getLsbD_of_ge (s.back.data.getD s.back.pos 0) _
        (by omega : W ≤ 2 * W - 1 - i - (2 * W - (s.bib + W)))]
      simp
    · have e2 : ¬ (2 * W - 1 - i < 2 * W - (s.bib + W)) := by omega
      have e3 : 2 * W - 1 - i - (2 * W - (s.bib + W)) = W - 1 - (i - s.bib) := by omega
      have e4 : W - 1 - (i - s.bib) < 2 * W := by omega
      rw [h9 _ (by omega), e3, word_getLsbD_be _ _ _ (by omega : i - s.bib < W), h5]
      have e5 : s.back.pos * W + (i - s.bib) = r.pos + i := by omega
      simp [e1, e2, e4, e5]
  · intro j hj
    simp only [] at hj
    show (s.buffer ||| ((s.back.data.getD s.back.pos 0).setWidth (2 * W)
      <<< (2 * W - (s.bib + W)))).getLsbD j = false
    have e2 : j < 2 * W - (s.bib + W) := by omega
    rw [BitVec.getLsbD_or, BitVec.getLsbD_shiftLeft, h9 j (by omega)]
    simp [e2]

theorem peekBE_value {s : BufR W} {r : RefR} (h : RelBE s r) {n : Nat} (hn : n ≤ s.bib) :
    (s.buffer >>> (2 * W - n)).toNat = bitsVal r.e (takeZ n r.rest) := by
  have hb := h.bib_lt
  apply h.top_bits hn
  · intro i hi
    rw [BitVec.testBit_toNat, BitVec.getLsbD_ushiftRight]
  · intro i hi
    rw [BitVec.testBit_toNat, BitVec.getLsbD_ushiftRight,
      BitVec.getLsbD_of_ge _ _ (by omega : 2 * W ≤ 2 * W - n + i)]

theorem peekBitsBE_sim {s : BufR W} {r : RefR} (h : RelBE s r) {n : Nat} (h1 : 1 ≤ n) (hn : n ≤ W) :
    ResRel (fun a b => a.1 = b.1 ∧ RelBE a.2 b.2) (peekBitsBE s n) (RefR.peekBits r n) := by
  have c1 : ¬(n = 0 ∨ n > 2 * W) := by omega
  have c2 : ¬(n = 0 ∨ n > r.peekMax) := by rw [h.hpm]; omega
  simp only [peekBitsBE, RefR.peekBits, if_neg c1, if_neg c2]
  by_cases hnb : n ≤ s.bib
  · have c3 : ¬ n > s.bib := by omega
    simp only [if_neg c3, if_pos (h.avail_of_le hnb)]
    exact ⟨peekBE_value h hnb, h⟩
  · have c3 : n > s.bib := by omega
    simp only [if_pos c3]
    by_cases hp : s.back.strict = true ∧ s.back.data.length ≤ s.back.pos
    · rw [refillBE_err (by omega) hp.1 hp.2]
      have := Nat.mul_le_mul_right W hp.2
      have h4 := h.hpos
      rw [h.not_avail hp.1 (by omega)]
      simp [ResRel]
    · obtain ⟨s', hs', hrel, hbib⟩ := refillBE_ok h (by omega) (by
        intro hs; exact Nat.lt_of_not_le (fun hle => hp ⟨hs, hle⟩))
      rw [hs']
      have c4 : ¬ n > s'.bib := by omega
      simp only [if_neg c4, if_pos (hrel.avail_of_le (n := n) (by omega))]
      exact ⟨peekBE_value hrel (by omega), hrel⟩

theorem peekBitsBE_bib {s s1 : BufR W} {n v : Nat} (h : peekBitsBE s n = .ok (v, s1)) : n ≤ s1.bib := by
  unfold peekBitsBE at h
  by_cases c1 : (n = 0 ∨ n > 2 * W)
  · simp [c1] at h
  · simp only [if_neg c1] at h
    cases hr : (if n > s.bib then refillBE s else Res.ok s) with
    | ok s' =>
      simp only [hr] at h
      by_cases c2 : n > s'.bib
      · simp [c2] at h
      · simp only [if_neg c2, Res.ok.injEq, Prod.mk.injEq] at h
        obtain ⟨_, rfl⟩ := h
        omega
    | _ => simp [hr] at h

/-! ### skipBits -/

/-- the various spellings of the post-word buffer used by the Rust -/
theorem shl_sub_one_add_one {w : Nat} (x : BitVec w) {a : Nat} (ha : 0 < a) :
    (x <<< (a - 1)) <<< 1 = x <<< a := by
  rw [← BitVec.shiftLeft_add]
  congr 1
  omega

theorem skipBitsBE_sim (hW : 0 < W) {s : BufR W} {r : RefR} (h : RelBE s r) (n : Nat) :
    ResRel (fun a b => RelBE a b) (skipBitsBE s n) (RefR.skipBits r n) := by
  unfold skipBitsBE RefR.skipBits
  by_cases hnb : n ≤ s.bib
  · simp only [if_pos hnb, if_pos (h.avail_of_le hnb)]
    exact h.advance hnb
  · simp only [if_neg hnb]
    have hpost := skipWords_spec hW (n - s.bib) s.back (n - s.bib) (Nat.le_refl _) h.hstr
    have hpos := h.hpos
    revert hpost
    generalize skipWords (n - s.bib) s.back (n - s.bib) = x
    match x with
    | .ok (n', m') =>
      simp only [SkipPost]
      rintro ⟨a1, a2, a3, a4, a5, a6⟩
      have a5' := a5 (by omega)
      by_cases hp : m'.strict = true ∧ m'.data.length ≤ m'.pos
      · rw [MemR.readWord_err _ hp.1 hp.2]
        have := Nat.mul_le_mul_right W hp.2
        rw [a1] at this
        rw [h.not_avail (a2 ▸ hp.1) (by omega)]
        simp [ResRel]
      · have hp' : m'.strict = true → m'.pos < m'.data.length := by
          intro hs; exact Nat.lt_of_not_le (fun hle => hp ⟨hs, hle⟩)
        rw [MemR.readWord_ok _ hp']
        have hav : r.avail n = true := by
          unfold RefR.avail
          cases hs : r.strict
          · simp
          · have h1 := hp' (by rw [a2, ← h.hstrict]; exact hs)
            have h2 : (m'.pos + 1) * W ≤ m'.data.length * W := Nat.mul_le_mul_right W h1
            have h3 := h.length_stream
            have e : (m'.pos + 1) * W = m'.pos * W + W := Nat.succ_mul _ _
            rw [a1] at h2
            simp
            omega
        simp only [if_pos hav]
        show RelBE _ _
        have e0 : 2 * W - 1 - (W - n') = (W + n') - 1 := by omega
        rw [e0, shl_sub_one_add_one _ (by omega)]
        apply relBE_after_word hW m' n' { r with pos := r.pos + n } h.he
          (by rw [a2]; exact h.hstrict) h.hpm (by rw [a1]; exact h.hstream) _ a4 hp'
        show r.pos + n = m'.pos * W + n'
        omega
    | .err e' =>
      simp only [SkipPost]
      rintro ⟨a1, a2, a3⟩
      rw [h.not_avail a2 (by omega)]
      simp [ResRel, a1]
    | .panic => simp [SkipPost]
    | .dpanic => simp [SkipPost]

/-! ### readBits -/

/-- postcondition of the whole-word loop of `read_bits`: `P` is the position the read started at,
    `N` the total number of bits asked for; `N - nr` bits have been accumulated -/
def RWPostBE (stream : List Bool) (P N : Nat) (m : MemR W) : Res (BitVec 64 × Nat × MemR W) → Prop
  | .ok (res, nr, m') => m'.data = m.data ∧ m'.strict = m.strict ∧ P + (N - nr) = m'.pos * W ∧
      (m.strict = true → m'.pos ≤ m.data.length) ∧
      (∀ i, i < N - nr → res.getLsbD i = bitZ stream (P + (N - nr - 1 - i))) ∧
      (∀ i, N - nr ≤ i → res.getLsbD i = false) ∧ 0 < nr ∧ nr ≤ W ∧ nr ≤ N
  | .err e => e = .eof ∧ m.strict = true ∧ m.data.length * W < P + N
  | _ => False

theorem readWordsBE_spec (hW : 0 < W) (stream : List Bool) (P N : Nat) (hN : N ≤ 64)
    (fuel : Nat) (m : MemR W) (res : BitVec 64) (c : Nat)
    (hstream : stream = m.data.flatMap (wordBits .be))
    (hpos : P + c = m.pos * W) (hstr : m.strict = true → m.pos ≤ m.data.length)
    (hin : ∀ i, i < c → res.getLsbD i = bitZ stream (P + (c - 1 - i)))
    (hout : ∀ i, c ≤ i → res.getLsbD i = false)
    (hc : c < N) (hfuel : N - c ≤ fuel) :
    RWPostBE stream P N m (readWordsBE fuel m res (N - c)) := by
  induction fuel generalizing m res c with
  | zero => omega
  | succ fuel ih =>
    unfold readWordsBE
    have ec : N - (N - c) = c := by omega
    by_cases hcond : N - c > W
    · simp only [if_pos hcond]
      by_cases hp : m.strict = true ∧ m.data.length ≤ m.pos
      · rw [MemR.readWord_err _ hp.1 hp.2]
        have := Nat.mul_le_mul_right W hp.2
        refine ⟨rfl, hp.1, ?_⟩
        omega
      · have hp' : m.strict = true → m.pos < m.data.length := by
          intro hs; exact Nat.lt_of_not_le (fun hle => hp ⟨hs, hle⟩)
        rw [MemR.readWord_ok _ hp']
        simp only []
        have e : (m.pos + 1) * W = m.pos * W + W := Nat.succ_mul _ _
        rw [Nat.sub_sub]
        have := ih { m with pos := m.pos + 1 }
          ((res <<< W) ||| (m.data.getD m.pos 0).setWidth 64) (c + W) hstream
          (by show P + (c + W) = (m.pos + 1) * W; omega) (fun hs => hp' hs)
          (by
            intro i hi
            rw [BitVec.getLsbD_or, BitVec.getLsbD_shiftLeft, BitVec.getLsbD_setWidth]
            have e0 : i < 64 := by omega
            by_cases hi' : i < W
            · have e1 : W - 1 - (W - 1 - i) = i := by omega
              have := word_getLsbD_be m.data m.pos (W - 1 - i) (by omega)
              rw [e1] at this
              rw [this, hstream]
              have e3 : m.pos * W + (W - 1 - i) = P + (c + W - 1 - i) := by omega
              simp [hi', e0, e3]
            · rw [hin (i - W) (by omega), BitVec.getLsbD_of_ge _ _ (by omega : W ≤ i)]
              have e3 : c - 1 - (i - W) = c + W - 1 - i := by omega
              simp [hi', e0, e3])
          (by
            intro i hi
            rw [BitVec.getLsbD_or, BitVec.getLsbD_shiftLeft, BitVec.getLsbD_setWidth,
              hout (i - W) (by omega), BitVec.getLsbD_of_ge _ _ (by omega : W ≤ i)]
            simp)
          (by omega) (by omega)
        exact this
    · simp only [if_neg hcond]
      refine ⟨rfl, rfl, ?_, hstr, ?_, ?_, by omega, by omega, by omega⟩
      · rw [ec]; exact hpos
      · rw [ec]; exact hin
      · rw [ec]; exact hout

theorem readBitsBE_sim (hW : 0 < W) (hW64 : W ≤ 64) {s : BufR W} {r : RefR} (h : RelBE s r) (n : Nat) :
    ResRel (fun a b => a.1 = b.1 ∧ RelBE a.2 b.2) (readBitsBE s n) (RefR.readBits r n) := by
  unfold readBitsBE RefR.readBits
  have hb := h.bib_lt
  by_cases hn : n > 64
  · simp [if_pos hn, ResRel]
  · simp only [if_neg hn]
    by_cases hnb : n ≤ s.bib
    · simp only [if_pos hnb, if_pos (h.avail_of_le hnb)]
      refine ⟨?_, h.advance hnb⟩
      apply h.top_bits hnb
      · intro i hi
        rw [BitVec.testBit_toNat, BitVec.getLsbD_setWidth, BitVec.getLsbD_ushiftRight,
          BitVec.getLsbD_ushiftRight]
        have e0 : i < 64 := by omega
        have e1 : 2 * W - n - 1 + (1 + i) = 2 * W - n + i := by omega
        simp [e0, e1]
      · intro i hi
        rw [BitVec.testBit_toNat, BitVec.getLsbD_setWidth, BitVec.getLsbD_ushiftRight,
          BitVec.getLsbD_ushiftRight,
          BitVec.getLsbD_of_ge _ _ (by omega : 2 * W ≤ 2 * W - n - 1 + (1 + i))]
        simp
    · simp only [if_neg hnb]
      have hpost := readWordsBE_spec hW r.stream r.pos n (by omega) 64 s.back
        (((s.buffer >>> (2 * W - 1 - s.bib)) >>> 1).setWidth 64) s.bib h.hstream h.hpos h.hstr
        (by
          intro i hi
          rw [BitVec.getLsbD_setWidth, BitVec.getLsbD_ushiftRight, BitVec.getLsbD_ushiftRight,
            ← h.hin (s.bib - 1 - i) (by omega)]
          have e0 : i < 64 := by omega
          have e1 : 2 * W - 1 - s.bib + (1 + i) = 2 * W - 1 - (s.bib - 1 - i) := by omega
          simp [e0, e1])
        (by
          intro i hi
          rw [BitVec.getLsbD_setWidth, BitVec.getLsbD_ushiftRight, BitVec.getLsbD_ushiftRight,
            BitVec.getLsbD_of_ge _ _ (by omega : 2 * W ≤ 2 * W - 1 - s.bib + (1 + i))]
          simp)
        (by omega) (by omega)
      revert hpost
      generalize readWordsBE 64 s.back (((s.buffer >>> (2 * W - 1 - s.bib)) >>> 1).setWidth 64)
        (n - s.bib) = x
      match x with
      | .ok (res, nr, m') =>
        simp only [RWPostBE]
        rintro ⟨a1, a2, a3, a4, a5, a6, a7, a8, a9⟩
        by_cases hp : m'.strict = true ∧ m'.data.length ≤ m'.pos
        · rw [MemR.readWord_err _ hp.1 hp.2]
          have := Nat.mul_le_mul_right W hp.2
          rw [a1] at this
          rw [h.not_avail (a2 ▸ hp.1) (by omega)]
          simp [ResRel]
        · have hp' : m'.strict = true → m'.pos < m'.data.length := by
            intro hs; exact Nat.lt_of_not_le (fun hle => hp ⟨hs, hle⟩)
          rw [MemR.readWord_ok _ hp']
          have hav : r.avail n = true := by
            unfold RefR.avail
            cases hs : r.strict
            · simp
            · have h1 := hp' (by rw [a2, ← h.hstrict]; exact hs)
              have h2 : (m'.pos + 1) * W ≤ m'.data.length * W := Nat.mul_le_mul_right W h1
              have h3 := h.length_stream
              have e : (m'.pos + 1) * W = m'.pos * W + W := Nat.succ_mul _ _
              rw [a1] at h2
              simp
              omega
          simp only [if_pos hav]
          refine ⟨?_, ?_⟩
          · show BitVec.toNat _ = bitsVal r.e (takeZ n r.rest)
            rw [h.he, shl_sub_one_add_one _ a7]
            apply eq_bitsVal_be
            · intro i hi
              rw [BitVec.testBit_toNat, BitVec.getLsbD_or, BitVec.getLsbD_shiftLeft,
                BitVec.getLsbD_ushiftRight, BitVec.getLsbD_setWidth]
              have e0 : i < 64 := by omega
              by_cases hi' : i < nr
              · have e1 : W - nr + i < 64 := by omega
                have e2 : W - 1 - (nr - 1 - i) = W - nr + i := by omega
                have := word_getLsbD_be m'.data m'.pos (nr - 1 - i) (by omega)
                rw [e2] at this
                rw [this, a1, ← h.hstream]
                have e3 : m'.pos * W + (nr - 1 - i) = r.pos + (n - 1 - i) := by omega
                simp [hi', e1, e3]
              · rw [a5 (i - nr) (by omega), BitVec.getLsbD_of_ge _ _ (by omega : W ≤ W - nr + i)]
                have e3 : n - nr - 1 - (i - nr) = n - 1 - i := by omega
                simp [hi', e0, e3]
            · intro i hi
              rw [BitVec.testBit_toNat, BitVec.getLsbD_or, BitVec.getLsbD_shiftLeft,
                BitVec.getLsbD_ushiftRight, BitVec.getLsbD_setWidth,
                a6 (i - nr) (by omega), BitVec.getLsbD_of_ge _ _ (by omega : W ≤ W - nr + i)]
              simp
          · show RelBE _ _
            have e0 : 2 * W - (W - nr) - 1 = (W + nr) - 1 := by omega
            dsimp only
            rw [e0, shl_sub_one_add_one _ (by omega)]
            apply relBE_after_word hW m' nr { r with pos := r.pos + n } h.he
              (by rw [a2]; exact h.hstrict) h.hpm (by rw [a1]; exact h.hstream) _ a8 hp'
            show r.pos + n = m'.pos * W + nr
            omega
      | .err e' =>
        simp only [RWPostBE]
        rintro ⟨a1, a2, a3⟩
        rw [h.not_avail a2 (by omega)]
        simp [ResRel, a1]
      | .panic => simp [RWPostBE]
      | .dpanic => simp [RWPostBE]

/-! ### readUnary -/

theorem word_getMsbD_be (data : List (BitVec W)) (j i : Nat) (h : i < W) :
    (data.getD j 0).getMsbD i = bitZ (data.flatMap (wordBits .be)) (j * W + i) := by
  rw [BitVec.getMsbD_eq_getLsbD, word_getLsbD_be _ _ _ h]
  simp [h]

theorem RelBE.msb {s : BufR W} {r : RefR} (h : RelBE s r) {i : Nat} (hi : i < s.bib) :
    s.buffer.getMsbD i = bitZ r.stream (r.pos + i) := by
  have hb := h.bib_lt
  have : i < 2 * W := by omega
  rw [BitVec.getMsbD_eq_getLsbD, h.hin i hi]
  simp [this]

theorem unaryWordsBE_spec (hW : 0 < W) (fuel : Nat) (m : MemR W) (res : Nat) (r : RefR)
    (he : r.e = .be) (hstrict : r.strict = m.strict) (hpm : r.peekMax = W)
    (hstream : r.stream = m.data.flatMap (wordBits .be))
    (hpos : r.pos + res = m.pos * W) (hz : ∀ i, i < res → bitZ r.stream (r.pos + i) = false)
    (hstr : m.strict = true → m.pos ≤ m.data.length) (hfuel : m.data.length + 2 - m.pos ≤ fuel) :
    ResRel (fun a b => a.1 = b.1 ∧ RelBE a.2 b.2) (unaryWordsBE fuel m res) (RefR.readUnary r) := by
  induction fuel generalizing m res with
  | zero =>
    have hp : m.data.length ≤ m.pos := by omega
    have hs : m.strict = false := by
      cases hst : m.strict
      · rfl
      · have := hstr hst; omega
    rw [readUnary_none (none_ahead m res r hstream hpos hz hp), hstrict, hs]
    simp [unaryWordsBE, ResRel]
  | succ fuel ih =>
    unfold unaryWordsBE
    by_cases hp : m.strict = true ∧ m.data.length ≤ m.pos
    · rw [MemR.readWord_err _ hp.1 hp.2, readUnary_none (none_ahead m res r hstream hpos hz hp.2),
        hstrict, hp.1]
      simp [ResRel]
    · have hp' : m.strict = true → m.pos < m.data.length := by
        intro hs; exact Nat.lt_of_not_le (fun hle => hp ⟨hs, hle⟩)
      rw [MemR.readWord_ok _ hp']
      simp only []
      have e : (m.pos + 1) * W = m.pos * W + W := Nat.succ_mul _ _
      have hword : ∀ i, res ≤ i → i < res + W →
          bitZ r.stream (r.pos + i) = (m.data.getD m.pos 0).getMsbD (i - res) := by
        intro i h1 h2
        rw [word_getMsbD_be _ _ _ (by omega : i - res < W), hstream]
        congr 1
        omega
      by_cases hw : m.data.getD m.pos 0 ≠ 0
      · simp only [if_pos hw]
        have hz1 := clz_lt_of_ne_zero _ hw
        have hz2 := clz_one _ hz1
        have hz3 := clz_zero_below (m.data.getD m.pos 0)
        generalize clz (m.data.getD m.pos 0) = z at hz1 hz2 hz3
        rw [readUnary_some (z := res + z)
          (by
            intro i hi
            by_cases hi' : i < res
            · exact hz i hi'
            · rw [hword i (by omega) (by omega)]
              exact hz3 _ (by omega))
          (by
            rw [hword _ (by omega) (by omega)]
            have : res + z - res = z := by omega
            rw [this]; exact hz2)]
        refine ⟨rfl, ?_⟩
        show RelBE { buffer := ((m.data.getD m.pos 0).setWidth (2 * W) <<< (W + z)) <<< 1,
                     bib := W - z - 1, back := { m with pos := m.pos + 1 } } _
        rw [← BitVec.shiftLeft_add, Nat.sub_sub, Nat.add_assoc]
        apply relBE_after_word hW m (z + 1) { r with pos := r.pos + (res + z) + 1 } he hstrict hpm
          hstream _ (by omega) hp'
        show r.pos + (res + z) + 1 = m.pos * W + (z + 1)
        omega
      · have hw0 : m.data.getD m.pos 0 = 0 := by
          by_cases h : m.data.getD m.pos 0 = 0
          · exact h
          · exact absurd h hw
        simp only [if_neg hw]
        apply ih { m with pos := m.pos + 1 } (res + W) hstrict hstream
        · show r.pos + (res + W) = (m.pos + 1) * W
          omega
        · intro i hi
          by_cases hi' : i < res
          · exact hz i hi'
          · rw [hword i (by omega) hi, hw0]
            simp
        · intro hs
          exact hp' hs
        · show m.data.length + 2 - (m.pos + 1) ≤ fuel
          omega

theorem readUnaryBE_sim (hW : 0 < W) {s : BufR W} {r : RefR} (h : RelBE s r) :
    ResRel (fun a b => a.1 = b.1 ∧ RelBE a.2 b.2) (readUnaryBE s) (RefR.readUnary r) := by
  unfold readUnaryBE
  simp only []
  by_cases hc : clz s.buffer < s.bib
  · simp only [if_pos hc]
    have hb := h.bib_lt
    have hz2 := clz_one s.buffer (by omega)
    have hz3 := clz_zero_below s.buffer
    generalize clz s.buffer = z at hc hz2 hz3
    rw [readUnary_some (z := z)
      (by intro i hi; rw [← h.msb (by omega)]; exact hz3 i hi)
      (by rw [← h.msb hc]; exact hz2)]
    refine ⟨rfl, ?_⟩
    have := h.advance (n := z + 1) (by omega)
    rw [BitVec.shiftLeft_add] at this
    exact this
  · simp only [if_neg hc]
    apply unaryWordsBE_spec hW _ s.back s.bib r h.he h.hstrict h.hpm h.hstream h.hpos _ h.hstr
      (Nat.le_refl _)
    intro i hi
    rw [← h.msb hi]
    exact clz_zero_below _ _ (by omega)

/-! ### setBitPos -/

theorem setBitPosBE_sim (hW : 0 < W) {s : BufR W} {r : RefR} (h : RelBE s r) {p : Nat}
    (hp : p ≤ r.stream.length) :
    ResRel (fun a b => RelBE a b) (setBitPosBE s p) (.ok (r.seek p)) := by
  have hlen := h.length_stream
  have hdiv : p / W ≤ s.back.data.length :=
    Nat.div_le_of_le_mul (by rw [Nat.mul_comm]; omega)
  have hdm : p / W * W + p % W = p := Nat.div_add_mod' p W
  have hmod : p % W < W := Nat.mod_lt _ hW
  unfold setBitPosBE MemR.setWordPos
  have c1 : ¬ ((s.back.strict && decide (p / W > s.back.data.length)) = true) := by
    simp; intro _; omega
  simp only [if_neg c1]
  by_cases hoff : p % W ≠ 0
  · simp only [if_pos hoff]
    have hlt : p / W < s.back.data.length := by
      apply Nat.div_lt_of_lt_mul
      rw [Nat.mul_comm]
      apply Nat.lt_of_le_of_ne (by omega)
      intro he
      apply hoff
      rw [he, Nat.mul_mod_left]
    rw [MemR.readWord_ok _ (fun _ => hlt)]
    show RelBE _ _
    have e0 : 2 * W - (W - p % W) = W + p % W := by omega
    dsimp only
    rw [e0]
    apply relBE_after_word hW { s.back with pos := p / W } (p % W) (r.seek p) h.he h.hstrict h.hpm
      h.hstream _ (Nat.le_of_lt hmod) (fun _ => hlt)
    show p = p / W * W + p % W
    omega
  · have hoff0 : p % W = 0 := by omega
    simp only [if_neg hoff]
    refine ⟨by show 0 < 2 * W; omega, h.he, h.hstrict, h.hpm, h.hstream, ?_, fun _ => hdiv, ?_, ?_⟩
    · show p + 0 = p / W * W
      omega
    · intro i hi
      exact absurd hi (Nat.not_lt_zero _)
    · intro i _
      show (0 : BitVec (2 * W)).getLsbD i = false
      simp

theorem bitPos_eq_BE {s : BufR W} {r : RefR} (h : RelBE s r) : s.bitPos = r.pos := by
  have := h.hpos
  unfold bitPos
  omega

end BufR
end Dsi
