/-
  Lemmas about the `FindChangePoints` model: the exponential phase brackets the least change
  point, the binary phase finds it, neither runs out of fuel, overflows or trips a debug
  assertion on a non-decreasing function.
-/
import Dsi.Glue.FindChange
namespace Dsi
namespace FC

/-- non-decreasing on the values the search may probe (`< 2^64 - 1`) -/
def Mono (f : Nat → Nat) : Prop := ∀ a b, a ≤ b → b < U64MAX → f a ≤ f b

theorem U64MAX_eq : U64MAX = 18446744073709551615 := by decide

theorem two_pow_64 : (2 : Nat) ^ 64 = 18446744073709551616 := by decide

theorem pow_le_63 {j : Nat} (h : j ≤ 63) : 2 ^ j ≤ 9223372036854775808 := by
  have := Nat.pow_le_pow_right (n := 2) (by decide) h
  simpa using this

theorem pow_ge_64 {j : Nat} (h : 64 ≤ j) : 18446744073709551616 ≤ 2 ^ j := by
  have := Nat.pow_le_pow_right (n := 2) (by decide) h
  simpa using this

/-- between the anchor and a point with the anchor's value a non-decreasing function is constant -/
theorem Mono.const_between {f : Nat → Nat} (hm : Mono f) {cur y z : Nat}
    (h1 : cur ≤ y) (h2 : y ≤ z) (hz : z < U64MAX) (hv : f z = f cur) : f y = f cur := by
  have a := hm cur y h1 (by omega)
  have b := hm y z h2 hz
  omega

/-! ### exponential phase -/

theorem expPhase_spec {f : Nat → Nat} (hm : Mono f) (cur : Nat) :
    ∀ fuel i, i ≤ 63 → 64 - i ≤ fuel →
    ∃ r, expPhase f cur (f cur) fuel (2 ^ i) = .ok r ∧
      (∀ step, r = some step → ∃ j, i ≤ j ∧ j ≤ 63 ∧ step = 2 ^ j ∧ cur + 2 ^ j < U64MAX ∧
          f (cur + 2 ^ j) ≠ f cur ∧ ∀ j', i ≤ j' → j' < j → f (cur + 2 ^ j') = f cur) ∧
      (r = none → ∀ j, i ≤ j → j ≤ 63 → cur + 2 ^ j < U64MAX → f (cur + 2 ^ j) = f cur) := by
  intro fuel
  induction fuel with
  | zero => intro i hi hf; omega
  | succ fuel ih =>
    intro i hi hf
    have hU := U64MAX_eq
    have hpos : 0 < 2 ^ i := Nat.two_pow_pos i
    unfold expPhase
    by_cases h1 : U64MAX - cur ≤ 2 ^ i
    · refine ⟨none, by simp [h1], by simp, ?_⟩
      intro _ j hij _ hlt
      have := Nat.pow_le_pow_right (n := 2) (by decide) hij
      omega
    · have hlt : cur + 2 ^ i < U64MAX := by omega
      have h2 : ¬ cur + 2 ^ i ≥ 2 ^ 64 := by rw [two_pow_64]; rw [U64MAX_eq] at hlt; omega
      have h3 : ¬ f (cur + 2 ^ i) < f cur := by
        have := hm cur (cur + 2 ^ i) (by omega) hlt
        omega
      by_cases h4 : f (cur + 2 ^ i) ≠ f cur
      · refine ⟨some (2 ^ i), by simp [h1, h2, h3, h4], ?_, by simp⟩
        intro step hs
        refine ⟨i, Nat.le_refl _, hi, by simpa using hs.symm, hlt, h4, ?_⟩
        intro j' a b; omega
      · have h4' : f (cur + 2 ^ i) = f cur := by simpa using h4
        by_cases h5 : 2 ^ i * 2 ≥ 2 ^ 64
        · have hi63 : i = 63 := by
            rcases Nat.lt_or_ge i 63 with h | h
            · have := pow_le_63 (j := i + 1) (by omega)
              rw [Nat.pow_succ] at this
              rw [two_pow_64] at h5; omega
            · omega
          refine ⟨none, by simp [h1, h2, h4', h5], by simp, ?_⟩
          intro _ j hij hj _
          have : j = i := by omega
          subst this; exact h4'
        · have hi' : i + 1 ≤ 63 := by
            rcases Nat.lt_or_ge i 63 with h | h
            · omega
            · have : i = 63 := by omega
              subst this
              exfalso; apply h5; decide
          obtain ⟨r, hr, hs, hn⟩ := ih (i + 1) hi' (by omega)
          have e : 2 ^ i * 2 = 2 ^ (i + 1) := by rw [Nat.pow_succ]
          have h5' : ¬ 2 ^ (i + 1) ≥ 2 ^ 64 := by rw [← e]; exact h5
          refine ⟨r, by simp only [e]; simp [h1, h2, h4', h5', hr], ?_, ?_⟩
          · intro step hst
            obtain ⟨j, a, b, c, d, e', g⟩ := hs step hst
            refine ⟨j, by omega, b, c, d, e', ?_⟩
            intro j' a' b'
            rcases Nat.eq_or_lt_of_le a' with h | h
            · subst h; exact h4'
            · exact g j' (by omega) b'
          · intro hnone j a b c
            rcases Nat.eq_or_lt_of_le a with h | h
            · subst h; exact h4'
            · exact hn hnone j (by omega) b c

/-! ### binary phase -/

theorem binPhase_spec {f : Nat → Nat} (hm : Mono f) (cur : Nat) :
    ∀ fuel left right, right - left < 2 ^ fuel → cur ≤ left → left ≤ right → right < U64MAX →
      (∀ y, cur ≤ y → y < left → f y = f cur) → f right ≠ f cur →
    ∃ x, binPhase f (f cur) (fuel + 1) left right = .ok x ∧ left ≤ x ∧ x ≤ right ∧ f x ≠ f cur ∧
      ∀ y, cur ≤ y → y < x → f y = f cur := by
  intro fuel
  induction fuel with
  | zero =>
    intro left right hw hc hlr hr hinv hne
    have : left = right := by simp at hw; omega
    subst this
    exact ⟨left, by simp [binPhase], Nat.le_refl _, Nat.le_refl _, hne, hinv⟩
  | succ fuel ih =>
    intro left right hw hc hlr hr hinv hne
    rw [Nat.pow_succ] at hw
    unfold binPhase
    by_cases h1 : left < right
    · have hmidlt : left + (right - left) / 2 < right := by omega
      have hmidge : left ≤ left + (right - left) / 2 := by omega
      have h3 : ¬ f (left + (right - left) / 2) < f cur := by
        have := hm cur (left + (right - left) / 2) (by omega) (by omega)
        omega
      by_cases h4 : f (left + (right - left) / 2) = f cur
      · have h5 : ¬ left + (right - left) / 2 + 1 ≥ 2 ^ 64 := by
          rw [two_pow_64]; rw [U64MAX_eq] at hr; omega
        obtain ⟨x, hx, a, b, c, d⟩ := ih (left + (right - left) / 2 + 1) right (by omega) (by omega) (by omega) hr
          (by
            intro y hy1 hy2
            exact hm.const_between hy1 (by omega) (by omega) h4) hne
        exact ⟨x, by simp [h1, h4, h5, hx], by omega, b, c, d⟩
      · obtain ⟨x, hx, a, b, c, d⟩ := ih left (left + (right - left) / 2) (by omega) hc hmidge (by omega) hinv h4
        exact ⟨x, by simp [h1, h3, h4, hx], a, by omega, c, d⟩
    · have : left = right := by omega
      subst this
      exact ⟨left, by simp, Nat.le_refl _, Nat.le_refl _, hne, hinv⟩

/-! ### `next` -/

/-- a state the iterator can be in after its first call -/
def Started (f : Nat → Nat) (s : FC) : Prop := s.prev = some (f s.current) ∧ s.current < U64MAX

/-- `x` is the least point after `cur` where `f` differs from `f cur` -/
def LeastChange (f : Nat → Nat) (cur x : Nat) : Prop :=
  cur < x ∧ f x ≠ f cur ∧ ∀ y, cur ≤ y → y < x → f y = f cur

/-- some probe `cur + 2^j` of the exponential search lies at or beyond `x` and below `2^64 - 1` -/
def InReach (cur x : Nat) : Prop := ∃ j, x ≤ cur + 2 ^ j ∧ cur + 2 ^ j < U64MAX

theorem next_first (f : Nat → Nat) :
    next f new = .ok (some (0, f 0), { current := 0, prev := some (f 0) }) := by
  simp [next, new]

theorem started_first (f : Nat → Nat) : Started f { current := 0, prev := some (f 0) } := by
  constructor
  · rfl
  · show 0 < U64MAX
    decide

theorem next_started {f : Nat → Nat} (hm : Mono f) {s : FC} (hs : Started f s) :
    (∃ x, LeastChange f s.current x ∧ InReach s.current x ∧
        next f s = .ok (some (x, f x), { current := x, prev := some (f x) }) ∧
        Started f { current := x, prev := some (f x) }) ∨
    ((¬ ∃ x, LeastChange f s.current x ∧ InReach s.current x) ∧ next f s = .ok (none, s)) := by
  obtain ⟨hp, hc⟩ := hs
  have hfirst : ¬ (s.current = 0 ∧ s.prev = none) := by simp [hp]
  have hpv : s.prevValue = f s.current := by simp [prevValue, hp]
  obtain ⟨r, hr, hsome, hnone⟩ := expPhase_spec hm s.current 65 0 (by omega) (by omega)
  simp only [Nat.pow_zero] at hr
  cases r with
  | none =>
    right
    refine ⟨?_, by simp [next, hfirst, hpv, hr]⟩
    rintro ⟨x, ⟨hx1, hx2, hx3⟩, j, hj1, hj2⟩
    have hj63 : j ≤ 63 := by
      rcases Nat.lt_or_ge j 64 with h | h
      · omega
      · have := pow_ge_64 h; rw [U64MAX_eq] at hj2; omega
    have := hnone rfl j (by omega) hj63 hj2
    exact hx2 (hm.const_between (by omega) hj1 hj2 this)
  | some step =>
    left
    obtain ⟨j, _, hj63, hstep, hlt, hne, hbefore⟩ := hsome step rfl
    subst hstep
    have hov : ¬ s.current + 2 ^ j ≥ 2 ^ 64 := by rw [two_pow_64]; rw [U64MAX_eq] at hlt; omega
    have hp63 := pow_le_63 hj63
    have hU := U64MAX_eq
    have hpos : 0 < 2 ^ j := Nat.two_pow_pos j
    -- the left end of the bracket still has the old value
    have hleft : f (s.current + 2 ^ j / 2) = f s.current := by
      rcases Nat.eq_zero_or_pos j with h | h
      · subst h; simp
      · have : 2 ^ j / 2 = 2 ^ (j - 1) := by
          have e : j = (j - 1) + 1 := by omega
          rw [e, Nat.pow_succ]; simp
        rw [this]; exact hbefore (j - 1) (by omega) (by omega)
    have hhalf : 2 ^ j / 2 ≤ 2 ^ j := Nat.div_le_self _ _
    obtain ⟨x, hx, hxl, hxr, hxne, hxbefore⟩ := binPhase_spec hm s.current 64
      (s.current + 2 ^ j / 2) (s.current + 2 ^ j)
      (by rw [two_pow_64]; omega) (by omega) (by omega) hlt
      (by
        intro y hy1 hy2
        exact hm.const_between hy1 (Nat.le_of_lt hy2) (by omega) hleft) hne
    have hxcur : s.current < x := by
      rcases Nat.lt_or_ge s.current x with h | h
      · exact h
      · have : x = s.current := by omega
        subst this; exact absurd rfl hxne
    have hmono : ¬ f x < f s.current := by
      have := hm s.current x (by omega) (by omega); omega
    refine ⟨x, ⟨hxcur, hxne, hxbefore⟩, ⟨j, hxr, hlt⟩, ?_, ⟨rfl, by simp; omega⟩⟩
    simp [next, hfirst, hpv, hr, hov, hx, hmono]

theorem leastChange_unique {f : Nat → Nat} {cur x x' : Nat}
    (h : LeastChange f cur x) (h' : LeastChange f cur x') : x = x' := by
  obtain ⟨a, b, c⟩ := h
  obtain ⟨a', b', c'⟩ := h'
  rcases Nat.lt_trichotomy x x' with h | h | h
  · exact absurd (c' x (by omega) h) b
  · exact h
  · exact absurd (c x' (by omega) h) b'

/-- every change point up to `2^63` is within reach of the search -/
theorem inReach_of_le {cur x : Nat} (h : cur < x) (hx : x ≤ 2 ^ 63) : InReach cur x := by
  -- the least `j` with `x - cur ≤ 2^j` is 0 or has `2^(j-1) < x - cur`
  have key : ∀ d j, d ≤ 2 ^ j → ∃ j', d ≤ 2 ^ j' ∧ (j' = 0 ∨ 2 ^ j' ≤ 2 * d - 2) := by
    intro d j
    induction j with
    | zero => intro hd; exact ⟨0, hd, Or.inl rfl⟩
    | succ j ih =>
      intro hd
      rcases Nat.lt_or_ge (2 ^ j) d with h1 | h1
      · exact ⟨j + 1, hd, Or.inr (by rw [Nat.pow_succ]; omega)⟩
      · exact ih h1
  obtain ⟨j, a, b⟩ := key (x - cur) (x - cur) (Nat.le_of_lt Nat.lt_two_pow_self)
  refine ⟨j, by omega, ?_⟩
  have h63 : (2 : Nat) ^ 63 = 9223372036854775808 := by decide
  rw [U64MAX_eq]
  rcases b with b | b
  · subst b; simp; omega
  · omega

/-! ### the reference used by the correspondence check (`specNext`) is the same specification -/

theorem reachTopAux_spec (cur : Nat) : ∀ n,
    (reachTopAux cur n = none → ∀ j, j < n → ¬ cur + 2 ^ j < U64MAX) ∧
    (∀ top, reachTopAux cur n = some top →
      ∃ j, j < n ∧ top = cur + 2 ^ j ∧ cur + 2 ^ j < U64MAX ∧ ∀ j', j' < n → cur + 2 ^ j' < U64MAX → j' ≤ j) := by
  intro n
  induction n with
  | zero => exact ⟨fun _ j hj => by omega, fun top h => by simp [reachTopAux] at h⟩
  | succ n ih =>
    unfold reachTopAux
    by_cases h : cur + 2 ^ n < U64MAX
    · simp only [h, if_true]
      refine ⟨fun h' => by simp at h', fun top ht => ?_⟩
      simp only [Option.some.injEq] at ht
      exact ⟨n, by omega, ht.symm, h, fun j' hj' _ => by omega⟩
    · simp only [h, if_false]
      refine ⟨fun h' j hj => ?_, fun top ht => ?_⟩
      · rcases Nat.eq_or_lt_of_le (Nat.le_of_lt_succ hj) with e | e
        · subst e; exact h
        · exact ih.1 h' j e
      · obtain ⟨j, a, b, c, d⟩ := ih.2 top ht
        refine ⟨j, by omega, b, c, fun j' hj' hlt => ?_⟩
        rcases Nat.eq_or_lt_of_le (Nat.le_of_lt_succ hj') with e | e
        · subst e; exact absurd hlt h
        · exact d j' e hlt

theorem inReach_iff_reachTop (cur x : Nat) :
    InReach cur x ↔ ∃ top, reachTop cur = some top ∧ x ≤ top := by
  have hU := U64MAX_eq
  constructor
  · rintro ⟨j, hj1, hj2⟩
    have hj : j < 64 := by
      rcases Nat.lt_or_ge j 64 with h | h
      · exact h
      · have := pow_ge_64 h; omega
    cases hr : reachTop cur with
    | none => exact absurd hj2 ((reachTopAux_spec cur 64).1 hr j hj)
    | some top =>
      obtain ⟨j0, _, b, _, d⟩ := (reachTopAux_spec cur 64).2 top hr
      have := d j hj hj2
      have := Nat.pow_le_pow_right (n := 2) (by decide) this
      exact ⟨top, rfl, by omega⟩
  · rintro ⟨top, hr, hx⟩
    obtain ⟨j0, _, b, c, _⟩ := (reachTopAux_spec cur 64).2 top hr
    exact ⟨j0, by omega, c⟩

theorem leastChange_spec {f : Nat → Nat} (hm : Mono f) (cur : Nat) :
    ∀ fuel lo hi, hi - lo ≤ 2 ^ fuel → cur ≤ lo → lo < hi → hi < U64MAX → f lo = f cur → f hi ≠ f cur →
      LeastChange f cur (leastChange f (f cur) fuel lo hi) ∧ leastChange f (f cur) fuel lo hi ≤ hi := by
  intro fuel
  induction fuel with
  | zero =>
    intro lo hi hw hc hlt hhi hlo hne
    simp at hw
    have : hi = lo + 1 := by omega
    subst this
    refine ⟨⟨by simp [leastChange]; omega, by simpa [leastChange] using hne, ?_⟩, by simp [leastChange]⟩
    intro y hy1 hy2
    simp only [leastChange] at hy2
    exact hm.const_between hy1 (by omega) (by omega) hlo
  | succ fuel ih =>
    intro lo hi hw hc hlt hhi hlo hne
    rw [Nat.pow_succ] at hw
    unfold leastChange
    by_cases h1 : hi ≤ lo + 1
    · have : hi = lo + 1 := by omega
      subst this
      rw [if_pos (Nat.le_refl _)]
      refine ⟨⟨by omega, hne, ?_⟩, Nat.le_refl _⟩
      intro y hy1 hy2
      exact hm.const_between hy1 (by omega) (by omega) hlo
    · simp only [h1, if_false]
      by_cases h2 : f ((lo + hi) / 2) = f cur
      · simp only [h2, if_true]
        exact ih ((lo + hi) / 2) hi (by omega) (by omega) (by omega) hhi h2 hne
      · simp only [h2, if_false]
        obtain ⟨a, b⟩ := ih lo ((lo + hi) / 2) (by omega) hc (by omega) (by omega) hlo h2
        exact ⟨a, by omega⟩

theorem specNext_spec {f : Nat → Nat} (hm : Mono f) (cur : Nat) :
    (specNext f cur = none → ¬ ∃ x, LeastChange f cur x ∧ InReach cur x) ∧
    (∀ x v, specNext f cur = some (x, v) → LeastChange f cur x ∧ InReach cur x ∧ v = f x) := by
  have hU := U64MAX_eq
  have hdef : specNext f cur = specNextAt f cur (reachTop cur) := rfl
  rw [hdef]
  generalize hr : reachTop cur = rt
  cases rt with
  | none =>
    refine ⟨fun _ => ?_, fun x v h => by simp [specNextAt] at h⟩
    rintro ⟨x, _, hx⟩
    obtain ⟨top, ht, _⟩ := (inReach_iff_reachTop cur x).1 hx
    rw [hr] at ht; simp at ht
  | some top =>
    obtain ⟨j0, hj0, htop, hlt, _⟩ := (reachTopAux_spec cur 64).2 top hr
    by_cases h : f top = f cur
    · simp only [specNextAt, h, if_true]
      refine ⟨fun _ => ?_, fun x v h' => by simp at h'⟩
      rintro ⟨x, ⟨hx1, hx2, _⟩, hx⟩
      obtain ⟨top', ht', hle⟩ := (inReach_iff_reachTop cur x).1 hx
      rw [hr] at ht'
      simp only [Option.some.injEq] at ht'
      subst ht'
      exact hx2 (hm.const_between (by omega) hle (by omega) h)
    · simp only [specNextAt, h, if_false]
      have hpos : 0 < 2 ^ j0 := Nat.two_pow_pos j0
      have hp := pow_le_63 (j := j0) (by omega)
      have h70 : 9223372036854775808 ≤ 2 ^ bisectFuel := by decide
      obtain ⟨hl, hle⟩ := leastChange_spec hm cur bisectFuel cur top (by omega) (Nat.le_refl _) (by omega) (by omega) rfl h
      refine ⟨fun h' => by simp at h', fun x v h' => ?_⟩
      simp only [Option.some.injEq, Prod.mk.injEq] at h'
      obtain ⟨rfl, rfl⟩ := h'
      exact ⟨hl, (inReach_iff_reachTop cur _).2 ⟨top, hr, hle⟩, rfl⟩

/-- on a non-decreasing function, after the first call, `next` returns exactly what the
    search-independent specification `specNext` says -/
theorem next_eq_spec {f : Nat → Nat} (hm : Mono f) {s : FC} (hs : Started f s) :
    next f s = .ok (match specNext f s.current with
      | some (x, v) => (some (x, v), { current := x, prev := some v })
      | none => (none, s)) := by
  rcases next_started hm hs with ⟨x, hx, hr, hn, _⟩ | ⟨hno, hn⟩
  · cases hsp : specNext f s.current with
    | none => exact absurd ⟨x, hx, hr⟩ ((specNext_spec hm s.current).1 hsp)
    | some p =>
      obtain ⟨x', v⟩ := p
      obtain ⟨a, _, c⟩ := (specNext_spec hm s.current).2 x' v hsp
      have := leastChange_unique hx a
      subst this; subst c
      simpa using hn
  · cases hsp : specNext f s.current with
    | none => simpa using hn
    | some p =>
      obtain ⟨x', v⟩ := p
      obtain ⟨a, b, _⟩ := (specNext_spec hm s.current).2 x' v hsp
      exact absurd ⟨x', a, b⟩ hno

theorem collect_eq_spec {f : Nat → Nat} (hm : Mono f) : ∀ (fuel : Nat) (s : FC) (acc : List (Nat × Nat)),
    Started f s → collect f fuel s acc = .ok (specCollect f fuel s.current acc) := by
  intro fuel
  induction fuel with
  | zero => intro s acc _; rfl
  | succ fuel ih =>
    intro s acc hs
    have hn := next_eq_spec hm hs
    cases hsp : specNext f s.current with
    | none =>
      rw [hsp] at hn
      unfold collect specCollect
      rw [hn, hsp]
      rfl
    | some p =>
      obtain ⟨x, v⟩ := p
      rw [hsp] at hn
      obtain ⟨hx, _, hv⟩ := (specNext_spec hm s.current).2 x v hsp
      have hst : Started f { current := x, prev := some v } := by
        subst hv
        rcases next_started hm hs with ⟨x', hx', _, _, hst'⟩ | ⟨hno, _⟩
        · have := leastChange_unique hx hx'
          subst this; exact hst'
        · obtain ⟨_, b, _⟩ := (specNext_spec hm s.current).2 x _ hsp
          exact absurd ⟨x, hx, b⟩ hno
      unfold collect specCollect
      rw [hn, hsp]
      exact ih _ _ hst

/-- the iterator model and the reference of the correspondence check agree on every
    non-decreasing function -/
theorem changePoints_eq_spec {f : Nat → Nat} (hm : Mono f) (n : Nat) :
    changePoints f n = .ok (specChangePoints f n) := by
  cases n with
  | zero => rfl
  | succ n =>
    simp only [changePoints, collect, next_first, specChangePoints]
    exact collect_eq_spec hm n _ _ (started_first f)

end FC
end Dsi
