/-
  Bit-list vocabulary for the writer refinement: `fieldLE` / `fieldBits` characterised through
  `Nat.testBit`, cutting and gluing of fields, zeros and the unary code as fields.
-/
import Dsi.Lemmas.SimFrame
namespace Dsi

@[simp] theorem fieldLE_length (v n : Nat) : (fieldLE v n).length = n := by
  induction n generalizing v with
  | zero => rfl
  | succ n ih => simp [fieldLE, ih]

@[simp] theorem fieldBits_length (e : Endian) (v n : Nat) : (fieldBits e v n).length = n := by
  cases e <;> simp [fieldBits]

theorem getElem_fieldLE (v n i : Nat) (h : i < (fieldLE v n).length) :
    (fieldLE v n)[i] = v.testBit i := by
  induction n generalizing v i with
  | zero => simp at h
  | succ n ih =>
    cases i with
    | zero => simp [fieldLE, Nat.testBit_zero, BEq.beq]
    | succ i =>
      simp only [fieldLE, List.getElem_cons_succ]
      rw [ih, Nat.testBit_succ]

theorem getElem_fieldBE (v n i : Nat) (h : i < (fieldBits .be v n).length) :
    (fieldBits .be v n)[i] = v.testBit (n - 1 - i) := by
  simp only [fieldBits, List.getElem_reverse, getElem_fieldLE, fieldLE_length]

/-- a little-endian field is determined by the bits it shows -/
theorem fieldLE_congr_wr {x y n : Nat} (h : ∀ i, i < n → x.testBit i = y.testBit i) :
    fieldLE x n = fieldLE y n := by
  apply List.ext_getElem (by simp)
  intro i h1 _
  rw [getElem_fieldLE, getElem_fieldLE]
  exact h i (by simpa using h1)

theorem fieldBits_congr_wr (e : Endian) {x y n : Nat} (h : ∀ i, i < n → x.testBit i = y.testBit i) :
    fieldBits e x n = fieldBits e y n := by
  cases e <;> simp only [fieldBits, fieldLE_congr_wr h]

/-- gluing two LE fields: low part first -/
theorem fieldLE_split {x y z n a b : Nat} (hn : n = a + b)
    (h1 : ∀ i, i < a → x.testBit i = y.testBit i)
    (h2 : ∀ i, i < b → x.testBit (a + i) = z.testBit i) :
    fieldLE x n = fieldLE y a ++ fieldLE z b := by
  subst hn
  apply List.ext_getElem (by simp)
  intro i h3 h4
  rw [getElem_fieldLE, List.getElem_append]
  split
  · rw [getElem_fieldLE]; exact h1 i (by simp_all)
  · rename_i h5
    simp only [fieldLE_length, Nat.not_lt] at h5
    simp only [fieldLE_length] at h3
    rw [getElem_fieldLE]
    simp only [fieldLE_length]
    rw [← h2 (i - a) (by omega)]
    congr 1; omega

/-- gluing two BE fields: high part first -/
theorem fieldBE_split {x y z n a b : Nat} (hn : n = a + b)
    (h1 : ∀ i, i < b → x.testBit i = z.testBit i)
    (h2 : ∀ i, i < a → x.testBit (b + i) = y.testBit i) :
    fieldBits .be x n = fieldBits .be y a ++ fieldBits .be z b := by
  simp only [fieldBits]
  rw [← List.reverse_append]
  congr 1
  exact fieldLE_split (by omega) h1 h2

theorem fieldLE_cut (v : Nat) {n a : Nat} (h : a ≤ n) :
    fieldLE v n = fieldLE v a ++ fieldLE (v / 2 ^ a) (n - a) := by
  apply fieldLE_split (by omega) (fun _ _ => rfl)
  intro i _
  rw [Nat.testBit_div_two_pow, Nat.add_comm]

theorem fieldBE_cut (v : Nat) {n b : Nat} (h : b ≤ n) :
    fieldBits .be v n = fieldBits .be (v / 2 ^ b) (n - b) ++ fieldBits .be v b := by
  apply fieldBE_split (by omega) (fun _ _ => rfl)
  intro i _
  rw [Nat.testBit_div_two_pow, Nat.add_comm]

theorem fieldBits_mod (e : Endian) (v : Nat) {n k : Nat} (h : n ≤ k) :
    fieldBits e (v % 2 ^ k) n = fieldBits e v n := by
  apply fieldBits_congr_wr
  intro i hi
  rw [Nat.testBit_mod_two_pow]
  simp [show i < k by omega]

/-- zeros are the field of `0` -/
theorem replicate_false_eq (e : Endian) (k : Nat) : List.replicate k false = fieldBits e 0 k := by
  apply List.ext_getElem (by simp)
  intro i h1 h2
  cases e
  · rw [getElem_fieldBE]; simp
  · simp only [fieldBits]; rw [getElem_fieldLE]; simp

theorem unaryBits_eq_be (x : Nat) : unaryBits x = fieldBits .be 1 (x + 1) := by
  rw [unaryBits, replicate_false_eq .be,
    fieldBE_split (x := 1) (y := 0) (z := 1) (a := x) (b := 1) rfl (fun _ _ => rfl)]
  · congr 1
  · intro i _
    rw [Nat.zero_testBit, Nat.add_comm, Nat.testBit_succ]; simp

theorem unaryBits_eq_le (x : Nat) : unaryBits x = fieldBits .le (2 ^ x) (x + 1) := by
  rw [unaryBits, replicate_false_eq .le]
  simp only [fieldBits]
  rw [fieldLE_split (x := 2 ^ x) (y := 0) (z := 1) (a := x) (b := 1) rfl]
  · congr 1
  · intro i hi
    rw [Nat.testBit_two_pow, Nat.zero_testBit]; simp; omega
  · intro i hi
    rw [Nat.testBit_two_pow]
    have : i = 0 := by omega
    subst this; simp

end Dsi
