/-
  Bulk copy, simulation frame: what the copy loops need from a reader / writer implementation
  (`RSim`, `WSim`), sequencing of simulation steps against `refCopy`, and the generic chunked
  loop between any two simulating implementations.
-/
import Dsi.Lemmas.CopyRef
import Dsi.Props.Writer
import Dsi.Props.Reader
namespace Dsi
namespace CopyL

/-- `ri.readBits` simulates the reference `read_bits` under the state relation `P` -/
def RSim {ρ} (ri : RImpl ρ) (P : ρ → RefR → Prop) : Prop :=
  ∀ s r n, P s r →
    ResRel (fun a b => a.1 = b.1 ∧ P a.2 b.2) (ri.readBits s n) (RefR.readBits r n)

/-- `wi.writeBits` simulates the reference `write_bits` under the state relation `Q` -/
def WSim {ω} (wi : WImpl ω) (Q : ω → RefW → Prop) : Prop :=
  ∀ t w v n, Q t w →
    ResRel (fun a b => Q a.2 b.2) (wi.writeBits t v n) (RefW.writeBits w v n)

theorem rsim_bufR {W : Nat} {e : Endian} (hW64 : e = .be → W ≤ 64) :
    RSim (BufR.impl e : RImpl (BufR W)) (BufR.Rel e) := by
  intro s r n h
  exact (readBits_sim hW64 h n).mono (fun ⟨_, _⟩ ⟨_, _⟩ h => h)

theorem wsim_bufW {W : Nat} (e : Endian) :
    WSim (BufW.impl e : WImpl (BufW W)) (BufW.RelC e) := by
  intro t w v n h
  exact (writeBits_sim h v n).mono (fun ⟨_, _⟩ ⟨_, _⟩ h => h.2.1)

/-- the outcome relation of the copy theorems -/
abbrev PQ {ρ ω} (P : ρ → RefR → Prop) (Q : ω → RefW → Prop) : ρ × ω → RefR × RefW → Prop :=
  fun a b => P a.1 b.1 ∧ Q a.2 b.2

theorem ResRel.bind {α β γ δ : Type} {R : α → β → Prop} {S : γ → δ → Prop}
    {x : Res α} {y : Res β} (h : ResRel R x y) {f : α → Res γ} {g : β → Res δ}
    (hfg : ∀ a b, R a b → ResRel S (f a) (g b)) : ResRel S (x.bind f) (y.bind g) := by
  cases x <;> cases y <;> simp only [ResRel, Res.bind] at h ⊢
  · exact hfg _ _ h
  · exact h

theorem copyStep_sim {ρ ω} {ri : RImpl ρ} {wi : WImpl ω} {P : ρ → RefR → Prop}
    {Q : ω → RefW → Prop} (hr : RSim ri P) (hw : WSim wi Q) {s : ρ} {r : RefR} {t : ω} {w : RefW}
    (hP : P s r) (hQ : Q t w) (k : Nat) :
    ResRel (PQ P Q) (copyStep ri wi s t k) (copyStep RefR.impl RefW.impl r w k) := by
  unfold copyStep
  have e1 : RefR.impl.readBits = RefR.readBits := rfl
  have e2 : RefW.impl.writeBits = RefW.writeBits := rfl
  rw [e1, e2]
  have h1 := hr s r k hP
  revert h1
  cases ri.readBits s k with
  | ok a =>
    cases RefR.readBits r k with
    | ok b =>
      obtain ⟨v, s'⟩ := a
      obtain ⟨v', r'⟩ := b
      rintro ⟨hv, hP'⟩
      simp only at hv hP'
      subst hv
      simp only
      have h2 := hw t w v k hQ
      revert h2
      cases wi.writeBits t v k with
      | ok c =>
        cases RefW.writeBits w v k with
        | ok d =>
          obtain ⟨_, t'⟩ := c
          obtain ⟨_, w'⟩ := d
          intro hQ'
          exact ⟨hP', hQ'⟩
        | err _ => intro h; exact h.elim
        | panic => intro h; exact h.elim
        | dpanic => intro h; exact h.elim
      | err _ => cases RefW.writeBits w v k <;> intro h <;> first | exact h | exact h.elim
      | panic => cases RefW.writeBits w v k <;> intro h <;> first | exact h | exact h.elim
      | dpanic => cases RefW.writeBits w v k <;> intro h <;> first | exact h | exact h.elim
    | err _ => intro h; exact h.elim
    | panic => intro h; exact h.elim
    | dpanic => intro h; exact h.elim
  | err _ => cases RefR.readBits r k <;> intro h <;> first | exact h | exact h.elim
  | panic => cases RefR.readBits r k <;> intro h <;> first | exact h | exact h.elim
  | dpanic => cases RefR.readBits r k <;> intro h <;> first | exact h | exact h.elim

/-- the generic chunked loop between two simulating implementations simulates the loop on the
    reference machines, for every fuel -/
theorem copyGeneric_sim_gen {ρ ω} {ri : RImpl ρ} {wi : WImpl ω} {P : ρ → RefR → Prop}
    {Q : ω → RefW → Prop} (hr : RSim ri P) (hw : WSim wi Q) (fuel : Nat) :
    ∀ {s : ρ} {r : RefR} {t : ω} {w : RefW} (n : Nat), P s r → Q t w →
    ResRel (PQ P Q) (copyGeneric ri wi fuel s t n) (copyGeneric RefR.impl RefW.impl fuel r w n) := by
  induction fuel with
  | zero =>
    intro s r t w n hP hQ
    unfold copyGeneric
    by_cases hn : n = 0
    · simp only [hn, if_true]; exact ⟨hP, hQ⟩
    · simp only [hn, if_false]; trivial
  | succ fuel ih =>
    intro s r t w n hP hQ
    rw [copyGeneric_succ, copyGeneric_succ]
    by_cases hn : n = 0
    · simp only [hn, if_true]; exact ⟨hP, hQ⟩
    · simp only [hn, if_false]
      refine ResRel.bind (copyStep_sim hr hw hP hQ _) ?_
      rintro ⟨s', t'⟩ ⟨r', w'⟩ ⟨hP', hQ'⟩
      exact ih _ hP' hQ'

end CopyL
end Dsi
