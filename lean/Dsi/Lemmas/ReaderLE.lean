/-
  Little-endian buffered reader: every operation of `BufR` simulates the reference reader.
  Statements are in the bit-level relation `RelLE` (equivalent to `Rel .le`, see `rel_le_iff`).
-/
import Dsi.Lemmas.ReaderRel
namespace Dsi

theorem ResRel.mono_rr {α β} {R R' : α → β → Prop} (h : ∀ a b, R a b → R' a b) :
    ∀ {x : Res α} {y : Res β}, ResRel R x y → ResRel R' x y
  | .ok _, .ok _, hr => h _ _ hr
  | .err _, .err _, hr => hr
  | .panic, .panic, _ => trivial
  | .dpanic, .dpanic, _ => trivial

/-- `(1 << n) - 1` is the mask of the `n` low bits -/
theorem getLsbD_mask {w n : Nat} (h : n < w) (i : Nat) :
    (((1 : BitVec w) <<< n) - 1).getLsbD i = decide (i < n) := by
  have h1 : 2 ^ n < 2 ^ w := Nat.pow_lt_pow_right (by decide) h
  have h0 : 0 < 2 ^ n := Nat.two_pow_pos n
  have hone : (1 : BitVec w).toNat = 1 := BitVec.toNat_one (by omega)
  have : (((1 : BitVec w) <<< n) - 1).toNat = 2 ^ n - 1 := by
    rw [BitVec.toNat_sub, BitVec.toNat_shiftLeft]
    simp only [Nat.shiftLeft_eq, hone, Nat.one_mul, Nat.mod_eq_of_lt h1]
    have : 2 ^ w - 1 + 2 ^ n = 2 ^ w + (2 ^ n - 1) := by omega
    rw [this, Nat.add_mod_left, Nat.mod_eq_of_lt (by omega)]
  rw [BitVec.getLsbD, this, Nat.testBit_two_pow_sub_one]

namespace BufR
variable {W : Nat}

/-- the reference stream has `len * W` bits -/
theorem RelLE.length_stream {s : BufR W} {r : RefR} (h : RelLE s r) :
    r.stream.length = s.back.data.length * W := by
  rw [h.hstream, length_flatMap_wordBits]

/-- the buffered bits are available on the reference side -/
theorem RelLE.avail_of_le {s : BufR W} {r : RefR} (h : RelLE s r) {n : Nat} (hn : n ≤ s.bib) :
    r.avail n = true := by
  unfold RefR.avail
  cases hs : r.strict
  · simp
  · have h1 := h.hstr (by rw [← h.hstrict]; exact hs)
    have h2 := Nat.mul_le_mul_right W h1
    have h3 := h.length_stream
    have h4 := h.hpos
    simp
    omega

/-- consuming `n` buffered bits -/
theorem RelLE.advance {s : BufR W} {r : RefR} (h : RelLE s r) {n : Nat} (hn : n ≤ s.bib) :
    RelLE { s with bib := s.bib - n, buffer := s.buffer >>> n } { r with pos := r.pos + n } := by
  obtain ⟨h1, h2, h3, h4, h5, h6, h7, h8, h9⟩ := h
  refine ⟨?_, h2, h3, h4, h5, ?_, h7, ?_, ?_⟩
  · show s.bib - n < 2 * W
    omega
  · show r.pos + n + (s.bib - n) = s.back.pos * W
    omega
  · intro i hi
    show (s.buffer >>> n).getLsbD i = bitZ r.stream (r.pos + n + i)
    rw [BitVec.getLsbD_ushiftRight, h8 (n + i) (by simp at hi; omega), Nat.add_assoc]
  · intro i hi
    show (s.buffer >>> n).getLsbD i = false
    rw [BitVec.getLsbD_ushiftRight, h9 (n + i) (by simp at hi; omega)]

/-- the state after reading word `m.pos` and discarding its `k` low bits -/
theorem relLE_after_word (hW : 0 < W) (m : MemR W) (k : Nat) (r' : RefR)
    (he : r'.e = .le) (hstrict : r'.strict = m.strict) (hpm : r'.peekMax = W)
    (hstream : r'.stream = m.data.flatMap (wordBits .le))
    (hpos : r'.pos = m.pos * W + k) (hk : k ≤ W)
    (hstr : m.strict = true → m.pos < m.data.length) :
    RelLE { buffer := (m.data.getD m.pos 0).setWidth (2 * W) >>> k, bib := W - k,
            back := { m with pos := m.pos + 1 } } r' := by
  refine ⟨?_, he, hstrict, hpm, hstream, ?_, ?_, ?_, ?_⟩
  · show W - k < 2 * W
    omega
  · show r'.pos + (W - k) = (m.pos + 1) * W
    rw [Nat.succ_mul]; omega
  · intro hs
    exact hstr hs
  · intro i hi
    show ((m.data.getD m.pos 0).setWidth (2 * W) >>> k).getLsbD i = bitZ r'.stream (r'.pos + i)
    simp only [] at hi
    rw [BitVec.getLsbD_ushiftRight, BitVec.getLsbD_setWidth, word_getLsbD_le _ _ _ (by omega),
      hstream, hpos]
    have : k + i < 2 * W := by omega
    simp [this, Nat.add_assoc]
  · intro i hi
    show ((m.data.getD m.pos 0).setWidth (2 * W) >>> k).getLsbD i = false
    simp only [] at hi
    rw [BitVec.getLsbD_ushiftRight, BitVec.getLsbD_setWidth,
      BitVec.getLsbD_of_ge _ _ (by omega : W ≤ k + i)]
    simp

/-! ### skipAfterPeek, fast paths -/

theorem skipAfterPeekLE_rel {s : BufR W} {r : RefR} (h : RelLE s r) {k : Nat} (hk : k ≤ s.bib) :
    RelLE (skipAfterPeekLE s k) (RefR.skipAfterPeek r k) :=
  h.advance hk

/-- a number whose bits are the `n` low bits of the buffer is the reference field value -/
theorem RelLE.low_bits {s : BufR W} {r : RefR} (h : RelLE s r) {n : Nat} (hn : n ≤ s.bib) (v : Nat)
    (hv1 : ∀ i, i < n → v.testBit i = s.buffer.getLsbD i) (hv2 : ∀ i, n ≤ i → v.testBit i = false) :
    v = bitsVal r.e (takeZ n r.rest) := by
  rw [h.he]
  apply eq_bitsVal_le _ hv2
  intro i hi
  rw [hv1 i hi, h.hin i (by omega)]

/-! ### refill / peek -/

theorem refillLE_err {s : BufR W} (hb : s.bib ≤ W) (hs : s.back.strict = true)
    (hp : s.back.data.length ≤ s.back.pos) : refillLE s = .err .eof := by
  unfold refillLE
  rw [if_neg (by omega), MemR.readWord_err _ hs hp]

theorem refillLE_ok {s : BufR W} {r : RefR} (h : RelLE s r) (hb : s.bib < W)
    (hp : s.back.strict = true → s.back.pos < s.back.data.length) :
    ∃ s', refillLE s = .ok s' ∧ RelLE s' r ∧ s'.bib = s.bib + W := by
  unfold refillLE
  rw [if_neg (by omega), MemR.readWord_ok _ hp]
  refine ⟨_, rfl, ?_, rfl⟩
  obtain ⟨h1, h2, h3, h4, h5, h6, h7, h8, h9⟩ := h
  refine ⟨?_, h2, h3, h4, h5, ?_, ?_, ?_, ?_⟩
  · show s.bib + W < 2 * W
    omega
  · show r.pos + (s.bib + W) = (s.back.pos + 1) * W
    rw [Nat.succ_mul]; omega
  · intro hs
    exact hp hs
  · intro i hi
    simp only [] at hi
    show (s.buffer ||| ((s.back.data.getD s.back.pos 0).setWidth (2 * W) <<< s.bib)).getLsbD i
      = bitZ r.stream (r.pos + i)
    rw [BitVec.getLsbD_or, BitVec.getLsbD_shiftLeft, BitVec.getLsbD_setWidth]
    by_cases hi' : i < s.bib
    · simp [h8 i hi', hi']
    · have e1 : i - s.bib < 2 * W := by omega
      have e2 : i < 2 * W := by omega
      rw [h9 i (by omega), word_getLsbD_le _ _ _ (by omega : i - s.bib < W), h5]
      have e3 : s.back.pos * W + (i - s.bib) = r.pos + i := by omega
      simp [hi', e1, e2, e3]
  · intro i hi
    simp only [] at hi
    show (s.buffer ||| ((s.back.data.getD s.back.pos 0).setWidth (2 * W) <<< s.bib)).getLsbD i = false
    rw [BitVec.getLsbD_or, BitVec.getLsbD_shiftLeft, BitVec.getLsbD_setWidth, h9 i (by omega),
      BitVec.getLsbD_of_ge _ _ (by omega : W ≤ i - s.bib)]
    simp

theorem peekLE_value {s : BufR W} {r : RefR} (h : RelLE s r) {n : Nat} (hn : n ≤ s.bib) :
    ((s.buffer <<< (2 * W - n)) >>> (2 * W - n)).toNat = bitsVal r.e (takeZ n r.rest) := by
  have hb := h.bib_lt
  apply h.low_bits hn
  · intro i hi
    rw [BitVec.testBit_toNat, BitVec.getLsbD_ushiftRight, BitVec.getLsbD_shiftLeft]
    have e1 : 2 * W - n + i < 2 * W := by omega
    have e2 : ¬ (2 * W - n + i < 2 * W - n) := by omega
    have e3 : 2 * W - n + i - (2 * W - n) = i := by omega
    simp [e1, e2, e3]
  · intro i hi
    rw [BitVec.testBit_toNat, BitVec.getLsbD_ushiftRight, BitVec.getLsbD_shiftLeft]
    have e1 : ¬ (2 * W - n + i < 2 * W) := by omega
    simp [e1]

theorem peekBitsLE_sim {s : BufR W} {r : RefR} (h : RelLE s r) {n : Nat} (h1 : 1 ≤ n) (hn : n ≤ W) :
    ResRel (fun a b => a.1 = b.1 ∧ RelLE a.2 b.2) (peekBitsLE s n) (RefR.peekBits r n) := by
  have c1 : ¬(n = 0 ∨ n > 2 * W) := by omega
  have c2 : ¬(n = 0 ∨ n > r.peekMax) := by rw [h.hpm]; omega
  simp only [peekBitsLE, RefR.peekBits, if_neg c1, if_neg c2]
  by_cases hnb : n ≤ s.bib
  · have c3 : ¬ n > s.bib := by omega
    simp only [if_neg c3, if_pos (h.avail_of_le hnb)]
    exact ⟨peekLE_value h hnb, h⟩
  · have c3 : n > s.bib := by omega
    simp only [if_pos c3]
    by_cases hp : s.back.strict = true ∧ s.back.data.length ≤ s.back.pos
    · rw [refillLE_err (by omega) hp.1 hp.2]
      have : r.avail n = false := by
        have h3 := h.length_stream
        have h4 := h.hpos
        have h5 := Nat.mul_le_mul_right W hp.2
        simp only [RefR.avail, h.hstrict, hp.1]
        simp
        omega
      simp [this, ResRel]
    · obtain ⟨s', hs', hrel, hbib⟩ := refillLE_ok h (by omega) (by
        intro hs; exact Nat.lt_of_not_le (fun hle => hp ⟨hs, hle⟩))
      rw [hs']
      have hav : r.avail n = true := by
        unfold RefR.avail
        cases hs : r.strict
        · simp
        · have h1 := hrel.hstr (by rw [← hrel.hstrict]; exact hs)
          have h2 := Nat.mul_le_mul_right W h1
          have h3 := hrel.length_stream
          have h4 := hrel.hpos
          simp
          omega
      have c4 : ¬ n > s'.bib := by omega
      simp only [if_neg c4, if_pos hav]
      exact ⟨peekLE_value hrel (by omega), hrel⟩

/-- a successful peek leaves at least `n` bits in the buffer -/
theorem peekBitsLE_bib {s s1 : BufR W} {n v : Nat} (h : peekBitsLE s n = .ok (v, s1)) : n ≤ s1.bib := by
  unfold peekBitsLE at h
  by_cases c1 : (n = 0 ∨ n > 2 * W)
  · simp [c1] at h
  · simp only [if_neg c1] at h
    cases hr : (if n > s.bib then refillLE s else Res.ok s) with
    | ok s' =>
      simp only [hr] at h
      by_cases c2 : n > s'.bib
      · simp [c2] at h
      · simp only [if_neg c2, Res.ok.injEq, Prod.mk.injEq] at h
        obtain ⟨_, rfl⟩ := h
        omega
    | _ => simp [hr] at h

/-! ### skipBits -/

/-- postcondition of the word-skipping loop started at `m` with `n` bits to go -/
def SkipPost (m : MemR W) (n : Nat) : Res (Nat × MemR W) → Prop
  | .ok (n', m') => m'.data = m.data ∧ m'.strict = m.strict ∧ m'.pos * W + n' = m.pos * W + n ∧
      n' ≤ W ∧ (0 < n → 0 < n') ∧ (m.strict = true → m'.pos ≤ m.data.length)
  | .err e => e = .eof ∧ m.strict = true ∧ m.data.length * W < m.pos * W + n
  | _ => False

theorem skipWords_spec (hW : 0 < W) (fuel : Nat) (m : MemR W) (n : Nat) (hfuel : n ≤ fuel)
    (hstr : m.strict = true → m.pos ≤ m.data.length) : SkipPost m n (skipWords fuel m n) := by
  induction fuel generalizing m n with
  | zero =>
    have : n = 0 := by omega
    subst this
    simp [skipWords, SkipPost]
    exact hstr
  | succ fuel ih =>
    unfold skipWords
    by_cases hn : n > W
    · simp only [if_pos hn]
      by_cases hp : m.strict = true ∧ m.data.length ≤ m.pos
      · rw [MemR.readWord_err _ hp.1 hp.2]
        have := Nat.mul_le_mul_right W hp.2
        refine ⟨rfl, hp.1, ?_⟩
        omega
      · have hp' : m.strict = true → m.pos < m.data.length := by
          intro hs; exact Nat.lt_of_not_le (fun hle => hp ⟨hs, hle⟩)
        rw [MemR.readWord_ok _ hp']
        have := ih { m with pos := m.pos + 1 } (n - W) (by omega) (fun hs => hp' hs)
        simp only []
        revert this
        generalize skipWords fuel { m with pos := m.pos + 1 } (n - W) = x
        have e : (m.pos + 1) * W = m.pos * W + W := Nat.succ_mul _ _
        match x with
        | .ok (n', m') =>
          simp only [SkipPost]
          rintro ⟨a1, a2, a3, a4, a5, a6⟩
          refine ⟨a1, a2, ?_, a4, ?_, a6⟩
          · omega
          · intro _; exact a5 (by omega)
        | .err e' =>
          simp only [SkipPost]
          rintro ⟨a1, a2, a3⟩
          refine ⟨a1, a2, ?_⟩
          omega
        | .panic => simp [SkipPost]
        | .dpanic => simp [SkipPost]
    · simp only [if_neg hn]
      exact ⟨rfl, rfl, rfl, by omega, fun h => h, hstr⟩

theorem RelLE.not_avail {s : BufR W} {r : RefR} (h : RelLE s r) {n : Nat}
    (hs : s.back.strict = true) (hlt : s.back.data.length * W < r.pos + n) : r.avail n = false := by
  have h3 := h.length_stream
  simp only [RefR.avail, h.hstrict, hs]
  simp
  omega

theorem skipBitsLE_sim (hW : 0 < W) {s : BufR W} {r : RefR} (h : RelLE s r) (n : Nat) :
    ResRel (fun a b => RelLE a b) (skipBitsLE s n) (RefR.skipBits r n) := by
  unfold skipBitsLE RefR.skipBits
  by_cases hnb : n ≤ s.bib
  · simp only [if_pos hnb, if_pos (h.avail_of_le hnb)]
    exact h.advance hnb
  · simp only [if_neg hnb]
    have hpost := skipWords_spec hW (n - s.bib) s.back (n - s.bib) (Nat.le_refl _) h.hstr
    have hpos := h.hpos
    revert hpost
    generalize skipWords (n - s.bib) s.back (n - s.bib) = x
    match x with
    | .ok (n', m') =>
      simp only [SkipPost]
      rintro ⟨a1, a2, a3, a4, a5, a6⟩
      have a5' := a5 (by omega)
      by_cases hp : m'.strict = true ∧ m'.data.length ≤ m'.pos
      · rw [MemR.readWord_err _ hp.1 hp.2]
        have := Nat.mul_le_mul_right W hp.2
        rw [a1] at this
        rw [h.not_avail (a2 ▸ hp.1) (by omega)]
        simp [ResRel]
      · have hp' : m'.strict = true → m'.pos < m'.data.length := by
          intro hs; exact Nat.lt_of_not_le (fun hle => hp ⟨hs, hle⟩)
        rw [MemR.readWord_ok _ hp']
        have hav : r.avail n = true := by
          unfold RefR.avail
          cases hs : r.strict
          · simp
          · have h1 := hp' (by rw [a2, ← h.hstrict]; exact hs)
            have h2 : (m'.pos + 1) * W ≤ m'.data.length * W := Nat.mul_le_mul_right W h1
            have h3 := h.length_stream
            have e : (m'.pos + 1) * W = m'.pos * W + W := Nat.succ_mul _ _
            rw [a1] at h2
            simp
            omega
        simp only [if_pos hav]
        show RelLE _ _
        apply relLE_after_word hW m' n' { r with pos := r.pos + n } h.he (by rw [a2]; exact h.hstrict) h.hpm
          (by rw [a1]; exact h.hstream) _ a4 hp'
        show r.pos + n = m'.pos * W + n'
        omega
    | .err e' =>
      simp only [SkipPost]
      rintro ⟨a1, a2, a3⟩
      rw [h.not_avail a2 (by omega)]
      simp [ResRel, a1]
    | .panic => simp [SkipPost]
    | .dpanic => simp [SkipPost]

/-! ### readBits -/

/-- postcondition of the whole-word loop of `read_bits`: `P` is the position the read started at -/
def RWPostLE (stream : List Bool) (P n : Nat) (m : MemR W) : Res (BitVec 64 × Nat × MemR W) → Prop
  | .ok (res, bir, m') => m'.data = m.data ∧ m'.strict = m.strict ∧ P + bir = m'.pos * W ∧
      (m.strict = true → m'.pos ≤ m.data.length) ∧
      (∀ i, i < bir → res.getLsbD i = bitZ stream (P + i)) ∧
      (∀ i, bir ≤ i → res.getLsbD i = false) ∧ bir < n ∧ n ≤ W + bir
  | .err e => e = .eof ∧ m.strict = true ∧ m.data.length * W < P + n
  | _ => False

theorem readWordsLE_spec (hW : 0 < W) (stream : List Bool) (P n : Nat) (hn : n ≤ 64)
    (fuel : Nat) (m : MemR W) (res : BitVec 64) (bir : Nat)
    (hstream : stream = m.data.flatMap (wordBits .le))
    (hpos : P + bir = m.pos * W) (hstr : m.strict = true → m.pos ≤ m.data.length)
    (hin : ∀ i, i < bir → res.getLsbD i = bitZ stream (P + i))
    (hout : ∀ i, bir ≤ i → res.getLsbD i = false)
    (hb : bir < n) (hfuel : n - bir ≤ fuel) :
    RWPostLE stream P n m (readWordsLE fuel m res bir n) := by
  induction fuel generalizing m res bir with
  | zero => omega
  | succ fuel ih =>
    unfold readWordsLE
    by_cases hc : n > W + bir
    · simp only [if_pos hc]
      by_cases hp : m.strict = true ∧ m.data.length ≤ m.pos
      · rw [MemR.readWord_err _ hp.1 hp.2]
        have := Nat.mul_le_mul_right W hp.2
        refine ⟨rfl, hp.1, ?_⟩
        omega
      · have hp' : m.strict = true → m.pos < m.data.length := by
          intro hs; exact Nat.lt_of_not_le (fun hle => hp ⟨hs, hle⟩)
        rw [MemR.readWord_ok _ hp']
        simp only []
        have e : (m.pos + 1) * W = m.pos * W + W := Nat.succ_mul _ _
        have := ih { m with pos := m.pos + 1 }
          (res ||| ((m.data.getD m.pos 0).setWidth 64 <<< bir)) (bir + W) hstream
          (by show P + (bir + W) = (m.pos + 1) * W; omega) (fun hs => hp' hs)
          (by
            intro i hi
            rw [BitVec.getLsbD_or, BitVec.getLsbD_shiftLeft, BitVec.getLsbD_setWidth]
            by_cases hi' : i < bir
            · simp [hin i hi', hi']
            · have e1 : i - bir < 64 := by omega
              have e2 : i < 64 := by omega
              rw [hout i (by omega), word_getLsbD_le _ _ _ (by omega : i - bir < W), hstream]
              have e3 : m.pos * W + (i - bir) = P + i := by omega
              simp [hi', e1, e2, e3])
          (by
            intro i hi
            rw [BitVec.getLsbD_or, BitVec.getLsbD_shiftLeft, BitVec.getLsbD_setWidth,
              hout i (by omega), BitVec.getLsbD_of_ge _ _ (by omega : W ≤ i - bir)]
            simp)
          (by omega) (by omega)
        exact this
    · simp only [if_neg hc]
      exact ⟨rfl, rfl, hpos, hstr, hin, hout, hb, by omega⟩

theorem readBitsLE_sim (hW : 0 < W) {s : BufR W} {r : RefR} (h : RelLE s r) (n : Nat) :
    ResRel (fun a b => a.1 = b.1 ∧ RelLE a.2 b.2) (readBitsLE s n) (RefR.readBits r n) := by
  unfold readBitsLE RefR.readBits
  by_cases hn : n > 64
  · simp [if_pos hn, ResRel]
  · simp only [if_neg hn]
    by_cases hnb : n ≤ s.bib
    · simp only [if_pos hnb, if_pos (h.avail_of_le hnb)]
      refine ⟨?_, h.advance hnb⟩
      have hb := h.bib_lt
      apply h.low_bits hnb
      · intro i hi
        rw [BitVec.testBit_toNat, BitVec.getLsbD_setWidth, BitVec.getLsbD_and,
          getLsbD_mask (by omega)]
        have : i < 64 := by omega
        simp [this, hi]
      · intro i hi
        rw [BitVec.testBit_toNat, BitVec.getLsbD_setWidth, BitVec.getLsbD_and,
          getLsbD_mask (by omega)]
        have : ¬ i < n := by omega
        simp [this]
    · simp only [if_neg hnb]
      have hpost := readWordsLE_spec hW r.stream r.pos n (by omega) 64 s.back
        (s.buffer.setWidth 64) s.bib h.hstream h.hpos h.hstr
        (by
          intro i hi
          rw [BitVec.getLsbD_setWidth, h.hin i hi]
          have : i < 64 := by omega
          simp [this])
        (by
          intro i hi
          rw [BitVec.getLsbD_setWidth, h.hout i hi]
          simp)
        (by omega) (by omega)
      revert hpost
      generalize readWordsLE 64 s.back (s.buffer.setWidth 64) s.bib n = x
      match x with
      | .ok (res, bir, m') =>
        simp only [RWPostLE]
        rintro ⟨a1, a2, a3, a4, a5, a6, a7, a8⟩
        by_cases hp : m'.strict = true ∧ m'.data.length ≤ m'.pos
        · rw [MemR.readWord_err _ hp.1 hp.2]
          have := Nat.mul_le_mul_right W hp.2
          rw [a1] at this
          rw [h.not_avail (a2 ▸ hp.1) (by omega)]
          simp [ResRel]
        · have hp' : m'.strict = true → m'.pos < m'.data.length := by
            intro hs; exact Nat.lt_of_not_le (fun hle => hp ⟨hs, hle⟩)
          rw [MemR.readWord_ok _ hp']
          have hav : r.avail n = true := by
            unfold RefR.avail
            cases hs : r.strict
            · simp
            · have h1 := hp' (by rw [a2, ← h.hstrict]; exact hs)
              have h2 : (m'.pos + 1) * W ≤ m'.data.length * W := Nat.mul_le_mul_right W h1
              have h3 := h.length_stream
              have e : (m'.pos + 1) * W = m'.pos * W + W := Nat.succ_mul _ _
              rw [a1] at h2
              simp
              omega
          simp only [if_pos hav]
          refine ⟨?_, ?_⟩
          · show BitVec.toNat _ = bitsVal r.e (takeZ n r.rest)
            rw [h.he]
            apply eq_bitsVal_le
            · intro i hi
              rw [BitVec.testBit_toNat, BitVec.getLsbD_or, BitVec.getLsbD_shiftLeft,
                BitVec.getLsbD_ushiftRight, BitVec.getLsbD_shiftLeft, BitVec.getLsbD_setWidth]
              by_cases hi' : i < bir
              · simp [a5 i hi', hi']
              · have e0 : i < 64 := by omega
                have e1 : 64 - (n - bir) + (i - bir) < 64 := by omega
                have e2 : ¬ (64 - (n - bir) + (i - bir) < 64 - (n - bir)) := by omega
                have e3 : 64 - (n - bir) + (i - bir) - (64 - (n - bir)) = i - bir := by omega
                have e4 : i - bir < 64 := by omega
                rw [e3, a6 i (by omega), word_getLsbD_le _ _ _ (by omega : i - bir < W), a1, ← h.hstream]
                have e5 : m'.pos * W + (i - bir) = r.pos + i := by omega
                simp [hi', e0, e1, e2, e4, e5]
            · intro i hi
              rw [BitVec.testBit_toNat, BitVec.getLsbD_or, BitVec.getLsbD_shiftLeft,
                BitVec.getLsbD_ushiftRight, BitVec.getLsbD_shiftLeft, a6 i (by omega)]
              by_cases e0 : i < 64
              · have e1 : ¬ (64 - (n - bir) + (i - bir) < 64) := by omega
                simp [e1]
              · simp [e0]
          · show RelLE _ _
            apply relLE_after_word hW m' (n - bir) { r with pos := r.pos + n } h.he
              (by rw [a2]; exact h.hstrict) h.hpm (by rw [a1]; exact h.hstream) _ (by omega) hp'
            show r.pos + n = m'.pos * W + (n - bir)
            omega
      | .err e' =>
        simp only [RWPostLE]
        rintro ⟨a1, a2, a3⟩
        rw [h.not_avail a2 (by omega)]
        simp [ResRel, a1]
      | .panic => simp [RWPostLE]
      | .dpanic => simp [RWPostLE]

/-! ### readUnary -/

/-- no one bit at or after the reference position -/
theorem readUnary_none {r : RefR} (h0 : ∀ i, bitZ r.stream (r.pos + i) = false) :
    RefR.readUnary r = if r.strict then .err .eof else .dpanic := by
  have : RefR.firstOne r.rest = none := firstOne_eq_none (fun i => by rw [RefR.rest, bitZ_drop]; exact h0 i)
  simp [RefR.readUnary, this]

theorem readUnary_some {r : RefR} {z : Nat} (h0 : ∀ i, i < z → bitZ r.stream (r.pos + i) = false)
    (h1 : bitZ r.stream (r.pos + z) = true) :
    RefR.readUnary r = .ok (z, { r with pos := r.pos + z + 1 }) := by
  have : RefR.firstOne r.rest = some z :=
    firstOne_eq_some (fun i hi => by rw [RefR.rest, bitZ_drop]; exact h0 i hi)
      (by rw [RefR.rest, bitZ_drop]; exact h1)
  simp [RefR.readUnary, this]

/-- when the backend is at or beyond the end and the bits up to it are zero, no one is ahead -/
theorem none_ahead {e : Endian} (m : MemR W) (res : Nat) (r : RefR)
    (hstream : r.stream = m.data.flatMap (wordBits e))
    (hpos : r.pos + res = m.pos * W) (hz : ∀ i, i < res → bitZ r.stream (r.pos + i) = false)
    (hp : m.data.length ≤ m.pos) : ∀ i, bitZ r.stream (r.pos + i) = false := by
  intro i
  have hlen : r.stream.length = m.data.length * W := by rw [hstream, length_flatMap_wordBits]
  have := Nat.mul_le_mul_right W hp
  by_cases hi : i < res
  · exact hz i hi
  · exact bitZ_of_ge (by omega)

theorem unaryWordsLE_spec (hW : 0 < W) (fuel : Nat) (m : MemR W) (res : Nat) (r : RefR)
    (he : r.e = .le) (hstrict : r.strict = m.strict) (hpm : r.peekMax = W)
    (hstream : r.stream = m.data.flatMap (wordBits .le))
    (hpos : r.pos + res = m.pos * W) (hz : ∀ i, i < res → bitZ r.stream (r.pos + i) = false)
    (hstr : m.strict = true → m.pos ≤ m.data.length) (hfuel : m.data.length + 2 - m.pos ≤ fuel) :
    ResRel (fun a b => a.1 = b.1 ∧ RelLE a.2 b.2) (unaryWordsLE fuel m res) (RefR.readUnary r) := by
  induction fuel generalizing m res with
  | zero =>
    have hp : m.data.length ≤ m.pos := by omega
    have hs : m.strict = false := by
      cases hst : m.strict
      · rfl
      · have := hstr hst; omega
    rw [readUnary_none (none_ahead m res r hstream hpos hz hp), hstrict, hs]
    simp [unaryWordsLE, ResRel]
  | succ fuel ih =>
    unfold unaryWordsLE
    by_cases hp : m.strict = true ∧ m.data.length ≤ m.pos
    · rw [MemR.readWord_err _ hp.1 hp.2, readUnary_none (none_ahead m res r hstream hpos hz hp.2),
        hstrict, hp.1]
      simp [ResRel]
    · have hp' : m.strict = true → m.pos < m.data.length := by
        intro hs; exact Nat.lt_of_not_le (fun hle => hp ⟨hs, hle⟩)
      rw [MemR.readWord_ok _ hp']
      simp only []
      have e : (m.pos + 1) * W = m.pos * W + W := Nat.succ_mul _ _
      have hword : ∀ i, res ≤ i → i < res + W →
          bitZ r.stream (r.pos + i) = (m.data.getD m.pos 0).getLsbD (i - res) := by
        intro i h1 h2
        rw [word_getLsbD_le _ _ _ (by omega : i - res < W), hstream]
        congr 1
        omega
      by_cases hw : m.data.getD m.pos 0 ≠ 0
      · simp only [if_pos hw]
        have hz1 := ctz_lt_of_ne_zero _ hw
        have hz2 := ctz_one _ hz1
        have hz3 := ctz_zero_below (m.data.getD m.pos 0)
        generalize ctz (m.data.getD m.pos 0) = z at hz1 hz2 hz3
        rw [readUnary_some (z := res + z)
          (by
            intro i hi
            by_cases hi' : i < res
            · exact hz i hi'
            · rw [hword i (by omega) (by omega)]
              exact hz3 _ (by omega))
          (by
            rw [hword _ (by omega) (by omega)]
            have : res + z - res = z := by omega
            rw [this]; exact hz2)]
        refine ⟨rfl, ?_⟩
        show RelLE { buffer := ((m.data.getD m.pos 0).setWidth (2 * W) >>> z) >>> 1, bib := W - z - 1,
                     back := { m with pos := m.pos + 1 } } _
        rw [← BitVec.shiftRight_add, Nat.sub_sub]
        apply relLE_after_word hW m (z + 1) { r with pos := r.pos + (res + z) + 1 } he hstrict hpm
          hstream _ (by omega) hp'
        show r.pos + (res + z) + 1 = m.pos * W + (z + 1)
        omega
      · have hw0 : m.data.getD m.pos 0 = 0 := by
          by_cases h : m.data.getD m.pos 0 = 0
          · exact h
          · exact absurd h hw
        simp only [if_neg hw]
        apply ih { m with pos := m.pos + 1 } (res + W) hstrict hstream
        · show r.pos + (res + W) = (m.pos + 1) * W
          omega
        · intro i hi
          by_cases hi' : i < res
          · exact hz i hi'
          · rw [hword i (by omega) hi, hw0]
            simp
        · intro hs
          exact hp' hs
        · show m.data.length + 2 - (m.pos + 1) ≤ fuel
          omega

theorem readUnaryLE_sim (hW : 0 < W) {s : BufR W} {r : RefR} (h : RelLE s r) :
    ResRel (fun a b => a.1 = b.1 ∧ RelLE a.2 b.2) (readUnaryLE s) (RefR.readUnary r) := by
  unfold readUnaryLE
  simp only []
  by_cases hc : ctz s.buffer < s.bib
  · simp only [if_pos hc]
    have hb := h.bib_lt
    have hz2 := ctz_one s.buffer (by omega)
    have hz3 := ctz_zero_below s.buffer
    generalize ctz s.buffer = z at hc hz2 hz3
    rw [readUnary_some (z := z)
      (by intro i hi; rw [← h.hin i (by omega)]; exact hz3 i hi)
      (by rw [← h.hin z hc]; exact hz2)]
    refine ⟨rfl, ?_⟩
    have := h.advance (n := z + 1) (by omega)
    rw [BitVec.shiftRight_add] at this
    exact this
  · simp only [if_neg hc]
    apply unaryWordsLE_spec hW _ s.back s.bib r h.he h.hstrict h.hpm h.hstream h.hpos _ h.hstr
      (Nat.le_refl _)
    intro i hi
    rw [← h.hin i hi]
    exact ctz_zero_below _ _ (by omega)

/-! ### setBitPos -/

theorem setBitPosLE_sim (hW : 0 < W) {s : BufR W} {r : RefR} (h : RelLE s r) {p : Nat}
    (hp : p ≤ r.stream.length) :
    ResRel (fun a b => RelLE a b) (setBitPosLE s p) (.ok (r.seek p)) := by
  have hlen := h.length_stream
  have hdiv : p / W ≤ s.back.data.length :=
    Nat.div_le_of_le_mul (by rw [Nat.mul_comm]; omega)
  have hdm : p / W * W + p % W = p := Nat.div_add_mod' p W
  unfold setBitPosLE MemR.setWordPos
  have c1 : ¬ ((s.back.strict && decide (p / W > s.back.data.length)) = true) := by
    simp; intro _; omega
  simp only [if_neg c1]
  by_cases hoff : p % W ≠ 0
  · simp only [if_pos hoff]
    have hlt : p / W < s.back.data.length := by
      apply Nat.div_lt_of_lt_mul
      rw [Nat.mul_comm]
      apply Nat.lt_of_le_of_ne (by omega)
      intro he
      apply hoff
      rw [he, Nat.mul_mod_left]
    rw [MemR.readWord_ok _ (fun _ => hlt)]
    show RelLE _ _
    apply relLE_after_word hW { s.back with pos := p / W } (p % W) (r.seek p) h.he h.hstrict h.hpm
      h.hstream _ (Nat.le_of_lt (Nat.mod_lt _ hW)) (fun _ => hlt)
    show p = p / W * W + p % W
    omega
  · have hoff0 : p % W = 0 := by omega
    simp only [if_neg hoff]
    refine ⟨by show 0 < 2 * W; omega, h.he, h.hstrict, h.hpm, h.hstream, ?_, fun _ => hdiv, ?_, ?_⟩
    · show p + 0 = p / W * W
      omega
    · intro i hi
      exact absurd hi (Nat.not_lt_zero _)
    · intro i _
      show (0 : BitVec (2 * W)).getLsbD i = false
      simp

theorem bitPos_eq_LE {s : BufR W} {r : RefR} (h : RelLE s r) : s.bitPos = r.pos := by
  have := h.hpos
  unfold bitPos
  omega

end BufR
end Dsi
