/-
  Glue 2, part 1(b): the `WordAdapter` over a byte sink / byte source.  Writing the delivered
  words through the adapter produces the memory image (the canonical byte layout of the delivered
  bits); reading `W/8`-byte chunks through the adapter yields the logical words a memory reader
  over the same bytes holds (`wordsOfBytes`).
-/
import Dsi.Lemmas.Glue2Backends
namespace Dsi
namespace G2
variable {W : Nat}

/-! ### writing -/

/-- without faults, writing the native bytes of the words one after the other appends the
    memory image of the words -/
theorem writeWords_transparent (e : Endian) (out : List (BitVec W)) :
    ∀ (s : Sink), s.sched = [] →
      Sink.writeWords s (out.map (BufW.wordBytes e)) =
        .ok { s with bytes := s.bytes ++ out.flatMap (BufW.wordBytes e) } := by
  induction out with
  | nil => intro s _; cases s; simp [Sink.writeWords]
  | cons w ws ih =>
    intro s hs
    simp only [List.map_cons, Sink.writeWords]
    rw [adapter_write_transparent s _ hs]
    simp only
    rw [ih { bytes := s.bytes ++ BufW.wordBytes e w, sched := s.sched } hs]
    simp [List.flatMap_cons, List.append_assoc]

/-- for every schedule: if the writes succeed, exactly the memory image has been appended -/
theorem writeWords_lossless (e : Endian) (out : List (BitVec W)) (s s' : Sink)
    (h : Sink.writeWords s (out.map (BufW.wordBytes e)) = .ok s') :
    s'.bytes = s.bytes ++ out.flatMap (BufW.wordBytes e) := by
  rw [(adapter_write_words_lossless s _).1 s' h, List.flatMap_def]

/-! ### reading -/

/-- the logical word of a chunk of bytes: `from_be_bytes` / `from_le_bytes` -/
def wordOfChunk (e : Endian) (W : Nat) (c : List Nat) : BitVec W := BitVec.ofNat W (E2E.wordVal e c)

/-- `WordAdapter::read_word`: `read_exact` of `W/8` bytes, then `from_be_bytes`/`from_le_bytes` -/
def adReadWord (e : Endian) (W : Nat) (src : Source) : Res (BitVec W × Source) :=
  (src.readWord (W / 8)).map fun (c, s') => (wordOfChunk e W c, s')

/-- chunk `i` of `chunksExact` is bytes `[i*B, (i+1)*B)` -/
theorem chunksExact_getElem? {B : Nat} (hB : 0 < B) (k : Nat) : ∀ (l : List Nat) (fuel : Nat),
    l.length = k * B → k ≤ fuel → ∀ i, i < k →
    (chunksExact B l fuel).1[i]? = some ((l.drop (i * B)).take B) := by
  induction k with
  | zero => intro l fuel _ _ i hi; omega
  | succ k ih =>
    intro l fuel hl hk i hi
    cases fuel with
    | zero => omega
    | succ f =>
      have h0 : ¬ B = 0 := by omega
      have hge : ¬ l.length < B := by rw [hl, Nat.succ_mul]; omega
      have hd : (l.drop B).length = k * B := by
        rw [List.length_drop, hl, Nat.succ_mul]; omega
      simp only [chunksExact, h0, hge, if_false]
      cases i with
      | zero => simp
      | succ j =>
        simp only [List.getElem?_cons_succ]
        rw [ih (l.drop B) f hd (by omega) j (by omega), List.drop_drop]
        congr 3
        rw [Nat.succ_mul]; omega

theorem padTo_whole_len {B : Nat} (hB : 0 < B) (bytes : List Nat) :
    (padTo B bytes).length = (padTo B bytes).length / B * B := by
  have := Nat.div_add_mod (padTo B bytes).length B
  rw [E2E.padTo_length_mod hB bytes, Nat.add_zero, Nat.mul_comm] at this
  exact this.symm

/-- the number of logical words of a byte image: whole chunks after zero padding -/
theorem wordsOfBytes_length (e : Endian) (hB : 0 < W / 8) (bytes : List Nat) :
    (wordsOfBytes e W bytes).length = (padTo (W / 8) bytes).length / (W / 8) := by
  rw [E2E.wordsOfBytes_eq, List.length_map]
  exact (E2E.chunksExact_spec hB _ (padTo (W / 8) bytes) bytes.length (padTo_whole_len hB bytes)
    (E2E.padTo_chunks_le hB bytes)).2.2

/-- a byte image of a whole number of words has `length / (W/8)` words -/
theorem wordsOfBytes_length_whole (e : Endian) (hB : 0 < W / 8) (bytes : List Nat)
    (hmod : bytes.length % (W / 8) = 0) :
    (wordsOfBytes e W bytes).length = bytes.length / (W / 8) := by
  rw [wordsOfBytes_length e hB, E2E.padTo_of_mod bytes hmod]

/-- word `i` of the memory reader's view is the logical word of bytes `[i*B, (i+1)*B)`, as long
    as these bytes are all there (no padding involved) -/
theorem wordsOfBytes_getElem? (e : Endian) (hB : 0 < W / 8) (bytes : List Nat) (i : Nat)
    (hi : (i + 1) * (W / 8) ≤ bytes.length) :
    (wordsOfBytes e W bytes)[i]? = some (wordOfChunk e W ((bytes.drop (i * (W / 8))).take (W / 8))) := by
  have hlen := padTo_whole_len hB bytes
  have hle : bytes.length ≤ (padTo (W / 8) bytes).length := by
    rw [E2E.padTo_eq hB, List.length_append]; omega
  have hik : i < (padTo (W / 8) bytes).length / (W / 8) := by
    show i + 1 ≤ _
    exact (Nat.le_div_iff_mul_le hB).2 (Nat.le_trans hi hle)
  rw [E2E.wordsOfBytes_eq, List.getElem?_map,
    chunksExact_getElem? hB _ (padTo (W / 8) bytes) bytes.length hlen (E2E.padTo_chunks_le hB bytes) i hik]
  simp only [Option.map_some, wordOfChunk]
  congr 3
  rw [E2E.padTo_eq hB]
  have h1 : i * (W / 8) ≤ bytes.length := by rw [Nat.succ_mul] at hi; omega
  rw [List.drop_append_of_le_length h1, List.take_append_of_le_length]
  rw [List.length_drop]
  rw [Nat.succ_mul] at hi
  omega

/-- the adapter over the bytes from word `pos` on and the strict memory reader at word `pos`
    over the words of the same byte image -/
def AdRel (e : Endian) (W : Nat) (allBytes : List Nat) (src : Source) (m : MemR W) : Prop :=
  src.sched = [] ∧ m.strict = true ∧ m.data = wordsOfBytes e W allBytes ∧
  src.bytes = allBytes.drop (m.pos * (W / 8)) ∧ m.pos ≤ m.data.length

/-- **Fault-free reads through the adapter are the reads of the memory reader.**  On a byte image
    of a whole number of words, `read_word` through the adapter and `read_word` of the strict
    memory reader over `wordsOfBytes` return the same word and stay related, and both report
    `eof` at the end. -/
theorem adReadWord_refines (e : Endian) (hB : 0 < W / 8) (allBytes : List Nat)
    (hmod : allBytes.length % (W / 8) = 0) {src : Source} {m : MemR W}
    (h : AdRel e W allBytes src m) :
    ResRel (fun (w, src') (w', m') => w = w' ∧ AdRel e W allBytes src' m')
      (adReadWord e W src) m.readWord := by
  obtain ⟨hs, hstrict, hdata, hbytes, hpos⟩ := h
  have hlen := wordsOfBytes_length_whole e hB allBytes hmod
  have hdm := Nat.div_add_mod allBytes.length (W / 8)
  rw [hmod, Nat.add_zero] at hdm
  by_cases hin : m.pos < m.data.length
  · -- a complete word remains
    have hin' : m.pos < allBytes.length / (W / 8) := by rw [← hlen, ← hdata]; exact hin
    have hi : (m.pos + 1) * (W / 8) ≤ allBytes.length := by
      have : (m.pos + 1) * (W / 8) ≤ allBytes.length / (W / 8) * (W / 8) :=
        Nat.mul_le_mul_right _ hin'
      rw [Nat.mul_comm (allBytes.length / (W / 8))] at this
      omega
    have hw := wordsOfBytes_getElem? e hB allBytes m.pos hi
    have hrd := (adapter_read_transparent src (W / 8) hs).1
      (by rw [hbytes, List.length_drop]; rw [Nat.succ_mul] at hi; omega)
    rw [memr_read_inside m hin]
    unfold adReadWord
    rw [hrd]
    simp only [Res.map, ResRel]
    refine ⟨?_, hs, hstrict, hdata, ?_, hin⟩
    · have h1 : m.data[m.pos]? = some (wordOfChunk e W ((allBytes.drop (m.pos * (W / 8))).take (W / 8))) := by
        rw [hdata]; exact hw
      obtain ⟨_, h2⟩ := List.getElem?_eq_some_iff.1 h1
      rw [hbytes]
      exact h2.symm
    · simp only [hbytes, List.drop_drop]
      congr 1
      rw [Nat.succ_mul]
  · -- at the end: both `eof`
    have hend : m.data.length ≤ m.pos := by omega
    have hpe : m.pos = allBytes.length / (W / 8) := by rw [← hlen, ← hdata]; omega
    have hb0 : src.bytes.length < W / 8 := by
      rw [hbytes, List.length_drop, hpe, Nat.mul_comm, hdm]; omega
    rw [(memr_strict_read_eof m hstrict hend).1]
    unfold adReadWord
    rw [(adapter_read_transparent src (W / 8) hs).2.1 hb0]
    simp [Res.map, ResRel]

theorem adRel_start (e : Endian) (allBytes : List Nat) :
    AdRel e W allBytes { bytes := allBytes } { data := wordsOfBytes e W allBytes, pos := 0, strict := true } :=
  ⟨rfl, rfl, rfl, by simp, Nat.zero_le _⟩

/-- reading `k` words in sequence through the adapter -/
def adReadWords (e : Endian) (W : Nat) : Source → Nat → Res (List (BitVec W) × Source)
  | s, 0 => .ok ([], s)
  | s, k + 1 =>
    match adReadWord e W s with
    | .ok (w, s') =>
      match adReadWords e W s' k with
      | .ok (ws, s'') => .ok (w :: ws, s'')
      | .err x => .err x
      | .panic => .panic
      | .dpanic => .dpanic
    | .err x => .err x
    | .panic => .panic
    | .dpanic => .dpanic

/-- **The adapter's word stream.**  Whatever the length of the byte image (a trailing partial
    word allowed): with a fault-free source positioned at word `i`, the adapter returns the
    successive `W/8`-byte chunks as the words `i, i+1, …` of the memory reader's view
    (`wordsOfBytes`) while complete words remain. -/
theorem adReadWords_complete (e : Endian) (hB : 0 < W / 8) (allBytes : List Nat) (k : Nat) :
    ∀ i, (i + k) * (W / 8) ≤ allBytes.length →
      adReadWords e W { bytes := allBytes.drop (i * (W / 8)) } k =
        .ok (((wordsOfBytes e W allBytes).drop i).take k,
             { bytes := allBytes.drop ((i + k) * (W / 8)) }) := by
  induction k with
  | zero => intro i _; simp [adReadWords]
  | succ k ih =>
    intro i hi
    have hi1 : (i + 1) * (W / 8) ≤ allBytes.length := by
      have : (i + 1) * (W / 8) ≤ (i + (k + 1)) * (W / 8) := Nat.mul_le_mul_right _ (by omega)
      omega
    have hw := wordsOfBytes_getElem? e hB allBytes i hi1
    have hrd := (adapter_read_transparent { bytes := allBytes.drop (i * (W / 8)) } (W / 8) rfl).1
      (by simp only [List.length_drop]; rw [Nat.succ_mul] at hi1; omega)
    simp only [List.drop_drop] at hrd
    unfold adReadWords adReadWord
    rw [hrd]
    simp only [Res.map]
    rw [show i * (W / 8) + W / 8 = (i + 1) * (W / 8) by rw [Nat.succ_mul]]
    rw [ih (i + 1) (by rw [show i + 1 + k = i + (k + 1) by omega]; exact hi)]
    simp only [Res.ok.injEq, Prod.mk.injEq]
    refine ⟨?_, by rw [show i + 1 + k = i + (k + 1) by omega]⟩
    have hlt : i < (wordsOfBytes e W allBytes).length := by
      rcases Nat.lt_or_ge i (wordsOfBytes e W allBytes).length with h | h
      · exact h
      · rw [List.getElem?_eq_none h] at hw; cases hw
    rw [List.drop_eq_getElem_cons hlt, List.take_succ_cons]
    congr 1
    have : (wordsOfBytes e W allBytes)[i]? = some (wordsOfBytes e W allBytes)[i] :=
      List.getElem?_eq_getElem hlt
    rw [hw] at this
    exact Option.some.inj this

/-- … and `eof` as soon as fewer than `W/8` bytes are left -/
theorem adReadWord_eof (e : Endian) (src : Source) (hs : src.sched = [])
    (h : src.bytes.length < W / 8) : adReadWord e W src = .err .eof := by
  unfold adReadWord
  rw [(adapter_read_transparent src (W / 8) hs).2.1 h]
  rfl

/-! ### round trip: what the adapter wrote is what the adapter reads -/

theorem wordBytes_eq_layout (e : Endian) (h8 : 8 ∣ W) (w : BitVec W) :
    BufW.wordBytes e w = layout e (wordBits e w) := by
  have := layout_word e h8 w []
  simpa [layout, layoutAux] using this.symm

theorem wordBytes_length (e : Endian) (w : BitVec W) : (BufW.wordBytes e w).length = W / 8 := by
  cases e <;> simp [BufW.wordBytes]

theorem wordBits_inj (e : Endian) {a b : BitVec W} (h : wordBits e a = wordBits e b) : a = b := by
  have h' : fieldLE a.toNat W = fieldLE b.toNat W := by
    cases e
    · exact List.reverse_inj.1 h
    · exact h
  have h2 := congrArg natLE h'
  rw [natLE_fieldLE, natLE_fieldLE, Nat.mod_eq_of_lt a.isLt, Nat.mod_eq_of_lt b.isLt] at h2
  exact BitVec.eq_of_toNat_eq h2

/-- `from_be_bytes(to_be_bytes(w)) = w` (and LE): the logical word of the native bytes of a word
    is the word -/
theorem wordOfChunk_wordBytes (e : Endian) (h8 : 8 ∣ W) (w : BitVec W) :
    wordOfChunk e W (BufW.wordBytes e w) = w := by
  apply wordBits_inj e
  have hlt : ∀ b ∈ BufW.wordBytes e w, b < 256 := by
    rw [wordBytes_eq_layout e h8]; exact e2e_layout_lt e _
  rw [wordOfChunk, E2E.word_of_chunk e h8 _ (wordBytes_length e w) hlt, wordBytes_eq_layout e h8,
    e2e_bits_of_layout]
  have hl : (wordBits e w).length = W := by simp [wordBits]
  obtain ⟨m, rfl⟩ := h8
  rw [hl, Nat.mul_mod_right]
  simp

/-- reading back, through a fault-free adapter, the memory image of a list of words returns
    the words (and leaves what follows) -/
theorem adReadWords_wordBytes (e : Endian) (h8 : 8 ∣ W) (out : List (BitVec W)) (rest : List Nat) :
    adReadWords e W { bytes := out.flatMap (BufW.wordBytes e) ++ rest } out.length =
      .ok (out, { bytes := rest }) := by
  induction out with
  | nil => simp [adReadWords]
  | cons w ws ih =>
    have hrd := (adapter_read_transparent
      { bytes := (w :: ws).flatMap (BufW.wordBytes e) ++ rest } (W / 8) rfl).1
      (by simp only [List.flatMap_cons, List.length_append, wordBytes_length]; omega)
    simp only [List.flatMap_cons, List.append_assoc] at hrd
    rw [List.take_left' (wordBytes_length e w), List.drop_left' (wordBytes_length e w)] at hrd
    simp only [List.length_cons, List.flatMap_cons, List.append_assoc]
    unfold adReadWords adReadWord
    rw [hrd]
    simp only [Res.map]
    rw [ih, wordOfChunk_wordBytes e h8]

end G2
end Dsi
