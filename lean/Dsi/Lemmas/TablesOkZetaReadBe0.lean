/-
  C05 — kernel-evaluated table theorems (ζ₃ decoding, BE, piece 0 of 3: chunks 0 and 1).  Each statement is a closed Boolean
  computation over the *generated* table (no table content is mentioned here), checked by the
  kernel's evaluator (`decide +kernel`: no `native_decide`, no compiler trust).
-/
import Dsi.Lemmas.TablesCheck
import Dsi.Gen.TablesZeta
namespace Dsi
open Gen

theorem Tables.zeta_read_be_p0 :
    chkReadHead .be (readZetaDefault 3) Zeta.READ_BITS Zeta.MISSING_VALUE_LEN_BE 2
      (0, Zeta.READ_BE_chunks, Zeta.READ_LEN_BE_chunks) = true := by decide +kernel

end Dsi
