/-
  Minimal binary, Golomb, ζ: the L2 programs against the published codewords, in the
  return-value-explicit form `WritesR` (the final `Writes` statements are in `Dsi.Props.CodesB`).
-/
import Dsi.Lemmas.CodesBFrame
import Dsi.Lemmas.CodesBArith
namespace Dsi.CodesB
open Dsi

/-! ### minimal binary -/

theorem minbin_length (e : Endian) (x u : Nat) :
    (Spec.minimalBinary e x u).length
      = if x < 2 ^ (u.log2 + 1) - u then u.log2 else u.log2 + 1 := by
  unfold Spec.minimalBinary
  by_cases h : x < 2 ^ (u.log2 + 1) - u
  · simp [h, fieldBits_length]
  · simp [h, fieldBits_length]

theorem minbin_len' (e : Endian) (x u : Nat) (hu : 1 ≤ u) (h64 : u < 2 ^ 64) :
    lenMinimalBinary x u = (Spec.minimalBinary e x u).length := by
  rw [minbin_length, lenMinimalBinary, mbLimit_eq hu h64, if_neg (by omega)]
  by_cases h : x < 2 ^ (u.log2 + 1) - u
  · rw [if_pos h, if_neg (by omega)]
  · rw [if_neg h, if_pos (by omega)]

theorem minbin_writesR (e : Endian) (checks : Bool) (x u : Nat) (hu : 1 ≤ u) (h64 : u < 2 ^ 64)
    (hx : x < u) :
    WritesR (writeMinimalBinary x u) e checks (Spec.minimalBinary e x u)
      (Spec.minimalBinary e x u).length := by
  obtain ⟨h1, h2⟩ := log2_bounds hu
  have hl := log2_le_63 hu h64
  have hlim := limit_le hu
  have hp : 2 ^ u.log2 ≤ 2 ^ 63 := Nat.pow_le_pow_right (by omega) hl
  rw [minbin_length]
  unfold writeMinimalBinary Spec.minimalBinary
  rw [if_neg (by omega)]
  simp only [mbLimit_eq hu h64]
  by_cases h : x < 2 ^ (u.log2 + 1) - u
  · simp only [if_pos h]
    have := writesR_writeBits (e := e) (checks := checks) (k := fun _ => WProg.ret u.log2)
      x u.log2 (by omega) (Or.inr (by omega)) (writesR_ret e checks _)
    simpa using this
  · simp only [if_neg h]
    have htw : x + (2 ^ (u.log2 + 1) - u) = x + 2 ^ (u.log2 + 1) - u := by omega
    have hlt : x + 2 ^ (u.log2 + 1) - u < 2 ^ (u.log2 + 1) := by omega
    have hlt64 : ¬ x + 2 ^ (u.log2 + 1) - u ≥ 2 ^ 64 := by
      rw [Nat.pow_succ] at hlt; omega
    rw [htw, if_neg hlt64]
    have hhalf : (x + 2 ^ (u.log2 + 1) - u) / 2 < 2 ^ u.log2 := by
      rw [Nat.pow_succ] at hlt ⊢; omega
    have := writesR_writeBits (e := e) (checks := checks)
      (k := fun _ => WProg.writeBits ((x + 2 ^ (u.log2 + 1) - u) % 2) 1 fun _ =>
        WProg.ret (u.log2 + 1))
      ((x + 2 ^ (u.log2 + 1) - u) / 2) u.log2 (by omega) (Or.inr (by omega))
      (writesR_writeBits (k := fun _ => WProg.ret (u.log2 + 1))
        ((x + 2 ^ (u.log2 + 1) - u) % 2) 1 (by omega) (Or.inr (by omega))
        (writesR_ret e checks _))
    simpa [fieldBits_one] using this

theorem minbin_reads' (e : Endian) (x u : Nat) (hu : 1 ≤ u) (h64 : u < 2 ^ 64) (hx : x < u) :
    Reads (readMinimalBinary u) e (Spec.minimalBinary e x u) x := by
  obtain ⟨h1, h2⟩ := log2_bounds hu
  have hl := log2_le_63 hu h64
  have hlim := limit_le hu
  have hp : 2 ^ u.log2 ≤ 2 ^ 63 := Nat.pow_le_pow_right (by omega) hl
  unfold readMinimalBinary Spec.minimalBinary
  rw [if_neg (by omega)]
  simp only [mbLimit_eq hu h64]
  by_cases h : x < 2 ^ (u.log2 + 1) - u
  · simp only [if_pos h]
    have hmod : x % 2 ^ u.log2 = x := Nat.mod_eq_of_lt (by omega)
    have := reads_readBits (e := e)
      (k := fun prefix_ => if prefix_ < 2 ^ (u.log2 + 1) - u then RProg.ret prefix_
        else RProg.readBits 1 fun b =>
          if 2 * prefix_ + b ≥ 2 ^ 64 ∨ 2 * prefix_ + b < 2 ^ (u.log2 + 1) - u then RProg.dpanic
          else RProg.ret (2 * prefix_ + b - (2 ^ (u.log2 + 1) - u)))
      (rest := []) (a := x) x u.log2 (by omega) (by
        simp only [hmod, if_pos h]; exact reads_ret e x)
    simpa using this
  · simp only [if_neg h]
    have hlt : x + 2 ^ (u.log2 + 1) - u < 2 ^ (u.log2 + 1) := by omega
    have hhalf : (x + 2 ^ (u.log2 + 1) - u) / 2 < 2 ^ u.log2 := by
      rw [Nat.pow_succ] at hlt ⊢; omega
    have hmod : (x + 2 ^ (u.log2 + 1) - u) / 2 % 2 ^ u.log2 = (x + 2 ^ (u.log2 + 1) - u) / 2 :=
      Nat.mod_eq_of_lt hhalf
    have hge : ¬ (x + 2 ^ (u.log2 + 1) - u) / 2 < 2 ^ (u.log2 + 1) - u := by omega
    have hfb := fieldBits_one e (x + 2 ^ (u.log2 + 1) - u)
    rw [← hfb]
    have hmod2 : (x + 2 ^ (u.log2 + 1) - u) % 2 ^ 1 = (x + 2 ^ (u.log2 + 1) - u) % 2 := by simp
    have hrec : 2 * ((x + 2 ^ (u.log2 + 1) - u) / 2) + (x + 2 ^ (u.log2 + 1) - u) % 2
        = x + 2 ^ (u.log2 + 1) - u := by omega
    have hno : ¬ (x + 2 ^ (u.log2 + 1) - u ≥ 2 ^ 64 ∨
        x + 2 ^ (u.log2 + 1) - u < 2 ^ (u.log2 + 1) - u) := by
      rw [Nat.pow_succ] at hlt ⊢; omega
    have hback : x + 2 ^ (u.log2 + 1) - u - (2 ^ (u.log2 + 1) - u) = x := by omega
    have := reads_readBits (e := e)
      (k := fun prefix_ => if prefix_ < 2 ^ (u.log2 + 1) - u then RProg.ret prefix_
        else RProg.readBits 1 fun b =>
          if 2 * prefix_ + b ≥ 2 ^ 64 ∨ 2 * prefix_ + b < 2 ^ (u.log2 + 1) - u then RProg.dpanic
          else RProg.ret (2 * prefix_ + b - (2 ^ (u.log2 + 1) - u)))
      (rest := fieldBits e (x + 2 ^ (u.log2 + 1) - u) 1) (a := x)
      ((x + 2 ^ (u.log2 + 1) - u) / 2) u.log2 (by omega) (by
        simp only [hmod, if_neg hge]
        have := reads_readBits (e := e)
          (k := fun b =>
            if 2 * ((x + 2 ^ (u.log2 + 1) - u) / 2) + b ≥ 2 ^ 64 ∨
                2 * ((x + 2 ^ (u.log2 + 1) - u) / 2) + b < 2 ^ (u.log2 + 1) - u then RProg.dpanic
            else RProg.ret (2 * ((x + 2 ^ (u.log2 + 1) - u) / 2) + b - (2 ^ (u.log2 + 1) - u)))
          (rest := []) (a := x) (x + 2 ^ (u.log2 + 1) - u) 1 (by omega) (by
            simp only [hmod2, hrec, if_neg hno, hback]; exact reads_ret e x)
        simpa using this)
    exact this

/-! ### Golomb -/

theorem golomb_length (e : Endian) (b n : Nat) :
    (Spec.golomb e b n).length = n / b + 1 + (Spec.minimalBinary e (n % b) b).length := by
  simp [Spec.golomb, Spec.unary, unaryBits_length]

theorem golomb_writesR (e : Endian) (checks : Bool) (b n : Nat) (hb : 1 ≤ b) (hb64 : b < 2 ^ 64)
    (hq : n / b < 2 ^ 64 - 1) :
    WritesR (writeGolomb n b) e checks (Spec.golomb e b n) (Spec.golomb e b n).length := by
  rw [golomb_length]
  unfold writeGolomb Spec.golomb Spec.unary
  rw [if_neg (by omega)]
  apply writesR_writeUnary _ hq
  have hmb := minbin_writesR e checks (n % b) b hb hb64 (Nat.mod_lt _ (by omega))
  have := writesR_bind (k := fun c => WProg.ret (n / b + 1 + c)) hmb (writesR_ret e checks _)
  simpa using this

theorem golomb_reads' (e : Endian) (b n : Nat) (hb : 1 ≤ b) (hb64 : b < 2 ^ 64) (hn : n < 2 ^ 64) :
    Reads (readGolomb b) e (Spec.golomb e b n) n := by
  unfold readGolomb Spec.golomb Spec.unary
  apply reads_readUnary
  have hmb := minbin_reads' e (n % b) b hb hb64 (Nat.mod_lt _ (by omega))
  have hval : n / b * b + n % b = n := by
    rw [Nat.mul_comm]; exact Nat.div_add_mod n b
  have := reads_bind (k := fun r => if n / b * b + r ≥ 2 ^ 64 then RProg.dpanic
      else RProg.ret (n / b * b + r)) (c := n) hmb (by
    simp only [hval, if_neg (show ¬ n ≥ 2 ^ 64 by omega)]; exact reads_ret e n)
  simpa using this

theorem golomb_len' (e : Endian) (b n : Nat) (hb : 1 ≤ b) (hb64 : b < 2 ^ 64) :
    lenGolomb n b = (Spec.golomb e b n).length := by
  rw [golomb_length, lenGolomb, minbin_len' e _ _ hb hb64]

/-! ### ζ -/

theorem zetaWrapped_length (e : Endian) (k n : Nat) :
    (Spec.zetaWrapped e k n).length = (n + 1).log2 / k + 1 +
      (Spec.minimalBinary e (n + 1 - 2 ^ ((n + 1).log2 / k * k))
        ((if ((n + 1).log2 / k + 1) * k ≤ 64 then 2 ^ (((n + 1).log2 / k + 1) * k) else 2 ^ 64)
          - 2 ^ ((n + 1).log2 / k * k))).length := by
  simp [Spec.zetaWrapped, Spec.unary, unaryBits_length]

theorem zeta_writesR (e : Endian) (checks : Bool) (k n : Nat) (hk1 : 1 ≤ k) (hk : k ≤ 63)
    (hn : n < 2 ^ 64 - 1) :
    WritesR (writeZetaDefault n k) e checks (Spec.zetaWrapped e k n)
      (Spec.zetaWrapped e k n).length := by
  obtain ⟨hhk, hU1, hU64, hlm, hxU⟩ :=
    zeta_range (n + 1) k ((n + 1).log2 / k) rfl (by omega) (by omega) hk1
  rw [zetaWrapped_length]
  unfold writeZetaDefault Spec.zetaWrapped Spec.unary
  rw [if_neg (by omega), if_neg (by omega), if_neg (by omega)]
  simp only [zetaU_eq _ _ hhk hk]
  have hh : (n + 1).log2 / k < 2 ^ 64 - 1 := by
    have := Nat.div_le_self (n + 1).log2 k
    have := log2_le_63 (u := n + 1) (by omega) (by omega)
    omega
  apply writesR_writeUnary _ hh
  have hmb := minbin_writesR e checks _ _ hU1 hU64 hxU
  have := writesR_bind (k := fun c => WProg.ret ((n + 1).log2 / k + 1 + c)) hmb
    (writesR_ret e checks _)
  simpa using this

theorem zeta_reads' (e : Endian) (k n : Nat) (hk1 : 1 ≤ k) (hk : k ≤ 63) (hn : n < 2 ^ 64 - 1) :
    Reads (readZetaDefault k) e (Spec.zetaWrapped e k n) n := by
  obtain ⟨hhk, hU1, hU64, hlm, hxU⟩ :=
    zeta_range (n + 1) k ((n + 1).log2 / k) rfl (by omega) (by omega) hk1
  unfold readZetaDefault Spec.zetaWrapped Spec.unary
  apply reads_readUnary
  rw [if_neg (by omega)]
  simp only [zetaU_eq _ _ hhk hk]
  have hmb := minbin_reads' e _ _ hU1 hU64 hxU
  have hpos : 0 < 2 ^ ((n + 1).log2 / k * k) := Nat.two_pow_pos _
  have := reads_bind
    (k := fun res => if 2 ^ ((n + 1).log2 / k * k) + res = 0 ∨
        2 ^ ((n + 1).log2 / k * k) + res - 1 ≥ 2 ^ 64 then RProg.dpanic
      else RProg.ret (2 ^ ((n + 1).log2 / k * k) + res - 1)) (c := n) hmb (by
    have h1 : 2 ^ ((n + 1).log2 / k * k) + (n + 1 - 2 ^ ((n + 1).log2 / k * k)) - 1 = n := by omega
    rw [if_neg (by omega), h1]; exact reads_ret e n)
  simpa using this

theorem zeta_len' (e : Endian) (k n : Nat) (hk1 : 1 ≤ k) (hk : k ≤ 63) (hn : n < 2 ^ 64 - 1) :
    lenZetaDefault n k = (Spec.zetaWrapped e k n).length := by
  obtain ⟨hhk, hU1, hU64, hlm, hxU⟩ :=
    zeta_range (n + 1) k ((n + 1).log2 / k) rfl (by omega) (by omega) hk1
  rw [zetaWrapped_length, lenZetaDefault]
  simp only [zetaU_eq _ _ hhk hk]
  rw [minbin_len' e _ _ hU1 hU64]

end Dsi.CodesB
