/-
  Each operation of the concrete writer has the closed form `Core`: it appends exactly the
  expected bits to the abstract stream, or fails exactly when the backend is full.
-/
import Dsi.Lemmas.WriterOps
set_option linter.unusedSimpArgs false
namespace Dsi
namespace BufW
variable {W : Nat}

/-- `res` is the outcome of appending `bs` to `s` and returning `ret` -/
def Core (e : Endian) (s : BufW W) (bs : List Bool) (ret : Nat) (res : Res (Nat × BufW W)) :
    Prop :=
  ∃ (ws : List (BitVec W)) (b : BitVec W) (sp : Nat), res = coreRes s ws b sp ret ∧
    1 ≤ sp ∧ sp ≤ W ∧
    validAt e s.buffer s.space ++ bs = ws.flatMap (wordBits e) ++ validAt e b sp

theorem writeBitsBE_core (s : BufW W) (v : BitVec 64) (n : Nat) (hi : s.Inv) (hc : s.CapOk)
    (hn : n ≤ 64) (hd : s.dirty v n = false) :
    Core .be s (fieldBits .be v.toNat n) n (writeBitsBE s v n) := by
  obtain ⟨buffer, space, out, cap, checks⟩ := s
  obtain ⟨hi1, hi2⟩ := hi
  simp only at hi1 hi2
  unfold writeBitsBE
  simp only [show ¬ n > 64 by omega, hd, if_false, Bool.false_eq_true]
  by_cases hfast : n < space
  · refine ⟨[], (buffer <<< n) ||| (v.setWidth W &&& ~~~(BitVec.allOnes W <<< n)), space - n, ?_, by omega, by omega, ?_⟩
    · simp [hfast, coreRes, show capFits cap out.length = true from hc]
    · simp only [List.flatMap_nil, List.nil_append]
      exact (fast_be buffer v hfast hi2).symm
  · simp only [hfast, if_false]
    have hk : (n - space) / W * W ≤ n - space := Nat.div_mul_le_self _ _
    have hW : 0 < W := by omega
    have hlt : n - space - (n - space) / W * W < W := by
      have := Nat.mod_lt (n - space) hW
      rw [Nat.mod_eq_sub_div_mul] at this; exact this
    refine ⟨(((buffer <<< (space - 1)) <<< 1) ||| ((v <<< (64 - n)) >>> (64 - space)).setWidth W)
        :: wordsBE v ((n - space) / W) (n - space), v.setWidth W,
      W - (n - space - (n - space) / W * W), ?_, by omega, by omega, ?_⟩
    · rw [emit_eq]
      by_cases h1 : capFits cap (out.length + 1) = true
      · simp only [h1, if_true]
        rw [spillBE_eq _ _ _ _ (by simpa [CapOk] using h1)]
        simp only [coreRes, List.length_append, List.length_singleton, List.length_cons,
          wordsBE_length, Nat.add_assoc, Nat.add_comm 1]
        by_cases h2 : capFits cap (out.length + ((n - space) / W + 1)) = true
        · simp [h2]
        · simp [h2]
      · have h2 := capFits_mono' ((n - space) / W) h1
        rw [Nat.add_assoc, Nat.add_comm 1] at h2
        simp [h1, h2, coreRes]
    · simp only [List.flatMap_cons]
      rw [first_be buffer v hi1 (by omega) hi2 hn, last_be v hlt,
        fieldBE_cut v.toNat (n := n) (b := n - space) (by omega),
        show n - (n - space) = space by omega]
      simp only [List.append_assoc]
      rw [wordsBE_bits v _ _ hk]

theorem writeBitsLE_core (s : BufW W) (v : BitVec 64) (n : Nat) (hi : s.Inv) (hc : s.CapOk)
    (hn : n ≤ 64) (hd : s.dirty v n = false) :
    Core .le s (fieldBits .le v.toNat n) n (writeBitsLE s v n) := by
  obtain ⟨buffer, space, out, cap, checks⟩ := s
  obtain ⟨hi1, hi2⟩ := hi
  simp only at hi1 hi2
  unfold writeBitsLE
  simp only [show ¬ n > 64 by omega, hd, if_false, Bool.false_eq_true]
  by_cases hfast : n < space
  · refine ⟨[], (buffer >>> n) |||
        (v.setWidth W &&& ~~~(BitVec.allOnes W <<< n)).rotateRight n, space - n,
      ?_, by omega, by omega, ?_⟩
    · simp [hfast, coreRes, show capFits cap out.length = true from hc]
    · simp only [List.flatMap_nil, List.nil_append]
      exact (fast_le buffer v hfast hi2).symm
  · simp only [hfast, if_false]
    have hW : 0 < W := by omega
    have hlt : (n - space) % W < W := Nat.mod_lt _ hW
    refine ⟨(((buffer >>> (space - 1)) >>> 1) ||| (v.setWidth W <<< (W - space)))
        :: wordsLE ((n - space) / W) ((v >>> (space - 1)) >>> 1),
      ((restLE W ((n - space) / W) ((v >>> (space - 1)) >>> 1)).setWidth W).rotateRight (n - space),
      W - (n - space) % W, ?_, by omega, by omega, ?_⟩
    · rw [emit_eq]
      by_cases h1 : capFits cap (out.length + 1) = true
      · simp only [h1, if_true]
        rw [spillLE_eq _ _ _ (by simpa [CapOk] using h1)]
        simp only [coreRes, List.length_append, List.length_singleton, List.length_cons,
          wordsLE_length, Nat.add_assoc, Nat.add_comm 1]
        by_cases h2 : capFits cap (out.length + ((n - space) / W + 1)) = true
        · simp [h2]
        · simp [h2]
      · have h2 := capFits_mono' ((n - space) / W) h1
        rw [Nat.add_assoc, Nat.add_comm 1] at h2
        simp [h1, h2, coreRes]
    · simp only [List.flatMap_cons]
      rw [first_le buffer v hi1 hi2 (by omega), last_le _ _ hW]
      simp only [List.append_assoc]
      rw [wordsLE_bits, ← BitVec.shiftRight_add, show space - 1 + 1 = space by omega,
        BitVec.toNat_ushiftRight, Nat.shiftRight_eq_div_pow,
        Nat.mul_comm, Nat.div_add_mod]
      simp only [fieldBits]
      rw [fieldLE_cut v.toNat (n := n) (a := space) (by omega)]


theorem capFits_le {cap : Option Nat} {a b : Nat} (h : a ≤ b) (hb : capFits cap b = true) :
    capFits cap a = true := by
  obtain ⟨d, rfl⟩ := Nat.exists_eq_add_of_le h
  exact capFits_mono hb

theorem validAt_full (e : Endian) (b : BitVec W) : validAt e b W = [] := by
  apply List.eq_nil_of_length_eq_zero; simp

theorem zeros_flatMap (e : Endian) (k : Nat) :
    (List.replicate k (0 : BitVec W)).flatMap (wordBits e) = List.replicate (k * W) false := by
  induction k with
  | zero => simp
  | succ k ih =>
    rw [List.replicate_succ, List.flatMap_cons, ih, zero_word, Nat.succ_mul, Nat.add_comm,
      List.replicate_append_replicate]

theorem unaryBits_add (a b : Nat) : unaryBits (a + b) = List.replicate a false ++ unaryBits b := by
  simp [unaryBits, ← List.replicate_append_replicate]

theorem writeUnary_core (e : Endian) (s : BufW W) (x : Nat) (hi : s.Inv) (hc : s.CapOk)
    (hx : x < 2 ^ 64 - 1) :
    Core e s (unaryBits x) (x + 1) (writeUnary e s x) := by
  obtain ⟨buffer, space, out, cap, checks⟩ := s
  obtain ⟨hi1, hi2⟩ := hi
  simp only at hi1 hi2
  have hW : 0 < W := by omega
  unfold writeUnary
  simp only [show ¬ x ≥ 2 ^ 64 - 1 by omega, if_false]
  by_cases hfast : x + 1 ≤ space
  · simp only [hfast, if_true]
    by_cases h0 : space - (x + 1) = 0
    · simp only [h0, if_true]
      refine ⟨[shiftIn e (shiftIn e buffer x) 1 ||| oneWord e],
        shiftIn e (shiftIn e buffer x) 1 ||| oneWord e, W, ?_, by omega, by omega, ?_⟩
      · rw [emit_eq]
        by_cases h1 : capFits cap (out.length + 1) = true
        · simp [h1, coreRes]
        · simp [h1, coreRes]
      · simp only [List.flatMap_cons, List.flatMap_nil, List.append_nil, validAt_full]
        rw [← validAt_zero, ← h0]
        exact (unary_fast e buffer hfast hi2).symm
    · simp only [h0, if_false]
      refine ⟨[], shiftIn e (shiftIn e buffer x) 1 ||| oneWord e, space - (x + 1), ?_,
        by omega, by omega, ?_⟩
      · simp [coreRes, show capFits cap out.length = true from hc]
      · simp only [List.flatMap_nil, List.nil_append]
        exact (unary_fast e buffer hfast hi2).symm
  · simp only [hfast, if_false]
    rw [shiftIn_shiftIn, show space - 1 + 1 = space by omega]
    have hdm := Nat.div_add_mod (x - space) W
    have hlt : (x - space) % W < W := Nat.mod_lt _ hW
    have hbits : validAt e buffer space ++ unaryBits x =
        wordBits e (shiftIn e buffer space) ++
          ((List.replicate ((x - space) / W) (0 : BitVec W)).flatMap (wordBits e) ++
            unaryBits ((x - space) % W)) := by
      rw [shifted_word e buffer hi2, zeros_flatMap, List.append_assoc, ← unaryBits_add,
        ← unaryBits_add]
      congr 2
      rw [Nat.mul_comm]; omega
    generalize (x - space) / W = k at *
    by_cases hlast : (x - space) % W = W - 1
    · simp only [hlast, if_true]
      refine ⟨shiftIn e buffer space :: (List.replicate k 0 ++ [oneWord e]),
        shiftIn e buffer space, W, ?_, by omega, by omega, ?_⟩
      · rw [emit_eq]
        by_cases h1 : capFits cap (out.length + 1) = true
        · simp only [h1, if_true]
          rw [zeroWords_eq _ _ (by simpa [CapOk] using h1)]
          simp only [List.length_append, List.length_singleton]
          by_cases h2 : capFits cap (out.length + 1 + k) = true
          · simp only [h2, if_true, emit_eq, List.length_append, List.length_replicate,
              List.length_singleton]
            by_cases h3 : capFits cap (out.length + 1 + k + 1) = true
            · have h4 : capFits cap (out.length + (k + 1 + 1)) = true :=
                capFits_le (by omega) h3
              simp [h3, h4, coreRes]
            · have h4 : ¬ capFits cap (out.length + (k + 1 + 1)) = true :=
                fun h => h3 (capFits_le (by omega) h)
              simp [h3, h4, coreRes]
          · have h4 : ¬ capFits cap (out.length + (k + 1 + 1)) = true :=
              fun h => h2 (capFits_le (by omega) h)
            simp [h2, h4, coreRes]
        · have h4 : ¬ capFits cap (out.length + (k + 1 + 1)) = true :=
            fun h => h1 (capFits_le (by omega) h)
          simp [h1, h4, coreRes]
      · rw [hbits, hlast, ← one_word e hW]
        simp [validAt_full]
    · simp only [hlast, if_false]
      refine ⟨shiftIn e buffer space :: List.replicate k 0,
        oneWord e, W - ((x - space) % W + 1), ?_, by omega, by omega, ?_⟩
      · rw [emit_eq]
        by_cases h1 : capFits cap (out.length + 1) = true
        · simp only [h1, if_true]
          rw [zeroWords_eq _ _ (by simpa [CapOk] using h1)]
          simp only [List.length_append, List.length_singleton]
          by_cases h2 : capFits cap (out.length + 1 + k) = true
          · have h4 : capFits cap (out.length + (k + 1)) = true :=
              capFits_le (by omega) h2
            simp [h2, h4, coreRes]
          · have h4 : ¬ capFits cap (out.length + (k + 1)) = true :=
              fun h => h2 (capFits_le (by omega) h)
            simp [h2, h4, coreRes]
        · have h4 : ¬ capFits cap (out.length + (k + 1)) = true :=
            fun h => h1 (capFits_le (by omega) h)
          simp [h1, h4, coreRes]
      · rw [hbits, one_valid e (by omega)]
        simp

end BufW
end Dsi
