/-
  Headline2: two implementations of the `BitWrite` interface that agree, on the states of an
  invariant `J` kept by the second one, except where the second one debug-panics, run every program
  alike (except where the second one debug-panics).  Used to replace the hand-written writer by the
  generated one *under* a wrapper (`CountW.impl`) or inside a composite operation.
-/
import Dsi.Prog
namespace Dsi
namespace Headline2

/-- `I` agrees with `I'` on `J`-states off the debug-panics of `I'`, and `I'` keeps `J` -/
structure WAgree {σ : Type} (I I' : WImpl σ) (J : σ → Prop) : Prop where
  writeBits : ∀ s v n, J s →
    (I'.writeBits s v n = .dpanic ∨ I.writeBits s v n = I'.writeBits s v n) ∧
    ∀ r s', I'.writeBits s v n = .ok (r, s') → J s'
  writeUnary : ∀ s x, J s →
    (I'.writeUnary s x = .dpanic ∨ I.writeUnary s x = I'.writeUnary s x) ∧
    ∀ r s', I'.writeUnary s x = .ok (r, s') → J s'
  flush : ∀ s, J s →
    (I'.flush s = .dpanic ∨ I.flush s = I'.flush s) ∧
    ∀ r s', I'.flush s = .ok (r, s') → J s'

theorem wrun_agree {σ α : Type} {I I' : WImpl σ} {J : σ → Prop} (h : WAgree I I' J) (p : WProg α) :
    ∀ s, J s → p.run I' s = .dpanic ∨ p.run I s = p.run I' s := by
  induction p with
  | ret a => intro s _; exact Or.inr rfl
  | panic => intro s _; exact Or.inr rfl
  | dpanic => intro s _; exact Or.inl rfl
  | writeBits v n k ih =>
    intro s hj
    obtain ⟨h1, h2⟩ := h.writeBits s v n hj
    simp only [WProg.run]
    rcases h1 with h1 | h1
    · rw [h1]; exact Or.inl rfl
    · rw [h1]
      cases hr : I'.writeBits s v n with
      | ok q => obtain ⟨r, s'⟩ := q; exact ih r s' (h2 r s' hr)
      | err _ => exact Or.inr rfl
      | panic => exact Or.inr rfl
      | dpanic => exact Or.inl rfl
  | writeUnary x k ih =>
    intro s hj
    obtain ⟨h1, h2⟩ := h.writeUnary s x hj
    simp only [WProg.run]
    rcases h1 with h1 | h1
    · rw [h1]; exact Or.inl rfl
    · rw [h1]
      cases hr : I'.writeUnary s x with
      | ok q => obtain ⟨r, s'⟩ := q; exact ih r s' (h2 r s' hr)
      | err _ => exact Or.inr rfl
      | panic => exact Or.inr rfl
      | dpanic => exact Or.inl rfl
  | flush k ih =>
    intro s hj
    obtain ⟨h1, h2⟩ := h.flush s hj
    simp only [WProg.run]
    rcases h1 with h1 | h1
    · rw [h1]; exact Or.inl rfl
    · rw [h1]
      cases hr : I'.flush s with
      | ok q => obtain ⟨r, s'⟩ := q; exact ih r s' (h2 r s' hr)
      | err _ => exact Or.inr rfl
      | panic => exact Or.inr rfl
      | dpanic => exact Or.inl rfl

/-- a run that succeeds on `I'` is the run on `I` -/
theorem wrun_of_ok {σ α : Type} {I I' : WImpl σ} {J : σ → Prop} (h : WAgree I I' J) (p : WProg α)
    {s : σ} (hj : J s) {a : α} {s' : σ} (hr : p.run I' s = .ok (a, s')) : p.run I s = .ok (a, s') := by
  rcases wrun_agree h p s hj with h1 | h1
  · rw [hr] at h1; cases h1
  · rw [h1, hr]

/-- the invariant after a successful run -/
theorem wrun_inv {σ α : Type} {I' : WImpl σ} {J : σ → Prop}
    (hwb : ∀ s v n r s', J s → I'.writeBits s v n = .ok (r, s') → J s')
    (hwu : ∀ s x r s', J s → I'.writeUnary s x = .ok (r, s') → J s')
    (hfl : ∀ s r s', J s → I'.flush s = .ok (r, s') → J s') (p : WProg α) :
    ∀ s a s', J s → p.run I' s = .ok (a, s') → J s' := by
  induction p with
  | ret a => intro s b s' hj h; simp only [WProg.run] at h; cases h; exact hj
  | panic => intro s b s' _ h; simp only [WProg.run] at h; cases h
  | dpanic => intro s b s' _ h; simp only [WProg.run] at h; cases h
  | writeBits v n k ih =>
    intro s b s' hj h
    simp only [WProg.run] at h
    cases hr : I'.writeBits s v n with
    | ok q => obtain ⟨r, s1⟩ := q; rw [hr] at h; exact ih r s1 b s' (hwb s v n r s1 hj hr) h
    | err _ => rw [hr] at h; cases h
    | panic => rw [hr] at h; cases h
    | dpanic => rw [hr] at h; cases h
  | writeUnary x k ih =>
    intro s b s' hj h
    simp only [WProg.run] at h
    cases hr : I'.writeUnary s x with
    | ok q => obtain ⟨r, s1⟩ := q; rw [hr] at h; exact ih r s1 b s' (hwu s x r s1 hj hr) h
    | err _ => rw [hr] at h; cases h
    | panic => rw [hr] at h; cases h
    | dpanic => rw [hr] at h; cases h
  | flush k ih =>
    intro s b s' hj h
    simp only [WProg.run] at h
    cases hr : I'.flush s with
    | ok q => obtain ⟨r, s1⟩ := q; rw [hr] at h; exact ih r s1 b s' (hfl s r s1 hj hr) h
    | err _ => rw [hr] at h; cases h
    | panic => rw [hr] at h; cases h
    | dpanic => rw [hr] at h; cases h

end Headline2
end Dsi
