/-
  Bulk copy: the specialised `copy_from` of the buffered writer (`BufW.copyFrom`), reading through
  any simulating reader implementation, against the specification `refCopy`.
-/
import Dsi.Lemmas.CopySim
namespace Dsi
namespace CopyL
open BufW
variable {W : Nat}

/-! ### bit fields placed by `copy_from` -/

theorem testBit_of_lt_pow {v n j : Nat} (hv : v < 2 ^ n) (hj : n ≤ j) : v.testBit j = false :=
  Nat.testBit_lt_two_pow (Nat.lt_of_lt_of_le hv (Nat.pow_le_pow_right (by decide) hj))

theorem placed_fast_be (b : BitVec W) {v sp n : Nat} (h1 : n ≤ sp) (h2 : sp ≤ W) (hv : v < 2 ^ n) :
    validAt .be ((b <<< n) ||| BitVec.ofNat W v) (sp - n)
      = validAt .be b sp ++ fieldBits .be v n := by
  unfold validAt
  apply fieldBE_split (by omega)
  · intro i hi
    bits_simp
    simp only [BitVec.getLsbD_ofNat]
    bits_omega
  · intro i hi
    bits_simp
    simp only [BitVec.getLsbD_ofNat, testBit_of_lt_pow hv (Nat.le_add_right n i)]
    bits_omega

theorem placed_fast_le (b : BitVec W) {v sp n : Nat} (h1 : n ≤ sp) (h2 : sp ≤ W) (hv : v < 2 ^ n) :
    validAt .le ((b >>> n) ||| (BitVec.ofNat W v).rotateRight n) (sp - n)
      = validAt .le b sp ++ fieldBits .le v n := by
  unfold validAt
  simp only [fieldBits]
  by_cases hnW : n < W
  · have hn : n % W = n := Nat.mod_eq_of_lt hnW
    apply fieldLE_split (by omega)
    · intro i hi
      bits_simp
      simp only [BitVec.getLsbD_ofNat, hn]
      rw [testBit_of_lt_pow hv (by omega : n ≤ n + (i + (sp - n)))]
      bits_omega
      congr 1; omega
    · intro i hi
      bits_simp
      simp only [BitVec.getLsbD_ofNat, hn]
      bits_omega
      congr 1; omega
  · have : n = W := by omega
    subst this
    have : sp = n := by omega
    subst this
    apply fieldLE_split (by omega)
    · intro i hi; omega
    · intro i hi
      bits_simp
      simp only [BitVec.getLsbD_ofNat, Nat.mod_self]
      bits_omega
      simp

/-- a clean field of `n ≤ space` bits shifted into the buffer -/
theorem placed_fast (e : Endian) (b : BitVec W) {v sp n : Nat} (h1 : n ≤ sp) (h2 : sp ≤ W)
    (hv : v < 2 ^ n) :
    validAt e (shiftIn e b n ||| placed e v n) (sp - n) = validAt e b sp ++ fieldBits e v n := by
  cases e
  · exact placed_fast_be b h1 h2 hv
  · exact placed_fast_le b h1 h2 hv

/-- the word completed by a clean field of exactly `space` bits -/
theorem placed_first (e : Endian) (b : BitVec W) {v sp : Nat} (h0 : 1 ≤ sp) (h2 : sp ≤ W)
    (hv : v < 2 ^ sp) :
    wordBits e (shiftIn e (shiftIn e b (sp - 1)) 1 ||| placed e v sp)
      = validAt e b sp ++ fieldBits e v sp := by
  rw [shiftIn_shiftIn, show sp - 1 + 1 = sp by omega, ← validAt_zero,
    ← placed_fast e b (Nat.le_refl sp) h2 hv, Nat.sub_self]

/-- the tail field left in a fresh buffer -/
theorem placed_last (e : Endian) {v n : Nat} (h : n < W) :
    validAt e (placed e v n : BitVec W) (W - n) = fieldBits e v n := by
  cases e
  · unfold validAt placed
    rw [show W - (W - n) = n by omega]
    apply fieldBits_congr_wr
    intro i hi
    bits_simp
    simp only [BitVec.getLsbD_ofNat]
    bits_omega
  · unfold validAt placed
    rw [show W - (W - n) = n by omega]
    apply fieldBits_congr_wr
    intro i hi
    have hn : n % W = n := Nat.mod_eq_of_lt h
    bits_simp
    simp only [BitVec.getLsbD_ofNat, hn]
    bits_omega

theorem wordBits_ofNat (e : Endian) (v : Nat) :
    wordBits e (BitVec.ofNat W v) = fieldBits e v W := by
  unfold wordBits
  rw [BitVec.toNat_ofNat]
  exact fieldBits_mod e v (Nat.le_refl W)

/-! ### reading through a simulating reader -/

theorem rsim_read {ρ} {ri : RImpl ρ} {P : ρ → RefR → Prop} (hr : RSim ri P) {s : ρ} {r : RefR}
    (hP : P s r) {k : Nat} (hk : k ≤ 64) (hav : r.avail k = true) :
    ∃ s', ri.readBits s k = .ok (bitsVal r.e (takeZ k r.rest), s') ∧
      P s' { r with pos := r.pos + k } := by
  have h := hr s r k hP
  have href : RefR.readBits r k
      = .ok (bitsVal r.e (takeZ k r.rest), { r with pos := r.pos + k }) := by
    unfold RefR.readBits
    rw [if_neg (by omega), if_pos hav]
  rw [href] at h
  cases hx : ri.readBits s k with
  | ok a =>
    obtain ⟨v, s'⟩ := a
    rw [hx] at h
    obtain ⟨hv, hP'⟩ := h
    simp only at hv hP'
    subst hv
    exact ⟨s', rfl, hP'⟩
  | err _ => rw [hx] at h; exact h.elim
  | panic => rw [hx] at h; exact h.elim
  | dpanic => rw [hx] at h; exact h.elim

theorem readVal_lt (e : Endian) (k : Nat) (l : List Bool) : bitsVal e (takeZ k l) < 2 ^ k := by
  have := bitsVal_lt e (takeZ k l)
  rwa [length_takeZ] at this

theorem readVal_bits (e : Endian) (k : Nat) (l : List Bool) :
    fieldBits e (bitsVal e (takeZ k l)) k = takeZ k l :=
  fieldBits_bitsVal' e _ (length_takeZ k l)

theorem pos_add_add (r : RefR) (a b : Nat) :
    ({ ({ r with pos := r.pos + a } : RefR) with pos := r.pos + a + b } : RefR)
      = { r with pos := r.pos + (a + b) } := by
  simp [Nat.add_assoc]

/-! ### the whole-word loop -/

theorem copyWordsFrom_spec {ρ} {ri : RImpl ρ} {P : ρ → RefR → Prop} (hr : RSim ri P)
    (e : Endian) (hW : W ≤ 64) :
    ∀ (k : Nat) (s : ρ) (r : RefR), P s r → r.e = e → r.avail (k * W) = true →
    ∃ (s' : ρ) (ws : List (BitVec W)), P s' { r with pos := r.pos + k * W } ∧ ws.length = k ∧
      ws.flatMap (wordBits e) = takeZ (k * W) r.rest ∧
      ∀ t : BufW W, t.CapOk → BufW.copyWordsFrom ri k s t =
        if capFits t.cap (t.out.length + k) then .ok (s', { t with out := t.out ++ ws })
        else .err .eof := by
  intro k
  induction k with
  | zero =>
    intro s r hP he _
    refine ⟨s, [], ?_, rfl, ?_, ?_⟩
    · have : ({ r with pos := r.pos + 0 * W } : RefR) = r := by simp
      rw [this]; exact hP
    · simp [takeZ]
    · intro t hc
      simp [BufW.copyWordsFrom, show capFits t.cap t.out.length = true from hc]
  | succ k ih =>
    intro s r hP he hav
    have hsplit : (k + 1) * W = W + k * W := by rw [Nat.succ_mul, Nat.add_comm]
    rw [hsplit] at hav ⊢
    obtain ⟨s1, hread, hP1⟩ := rsim_read hr hP hW (avail_mono r (Nat.le_add_right _ _) hav)
    obtain ⟨s', ws, hP', hlen, hbits, hrun⟩ := ih s1 _ hP1 he (by rw [avail_advance]; exact hav)
    refine ⟨s', BitVec.ofNat W (bitsVal r.e (takeZ W r.rest)) :: ws, ?_, by simp [hlen], ?_, ?_⟩
    · have := pos_add_add r W (k * W)
      simp only at hP'
      rw [this] at hP'
      exact hP'
    · rw [List.flatMap_cons, hbits, wordBits_ofNat, rest_advance, takeZ_add, he, readVal_bits]
    · intro t hc
      unfold BufW.copyWordsFrom
      rw [hread]
      simp only
      rw [emit_eq]
      by_cases h1 : capFits t.cap (t.out.length + 1) = true
      · simp only [h1, if_true]
        rw [hrun _ (by simpa [CapOk] using h1)]
        simp only [List.length_append, List.length_singleton, List.append_assoc,
          List.singleton_append, Nat.add_assoc, Nat.add_comm 1 k]
      · have h2 := capFits_mono' k h1
        rw [Nat.add_assoc, Nat.add_comm 1 k] at h2
        simp [h1, h2]

/-! ### from a closed form to the specification -/

theorem fits_of_relC {e : Endian} {t : BufW W} {w : RefW} (h : RelC e t w) :
    w.fits w.bits = true := by
  obtain ⟨⟨⟨hi1, hi2⟩, he, hw, hcap, hchk, hbits⟩, hc⟩ := h
  rw [fits_eq, hbits, abs_length, hw, hcap]
  have : (t.out.length * W + (W - t.space)) / W = t.out.length := by
    apply Nat.div_eq_of_lt_le
    · omega
    · rw [Nat.succ_mul]; omega
  rw [this]; exact hc

/-- an outcome in closed form (deliver `ws`, leave buffer `b` with `sp` free bits) whose bits are
    the reader's next `n` bits simulates `refCopy` -/
theorem closed_sim {ρ} {P : ρ → RefR → Prop} {e : Endian} {t : BufW W} {w : RefW} {r : RefR}
    {n : Nat} (hrel : Rel e t w) (hav : r.avail n = true) {s' : ρ}
    (hP' : P s' { r with pos := r.pos + n }) {ws : List (BitVec W)} {b : BitVec W} {sp : Nat}
    (h1 : 1 ≤ sp) (h2 : sp ≤ W)
    (hb : validAt e t.buffer t.space ++ takeZ n r.rest = ws.flatMap (wordBits e) ++ validAt e b sp) :
    ResRel (PQ P (RelC e))
      (if capFits t.cap (t.out.length + ws.length) then
        .ok (s', { t with out := t.out ++ ws, buffer := b, space := sp }) else .err .eof)
      (refCopy r w n) := by
  have hsim := sim_of_core (ret := n) hrel ⟨ws, b, sp, rfl, h1, h2, hb⟩
  unfold refCopy
  rw [if_pos hav]
  unfold coreRes at hsim
  by_cases hc : capFits t.cap (t.out.length + ws.length) = true
  · rw [if_pos hc] at hsim ⊢
    cases hput : w.put (takeZ n r.rest) n with
    | ok q =>
      obtain ⟨_, w'⟩ := q
      rw [hput] at hsim
      exact ⟨hP', hsim.2.1, hsim.2.2.1⟩
    | err _ => rw [hput] at hsim; exact hsim.elim
    | panic => rw [hput] at hsim; exact hsim.elim
    | dpanic => rw [hput] at hsim; exact hsim.elim
  · rw [if_neg hc] at hsim ⊢
    cases hput : w.put (takeZ n r.rest) n with
    | ok q => rw [hput] at hsim; exact hsim.elim
    | err x => rw [hput] at hsim; exact hsim
    | panic => rw [hput] at hsim; exact hsim.elim
    | dpanic => rw [hput] at hsim; exact hsim.elim

/-! ### `copy_from` -/

/-- **`BufBitWriter::copy_from`** reading through any simulating reader `ri`: it moves the reader's
    next `n` bits (or fails with the reference when a fixed backend is full). -/
theorem copyFrom_sim_gen {ρ} {ri : RImpl ρ} {P : ρ → RefR → Prop} (hr : RSim ri P) {e : Endian}
    {t : BufW W} {w : RefW} {s : ρ} {r : RefR} {n : Nat} (hQ : RelC e t w) (hP : P s r)
    (he : r.e = e) (hav : r.avail n = true) :
    ResRel (PQ P (RelC e)) (BufW.copyFrom e ri t s n) (refCopy r w n) := by
  subst he
  have hrel := hQ.1
  obtain ⟨⟨hi1, hi2⟩, hwe, hww, hcap, hchk, hbits⟩ := hrel
  unfold BufW.copyFrom
  by_cases hW : W > 64
  · rw [if_pos hW]
    have := copyGeneric_sim_gen hr (wsim_bufW (W := W) r.e) (n / 64 + 2) n hP hQ
    rwa [copyGeneric_ref_gen _ r w n hwe (avail_mono r (Nat.zero_le n) hav)
      (fits_of_relC hQ) (by omega)] at this
  · rw [if_neg hW]
    have hW64 : W ≤ 64 := by omega
    by_cases hfast : n < t.space
    · rw [if_pos hfast]
      obtain ⟨s1, hread, hP1⟩ := rsim_read hr hP (by omega : n ≤ 64) hav
      rw [hread]
      simp only
      have hb := placed_fast r.e t.buffer (Nat.le_of_lt hfast) hi2 (readVal_lt r.e n r.rest)
      rw [readVal_bits r.e n r.rest] at hb
      have := closed_sim (P := P) (ws := [])
        (b := shiftIn r.e t.buffer n ||| placed r.e (bitsVal r.e (takeZ n r.rest)) n)
        (sp := t.space - n) hQ.1 hav hP1 (by omega) (by omega)
        (by rw [List.flatMap_nil, List.nil_append]; exact hb.symm)
      simp only [List.length_nil, Nat.add_zero, show capFits t.cap t.out.length = true from hQ.2,
        if_true, List.append_nil] at this
      exact this
    · rw [if_neg hfast]
      have hWpos : 0 < W := by omega
      have hdm : (n - t.space) / W * W + (n - t.space) % W = n - t.space := by
        rw [Nat.mul_comm]; exact Nat.div_add_mod _ _
      have hlt : (n - t.space) % W < W := Nat.mod_lt _ hWpos
      dsimp only
      generalize (n - t.space) / W = k at hdm ⊢
      generalize (n - t.space) % W = n' at hdm hlt ⊢
      have hn : n = t.space + (k * W + n') := by omega
      -- first read: fills the buffer
      obtain ⟨s1, hread1, hP1⟩ := rsim_read hr hP (by omega : t.space ≤ 64)
        (avail_mono r (by omega) hav)
      rw [hread1]
      simp only
      -- whole words
      have hav2 : RefR.avail { r with pos := r.pos + t.space } (k * W) = true := by
        rw [avail_advance]; exact avail_mono r (by omega) hav
      obtain ⟨s2, ws, hP2, hlen, hwbits, hrun⟩ :=
        copyWordsFrom_spec hr r.e hW64 k s1 _ hP1 rfl hav2
      -- tail read
      have hav3 : RefR.avail { r with pos := r.pos + t.space + k * W } n' = true := by
        rw [show r.pos + t.space + k * W = r.pos + (t.space + k * W) by omega, avail_advance]
        exact avail_mono r (by omega) hav
      obtain ⟨s3, hread3, hP3⟩ := rsim_read hr hP2 (by omega : n' ≤ 64) hav3
      have hP3' : P s3 { r with pos := r.pos + n } := by
        have hpos : r.pos + t.space + k * W + n' = r.pos + n := by omega
        simp only [hpos] at hP3
        exact hP3
      -- the bits
      have hb : validAt r.e t.buffer t.space ++ takeZ n r.rest =
          (((shiftIn r.e (shiftIn r.e t.buffer (t.space - 1)) 1 |||
              placed r.e (bitsVal r.e (takeZ t.space r.rest)) t.space) :: ws).flatMap (wordBits r.e)) ++
            validAt r.e (placed r.e (bitsVal r.e (takeZ n' (r.rest.drop (t.space + k * W)))) n' : BitVec W)
              (W - n') := by
        rw [List.flatMap_cons, placed_first r.e t.buffer hi1 hi2 (readVal_lt _ _ _),
          placed_last r.e hlt, hwbits, rest_advance, readVal_bits, readVal_bits, hn,
          takeZ_add, takeZ_add, List.drop_drop]
        simp only [List.append_assoc]
      have hfin := closed_sim (P := P) hQ.1 hav hP3' (by omega) (by omega) hb
      -- the run
      rw [emit_eq]
      by_cases h1 : capFits t.cap (t.out.length + 1) = true
      · simp only [h1, if_true]
        rw [hrun _ (by simpa [CapOk] using h1)]
        simp only [List.length_append, List.length_singleton]
        by_cases h2 : capFits t.cap (t.out.length + 1 + k) = true
        · simp only [h2, if_true]
          have hrest : RefR.rest { ({ r with pos := r.pos + t.space } : RefR) with
              pos := r.pos + t.space + k * W } = r.rest.drop (t.space + k * W) := by
            simp only [RefR.rest, List.drop_drop]
            congr 1; omega
          rw [hrest] at hread3
          rw [hread3]
          simp only
          rw [List.length_cons, hlen, show t.out.length + (k + 1) = t.out.length + 1 + k by omega,
            if_pos h2] at hfin
          simpa [List.append_assoc] using hfin
        · simp only [h2]
          rw [List.length_cons, hlen, show t.out.length + (k + 1) = t.out.length + 1 + k by omega,
            if_neg h2] at hfin
          exact hfin
      · have h2 := capFits_mono' k h1
        simp only [h1]
        rw [List.length_cons, hlen, show t.out.length + (k + 1) = t.out.length + 1 + k by omega,
          if_neg h2] at hfin
        exact hfin

end CopyL
end Dsi
