/-
  Bit-level toolkit for the reader refinement proofs: streams as zero-extended bit functions,
  characterisation of `fieldLE`/`natLE`/`takeZ`/`bitsVal` by `Nat.testBit`, words of a
  `flatMap`ped stream, `firstOne`, `clz`/`ctz`.
-/
import Dsi.Lemmas.SimFrame
namespace Dsi

/-- bit `i` of a stream, zero beyond the end -/
def bitZ (l : List Bool) (i : Nat) : Bool := l.getD i false

@[simp] theorem bitZ_nil (i : Nat) : bitZ [] i = false := by simp [bitZ]
@[simp] theorem bitZ_cons_zero (b : Bool) (l : List Bool) : bitZ (b :: l) 0 = b := by simp [bitZ]
@[simp] theorem bitZ_cons_succ (b : Bool) (l : List Bool) (i : Nat) :
    bitZ (b :: l) (i + 1) = bitZ l i := by simp [bitZ]

theorem bitZ_of_ge {l : List Bool} {i : Nat} (h : l.length ≤ i) : bitZ l i = false := by
  simp [bitZ, List.getD, List.getElem?_eq_none h]

theorem bitZ_drop (l : List Bool) (p i : Nat) : bitZ (l.drop p) i = bitZ l (p + i) := by
  simp [bitZ, List.getD, List.getElem?_drop]

theorem bitZ_append_left {l₁ l₂ : List Bool} {i : Nat} (h : i < l₁.length) :
    bitZ (l₁ ++ l₂) i = bitZ l₁ i := by
  simp [bitZ, List.getD, List.getElem?_append_left h]

theorem bitZ_append_right {l₁ l₂ : List Bool} {i : Nat} (h : l₁.length ≤ i) :
    bitZ (l₁ ++ l₂) i = bitZ l₂ (i - l₁.length) := by
  simp [bitZ, List.getD, List.getElem?_append_right h]

theorem list_eq_of_bitZ {l₁ l₂ : List Bool} (hl : l₁.length = l₂.length)
    (h : ∀ i, i < l₁.length → bitZ l₁ i = bitZ l₂ i) : l₁ = l₂ := by
  apply List.ext_getElem hl
  intro i h1 h2
  have := h i h1
  simpa [bitZ, List.getD, List.getElem?_eq_getElem h1, List.getElem?_eq_getElem h2] using this

/-! ### takeZ -/

@[simp] theorem length_takeZ (n : Nat) (l : List Bool) : (takeZ n l).length = n := by
  induction n generalizing l with
  | zero => simp [takeZ]
  | succ n ih => cases l <;> simp [takeZ, ih]

theorem bitZ_takeZ (n : Nat) (l : List Bool) (i : Nat) :
    bitZ (takeZ n l) i = (decide (i < n) && bitZ l i) := by
  induction n generalizing l i with
  | zero => simp [takeZ]
  | succ n ih =>
    cases l with
    | nil => cases i <;> simp [takeZ, ih]
    | cons b bs => cases i <;> simp [takeZ, ih]

/-! ### fieldLE / natLE -/

@[simp] theorem length_fieldLE (v n : Nat) : (fieldLE v n).length = n := by
  induction n generalizing v with
  | zero => simp [fieldLE]
  | succ n ih => simp [fieldLE, ih]

theorem bitZ_fieldLE (v n i : Nat) : bitZ (fieldLE v n) i = (decide (i < n) && v.testBit i) := by
  induction n generalizing v i with
  | zero => simp [fieldLE]
  | succ n ih =>
    cases i with
    | zero => simp [fieldLE, Nat.testBit_zero]; rcases Nat.mod_two_eq_zero_or_one v with h | h <;> simp [h]
    | succ i => simp [fieldLE, ih, Nat.testBit_succ]

theorem testBit_natLE_rr (l : List Bool) (i : Nat) : (natLE l).testBit i = bitZ l i := by
  induction l generalizing i with
  | nil => simp [natLE]
  | cons b bs ih =>
    cases i with
    | zero => cases b <;> simp [natLE, Nat.testBit_zero, Nat.add_mod]
    | succ i =>
      rw [bitZ_cons_succ, ← ih, natLE, Nat.testBit_succ]
      congr 1
      cases b <;> simp <;> omega

theorem bitZ_reverse {l : List Bool} {i : Nat} (h : i < l.length) :
    bitZ l.reverse i = bitZ l (l.length - 1 - i) := by
  simp [bitZ, List.getD, List.getElem?_reverse h]

/-- value of an LE field read at `p` -/
theorem testBit_bitsVal_le (l : List Bool) (p n i : Nat) :
    (bitsVal .le (takeZ n (l.drop p))).testBit i = (decide (i < n) && bitZ l (p + i)) := by
  simp [bitsVal, testBit_natLE_rr, bitZ_takeZ, bitZ_drop]

/-- value of a BE field read at `p` -/
theorem testBit_bitsVal_be (l : List Bool) (p n i : Nat) :
    (bitsVal .be (takeZ n (l.drop p))).testBit i = (decide (i < n) && bitZ l (p + (n - 1 - i))) := by
  simp only [bitsVal, testBit_natLE_rr]
  by_cases h : i < n
  · rw [bitZ_reverse (by simpa using h)]
    simp [bitZ_takeZ, bitZ_drop, h]
    omega
  · rw [bitZ_of_ge (by simpa using Nat.le_of_not_lt h)]
    simp [h]

theorem eq_bitsVal_le {v : Nat} {l : List Bool} {p n : Nat}
    (h1 : ∀ i, i < n → v.testBit i = bitZ l (p + i)) (h2 : ∀ i, n ≤ i → v.testBit i = false) :
    v = bitsVal .le (takeZ n (l.drop p)) := by
  apply Nat.eq_of_testBit_eq
  intro i
  rw [testBit_bitsVal_le]
  by_cases h : i < n
  · simp [h, h1 i h]
  · simp [h, h2 i (Nat.le_of_not_lt h)]

theorem eq_bitsVal_be {v : Nat} {l : List Bool} {p n : Nat}
    (h1 : ∀ i, i < n → v.testBit i = bitZ l (p + (n - 1 - i))) (h2 : ∀ i, n ≤ i → v.testBit i = false) :
    v = bitsVal .be (takeZ n (l.drop p)) := by
  apply Nat.eq_of_testBit_eq
  intro i
  rw [testBit_bitsVal_be]
  by_cases h : i < n
  · simp [h, h1 i h]
  · simp [h, h2 i (Nat.le_of_not_lt h)]

/-! ### words of a stream -/

theorem length_wordBits {W} (e : Endian) (w : BitVec W) : (wordBits e w).length = W := by
  cases e <;> simp [wordBits, fieldBits]

theorem length_flatMap_wordBits {W} (e : Endian) (data : List (BitVec W)) :
    (data.flatMap (wordBits e)).length = data.length * W := by
  induction data with
  | nil => simp
  | cons w ws ih => simp [List.flatMap_cons, ih, length_wordBits, Nat.succ_mul, Nat.add_comm]

theorem bitZ_wordBits_le {W} (w : BitVec W) (i : Nat) (h : i < W) :
    bitZ (wordBits .le w) i = w.getLsbD i := by
  simp [wordBits, fieldBits, bitZ_fieldLE, h, BitVec.getLsbD]

theorem bitZ_wordBits_be {W} (w : BitVec W) (i : Nat) (h : i < W) :
    bitZ (wordBits .be w) i = w.getLsbD (W - 1 - i) := by
  simp only [wordBits, fieldBits]
  rw [bitZ_reverse (by simpa using h)]
  simp [bitZ_fieldLE, BitVec.getLsbD]
  omega

/-- bit `i` of word `j` of a stream in stream order -/
theorem bitZ_flatMap_word {W} (e : Endian) (data : List (BitVec W)) (j i : Nat) (h : i < W) :
    bitZ (data.flatMap (wordBits e)) (j * W + i) = bitZ (wordBits e (data.getD j 0)) i := by
  induction data generalizing j with
  | nil =>
    cases e
    · rw [bitZ_wordBits_be _ _ h]; simp
    · rw [bitZ_wordBits_le _ _ h]; simp
  | cons w ws ih =>
    rw [List.flatMap_cons]
    cases j with
    | zero =>
      rw [bitZ_append_left (by simpa [length_wordBits] using h)]
      simp
    | succ j =>
      have : (j + 1) * W + i = W + (j * W + i) := by rw [Nat.succ_mul]; omega
      rw [this, bitZ_append_right (by simp [length_wordBits])]
      simp [length_wordBits, ih]

theorem word_getLsbD_le {W} (data : List (BitVec W)) (j i : Nat) (h : i < W) :
    (data.getD j 0).getLsbD i = bitZ (data.flatMap (wordBits .le)) (j * W + i) := by
  rw [bitZ_flatMap_word _ _ _ _ h, bitZ_wordBits_le _ _ h]

theorem word_getLsbD_be {W} (data : List (BitVec W)) (j i : Nat) (h : i < W) :
    (data.getD j 0).getLsbD (W - 1 - i) = bitZ (data.flatMap (wordBits .be)) (j * W + i) := by
  rw [bitZ_flatMap_word _ _ _ _ h, bitZ_wordBits_be _ _ h]

/-! ### the backend -/

theorem MemR.readWord_ok {W} (m : MemR W) (h : m.strict = true → m.pos < m.data.length) :
    m.readWord = .ok (m.data.getD m.pos 0, { m with pos := m.pos + 1 }) := by
  unfold MemR.readWord
  by_cases hp : m.pos < m.data.length
  · simp [List.getElem?_eq_getElem hp, List.getD]
  · have hs : m.strict = false := by
      cases hst : m.strict
      · rfl
      · exact absurd (h hst) hp
    simp [List.getElem?_eq_none (Nat.le_of_not_lt hp), List.getD, hs]

theorem MemR.readWord_err {W} (m : MemR W) (hs : m.strict = true) (h : m.data.length ≤ m.pos) :
    m.readWord = .err .eof := by
  unfold MemR.readWord
  simp [List.getElem?_eq_none h, hs]

/-! ### firstOne -/

theorem firstOne_eq_some {l : List Bool} {z : Nat}
    (h0 : ∀ i, i < z → bitZ l i = false) (h1 : bitZ l z = true) : RefR.firstOne l = some z := by
  induction l generalizing z with
  | nil => simp at h1
  | cons b bs ih =>
    cases z with
    | zero => simp at h1; subst h1; rfl
    | succ z =>
      have hb : b = false := by simpa using h0 0 (Nat.succ_pos z)
      subst hb
      have := ih (z := z) (fun i hi => by simpa using h0 (i + 1) (Nat.succ_lt_succ hi)) (by simpa using h1)
      simp [RefR.firstOne, this]

theorem firstOne_eq_none {l : List Bool} (h0 : ∀ i, bitZ l i = false) : RefR.firstOne l = none := by
  induction l with
  | nil => rfl
  | cons b bs ih =>
    have hb : b = false := by simpa using h0 0
    subst hb
    have := ih (fun i => by simpa using h0 (i + 1))
    simp [RefR.firstOne, this]

/-! ### clz / ctz -/

theorem takeWhile_spec {α} (p : α → Bool) (l : List α) :
    (l.takeWhile p).length ≤ l.length ∧
    (∀ i (h : i < l.length), i < (l.takeWhile p).length → p l[i] = true) ∧
    (∀ h : (l.takeWhile p).length < l.length, p l[(l.takeWhile p).length] = false) := by
  induction l with
  | nil => simp
  | cons a l ih =>
    obtain ⟨h1, h2, h3⟩ := ih
    by_cases hp : p a = true
    · simp only [List.takeWhile_cons, hp, if_true, List.length_cons]
      refine ⟨Nat.succ_le_succ h1, ?_, ?_⟩
      · intro i h hi
        cases i with
        | zero => simpa using hp
        | succ i => simpa using h2 i (by simpa using h) (by simpa using hi)
      · intro h
        simpa using h3 (by simpa using h)
    · simp only [List.takeWhile_cons, hp]
      simp
      simpa using hp

theorem takeWhile_range_spec (p : Nat → Bool) (n : Nat) :
    ((List.range n).takeWhile p).length ≤ n ∧
    (∀ i, i < ((List.range n).takeWhile p).length → p i = true) ∧
    (((List.range n).takeWhile p).length < n → p ((List.range n).takeWhile p).length = false) := by
  obtain ⟨h1, h2, h3⟩ := takeWhile_spec p (List.range n)
  rw [List.length_range] at h1
  refine ⟨h1, ?_, ?_⟩
  · intro i hi
    have := h2 i (by rw [List.length_range]; omega) hi
    simpa using this
  · intro h
    have := h3 (by rw [List.length_range]; exact h)
    rwa [List.getElem_range] at this

theorem ctz_le {w} (x : BitVec w) : BufR.ctz x ≤ w := (takeWhile_range_spec _ w).1
theorem ctz_zero_below {w} (x : BitVec w) (i : Nat) (h : i < BufR.ctz x) : x.getLsbD i = false := by
  simpa using (takeWhile_range_spec (fun i => !x.getLsbD i) w).2.1 i h
theorem ctz_one {w} (x : BitVec w) (h : BufR.ctz x < w) : x.getLsbD (BufR.ctz x) = true := by
  have := (takeWhile_range_spec (fun i => !x.getLsbD i) w).2.2 h
  simpa [BufR.ctz] using this
theorem ctz_lt_of_ne_zero {w} (x : BitVec w) (h : x ≠ 0) : BufR.ctz x < w := by
  apply Nat.lt_of_le_of_ne (ctz_le x)
  intro hc
  apply h
  apply BitVec.eq_of_getLsbD_eq
  intro i hi
  simpa using ctz_zero_below x i (by rw [hc]; exact hi)

theorem clz_le {w} (x : BitVec w) : BufR.clz x ≤ w := (takeWhile_range_spec _ w).1
theorem clz_zero_below {w} (x : BitVec w) (i : Nat) (h : i < BufR.clz x) : x.getMsbD i = false := by
  simpa using (takeWhile_range_spec (fun i => !x.getMsbD i) w).2.1 i h
theorem clz_one {w} (x : BitVec w) (h : BufR.clz x < w) : x.getMsbD (BufR.clz x) = true := by
  have := (takeWhile_range_spec (fun i => !x.getMsbD i) w).2.2 h
  simpa [BufR.clz] using this
theorem clz_lt_of_ne_zero {w} (x : BitVec w) (h : x ≠ 0) : BufR.clz x < w := by
  apply Nat.lt_of_le_of_ne (clz_le x)
  intro hc
  apply h
  apply BitVec.eq_of_getMsbD_eq
  intro i hi
  simpa using clz_zero_below x i (by rw [hc]; exact hi)

end Dsi
