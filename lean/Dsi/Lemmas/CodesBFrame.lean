/-
  Compositional lemmas about `Reads` / `Writes` (L1 reference reader / writer) used by the
  proofs of the minimal-binary, Golomb, ζ and VByte theorems (`Dsi.Props.CodesB`).
  Everything lives in `namespace Dsi.CodesB`.
-/
import Dsi.Lemmas.Frame
namespace Dsi.CodesB
open Dsi

/-! ### bit fields -/

theorem fieldLE_length (v n : Nat) : (fieldLE v n).length = n := by
  induction n generalizing v with
  | zero => rfl
  | succ n ih => simp [fieldLE, ih]

theorem fieldBits_length (e : Endian) (v n : Nat) : (fieldBits e v n).length = n := by
  cases e <;> simp [fieldBits, fieldLE_length]

theorem natLE_fieldLE (v n : Nat) : natLE (fieldLE v n) = v % 2 ^ n := by
  induction n generalizing v with
  | zero => simp [fieldLE, natLE, Nat.mod_one]
  | succ n ih =>
    simp only [fieldLE, natLE, ih]
    rw [Nat.pow_succ', Nat.mod_mul]
    have : v % 2 = 0 ∨ v % 2 = 1 := by omega
    rcases this with h | h <;> simp [h]

theorem bitsVal_fieldBits (e : Endian) (v n : Nat) : bitsVal e (fieldBits e v n) = v % 2 ^ n := by
  cases e <;> simp [bitsVal, fieldBits, natLE_fieldLE]

theorem takeZ_append (n : Nat) (a b : List Bool) (h : a.length = n) : takeZ n (a ++ b) = a := by
  induction a generalizing n with
  | nil => subst h; rfl
  | cons x xs ih =>
    cases n with
    | zero => simp at h
    | succ n =>
      simp only [List.cons_append, takeZ]
      rw [ih n (by simpa using h)]

theorem firstOne_unaryBits (x : Nat) (r : List Bool) : RefR.firstOne (unaryBits x ++ r) = some x := by
  induction x with
  | zero => simp [unaryBits, RefR.firstOne]
  | succ x ih =>
    simp only [unaryBits, List.replicate_succ, List.cons_append, RefR.firstOne] at ih ⊢
    rw [ih]; rfl

theorem unaryBits_length (x : Nat) : (unaryBits x).length = x + 1 := by
  simp [unaryBits]

theorem fieldBits_one (e : Endian) (v : Nat) : fieldBits e v 1 = [v % 2 == 1] := by
  cases e <;> simp [fieldBits, fieldLE]

/-! ### reader positions -/

theorem at_append (e : Endian) (pre a b post : List Bool) (strict : Bool) (pm : Nat) :
    RefR.at e pre (a ++ b) post strict pm = RefR.at e pre a (b ++ post) strict pm := by
  simp [RefR.at, List.append_assoc]

theorem after_eq_at (e : Endian) (pre a b post : List Bool) (strict : Bool) (pm : Nat) :
    RefR.after e pre a (b ++ post) strict pm = RefR.at e (pre ++ a) b post strict pm := by
  simp [RefR.at, RefR.after, List.append_assoc]

theorem after_append (e : Endian) (pre a b post : List Bool) (strict : Bool) (pm : Nat) :
    RefR.after e (pre ++ a) b post strict pm = RefR.after e pre (a ++ b) post strict pm := by
  simp [RefR.after, List.append_assoc, Nat.add_assoc]

theorem rest_at (e : Endian) (pre bits post : List Bool) (strict : Bool) (pm : Nat) :
    (RefR.at e pre bits post strict pm).rest = bits ++ post := by
  simp [RefR.at, RefR.rest, List.append_assoc]

/-! ### `Reads` -/

theorem reads_ret {α} (e : Endian) (a : α) : Reads (RProg.ret a) e [] a := by
  intro pre post strict pm _
  simp [RProg.run, RefR.at, RefR.after]

/-- one step of the reference reader on a field -/
theorem readBits_at (e : Endian) (pre rest post : List Bool) (strict : Bool) (pm v n : Nat)
    (hn : n ≤ 64) :
    RefR.readBits (RefR.at e pre (fieldBits e v n ++ rest) post strict pm) n
      = .ok (v % 2 ^ n, RefR.at e (pre ++ fieldBits e v n) rest post strict pm) := by
  have hlen := fieldBits_length e v n
  unfold RefR.readBits
  rw [if_neg (by omega), rest_at, List.append_assoc, takeZ_append _ _ _ hlen]
  have hav : (RefR.at e pre (fieldBits e v n ++ rest) post strict pm).avail n = true := by
    simp [RefR.avail, RefR.at, hlen]
  rw [if_pos hav]
  simp [RefR.at, bitsVal_fieldBits, hlen, List.append_assoc]

/-- `.readBits n k` on `fieldBits e v n ++ rest` continues with `k (v % 2^n)` on `rest`. -/
theorem reads_readBits {α} {e : Endian} {k : Nat → RProg α} {rest : List Bool} {a : α}
    (v n : Nat) (hn : n ≤ 64) (h : Reads (k (v % 2 ^ n)) e rest a) :
    Reads (RProg.readBits n k) e (fieldBits e v n ++ rest) a := by
  intro pre post strict pm hpm
  have := h (pre ++ fieldBits e v n) post strict pm hpm
  simp only [RProg.run, RefR.impl, readBits_at e pre rest post strict pm v n hn]
  simpa [RefR.impl, after_append] using this

theorem readUnary_at (e : Endian) (pre rest post : List Bool) (strict : Bool) (pm x : Nat) :
    RefR.readUnary (RefR.at e pre (unaryBits x ++ rest) post strict pm)
      = .ok (x, RefR.at e (pre ++ unaryBits x) rest post strict pm) := by
  unfold RefR.readUnary
  rw [rest_at, List.append_assoc, firstOne_unaryBits]
  simp [RefR.at, unaryBits_length, List.append_assoc, Nat.add_assoc]

/-- `.readUnary k` on `unaryBits x ++ rest` continues with `k x` on `rest`. -/
theorem reads_readUnary {α} {e : Endian} {k : Nat → RProg α} {rest : List Bool} {a : α}
    (x : Nat) (h : Reads (k x) e rest a) :
    Reads (RProg.readUnary k) e (unaryBits x ++ rest) a := by
  intro pre post strict pm hpm
  have := h (pre ++ unaryBits x) post strict pm hpm
  simp only [RProg.run, RefR.impl, readUnary_at e pre rest post strict pm x]
  simpa [RefR.impl, after_append] using this

theorem rrun_bind {σ α β} (I : RImpl σ) (p : RProg α) (f : α → RProg β) (s : σ) :
    (p.bind f).run I s = (p.run I s).bind (fun r => (f r.1).run I r.2) := by
  induction p generalizing s with
  | ret a => simp [RProg.bind, RProg.run, Res.bind]
  | fail e => simp [RProg.bind, RProg.run, Res.bind]
  | panic => simp [RProg.bind, RProg.run, Res.bind]
  | dpanic => simp [RProg.bind, RProg.run, Res.bind]
  | readBits n k ih =>
    simp only [RProg.bind, RProg.run]
    cases h : I.readBits s n with
    | ok r => obtain ⟨v, s'⟩ := r; simp [ih]
    | err e => simp [Res.bind]
    | panic => simp [Res.bind]
    | dpanic => simp [Res.bind]
  | readUnary k ih =>
    simp only [RProg.bind, RProg.run]
    cases h : I.readUnary s with
    | ok r => obtain ⟨v, s'⟩ := r; simp [ih]
    | err e => simp [Res.bind]
    | panic => simp [Res.bind]
    | dpanic => simp [Res.bind]
  | peek n k ih =>
    simp only [RProg.bind, RProg.run]
    cases h : I.peekBits s n with
    | ok r => obtain ⟨v, s'⟩ := r; simp [ih]
    | err e => simp [ih]
    | panic => simp [Res.bind]
    | dpanic => simp [Res.bind]
  | skipAfterPeek n k ih => simp only [RProg.bind, RProg.run, ih]
  | skip n k ih =>
    simp only [RProg.bind, RProg.run]
    cases h : I.skipBits s n with
    | ok r => simp [ih]
    | err e => simp [Res.bind]
    | panic => simp [Res.bind]
    | dpanic => simp [Res.bind]

/-- sequencing of reader programs -/
theorem reads_bind {α β} {p : RProg α} {k : α → RProg β} {e : Endian} {b1 b2 : List Bool}
    {a : α} {c : β} (h1 : Reads p e b1 a) (h2 : Reads (k a) e b2 c) :
    Reads (p.bind k) e (b1 ++ b2) c := by
  intro pre post strict pm hpm
  have e1 := h1 pre (b2 ++ post) strict pm hpm
  have e2 := h2 (pre ++ b1) post strict pm hpm
  rw [rrun_bind, at_append, e1]
  simp only [Res.bind, after_eq_at, e2, after_append]

/-! ### `Writes` -/

/-- program `p` appends exactly `bits` and returns `r` -/
def WritesR (p : WProg Nat) (e : Endian) (checks : Bool) (bits : List Bool) (r : Nat) : Prop :=
  ∀ w : RefW, w.e = e → w.cap = none → w.checks = checks →
    p.run RefW.impl w = .ok (r, { w with bits := w.bits ++ bits })

theorem writes_iff (p : WProg Nat) (e : Endian) (checks : Bool) (bits : List Bool) :
    Writes p e checks bits ↔ WritesR p e checks bits bits.length := Iff.rfl

theorem writesR_ret (e : Endian) (checks : Bool) (r : Nat) : WritesR (WProg.ret r) e checks [] r := by
  intro w _ _ _
  simp [WProg.run]

theorem put_nocap (w : RefW) (bs : List Bool) (r : Nat) (hc : w.cap = none) :
    w.put bs r = .ok (r, { w with bits := w.bits ++ bs }) := by
  simp [RefW.put, RefW.fits, hc]

/-- `.writeBits v n k` appends `fieldBits e v n` and continues with `k n`. -/
theorem writesR_writeBits {e : Endian} {checks : Bool} {k : Nat → WProg Nat} {rest : List Bool}
    {r : Nat} (v n : Nat) (hn : n ≤ 64) (hv : checks = false ∨ v % 2 ^ 64 < 2 ^ n)
    (h : WritesR (k n) e checks rest r) :
    WritesR (WProg.writeBits v n k) e checks (fieldBits e v n ++ rest) r := by
  intro w he hc hk
  have hw : RefW.writeBits w v n = .ok (n, { w with bits := w.bits ++ fieldBits e v n }) := by
    unfold RefW.writeBits
    rw [if_neg (by omega), if_neg, put_nocap _ _ _ hc, he]
    rcases hv with hv | hv
    · simp [hk, hv]
    · simp; intro _; omega
  simp only [WProg.run, RefW.impl, hw]
  have := h { w with bits := w.bits ++ fieldBits e v n } he hc hk
  simpa [RefW.impl, List.append_assoc] using this

/-- `.writeUnary x k` appends `unaryBits x` and continues with `k (x+1)`. -/
theorem writesR_writeUnary {e : Endian} {checks : Bool} {k : Nat → WProg Nat} {rest : List Bool}
    {r : Nat} (x : Nat) (hx : x < 2 ^ 64 - 1)
    (h : WritesR (k (x + 1)) e checks rest r) :
    WritesR (WProg.writeUnary x k) e checks (unaryBits x ++ rest) r := by
  intro w he hc hk
  have hw : RefW.writeUnary w x = .ok (x + 1, { w with bits := w.bits ++ unaryBits x }) := by
    unfold RefW.writeUnary
    rw [if_neg (by omega), put_nocap _ _ _ hc]
  simp only [WProg.run, RefW.impl, hw]
  have := h { w with bits := w.bits ++ unaryBits x } he hc hk
  simpa [RefW.impl, List.append_assoc] using this

theorem wrun_bind {σ α β} (I : WImpl σ) (p : WProg α) (f : α → WProg β) (s : σ) :
    (p.bind f).run I s = (p.run I s).bind (fun r => (f r.1).run I r.2) := by
  induction p generalizing s with
  | ret a => simp [WProg.bind, WProg.run, Res.bind]
  | panic => simp [WProg.bind, WProg.run, Res.bind]
  | dpanic => simp [WProg.bind, WProg.run, Res.bind]
  | writeBits v n k ih =>
    simp only [WProg.bind, WProg.run]
    cases h : I.writeBits s v n with
    | ok r => obtain ⟨v, s'⟩ := r; simp [ih]
    | err e => simp [Res.bind]
    | panic => simp [Res.bind]
    | dpanic => simp [Res.bind]
  | writeUnary x k ih =>
    simp only [WProg.bind, WProg.run]
    cases h : I.writeUnary s x with
    | ok r => obtain ⟨v, s'⟩ := r; simp [ih]
    | err e => simp [Res.bind]
    | panic => simp [Res.bind]
    | dpanic => simp [Res.bind]
  | flush k ih =>
    simp only [WProg.bind, WProg.run]
    cases h : I.flush s with
    | ok r => obtain ⟨v, s'⟩ := r; simp [ih]
    | err e => simp [Res.bind]
    | panic => simp [Res.bind]
    | dpanic => simp [Res.bind]

/-- sequencing of writer programs -/
theorem writesR_bind {p : WProg Nat} {k : Nat → WProg Nat} {e : Endian} {checks : Bool}
    {b1 b2 : List Bool} {r1 r2 : Nat}
    (h1 : WritesR p e checks b1 r1) (h2 : WritesR (k r1) e checks b2 r2) :
    WritesR (p.bind k) e checks (b1 ++ b2) r2 := by
  intro w he hc hk
  rw [wrun_bind, h1 w he hc hk]
  have := h2 { w with bits := w.bits ++ b1 } he hc hk
  simpa [Res.bind, List.append_assoc] using this

/-- the forms asked for, on `Writes` directly -/
theorem writes_writeBits_ret (e : Endian) (checks : Bool) (v n : Nat) (hn : n ≤ 64)
    (hv : checks = false ∨ v % 2 ^ 64 < 2 ^ n) :
    Writes (WProg.writeBits v n WProg.ret) e checks (fieldBits e v n) := by
  have := writesR_writeBits (e := e) (checks := checks) (k := WProg.ret) v n hn hv
    (writesR_ret e checks n)
  simpa [writes_iff, fieldBits_length] using this

theorem writes_writeUnary_ret (e : Endian) (checks : Bool) (x : Nat) (hx : x < 2 ^ 64 - 1) :
    Writes (WProg.writeUnary x WProg.ret) e checks (unaryBits x) := by
  have := writesR_writeUnary (e := e) (checks := checks) (k := WProg.ret) x hx
    (writesR_ret e checks (x + 1))
  simpa [writes_iff, unaryBits_length] using this

theorem reads_readBits_ret (e : Endian) (v n : Nat) (hn : n ≤ 64) :
    Reads (RProg.readBits n RProg.ret) e (fieldBits e v n) (v % 2 ^ n) := by
  simpa using reads_readBits (e := e) (k := RProg.ret) v n hn (reads_ret e _)

theorem reads_readUnary_ret (e : Endian) (x : Nat) :
    Reads (RProg.readUnary RProg.ret) e (unaryBits x) x := by
  simpa using reads_readUnary (e := e) (k := RProg.ret) x (reads_ret e _)

end Dsi.CodesB
