/-
  Glue 2, part 1: the backends of the concrete writer.  `BufW` delivers words to an append-only
  list `out` (with an optional capacity); the real backends are the in-memory word writers
  (`MemW`, vector or slice) and the `WordAdapter` over a byte sink.  Both behave like the list.
-/
import Dsi.Props.Writer
import Dsi.Props.C11
import Dsi.Props.C13
import Dsi.Lemmas.EndToEndBytes
namespace Dsi
namespace G2
variable {W : Nat}

/-! ### 1(a) memory word writers -/

/-- write the words one after the other with `MemW.writeWord`, stopping at the first failure -/
def memwWriteAll : MemW W → List (BitVec W) → Res (MemW W)
  | m, [] => .ok m
  | m, w :: ws =>
    match m.writeWord w with
    | .ok m' => memwWriteAll m' ws
    | .err e => .err e
    | .panic => .panic
    | .dpanic => .dpanic

/-- deliver the words one after the other with `BufW.emit`, stopping at the first failure -/
def emitAll : BufW W → List (BitVec W) → Res (BufW W)
  | s, [] => .ok s
  | s, w :: ws =>
    match s.emit w with
    | .ok s' => emitAll s' ws
    | .err e => .err e
    | .panic => .panic
    | .dpanic => .dpanic

/-- The memory backend `m` holds exactly what the writer `s` has delivered: the cursor stands
    after the delivered words; a growable backend (vector) holds them and nothing else, a fixed
    one (slice of `c` words) holds them followed by its untouched zero words. -/
def BackRel (s : BufW W) (m : MemW W) : Prop :=
  m.pos = s.out.length ∧
  (s.cap = none → m.growable = true ∧ m.data = s.out) ∧
  (∀ c, s.cap = some c → m.growable = false ∧ s.out.length ≤ c ∧
    m.data = s.out ++ List.replicate (c - s.out.length) 0)

theorem set_append_replicate (out : List (BitVec W)) (k : Nat) (hk : 0 < k) (w : BitVec W) :
    (out ++ List.replicate k 0).set out.length w = out ++ [w] ++ List.replicate (k - 1) 0 := by
  obtain ⟨k, rfl⟩ : ∃ j, k = j + 1 := ⟨k - 1, by omega⟩
  rw [List.set_append_right _ _ (Nat.le_refl _), Nat.sub_self, List.replicate_succ, List.set_cons_zero]
  simp

/-- one delivered word: the list backend and the memory backend succeed or fail (`eof`, exactly
    when the capacity is exceeded) together and stay related -/
theorem emit_backend {s : BufW W} {m : MemW W} (h : BackRel s m) (w : BitVec W) :
    ResRel BackRel (s.emit w) (m.writeWord w) := by
  obtain ⟨buffer, space, out, cap, checks⟩ := s
  obtain ⟨data, pos, growable⟩ := m
  obtain ⟨hpos, hnone, hsome⟩ := h
  simp only at hpos hnone hsome
  subst hpos
  cases cap with
  | none =>
    obtain ⟨rfl, rfl⟩ := hnone rfl
    simp only [BufW.emit, MemW.writeWord, Nat.lt_irrefl, if_false, if_true, Nat.sub_self,
      List.replicate_zero, List.append_nil, ResRel]
    unfold BackRel
    exact ⟨by simp, fun _ => ⟨rfl, rfl⟩, fun c hc => (by cases hc)⟩
  | some c =>
    obtain ⟨rfl, hle, rfl⟩ := hsome c rfl
    by_cases hlt : out.length < c
    · have hp : out.length < (out ++ List.replicate (c - out.length) (0 : BitVec W)).length := by
        simp only [List.length_append, List.length_replicate]; omega
      simp only [BufW.emit, MemW.writeWord, hlt, hp, if_true, ResRel]
      unfold BackRel
      refine ⟨by simp, fun hc => (by cases hc), fun c' hc' => ?_⟩
      simp only [Option.some.injEq] at hc'
      subst hc'
      refine ⟨rfl, by simp only [List.length_append, List.length_singleton]; omega, ?_⟩
      rw [set_append_replicate out _ (by omega) w]
      simp only [List.length_append, List.length_singleton]
      congr 2
    · have hp : ¬ out.length < (out ++ List.replicate (c - out.length) (0 : BitVec W)).length := by
        simp only [List.length_append, List.length_replicate]; omega
      simp only [BufW.emit, MemW.writeWord, hlt, hp, if_false, ResRel]
      simp

/-- any number of delivered words -/
theorem emitAll_backend (ws : List (BitVec W)) : ∀ {s : BufW W} {m : MemW W}, BackRel s m →
    ResRel BackRel (emitAll s ws) (memwWriteAll m ws) := by
  induction ws with
  | nil => intro s m h; exact h
  | cons w ws ih =>
    intro s m h
    have h1 := emit_backend h w
    unfold emitAll memwWriteAll
    revert h1
    generalize s.emit w = x
    generalize m.writeWord w = y
    intro h1
    match x, y, h1 with
    | .ok s', .ok m', h' => exact ih h'
    | .err _, .err _, h' => exact h'
    | .panic, .panic, _ => trivial
    | .dpanic, .dpanic, _ => trivial

/-- the list backend in closed form: everything is appended, or `eof` when the capacity would be
    exceeded -/
theorem emitAll_eq (ws : List (BitVec W)) : ∀ (s : BufW W), s.CapOk →
    emitAll s ws = if capFits s.cap (s.out.length + ws.length) then .ok { s with out := s.out ++ ws }
      else .err .eof := by
  induction ws with
  | nil =>
    intro s hc
    have : capFits s.cap s.out.length = true := hc
    simp [emitAll, this]
  | cons w ws ih =>
    intro s hc
    unfold emitAll
    rw [BufW.emit_eq]
    by_cases h1 : capFits s.cap (s.out.length + 1) = true
    · simp only [h1, if_true]
      rw [ih _ (by simpa [BufW.CapOk] using h1)]
      simp only [List.length_append, List.length_cons, List.length_nil, List.append_assoc,
        List.singleton_append, Nat.zero_add]
      rw [show s.out.length + 1 + ws.length = s.out.length + (ws.length + 1) by omega]
    · have h2 : ¬ capFits s.cap (s.out.length + (ws.length + 1)) = true := by
        intro h
        apply h1
        rw [show s.out.length + (ws.length + 1) = (s.out.length + 1) + ws.length by omega] at h
        exact capFits_mono h
      simp [h1, h2]

/-- **memw_append (vector).** Writing `ws` word by word at the end of a growable memory writer
    appends them. -/
theorem memw_append_vec_from (d ws : List (BitVec W)) :
    memwWriteAll { data := d, pos := d.length, growable := true } ws =
      .ok { data := d ++ ws, pos := (d ++ ws).length, growable := true } := by
  induction ws generalizing d with
  | nil => simp [memwWriteAll]
  | cons w ws ih =>
    unfold memwWriteAll
    simp only [MemW.writeWord, Nat.lt_irrefl, if_false, if_true, Nat.sub_self, List.replicate_zero,
      List.append_nil]
    have := ih (d ++ [w])
    simp only [List.length_append, List.length_singleton, List.append_assoc, List.singleton_append]
      at this
    simpa using this

/-- **memw_append (vector), from the empty vector**: `data = ws`, `pos = ws.length` -/
theorem memw_append_vec (ws : List (BitVec W)) :
    memwWriteAll { data := [], pos := 0, growable := true } ws =
      .ok { data := ws, pos := ws.length, growable := true } := by
  simpa using memw_append_vec_from [] ws

/-- **memw_append (slice).** Writing `ws` word by word into a fixed slice whose remaining `k`
    words are zero succeeds iff `ws.length ≤ k`, and then the slice holds the words followed by
    the untouched zeros; otherwise the outcome is `eof`. -/
theorem memw_append_slice_from (d ws : List (BitVec W)) (k : Nat) :
    memwWriteAll { data := d ++ List.replicate k 0, pos := d.length, growable := false } ws =
      if ws.length ≤ k then
        .ok { data := d ++ ws ++ List.replicate (k - ws.length) 0, pos := d.length + ws.length,
              growable := false }
      else .err .eof := by
  induction ws generalizing d k with
  | nil => simp [memwWriteAll]
  | cons w ws ih =>
    unfold memwWriteAll
    by_cases hk : 0 < k
    · have hp : d.length < (d ++ List.replicate k (0 : BitVec W)).length := by
        simp only [List.length_append, List.length_replicate]; omega
      simp only [MemW.writeWord, hp, if_true]
      rw [set_append_replicate d k hk w]
      have := ih (d ++ [w]) (k - 1)
      simp only [List.length_append, List.length_singleton] at this
      rw [this]
      by_cases h1 : ws.length ≤ k - 1
      · have h2 : ws.length + 1 ≤ k := by omega
        simp only [h1, h2, if_true, List.length_cons, Res.ok.injEq, MemW.mk.injEq,
          List.append_assoc, List.singleton_append, and_true]
        refine ⟨?_, by omega⟩
        congr 3
        omega
      · have h2 : ¬ ws.length + 1 ≤ k := by omega
        simp only [h1, h2, if_false, List.length_cons]
    · have hk0 : k = 0 := by omega
      subst hk0
      simp [MemW.writeWord]

/-- **memw_append (slice), from a fresh slice of `c` zero words** -/
theorem memw_append_slice (c : Nat) (ws : List (BitVec W)) :
    memwWriteAll { data := List.replicate c 0, pos := 0, growable := false } ws =
      if ws.length ≤ c then
        .ok { data := ws ++ List.replicate (c - ws.length) 0, pos := ws.length, growable := false }
      else .err .eof := by
  simpa using memw_append_slice_from [] ws c

/-- the fresh memory backend for a capacity -/
def memwNew (W : Nat) : Option Nat → MemW W
  | none => { data := [], pos := 0, growable := true }
  | some c => { data := List.replicate c 0, pos := 0, growable := false }

theorem backRel_new (checks : Bool) (cap : Option Nat) :
    BackRel (BufW.new W checks cap) (memwNew W cap) := by
  cases cap with
  | none => exact ⟨rfl, fun _ => ⟨rfl, rfl⟩, fun c hc => (by cases hc)⟩
  | some c =>
    refine ⟨rfl, fun hc => (by cases hc), fun c' hc' => ?_⟩
    simp only [BufW.new, Option.some.injEq] at hc'
    subst hc'
    exact ⟨rfl, Nat.zero_le _, by simp [BufW.new, memwNew]⟩

end G2
end Dsi
