/-
  C05 — lifting lemmas: from "the bit-by-bit reader, run on the index bits alone, agrees with the
  table entry" (what the kernel-evaluated checkers establish) to "the table-driven program and the
  bit-by-bit program have the same outcome on every reference reader state".
-/
import Dsi.Lemmas.TablesCheck
import Dsi.Lemmas.CodesAFrame
namespace Dsi

/-! ### peek-free programs -/

/-- a reader program without look-ahead (`peek` / `skipAfterPeek`) -/
def PeekFree {α} : RProg α → Prop
  | .ret _ => True
  | .fail _ => True
  | .panic => True
  | .dpanic => True
  | .readBits _ k => ∀ v, PeekFree (k v)
  | .readUnary k => ∀ v, PeekFree (k v)
  | .peek _ _ => False
  | .skipAfterPeek _ _ => False
  | .skip _ k => PeekFree k

@[simp] theorem PeekFree.ret_iff {α} (a : α) : PeekFree (RProg.ret a) ↔ True := Iff.rfl
@[simp] theorem PeekFree.fail_iff {α} (e : Err) : PeekFree (RProg.fail e : RProg α) ↔ True := Iff.rfl
@[simp] theorem PeekFree.panic_iff {α} : PeekFree (RProg.panic : RProg α) ↔ True := Iff.rfl
@[simp] theorem PeekFree.dpanic_iff {α} : PeekFree (RProg.dpanic : RProg α) ↔ True := Iff.rfl
@[simp] theorem PeekFree.readBits_iff {α} (n : Nat) (k : Nat → RProg α) :
    PeekFree (RProg.readBits n k) ↔ ∀ v, PeekFree (k v) := Iff.rfl
@[simp] theorem PeekFree.readUnary_iff {α} (k : Nat → RProg α) :
    PeekFree (RProg.readUnary k) ↔ ∀ v, PeekFree (k v) := Iff.rfl
@[simp] theorem PeekFree.skip_iff {α} (n : Nat) (k : RProg α) :
    PeekFree (RProg.skip n k) ↔ PeekFree k := Iff.rfl
theorem PeekFree.ite {α} {c : Prop} [Decidable c] {p q : RProg α} (hp : PeekFree p)
    (hq : PeekFree q) : PeekFree (if c then p else q) := by
  split <;> assumption

theorem PeekFree.bind {α β} {p : RProg α} {f : α → RProg β} (hp : PeekFree p)
    (hf : ∀ a, PeekFree (f a)) : PeekFree (p.bind f) := by
  induction p with
  | ret a => exact hf a
  | fail e => trivial
  | panic => trivial
  | dpanic => trivial
  | readBits n k ih => intro v; exact ih v (hp v)
  | readUnary k ih => intro v; exact ih v (hp v)
  | peek n k _ => exact hp.elim
  | skipAfterPeek n k _ => exact hp.elim
  | skip n k ih => exact ih hp

namespace Tables

/-! ### bits of a zero-extended list -/

/-- bit `i` of `l`, `false` beyond the end -/
def bitAt (l : List Bool) (i : Nat) : Bool := l[i]?.getD false

@[simp] theorem bitAt_nil (i : Nat) : bitAt [] i = false := by simp [bitAt]
@[simp] theorem bitAt_cons_zero (b : Bool) (l : List Bool) : bitAt (b :: l) 0 = b := by simp [bitAt]
@[simp] theorem bitAt_cons_succ (b : Bool) (l : List Bool) (i : Nat) :
    bitAt (b :: l) (i + 1) = bitAt l i := by simp [bitAt]

theorem bitAt_of_lt {l : List Bool} {i : Nat} (h : i < l.length) : bitAt l i = l[i] := by
  simp [bitAt, h]

theorem lt_of_bitAt {l : List Bool} {i : Nat} (h : bitAt l i = true) : i < l.length := by
  by_cases hi : i < l.length
  · exact hi
  · simp [bitAt, List.getElem?_eq_none (Nat.le_of_not_lt hi)] at h

theorem bitAt_drop (l : List Bool) (q i : Nat) : bitAt (l.drop q) i = bitAt l (q + i) := by
  simp [bitAt]

theorem len_takeZ (n : Nat) (l : List Bool) : (takeZ n l).length = n := by
  induction n generalizing l with
  | zero => rfl
  | succ n ih => cases l <;> simp [takeZ, ih]

theorem bitAt_takeZ {n i : Nat} (l : List Bool) (h : i < n) : bitAt (takeZ n l) i = bitAt l i := by
  induction n generalizing l i with
  | zero => omega
  | succ n ih =>
    cases l with
    | nil =>
      cases i with
      | zero => simp [takeZ]
      | succ i => simpa [takeZ] using ih [] (i := i) (by omega)
    | cons b bs =>
      cases i with
      | zero => simp [takeZ]
      | succ i => simpa [takeZ] using ih bs (i := i) (by omega)

theorem takeZ_ext {n : Nat} {a b : List Bool} (h : ∀ i < n, bitAt a i = bitAt b i) :
    takeZ n a = takeZ n b := by
  apply List.ext_getElem
  · simp [len_takeZ]
  · intro i h1 h2
    have hi : i < n := by simpa [len_takeZ] using h1
    rw [← bitAt_of_lt h1, ← bitAt_of_lt h2, bitAt_takeZ _ hi, bitAt_takeZ _ hi, h i hi]

/-! ### `firstOne` through `bitAt` -/

theorem firstOne_some_iff (a : List Bool) (z : Nat) :
    RefR.firstOne a = some z ↔ bitAt a z = true ∧ ∀ i < z, bitAt a i = false := by
  induction a generalizing z with
  | nil => simp [RefR.firstOne]
  | cons b bs ih =>
    cases b with
    | true =>
      simp only [RefR.firstOne]
      constructor
      · intro h
        have : z = 0 := by simpa using h.symm
        subst this
        simp
      · rintro ⟨_, h2⟩
        cases z with
        | zero => rfl
        | succ z => have := h2 0 (by omega); simp at this
    | false =>
      simp only [RefR.firstOne]
      cases z with
      | zero => simp
      | succ z =>
        rw [bitAt_cons_succ]
        constructor
        · intro h
          have h' : RefR.firstOne bs = some z := by
            cases hf : RefR.firstOne bs with
            | none => simp [hf] at h
            | some w => simp [hf] at h; subst h; rfl
          have ⟨h1, h2⟩ := (ih z).1 h'
          refine ⟨h1, ?_⟩
          intro i hi
          cases i with
          | zero => simp
          | succ i => rw [bitAt_cons_succ]; exact h2 i (by omega)
        · rintro ⟨h1, h2⟩
          have h' : RefR.firstOne bs = some z :=
            (ih z).2 ⟨h1, fun i hi => by have := h2 (i + 1) (by omega); simpa using this⟩
          simp [h']

theorem firstOne_transfer {a b : List Bool} {z : Nat} (ha : RefR.firstOne a = some z)
    (h : ∀ i ≤ z, bitAt b i = bitAt a i) : RefR.firstOne b = some z := by
  have ⟨h1, h2⟩ := (firstOne_some_iff a z).1 ha
  refine (firstOne_some_iff b z).2 ⟨by rw [h z (Nat.le_refl _)]; exact h1, ?_⟩
  intro i hi
  rw [h i (by omega)]
  exact h2 i hi

theorem firstOne_lt {a : List Bool} {z : Nat} (ha : RefR.firstOne a = some z) : z < a.length :=
  lt_of_bitAt ((firstOne_some_iff a z).1 ha).1

/-! ### `fieldBits` inverts `bitsVal` -/

theorem fieldLE_natLE (s : List Bool) : fieldLE (natLE s) s.length = s := by
  induction s with
  | nil => rfl
  | cons b bs ih =>
    simp only [List.length_cons, fieldLE, natLE]
    cases b
    · simp [ih]
    · have h1 : (1 + 2 * natLE bs) % 2 = 1 := by omega
      have h2 : (1 + 2 * natLE bs) / 2 = natLE bs := by omega
      simp [h1, h2, ih]

theorem fieldBits_bitsVal (e : Endian) (s : List Bool) : fieldBits e (bitsVal e s) s.length = s := by
  cases e with
  | le => exact fieldLE_natLE s
  | be =>
    have := fieldLE_natLE s.reverse
    simp only [List.length_reverse] at this
    simp [fieldBits, bitsVal, this]

theorem natLE_lt (s : List Bool) : natLE s < 2 ^ s.length := by
  induction s with
  | nil => simp [natLE]
  | cons b bs ih =>
    simp only [natLE, List.length_cons, Nat.pow_succ]
    cases b <;> simp <;> omega

theorem bitsVal_lt (e : Endian) (s : List Bool) : bitsVal e s < 2 ^ s.length := by
  cases e with
  | le => exact natLE_lt s
  | be => simpa [bitsVal] using natLE_lt s.reverse

/-! ### a peek-free run over a short strict stream, replayed inside a larger stream -/

/-- The small reader holds exactly the bits `s` (strict); the big reader has the same bits at
    offset `p0` of its stream `S` (zero-extended if it is not strict, really present if it is).
    A successful peek-free run on the small reader is replayed step by step on the big one. -/
theorem run_embed_aux {α} (p : RProg α) (hp : PeekFree p) (e : Endian) (s S : List Bool)
    (pm PM p0 : Nat) (st : Bool)
    (hbits : ∀ i < s.length, bitAt S (p0 + i) = bitAt s i)
    (hav : st = true → p0 + s.length ≤ S.length) :
    ∀ (q : Nat) (a : α) (r' : RefR),
      p.run RefR.impl ⟨e, s, q, true, pm⟩ = .ok (a, r') →
      ∃ q', r' = ⟨e, s, q', true, pm⟩ ∧
        p.run RefR.impl ⟨e, S, p0 + q, st, PM⟩ = .ok (a, ⟨e, S, p0 + q', st, PM⟩) := by
  induction p with
  | ret a =>
    intro q a' r' h
    simp only [RProg.run, Res.ok.injEq, Prod.mk.injEq] at h
    exact ⟨q, h.2.symm, by simp [RProg.run, h.1]⟩
  | fail er => intro q a r' h; simp [RProg.run] at h
  | panic => intro q a r' h; simp [RProg.run] at h
  | dpanic => intro q a r' h; simp [RProg.run] at h
  | readBits n k ih =>
    intro q a r' h
    simp only [RProg.run, RefR.impl_readBits, RefR.readBits] at h ⊢
    by_cases hn : n > 64
    · simp [hn] at h
    · rw [if_neg hn] at h
      rw [if_neg hn]
      by_cases hq : q + n ≤ s.length
      · have hav1 : RefR.avail ⟨e, s, q, true, pm⟩ n = true := by simp [RefR.avail, hq]
        have hav2 : RefR.avail ⟨e, S, p0 + q, st, PM⟩ n = true := by
          simp only [RefR.avail]
          cases st
          · simp
          · have := hav rfl
            simp; omega
        rw [if_pos hav1] at h
        rw [if_pos hav2]
        simp only [RefR.rest] at h ⊢
        have hval : takeZ n (S.drop (p0 + q)) = takeZ n (s.drop q) := by
          apply takeZ_ext
          intro i hi
          rw [bitAt_drop, bitAt_drop, Nat.add_assoc, hbits (q + i) (by omega)]
        rw [hval]
        obtain ⟨q', h1, h2⟩ := ih _ (hp _) (q + n) a r' h
        exact ⟨q', h1, by rw [Nat.add_assoc]; exact h2⟩
      · have hav1 : RefR.avail ⟨e, s, q, true, pm⟩ n = false := by simp [RefR.avail]; omega
        simp [hav1] at h
  | readUnary k ih =>
    intro q a r' h
    simp only [RProg.run, RefR.impl_readUnary, RefR.readUnary, RefR.rest] at h ⊢
    cases hf : RefR.firstOne (s.drop q) with
    | none => simp [hf] at h
    | some z =>
      have hz := firstOne_lt hf
      simp only [List.length_drop] at hz
      have hf2 : RefR.firstOne (S.drop (p0 + q)) = some z := by
        apply firstOne_transfer hf
        intro i hi
        rw [bitAt_drop, bitAt_drop, Nat.add_assoc, hbits (q + i) (by omega)]
      simp only [hf] at h
      simp only [hf2]
      obtain ⟨q', h1, h2⟩ := ih _ (hp _) (q + z + 1) a r' h
      exact ⟨q', h1, by simpa [Nat.add_assoc] using h2⟩
  | peek n k _ => exact hp.elim
  | skipAfterPeek n k _ => exact hp.elim
  | skip n k ih =>
    intro q a r' h
    simp only [RProg.run, RefR.impl_skipBits, RefR.skipBits] at h ⊢
    by_cases hq : q + n ≤ s.length
    · have hav1 : RefR.avail ⟨e, s, q, true, pm⟩ n = true := by simp [RefR.avail, hq]
      have hav2 : RefR.avail ⟨e, S, p0 + q, st, PM⟩ n = true := by
        simp only [RefR.avail]
        cases st
        · simp
        · have := hav rfl
          simp; omega
      rw [if_pos hav1] at h
      rw [if_pos hav2]
      obtain ⟨q', h1, h2⟩ := ih hp (q + n) a r' h
      exact ⟨q', h1, by rw [Nat.add_assoc]; exact h2⟩
    · have hav1 : RefR.avail ⟨e, s, q, true, pm⟩ n = false := by simp [RefR.avail]; omega
      simp [hav1] at h

end Tables

/-- **Embedding.**  If a peek-free program succeeds on the strict reference reader holding exactly
    the bits `s`, then on every reference reader whose next `s.length` bits (zero-extended) are `s`
    and for which these bits are available, it returns the same value and advances by the same
    number of bits. -/
theorem run_embed {α} (p : RProg α) (hp : PeekFree p) (e : Endian) (s : List Bool) (pm : Nat)
    (a : α) (r' : RefR)
    (h : p.run RefR.impl ⟨e, s, 0, true, pm⟩ = .ok (a, r'))
    (r : RefR) (he : r.e = e) (hs : takeZ s.length r.rest = s) (hav : r.avail s.length = true) :
    p.run RefR.impl r = .ok (a, { r with pos := r.pos + r'.pos }) := by
  obtain ⟨re, S, pos, st, PM⟩ := r
  simp only at he
  subst he
  have hbits : ∀ i < s.length, Tables.bitAt S (pos + i) = Tables.bitAt s i := by
    intro i hi
    have := Tables.bitAt_takeZ (S.drop pos) hi
    simp only [RefR.rest] at hs
    rw [hs, Tables.bitAt_drop] at this
    exact this.symm
  have hav' : st = true → pos + s.length ≤ S.length := by
    intro hst
    subst hst
    simpa [RefR.avail] using hav
  obtain ⟨q', h1, h2⟩ := Tables.run_embed_aux p hp re s S pm PM pos st hbits hav' 0 a r' h
  subst h1
  simpa using h2

end Dsi
