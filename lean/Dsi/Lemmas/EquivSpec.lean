/-
  Helpers for `Dsi.Props.Equiv`: the minimal binary code with a power-of-two bound is a plain
  field, empty fields, and the generic "two programs with the same `Writes` / `Reads` statement"
  glue.
-/
import Dsi.Props.CodesA
import Dsi.Props.CodesB
namespace Dsi.EqvL
open Dsi

theorem fieldBits_zero (e : Endian) (v : Nat) : fieldBits e v 0 = [] := by
  cases e <;> rfl

theorem two_pow_succ_sub (j : Nat) : 2 ^ (j + 1) - 2 ^ j = 2 ^ j := by
  rw [Nat.pow_succ]; omega

/-- with the bound `2^j` every `x < 2^j` is written in exactly `j` bits -/
theorem minbin_pow2 (e : Endian) (x j : Nat) (hx : x < 2 ^ j) :
    Spec.minimalBinary e x (2 ^ j) = fieldBits e x j := by
  unfold Spec.minimalBinary
  simp only [Nat.log2_two_pow, two_pow_succ_sub, if_pos hx]

/-- the bound handed to the minimal binary code by ζ₁ -/
theorem zeta1_bound (h : Nat) : 2 ^ ((h + 1) * 1) - 2 ^ (h * 1) = 2 ^ h := by
  rw [Nat.mul_one, Nat.mul_one, two_pow_succ_sub]

theorem sub_pow_log2_lt {m : Nat} (h : m ≠ 0) : m - 2 ^ m.log2 < 2 ^ m.log2 := by
  have ⟨h1, h2⟩ := log2_bounds h
  rw [Nat.pow_succ] at h2
  omega

/-- two writer programs with the same `Writes` statement run identically on every growable
    reference writer -/
theorem writes_run_eq {p q : WProg Nat} {e : Endian} {checks : Bool} {bits : List Bool}
    (hp : Writes p e checks bits) (hq : Writes q e checks bits) (w : RefW) (he : w.e = e)
    (hcap : w.cap = none) (hc : w.checks = checks) :
    p.run RefW.impl w = q.run RefW.impl w := by
  rw [hp w he hcap hc, hq w he hcap hc]

/-- two reader programs with the same `Reads` statement run identically on every reference reader
    positioned at the codeword -/
theorem reads_run_eq {p q : RProg Nat} {e : Endian} {bits : List Bool} {v : Nat}
    (hp : Reads p e bits v) (hq : Reads q e bits v) (pre post : List Bool) (strict : Bool)
    (pm : Nat) (hpm : 1 ≤ pm) :
    p.run RefR.impl (RefR.at e pre bits post strict pm)
      = q.run RefR.impl (RefR.at e pre bits post strict pm) := by
  rw [hp pre post strict pm hpm, hq pre post strict pm hpm]

/-- transport a `Writes` statement along a run equality on the reference writer -/
theorem writes_of_run_eq {p q : WProg Nat} {e : Endian} {checks : Bool} {bits : List Bool}
    (hq : Writes q e checks bits)
    (h : ∀ w : RefW, w.e = e → w.checks = checks → p.run RefW.impl w = q.run RefW.impl w) :
    Writes p e checks bits := by
  intro w he hcap hc
  rw [h w he hc]
  exact hq w he hcap hc

/-- transport a `Reads` statement along a run equality on the reference reader -/
theorem reads_of_run_eq {p q : RProg Nat} {e : Endian} {bits : List Bool} {v : Nat}
    (hq : Reads q e bits v)
    (h : ∀ r : RefR, r.e = e → p.run RefR.impl r = q.run RefR.impl r) :
    Reads p e bits v := by
  intro pre post strict pm hpm
  rw [h _ rfl]
  exact hq pre post strict pm hpm

end Dsi.EqvL
