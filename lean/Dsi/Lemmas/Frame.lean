/-
  Frame for the L1/L2 code theorems: what it means for a reader program to decode a bit string
  wherever it is embedded, and for a writer program to append exactly a bit string.
-/
import Dsi.Ref
namespace Dsi

/-- a reference reader positioned at the start of `bits` inside a larger stream -/
def RefR.at (e : Endian) (pre bits post : List Bool) (strict : Bool) (pm : Nat) : RefR :=
  { e := e, stream := pre ++ bits ++ post, pos := pre.length, strict := strict, peekMax := pm }

/-- the same reader just after `bits` -/
def RefR.after (e : Endian) (pre bits post : List Bool) (strict : Bool) (pm : Nat) : RefR :=
  { e := e, stream := pre ++ bits ++ post, pos := pre.length + bits.length, strict := strict, peekMax := pm }

/-- program `p` decodes `bits` to `a`, wherever the bits are embedded (any preceding bits, any
    following bits, strict or zero-extended stream), consuming exactly them -/
def Reads {α} (p : RProg α) (e : Endian) (bits : List Bool) (a : α) : Prop :=
  ∀ pre post strict pm, 1 ≤ pm →
    p.run RefR.impl (RefR.at e pre bits post strict pm) = .ok (a, RefR.after e pre bits post strict pm)

/-- program `p` appends exactly `bits` to a growable reference writer and returns their number -/
def Writes (p : WProg Nat) (e : Endian) (checks : Bool) (bits : List Bool) : Prop :=
  ∀ w : RefW, w.e = e → w.cap = none → w.checks = checks →
    p.run RefW.impl w = .ok (bits.length, { w with bits := w.bits ++ bits })

end Dsi
