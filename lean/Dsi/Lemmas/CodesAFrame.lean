/-
  Framing: what it means for an L2 program to decode / encode a given bit string on the
  L1 reference reader / writer, and the compositional lemmas for these judgements.
-/
import Dsi.Lemmas.CodesABits
import Dsi.Lemmas.Frame
namespace Dsi

/-- generalisation of `Writes` to an arbitrary result -/
def WritesV {α} (p : WProg α) (e : Endian) (checks : Bool) (bits : List Bool) (a : α) : Prop :=
  ∀ w : RefW, w.e = e → w.cap = none → w.checks = checks →
    p.run RefW.impl w = .ok (a, { w with bits := w.bits ++ bits })

theorem writes_iff {p : WProg Nat} {e checks bits} :
    Writes p e checks bits ↔ WritesV p e checks bits bits.length := Iff.rfl

/-! ### `run` of a `bind` -/

theorem RProg.run_bind {σ α β} (I : RImpl σ) (p : RProg α) (f : α → RProg β) (s : σ) :
    (p.bind f).run I s = (p.run I s).bind (fun x => (f x.1).run I x.2) := by
  induction p generalizing s with
  | ret a => rfl
  | fail e => rfl
  | panic => rfl
  | dpanic => rfl
  | readBits n k ih => simp only [RProg.bind, RProg.run]; split <;> simp [Res.bind, ih]
  | readUnary k ih => simp only [RProg.bind, RProg.run]; split <;> simp [Res.bind, ih]
  | peek n k ih => simp only [RProg.bind, RProg.run]; split <;> simp [Res.bind, ih]
  | skipAfterPeek n k ih => simp only [RProg.bind, RProg.run, ih]
  | skip n k ih => simp only [RProg.bind, RProg.run]; split <;> simp [Res.bind, ih]

theorem WProg.run_bind {σ α β} (I : WImpl σ) (p : WProg α) (f : α → WProg β) (s : σ) :
    (p.bind f).run I s = (p.run I s).bind (fun x => (f x.1).run I x.2) := by
  induction p generalizing s with
  | ret a => rfl
  | panic => rfl
  | dpanic => rfl
  | writeBits v n k ih => simp only [WProg.bind, WProg.run]; split <;> simp [Res.bind, ih]
  | writeUnary x k ih => simp only [WProg.bind, WProg.run]; split <;> simp [Res.bind, ih]
  | flush k ih => simp only [WProg.bind, WProg.run]; split <;> simp [Res.bind, ih]

/-! ### the reference reader on an embedded chunk -/

theorem RefR.at_rest (e pre bits post st pm) : (RefR.at e pre bits post st pm).rest = bits ++ post := by
  simp [RefR.at, RefR.rest]

theorem RefR.at_avail (e pre) (a rest post : List Bool) (st pm) :
    (RefR.at e pre (a ++ rest) post st pm).avail a.length = true := by
  simp only [RefR.at, RefR.avail, List.length_append]
  cases st <;> simp
  omega

/-- moving the cursor over a chunk `a` -/
theorem RefR.at_advance (e pre) (a rest post : List Bool) (st pm) :
    { RefR.at e pre (a ++ rest) post st pm with pos := (RefR.at e pre (a ++ rest) post st pm).pos + a.length }
      = RefR.at e (pre ++ a) rest post st pm := by
  simp [RefR.at, List.append_assoc]

theorem RefR.after_shift (e pre) (a rest post : List Bool) (st pm) :
    RefR.after e (pre ++ a) rest post st pm = RefR.after e pre (a ++ rest) post st pm := by
  simp [RefR.after, List.append_assoc, Nat.add_assoc]

theorem RefR.after_nil (e pre post st pm) : RefR.after e pre [] post st pm = RefR.at e pre [] post st pm := by
  simp [RefR.after, RefR.at]

theorem RefR.readBits_at (e pre) (a rest post : List Bool) (st pm) (n : Nat) (hn : n ≤ 64)
    (ha : a.length = n) :
    RefR.readBits (RefR.at e pre (a ++ rest) post st pm) n
      = .ok (bitsVal e a, RefR.at e (pre ++ a) rest post st pm) := by
  subst ha
  have hav := RefR.at_avail e pre a rest post st pm
  have hadv := RefR.at_advance e pre a rest post st pm
  unfold RefR.readBits
  rw [if_neg (by omega), if_pos hav, hadv, RefR.at_rest, List.append_assoc,
    takeZ_append_left _ _ _ rfl]
  rfl

theorem RefR.peekBits_at (e pre) (a rest post : List Bool) (st pm) (n : Nat) (hn0 : n ≠ 0)
    (hn : n ≤ pm) (ha : a.length = n) :
    RefR.peekBits (RefR.at e pre (a ++ rest) post st pm) n
      = .ok (bitsVal e a, RefR.at e pre (a ++ rest) post st pm) := by
  subst ha
  have hav := RefR.at_avail e pre a rest post st pm
  unfold RefR.peekBits
  have hpm : (RefR.at e pre (a ++ rest) post st pm).peekMax = pm := rfl
  rw [if_neg (by rw [hpm]; omega), if_pos hav, RefR.at_rest, List.append_assoc,
    takeZ_append_left _ _ _ rfl]
  rfl

theorem RefR.skipAfterPeek_at (e pre) (a rest post : List Bool) (st pm) :
    RefR.skipAfterPeek (RefR.at e pre (a ++ rest) post st pm) a.length
      = RefR.at e (pre ++ a) rest post st pm :=
  RefR.at_advance e pre a rest post st pm

theorem RefR.readUnary_at (e pre) (x : Nat) (rest post : List Bool) (st pm) :
    RefR.readUnary (RefR.at e pre (unaryBits x ++ rest) post st pm)
      = .ok (x, RefR.at e (pre ++ unaryBits x) rest post st pm) := by
  have hadv := RefR.at_advance e pre (unaryBits x) rest post st pm
  unfold RefR.readUnary
  rw [RefR.at_rest, List.append_assoc, firstOne_unary]
  simp only [unaryBits_length, ← Nat.add_assoc] at hadv
  simp only [hadv]

@[simp] theorem RefR.impl_readBits : RefR.impl.readBits = RefR.readBits := rfl
@[simp] theorem RefR.impl_peekBits : RefR.impl.peekBits = RefR.peekBits := rfl
@[simp] theorem RefR.impl_skipAfterPeek : RefR.impl.skipAfterPeek = RefR.skipAfterPeek := rfl
@[simp] theorem RefR.impl_skipBits : RefR.impl.skipBits = RefR.skipBits := rfl
@[simp] theorem RefR.impl_readUnary : RefR.impl.readUnary = RefR.readUnary := rfl
@[simp] theorem RefW.impl_writeBits : RefW.impl.writeBits = RefW.writeBits := rfl
@[simp] theorem RefW.impl_writeUnary : RefW.impl.writeUnary = RefW.writeUnary := rfl
@[simp] theorem RefW.impl_flush : RefW.impl.flush = RefW.flush := rfl

/-! ### `Reads` -/

theorem Reads.ret {α} (e : Endian) (a : α) : Reads (RProg.ret a) e [] a := by
  intro pre post st pm _
  simp [RProg.run, RefR.after_nil]

theorem Reads.readBits {α} {e : Endian} {n v : Nat} {k : Nat → RProg α} {rest : List Bool} {c : α}
    (hn : n ≤ 64) (h : Reads (k (v % 2 ^ n)) e rest c) :
    Reads (.readBits n k) e (fieldBits e v n ++ rest) c := by
  intro pre post st pm hpm
  simp only [RProg.run, RefR.impl_readBits]
  rw [RefR.readBits_at e pre _ rest post st pm n hn (fieldBits_length e v n)]
  simp only [bitsVal_fieldBits]
  rw [h _ post st pm hpm, RefR.after_shift]

/-- reading an arbitrary chunk of `n ≤ 64` bits -/
theorem Reads.readBits_chunk {α} {e : Endian} {n : Nat} {k : Nat → RProg α} {a rest : List Bool} {c : α}
    (hn : n ≤ 64) (ha : a.length = n) (h : Reads (k (bitsVal e a)) e rest c) :
    Reads (.readBits n k) e (a ++ rest) c := by
  intro pre post st pm hpm
  simp only [RProg.run, RefR.impl_readBits]
  rw [RefR.readBits_at e pre _ rest post st pm n hn ha]
  simp only
  rw [h _ post st pm hpm, RefR.after_shift]

theorem Reads.readUnary {α} {e : Endian} {x : Nat} {k : Nat → RProg α} {rest : List Bool} {c : α}
    (h : Reads (k x) e rest c) :
    Reads (.readUnary k) e (unaryBits x ++ rest) c := by
  intro pre post st pm hpm
  simp only [RProg.run, RefR.impl_readUnary]
  rw [RefR.readUnary_at]
  simp only
  rw [h _ post st pm hpm, RefR.after_shift]

/-- a one-bit look-ahead sees the next bit and consumes nothing -/
theorem Reads.peek1 {α} {e : Endian} {b : Bool} {k : Except Err Nat → RProg α} {tl : List Bool} {c : α}
    (h : Reads (k (.ok (if b then 1 else 0))) e (b :: tl) c) :
    Reads (.peek 1 k) e (b :: tl) c := by
  intro pre post st pm hpm
  simp only [RProg.run, RefR.impl_peekBits]
  have := RefR.peekBits_at e pre [b] tl post st pm 1 (by decide) hpm rfl
  simp only [List.singleton_append] at this
  rw [this]
  have hv : bitsVal e [b] = if b then 1 else 0 := by cases e <;> cases b <;> rfl
  simp only [hv]
  exact h pre post st pm hpm

theorem Reads.skipAfterPeek1 {α} {e : Endian} {b : Bool} {k : RProg α} {tl : List Bool} {c : α}
    (h : Reads k e tl c) :
    Reads (.skipAfterPeek 1 k) e (b :: tl) c := by
  intro pre post st pm hpm
  simp only [RProg.run, RefR.impl_skipAfterPeek]
  have := RefR.skipAfterPeek_at e pre [b] tl post st pm
  simp only [List.singleton_append, List.length_singleton] at this
  rw [this, h _ post st pm hpm]
  have := RefR.after_shift e pre [b] tl post st pm
  simpa using this

theorem Reads.bind {α β} {e : Endian} {p : RProg α} {k : α → RProg β} {b1 b2 : List Bool} {a : α} {c : β}
    (h1 : Reads p e b1 a) (h2 : Reads (k a) e b2 c) : Reads (p.bind k) e (b1 ++ b2) c := by
  intro pre post st pm hpm
  have e1 : RefR.at e pre (b1 ++ b2) post st pm = RefR.at e pre b1 (b2 ++ post) st pm := by
    simp [RefR.at, List.append_assoc]
  have e2 : RefR.after e pre b1 (b2 ++ post) st pm = RefR.at e (pre ++ b1) b2 post st pm := by
    simp [RefR.at, RefR.after, List.append_assoc]
  rw [RProg.run_bind, e1, h1 pre (b2 ++ post) st pm hpm]
  simp only [Res.bind]
  rw [e2, h2 _ post st pm hpm, RefR.after_shift]

theorem Reads.congr {α} {e : Endian} {p : RProg α} {b b' : List Bool} {a a' : α}
    (h : Reads p e b a) (hb : b = b') (ha : a = a') : Reads p e b' a' := by
  subst hb; subst ha; exact h

/-! ### `Writes` -/

theorem WritesV.ret {α} (e : Endian) (checks : Bool) (a : α) : WritesV (WProg.ret a) e checks [] a := by
  intro w _ _ _
  simp [WProg.run]

theorem RefW.put_growable (w : RefW) (hc : w.cap = none) (bs : List Bool) (r : Nat) :
    w.put bs r = .ok (r, { w with bits := w.bits ++ bs }) := by
  simp [RefW.put, RefW.fits, hc]

theorem WritesV.writeBits {α} {e : Endian} {checks : Bool} {v n : Nat} {k : Nat → WProg α}
    {rest : List Bool} {a : α} (hn : n ≤ 64) (hv : checks = false ∨ v % 2 ^ 64 < 2 ^ n)
    (h : WritesV (k n) e checks rest a) :
    WritesV (.writeBits v n k) e checks (fieldBits e v n ++ rest) a := by
  intro w he hc hk
  simp only [WProg.run, RefW.impl_writeBits]
  have hw : RefW.writeBits w v n = .ok (n, { w with bits := w.bits ++ fieldBits e v n }) := by
    unfold RefW.writeBits
    rw [if_neg (by omega), if_neg, RefW.put_growable w hc, he]
    rcases hv with hv | hv
    · simp [hk, hv]
    · simp; intro _; exact hv
  rw [hw]
  simp only
  rw [h { w with bits := w.bits ++ fieldBits e v n } he hc hk]
  simp [List.append_assoc]

theorem WritesV.writeUnary {α} {e : Endian} {checks : Bool} {x : Nat} {k : Nat → WProg α}
    {rest : List Bool} {a : α} (hx : x < 2 ^ 64 - 1)
    (h : WritesV (k (x + 1)) e checks rest a) :
    WritesV (.writeUnary x k) e checks (unaryBits x ++ rest) a := by
  intro w he hc hk
  simp only [WProg.run, RefW.impl_writeUnary]
  have hw : RefW.writeUnary w x = .ok (x + 1, { w with bits := w.bits ++ unaryBits x }) := by
    unfold RefW.writeUnary
    rw [if_neg (by omega), RefW.put_growable w hc]
  rw [hw]
  simp only
  rw [h { w with bits := w.bits ++ unaryBits x } he hc hk]
  simp [List.append_assoc]

theorem WritesV.bind {α β} {e : Endian} {checks : Bool} {p : WProg α} {k : α → WProg β}
    {b1 b2 : List Bool} {a : α} {c : β}
    (h1 : WritesV p e checks b1 a) (h2 : WritesV (k a) e checks b2 c) :
    WritesV (p.bind k) e checks (b1 ++ b2) c := by
  intro w he hc hk
  rw [WProg.run_bind, h1 w he hc hk]
  simp only [Res.bind]
  rw [h2 { w with bits := w.bits ++ b1 } he hc hk]
  simp [List.append_assoc]

theorem WritesV.congr {α} {e : Endian} {checks : Bool} {p : WProg α} {b b' : List Bool} {a a' : α}
    (h : WritesV p e checks b a) (hb : b = b') (ha : a = a') : WritesV p e checks b' a' := by
  subst hb; subst ha; exact h

/-! #### the same lemmas phrased for `Writes` -/

theorem Writes.toV {p : WProg Nat} {e checks bits} (h : Writes p e checks bits) :
    WritesV p e checks bits bits.length := h

theorem Writes.ofV {p : WProg Nat} {e checks bits} {r : Nat} (h : WritesV p e checks bits r)
    (hr : r = bits.length) : Writes p e checks bits := by
  subst hr; exact h

theorem Writes.wbits {e : Endian} {checks : Bool} {v n : Nat} (hn : n ≤ 64)
    (hv : checks = false ∨ v % 2 ^ 64 < 2 ^ n) :
    Writes (.writeBits v n .ret) e checks (fieldBits e v n) := by
  have := WritesV.writeBits (k := WProg.ret) hn hv (WritesV.ret e checks n)
  exact Writes.ofV (this.congr (List.append_nil _) rfl) (by simp)

theorem Writes.wunary {e : Endian} {checks : Bool} {x : Nat} (hx : x < 2 ^ 64 - 1) :
    Writes (.writeUnary x .ret) e checks (unaryBits x) := by
  have := WritesV.writeUnary (k := WProg.ret) hx (WritesV.ret e checks (x + 1))
  exact Writes.ofV (this.congr (List.append_nil _) rfl) (by simp)

/-- sequencing two `Writes` programs, adding up the lengths -/
theorem Writes.bind_add {e : Endian} {checks : Bool} {p : WProg Nat} {q : WProg Nat}
    {b1 b2 : List Bool} (h1 : Writes p e checks b1) (h2 : Writes q e checks b2) :
    Writes (p.bind fun a => q.bind fun b => .ret (a + b)) e checks (b1 ++ b2) := by
  have h3 : WritesV (q.bind fun b => WProg.ret (b1.length + b)) e checks (b2 ++ []) (b1.length + b2.length) :=
    WritesV.bind h2.toV (WritesV.ret e checks _)
  have := WritesV.bind (k := fun a => q.bind fun b => .ret (a + b)) h1.toV h3
  exact Writes.ofV (this.congr (by simp) rfl) (by simp)

end Dsi
