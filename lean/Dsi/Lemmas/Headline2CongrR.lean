/-
  Headline2: two implementations of the `BitRead` interface that agree on the states of an
  invariant `J` kept by the second one (peeks of at most `Wd` bits) run every program alike.
  Used to replace the hand-written reader by the generated one *under* a wrapper (`CountR.impl`).
-/
import Dsi.Lemmas.HeadlineRunR
namespace Dsi
namespace Headline2
open Headline

structure RAgree {σ : Type} (I I' : RImpl σ) (J : σ → Prop) (Wd : Nat) : Prop where
  readBits : ∀ s n, J s → I.readBits s n = I'.readBits s n ∧
    ∀ v s', I'.readBits s n = .ok (v, s') → J s'
  readUnary : ∀ s, J s → I.readUnary s = I'.readUnary s ∧
    ∀ v s', I'.readUnary s = .ok (v, s') → J s'
  peekBits : ∀ s n, J s → n ≤ Wd → I.peekBits s n = I'.peekBits s n ∧
    ∀ v s', I'.peekBits s n = .ok (v, s') → J s'
  skipAfterPeek : ∀ s n, J s → I.skipAfterPeek s n = I'.skipAfterPeek s n ∧ J (I'.skipAfterPeek s n)
  skipBits : ∀ s n, J s → I.skipBits s n = I'.skipBits s n ∧
    ∀ s', I'.skipBits s n = .ok s' → J s'

theorem rrun_congr {σ α : Type} {I I' : RImpl σ} {J : σ → Prop} {Wd : Nat} (h : RAgree I I' J Wd)
    (p : RProg α) : ∀ s, J s → PeekLe Wd p → p.run I s = p.run I' s := by
  induction p with
  | ret a => intro s _ _; rfl
  | fail x => intro s _ _; rfl
  | panic => intro s _ _; rfl
  | dpanic => intro s _ _; rfl
  | readBits n k ih =>
    intro s hj hp
    obtain ⟨h1, h2⟩ := h.readBits s n hj
    simp only [RProg.run]
    rw [h1]
    cases hr : I'.readBits s n with
    | ok q => obtain ⟨v, s'⟩ := q; exact ih v s' (h2 v s' hr) (hp v)
    | err _ => rfl
    | panic => rfl
    | dpanic => rfl
  | readUnary k ih =>
    intro s hj hp
    obtain ⟨h1, h2⟩ := h.readUnary s hj
    simp only [RProg.run]
    rw [h1]
    cases hr : I'.readUnary s with
    | ok q => obtain ⟨v, s'⟩ := q; exact ih v s' (h2 v s' hr) (hp v)
    | err _ => rfl
    | panic => rfl
    | dpanic => rfl
  | peek n k ih =>
    intro s hj hp
    obtain ⟨h1, h2⟩ := h.peekBits s n hj hp.1
    simp only [RProg.run]
    rw [h1]
    cases hr : I'.peekBits s n with
    | ok q => obtain ⟨v, s'⟩ := q; exact ih (.ok v) s' (h2 v s' hr) (hp.2 _)
    | err x => exact ih (.error x) s hj (hp.2 _)
    | panic => rfl
    | dpanic => rfl
  | skipAfterPeek n k ih =>
    intro s hj hp
    obtain ⟨h1, h2⟩ := h.skipAfterPeek s n hj
    simp only [RProg.run]
    rw [h1]
    exact ih _ h2 hp
  | skip n k ih =>
    intro s hj hp
    obtain ⟨h1, h2⟩ := h.skipBits s n hj
    simp only [RProg.run]
    rw [h1]
    cases hr : I'.skipBits s n with
    | ok s' => exact ih s' (h2 s' hr) hp
    | err _ => rfl
    | panic => rfl
    | dpanic => rfl

/-- the generated buffered reader against the hand-written one, on the struct invariant -/
theorem ragree_gen (e : Endian) {W : Nat} : RAgree (genRImpl (W := W) e) (BufR.impl e) RInv W where
  readBits := fun s n hj => ⟨genR_readBits e s hj n, fun _ _ h => hand_readBits_rinv e hj h⟩
  readUnary := fun s hj => ⟨genR_readUnary e s hj, fun _ _ h => hand_readUnary_rinv e hj h⟩
  peekBits := fun s n hj hn => ⟨genR_peekBits e s hj n, fun _ _ h => hand_peekBits_rinv e hj hn h⟩
  skipAfterPeek := fun s n hj => ⟨genR_skipAfterPeek e s n, hand_skipAfterPeek_rinv e s n hj⟩
  skipBits := fun s n hj => ⟨genR_skipBits e s hj n, fun _ h => hand_skipBits_rinv e hj h⟩

end Headline2
end Dsi
