/-
  C05 — kernel-evaluated table theorems (δ encoding, LE; lengths).  Each statement is a closed Boolean
  computation over the *generated* table (no table content is mentioned here), checked by the
  kernel's evaluator (`decide +kernel`: no `native_decide`, no compiler trust).
-/
import Dsi.Lemmas.TablesCheck
import Dsi.Gen.TablesDelta
namespace Dsi
open Gen

/-- every entry of the LE δ encoding table is the codeword `writeDeltaDefault` (no γ table) writes;
    the table has `WRITE_MAX + 1` entries -/
theorem delta_write_le_ok :
    chkWriteTable .le (writeDeltaDefault false none) Delta.WRITE_MAX
      Delta.WRITE_LE_chunks Delta.WRITE_LEN_LE_chunks = true := by decide +kernel

/-- `LEN[v] = lenDelta none none v` for the `WRITE_MAX + 1` entries of the δ length table -/
theorem delta_len_ok :
    chkLenTable (lenDelta none none) Delta.WRITE_MAX Delta.LEN_chunks = true := by decide +kernel

end Dsi
