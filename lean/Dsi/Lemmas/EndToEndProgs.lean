/-
  End-to-end, part 2: the side conditions of the reader simulations (`PeekBounded` for the buffered
  reader; `BitR.ProgOK`, `BitR.NoSkip` for the unbuffered one) are closed under `bind` and hold
  for the code readers γ, δ, ζ_k, ω (and raw fields).
-/
import Dsi.Props.Reader
import Dsi.Props.BitReader
import Dsi.Codes
namespace Dsi
namespace E2E

/-! ### `PeekBounded` -/

theorem peekBounded_mono {α : Type} {W : Nat} (p : RProg α) :
    ∀ {c c' : Nat}, c ≤ c' → PeekBounded W c p → PeekBounded W c' p := by
  induction p with
  | ret a => intro _ _ _ _; trivial
  | fail x => intro _ _ _ _; trivial
  | panic => intro _ _ _ _; trivial
  | dpanic => intro _ _ _ _; trivial
  | readBits n k ih => intro _ _ _ hp; exact hp
  | readUnary k ih => intro _ _ _ hp; exact hp
  | peek n k ih =>
    intro c c' h hp
    exact ⟨hp.1, hp.2.1, fun x => ih (.error x) h (hp.2.2 x)⟩
  | skipAfterPeek n k ih =>
    intro c c' h hp
    exact ⟨Nat.le_trans hp.1 h, ih (Nat.sub_le_sub_right h n) hp.2⟩
  | skip n k ih => intro _ _ _ hp; exact hp

theorem peekBounded_bind {α β : Type} {W : Nat} (p : RProg α) (f : α → RProg β)
    (hf : ∀ a, PeekBounded W 0 (f a)) : ∀ {c : Nat}, PeekBounded W c p → PeekBounded W c (p.bind f) := by
  induction p with
  | ret a => intro c _; exact peekBounded_mono (f a) (Nat.zero_le c) (hf a)
  | fail x => intro _ _; trivial
  | panic => intro _ _; trivial
  | dpanic => intro _ _; trivial
  | readBits n k ih => intro c hp v; exact ih v (hp v)
  | readUnary k ih => intro c hp v; exact ih v (hp v)
  | peek n k ih =>
    intro c hp
    exact ⟨hp.1, fun v => ih (.ok v) (hp.2.1 v), fun x => ih (.error x) (hp.2.2 x)⟩
  | skipAfterPeek n k ih => intro c hp; exact ⟨hp.1, ih hp.2⟩
  | skip n k ih => intro c hp; exact ih hp

theorem pb_rbits (W n : Nat) : PeekBounded W 0 (RProg.rbits n) := fun _ => trivial

theorem pb_gamma (W : Nat) : PeekBounded W 0 readGammaDefault := by
  intro len
  by_cases h : len ≥ 64
  · simp only [h, if_true]; trivial
  · simp only [h, if_false]; intro v; trivial

theorem pb_delta (W : Nat) : PeekBounded W 0 (readDeltaDefault none) := by
  unfold readDeltaDefault
  refine peekBounded_bind _ _ ?_ (pb_gamma W)
  intro len
  by_cases h : len ≥ 64
  · simp only [h, if_true]; trivial
  · simp only [h, if_false]; intro v; trivial

theorem pb_minbin (W max : Nat) : PeekBounded W 0 (readMinimalBinary max) := by
  unfold readMinimalBinary
  by_cases h : max = 0
  · rw [if_pos h, PeekBounded]; trivial
  · rw [if_neg h]
    dsimp only
    rw [PeekBounded]
    intro p
    by_cases h1 : p < mbLimit max
    · rw [if_pos h1, PeekBounded]; trivial
    · rw [if_neg h1, PeekBounded]
      intro b
      split
      · rw [PeekBounded]; trivial
      · rw [PeekBounded]; trivial

theorem pb_zeta (W k : Nat) : PeekBounded W 0 (readZetaDefault k) := by
  intro h
  by_cases h1 : h * k ≥ 64 ∨ k ≥ 64
  · simp only [h1, if_true]; trivial
  · simp only [h1, if_false]
    refine peekBounded_bind _ _ ?_ (pb_minbin W _)
    intro res
    split <;> trivial

theorem pb_omegaLoop (e : Endian) {W : Nat} (hW : 1 ≤ W) (fuel : Nat) :
    ∀ n, PeekBounded W 0 (omegaReadLoop e fuel n) := by
  induction fuel with
  | zero => intro n; trivial
  | succ f ih =>
    intro n
    refine ⟨hW, ?_, fun x => trivial⟩
    intro bit
    show PeekBounded W 1 (if bit = 0 then _ else _)
    by_cases hb : bit = 0
    · simp only [hb, if_true]; exact ⟨Nat.le_refl 1, trivial⟩
    · simp only [hb, if_false]
      by_cases hn : n ≥ 64
      · simp only [hn, if_true]; trivial
      · simp only [hn, if_false]
        intro v
        exact ih _

theorem pb_omega (e : Endian) {W : Nat} (hW : 1 ≤ W) : PeekBounded W 0 (readOmega e) :=
  pb_omegaLoop e hW 8 1

/-! ### `BitR.ProgOK` -/

theorem progOK_mono {α : Type} (p : RProg α) :
    ∀ {c c' : Nat}, c ≤ c' → BitR.ProgOK c p → BitR.ProgOK c' p := by
  induction p with
  | ret a => intro _ _ _ _; trivial
  | fail x => intro _ _ _ _; trivial
  | panic => intro _ _ _ _; trivial
  | dpanic => intro _ _ _ _; trivial
  | readBits n k ih => intro _ _ _ hp; exact hp
  | readUnary k ih => intro _ _ _ hp; exact hp
  | peek n k ih =>
    intro c c' h hp
    exact ⟨hp.1, hp.2.1, hp.2.2.1, fun x => ih (.error x) h (hp.2.2.2 x)⟩
  | skipAfterPeek n k ih =>
    intro c c' h hp
    exact ⟨Nat.le_trans hp.1 h, ih (Nat.sub_le_sub_right h n) hp.2⟩
  | skip n k ih => intro _ _ _ hp; exact hp

theorem progOK_bind {α β : Type} (p : RProg α) (f : α → RProg β)
    (hf : ∀ a, BitR.ProgOK 0 (f a)) : ∀ {c : Nat}, BitR.ProgOK c p → BitR.ProgOK c (p.bind f) := by
  induction p with
  | ret a => intro c _; exact progOK_mono (f a) (Nat.zero_le c) (hf a)
  | fail x => intro _ _; trivial
  | panic => intro _ _; trivial
  | dpanic => intro _ _; trivial
  | readBits n k ih => intro c hp; exact ⟨hp.1, fun v => ih v (hp.2 v)⟩
  | readUnary k ih => intro c hp v; exact ih v (hp v)
  | peek n k ih =>
    intro c hp
    exact ⟨hp.1, hp.2.1, fun v => ih (.ok v) (hp.2.2.1 v), fun x => ih (.error x) (hp.2.2.2 x)⟩
  | skipAfterPeek n k ih => intro c hp; exact ⟨hp.1, ih hp.2⟩
  | skip n k ih => intro c hp; exact ih hp

theorem ok_rbits {n : Nat} (hn : n ≤ 64) : BitR.ProgOK 0 (RProg.rbits n) := ⟨hn, fun _ => trivial⟩

theorem ok_gamma : BitR.ProgOK 0 readGammaDefault := by
  intro len
  by_cases h : len ≥ 64
  · simp only [h, if_true]; trivial
  · simp only [h, if_false]; exact ⟨by omega, fun v => trivial⟩

theorem ok_delta : BitR.ProgOK 0 (readDeltaDefault none) := by
  unfold readDeltaDefault
  refine progOK_bind _ _ ?_ ok_gamma
  intro len
  by_cases h : len ≥ 64
  · simp only [h, if_true]; trivial
  · simp only [h, if_false]; exact ⟨by omega, fun v => trivial⟩

theorem ok_minbin {max : Nat} (hmax : max < 2 ^ 64) : BitR.ProgOK 0 (readMinimalBinary max) := by
  unfold readMinimalBinary
  by_cases h : max = 0
  · rw [if_pos h, BitR.ProgOK]; trivial
  · rw [if_neg h]
    dsimp only
    have hl : max.log2 < 64 := (Nat.log2_lt h).2 hmax
    rw [BitR.ProgOK]
    refine ⟨by omega, ?_⟩
    intro p
    by_cases h1 : p < mbLimit max
    · rw [if_pos h1, BitR.ProgOK]; trivial
    · rw [if_neg h1, BitR.ProgOK]
      refine ⟨by decide, ?_⟩
      intro b
      split
      · rw [BitR.ProgOK]; trivial
      · rw [BitR.ProgOK]; trivial

theorem zetaU_lt (h k : Nat) : zetaU h k < 2 ^ 64 := by
  unfold zetaU wsub64
  exact Nat.mod_lt _ (by decide)

theorem ok_zeta (k : Nat) : BitR.ProgOK 0 (readZetaDefault k) := by
  intro h
  by_cases h1 : h * k ≥ 64 ∨ k ≥ 64
  · simp only [h1, if_true]; trivial
  · simp only [h1, if_false]
    refine progOK_bind _ _ ?_ (ok_minbin (zetaU_lt h k))
    intro res
    split <;> trivial

theorem ok_omegaLoop (e : Endian) (fuel : Nat) : ∀ n, BitR.ProgOK 0 (omegaReadLoop e fuel n) := by
  induction fuel with
  | zero => intro n; trivial
  | succ f ih =>
    intro n
    refine ⟨Nat.le_refl 1, by decide, ?_, fun x => trivial⟩
    intro bit
    show BitR.ProgOK 1 (if bit = 0 then _ else _)
    by_cases hb : bit = 0
    · simp only [hb, if_true]; exact ⟨Nat.le_refl 1, trivial⟩
    · simp only [hb, if_false]
      by_cases hn : n ≥ 64
      · simp only [hn, if_true]; trivial
      · simp only [hn, if_false]
        exact ⟨by omega, fun v => ih _⟩

theorem ok_omega (e : Endian) : BitR.ProgOK 0 (readOmega e) := ok_omegaLoop e 8 1

/-! ### `BitR.NoSkip` -/

theorem noSkip_bind {α β : Type} (p : RProg α) (f : α → RProg β) (hf : ∀ a, BitR.NoSkip (f a)) :
    BitR.NoSkip p → BitR.NoSkip (p.bind f) := by
  induction p with
  | ret a => intro _; exact hf a
  | fail x => intro _; trivial
  | panic => intro _; trivial
  | dpanic => intro _; trivial
  | readBits n k ih => intro hp v; exact ih v (hp v)
  | readUnary k ih => intro hp v; exact ih v (hp v)
  | peek n k ih => intro hp v; exact ih v (hp v)
  | skipAfterPeek n k ih => intro hp; exact ih hp
  | skip n k ih => intro hp; exact hp.elim

theorem ns_rbits (n : Nat) : BitR.NoSkip (RProg.rbits n) := fun _ => trivial

theorem ns_gamma : BitR.NoSkip readGammaDefault := by
  intro len
  by_cases h : len ≥ 64
  · simp only [h, if_true]; trivial
  · simp only [h, if_false]; intro v; trivial

theorem ns_delta : BitR.NoSkip (readDeltaDefault none) := by
  unfold readDeltaDefault
  refine noSkip_bind _ _ ?_ ns_gamma
  intro len
  by_cases h : len ≥ 64
  · simp only [h, if_true]; trivial
  · simp only [h, if_false]; intro v; trivial

theorem ns_minbin (max : Nat) : BitR.NoSkip (readMinimalBinary max) := by
  unfold readMinimalBinary
  by_cases h : max = 0
  · rw [if_pos h, BitR.NoSkip]; trivial
  · rw [if_neg h]
    dsimp only
    rw [BitR.NoSkip]
    intro p
    by_cases h1 : p < mbLimit max
    · rw [if_pos h1, BitR.NoSkip]; trivial
    · rw [if_neg h1, BitR.NoSkip]
      intro b
      split
      · rw [BitR.NoSkip]; trivial
      · rw [BitR.NoSkip]; trivial

theorem ns_zeta (k : Nat) : BitR.NoSkip (readZetaDefault k) := by
  intro h
  by_cases h1 : h * k ≥ 64 ∨ k ≥ 64
  · simp only [h1, if_true]; trivial
  · simp only [h1, if_false]
    refine noSkip_bind _ _ ?_ (ns_minbin _)
    intro res
    split <;> trivial

theorem ns_omegaLoop (e : Endian) (fuel : Nat) : ∀ n, BitR.NoSkip (omegaReadLoop e fuel n) := by
  induction fuel with
  | zero => intro n; trivial
  | succ f ih =>
    intro n x
    cases x with
    | error er => trivial
    | ok bit =>
      show BitR.NoSkip (if bit = 0 then _ else _)
      by_cases hb : bit = 0
      · simp only [hb, if_true]; trivial
      · simp only [hb, if_false]
        by_cases hn : n ≥ 64
        · simp only [hn, if_true]; trivial
        · simp only [hn, if_false]
          intro v
          exact ih _

theorem ns_omega (e : Endian) : BitR.NoSkip (readOmega e) := ns_omegaLoop e 8 1

end E2E
end Dsi
