/-
  Side conditions of the reader simulations, for every code reader of `Dsi.Codes` / `Dsi.Defaults`:
  `RSide K p` packs `PeekBounded W 0 p` for every `W ≥ K` (buffered reader), `BitR.ProgOK 0 p` when
  `K ≤ 32` and `BitR.NoSkip p` (unbuffered reader).  `K` is the widest look-ahead of `p`.

  * programs without look-ahead and without `skip` whose reads are of at most 64 bits (`Simple`)
    satisfy `RSide K` for every `K`;
  * `RSide` is closed under `bind`, `if`, and the table-reader shape (`readTable`), provided the
    table never asks to skip more than it peeked (`LensOK`, a kernel evaluation on the generated
    tables).
-/
import Dsi.Lemmas.EndToEndProgs
import Dsi.Props.Equiv
import Dsi.Props.Writer
namespace Dsi.TrL
open Dsi Dsi.E2E Gen

/-! ### simple programs -/

/-- no `peek`, `skipAfterPeek`, `skip`; every `readBits` of at most 64 bits -/
def Simple {α : Type} : RProg α → Prop
  | .ret _ => True
  | .fail _ => True
  | .panic => True
  | .dpanic => True
  | .readBits n k => n ≤ 64 ∧ ∀ v, Simple (k v)
  | .readUnary k => ∀ v, Simple (k v)
  | .peek _ _ => False
  | .skipAfterPeek _ _ => False
  | .skip _ _ => False

theorem Simple.ret {α : Type} (a : α) : Simple (RProg.ret a) := trivial
theorem Simple.dpanic {α : Type} : Simple (RProg.dpanic : RProg α) := trivial
theorem Simple.panic {α : Type} : Simple (RProg.panic : RProg α) := trivial
theorem Simple.readBits {α : Type} {n : Nat} {k : Nat → RProg α} (hn : n ≤ 64)
    (hk : ∀ v, Simple (k v)) : Simple (RProg.readBits n k) := ⟨hn, hk⟩
theorem Simple.readUnary {α : Type} {k : Nat → RProg α} (hk : ∀ v, Simple (k v)) :
    Simple (RProg.readUnary k) := hk

theorem Simple.ite {α : Type} {c : Prop} [Decidable c] {p q : RProg α} (hp : c → Simple p)
    (hq : ¬ c → Simple q) : Simple (if c then p else q) := by
  split
  · exact hp ‹_›
  · exact hq ‹_›

theorem Simple.bind {α β : Type} {p : RProg α} {f : α → RProg β} (hp : Simple p)
    (hf : ∀ a, Simple (f a)) : Simple (p.bind f) := by
  induction p with
  | ret a => exact hf a
  | fail e => trivial
  | panic => trivial
  | dpanic => trivial
  | readBits n k ih => exact ⟨hp.1, fun v => ih v (hp.2 v)⟩
  | readUnary k ih => intro v; exact ih v (hp v)
  | peek n k _ => exact hp.elim
  | skipAfterPeek n k _ => exact hp.elim
  | skip n k _ => exact hp.elim

theorem Simple.peekBounded {α : Type} (W : Nat) (p : RProg α) (hp : Simple p) :
    ∀ c, PeekBounded W c p := by
  induction p with
  | ret a => intro _; trivial
  | fail e => intro _; trivial
  | panic => intro _; trivial
  | dpanic => intro _; trivial
  | readBits n k ih => intro _ v; exact ih v (hp.2 v) 0
  | readUnary k ih => intro _ v; exact ih v (hp v) 0
  | peek n k _ => exact hp.elim
  | skipAfterPeek n k _ => exact hp.elim
  | skip n k _ => exact hp.elim

theorem Simple.progOK {α : Type} (p : RProg α) (hp : Simple p) : ∀ c, BitR.ProgOK c p := by
  induction p with
  | ret a => intro _; trivial
  | fail e => intro _; trivial
  | panic => intro _; trivial
  | dpanic => intro _; trivial
  | readBits n k ih => intro _; exact ⟨hp.1, fun v => ih v (hp.2 v) 0⟩
  | readUnary k ih => intro _ v; exact ih v (hp v) 0
  | peek n k _ => exact hp.elim
  | skipAfterPeek n k _ => exact hp.elim
  | skip n k _ => exact hp.elim

theorem Simple.noSkip {α : Type} (p : RProg α) (hp : Simple p) : BitR.NoSkip p := by
  induction p with
  | ret a => trivial
  | fail e => trivial
  | panic => trivial
  | dpanic => trivial
  | readBits n k ih => intro v; exact ih v (hp.2 v)
  | readUnary k ih => intro v; exact ih v (hp v)
  | peek n k _ => exact hp.elim
  | skipAfterPeek n k _ => exact hp.elim
  | skip n k _ => exact hp.elim

/-! ### the code readers without look-ahead -/

theorem simple_unary : Simple readUnaryC := fun _ => trivial

theorem simple_tail (len : Nat) :
    Simple (if len ≥ 64 then RProg.dpanic else RProg.readBits len fun v => RProg.ret (v + 2 ^ len - 1)) :=
  Simple.ite (fun _ => trivial) (fun h => ⟨by omega, fun _ => trivial⟩)

theorem simple_gamma : Simple readGammaDefault := fun len => simple_tail len

theorem simple_delta : Simple (readDeltaDefault none) := Simple.bind simple_gamma simple_tail

theorem simple_minbin {max : Nat} (hmax : max < 2 ^ 64) : Simple (readMinimalBinary max) := by
  unfold readMinimalBinary
  refine Simple.ite (fun _ => trivial) (fun h0 => ?_)
  have hl : max.log2 < 64 := (Nat.log2_lt h0).2 hmax
  refine Simple.readBits (by omega) (fun p => ?_)
  refine Simple.ite (fun _ => trivial) (fun _ => ?_)
  refine Simple.readBits (by decide) (fun b => ?_)
  exact Simple.ite (fun _ => trivial) (fun _ => trivial)

theorem simple_zeta (k : Nat) : Simple (readZetaDefault k) := by
  unfold readZetaDefault
  refine Simple.readUnary (fun h => ?_)
  refine Simple.ite (fun _ => trivial) (fun _ => ?_)
  refine Simple.bind (simple_minbin (zetaU_lt h k)) (fun res => ?_)
  exact Simple.ite (fun _ => trivial) (fun _ => trivial)

theorem simple_rice (k : Nat) : Simple (readRice k) := by
  unfold readRice
  refine Simple.ite (fun _ => trivial) (fun hk => ?_)
  refine Simple.readUnary (fun u => ?_)
  refine Simple.readBits (by omega) (fun v => ?_)
  exact Simple.ite (fun _ => trivial) (fun _ => trivial)

theorem simple_pi (k : Nat) : Simple (readPi k) := by
  unfold readPi
  refine Simple.bind (simple_rice k) (fun lam => ?_)
  exact Simple.ite (fun _ => trivial) (fun h => ⟨by omega, fun _ => trivial⟩)

theorem simple_golomb {b : Nat} (hb : b < 2 ^ 64) : Simple (readGolomb b) := by
  unfold readGolomb
  refine Simple.readUnary (fun u => ?_)
  refine Simple.bind (simple_minbin hb) (fun r => ?_)
  exact Simple.ite (fun _ => trivial) (fun _ => trivial)

theorem simple_expGolomb (k : Nat) : Simple (readExpGolomb none k) := by
  unfold readExpGolomb
  refine Simple.ite (fun _ => trivial) (fun hk => ?_)
  refine Simple.bind simple_gamma (fun g => ?_)
  refine Simple.readBits (by omega) (fun v => ?_)
  exact Simple.ite (fun _ => trivial) (fun _ => trivial)

theorem simple_vbyteBeLoop : ∀ (fuel value byte : Nat), Simple (vbyteBeReadLoop fuel value byte)
  | 0, _, _ => trivial
  | fuel + 1, value, byte => by
    unfold vbyteBeReadLoop
    refine Simple.ite (fun _ => trivial) (fun _ => ?_)
    refine Simple.ite (fun _ => trivial) (fun _ => ?_)
    exact Simple.readBits (by decide) (fun b => simple_vbyteBeLoop fuel _ _)

theorem simple_vbyteBe (fuel : Nat) : Simple (readVByteBe fuel) :=
  Simple.readBits (by decide) (fun b => simple_vbyteBeLoop fuel _ _)

theorem simple_vbyteLeLoop : ∀ (fuel result shift : Nat), Simple (vbyteLeReadLoop fuel result shift)
  | 0, _, _ => trivial
  | fuel + 1, result, shift => by
    unfold vbyteLeReadLoop
    refine Simple.ite (fun _ => trivial) (fun _ => ?_)
    refine Simple.readBits (by decide) (fun b => ?_)
    refine Simple.ite (fun _ => trivial) (fun _ => ?_)
    refine Simple.ite (fun _ => trivial) (fun _ => ?_)
    exact Simple.ite (fun _ => trivial) (fun _ => simple_vbyteLeLoop fuel _ _)

theorem simple_vbyteLe (fuel : Nat) : Simple (readVByteLe fuel) := simple_vbyteLeLoop fuel 0 0

/-! ### the packed side conditions -/

/-- the side conditions of `rprog_sim` (for every word size `W ≥ K`) and of `bitr_rprog_sim`
    (when `K ≤ 32`) -/
structure RSide {α : Type} (K : Nat) (p : RProg α) : Prop where
  pb : ∀ W, K ≤ W → PeekBounded W 0 p
  ok : K ≤ 32 → BitR.ProgOK 0 p
  ns : BitR.NoSkip p

theorem RSide.of_simple {α : Type} {p : RProg α} (hp : Simple p) (K : Nat) : RSide K p :=
  ⟨fun W _ => hp.peekBounded W p 0, fun _ => hp.progOK p 0, hp.noSkip p⟩

theorem RSide.mono {α : Type} {p : RProg α} {K K' : Nat} (h : RSide K p) (hK : K ≤ K') : RSide K' p :=
  ⟨fun W hW => h.pb W (Nat.le_trans hK hW), fun h32 => h.ok (Nat.le_trans hK h32), h.ns⟩

theorem RSide.bind {α β : Type} {K : Nat} {p : RProg α} {f : α → RProg β} (hp : RSide K p)
    (hf : ∀ a, RSide K (f a)) : RSide K (p.bind f) :=
  ⟨fun W hW => peekBounded_bind p f (fun a => (hf a).pb W hW) (hp.pb W hW),
   fun h32 => progOK_bind p f (fun a => (hf a).ok h32) (hp.ok h32),
   noSkip_bind p f (fun a => (hf a).ns) hp.ns⟩

theorem RSide.ite {α : Type} {K : Nat} {c : Prop} [Decidable c] {p q : RProg α} (hp : c → RSide K p)
    (hq : ¬ c → RSide K q) : RSide K (if c then p else q) := by
  split
  · exact hp ‹_›
  · exact hq ‹_›

theorem rside_omega (e : Endian) : RSide 1 (readOmega e) :=
  ⟨fun _ hW => pb_omega e hW, fun _ => ok_omega e, ns_omega e⟩

/-! ### table readers -/

/-- a hit never asks to skip more bits than were peeked -/
def LensOK (t : RTab) : Prop :=
  ∀ (idx l : Nat), t.lens[idx]? = some l → l ≠ t.missing → l ≤ t.readBits

theorem lensOK_of_all (t : RTab)
    (h : t.lens.toList.all (fun l => l == t.missing || decide (l ≤ t.readBits)) = true) : LensOK t := by
  intro idx l hl hne
  have hmem : l ∈ t.lens.toList := by
    rw [Array.mem_toList_iff]
    exact Array.mem_of_getElem? hl
  have := List.all_eq_true.1 h l hmem
  simp only [Bool.or_eq_true, beq_iff_eq, decide_eq_true_eq] at this
  rcases this with h1 | h1
  · exact absurd h1 hne
  · exact h1

theorem rside_readTable {K : Nat} (t : RTab) (fb : RProg Nat) (h1 : 1 ≤ t.readBits)
    (hK : t.readBits ≤ K) (hl : LensOK t) (hfb : RSide K fb) : RSide K (readTable t fb) := by
  refine ⟨fun W hW => ?_, fun h32 => ?_, ?_⟩
  · unfold readTable
    rw [PeekBounded]
    refine ⟨Nat.le_trans hK hW, fun idx => ?_, fun x => hfb.pb W hW⟩
    dsimp only
    split
    · rename_i len v hlen hv
      split
      · rename_i hne
        rw [PeekBounded]
        exact ⟨hl idx len hlen hne, trivial⟩
      · exact peekBounded_mono fb (Nat.zero_le _) (hfb.pb W hW)
    · trivial
  · unfold readTable
    rw [BitR.ProgOK]
    refine ⟨h1, Nat.le_trans hK h32, fun idx => ?_, fun x => hfb.ok h32⟩
    dsimp only
    split
    · rename_i len v hlen hv
      split
      · rename_i hne
        rw [BitR.ProgOK]
        exact ⟨hl idx len hlen hne, trivial⟩
      · exact progOK_mono fb (Nat.zero_le _) (hfb.ok h32)
    · trivial
  · unfold readTable
    rw [BitR.NoSkip]
    intro x
    cases x with
    | error er => exact hfb.ns
    | ok idx =>
      dsimp only
      split
      · split
        · trivial
        · exact hfb.ns
      · trivial

/-! ### the generated tables -/

theorem lensOK_gamma (e : Endian) : LensOK (gammaRTab e) := by
  cases e <;> exact lensOK_of_all _ (by decide +kernel)

theorem lensOK_delta (e : Endian) : LensOK (deltaRTab e) := by
  cases e <;> exact lensOK_of_all _ (by decide +kernel)

theorem lensOK_zeta (e : Endian) : LensOK (zetaRTab e) := by
  cases e <;> exact lensOK_of_all _ (by decide +kernel)

theorem gammaRTab_rb (e : Endian) : (gammaRTab e).readBits = Gamma.READ_BITS := by cases e <;> rfl
theorem deltaRTab_rb (e : Endian) : (deltaRTab e).readBits = Delta.READ_BITS := by cases e <;> rfl
theorem zetaRTab_rb (e : Endian) : (zetaRTab e).readBits = Zeta.READ_BITS := by cases e <;> rfl

/-! ### γ, δ, ζ₃ with any table selection -/

/-- the look-ahead a flag-selected table needs -/
def need (t : Bool) (rb : Nat) : Nat := if t then rb else 0

theorem rside_gammaP (e : Endian) (t : Bool) : RSide (need t Gamma.READ_BITS) (readGammaP e t) := by
  cases t with
  | false => exact RSide.of_simple simple_gamma _
  | true =>
    exact rside_readTable _ _ (by rw [gammaRTab_rb]; decide) (by rw [gammaRTab_rb]; exact Nat.le_refl _)
      (lensOK_gamma e) (RSide.of_simple simple_gamma _)

theorem rside_gamma_opt (e : Endian) (t : Bool) :
    RSide (need t Gamma.READ_BITS) (readGamma (opt t (gammaRTab e))) := rside_gammaP e t

theorem rside_deltaDefault (e : Endian) (tg : Bool) :
    RSide (need tg Gamma.READ_BITS) (readDeltaDefault (opt tg (gammaRTab e))) := by
  unfold readDeltaDefault
  exact RSide.bind (rside_gamma_opt e tg) (fun len => RSide.of_simple (simple_tail len) _)

theorem rside_deltaP (e : Endian) (td tg : Bool) :
    RSide (max (need td Delta.READ_BITS) (need tg Gamma.READ_BITS)) (readDeltaP e td tg) := by
  cases td with
  | false => exact (rside_deltaDefault e tg).mono (Nat.le_max_right _ _)
  | true =>
    exact rside_readTable _ _ (by rw [deltaRTab_rb]; decide)
      (by rw [deltaRTab_rb]; exact Nat.le_max_left _ _) (lensOK_delta e)
      ((rside_deltaDefault e tg).mono (Nat.le_max_right _ _))

theorem rside_zeta3P (e : Endian) (t : Bool) : RSide (need t Zeta.READ_BITS) (readZeta3P e t) := by
  cases t with
  | false => exact RSide.of_simple (simple_zeta 3) _
  | true =>
    exact rside_readTable _ _ (by rw [zetaRTab_rb]; decide) (by rw [zetaRTab_rb]; exact Nat.le_refl _)
      (lensOK_zeta e) (RSide.of_simple (simple_zeta 3) _)

theorem rside_expGolomb_opt (e : Endian) (t : Bool) (k : Nat) :
    RSide (need t Gamma.READ_BITS) (readExpGolomb (opt t (gammaRTab e)) k) := by
  unfold readExpGolomb
  refine RSide.ite (fun _ => RSide.of_simple Simple.dpanic _) (fun hk => ?_)
  refine RSide.bind (rside_gamma_opt e t) (fun g => RSide.of_simple ?_ _)
  refine Simple.readBits (by omega) (fun v => ?_)
  exact Simple.ite (fun _ => trivial) (fun _ => trivial)

theorem need_le (t : Bool) {rb K : Nat} (h : rb ≤ K) : need t rb ≤ K := by
  cases t
  · exact Nat.zero_le _
  · exact h

/-- the parameterless default methods: all within the widest table index -/
theorem rside_gammaD (e : Endian) : RSide tablePeek (readGammaD e) :=
  (rside_gammaP e _).mono (need_le _ gamma_le_tablePeek)
theorem rside_deltaD (e : Endian) : RSide tablePeek (readDeltaD e) :=
  (rside_deltaP e _ _).mono (Nat.max_le.2 ⟨need_le _ delta_le_tablePeek, need_le _ gamma_le_tablePeek⟩)
theorem rside_zeta3D (e : Endian) : RSide tablePeek (readZeta3D e) :=
  (rside_zeta3P e _).mono (need_le _ zeta_le_tablePeek)
theorem rside_expGolombD (e : Endian) (k : Nat) : RSide tablePeek (readExpGolombD e k) :=
  (rside_expGolomb_opt e _ k).mono (need_le _ gamma_le_tablePeek)

/-- the own reader program of every code (`Dsi/Glue/Dispatch.lean`) -/
theorem rside_ownRead (e : Endian) (c : CodeId) {v : Nat} (hd : c.Dom v) :
    RSide tablePeek (ownRead e c) := by
  obtain ⟨fam, p⟩ := c
  cases fam
  case unary => exact RSide.of_simple simple_unary _
  case gamma => exact rside_gammaD e
  case delta => exact rside_deltaD e
  case omega => exact (rside_omega e).mono one_le_tablePeek
  case vbyteBe => exact RSide.of_simple (simple_vbyteBe _) _
  case vbyteLe => exact RSide.of_simple (simple_vbyteLe _) _
  case zeta => exact RSide.of_simple (simple_zeta p) _
  case pi => exact RSide.of_simple (simple_pi p) _
  case golomb =>
    have hb : p < 2 ^ 64 := hd.2.1
    exact RSide.of_simple (simple_golomb hb) _
  case expGolomb => exact rside_expGolombD e p
  case rice => exact RSide.of_simple (simple_rice p) _

/-- the program a read dispatcher arm runs -/
theorem rside_callRead (e : Endian) (call : Call) (bound : Option Nat) {p : RProg Nat}
    {want : CodeId} {v : Nat} (hp : callRead e call bound = some p)
    (hok : semOk .read call bound want = true) (hd : want.Dom v) : RSide tablePeek p := by
  unfold semOk at hok
  cases hs : semCall .read call bound with
  | none => rw [hs] at hok; cases hok
  | some got =>
    rw [hs] at hok
    have heq : got.equiv want = true := hok
    have hdg : got.Dom v := (equiv_dom heq v).2 hd
    rw [callRead_sem e call bound got hs] at hp
    have hp' := Option.some.inj hp
    by_cases hz : isZeta3Call call = true
    · rw [if_pos hz] at hp'
      subst hp'
      exact rside_zeta3D e
    · rw [if_neg hz] at hp'
      subst hp'
      exact rside_ownRead e got hdg

/-! ### two concrete runs related to the same reference run -/

theorem join_reader {α : Type} {W : Nat} {e : Endian} {x y : Res (α × BufR W)} {z : Res (α × RefR)}
    (hx : ResRel (fun a b => a.1 = b.1 ∧ BufR.Rel e a.2 b.2) x z)
    (hy : ResRel (fun a b => a.1 = b.1 ∧ BufR.Rel e a.2 b.2) y z) :
    ResRel (fun a b => a.1 = b.1 ∧ ∃ r', BufR.Rel e a.2 r' ∧ BufR.Rel e b.2 r') x y := by
  cases x <;> cases y <;> cases z <;> simp only [ResRel] at hx hy ⊢
  · exact ⟨hx.1.trans hy.1.symm, _, hx.2, hy.2⟩
  · exact hx.trans hy.symm

theorem join_writer {α : Type} {W : Nat} {e : Endian} {x y : Res (α × BufW W)} {z : Res (α × RefW)}
    (hx : ResRel (fun a b => a.1 = b.1 ∧ BufW.RelC e a.2 b.2) x z)
    (hy : ResRel (fun a b => a.1 = b.1 ∧ BufW.RelC e a.2 b.2) y z) :
    ResRel (fun a b => a.1 = b.1 ∧ a.2.abs e = b.2.abs e ∧
      ∃ w', BufW.RelC e a.2 w' ∧ BufW.RelC e b.2 w') x y := by
  cases x <;> cases y <;> cases z <;> simp only [ResRel] at hx hy ⊢
  · refine ⟨hx.1.trans hy.1.symm, ?_, _, hx.2, hy.2⟩
    have h1 := hx.2.1.2.2.2.2.2
    have h2 := hy.2.1.2.2.2.2.2
    rw [← h1, ← h2]
  · exact hx.trans hy.symm

end Dsi.TrL
