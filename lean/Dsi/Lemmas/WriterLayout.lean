/-
  Canonical byte layout (C01) of delivered words: `layout` of the bits of a list of words is the
  list of their bytes in memory order.
-/
import Dsi.Lemmas.WriterWord
namespace Dsi

theorem natLE_fieldLE (v n : Nat) : natLE (fieldLE v n) = v % 2 ^ n := by
  induction n generalizing v with
  | zero => simp [fieldLE, natLE, Nat.mod_one]
  | succ n ih =>
    simp only [fieldLE, natLE, ih]
    rw [Nat.pow_succ', Nat.mod_mul]
    congr 1
    rcases Nat.mod_two_eq_zero_or_one v with h | h <;> simp [h]

theorem testBit_natLE (l : List Bool) (i : Nat) : (natLE l).testBit i = l.getD i false := by
  induction l generalizing i with
  | nil => simp [natLE]
  | cons b bs ih =>
    cases i with
    | zero =>
      simp only [natLE, Nat.testBit_zero, List.getD_cons_zero]
      cases b <;> simp <;> omega
    | succ i =>
      simp only [natLE, Nat.testBit_succ, List.getD_cons_succ]
      rw [← ih]
      congr 1
      cases b <;> simp <;> omega

@[simp] theorem takeZ_length (n : Nat) (l : List Bool) : (takeZ n l).length = n := by
  induction n generalizing l with
  | zero => rfl
  | succ n ih => cases l <;> simp [takeZ, ih]

theorem takeZ_append_left_wr (a rest : List Bool) : takeZ a.length (a ++ rest) = a := by
  induction a with
  | nil => rfl
  | cons b a ih => simp [takeZ, ih]

theorem getD_takeZ (n : Nat) (l : List Bool) (i : Nat) (h : i < n) :
    (takeZ n l).getD i false = l.getD i false := by
  induction n generalizing l i with
  | zero => omega
  | succ n ih =>
    cases l with
    | nil =>
      cases i with
      | zero => simp [takeZ]
      | succ i => simp only [takeZ, List.getD_cons_succ]; rw [ih _ _ (by omega)]; simp
    | cons b bs =>
      cases i with
      | zero => simp [takeZ]
      | succ i => simp only [takeZ, List.getD_cons_succ]; rw [ih _ _ (by omega)]

theorem layoutAux_fuel (e : Endian) (f1 f2 : Nat) (bs : List Bool) (h1 : bs.length ≤ f1)
    (h2 : bs.length ≤ f2) : layoutAux e f1 bs = layoutAux e f2 bs := by
  induction f1 generalizing f2 bs with
  | zero =>
    have : bs = [] := List.eq_nil_of_length_eq_zero (by omega)
    subst this
    cases f2 <;> simp [layoutAux]
  | succ f1 ih =>
    cases bs with
    | nil => cases f2 <;> simp [layoutAux]
    | cons b t =>
      cases f2 with
      | zero => simp at h2
      | succ f2 =>
        simp only [layoutAux, List.isEmpty_cons, Bool.false_eq_true, if_false]
        congr 1
        apply ih <;> simp only [List.length_drop, List.length_cons] at * <;> omega

theorem layout_unfold (e : Endian) (b : Bool) (t : List Bool) :
    layout e (b :: t) = byteOfBits e (b :: t) :: layout e ((b :: t).drop 8) := by
  simp only [layout, List.length_cons, layoutAux, List.isEmpty_cons, Bool.false_eq_true, if_false]
  congr 1
  apply layoutAux_fuel <;> simp only [List.length_drop, List.length_cons] <;> omega

theorem layout_nil (e : Endian) : layout e [] = [] := rfl

/-- a full byte at the front of the stream is the first byte of the layout -/
theorem layout_chunk (e : Endian) (a rest : List Bool) (ha : a.length = 8) :
    layout e (a ++ rest) = bitsVal e a :: layout e rest := by
  cases a with
  | nil => simp at ha
  | cons b t =>
    rw [List.cons_append, layout_unfold, ← List.cons_append]
    congr 1
    · rw [byteOfBits, ← ha, takeZ_append_left_wr]
    · rw [← ha, List.drop_left]

theorem byte_le (x : Nat) : bitsVal .le (fieldBits .le x 8) = x % 256 := by
  simp [bitsVal, fieldBits, natLE_fieldLE]

theorem byte_be (x : Nat) : bitsVal .be (fieldBits .be x 8) = x % 256 := by
  simp [bitsVal, fieldBits, natLE_fieldLE]

theorem layout_field_le (m x : Nat) (rest : List Bool) :
    layout .le (fieldBits .le x (8 * m) ++ rest)
      = (List.range m).map (fun i => x / 2 ^ (8 * i) % 256) ++ layout .le rest := by
  induction m generalizing x with
  | zero => simp [fieldBits, fieldLE]
  | succ m ih =>
    simp only [fieldBits] at ih ⊢
    rw [fieldLE_cut x (n := 8 * (m + 1)) (a := 8) (by omega), List.append_assoc,
      layout_chunk _ _ _ (by simp), show 8 * (m + 1) - 8 = 8 * m by omega, ih,
      List.range_succ_eq_map, List.map_cons, List.map_map]
    have := byte_le x
    simp only [fieldBits] at this
    rw [this]
    simp only [Nat.mul_zero, Nat.pow_zero, Nat.div_one, List.cons_append, List.cons.injEq,
      true_and]
    congr 1
    apply List.map_congr_left
    intro i _
    simp only [Function.comp, Nat.succ_eq_add_one]
    rw [Nat.div_div_eq_div_mul, ← Nat.pow_add, Nat.mul_add, Nat.mul_one, Nat.add_comm]

theorem layout_field_be (m x : Nat) (rest : List Bool) :
    layout .be (fieldBits .be x (8 * m) ++ rest)
      = ((List.range m).map (fun i => x / 2 ^ (8 * i) % 256)).reverse ++ layout .be rest := by
  induction m generalizing rest with
  | zero => simp [fieldBits, fieldLE]
  | succ m ih =>
    rw [fieldBE_cut x (n := 8 * (m + 1)) (b := 8 * m) (by omega),
      show 8 * (m + 1) - 8 * m = 8 by omega, List.append_assoc,
      layout_chunk _ _ _ (by simp), ih, byte_be, List.range_succ, List.map_append,
      List.reverse_append]
    simp

theorem layout_spec_aux (e : Endian) (n : Nat) : ∀ (bits : List Bool) (i : Nat), i < n →
    i < bits.length →
    ((layout e bits).getD (i / 8) 0).testBit (match e with | .be => 7 - i % 8 | .le => i % 8)
      = bits.getD i false := by
  induction n with
  | zero => intro _ _ h; omega
  | succ n ih =>
    intro bits i hin hi
    cases bits with
    | nil => simp at hi
    | cons b t =>
      rw [layout_unfold]
      by_cases h8 : i < 8
      · rw [Nat.div_eq_of_lt h8, List.getD_cons_zero, Nat.mod_eq_of_lt h8, byteOfBits]
        cases e
        · simp only [bitsVal]
          rw [testBit_natLE, List.getD_eq_getElem?_getD, List.getElem?_reverse (by simp; omega)]
          simp only [takeZ_length]
          rw [show 8 - 1 - (7 - i) = i by omega, ← List.getD_eq_getElem?_getD, getD_takeZ _ _ _ h8]
        · simp only [bitsVal]
          rw [testBit_natLE, getD_takeZ _ _ _ h8]
      · have hd : i / 8 = (i - 8) / 8 + 1 := by omega
        have hm : i % 8 = (i - 8) % 8 := by omega
        rw [hd, List.getD_cons_succ, hm]
        rw [ih ((b :: t).drop 8) (i - 8) (by omega) (by simp only [List.length_drop]; omega)]
        rw [List.getD_eq_getElem?_getD, List.getD_eq_getElem?_getD, List.getElem?_drop]
        congr 2; omega

end Dsi
