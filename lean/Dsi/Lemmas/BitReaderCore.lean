/-
  Unbuffered `BitReader`: the shared body `extract` of `read_bits` / `peek_bits`.
  `extract` succeeds exactly when the `n` bits are available, and then returns the bits of the
  stream at the cursor (`exval` = the shift/or expression of the Rust on the one or two words read).
-/
import Dsi.Lemmas.ReaderLE
namespace Dsi
namespace BitRd

/-- the value computed by `extract` from the word at the cursor (`w1`) and the next one (`w2`) -/
def exval (e : Endian) (w1 w2 : BitVec 64) (off n : Nat) : BitVec 64 :=
  if off + n ≤ 64 then
    match e with
    | .be => (w1 <<< off) >>> (64 - n)
    | .le => (w1 <<< (64 - n - off)) >>> (64 - n)
  else
    match e with
    | .be => ((w1 <<< off) >>> (64 - n)) ||| (w2 >>> (128 - off - n))
    | .le => ((w2 <<< (128 - off - n)) >>> (64 - n)) ||| (w1 >>> off)

/-- `extract` succeeds when the bits are available (always on a zero-extended backend) -/
theorem extract_ok (e : Endian) (s : BitR) (n : Nat)
    (h : s.data.strict = true → s.bitIndex + n ≤ s.data.data.length * 64) (h1 : 1 ≤ n) :
    ∃ d, BitR.extract e s n = .ok (exval e (s.data.data.getD (s.bitIndex / 64) 0)
        (s.data.data.getD (s.bitIndex / 64 + 1) 0) (s.bitIndex % 64) n, d) ∧
      d.data = s.data.data ∧ d.strict = s.data.strict := by
  obtain ⟨⟨data, pos, strict⟩, bi⟩ := s
  simp only at h ⊢
  have hdm : bi / 64 * 64 + bi % 64 = bi := Nat.div_add_mod' bi 64
  have hm : bi % 64 < 64 := Nat.mod_lt _ (by decide)
  unfold BitR.extract MemR.setWordPos
  have c1 : ¬ ((strict && decide (bi / 64 > data.length)) = true) := by
    simp only [Bool.and_eq_true, decide_eq_true_eq, not_and]
    intro hs; have := h hs; omega
  simp only [if_neg c1]
  by_cases hc : bi % 64 + n ≤ 64
  · simp only [if_pos hc]
    rw [MemR.readWord_ok _ (by intro hs; have := h hs; show bi / 64 < data.length; omega)]
    refine ⟨⟨data, bi / 64 + 1, strict⟩, ?_, rfl, rfl⟩
    cases e <;> simp [exval, hc]
  · simp only [if_neg hc]
    rw [MemR.readWord_ok _ (by intro hs; have := h hs; show bi / 64 < data.length; omega)]
    simp only []
    rw [MemR.readWord_ok _ (by intro hs; have := h hs; show bi / 64 + 1 < data.length; omega)]
    refine ⟨⟨data, bi / 64 + 1 + 1, strict⟩, ?_, rfl, rfl⟩
    cases e <;> simp [exval, hc]

/-- `extract` on a strict backend fails with `UnexpectedEof` when the bits are not all there -/
theorem extract_err (e : Endian) (s : BitR) (n : Nat) (hs : s.data.strict = true)
    (h : s.data.data.length * 64 < s.bitIndex + n) (hn : n ≤ 64) :
    BitR.extract e s n = .err .eof := by
  obtain ⟨⟨data, pos, strict⟩, bi⟩ := s
  simp only at h hs ⊢
  subst hs
  have hdm : bi / 64 * 64 + bi % 64 = bi := Nat.div_add_mod' bi 64
  have hm : bi % 64 < 64 := Nat.mod_lt _ (by decide)
  unfold BitR.extract MemR.setWordPos
  by_cases c1 : bi / 64 > data.length
  · simp [c1]
  · have c1' : ¬ ((true && decide (bi / 64 > data.length)) = true) := by simp; omega
    simp only [if_neg c1']
    by_cases hc : bi % 64 + n ≤ 64
    · simp only [if_pos hc]
      rw [MemR.readWord_err _ rfl (by show data.length ≤ bi / 64; omega)]
    · simp only [if_neg hc]
      by_cases hj : bi / 64 < data.length
      · rw [MemR.readWord_ok _ (fun _ => hj)]
        simp only []
        rw [MemR.readWord_err _ rfl (by show data.length ≤ bi / 64 + 1; omega)]
      · rw [MemR.readWord_err _ rfl (by show data.length ≤ bi / 64; omega)]

/-! ### the bits of `exval` -/

theorem exval_getLsbD_le (w1 w2 : BitVec 64) (off n i : Nat) (ho : off < 64) (h1 : 1 ≤ n) (hn : n ≤ 64) :
    (exval .le w1 w2 off n).getLsbD i =
      (decide (i < n) && if off + i < 64 then w1.getLsbD (off + i) else w2.getLsbD (off + i - 64)) := by
  unfold exval
  by_cases hc : off + n ≤ 64
  · simp only [if_pos hc]
    rw [BitVec.getLsbD_ushiftRight, BitVec.getLsbD_shiftLeft]
    by_cases hi : i < n
    · have e1 : 64 - n + i < 64 := by omega
      have e2 : ¬ (64 - n + i < 64 - n - off) := by omega
      have e3 : 64 - n + i - (64 - n - off) = off + i := by omega
      have e4 : off + i < 64 := by omega
      simp [hi, e1, e2, e3, e4]
    · have e1 : ¬ (64 - n + i < 64) := by omega
      simp [hi, e1]
  · simp only [if_neg hc]
    rw [BitVec.getLsbD_or, BitVec.getLsbD_ushiftRight, BitVec.getLsbD_ushiftRight,
      BitVec.getLsbD_shiftLeft]
    by_cases hi : i < n
    · have e1 : 64 - n + i < 64 := by omega
      by_cases h2 : off + i < 64
      · have e2 : 64 - n + i < 128 - off - n := by omega
        simp [hi, e1, e2, h2]
      · have e2 : ¬ (64 - n + i < 128 - off - n) := by omega
        have e3 : 64 - n + i - (128 - off - n) = off + i - 64 := by omega
        rw [BitVec.getLsbD_of_ge w1 (off + i) (by omega)]
        simp [hi, e1, e2, e3, h2]
    · have e1 : ¬ (64 - n + i < 64) := by omega
      rw [BitVec.getLsbD_of_ge w1 (off + i) (by omega)]
      simp [hi, e1]

theorem exval_getLsbD_be (w1 w2 : BitVec 64) (off n i : Nat) (ho : off < 64) (h1 : 1 ≤ n) (hn : n ≤ 64) :
    (exval .be w1 w2 off n).getLsbD i =
      (decide (i < n) && if off + (n - 1 - i) < 64 then w1.getLsbD (63 - (off + (n - 1 - i)))
        else w2.getLsbD (63 - (off + (n - 1 - i) - 64))) := by
  unfold exval
  by_cases hc : off + n ≤ 64
  · simp only [if_pos hc]
    rw [BitVec.getLsbD_ushiftRight, BitVec.getLsbD_shiftLeft]
    by_cases hi : i < n
    · have e1 : 64 - n + i < 64 := by omega
      have e2 : ¬ (64 - n + i < off) := by omega
      have e3 : 64 - n + i - off = 63 - (off + (n - 1 - i)) := by omega
      have e4 : off + (n - 1 - i) < 64 := by omega
      simp [hi, e1, e2, e3, e4]
    · have e1 : ¬ (64 - n + i < 64) := by omega
      simp [hi, e1]
  · simp only [if_neg hc]
    rw [BitVec.getLsbD_or, BitVec.getLsbD_ushiftRight, BitVec.getLsbD_ushiftRight,
      BitVec.getLsbD_shiftLeft]
    by_cases hi : i < n
    · have e1 : 64 - n + i < 64 := by omega
      by_cases h2 : off + (n - 1 - i) < 64
      · have e2 : ¬ (64 - n + i < off) := by omega
        have e3 : 64 - n + i - off = 63 - (off + (n - 1 - i)) := by omega
        rw [BitVec.getLsbD_of_ge w2 (128 - off - n + i) (by omega)]
        simp [hi, e1, e2, e3, h2]
      · have e2 : 64 - n + i < off := by omega
        have e3 : 128 - off - n + i = 63 - (off + (n - 1 - i) - 64) := by omega
        simp [hi, e1, e2, e3, h2]
    · have e1 : ¬ (64 - n + i < 64) := by omega
      rw [BitVec.getLsbD_of_ge w2 (128 - off - n + i) (by omega)]
      simp [hi, e1]

/-- bit `q` (in stream order) after the start of word `j`, for `q < 128`, LE -/
theorem stream_bit_le (data : List (BitVec 64)) (j q : Nat) :
    (if q < 64 then (data.getD j 0).getLsbD q else (data.getD (j + 1) 0).getLsbD (q - 64)) =
      (decide (q < 128) && bitZ (data.flatMap (wordBits .le)) (j * 64 + q)) := by
  by_cases h : q < 64
  · have : q < 128 := by omega
    rw [if_pos h, word_getLsbD_le data j q h]
    simp [this]
  · by_cases h2 : q < 128
    · have e : j * 64 + q = (j + 1) * 64 + (q - 64) := by rw [Nat.succ_mul]; omega
      rw [if_neg h, word_getLsbD_le data (j + 1) (q - 64) (by omega), e]
      simp [h2]
    · rw [if_neg h, BitVec.getLsbD_of_ge _ _ (by omega)]
      simp [h2]

theorem stream_bit_be (data : List (BitVec 64)) (j q : Nat) (hq : q < 128) :
    (if q < 64 then (data.getD j 0).getLsbD (63 - q) else (data.getD (j + 1) 0).getLsbD (63 - (q - 64))) =
      bitZ (data.flatMap (wordBits .be)) (j * 64 + q) := by
  by_cases h : q < 64
  · have := word_getLsbD_be data j q h
    simp only [Nat.add_one_sub_one] at this
    rw [if_pos h, this]
  · have e : j * 64 + q = (j + 1) * 64 + (q - 64) := by rw [Nat.succ_mul]; omega
    have := word_getLsbD_be data (j + 1) (q - 64) (by omega)
    simp only [Nat.add_one_sub_one] at this
    rw [if_neg h, this, e]

/-- the extracted value, as a number, is the reference field at the cursor -/
theorem exval_toNat (e : Endian) (data : List (BitVec 64)) (p n : Nat) (h1 : 1 ≤ n) (hn : n ≤ 64) :
    (exval e (data.getD (p / 64) 0) (data.getD (p / 64 + 1) 0) (p % 64) n).toNat =
      bitsVal e (takeZ n ((data.flatMap (wordBits e)).drop p)) := by
  have hdm : p / 64 * 64 + p % 64 = p := Nat.div_add_mod' p 64
  have hm : p % 64 < 64 := Nat.mod_lt _ (by decide)
  cases e with
  | le =>
    apply eq_bitsVal_le
    · intro i hi
      rw [BitVec.testBit_toNat, exval_getLsbD_le _ _ _ _ _ hm h1 hn, stream_bit_le]
      have e1 : p % 64 + i < 128 := by omega
      have e2 : p / 64 * 64 + (p % 64 + i) = p + i := by omega
      simp [hi, e1, e2]
    · intro i hi
      rw [BitVec.testBit_toNat, exval_getLsbD_le _ _ _ _ _ hm h1 hn]
      have : ¬ i < n := by omega
      simp [this]
  | be =>
    apply eq_bitsVal_be
    · intro i hi
      rw [BitVec.testBit_toNat, exval_getLsbD_be _ _ _ _ _ hm h1 hn,
        stream_bit_be _ _ _ (by omega : p % 64 + (n - 1 - i) < 128)]
      have e2 : p / 64 * 64 + (p % 64 + (n - 1 - i)) = p + (n - 1 - i) := by omega
      simp [hi, e2]
    · intro i hi
      rw [BitVec.testBit_toNat, exval_getLsbD_be _ _ _ _ _ hm h1 hn]
      have : ¬ i < n := by omega
      simp [this]

/-- a reference field of `n` bits is below `2 ^ n` -/
theorem bitsVal_lt (e : Endian) (l : List Bool) : bitsVal e l < 2 ^ l.length := by
  have key : ∀ l : List Bool, natLE l < 2 ^ l.length := by
    intro l
    induction l with
    | nil => simp [natLE]
    | cons b bs ih =>
      simp only [natLE, List.length_cons, Nat.pow_succ]
      cases b <;> simp <;> omega
  cases e
  · simpa [bitsVal] using key l.reverse
  · exact key l

end BitRd
end Dsi
