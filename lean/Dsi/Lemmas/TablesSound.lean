/-
  C05 — soundness of the table checkers and the generic table theorems:
  `readTable_eq`, `writeTable_eq`, `lenTable_eq` (generic in the table).
-/
import Dsi.Lemmas.TablesLift
namespace Dsi
namespace Tables

/-! ## decoding tables -/

/-- what a checked decoding table guarantees -/
structure ReadOK (e : Endian) (dflt : RProg Nat) (t : RTab) : Prop where
  rb_pos : 1 ≤ t.readBits
  entries : ∀ idx, idx < 2 ^ t.readBits → ∃ v l, t.vals[idx]? = some v ∧ t.lens[idx]? = some l ∧
    chkReadEntry e dflt t.readBits t.missing idx v l = true

theorem chkReadEntry_hit {e : Endian} {dflt : RProg Nat} {rb missing idx val len : Nat}
    (h : chkReadEntry e dflt rb missing idx val len = true) (hne : len ≠ missing) :
    ∃ r', dflt.run RefR.impl ⟨e, fieldBits e idx rb, 0, true, 64⟩ = .ok (val, r') ∧ r'.pos = len := by
  unfold chkReadEntry idxReader at h
  split at h
  · rename_i v r heq
    simp only [Bool.or_eq_true, beq_iff_eq, Bool.and_eq_true] at h
    rcases h with h | ⟨h1, h2⟩
    · exact absurd h hne
    · exact ⟨r, by rw [heq, h1], h2.symm⟩
  · simp only [beq_iff_eq] at h; exact absurd h hne
  · cases h
  · cases h

theorem chkReadChunk_sound {e : Endian} {dflt : RProg Nat} {rb missing : Nat} :
    ∀ (start : Nat) (vs ls : List Nat), chkReadChunk e dflt rb missing start vs ls = true →
      vs.length = ls.length ∧ ∀ i, i < vs.length → ∃ v l, vs[i]? = some v ∧ ls[i]? = some l ∧
        chkReadEntry e dflt rb missing (start + i) v l = true := by
  intro start vs
  induction vs generalizing start with
  | nil =>
    intro ls h
    cases ls with
    | nil => exact ⟨rfl, fun i hi => absurd hi (Nat.not_lt_zero _)⟩
    | cons l ls => simp [chkReadChunk] at h
  | cons v vs ih =>
    intro ls h
    cases ls with
    | nil => simp [chkReadChunk] at h
    | cons l ls =>
      simp only [chkReadChunk, Bool.and_eq_true] at h
      have ⟨hlen, hrest⟩ := ih (start + 1) ls h.2
      refine ⟨by simp [hlen], ?_⟩
      intro i hi
      cases i with
      | zero => exact ⟨v, l, rfl, rfl, h.1⟩
      | succ i =>
        obtain ⟨v', l', h1, h2, h3⟩ := hrest i (by simpa using hi)
        refine ⟨v', l', by simpa using h1, by simpa using h2, ?_⟩
        rw [← h3]; congr 1; omega

theorem chkReadChunks_sound {e : Endian} {dflt : RProg Nat} {rb missing : Nat} :
    ∀ (vcs lcs : List (List Nat)) (start : Nat),
      chkReadChunks e dflt rb missing start vcs lcs = true →
      start + vcs.flatten.length = 2 ^ rb ∧ lcs.flatten.length = vcs.flatten.length ∧
      ∀ i, i < vcs.flatten.length → ∃ v l, vcs.flatten[i]? = some v ∧ lcs.flatten[i]? = some l ∧
        chkReadEntry e dflt rb missing (start + i) v l = true := by
  intro vcs
  induction vcs with
  | nil =>
    intro lcs start h
    cases lcs with
    | nil =>
      simp only [chkReadChunks, beq_iff_eq] at h
      exact ⟨by simpa using h, rfl, fun i hi => by simp at hi⟩
    | cons l ls => simp [chkReadChunks] at h
  | cons vc vcs ih =>
    intro lcs start h
    cases lcs with
    | nil => simp [chkReadChunks] at h
    | cons lc lcs =>
      simp only [chkReadChunks, Bool.and_eq_true] at h
      have ⟨hlen, hc⟩ := chkReadChunk_sound start vc lc h.1
      have ⟨htot, hlens, hrest⟩ := ih lcs (start + vc.length) h.2
      refine ⟨by simp only [List.flatten_cons, List.length_append]; omega,
        by simp only [List.flatten_cons, List.length_append]; omega, ?_⟩
      intro i hi
      simp only [List.flatten_cons] at hi ⊢
      by_cases hiv : i < vc.length
      · obtain ⟨v, l, h1, h2, h3⟩ := hc i hiv
        refine ⟨v, l, ?_, ?_, h3⟩
        · rw [List.getElem?_append_left hiv]; exact h1
        · rw [List.getElem?_append_left (by omega)]; exact h2
      · have hiv' : vc.length ≤ i := Nat.le_of_not_lt hiv
        obtain ⟨v, l, h1, h2, h3⟩ := hrest (i - vc.length) (by
          simp only [List.length_append] at hi; omega)
        refine ⟨v, l, ?_, ?_, ?_⟩
        · rw [List.getElem?_append_right hiv']; exact h1
        · rw [List.getElem?_append_right (by omega), ← hlen]; exact h2
        · rw [← h3]; congr 1; omega

theorem band_intro {a b : Bool} (ha : a = true) (hb : b = true) : (a && b) = true := by
  rw [ha, hb]; rfl

/-- cutting a table walk after `n` chunks -/
theorem chkReadChunks_split {e : Endian} {dflt : RProg Nat} {rb missing : Nat} (n : Nat) :
    ∀ (i : Nat) (vcs lcs : List (List Nat)),
      chkReadChunks e dflt rb missing i vcs lcs =
        (chkReadChunksNoEnd e dflt rb missing i (vcs.take n) (lcs.take n) &&
          chkReadChunks e dflt rb missing (i + (vcs.take n).flatten.length) (vcs.drop n) (lcs.drop n)) := by
  induction n with
  | zero => intro i vcs lcs; simp [chkReadChunksNoEnd]
  | succ n ih =>
    intro i vcs lcs
    cases vcs with
    | nil =>
      cases lcs with
      | nil => simp [chkReadChunksNoEnd]
      | cons l ls => simp [chkReadChunks, chkReadChunksNoEnd]
    | cons v vs =>
      cases lcs with
      | nil => simp [chkReadChunks, chkReadChunksNoEnd]
      | cons l ls =>
        simp only [List.take_succ_cons, List.drop_succ_cons, chkReadChunks, chkReadChunksNoEnd,
          List.flatten_cons, List.length_append]
        rw [ih (i + v.length) vs ls, Bool.and_assoc, Nat.add_assoc]

theorem chkReadRest_split {e : Endian} {dflt : RProg Nat} {rb missing : Nat} (n : Nat) (st : RPos) :
    chkReadRest e dflt rb missing st =
      (chkReadHead e dflt rb missing n st && chkReadRest e dflt rb missing (st.adv n)) :=
  chkReadChunks_split n st.1 st.2.1 st.2.2

/-- a table that passes `chkReadTable` is `ReadOK` -/
theorem readOK_of_chk {e : Endian} {dflt : RProg Nat} {rb missing : Nat} {vcs lcs : List (List Nat)}
    (h : chkReadTable e dflt rb missing vcs lcs = true) :
    ReadOK e dflt ⟨rb, missing, vcs.flatten.toArray, lcs.flatten.toArray⟩ := by
  simp only [chkReadTable, Bool.and_eq_true, decide_eq_true_eq] at h
  have ⟨htot, _, hent⟩ := chkReadChunks_sound vcs lcs 0 h.2
  refine ⟨h.1, ?_⟩
  intro idx hidx
  simp only at hidx
  obtain ⟨v, l, h1, h2, h3⟩ := hent idx (by omega)
  refine ⟨v, l, by simpa using h1, by simpa using h2, ?_⟩
  simpa using h3

/-- a table that passes `chkReadTable` has `2^rb` values and `2^rb` lengths -/
theorem chkReadTable_sizes {e : Endian} {dflt : RProg Nat} {rb missing : Nat}
    {vcs lcs : List (List Nat)} (h : chkReadTable e dflt rb missing vcs lcs = true) :
    vcs.flatten.toArray.size = 2 ^ rb ∧ lcs.flatten.toArray.size = 2 ^ rb := by
  simp only [chkReadTable, Bool.and_eq_true, decide_eq_true_eq] at h
  have ⟨htot, hl, _⟩ := chkReadChunks_sound vcs lcs 0 h.2
  simp only [List.size_toArray]
  omega

end Tables

/-- **Table decoding = bit-by-bit decoding**, generic in the table: on *every* reference reader
    state `r` (any position, strict or zero-extended, any number of bits left) whose look-ahead
    capacity is at least the index width, the table-driven program and its peek-free fallback
    have the same outcome. -/
theorem readTable_eq {e : Endian} {dflt : RProg Nat} (hpf : PeekFree dflt) {t : RTab}
    (hok : Tables.ReadOK e dflt t) (r : RefR) (he : r.e = e) (hpm : t.readBits ≤ r.peekMax) :
    (readTable t dflt).run RefR.impl r = dflt.run RefR.impl r := by
  subst he
  have hrb := hok.rb_pos
  unfold readTable
  simp only [RProg.run, RefR.impl_peekBits, RefR.peekBits]
  rw [if_neg (by omega)]
  by_cases hav : r.avail t.readBits = true
  · rw [if_pos hav]
    simp only
    have hlen : (takeZ t.readBits r.rest).length = t.readBits := Tables.len_takeZ _ _
    have hidx : bitsVal r.e (takeZ t.readBits r.rest) < 2 ^ t.readBits := by
      have := Tables.bitsVal_lt r.e (takeZ t.readBits r.rest)
      rwa [hlen] at this
    obtain ⟨v, l, hv, hl, hchk⟩ := hok.entries _ hidx
    rw [hl, hv]
    simp only
    by_cases hm : l = t.missing
    · rw [if_neg (by simp [hm])]
    · rw [if_pos hm]
      obtain ⟨r', hrun, hpos⟩ := Tables.chkReadEntry_hit hchk hm
      have hfb : fieldBits r.e (bitsVal r.e (takeZ t.readBits r.rest)) t.readBits
          = takeZ t.readBits r.rest := by
        have := Tables.fieldBits_bitsVal r.e (takeZ t.readBits r.rest)
        rwa [hlen] at this
      rw [hfb] at hrun
      have := run_embed dflt hpf r.e _ 64 v r' hrun r rfl (by rw [hlen]) (by rw [hlen]; exact hav)
      rw [this, hpos]
      simp [RProg.run, RefR.skipAfterPeek]
  · rw [if_neg hav]

/-- the table reader only uses its fallback at the state it was started in -/
theorem readTable_congr (t : RTab) (fb fb' : RProg Nat) (r : RefR)
    (h : fb.run RefR.impl r = fb'.run RefR.impl r) :
    (readTable t fb).run RefR.impl r = (readTable t fb').run RefR.impl r := by
  unfold readTable
  simp only [RProg.run, RefR.impl_peekBits, RefR.peekBits]
  by_cases h0 : t.readBits = 0 ∨ t.readBits > r.peekMax
  · rw [if_pos h0]
  · rw [if_neg h0]
    by_cases hav : r.avail t.readBits = true
    · rw [if_pos hav]
      simp only
      cases t.lens[bitsVal r.e (takeZ t.readBits r.rest)]? with
      | none => rfl
      | some l =>
        cases t.vals[bitsVal r.e (takeZ t.readBits r.rest)]? with
        | none => rfl
        | some v =>
          simp only
          by_cases hm : l ≠ t.missing
          · rw [if_pos hm, if_pos hm]
          · rw [if_neg hm, if_neg hm]; exact h
    · rw [if_neg hav]; exact h

end Dsi
