/-
  Headline2, shared by C08 / C12 (and C18): from a state of the generated `BufBitWriter` that
  represents a reference writer (`BufW.RelC`, reached from a fresh writer by any program:
  `gen_wrun_relC`), any further program followed by `flush` delivers the canonical byte layout of
  the reference bits (`gen_image_of_relC`); and the words a generated reader is built from, given
  a byte image whose bits are known (`reader_words`).
-/
import Dsi.Lemmas.Headline2Writer
import Dsi.Lemmas.EndToEndSim
import Dsi.Props.IOView
namespace Dsi
namespace Headline2
open Headline E2E

/-- the reference writer over the bits `bits` (growable backend) -/
def refW (e : Endian) (Ww : Nat) (checks : Bool) (bits : List Bool) : RefW :=
  { e := e, W := Ww, checks := checks, cap := none, bits := bits }

/-- same configuration -/
def SameCfg (w w' : RefW) : Prop := w'.e = w.e ∧ w'.W = w.W ∧ w'.checks = w.checks ∧ w'.cap = w.cap

theorem refw_put_same {w w' : RefW} {bs : List Bool} {k a : Nat} (h : w.put bs k = .ok (a, w')) :
    SameCfg w w' := by
  simp only [RefW.put] at h
  split at h
  · cases h; exact ⟨rfl, rfl, rfl, rfl⟩
  · cases h

theorem refw_run_same {α : Type} (p : WProg α) {w w' : RefW} {a : α}
    (h : p.run RefW.impl w = .ok (a, w')) : SameCfg w w' := by
  refine wrun_inv (I' := RefW.impl) (J := fun x => SameCfg w x) ?_ ?_ ?_ p w a w' ⟨rfl, rfl, rfl, rfl⟩ h
  · intro s v n r s' hj hr
    change RefW.writeBits s v n = _ at hr
    unfold RefW.writeBits at hr
    split at hr
    · cases hr
    · split at hr
      · cases hr
      · have := refw_put_same hr
        exact ⟨this.1.trans hj.1, this.2.1.trans hj.2.1, this.2.2.1.trans hj.2.2.1, this.2.2.2.trans hj.2.2.2⟩
  · intro s x r s' hj hr
    change RefW.writeUnary s x = _ at hr
    unfold RefW.writeUnary at hr
    split at hr
    · cases hr
    · have := refw_put_same hr
      exact ⟨this.1.trans hj.1, this.2.1.trans hj.2.1, this.2.2.1.trans hj.2.2.1, this.2.2.2.trans hj.2.2.2⟩
  · intro s r s' hj hr
    change RefW.flush s = _ at hr
    have := refw_put_same hr
    exact ⟨this.1.trans hj.1, this.2.1.trans hj.2.1, this.2.2.1.trans hj.2.2.1, this.2.2.2.trans hj.2.2.2⟩

theorem SameCfg.eq_refW {e : Endian} {Ww : Nat} {checks : Bool} {bits : List Bool} {w' : RefW}
    (h : SameCfg (refW e Ww checks bits) w') : w' = refW e Ww checks w'.bits := by
  obtain ⟨e', W', c', cap', b'⟩ := w'
  obtain ⟨h1, h2, h3, h4⟩ := h
  simp only [refW] at h1 h2 h3 h4
  subst h1 h2 h3 h4
  rfl

/-- a writer program that succeeds on the reference writer from a fresh growable writer runs alike
    on the generated `BufBitWriter`, and ends in a state representing the reference writer -/
theorem gen_wrun_relC {α : Type} (e : Endian) {Ww : Nat} (hWw : 0 < Ww) (hWw64 : Ww < 2 ^ 64)
    (checks : Bool) (pw : WProg α) {a : α} {w1 : RefW}
    (href : pw.run RefW.impl (refW e Ww checks []) = .ok (a, w1)) :
    ∃ t : BufW Ww, pw.run (genWImpl e) (BufW.new Ww checks none) = .ok (a, t) ∧
      BufW.RelC e t (refW e Ww checks w1.bits) := by
  have h0 := rel_new e hWw checks none
  have hsim := wprog_sim e pw h0
  have href' : pw.run RefW.impl { e := e, W := Ww, checks := checks, cap := none } = .ok (a, w1) := href
  rw [href'] at hsim
  obtain ⟨⟨a', t⟩, hrun, ha, hrel, _⟩ := ResRel.ok_right hsim
  have ha : a' = a := ha
  subst ha
  rw [(refw_run_same pw href).eq_refW] at hrel
  exact ⟨t, gen_wrun_of_ok e hWw64 pw (inv_new hWw checks none) hrun, hrel⟩

/-- **from any state representing a reference writer**: a further program that succeeds on the
    reference writer succeeds alike on the generated `BufBitWriter`, the generated `flush`
    succeeds, and the bytes delivered are the canonical layout of the reference bits zero-padded
    to a whole word -/
theorem gen_image_of_relC {β : Type} (e : Endian) {Ww : Nat} (h8 : 8 ∣ Ww) (hWw64 : Ww < 2 ^ 64)
    {checks : Bool} {bits : List Bool} {t : BufW Ww} (hrel : BufW.RelC e t (refW e Ww checks bits))
    (qw : WProg β) {b : β} {w' : RefW} (hq : qw.run RefW.impl (refW e Ww checks bits) = .ok (b, w')) :
    ∃ (t1 : BufW Ww) (k : Nat) (t2 : BufW Ww),
      qw.run (genWImpl e) t = .ok (b, t1) ∧ (genWImpl e).flush t1 = .ok (k, t2) ∧
      t2.outBytes e = layout e (w'.bits ++ wpad Ww w'.bits.length) ∧
      BufW.RelC e t1 (refW e Ww checks w'.bits) ∧
      bitsOfBytes e (t2.outBytes e) = w'.bits ++ wpad Ww w'.bits.length ∧
      (∀ b ∈ t2.outBytes e, b < 256) := by
  have hsim := wprog_sim e qw hrel
  rw [hq] at hsim
  obtain ⟨⟨b', t1⟩, hrun, hb, hrel1, _⟩ := ResRel.ok_right hsim
  have hb : b' = b := hb
  subst hb
  have hsame := refw_run_same qw hq
  have hcap : w'.cap = none := hsame.2.2.2
  have hrW : w'.W = Ww := hsame.2.1
  have hfl : RefW.flush w' = .ok (w'.pending, { w' with bits := w'.bits ++ wpad Ww w'.bits.length }) := by
    unfold RefW.flush
    rw [RefW.put_growable w' hcap]
    simp only [RefW.pending, hrW, wpad]
  have hsim2 := flush_sim hrel1
  rw [hfl] at hsim2
  obtain ⟨⟨k, t2⟩, hflush, hk, hrel2, _⟩ := ResRel.ok_right hsim2
  have hinv : t.Inv := hrel.1.1
  have hsp : t2.space = Ww := flush_space e hrel1.1.1.2 hflush
  have hbits : w'.bits ++ wpad Ww w'.bits.length = t2.abs e := hrel2.1.2.2.2.2.2
  have h3 : bitsOfBytes e (t2.outBytes e) = w'.bits ++ wpad Ww w'.bits.length := by
    rw [bits_of_outBytes e h8, hbits, BufW.abs, BufW.valid_eq, hsp, BufW.validAt_full,
      List.append_nil]
  refine ⟨t1, k, t2, gen_wrun_of_ok e hWw64 qw hinv hrun, ?_, ?_, ?_, h3, outBytes_lt e h8 t2⟩
  · rw [genW_flush]; exact hflush
  · rw [← io_aligned_image e _ (outBytes_lt e h8 t2), h3]
  · rw [hsame.eq_refW] at hrel1; exact hrel1

theorem wpad_length_lt {W : Nat} (n : Nat) (hW : 0 < W) : (wpad W n).length < W := by
  unfold wpad
  rw [List.length_replicate]
  exact Nat.mod_lt _ hW

theorem rpad_length_le {Wr : Nat} (nb : Nat) (hW : 0 < Wr) (h8 : 8 ∣ Wr) : (rpad Wr nb).length ≤ Wr := by
  have hB : 0 < Wr / 8 := by
    obtain ⟨m, rfl⟩ := h8
    rw [Nat.mul_div_cancel_left m (by omega : 0 < 8)]; omega
  unfold rpad
  rw [List.length_replicate]
  have h1 := Nat.mod_lt (Wr / 8 - nb % (Wr / 8)) hB
  have h2 := Nat.mul_div_le Wr 8
  omega

/-- the words a reader of width `Wr` is built from, given a byte image (bytes `< 256`) whose bits
    are `bits`: they spell `bits` followed by zeros, fewer than `Wr` of them (plus the bits of the
    image beyond `bits`, if any: here none) -/
theorem reader_words (e : Endian) {Wr : Nat} (hWr : 0 < Wr) (h8r : 8 ∣ Wr)
    {bits : List Bool} {bytes : List Nat} (hb : ∀ b ∈ bytes, b < 256)
    (h3 : bitsOfBytes e bytes = bits) :
    ∃ zeros, (wordsOfBytes e Wr (padTo (Wr / 8) bytes)).flatMap (wordBits e) = bits ++ zeros ∧
      (wordsOfBytes e Wr (padTo (Wr / 8) bytes)).length * Wr ≤ bits.length + Wr := by
  have hst : (wordsOfBytes e Wr (padTo (Wr / 8) bytes)).flatMap (wordBits e)
      = bits ++ rpad Wr bytes.length := by
    rw [e2e_words_padTo e h8r hWr, reader_stream e hWr h8r _ hb, h3]
  refine ⟨_, hst, ?_⟩
  have hl := congrArg List.length hst
  rw [length_flatMap_wordBits, List.length_append] at hl
  have h2 := rpad_length_le bytes.length hWr h8r
  omega

end Headline2
end Dsi
