/-
  Kraft inequality for the published codewords (`Dsi.Spec.*`) and the implemented length
  functions (`Dsi.len*`): every code is prefix-free, hence (Kraft–McMillan, from Mathlib) the
  sum of `2^{-len n}` over any initial segment of the naturals is at most one.
-/
import Dsi.Basic
import Dsi.Spec
import Dsi.Codes
import Mathlib.InformationTheory.Coding.KraftMcMillan
import Mathlib.Tactic.Ring
import Mathlib.Tactic.Linarith

namespace Dsi

open InformationTheory

/-! ### The general lemma -/

/-- A prefix-free set of non-empty words is uniquely decodable. -/
theorem uniquelyDecodable_of_prefix_free {α : Type*} (S : Set (List α))
    (hpf : ∀ a ∈ S, ∀ b ∈ S, a <+: b → a = b) (hne : [] ∉ S) :
    UniquelyDecodable S := by
  intro L₁
  induction L₁ with
  | nil =>
    intro L₂ _ h₂ hfl
    cases L₂ with
    | nil => rfl
    | cons b L₂ =>
      exfalso
      have hb : b = [] := by
        have h := hfl.symm
        simp only [List.flatten_nil, List.flatten_cons, List.append_eq_nil_iff] at h
        exact h.1
      exact hne (hb ▸ h₂ b (by simp))
  | cons a L₁ ih =>
    intro L₂ h₁ h₂ hfl
    cases L₂ with
    | nil =>
      exfalso
      have ha : a = [] := by
        have h := hfl
        simp only [List.flatten_nil, List.flatten_cons, List.append_eq_nil_iff] at h
        exact h.1
      exact hne (ha ▸ h₁ a (by simp))
    | cons b L₂ =>
      simp only [List.flatten_cons] at hfl
      have haS : a ∈ S := h₁ a (by simp)
      have hbS : b ∈ S := h₂ b (by simp)
      have hab : a = b := by
        rcases List.append_eq_append_iff.mp hfl with ⟨t, hb, _⟩ | ⟨t, ha, _⟩
        · exact hpf a haS b hbS ⟨t, hb.symm⟩
        · exact (hpf b hbS a haS ⟨t, ha.symm⟩).symm
      subst hab
      have hrest : L₁.flatten = L₂.flatten := List.append_cancel_left hfl
      have := ih L₂ (fun w hw => h₁ w (by simp [hw])) (fun w hw => h₂ w (by simp [hw])) hrest
      rw [this]

/-- Kraft's inequality for a finite prefix-free set of binary words. -/
theorem kraft_of_prefix_free (S : Finset (List Bool))
    (hpf : ∀ a ∈ S, ∀ b ∈ S, a <+: b → a = b) :
    ∑ w ∈ S, ((1:ℝ)/2) ^ w.length ≤ 1 := by
  by_cases hne : [] ∈ S
  · -- the empty word is a prefix of every word: `S = {[]}`
    have hS : S = {[]} := by
      ext w
      simp only [Finset.mem_singleton]
      constructor
      · intro hw
        exact (hpf [] hne w hw (List.nil_prefix)).symm
      · rintro rfl
        exact hne
    rw [hS]
    simp
  · have hud : UniquelyDecodable (S : Set (List Bool)) :=
      uniquelyDecodable_of_prefix_free (S : Set (List Bool))
        (fun a ha b hb => hpf a (by simpa using ha) b (by simpa using hb))
        (by simpa using hne)
    have h := kraft_mcmillan_inequality hud
    simpa using h

/-- Kraft's inequality for the first `N` words of a prefix-free code. -/
theorem kraft_of_prefix_free_code (c : ℕ → List Bool)
    (hpf : ∀ m n, c m <+: c n → m = n) (N : ℕ) :
    ∑ n ∈ Finset.range N, ((1:ℝ)/2) ^ (c n).length ≤ 1 := by
  have hinj : Function.Injective c := fun m n h => hpf m n (h ▸ List.prefix_refl _)
  have h := kraft_of_prefix_free ((Finset.range N).image c) (by
    intro a ha b hb hab
    obtain ⟨m, _, rfl⟩ := Finset.mem_image.mp ha
    obtain ⟨n, _, rfl⟩ := Finset.mem_image.mp hb
    rw [hpf m n hab])
  rwa [Finset.sum_image (fun m _ n _ h => hinj h)] at h

/-! ### Prefix-freeness in a form that composes -/

/-- Prefix-free code, in the form that composes: no codeword followed by anything equals
    another codeword followed by anything. -/
def PF (c : ℕ → List Bool) : Prop := ∀ m n s t, c m ++ s = c n ++ t → m = n

theorem PF.prefix_free {c : ℕ → List Bool} (h : PF c) (m n : ℕ) : c m <+: c n → m = n := by
  rintro ⟨t, ht⟩
  exact h m n t [] (by simpa using ht)

/-- A prefix-free code followed by a suffix whose length is determined by the value the
    prefix part encodes, where prefix value and suffix together determine the argument. -/
theorem PF.comp {c : ℕ → List Bool} (hc : PF c) (f : ℕ → ℕ) (g : ℕ → List Bool)
    (hlen : ∀ m n, f m = f n → (g m).length = (g n).length)
    (hinj : ∀ m n, f m = f n → g m = g n → m = n) :
    PF (fun n => c (f n) ++ g n) := by
  intro m n s t h
  simp only [List.append_assoc] at h
  have hf : f m = f n := hc (f m) (f n) _ _ h
  rw [hf] at h
  have h' := List.append_cancel_left h
  have hg : g m = g n := (List.append_inj h' (hlen m n hf)).1
  exact hinj m n hf hg

theorem kraft_of_PF {c : ℕ → List Bool} (hc : PF c) (len : ℕ → ℕ)
    (hlen : ∀ n, (c n).length = len n) (N : ℕ) :
    ∑ n ∈ Finset.range N, ((1:ℝ)/2) ^ len n ≤ 1 := by
  have h := kraft_of_prefix_free_code c hc.prefix_free N
  simpa [hlen] using h

/-! ### Bit fields (in `Dsi.Kraft`, so that they cannot clash with the same facts elsewhere) -/

namespace Kraft

theorem fieldLE_length (v n : ℕ) : (fieldLE v n).length = n := by
  induction n generalizing v with
  | zero => rfl
  | succ n ih => simp [fieldLE, ih]

theorem fieldBits_length (e : Endian) (v n : ℕ) : (fieldBits e v n).length = n := by
  cases e <;> simp [fieldBits, fieldLE_length]

theorem natLE_fieldLE (v n : ℕ) : natLE (fieldLE v n) = v % 2 ^ n := by
  induction n generalizing v with
  | zero => simp [fieldLE, natLE, Nat.mod_one]
  | succ n ih =>
    simp only [fieldLE, natLE, ih]
    rw [pow_succ', Nat.mod_mul]
    rcases Nat.mod_two_eq_zero_or_one v with h | h <;> simp [h]

theorem fieldBits_inj (e : Endian) (v w n : ℕ) (h : fieldBits e v n = fieldBits e w n) :
    v % 2 ^ n = w % 2 ^ n := by
  have h' : fieldLE v n = fieldLE w n := by
    cases e
    · exact List.reverse_injective h
    · exact h
  rw [← natLE_fieldLE, ← natLE_fieldLE, h']

/-- `⌊log₂ m⌋` and `m` without its most significant bit determine `m` (here `m = n+1`). -/
theorem log2_field_inj (e : Endian) (m n : ℕ) (hl : (m + 1).log2 = (n + 1).log2)
    (hf : fieldBits e (m + 1) (m + 1).log2 = fieldBits e (n + 1) (n + 1).log2) : m = n := by
  rw [hl] at hf
  have hmod := fieldBits_inj e _ _ _ hf
  have hm1 : 2 ^ (m + 1).log2 ≤ m + 1 := Nat.log2_self_le (by omega)
  have hm2 : m + 1 < 2 ^ ((m + 1).log2 + 1) := Nat.lt_log2_self
  have hn1 : 2 ^ (n + 1).log2 ≤ n + 1 := Nat.log2_self_le (by omega)
  have hn2 : n + 1 < 2 ^ ((n + 1).log2 + 1) := Nat.lt_log2_self
  rw [hl] at hm1 hm2
  generalize (n + 1).log2 = l at *
  rw [pow_succ] at hm2 hn2
  have e1 : (m + 1) % 2 ^ l = m + 1 - 2 ^ l := by
    rw [Nat.mod_eq_sub_mod hm1, Nat.mod_eq_of_lt (by omega)]
  have e2 : (n + 1) % 2 ^ l = n + 1 - 2 ^ l := by
    rw [Nat.mod_eq_sub_mod hn1, Nat.mod_eq_of_lt (by omega)]
  omega

/-- Quotient by `2^k` and the `k` low bits determine the number. -/
theorem div_field_inj (e : Endian) (k m n : ℕ) (hd : m / 2 ^ k = n / 2 ^ k)
    (hf : fieldBits e m k = fieldBits e n k) : m = n := by
  have hmod := fieldBits_inj e _ _ _ hf
  rw [← Nat.div_add_mod m (2 ^ k), ← Nat.div_add_mod n (2 ^ k), hd, hmod]

end Kraft

/-! ### unary -/

theorem unary_length (n : ℕ) : (Spec.unary n).length = lenUnary n := by
  simp [Spec.unary, unaryBits, lenUnary]

theorem unary_PF : PF Spec.unary := by
  intro m
  induction m with
  | zero =>
    intro n s t h
    cases n with
    | zero => rfl
    | succ n => simp [Spec.unary, unaryBits, List.replicate_succ] at h
  | succ m ih =>
    intro n s t h
    cases n with
    | zero => simp [Spec.unary, unaryBits, List.replicate_succ] at h
    | succ n =>
      have : Spec.unary m ++ s = Spec.unary n ++ t := by
        simpa [Spec.unary, unaryBits, List.replicate_succ] using h
      rw [ih n s t this]

theorem unary_prefix_free (m n : ℕ) : Spec.unary m <+: Spec.unary n → m = n :=
  unary_PF.prefix_free m n

theorem kraft_unary (N : ℕ) : ∑ n ∈ Finset.range N, ((1:ℝ)/2) ^ lenUnary n ≤ 1 :=
  kraft_of_PF unary_PF _ unary_length N

/-! ### γ -/

theorem gamma_length (e : Endian) (n : ℕ) : (Spec.gamma e n).length = lenGammaDefault n := by
  simp [Spec.gamma, Spec.unary, unaryBits, Kraft.fieldBits_length, lenGammaDefault]
  omega

theorem gamma_PF (e : Endian) : PF (Spec.gamma e) :=
  unary_PF.comp (fun n => (n + 1).log2) (fun n => fieldBits e (n + 1) (n + 1).log2)
    (fun m n h => by simp [Kraft.fieldBits_length, h])
    (fun m n => Kraft.log2_field_inj e m n)

theorem gamma_prefix_free (e : Endian) (m n : ℕ) : Spec.gamma e m <+: Spec.gamma e n → m = n :=
  (gamma_PF e).prefix_free m n

theorem kraft_gamma (N : ℕ) : ∑ n ∈ Finset.range N, ((1:ℝ)/2) ^ lenGammaDefault n ≤ 1 :=
  kraft_of_PF (gamma_PF .be) _ (gamma_length .be) N

/-! ### Rice -/

theorem rice_length (e : Endian) (k n : ℕ) : (Spec.rice e k n).length = lenRice n k := by
  simp [Spec.rice, Spec.unary, unaryBits, Kraft.fieldBits_length, lenRice]
  omega

theorem rice_PF (e : Endian) (k : ℕ) : PF (Spec.rice e k) :=
  unary_PF.comp (fun n => n / 2 ^ k) (fun n => fieldBits e n k)
    (fun m n _ => by simp [Kraft.fieldBits_length])
    (fun m n => Kraft.div_field_inj e k m n)

theorem rice_prefix_free (e : Endian) (k m n : ℕ) :
    Spec.rice e k m <+: Spec.rice e k n → m = n :=
  (rice_PF e k).prefix_free m n

theorem kraft_rice (k N : ℕ) : ∑ n ∈ Finset.range N, ((1:ℝ)/2) ^ lenRice n k ≤ 1 :=
  kraft_of_PF (rice_PF .be k) _ (rice_length .be k) N

/-! ### δ -/

theorem delta_length (e : Endian) (n : ℕ) : (Spec.delta e n).length = lenDelta none none n := by
  simp [Spec.delta, gamma_length, Kraft.fieldBits_length, lenDelta, lenGamma]
  omega

theorem delta_PF (e : Endian) : PF (Spec.delta e) :=
  (gamma_PF e).comp (fun n => (n + 1).log2) (fun n => fieldBits e (n + 1) (n + 1).log2)
    (fun m n h => by simp [Kraft.fieldBits_length, h])
    (fun m n => Kraft.log2_field_inj e m n)

theorem delta_prefix_free (e : Endian) (m n : ℕ) : Spec.delta e m <+: Spec.delta e n → m = n :=
  (delta_PF e).prefix_free m n

theorem kraft_delta (N : ℕ) : ∑ n ∈ Finset.range N, ((1:ℝ)/2) ^ lenDelta none none n ≤ 1 :=
  kraft_of_PF (delta_PF .be) _ (delta_length .be) N

/-! ### exp-Golomb -/

theorem expGolomb_length (e : Endian) (k n : ℕ) :
    (Spec.expGolomb e k n).length = lenExpGolomb none n k := by
  simp [Spec.expGolomb, gamma_length, Kraft.fieldBits_length, lenExpGolomb, lenGamma]

theorem expGolomb_PF (e : Endian) (k : ℕ) : PF (Spec.expGolomb e k) :=
  (gamma_PF e).comp (fun n => n / 2 ^ k) (fun n => fieldBits e n k)
    (fun m n _ => by simp [Kraft.fieldBits_length])
    (fun m n => Kraft.div_field_inj e k m n)

theorem expGolomb_prefix_free (e : Endian) (k m n : ℕ) :
    Spec.expGolomb e k m <+: Spec.expGolomb e k n → m = n :=
  (expGolomb_PF e k).prefix_free m n

theorem kraft_expGolomb (k N : ℕ) :
    ∑ n ∈ Finset.range N, ((1:ℝ)/2) ^ lenExpGolomb none n k ≤ 1 :=
  kraft_of_PF (expGolomb_PF .be k) _ (expGolomb_length .be k) N

/-! ### π -/

theorem pi_length (e : Endian) (k n : ℕ) : (Spec.pi e k n).length = lenPi n k := by
  simp [Spec.pi, rice_length, Kraft.fieldBits_length, lenPi]

theorem pi_PF (e : Endian) (k : ℕ) : PF (Spec.pi e k) :=
  (rice_PF e k).comp (fun n => (n + 1).log2) (fun n => fieldBits e (n + 1) (n + 1).log2)
    (fun m n h => by simp [Kraft.fieldBits_length, h])
    (fun m n => Kraft.log2_field_inj e m n)

theorem pi_prefix_free (e : Endian) (k m n : ℕ) : Spec.pi e k m <+: Spec.pi e k n → m = n :=
  (pi_PF e k).prefix_free m n

theorem kraft_pi (k N : ℕ) : ∑ n ∈ Finset.range N, ((1:ℝ)/2) ^ lenPi n k ≤ 1 :=
  kraft_of_PF (pi_PF .be k) _ (pi_length .be k) N

end Dsi
