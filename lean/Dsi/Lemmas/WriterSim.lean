/-
  From the closed forms to simulation steps against the reference writer.
-/
import Dsi.Lemmas.WriterCore
set_option linter.unusedSimpArgs false
namespace Dsi
namespace BufW
variable {W : Nat}

theorem flush_core (e : Endian) (s : BufW W) (hi : s.Inv) (hc : s.CapOk) :
    Core e s (List.replicate ((W - (W - s.space)) % W) false) (W - s.space) (flush e s) := by
  obtain ⟨buffer, space, out, cap, checks⟩ := s
  obtain ⟨hi1, hi2⟩ := hi
  simp only at hi1 hi2
  unfold flush
  simp only
  by_cases h0 : W - space = 0
  · have : space = W := by omega
    subst this
    refine ⟨[], buffer, space, ?_, hi1, hi2, ?_⟩
    · simp [coreRes, show capFits cap out.length = true from hc]
    · simp
  · simp only [h0, ne_eq, not_false_eq_true, if_true]
    have hm : (W - (W - space)) % W = space := by
      rw [show W - (W - space) = space by omega]; exact Nat.mod_eq_of_lt (by omega)
    rw [hm]
    refine ⟨[shiftIn e buffer space], shiftIn e buffer space, W, ?_, by omega, by omega, ?_⟩
    · rw [emit_eq]
      by_cases h1 : capFits cap (out.length + 1) = true
      · simp [h1, coreRes]
      · simp [h1, coreRes]
    · simp [validAt_full, shifted_word e buffer hi2]

theorem flatMap_wordBits_length (e : Endian) (ws : List (BitVec W)) :
    (ws.flatMap (wordBits e)).length = ws.length * W := by
  induction ws with
  | nil => simp
  | cons w ws ih => simp [List.flatMap_cons, ih, Nat.succ_mul, Nat.add_comm]

theorem abs_length (e : Endian) (s : BufW W) :
    (s.abs e).length = s.out.length * W + (W - s.space) := by
  rw [abs, List.length_append, flatMap_wordBits_length, valid_eq, validAt_length]

theorem fits_eq (r : RefW) (l : List Bool) : r.fits l = capFits r.cap (l.length / r.W) := by
  unfold RefW.fits
  cases r.cap <;> simp [capFits]

/-- a closed-form outcome simulates `RefW.put` -/
theorem sim_of_core {e : Endian} {s : BufW W} {r : RefW} {bs : List Bool} {ret : Nat}
    {res : Res (Nat × BufW W)} (hrel : Rel e s r) (h : Core e s bs ret res) :
    ResRel (fun (a, s') (b, r') => a = b ∧ Rel e s' r' ∧ s'.CapOk ∧ s.out <+: s'.out)
      res (r.put bs ret) := by
  obtain ⟨ws, b, sp, rfl, h1, h2, hb⟩ := h
  obtain ⟨⟨hi1, hi2⟩, he, hw, hcap, hchk, hbits⟩ := hrel
  have hlen := congrArg List.length hb
  simp only [List.length_append, validAt_length, flatMap_wordBits_length] at hlen
  have hdiv : (r.bits ++ bs).length / r.W = s.out.length + ws.length := by
    rw [hw, List.length_append, hbits, abs_length]
    apply Nat.div_eq_of_lt_le
    · rw [Nat.add_mul]; omega
    · rw [Nat.succ_mul, Nat.add_mul]; omega
  have hfit : r.fits (r.bits ++ bs) = capFits s.cap (s.out.length + ws.length) := by
    rw [fits_eq, hdiv, hcap]
  simp only [RefW.put, coreRes, hfit]
  by_cases hf : capFits s.cap (s.out.length + ws.length) = true
  · simp only [hf, if_true, ResRel]
    refine ⟨trivial, ⟨⟨h1, h2⟩, he, hw, hcap, hchk, ?_⟩, ?_, List.prefix_append _ _⟩
    · simp only [abs, valid_eq, List.flatMap_append, List.append_assoc, ← hb]
      rw [hbits, abs, valid_eq, List.append_assoc]
    · simpa [CapOk] using hf
  · simp only [hf, if_false, ResRel, Bool.false_eq_true]

end BufW
end Dsi
