/-
  Glue 2, part 2: the counting wrappers over the concrete machines.  A counted run of a program
  is the plain run of the program that carries the counter in its result (`wCounted`, `rCounted`),
  so the program-level simulations `wprog_sim` / `rprog_sim` transfer the counters too.
-/
import Dsi.Props.Writer
import Dsi.Props.Reader
import Dsi.Props.C14
namespace Dsi
namespace G2
open SmallL

variable {W : Nat}

/-! ### writers -/

/-- the writer program that carries `CountBitWriter`'s counter in its result: `write_bits` and
    `write_unary` add the count they return, `flush` adds nothing -/
def wCounted {α : Type} : WProg α → Nat → WProg (α × Nat)
  | .ret a, c => .ret (a, c)
  | .panic, _ => .panic
  | .dpanic, _ => .dpanic
  | .writeBits v n k, c => .writeBits v n (fun r => wCounted (k r) (c + r))
  | .writeUnary x k, c => .writeUnary x (fun r => wCounted (k r) (c + r))
  | .flush k, c => .flush (fun r => wCounted (k r) c)

/-- a counted run over ANY writer is the plain run of the counter-carrying program -/
theorem countw_run_eq {ω α : Type} (wi : WImpl ω) (p : WProg α) (i : ω) (c : Nat) :
    p.run (CountW.impl wi) ⟨i, c⟩ =
      ((wCounted p c).run wi i).map (fun x => (x.1.1, ({ inner := x.2, bitsWritten := x.1.2 } : CountW ω))) := by
  induction p generalizing i c with
  | ret a => rfl
  | panic => rfl
  | dpanic => rfl
  | writeBits v n k ih =>
    simp only [WProg.run, CountW.impl, wCounted]
    cases wi.writeBits i v n with
    | ok x => obtain ⟨r, i'⟩ := x; simp only [rmap_ok]; exact ih r i' _
    | err e => rfl
    | panic => rfl
    | dpanic => rfl
  | writeUnary x k ih =>
    simp only [WProg.run, CountW.impl, wCounted]
    cases wi.writeUnary i x with
    | ok x => obtain ⟨r, i'⟩ := x; simp only [rmap_ok]; exact ih r i' _
    | err e => rfl
    | panic => rfl
    | dpanic => rfl
  | flush k ih =>
    simp only [WProg.run, CountW.impl, wCounted]
    cases wi.flush i with
    | ok x => obtain ⟨r, i'⟩ := x; simp only [rmap_ok]; exact ih r i' _
    | err e => rfl
    | panic => rfl
    | dpanic => rfl

/-- counted runs on the concrete and on the reference writer: same results, related inner
    states, the SAME counter -/
theorem countw_sim {α : Type} (e : Endian) (p : WProg α) {t : BufW W} {w : RefW}
    (h : BufW.RelC e t w) (c : Nat) :
    ResRel (fun (x : α × CountW (BufW W)) (y : α × CountW RefW) =>
        x.1 = y.1 ∧ BufW.RelC e x.2.inner y.2.inner ∧ x.2.bitsWritten = y.2.bitsWritten ∧
        t.out <+: x.2.inner.out)
      (p.run (CountW.impl (BufW.impl e)) ⟨t, c⟩) (p.run (CountW.impl RefW.impl) ⟨w, c⟩) := by
  rw [countw_run_eq, countw_run_eq]
  refine (wprog_sim e (wCounted p c) h).map _ _ ?_
  rintro ⟨⟨a, c1⟩, s'⟩ ⟨⟨b, c2⟩, r'⟩ ⟨hab, hrel, hpre⟩
  simp only [Prod.mk.injEq] at hab
  exact ⟨hab.1, hrel, hab.2, hpre⟩

/-! ### readers -/

/-- the reader program that carries `CountBitReader`'s counter in its result: reads count what
    they consume, `peek_bits` is free, the two skips count their argument -/
def rCounted {α : Type} : RProg α → Nat → RProg (α × Nat)
  | .ret a, c => .ret (a, c)
  | .fail x, _ => .fail x
  | .panic, _ => .panic
  | .dpanic, _ => .dpanic
  | .readBits n k, c => .readBits n (fun v => rCounted (k v) (c + n))
  | .readUnary k, c => .readUnary (fun v => rCounted (k v) (c + v + 1))
  | .peek n k, c => .peek n (fun x => rCounted (k x) c)
  | .skipAfterPeek n k, c => .skipAfterPeek n (rCounted k (c + n))
  | .skip n k, c => .skip n (rCounted k (c + n))

/-- a counted run over ANY reader is the plain run of the counter-carrying program -/
theorem countr_run_eq {ρ α : Type} (ri : RImpl ρ) (p : RProg α) (i : ρ) (c : Nat) :
    p.run (CountR.impl ri) ⟨i, c⟩ =
      ((rCounted p c).run ri i).map (fun x => (x.1.1, ({ inner := x.2, bitsRead := x.1.2 } : CountR ρ))) := by
  induction p generalizing i c with
  | ret a => rfl
  | fail x => rfl
  | panic => rfl
  | dpanic => rfl
  | readBits n k ih =>
    simp only [RProg.run, CountR.impl, rCounted]
    cases ri.readBits i n with
    | ok x => obtain ⟨v, i'⟩ := x; simp only [rmap_ok]; exact ih v i' _
    | err e => rfl
    | panic => rfl
    | dpanic => rfl
  | readUnary k ih =>
    simp only [RProg.run, CountR.impl, rCounted]
    cases ri.readUnary i with
    | ok x => obtain ⟨v, i'⟩ := x; simp only [rmap_ok]; exact ih v i' _
    | err e => rfl
    | panic => rfl
    | dpanic => rfl
  | peek n k ih =>
    simp only [RProg.run, CountR.impl, rCounted]
    cases ri.peekBits i n with
    | ok x => obtain ⟨v, i'⟩ := x; simp only [rmap_ok]; exact ih (.ok v) i' _
    | err e => simp only [rmap_err]; exact ih (.error e) i c
    | panic => rfl
    | dpanic => rfl
  | skipAfterPeek n k ih =>
    simp only [RProg.run, CountR.impl, rCounted]
    exact ih _ _
  | skip n k ih =>
    simp only [RProg.run, CountR.impl, rCounted]
    cases ri.skipBits i n with
    | ok i' => simp only [rmap_ok]; exact ih i' _
    | err e => rfl
    | panic => rfl
    | dpanic => rfl

/-- carrying the counter changes neither the peeks nor their credit -/
theorem peekBounded_counted {α : Type} (p : RProg α) :
    ∀ (cr c : Nat), PeekBounded W cr p → PeekBounded W cr (rCounted p c) := by
  induction p with
  | ret a => intro _ _ _; trivial
  | fail x => intro _ _ _; trivial
  | panic => intro _ _ _; trivial
  | dpanic => intro _ _ _; trivial
  | readBits n k ih => intro cr c h v; exact ih v 0 _ (h v)
  | readUnary k ih => intro cr c h v; exact ih v 0 _ (h v)
  | peek n k ih =>
    intro cr c h
    exact ⟨h.1, fun v => ih (.ok v) n c (h.2.1 v), fun x => ih (.error x) cr c (h.2.2 x)⟩
  | skipAfterPeek n k ih => intro cr c h; exact ⟨h.1, ih _ _ h.2⟩
  | skip n k ih => intro cr c h; exact ih 0 _ h

/-- counted runs on the concrete and on the reference reader: same results, related inner
    states, the SAME counter -/
theorem countr_sim {α : Type} {e : Endian} (hW64 : e = .be → W ≤ 64) (p : RProg α)
    (hp : PeekBounded W 0 p) {s : BufR W} {r : RefR} (h : BufR.Rel e s r) (c : Nat) :
    ResRel (fun (x : α × CountR (BufR W)) (y : α × CountR RefR) =>
        x.1 = y.1 ∧ BufR.Rel e x.2.inner y.2.inner ∧ x.2.bitsRead = y.2.bitsRead)
      (p.run (CountR.impl (BufR.impl e)) ⟨s, c⟩) (p.run (CountR.impl RefR.impl) ⟨r, c⟩) := by
  rw [countr_run_eq, countr_run_eq]
  refine (rprog_sim hW64 (rCounted p c) (peekBounded_counted p 0 c hp) h).map _ _ ?_
  rintro ⟨⟨a, c1⟩, s'⟩ ⟨⟨b, c2⟩, r'⟩ ⟨hab, hrel⟩
  simp only [Prod.mk.injEq] at hab
  exact ⟨hab.1, hrel, hab.2⟩

end G2
end Dsi
