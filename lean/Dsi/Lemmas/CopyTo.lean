/-
  Bulk copy: the specialised `copy_to` of the buffered reader (`BufR.copyTo`), writing through any
  simulating writer implementation, against the specification `refCopy`.
-/
import Dsi.Lemmas.CopyFrom
namespace Dsi
namespace CopyL
open BufR
variable {W : Nat}

/-! ### sequencing against `refCopy` -/

theorem seq_ok {γ} {S : γ → RefR × RefW → Prop} {x : Res γ} {r r' : RefR} {w w' : RefW} {a b : Nat}
    (h : refCopy r w a = .ok (r', w')) (hx : ResRel S x (refCopy r' w' b)) :
    ResRel S x (refCopy r w (a + b)) := by
  rw [refCopy_add, h]; exact hx

theorem seq_eq_ok {r r' : RefR} {w w' : RefW} {a b : Nat} (h : refCopy r w a = .ok (r', w')) :
    refCopy r w (a + b) = refCopy r' w' b := by
  rw [refCopy_add, h]; rfl

theorem seq_eq_err {r : RefR} {w : RefW} {a : Nat} (b : Nat) {x : Err} (h : refCopy r w a = .err x) :
    refCopy r w (a + b) = .err x := by
  rw [refCopy_add, h]; rfl

theorem seq_eq_panic {r : RefR} {w : RefW} {a : Nat} (b : Nat) (h : refCopy r w a = .panic) :
    refCopy r w (a + b) = .panic := by
  rw [refCopy_add, h]; rfl

theorem seq_eq_dpanic {r : RefR} {w : RefW} {a : Nat} (b : Nat) (h : refCopy r w a = .dpanic) :
    refCopy r w (a + b) = .dpanic := by
  rw [refCopy_add, h]; rfl

/-- the facts a successful copy preserves -/
theorem refCopy_ok_facts {r r' : RefR} {w w' : RefW} {n : Nat} (h : refCopy r w n = .ok (r', w')) :
    r' = { r with pos := r.pos + n } ∧ w'.e = w.e ∧ w'.checks = w.checks ∧
      w'.fits w'.bits = true ∧ r.avail n = true := by
  obtain ⟨⟨hav, hf⟩, rfl, rfl⟩ := refCopy_ok_iff.1 h
  exact ⟨rfl, rfl, rfl, hf, hav⟩

/-- a single reference `write_bits` of the reader's next `k` bits is a copy of `k` bits -/
theorem refCopy_of_write (r : RefR) (w : RefW) (k v : Nat) (hk : k ≤ 64) (he : w.e = r.e)
    (hav : r.avail k = true) (hv : w.checks = false ∨ v % 2 ^ 64 < 2 ^ k)
    (hb : fieldBits r.e v k = takeZ k r.rest) :
    refCopy r w k =
      (RefW.writeBits w v k).bind (fun p => .ok ({ r with pos := r.pos + k }, p.2)) := by
  unfold refCopy RefW.writeBits
  rw [if_pos hav, if_neg (by omega), if_neg, he, hb]
  · cases w.put (takeZ k r.rest) k with
    | ok q => obtain ⟨_, _⟩ := q; rfl
    | err _ => rfl
    | panic => rfl
    | dpanic => rfl
  · rcases hv with hv | hv
    · simp [hv]
    · simp; intro _; exact hv

/-- one `write_bits` through a simulating writer, of a value carrying the reader's next `k` bits -/
theorem write_stage {ω} {wi : WImpl ω} {Q : ω → RefW → Prop} (hw : WSim wi Q) {t : ω} {w : RefW}
    (hQ : Q t w) {r : RefR} {k v : Nat} (hk : k ≤ 64) (he : w.e = r.e) (hav : r.avail k = true)
    (hv : w.checks = false ∨ v % 2 ^ 64 < 2 ^ k) (hb : fieldBits r.e v k = takeZ k r.rest) :
    ResRel (fun a b => b.1 = { r with pos := r.pos + k } ∧ Q a.2 b.2)
      (wi.writeBits t v k) (refCopy r w k) := by
  rw [refCopy_of_write r w k v hk he hav hv hb]
  have h := hw t w v k hQ
  revert h
  cases wi.writeBits t v k <;> cases RefW.writeBits w v k <;> intro h <;>
    first | exact h.elim | exact h | exact ⟨rfl, h⟩

/-! ### the buffered part is the generic loop and does not touch the backend -/

theorem copyBuffered_eq {ω} (e : Endian) (wi : WImpl ω) :
    ∀ (fuel : Nat) (s : BufR W) (w : ω) (fb : Nat),
      BufR.copyBuffered e wi fuel s w fb = copyGeneric (BufR.impl e) wi fuel s w fb := by
  intro fuel
  induction fuel with
  | zero => intro s w fb; rfl
  | succ fuel ih =>
    intro s w fb
    unfold BufR.copyBuffered copyGeneric
    simp only [ih]
    by_cases h : fb = 0
    · simp [h]
    · simp only [h, if_false]
      cases (BufR.impl e).readBits s (min fb 64) with
      | ok p =>
        obtain ⟨v, s'⟩ := p
        cases wi.writeBits w v (min fb 64) with
        | ok q => obtain ⟨_, w'⟩ := q; rfl
        | err _ => rfl
        | panic => rfl
        | dpanic => rfl
      | err _ => rfl
      | panic => rfl
      | dpanic => rfl

theorem readBits_buffered (e : Endian) {s s' : BufR W} {n v : Nat} (hn : n ≤ s.bib)
    (h : (BufR.impl e).readBits s n = .ok (v, s')) : s'.back = s.back ∧ s'.bib = s.bib - n := by
  cases e
  · change readBitsBE s n = _ at h
    unfold readBitsBE at h
    by_cases h64 : n > 64
    · simp [h64] at h
    · simp only [h64, if_false, hn, if_true, Res.ok.injEq, Prod.mk.injEq] at h
      rw [← h.2]; exact ⟨rfl, rfl⟩
  · change readBitsLE s n = _ at h
    unfold readBitsLE at h
    by_cases h64 : n > 64
    · simp [h64] at h
    · simp only [h64, if_false, hn, if_true, Res.ok.injEq, Prod.mk.injEq] at h
      rw [← h.2]; exact ⟨rfl, rfl⟩

theorem copyStep_ok {ρ ω} {ri : RImpl ρ} {wi : WImpl ω} {r r' : ρ} {w w' : ω} {k : Nat}
    (h : copyStep ri wi r w k = .ok (r', w')) :
    ∃ v x, ri.readBits r k = .ok (v, r') ∧ wi.writeBits w v k = .ok (x, w') := by
  unfold copyStep at h
  cases h1 : ri.readBits r k with
  | ok p =>
    obtain ⟨v, r1⟩ := p
    rw [h1] at h
    simp only at h
    cases h2 : wi.writeBits w v k with
    | ok q =>
      obtain ⟨x, w1⟩ := q
      rw [h2] at h
      simp only [Res.ok.injEq, Prod.mk.injEq] at h
      obtain ⟨rfl, rfl⟩ := h
      exact ⟨v, x, rfl, h2⟩
    | err _ => rw [h2] at h; cases h
    | panic => rw [h2] at h; cases h
    | dpanic => rw [h2] at h; cases h
  | err _ => rw [h1] at h; cases h
  | panic => rw [h1] at h; cases h
  | dpanic => rw [h1] at h; cases h

theorem copyGeneric_buffered {ω} (e : Endian) (wi : WImpl ω) :
    ∀ (fuel : Nat) (s s1 : BufR W) (w w1 : ω) (fb : Nat), fb ≤ s.bib →
      copyGeneric (BufR.impl e) wi fuel s w fb = .ok (s1, w1) →
      s1.back = s.back ∧ s1.bib = s.bib - fb := by
  intro fuel
  induction fuel with
  | zero =>
    intro s s1 w w1 fb _ h
    unfold copyGeneric at h
    by_cases h0 : fb = 0
    · simp only [h0, if_true, Res.ok.injEq, Prod.mk.injEq] at h
      rw [← h.1, h0]; exact ⟨rfl, rfl⟩
    · simp [h0] at h
  | succ fuel ih =>
    intro s s1 w w1 fb hfb h
    rw [copyGeneric_succ] at h
    by_cases h0 : fb = 0
    · simp only [h0, if_true, Res.ok.injEq, Prod.mk.injEq] at h
      rw [← h.1, h0]; exact ⟨rfl, rfl⟩
    · rw [if_neg h0] at h
      cases hs : copyStep (BufR.impl e) wi s w (min fb 64) with
      | ok p =>
        obtain ⟨s', w'⟩ := p
        rw [hs] at h
        obtain ⟨v, x, hr, _⟩ := copyStep_ok hs
        have hk : min fb 64 ≤ s.bib := Nat.le_trans (Nat.min_le_left _ _) hfb
        obtain ⟨hb1, hb2⟩ := readBits_buffered e hk hr
        have := ih s' s1 w' w1 (fb - min fb 64) (by rw [hb2]; omega) h
        rw [hb1, hb2] at this
        exact ⟨this.1, by rw [this.2]; omega⟩
      | err _ => rw [hs] at h; cases h
      | panic => rw [hs] at h; cases h
      | dpanic => rw [hs] at h; cases h

/-! ### the backend seen from the reference reader -/

/-- the reference reader sits at the backend's word position (an empty buffer) -/
structure BackRel (e : Endian) (m : MemR W) (r : RefR) : Prop where
  he      : r.e = e
  hstrict : r.strict = m.strict
  hpm     : r.peekMax = W
  hstream : r.stream = m.data.flatMap (wordBits e)
  hpos    : r.pos = m.pos * W
  hstr    : m.strict = true → m.pos ≤ m.data.length

theorem BackRel.of_rel {e : Endian} {s : BufR W} {r : RefR} (h : BufR.Rel e s r) (h0 : s.bib = 0) :
    BackRel e s.back r := by
  obtain ⟨_, _, h3, h4, h5, h6, h7, h8, _⟩ := h
  exact ⟨h3, h4, h5, h6, by omega, h8⟩

theorem BackRel.word {e : Endian} {m : MemR W} {r : RefR} (h : BackRel e m r) :
    takeZ W r.rest = wordBits e (m.data.getD m.pos 0) := by
  apply list_eq_of_bitZ (by simp)
  intro i hi
  have hi' : i < W := by simpa using hi
  rw [bitZ_takeZ, RefR.rest, bitZ_drop, h.hstream, h.hpos, bitZ_flatMap_word _ _ _ _ hi']
  simp [hi']

theorem BackRel.in_range {e : Endian} {m : MemR W} {r : RefR} (h : BackRel e m r) {k : Nat}
    (hk : 0 < k) (hav : r.avail k = true) : m.strict = true → m.pos < m.data.length := by
  intro hs
  have hs' : r.strict = true := by rw [h.hstrict]; exact hs
  unfold RefR.avail at hav
  rw [hs'] at hav
  simp only [Bool.not_true, Bool.false_or, decide_eq_true_eq] at hav
  rw [h.hstream, length_flatMap_wordBits, h.hpos] at hav
  have : m.pos * W < m.data.length * W := by omega
  exact Nat.lt_of_mul_lt_mul_right this

theorem BackRel.advance {e : Endian} {m : MemR W} {r : RefR} (h : BackRel e m r)
    (hlt : m.strict = true → m.pos < m.data.length) :
    BackRel e { m with pos := m.pos + 1 } { r with pos := r.pos + W } := by
  refine ⟨h.he, h.hstrict, h.hpm, h.hstream, ?_, ?_⟩
  · show r.pos + W = (m.pos + 1) * W
    rw [Nat.succ_mul, h.hpos]
  · intro hs
    exact hlt hs

/-! ### the whole-word loop -/

/-- what `copyWords` guarantees, against the specification -/
def CWPost {ω} (e : Endian) (Q : ω → RefW → Prop) (r : RefR) (w : RefW) (nn : Nat) :
    Res (MemR W × ω × Nat) → Prop
  | .ok (m', t', nn') =>
    nn' ≤ nn ∧ nn' ≤ W ∧ (0 < nn → 0 < nn') ∧
      ∃ r' w', refCopy r w (nn - nn') = .ok (r', w') ∧ BackRel e m' r' ∧ Q t' w'
  | .err x => refCopy r w nn = .err x
  | .panic => refCopy r w nn = .panic
  | .dpanic => refCopy r w nn = .dpanic

theorem word_val {w : BitVec W} (hW : W ≤ 64) : (w.setWidth 64).toNat = w.toNat := by
  rw [BitVec.toNat_setWidth]
  exact Nat.mod_eq_of_lt (Nat.lt_of_lt_of_le w.isLt (Nat.pow_le_pow_right (by decide) hW))

theorem copyWords_spec {ω} {wi : WImpl ω} {Q : ω → RefW → Prop} (hw : WSim wi Q) {e : Endian}
    (hW0 : 0 < W) (hW : W ≤ 64) :
    ∀ (fuel : Nat) (m : MemR W) (t : ω) (r : RefR) (w : RefW) (nn : Nat),
      BackRel e m r → Q t w → w.e = e → w.fits w.bits = true → r.avail nn = true →
      nn ≤ fuel + W → CWPost e Q r w nn (BufR.copyWords wi fuel m t nn) := by
  have hstop : ∀ (m : MemR W) (t : ω) (r : RefR) (w : RefW) (nn : Nat),
      BackRel e m r → Q t w → w.fits w.bits = true → r.avail nn = true → nn ≤ W →
      CWPost e Q r w nn (.ok (m, t, nn)) := by
    intro m t r w nn hB hQ hfit hav hle
    refine ⟨Nat.le_refl _, hle, fun h => h, r, w, ?_, hB, hQ⟩
    rw [Nat.sub_self]
    exact refCopy_zero r w (avail_mono r (Nat.zero_le _) hav) hfit
  intro fuel
  induction fuel with
  | zero =>
    intro m t r w nn hB hQ _ hfit hav hle
    exact hstop m t r w nn hB hQ hfit hav (by omega)
  | succ fuel ih =>
    intro m t r w nn hB hQ hwe hfit hav hle
    unfold BufR.copyWords
    by_cases hgt : nn > W
    · rw [if_pos hgt]
      have hrange := hB.in_range hW0 (avail_mono r (Nat.le_of_lt hgt) hav)
      rw [MemR.readWord_ok m hrange]
      simp only
      have hst := write_stage hw hQ (r := r) (k := W) (v := ((m.data.getD m.pos 0).setWidth 64).toNat)
        hW (by rw [hwe, hB.he]) (avail_mono r (Nat.le_of_lt hgt) hav)
        (Or.inr (by
          rw [word_val hW]
          exact Nat.lt_of_le_of_lt (Nat.mod_le _ _) (BitVec.isLt _)))
        (by rw [word_val hW, hB.word, hB.he]; rfl)
      have hsplit : nn = W + (nn - W) := by omega
      revert hst
      cases wi.writeBits t ((m.data.getD m.pos 0).setWidth 64).toNat W with
      | ok q =>
        obtain ⟨_, t1⟩ := q
        intro hst
        cases hc : refCopy r w W with
        | ok b =>
          obtain ⟨r1, w1⟩ := b
          rw [hc] at hst
          obtain ⟨hr1, hQ1⟩ := hst
          simp only at hr1 hQ1
          subst hr1
          obtain ⟨_, hwe1, _, hfit1, _⟩ := refCopy_ok_facts hc
          have hrec := ih { m with pos := m.pos + 1 } t1 _ w1 (nn - W) (hB.advance hrange) hQ1
            (by rw [hwe1, hwe]) hfit1
            (by rw [avail_advance, ← hsplit]; exact hav) (by omega)
          simp only
          revert hrec
          cases BufR.copyWords wi fuel { m with pos := m.pos + 1 } t1 (nn - W) with
          | ok p =>
            obtain ⟨m', t', nn'⟩ := p
            rintro ⟨h1, h2, h3, r', w', h4, h5, h6⟩
            refine ⟨by omega, h2, fun _ => h3 (by omega), r', w', ?_, h5, h6⟩
            rw [show nn - nn' = W + (nn - W - nn') by omega, seq_eq_ok hc]
            exact h4
          | err x => intro h; show refCopy r w nn = _; rw [hsplit, seq_eq_ok hc]; exact h
          | panic => intro h; show refCopy r w nn = _; rw [hsplit, seq_eq_ok hc]; exact h
          | dpanic => intro h; show refCopy r w nn = _; rw [hsplit, seq_eq_ok hc]; exact h
        | err _ => rw [hc] at hst; exact hst.elim
        | panic => rw [hc] at hst; exact hst.elim
        | dpanic => rw [hc] at hst; exact hst.elim
      | err x =>
        intro hst
        show refCopy r w nn = _
        cases hc : refCopy r w W with
        | err y =>
          rw [hc] at hst
          have : x = y := hst
          subst this
          rw [hsplit]; exact seq_eq_err _ hc
        | ok _ => rw [hc] at hst; exact hst.elim
        | panic => rw [hc] at hst; exact hst.elim
        | dpanic => rw [hc] at hst; exact hst.elim
      | panic =>
        intro hst
        show refCopy r w nn = _
        cases hc : refCopy r w W with
        | panic => rw [hsplit]; exact seq_eq_panic _ hc
        | ok _ => rw [hc] at hst; exact hst.elim
        | err _ => rw [hc] at hst; exact hst.elim
        | dpanic => rw [hc] at hst; exact hst.elim
      | dpanic =>
        intro hst
        show refCopy r w nn = _
        cases hc : refCopy r w W with
        | dpanic => rw [hsplit]; exact seq_eq_dpanic _ hc
        | ok _ => rw [hc] at hst; exact hst.elim
        | err _ => rw [hc] at hst; exact hst.elim
        | panic => rw [hc] at hst; exact hst.elim
    · rw [if_neg hgt]
      exact hstop m t r w nn hB hQ hfit hav (by omega)

/-! ### the split tail word -/

theorem BackRel.take {e : Endian} {m : MemR W} {r : RefR} (h : BackRel e m r) {n : Nat}
    (hn : n ≤ W) : takeZ n r.rest = takeZ n (wordBits e (m.data.getD m.pos 0)) := by
  have h2 := takeZ_add n (W - n) r.rest
  rw [show n + (W - n) = W by omega] at h2
  rw [← h.word, h2, takeZ_append_left _ _ n (length_takeZ n _)]

theorem tail_bits_be (word : BitVec W) {n : Nat} (hn : n ≤ W) :
    takeZ n (wordBits .be word) = fieldBits .be (word.toNat / 2 ^ (W - n)) n := by
  unfold wordBits
  rw [fieldBE_cut word.toNat (n := W) (b := W - n) (by omega), show W - (W - n) = n by omega,
    takeZ_append_left _ _ n (by simp)]

theorem tail_bits_le (word : BitVec W) {n : Nat} (hn : n ≤ W) :
    takeZ n (wordBits .le word) = fieldBits .le word.toNat n := by
  unfold wordBits
  simp only [fieldBits]
  rw [fieldLE_cut word.toNat (n := W) (a := n) hn, takeZ_append_left _ _ n (by simp)]

theorem tail_val_be (word : BitVec W) {n : Nat} (hW : W ≤ 64) :
    ((word >>> (W - n)).setWidth 64).toNat = word.toNat / 2 ^ (W - n) := by
  rw [word_val hW, BitVec.toNat_ushiftRight, Nat.shiftRight_eq_div_pow]

theorem tail_lt_be (word : BitVec W) {n : Nat} (hn : n ≤ W) : word.toNat / 2 ^ (W - n) < 2 ^ n := by
  apply Nat.div_lt_of_lt_mul
  rw [← Nat.pow_add, show W - n + n = W by omega]
  exact word.isLt

/-- the value the LE tail hands to `write_bits` -/
def tailLE (checks : Bool) (word : BitVec W) (n : Nat) : BitVec 64 :=
  if checks && decide (n < 64) then word.setWidth 64 &&& (((1 : BitVec 64) <<< n) - 1)
  else word.setWidth 64

theorem tailLE_testBit (checks : Bool) (word : BitVec W) {n i : Nat} (hn : n ≤ 64) (hi : i < n) :
    (tailLE checks word n).toNat.testBit i = word.toNat.testBit i := by
  unfold tailLE
  split
  · rename_i h
    simp only [Bool.and_eq_true, decide_eq_true_eq] at h
    rw [BitVec.testBit_toNat, BitVec.getLsbD_and, getLsbD_mask h.2, BitVec.getLsbD_setWidth,
      BitVec.testBit_toNat]
    simp [hi, show i < 64 by omega]
  · rw [BitVec.testBit_toNat, BitVec.getLsbD_setWidth, BitVec.testBit_toNat]
    simp [show i < 64 by omega]

theorem tailLE_clean (word : BitVec W) {n : Nat} (hn : n ≤ 64) :
    (tailLE true word n).toNat % 2 ^ 64 < 2 ^ n := by
  rw [Nat.mod_eq_of_lt (BitVec.isLt _)]
  by_cases h64 : n < 64
  · apply Nat.lt_pow_two_of_testBit
    intro i hi
    unfold tailLE
    simp only [Bool.true_and, h64, decide_true, if_true]
    rw [BitVec.testBit_toNat, BitVec.getLsbD_and, getLsbD_mask h64]
    simp [show ¬ i < n by omega]
  · have : n = 64 := by omega
    subst this
    exact BitVec.isLt _

theorem tail_buffer_be (word : BitVec W) {n : Nat} (hn0 : 0 < n) (hn : n ≤ W) :
    (word.setWidth (2 * W) <<< (2 * W - (W - n) - 1)) <<< 1 = word.setWidth (2 * W) <<< (W + n) := by
  rw [← BitVec.shiftLeft_add]
  congr 1
  omega

/-- `copy_to`'s tail: the word split between the writer and the reader's buffer -/
def copyTail {ω} (e : Endian) (checks : Bool) (wi : WImpl ω) (back : MemR W) (w2 : ω) (n : Nat) :
    Res (BufR W × ω) :=
  match back.readWord with
  | .ok (word, back') =>
    let bib := W - n
    let tailBits : BitVec 64 := match e with
      | .be => (word >>> bib).setWidth 64
      | .le =>
        let nw : BitVec 64 := word.setWidth 64
        if checks && decide (n < 64) then nw &&& (((1 : BitVec 64) <<< n) - 1) else nw
    match wi.writeBits w2 tailBits.toNat n with
    | .ok (_, w3) =>
      let buffer : BitVec (2 * W) := match e with
        | .be => (word.setWidth (2 * W) <<< (2 * W - bib - 1)) <<< 1
        | .le => word.setWidth (2 * W) >>> n
      .ok ({ buffer := buffer, bib := bib, back := back' }, w3)
    | .err er => .err er
    | .panic => .panic
    | .dpanic => .dpanic
  | .err er => .err er
  | .panic => .panic
  | .dpanic => .dpanic

theorem copyTo_eq {ω} (e : Endian) (checks : Bool) (wi : WImpl ω) (s : BufR W) (w : ω) (n : Nat) :
    BufR.copyTo e checks wi s w n =
      match BufR.copyBuffered e wi (min n s.bib) s w (min n s.bib) with
      | .ok (s1, w1) =>
        if n - min n s.bib = 0 then .ok (s1, w1)
        else
          match BufR.copyWords wi (n - min n s.bib) s1.back w1 (n - min n s.bib) with
          | .ok (back, w2, n') => copyTail e checks wi back w2 n'
          | .err er => .err er
          | .panic => .panic
          | .dpanic => .dpanic
      | .err er => .err er
      | .panic => .panic
      | .dpanic => .dpanic := by
  rfl

/-- finishing a tail: the writer step's outcome decides -/
theorem tail_finish {ω} {Q : ω → RefW → Prop} {e : Endian} {r : RefR} {w : RefW} {n : Nat}
    {x : Res (Nat × ω)} {sf : BufR W}
    (hst : ResRel (fun a b => b.1 = { r with pos := r.pos + n } ∧ Q a.2 b.2) x (refCopy r w n))
    (hrel : BufR.Rel e sf { r with pos := r.pos + n }) :
    ResRel (PQ (BufR.Rel e) Q)
      (match x with
        | .ok (_, w3) => .ok (sf, w3)
        | .err er => .err er
        | .panic => .panic
        | .dpanic => .dpanic)
      (refCopy r w n) := by
  revert hst
  cases x with
  | ok q =>
    obtain ⟨_, w3⟩ := q
    cases refCopy r w n with
    | ok b =>
      obtain ⟨r', w'⟩ := b
      rintro ⟨h1, h2⟩
      simp only at h1 h2
      subst h1
      exact ⟨hrel, h2⟩
    | err _ => intro h; exact h.elim
    | panic => intro h; exact h.elim
    | dpanic => intro h; exact h.elim
  | err _ => cases refCopy r w n <;> intro h <;> first | exact h | exact h.elim
  | panic => cases refCopy r w n <;> intro h <;> first | exact h | exact h.elim
  | dpanic => cases refCopy r w n <;> intro h <;> first | exact h | exact h.elim

theorem copyTail_sim {ω} {wi : WImpl ω} {Q : ω → RefW → Prop} (hw : WSim wi Q) {e : Endian}
    (checks : Bool) (hW0 : 0 < W) (hW : W ≤ 64) {m : MemR W} {t : ω} {r : RefR} {w : RefW}
    {n : Nat} (hB : BackRel e m r) (hQ : Q t w) (hwe : w.e = e)
    (hck : e = .le → w.checks = true → checks = true) (hn0 : 0 < n) (hnW : n ≤ W)
    (hav : r.avail n = true) :
    ResRel (PQ (BufR.Rel e) Q) (copyTail e checks wi m t n) (refCopy r w n) := by
  have hrange := hB.in_range hn0 hav
  have hBe := hB.he
  unfold copyTail
  rw [MemR.readWord_ok m hrange]
  cases e with
  | be =>
    dsimp only
    rw [tail_buffer_be _ hn0 hnW]
    refine tail_finish ?_ ?_
    · refine write_stage hw hQ (by omega) (by rw [hwe, hBe]) hav (Or.inr ?_) ?_
      · rw [tail_val_be _ hW]
        exact Nat.lt_of_le_of_lt (Nat.mod_le _ _) (tail_lt_be _ hnW)
      · rw [tail_val_be _ hW, hB.take hnW, hBe, tail_bits_be _ hnW]
    · exact (rel_be_iff _ _).2 (relBE_after_word hW0 m n _ hBe hB.hstrict hB.hpm hB.hstream
        (by show r.pos + n = m.pos * W + n; rw [hB.hpos]) hnW hrange)
  | le =>
    dsimp only
    refine tail_finish (x := wi.writeBits t (tailLE checks (m.data.getD m.pos 0) n).toNat n) ?_ ?_
    · refine write_stage hw hQ (by omega) (by rw [hwe, hBe]) hav ?_ ?_
      · cases hc : checks with
        | false =>
          left
          cases hwc : w.checks with
          | false => rfl
          | true => have := hck rfl hwc; rw [hc] at this; cases this
        | true => right; exact tailLE_clean _ (by omega)
      · rw [hB.take hnW, hBe, tail_bits_le _ hnW]
        exact fieldBits_congr_wr .le (fun i hi => tailLE_testBit checks _ (by omega) hi)
    · exact (rel_le_iff _ _).2 (relLE_after_word hW0 m n _ hBe hB.hstrict hB.hpm hB.hstream
        (by show r.pos + n = m.pos * W + n; rw [hB.hpos]) hnW hrange)

/-! ### `copy_to` -/

/-- **`BufBitReader::copy_to`** writing through any simulating writer `wi`: it moves the reader's
    next `n` bits.  `W ≤ 64` is needed (the word loop calls `write_bits(word, W)`); the LE tail is
    handed over unmasked unless `checks`, so a checking writer needs `checks = true`. -/
theorem copyTo_sim_gen {ω} {wi : WImpl ω} {Q : ω → RefW → Prop} (hw : WSim wi Q) {e : Endian}
    (checks : Bool) (hW : W ≤ 64) {s : BufR W} {r : RefR} {t : ω} {w : RefW} {n : Nat}
    (hP : BufR.Rel e s r) (hQ : Q t w) (hwe : w.e = e) (hfit : w.fits w.bits = true)
    (hck : e = .le → w.checks = true → checks = true) (hav : r.avail n = true) :
    ResRel (PQ (BufR.Rel e) Q) (BufR.copyTo e checks wi s t n) (refCopy r w n) := by
  have hW0 : 0 < W := Rel.pos_W hP
  have hre : r.e = e := hP.2.2.1
  rw [copyTo_eq]
  have hfb : min n s.bib ≤ s.bib := Nat.min_le_right _ _
  have hfbn : min n s.bib ≤ n := Nat.min_le_left _ _
  generalize hfbdef : min n s.bib = fb at hfb hfbn
  have hsplit : n = fb + (n - fb) := by omega
  have hrhs : refCopy r w n = refCopy r w (fb + (n - fb)) := by rw [← hsplit]
  -- the buffered part
  have h1 : ResRel (PQ (BufR.Rel e) Q) (BufR.copyBuffered e wi fb s t fb) (refCopy r w fb) := by
    rw [copyBuffered_eq]
    have := copyGeneric_sim_gen (rsim_bufR (W := W) (e := e) (fun _ => hW)) hw fb fb hP hQ
    rwa [copyGeneric_ref_gen fb r w fb (by rw [hwe, hre]) (avail_mono r (Nat.zero_le n) hav) hfit
      (by omega)] at this
  have hframe : ∀ s1 t1, BufR.copyBuffered e wi fb s t fb = .ok (s1, t1) →
      s1.back = s.back ∧ s1.bib = s.bib - fb := by
    intro s1 t1 h
    rw [copyBuffered_eq] at h
    exact copyGeneric_buffered e wi fb s s1 t t1 fb hfb h
  revert h1 hframe
  cases BufR.copyBuffered e wi fb s t fb with
  | ok p =>
    obtain ⟨s1, t1⟩ := p
    intro h1 hframe
    obtain ⟨hback, hbib⟩ := hframe s1 t1 rfl
    cases hc1 : refCopy r w fb with
    | ok b =>
      obtain ⟨r1, w1⟩ := b
      rw [hc1] at h1
      obtain ⟨hP1, hQ1⟩ := h1
      simp only at hP1 hQ1
      obtain ⟨hr1, hwe1, hck1, hfit1, _⟩ := refCopy_ok_facts hc1
      simp only
      by_cases h0 : n - fb = 0
      · rw [if_pos h0]
        have : n = fb := by omega
        rw [this, hc1]
        exact ⟨hP1, hQ1⟩
      · rw [if_neg h0]
        have hbib0 : s1.bib = 0 := by omega
        have hB1 : BackRel e s1.back r1 := BackRel.of_rel hP1 hbib0
        have hav1 : r1.avail (n - fb) = true := by
          rw [hr1, avail_advance, ← hsplit]; exact hav
        have hcw := copyWords_spec hw hW0 hW (n - fb) s1.back t1 r1 w1 (n - fb) hB1 hQ1
          (by rw [hwe1, hwe]) hfit1 hav1 (by omega)
        rw [hrhs]
        revert hcw
        cases BufR.copyWords wi (n - fb) s1.back t1 (n - fb) with
        | ok q =>
          obtain ⟨m', t2, n'⟩ := q
          rintro ⟨hle, hleW, hpos, r2, w2, hc2, hB2, hQ2⟩
          obtain ⟨hr2, hwe2, hck2, hfit2, _⟩ := refCopy_ok_facts hc2
          refine seq_ok hc1 ?_
          rw [show n - fb = (n - fb - n') + n' by omega]
          refine seq_ok hc2 ?_
          refine copyTail_sim hw checks hW0 hW hB2 hQ2 (by rw [hwe2, hwe1, hwe]) ?_ (hpos (by omega))
            hleW ?_
          · intro hle' hwc
            rw [hck2, hck1] at hwc
            exact hck hle' hwc
          · rw [hr2, avail_advance, show n - fb - n' + n' = n - fb by omega]
            exact hav1
        | err x => intro h; rw [seq_eq_ok hc1, show refCopy r1 w1 (n - fb) = _ from h]; rfl
        | panic => intro h; rw [seq_eq_ok hc1, show refCopy r1 w1 (n - fb) = _ from h]; trivial
        | dpanic => intro h; rw [seq_eq_ok hc1, show refCopy r1 w1 (n - fb) = _ from h]; trivial
    | err _ => rw [hc1] at h1; exact h1.elim
    | panic => rw [hc1] at h1; exact h1.elim
    | dpanic => rw [hc1] at h1; exact h1.elim
  | err x =>
    intro h1 _
    cases hc1 : refCopy r w fb with
    | err y =>
      rw [hc1] at h1
      have : x = y := h1
      subst this
      rw [hrhs, seq_eq_err _ hc1]; rfl
    | ok _ => rw [hc1] at h1; exact h1.elim
    | panic => rw [hc1] at h1; exact h1.elim
    | dpanic => rw [hc1] at h1; exact h1.elim
  | panic =>
    intro h1 _
    cases hc1 : refCopy r w fb with
    | panic => rw [hrhs, seq_eq_panic _ hc1]; trivial
    | ok _ => rw [hc1] at h1; exact h1.elim
    | err _ => rw [hc1] at h1; exact h1.elim
    | dpanic => rw [hc1] at h1; exact h1.elim
  | dpanic =>
    intro h1 _
    cases hc1 : refCopy r w fb with
    | dpanic => rw [hrhs, seq_eq_dpanic _ hc1]; trivial
    | ok _ => rw [hc1] at h1; exact h1.elim
    | err _ => rw [hc1] at h1; exact h1.elim
    | panic => rw [hc1] at h1; exact h1.elim

end CopyL
end Dsi
