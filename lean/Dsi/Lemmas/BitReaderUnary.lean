/-
  Unbuffered `BitReader`: `read_unary` (the word-scanning loop) against the reference reader.
-/
import Dsi.Lemmas.BitReaderOps
namespace Dsi
namespace BitRd
open BufR (readUnary_some readUnary_none none_ahead)

/-- bit `i` of a word in scan order: LE from the least significant bit, BE from the most -/
def scanBit (e : Endian) (w : BitVec 64) (i : Nat) : Bool :=
  match e with
  | .le => w.getLsbD i
  | .be => w.getMsbD i

/-- `leading_zeros` (BE) / `trailing_zeros` (LE) -/
def zerosOf (e : Endian) (w : BitVec 64) : Nat :=
  match e with
  | .be => BufR.clz w
  | .le => BufR.ctz w

theorem zerosOf_le (e : Endian) (w : BitVec 64) : zerosOf e w ≤ 64 := by
  cases e
  · exact clz_le w
  · exact ctz_le w

theorem zerosOf_below (e : Endian) (w : BitVec 64) (i : Nat) (h : i < zerosOf e w) :
    scanBit e w i = false := by
  cases e
  · exact clz_zero_below w i h
  · exact ctz_zero_below w i h

theorem zerosOf_one (e : Endian) (w : BitVec 64) (h : zerosOf e w < 64) :
    scanBit e w (zerosOf e w) = true := by
  cases e
  · exact clz_one w h
  · exact ctz_one w h

/-- the scan-order bits of word `j` are the stream bits `j * 64 ..` -/
theorem scanBit_word (e : Endian) (data : List (BitVec 64)) (j i : Nat) (h : i < 64) :
    scanBit e (data.getD j 0) i = bitZ (data.flatMap (wordBits e)) (j * 64 + i) := by
  cases e
  · have := word_getLsbD_be data j i h
    simp only [Nat.add_one_sub_one] at this
    rw [← this]
    simp [scanBit, BitVec.getMsbD_eq_getLsbD, h]
  · exact word_getLsbD_le data j i h

/-- the first word of a unary read, with the consumed bits shifted out -/
def firstWord (e : Endian) (w : BitVec 64) (off : Nat) : BitVec 64 :=
  match e with
  | .be => w <<< off
  | .le => w >>> off

theorem unaryLoop_succ (e : Endian) (fuel : Nat) (d : MemR 64) (word : BitVec 64) (biw total : Nat) :
    BitR.unaryLoop e (fuel + 1) d word biw total =
      if zerosOf e word < biw then .ok (total + zerosOf e word, d)
      else
        match d.readWord with
        | .ok (w, d') => BitR.unaryLoop e fuel d' w 64 (total + biw)
        | .err er => .err er
        | .panic => .panic
        | .dpanic => .dpanic := by
  cases e <;> rfl

theorem readUnary_eq (e : Endian) (s : BitR) :
    BitR.readUnary e s =
      match s.data.setWordPos (s.bitIndex / 64) with
      | .ok d0 =>
        match d0.readWord with
        | .ok (w, d1) =>
          match BitR.unaryLoop e (d1.data.length + 3 - d1.pos) d1 (firstWord e w (s.bitIndex % 64))
              (64 - s.bitIndex % 64) 0 with
          | .ok (r, d2) => .ok (r, { data := d2, bitIndex := s.bitIndex + r + 1 })
          | .err er => .err er
          | .panic => .panic
          | .dpanic => .dpanic
        | .err er => .err er
        | .panic => .panic
        | .dpanic => .dpanic
      | .err er => .err er
      | .panic => .panic
      | .dpanic => .dpanic := by
  cases e <;> rfl

/-- outcome relation of the unary loop: same count, backend over the same data, reference moved
    past the terminating one -/
def UnaryPost (d : MemR 64) (r : RefR) (a : Nat × MemR 64) (b : Nat × RefR) : Prop :=
  a.1 = b.1 ∧ a.2.data = d.data ∧ a.2.strict = d.strict ∧ b.2 = { r with pos := r.pos + a.1 + 1 }

theorem unaryLoop_spec (e : Endian) (fuel : Nat) (d : MemR 64) (word : BitVec 64) (biw total : Nat)
    (r : RefR) (hstrict : r.strict = d.strict) (hstream : r.stream = d.data.flatMap (wordBits e))
    (hpos : r.pos + (total + biw) = d.pos * 64) (hb : biw ≤ 64)
    (hz : ∀ i, i < total → bitZ r.stream (r.pos + i) = false)
    (hw : ∀ i, i < biw → scanBit e word i = bitZ r.stream (r.pos + (total + i)))
    (hstr : d.strict = true → d.pos ≤ d.data.length)
    (hfuel : d.data.length + 3 - d.pos ≤ fuel) :
    ResRel (UnaryPost d r) (BitR.unaryLoop e fuel d word biw total) (RefR.readUnary r) := by
  have hlen : r.stream.length = d.data.length * 64 := by rw [hstream, length_flatMap_wordBits]
  induction fuel generalizing d word biw total with
  | zero =>
    have hs : d.strict = false := by
      cases hst : d.strict
      · rfl
      · have := hstr hst; omega
    rw [readUnary_none (by
      intro i
      by_cases hi : i < total
      · exact hz i hi
      · exact bitZ_of_ge (by omega)), hstrict, hs]
    simp [BitR.unaryLoop, ResRel]
  | succ fuel ih =>
    rw [unaryLoop_succ]
    have hz1 := zerosOf_below e word
    have hz2 := zerosOf_one e word
    generalize zerosOf e word = zeros at hz1 hz2
    by_cases hc : zeros < biw
    · simp only [if_pos hc]
      rw [readUnary_some (z := total + zeros)
        (by
          intro i hi
          by_cases hi' : i < total
          · exact hz i hi'
          · have e1 : total + (i - total) = i := by omega
            rw [← e1, ← hw (i - total) (by omega)]
            exact hz1 _ (by omega))
        (by
          rw [← hw zeros hc]
          exact hz2 (by omega))]
      exact ⟨rfl, rfl, rfl, rfl⟩
    · simp only [if_neg hc]
      have hz' : ∀ i, i < total + biw → bitZ r.stream (r.pos + i) = false := by
        intro i hi
        by_cases hi' : i < total
        · exact hz i hi'
        · have e1 : total + (i - total) = i := by omega
          rw [← e1, ← hw (i - total) (by omega)]
          exact hz1 _ (by omega)
      by_cases hp : d.strict = true ∧ d.data.length ≤ d.pos
      · rw [MemR.readWord_err _ hp.1 hp.2,
          readUnary_none (none_ahead d (total + biw) r hstream hpos hz' hp.2), hstrict, hp.1]
        simp [ResRel]
      · have hp' : d.strict = true → d.pos < d.data.length := by
          intro hs; exact Nat.lt_of_not_le (fun hle => hp ⟨hs, hle⟩)
        rw [MemR.readWord_ok _ hp']
        simp only []
        have esm : (d.pos + 1) * 64 = d.pos * 64 + 64 := Nat.succ_mul _ _
        exact ih { d with pos := d.pos + 1 } (d.data.getD d.pos 0) 64 (total + biw) hstrict hstream
          (by show r.pos + (total + biw + 64) = (d.pos + 1) * 64; omega) (Nat.le_refl _) hz'
          (by
            intro i hi
            rw [scanBit_word e d.data d.pos i hi, hstream]
            congr 1
            omega)
          (fun hs => hp' hs)
          (by show d.data.length + 3 - (d.pos + 1) ≤ fuel; omega)
          hlen

/-- no restriction: on a zero-extended stream with no one ahead the model runs out of fuel
    (`dpanic`) exactly where the reference is `dpanic`; on a strict stream both are `err eof` -/
theorem readUnary_sim {e : Endian} {s : BitR} {r : RefR} (h : BitR.Rel e s r) :
    ResRel (fun a b => a.1 = b.1 ∧ BitR.Rel e a.2 b.2) (BitR.readUnary e s) (RefR.readUnary r) := by
  have hlen := rel_length h
  have hrel := h
  obtain ⟨he, hstrict, hpm, hstream, hpos⟩ := h
  obtain ⟨⟨data, mpos, strict⟩, bi⟩ := s
  simp only at hlen hstrict hstream hpos
  have hdm : bi / 64 * 64 + bi % 64 = bi := Nat.div_add_mod' bi 64
  have hm : bi % 64 < 64 := Nat.mod_lt _ (by decide)
  have hbeyond : data.length * 64 ≤ r.pos → ∀ i, bitZ r.stream (r.pos + i) = false :=
    fun hle i => bitZ_of_ge (by omega)
  rw [readUnary_eq]
  unfold MemR.setWordPos
  simp only []
  by_cases c1 : strict = true ∧ bi / 64 > data.length
  · have c1' : (strict && decide (bi / 64 > data.length)) = true := by simp [c1.1, c1.2]
    simp only [if_pos c1']
    rw [readUnary_none (hbeyond (by omega)), hstrict, c1.1]
    simp [ResRel]
  · have c1' : ¬ ((strict && decide (bi / 64 > data.length)) = true) := by
      simp only [Bool.and_eq_true, decide_eq_true_eq]; exact c1
    simp only [if_neg c1']
    by_cases hp : strict = true ∧ data.length ≤ bi / 64
    · rw [MemR.readWord_err _ hp.1 hp.2, readUnary_none (hbeyond (by omega)), hstrict, hp.1]
      simp [ResRel]
    · have hp' : strict = true → bi / 64 < data.length := by
        intro hs; exact Nat.lt_of_not_le (fun hle => hp ⟨hs, hle⟩)
      rw [MemR.readWord_ok _ hp']
      simp only []
      have esm : (bi / 64 + 1) * 64 = bi / 64 * 64 + 64 := Nat.succ_mul _ _
      have hpost := unaryLoop_spec e (data.length + 3 - (bi / 64 + 1))
        { data := data, pos := bi / 64 + 1, strict := strict }
        (firstWord e (data.getD (bi / 64) 0) (bi % 64))
        (64 - bi % 64) 0 r hstrict hstream
        (by show r.pos + (0 + (64 - bi % 64)) = (bi / 64 + 1) * 64; omega) (by omega)
        (fun i hi => absurd hi (Nat.not_lt_zero _))
        (by
          intro i hi
          have hsw := scanBit_word e data (bi / 64) (bi % 64 + i) (by omega)
          have e2 : bi / 64 * 64 + (bi % 64 + i) = r.pos + (0 + i) := by omega
          rw [← hstream, e2] at hsw
          rw [← hsw]
          cases e
          · simp only [scanBit, firstWord]
            rw [BitVec.getMsbD_shiftLeft, Nat.add_comm]
          · simp only [scanBit, firstWord]
            rw [BitVec.getLsbD_ushiftRight])
        (fun hs => hp' hs) (Nat.le_refl _)
      revert hpost
      generalize BitR.unaryLoop e (data.length + 3 - (bi / 64 + 1))
        { data := data, pos := bi / 64 + 1, strict := strict } _ (64 - bi % 64) 0 = x
      generalize RefR.readUnary r = y
      intro hpost
      match x, y, hpost with
      | .ok (z, d2), .ok (z', r'), ⟨a1, a2, a3, a4⟩ =>
        simp only at a1 a2 a3 a4
        subst a1
        subst a4
        refine ⟨rfl, ?_⟩
        exact rel_move hrel a2 a3 rfl rfl rfl rfl (by show r.pos + z + 1 = bi + z + 1; rw [hpos])
      | .err _, .err _, hh => exact hh
      | .panic, .panic, _ => exact trivial
      | .dpanic, .dpanic, _ => exact trivial

end BitRd
end Dsi
