/-
  Word-level facts for the writer refinement: what each buffer expression of
  `BufBitWriter` holds, as bit lists.  Every lemma is for an arbitrary width `W` and an
  arbitrary (garbage-carrying) buffer.
-/
import Dsi.Lemmas.WriterBits
set_option linter.unusedSimpArgs false
namespace Dsi

/-- unfold `toNat.testBit` of a BitVec expression down to `getLsbD` of its leaves -/
macro "bits_simp" : tactic => `(tactic|
  simp only [BitVec.testBit_toNat, Nat.testBit_div_two_pow, BitVec.getLsbD_or,
    BitVec.getLsbD_shiftLeft, BitVec.getLsbD_and, BitVec.getLsbD_not, BitVec.getLsbD_setWidth,
    BitVec.getLsbD_allOnes, BitVec.getLsbD_ushiftRight, BitVec.getLsbD_rotateRight,
    BitVec.getLsbD_one, BitVec.getLsbD_zero, BitVec.ofNat_eq_ofNat, Nat.zero_testBit])

/-- decide every arithmetic side condition with `omega` and simplify the Boolean skeleton -/
macro "bits_omega" : tactic => `(tactic|
  simp (disch := omega) only [decide_eq_true, decide_eq_false, BitVec.getLsbD_of_ge,
    Bool.true_and, Bool.and_true,
    Bool.false_and, Bool.and_false, Bool.not_true, Bool.not_false, Bool.or_false, Bool.false_or,
    Bool.or_true, Bool.true_or, Nat.add_sub_cancel_left, Nat.add_sub_cancel, cond_true,
    cond_false, Nat.add_zero, Nat.zero_add])

macro "bits_done" : tactic => `(tactic|
  (bits_simp; (try bits_omega); (try (congr 1; omega))))

theorem testBit_one' (i : Nat) : Nat.testBit 1 i = decide (i = 0) := by
  have := @Nat.testBit_two_pow 0 i
  simp only [Nat.pow_zero] at this
  rw [this]; simp [eq_comm]

namespace BufW
variable {W : Nat}

/-- the pending bits of a buffer with `sp` free positions (`valid`, with the state opened);
    `sp = 0` gives the whole word -/
def validAt (e : Endian) (b : BitVec W) (sp : Nat) : List Bool :=
  match e with
  | .be => fieldBits .be b.toNat (W - sp)
  | .le => fieldBits .le (b.toNat / 2 ^ sp) (W - sp)

theorem valid_eq (e : Endian) (s : BufW W) : s.valid e = validAt e s.buffer s.space := by
  cases e <;> rfl

@[simp] theorem validAt_length (e : Endian) (b : BitVec W) (sp : Nat) :
    (validAt e b sp).length = W - sp := by
  cases e <;> simp [validAt]

theorem validAt_zero (e : Endian) (b : BitVec W) : validAt e b 0 = wordBits e b := by
  cases e <;> simp [validAt, wordBits]

@[simp] theorem wordBits_length (e : Endian) (w : BitVec W) : (wordBits e w).length = W := by
  simp [wordBits]

/-! ### `write_bits`, big endian -/

theorem fast_be (b : BitVec W) (v : BitVec 64) {sp n : Nat} (h1 : n < sp) (h2 : sp ≤ W) :
    validAt .be ((b <<< n) ||| (v.setWidth W &&& ~~~(BitVec.allOnes W <<< n))) (sp - n)
      = validAt .be b sp ++ fieldBits .be v.toNat n := by
  unfold validAt
  apply fieldBE_split (by omega)
  · intro i hi; bits_done
  · intro i hi; bits_done

theorem first_be (b : BitVec W) (v : BitVec 64) {sp n : Nat} (h0 : 1 ≤ sp) (h1 : sp ≤ n)
    (h2 : sp ≤ W) (h3 : n ≤ 64) :
    wordBits .be (((b <<< (sp - 1)) <<< 1) ||| ((v <<< (64 - n)) >>> (64 - sp)).setWidth W)
      = validAt .be b sp ++ fieldBits .be (v.toNat / 2 ^ (n - sp)) sp := by
  unfold validAt wordBits
  rw [← BitVec.shiftLeft_add, show sp - 1 + 1 = sp by omega]
  apply fieldBE_split (by omega)
  · intro i hi; bits_done
  · intro i hi; bits_done

theorem word_setWidth (e : Endian) (x : BitVec 64) :
    wordBits e (x.setWidth W) = fieldBits e x.toNat W := by
  unfold wordBits
  apply fieldBits_congr_wr
  intro i hi; bits_done

theorem last_be (v : BitVec 64) {t : Nat} (h : t < W) :
    validAt .be (v.setWidth W) (W - t) = fieldBits .be v.toNat t := by
  unfold validAt
  rw [show W - (W - t) = t by omega]
  apply fieldBits_congr_wr
  intro i hi; bits_done

/-! ### `write_bits`, little endian -/

theorem fast_le (b : BitVec W) (v : BitVec 64) {sp n : Nat} (h1 : n < sp) (h2 : sp ≤ W) :
    validAt .le ((b >>> n) ||| (v.setWidth W &&& ~~~(BitVec.allOnes W <<< n)).rotateRight n)
        (sp - n)
      = validAt .le b sp ++ fieldBits .le v.toNat n := by
  unfold validAt
  simp only [fieldBits]
  have hn : n % W = n := Nat.mod_eq_of_lt (by omega)
  apply fieldLE_split (by omega)
  · intro i hi; bits_simp; rw [hn]; bits_omega; congr 1; omega
  · intro i hi; bits_simp; rw [hn]; bits_omega; congr 1; omega

theorem first_le (b : BitVec W) (v : BitVec 64) {sp : Nat} (h0 : 1 ≤ sp) (h2 : sp ≤ W)
    (h3 : sp ≤ 64) :
    wordBits .le (((b >>> (sp - 1)) >>> 1) ||| (v.setWidth W <<< (W - sp)))
      = validAt .le b sp ++ fieldBits .le v.toNat sp := by
  unfold validAt wordBits
  simp only [fieldBits]
  apply fieldLE_split (by omega)
  · intro i hi; bits_done
  · intro i hi; bits_done

theorem last_le (v : BitVec 64) (T : Nat) (hW : 0 < W) :
    validAt .le ((v.setWidth W).rotateRight T) (W - T % W) = fieldBits .le v.toNat (T % W) := by
  unfold validAt
  have ht : T % W < W := Nat.mod_lt _ hW
  rw [show W - (W - T % W) = T % W by omega]
  apply fieldBits_congr_wr
  intro i hi; bits_simp
  generalize T % W = t at *
  bits_omega

/-! ### `write_unary`, `flush` -/

theorem shiftIn_shiftIn (e : Endian) (b : BitVec W) (j k : Nat) :
    shiftIn e (shiftIn e b j) k = shiftIn e b (j + k) := by
  cases e
  · simp only [shiftIn]; rw [BitVec.shiftLeft_add]
  · simp only [shiftIn]; rw [BitVec.shiftRight_add]

theorem unary_fast (e : Endian) (b : BitVec W) {sp x : Nat} (h1 : x + 1 ≤ sp) (h2 : sp ≤ W) :
    validAt e (shiftIn e (shiftIn e b x) 1 ||| oneWord e) (sp - (x + 1))
      = validAt e b sp ++ unaryBits x := by
  rw [shiftIn_shiftIn]
  cases e
  · rw [unaryBits_eq_be]
    unfold validAt shiftIn oneWord
    apply fieldBE_split (by omega)
    · intro i hi; bits_simp; rw [testBit_one']; bits_omega
    · intro i hi; bits_done
  · rw [unaryBits_eq_le]
    unfold validAt shiftIn oneWord
    simp only [fieldBits]
    apply fieldLE_split (by omega)
    · intro i hi; bits_done
    · intro i hi; bits_simp; rw [Nat.testBit_two_pow]
      by_cases hx : i = x
      · subst hx; bits_omega; simp
      · bits_omega

theorem shifted_word (e : Endian) (b : BitVec W) {sp : Nat} (h2 : sp ≤ W) :
    wordBits e (shiftIn e b sp) = validAt e b sp ++ List.replicate sp false := by
  rw [replicate_false_eq e]
  cases e
  · unfold validAt shiftIn wordBits
    apply fieldBE_split (by omega)
    · intro i hi; bits_done
    · intro i hi; bits_done
  · unfold validAt shiftIn wordBits
    simp only [fieldBits]
    apply fieldLE_split (by omega)
    · intro i hi; bits_done
    · intro i hi; bits_done

theorem zero_word (e : Endian) : wordBits e (0 : BitVec W) = List.replicate W false := by
  rw [replicate_false_eq e]; rfl

theorem one_valid (e : Endian) {x : Nat} (h : x + 1 ≤ W) :
    validAt e (oneWord e : BitVec W) (W - (x + 1)) = unaryBits x := by
  cases e
  · rw [unaryBits_eq_be]
    unfold validAt oneWord
    rw [show W - (W - (x + 1)) = x + 1 by omega]
    apply fieldBits_congr_wr
    intro i hi; bits_simp; rw [testBit_one']; bits_omega
  · rw [unaryBits_eq_le]
    unfold validAt oneWord
    rw [show W - (W - (x + 1)) = x + 1 by omega]
    apply fieldBits_congr_wr
    intro i hi; bits_simp; rw [Nat.testBit_two_pow]
    by_cases hx : i = x
    · subst hx; bits_omega; simp
    · bits_omega

theorem one_word (e : Endian) (hW : 0 < W) :
    wordBits e (oneWord e : BitVec W) = unaryBits (W - 1) := by
  have := one_valid (W := W) e (x := W - 1) (by omega)
  rw [show W - (W - 1 + 1) = 0 by omega] at this
  rw [← this, validAt_zero]

end BufW
end Dsi
