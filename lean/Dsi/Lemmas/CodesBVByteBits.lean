/-
  VByte on bit streams: the bit-stream readers simulate the byte-level ones, `writeBytesP`
  appends the bytes as 8-bit fields, and the length functions.
-/
import Dsi.Lemmas.CodesBVByteLe
namespace Dsi.CodesB
open Dsi

theorem bits_length (e : Endian) (bs : List Nat) :
    (bs.flatMap fun b => fieldBits e b 8).length = 8 * bs.length := by
  induction bs with
  | nil => rfl
  | cons b bs ih => simp [List.flatMap_cons, fieldBits_length, ih]; omega

theorem writeBytesP_writesR (e : Endian) (checks : Bool) : ∀ (bs : List Nat), (∀ b ∈ bs, b < 256) →
    WritesR (writeBytesP bs) e checks (bs.flatMap fun b => fieldBits e b 8) (8 * bs.length) := by
  intro bs
  induction bs with
  | nil => intro _; exact writesR_ret e checks 0
  | cons b bs ih =>
    intro hx
    have hb := hx b (by simp)
    simp only [writeBytesP, List.flatMap_cons]
    apply writesR_writeBits b 8 (by omega) (Or.inr (by omega))
    have := writesR_bind (k := fun r => WProg.ret (r + 8)) (ih fun x hm => hx x (by simp [hm]))
      (writesR_ret e checks _)
    simpa [Nat.mul_add, Nat.mul_one] using this

/-- the bit-stream BE read loop follows the byte-level one -/
theorem sim_be (e : Endian) : ∀ (fuel value byte : Nat) (bs : List Nat) (w : Nat),
    (∀ b ∈ bs, b < 256) → vbyteReadBeLoop fuel value byte bs = .ok (w, []) →
    Reads (vbyteBeReadLoop fuel value byte) e (bs.flatMap fun b => fieldBits e b 8) w := by
  intro fuel
  induction fuel with
  | zero => intro value byte bs w _ h; simp [vbyteReadBeLoop] at h
  | succ f ih =>
    intro value byte bs w hx h
    simp only [vbyteReadBeLoop] at h
    simp only [vbyteBeReadLoop]
    by_cases h0 : byte / 128 = 0
    · rw [if_pos h0] at h ⊢
      injection h with h
      obtain ⟨h1, h2⟩ := Prod.mk.inj h
      subst h1 h2
      exact reads_ret e _
    · rw [if_neg h0] at h ⊢
      by_cases h1 : value + 1 ≥ 2 ^ 64
      · rw [if_pos h1] at h; cases h
      · rw [if_neg h1] at h ⊢
        cases bs with
        | nil => cases h
        | cons b rest =>
          have hb := hx b (by simp)
          rw [List.flatMap_cons]
          apply reads_readBits b 8 (by omega)
          have hm : b % 2 ^ 8 = b := Nat.mod_eq_of_lt (by omega)
          rw [hm]
          exact ih _ _ _ _ (fun x hm => hx x (by simp [hm])) h

/-- the bit-stream LE read loop follows the byte-level one -/
theorem sim_le (e : Endian) : ∀ (fuel result shift : Nat) (bs : List Nat) (w : Nat),
    (∀ b ∈ bs, b < 256) → vbyteReadLeLoop fuel result shift bs = .ok (w, []) →
    Reads (vbyteLeReadLoop fuel result shift) e (bs.flatMap fun b => fieldBits e b 8) w := by
  intro fuel
  induction fuel with
  | zero => intro result shift bs w _ h; simp [vbyteReadLeLoop] at h
  | succ f ih =>
    intro result shift bs w hx h
    cases bs with
    | nil => simp [vbyteReadLeLoop] at h
    | cons b rest =>
      have hb := hx b (by simp)
      have hm : b % 2 ^ 8 = b := Nat.mod_eq_of_lt (by omega)
      simp only [vbyteReadLeLoop] at h
      simp only [vbyteLeReadLoop]
      by_cases h0 : shift ≥ 64
      · rw [if_pos h0] at h; cases h
      · rw [if_neg h0] at h ⊢
        rw [List.flatMap_cons]
        apply reads_readBits b 8 (by omega)
        rw [hm]
        by_cases h1 : result + shl64 (b % 128) shift ≥ 2 ^ 64
        · rw [if_pos h1] at h; cases h
        · rw [if_neg h1] at h ⊢
          by_cases h2 : b / 128 = 0
          · rw [if_pos h2] at h ⊢
            injection h with h
            obtain ⟨e1, e2⟩ := Prod.mk.inj h
            subst e1 e2
            exact reads_ret e _
          · rw [if_neg h2] at h ⊢
            by_cases h3 : shift + 7 ≥ 64 ∨
                result + shl64 (b % 128) shift + 2 ^ (shift + 7) ≥ 2 ^ 64
            · rw [if_pos h3] at h; cases h
            · rw [if_neg h3] at h ⊢
              exact ih _ _ _ _ (fun x hm => hx x (by simp [hm])) h

/-- a terminated string (bytes `< 256`, at most `fuel` bytes, value `< 2^64`) is read back
    from the bit stream by `readVByteBe fuel` -/
theorem readVByteBe_reads (e : Endian) (fuel : Nat) (s : List Nat) (ht : Term s)
    (hx : ∀ b ∈ s, b < 256) (hl : s.length ≤ fuel) (hv : vbyteValBe s < 2 ^ 64) :
    Reads (readVByteBe fuel) e (s.flatMap fun b => fieldBits e b 8) (vbyteValBe s) := by
  cases s with
  | nil => exact ht.elim
  | cons b bs =>
    have hb := hx b (by simp)
    have hm : b % 2 ^ 8 = b := Nat.mod_eq_of_lt (by omega)
    have hloop := readBeLoop_ok bs fuel (b % 128) b [] ht (by simpa using hl) hv
    rw [List.append_nil] at hloop
    rw [List.flatMap_cons]
    unfold readVByteBe
    apply reads_readBits b 8 (by omega)
    rw [hm]
    exact sim_be e fuel _ b bs _ (fun x hm => hx x (by simp [hm])) hloop

theorem readVByteLe_reads (e : Endian) (fuel : Nat) (s : List Nat) (ht : Term s)
    (hx : ∀ b ∈ s, b < 256) (hl : s.length ≤ fuel) (hv : vbyteValLe s < 2 ^ 64) :
    Reads (readVByteLe fuel) e (s.flatMap fun b => fieldBits e b 8) (vbyteValLe s) := by
  have hloop := readLeLoop_ok s fuel 0 0 [] ht hl (by omega) (by simpa using hv)
  rw [List.append_nil] at hloop
  have := sim_le e fuel 0 0 s _ hx hloop
  simpa [readVByteLe] using this

/-! ### lengths -/

theorem off_succ' (k : Nat) : Spec.vbyteOffset (k + 1) = Spec.vbyteOffset k + 128 ^ (k + 1) := by
  show Spec.vbyteOffset k + 2 ^ (7 * (k + 1)) = _
  rw [Nat.pow_mul]

theorem lenLoop_eq : ∀ (fuel v len j : Nat), j ≤ fuel → Spec.vbyteOffset j ≤ v →
    (v < Spec.vbyteOffset (j + 1) ∨ j = fuel) → vbyteByteLenLoop fuel v len = len + j := by
  intro fuel
  induction fuel with
  | zero => intro v len j hj _ _; have : j = 0 := by omega
            subst this; rfl
  | succ f ih =>
    intro v len j hj hlo hhi
    simp only [vbyteByteLenLoop]
    cases j with
    | zero =>
      have : v < 128 := by
        rcases hhi with h | h
        · simpa [Spec.vbyteOffset] using h
        · omega
      rw [if_pos (by omega)]; rfl
    | succ j =>
      rw [off_succ] at hlo
      rw [if_neg (by omega), ih (v / 128 - 1) (len + 1) j (by omega) (by omega) (by
        rcases hhi with h | h
        · left; rw [off_succ (j + 1)] at h; omega
        · right; omega)]
      omega

/-- every `v < 2^64` lies in the step `[offset (len-1), offset len)` of its length, `len ≤ 10` -/
theorem vbyteLen_bounds (v : Nat) (hv : v < 2 ^ 64) :
    1 ≤ Spec.vbyteLen v ∧ Spec.vbyteLen v ≤ 10 ∧
    Spec.vbyteOffset (Spec.vbyteLen v - 1) ≤ v ∧ v < Spec.vbyteOffset (Spec.vbyteLen v) := by
  obtain ⟨k, r, hlen, hk, hvr, hr⟩ := vbyteLen_decomp v hv
  rw [hlen, Nat.add_sub_cancel, off_succ']
  omega

theorem byteLen_eq (v : Nat) (hv : v < 2 ^ 64) : byteLenVByte v = Spec.vbyteLen v := by
  obtain ⟨h1, h2, h3, h4⟩ := vbyteLen_bounds v hv
  rw [byteLenVByte, lenLoop_eq 10 v 1 (Spec.vbyteLen v - 1) (by omega) h3
    (Or.inl (by rw [show Spec.vbyteLen v - 1 + 1 = Spec.vbyteLen v by omega]; exact h4))]
  omega

theorem specBytes_length (big : Bool) (v : Nat) :
    (Spec.vbyteBytes big v).length = Spec.vbyteLen v := by
  simp [Spec.vbyteBytes]

theorem vbyteLen_iff (v k : Nat) (hv : v < 2 ^ 64) (hk : 1 ≤ k) :
    Spec.vbyteLen v = k ↔ Spec.vbyteOffset (k - 1) ≤ v ∧ v < Spec.vbyteOffset k := by
  obtain ⟨h1, h2, h3, h4⟩ := vbyteLen_bounds v hv
  constructor
  · intro h; subst h; exact ⟨h3, h4⟩
  · intro ⟨g1, g2⟩
    by_cases hlt : Spec.vbyteLen v < k
    · have := off_le (show Spec.vbyteLen v ≤ k - 1 by omega)
      omega
    · by_cases hgt : k < Spec.vbyteLen v
      · have := off_le (show k ≤ Spec.vbyteLen v - 1 by omega)
        omega
      · omega

end Dsi.CodesB
