/-
  Headline, part 2: the generated code writers (HeadlineCodesW.lean) and readers
  (HeadlineCodesR.lean) per code of the `Codes` enum; the generated length functions are in
  Props/HeadlineLen.lean.
-/
import Dsi.Lemmas.HeadlineCodesW
import Dsi.Lemmas.HeadlineCodesR
