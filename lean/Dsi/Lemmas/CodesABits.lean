/-
  Basic facts about bit fields, unary codewords and the list helpers of `Dsi.Basic` / `Dsi.Ref`.
-/
import Dsi.Basic
import Dsi.Ref
namespace Dsi

/-! ### fieldLE / natLE -/

@[simp] theorem fieldLE_length (v n : Nat) : (fieldLE v n).length = n := by
  induction n generalizing v with
  | zero => rfl
  | succ n ih => simp [fieldLE, ih]

@[simp] theorem fieldBits_length (e : Endian) (v n : Nat) : (fieldBits e v n).length = n := by
  cases e <;> simp [fieldBits]

theorem natLE_fieldLE (v n : Nat) : natLE (fieldLE v n) = v % 2 ^ n := by
  induction n generalizing v with
  | zero => simp [fieldLE, natLE, Nat.mod_one]
  | succ n ih =>
    simp only [fieldLE, natLE, ih]
    rw [Nat.pow_succ, Nat.mul_comm (2 ^ n) 2, Nat.mod_mul]
    have h2 : v % 2 < 2 := Nat.mod_lt _ (by decide)
    by_cases h : v % 2 = 1
    · simp [h]
    · have : v % 2 = 0 := by omega
      simp [this]

theorem bitsVal_fieldBits (e : Endian) (v n : Nat) : bitsVal e (fieldBits e v n) = v % 2 ^ n := by
  cases e <;> simp [bitsVal, fieldBits, natLE_fieldLE]

/-- a field only depends on the value modulo `2^n` -/
theorem fieldLE_mod (v n : Nat) : fieldLE (v % 2 ^ n) n = fieldLE v n := by
  induction n generalizing v with
  | zero => rfl
  | succ n ih =>
    simp only [fieldLE]
    have h1 : v % 2 ^ (n + 1) % 2 = v % 2 := by
      rw [Nat.pow_succ, Nat.mul_comm]
      exact Nat.mod_mul_right_mod v 2 (2 ^ n)
    have h2 : v % 2 ^ (n + 1) / 2 = (v / 2) % 2 ^ n := by
      rw [Nat.pow_succ, Nat.mul_comm, Nat.mod_mul_right_div_self]
    rw [h1, h2, ih]

theorem fieldLE_congr {a b n : Nat} (h : a % 2 ^ n = b % 2 ^ n) : fieldLE a n = fieldLE b n := by
  rw [← fieldLE_mod a, ← fieldLE_mod b, h]

theorem fieldBits_congr (e : Endian) {a b n : Nat} (h : a % 2 ^ n = b % 2 ^ n) :
    fieldBits e a n = fieldBits e b n := by
  cases e <;> simp [fieldBits, fieldLE_congr h]

theorem fieldLE_succ_last (v n : Nat) :
    fieldLE v (n + 1) = fieldLE v n ++ [(v / 2 ^ n) % 2 == 1] := by
  induction n generalizing v with
  | zero => simp [fieldLE]
  | succ n ih =>
    rw [fieldLE, ih (v / 2)]
    simp only [fieldLE, List.cons_append, Nat.div_div_eq_div_mul, Nat.pow_succ]
    rw [Nat.mul_comm 2 (2 ^ n)]

/-! ### takeZ, drop -/

theorem takeZ_append_left (a b : List Bool) (n : Nat) (h : a.length = n) : takeZ n (a ++ b) = a := by
  induction a generalizing n with
  | nil => subst h; cases b <;> rfl
  | cons x xs ih =>
    subst h
    simp [takeZ, ih]

theorem drop_pre (pre r : List Bool) : (pre ++ r).drop pre.length = r := by
  simp

/-! ### unary -/

@[simp] theorem unaryBits_length (x : Nat) : (unaryBits x).length = x + 1 := by
  simp [unaryBits]

theorem firstOne_unary (x : Nat) (r : List Bool) : RefR.firstOne (unaryBits x ++ r) = some x := by
  induction x with
  | zero => simp [unaryBits, RefR.firstOne]
  | succ x ih =>
    have : unaryBits (x + 1) ++ r = false :: (unaryBits x ++ r) := by
      simp [unaryBits, List.replicate_succ]
    rw [this, RefR.firstOne, ih]; rfl

/-! ### log2 -/

theorem log2_bounds {m : Nat} (h : m ≠ 0) : 2 ^ m.log2 ≤ m ∧ m < 2 ^ (m.log2 + 1) :=
  ⟨Nat.log2_self_le h, Nat.lt_log2_self⟩

theorem log2_lt_64 {m : Nat} (h : m < 2 ^ 64) : m.log2 < 64 := by
  by_cases h0 : m = 0
  · subst h0; simp
  · exact (Nat.log2_lt h0).2 h

theorem sub_mod_self_of_le {m p : Nat} (h : p ≤ m) : (m - p) % p = m % p := by
  have : m % p = ((m - p) + p) % p := by rw [Nat.sub_add_cancel h]
  rw [this, Nat.add_mod_right]

/-- dropping the leading one: `m mod 2^λ + 2^λ = m` for `λ = ⌊log₂ m⌋` -/
theorem mod_pow_log2_add {m : Nat} (h : m ≠ 0) : m % 2 ^ m.log2 + 2 ^ m.log2 = m := by
  have ⟨h1, h2⟩ := log2_bounds h
  have hp : 2 ^ (m.log2 + 1) = 2 * 2 ^ m.log2 := by rw [Nat.pow_succ, Nat.mul_comm]
  have hs : (m - 2 ^ m.log2) % 2 ^ m.log2 = m - 2 ^ m.log2 := Nat.mod_eq_of_lt (by omega)
  have := sub_mod_self_of_le h1
  omega

theorem sub_pow_log2_mod {m : Nat} (h : m ≠ 0) : (m - 2 ^ m.log2) % 2 ^ m.log2 = m % 2 ^ m.log2 :=
  sub_mod_self_of_le (log2_bounds h).1

theorem div_pow_log2 {m : Nat} (h : m ≠ 0) : m / 2 ^ m.log2 = 1 := by
  have ⟨h1, h2⟩ := log2_bounds h
  have hp : 2 ^ (m.log2 + 1) = 2 ^ m.log2 * 2 := Nat.pow_succ ..
  have hpos : 0 < 2 ^ m.log2 := Nat.two_pow_pos _
  apply Nat.div_eq_of_lt_le <;> omega

end Dsi
