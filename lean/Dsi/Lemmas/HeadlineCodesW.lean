/-
  Headline, part 2, writers: the code writers as GENERATED from src/codes/*.rs on this run
  (Gen/CodeBodies.lean, OmegaBodies.lean, VByteBodies.lean, TableFns.lean), assembled per code of
  the `Codes` enum exactly like the hand-written `ownWrite` (`Dsi/Glue/Dispatch.lean`: the
  parameterless default trait methods, table flags from the generated `Params`), and
  `genOwnWrite_eq`: on the documented domain the generated writer *is* the hand-written one.
-/
import Dsi.Props.TableFnsGen
import Dsi.Props.OmegaGen
import Dsi.Props.VByteGen
import Dsi.Props.Equiv
namespace Dsi
namespace Headline
open Gen CodeBodiesGen TableFnsGen

/-- the generated writer of a code: `write_unary` is a primitive of the `BitWrite` interface, the
    others are the translated bodies; γ, δ and exp-Golomb go through the generated `*Param` impls
    with the flags of the generated `Params` (as `CodesWrite`'s default methods do) -/
def genOwnWrite (e : Endian) (checks : Bool) (c : CodeId) (v : Nat) : WProg Nat :=
  match c.fam with
  | .unary => .writeUnary v .ret
  | .gamma => writeGammaParam e checks Params.writeGammaTable v
  | .delta => writeDeltaParam e checks Params.writeDeltaTable Params.writeDeltaGammaTable v
  | .omega => Gen.write_omega e checks v
  | .vbyteBe => Gen.write_vbyte_be v
  | .vbyteLe => Gen.write_vbyte_le v
  | .zeta => writeZetaParam e Params.writeZetaTable v c.p
  | .pi => Gen.write_pi checks v c.p
  | .golomb => Gen.write_golomb v c.p
  | .expGolomb => Gen.write_exp_golomb (writeGammaParam e checks Params.writeGammaTable) checks v c.p
  | .rice => Gen.write_rice checks v c.p

/-! ## writers -/

/-- exp-Golomb over the *generated* γ writer -/
theorem write_exp_golomb_param_eq (e : Endian) (checks t : Bool) {n k : Nat} (hk : k < 64)
    (hq : n / 2 ^ k < 2 ^ 64 - 1) :
    Gen.write_exp_golomb (writeGammaParam e checks t) checks n k
      = writeExpGolomb checks (opt t (gammaWTab e)) n k := by
  rw [← write_exp_golomb_eq checks (opt t (gammaWTab e)) n hk]
  have hq' : n >>> k < 2 ^ 64 - 1 := by rw [Nat.shiftRight_eq_div_pow]; exact hq
  have hg : writeGammaParam e checks t (n >>> k) = writeGamma checks (opt t (gammaWTab e)) (n >>> k) :=
    write_gamma_param_eq e checks t hq'
  unfold Gen.write_exp_golomb
  rw [hg]

theorem genOwnWrite_eq (e : Endian) (checks : Bool) (c : CodeId) (v : Nat) (hd : c.Dom v) :
    genOwnWrite e checks c v = ownWrite e checks c v := by
  obtain ⟨fam, p⟩ := c
  cases fam
  case unary => rfl
  case gamma => exact write_gamma_param_eq e checks _ hd
  case delta => exact write_delta_param_eq e checks _ _ hd
  case omega => exact OmegaGen.write_omega_eq e checks hd
  case vbyteBe => exact VByteGen.write_vbyte_be_eq hd
  case vbyteLe => exact VByteGen.write_vbyte_le_eq hd
  case zeta =>
    obtain ⟨h1, h2, h3, _⟩ :
      1 ≤ p ∧ p ≤ 63 ∧ v < 2 ^ 64 - 1 ∧ ((v + 1).log2 / p + 1) * p ≤ 64 := hd
    exact write_zeta_param_eq e _ h3 (show p ≠ 0 by omega) (show p < 64 by omega)
  case pi =>
    obtain ⟨h1, h2⟩ : p ≤ 63 ∧ v < 2 ^ 64 - 1 := hd
    exact write_pi_eq checks h2 (show p < 64 by omega)
  case golomb =>
    obtain ⟨h1, h2, _, _⟩ : 1 ≤ p ∧ p < 2 ^ 64 ∧ v < 2 ^ 64 ∧ v / p < 2 ^ 64 - 1 := hd
    exact write_golomb_eq v (show p ≠ 0 by omega) h2
  case expGolomb =>
    obtain ⟨h1, h2, h3⟩ : p ≤ 63 ∧ v < 2 ^ 64 ∧ (p = 0 → v < 2 ^ 64 - 1) := hd
    exact write_exp_golomb_param_eq e checks _ (show p < 64 by omega) (quot_lt h2 h3)
  case rice =>
    obtain ⟨h1, _, _⟩ : p ≤ 63 ∧ v < 2 ^ 64 ∧ v / 2 ^ p < 2 ^ 64 - 1 := hd
    exact write_rice_eq checks v (show p < 64 by omega)

end Headline
end Dsi
