/-
  C05 — kernel-evaluated table theorems (δ decoding, LE, piece 0 of 1: chunks 0 and 1).  Each statement is a closed Boolean
  computation over the *generated* table (no table content is mentioned here), checked by the
  kernel's evaluator (`decide +kernel`: no `native_decide`, no compiler trust).
-/
import Dsi.Lemmas.TablesCheck
import Dsi.Gen.TablesDelta
namespace Dsi
open Gen

theorem Tables.delta_read_le_p0 :
    chkReadHead .le (readDeltaDefault none) Delta.READ_BITS Delta.MISSING_VALUE_LEN_LE 2
      (0, Delta.READ_LE_chunks, Delta.READ_LEN_LE_chunks) = true := by decide +kernel

end Dsi
