/-
  The concrete writer operations in closed form: which words they deliver, the buffer they
  leave, and when a fixed backend refuses.  `Core` is the common shape; `sim_of_core` turns it
  into a simulation step against the reference writer.
-/
import Dsi.Lemmas.WriterWord
set_option linter.unusedSimpArgs false
namespace Dsi

/-- a backend with capacity `cap` can hold `k` words -/
def capFits : Option Nat → Nat → Bool
  | none, _ => true
  | some c, k => decide (k ≤ c)

theorem capFits_mono {cap : Option Nat} {a b : Nat} (h : capFits cap (a + b) = true) :
    capFits cap a = true := by
  cases cap with
  | none => rfl
  | some c => simp only [capFits, decide_eq_true_eq] at *; omega

theorem capFits_mono' {cap : Option Nat} {a : Nat} (b : Nat) (h : ¬ capFits cap a = true) :
    ¬ capFits cap (a + b) = true := fun h' => h (capFits_mono h')

@[simp] theorem capFits_none (k : Nat) : capFits none k = true := rfl

namespace BufW
variable {W : Nat}

/-- the delivered words fit the backend (trivial for a growable one); an invariant of every
    reachable state which `Rel` does not record -/
def CapOk (s : BufW W) : Prop := capFits s.cap s.out.length = true

theorem CapOk_of_none {s : BufW W} (h : s.cap = none) : s.CapOk := by
  simp [CapOk, h]

theorem emit_eq (s : BufW W) (w : BitVec W) :
    s.emit w = if capFits s.cap (s.out.length + 1) then .ok { s with out := s.out ++ [w] }
      else .err .eof := by
  obtain ⟨buffer, space, out, cap, checks⟩ := s
  cases cap with
  | none => simp [emit]
  | some c => simp [emit, capFits, Nat.lt_iff_add_one_le]

/-- the closed form of an operation: deliver `ws`, leave buffer `b` with `sp` free bits and
    return `ret`; or `UnexpectedEof` from a fixed backend that cannot take `ws` -/
def coreRes (s : BufW W) (ws : List (BitVec W)) (b : BitVec W) (sp ret : Nat) :
    Res (Nat × BufW W) :=
  if capFits s.cap (s.out.length + ws.length) then
    .ok (ret, { s with out := s.out ++ ws, buffer := b, space := sp })
  else .err .eof

/-! ### the loops -/

theorem zeroWords_eq (k : Nat) (s : BufW W) (hc : s.CapOk) :
    zeroWords k s = if capFits s.cap (s.out.length + k) then
      .ok { s with out := s.out ++ List.replicate k 0 } else .err .eof := by
  induction k generalizing s with
  | zero => simp [zeroWords, show capFits s.cap s.out.length = true from hc]
  | succ k ih =>
    unfold zeroWords
    rw [emit_eq]
    by_cases h1 : capFits s.cap (s.out.length + 1) = true
    · simp only [h1, if_true]
      rw [ih _ (by simpa [CapOk] using h1)]
      simp only [List.length_append, List.length_singleton, Nat.add_assoc, Nat.add_comm 1 k,
        List.append_assoc, List.singleton_append, List.replicate_succ]
    · have h2 := capFits_mono' k h1
      rw [Nat.add_assoc, Nat.add_comm 1 k] at h2
      simp [h1, h2]

/-- the words of the BE spill loop -/
def wordsBE (v : BitVec 64) : Nat → Nat → List (BitVec W)
  | 0, _ => []
  | k + 1, t => (v >>> (t - W)).setWidth W :: wordsBE v k (t - W)

@[simp] theorem wordsBE_length (v : BitVec 64) (k t : Nat) :
    (wordsBE (W := W) v k t).length = k := by
  induction k generalizing t with
  | zero => rfl
  | succ k ih => simp [wordsBE, ih]

theorem spillBE_eq (v : BitVec 64) (k t : Nat) (s : BufW W) (hc : s.CapOk) :
    spillBE v k t s = if capFits s.cap (s.out.length + k) then
      .ok (t - k * W, { s with out := s.out ++ wordsBE v k t }) else .err .eof := by
  induction k generalizing s t with
  | zero => simp [spillBE, wordsBE, show capFits s.cap s.out.length = true from hc]
  | succ k ih =>
    unfold spillBE
    simp only [emit_eq]
    by_cases h1 : capFits s.cap (s.out.length + 1) = true
    · simp only [h1, if_true]
      rw [ih _ _ (by simpa [CapOk] using h1)]
      simp only [List.length_append, List.length_singleton, Nat.add_assoc, Nat.add_comm 1 k,
        List.append_assoc, List.singleton_append, wordsBE, Nat.succ_mul, Nat.sub_sub,
        Nat.add_comm W (k * W)]
    · have h2 := capFits_mono' k h1
      rw [Nat.add_assoc, Nat.add_comm 1 k] at h2
      simp [h1, h2]

theorem wordsBE_bits (v : BitVec 64) (k t : Nat) (h : k * W ≤ t) :
    (wordsBE (W := W) v k t).flatMap (wordBits .be) ++ fieldBits .be v.toNat (t - k * W)
      = fieldBits .be v.toNat t := by
  induction k generalizing t with
  | zero => simp [wordsBE]
  | succ k ih =>
    rw [Nat.succ_mul] at h
    simp only [wordsBE, List.flatMap_cons, List.append_assoc]
    rw [Nat.succ_mul, Nat.add_comm (k * W) W, ← Nat.sub_sub, ih (t - W) (by omega),
      word_setWidth, BitVec.toNat_ushiftRight, Nat.shiftRight_eq_div_pow]
    rw [fieldBE_cut v.toNat (n := t) (b := t - W) (by omega), show t - (t - W) = W by omega]

/-- the words of the LE spill loop, and the value it leaves -/
def wordsLE : Nat → BitVec 64 → List (BitVec W)
  | 0, _ => []
  | k + 1, v => v.setWidth W :: wordsLE k (v >>> W)

def restLE (W : Nat) : Nat → BitVec 64 → BitVec 64
  | 0, v => v
  | k + 1, v => restLE W k (v >>> W)

@[simp] theorem wordsLE_length (k : Nat) (v : BitVec 64) :
    (wordsLE (W := W) k v).length = k := by
  induction k generalizing v with
  | zero => rfl
  | succ k ih => simp [wordsLE, ih]

theorem spillLE_eq (k : Nat) (v : BitVec 64) (s : BufW W) (hc : s.CapOk) :
    spillLE k v s = if capFits s.cap (s.out.length + k) then
      .ok (restLE W k v, { s with out := s.out ++ wordsLE k v }) else .err .eof := by
  induction k generalizing s v with
  | zero => simp [spillLE, wordsLE, restLE, show capFits s.cap s.out.length = true from hc]
  | succ k ih =>
    unfold spillLE
    simp only [emit_eq]
    by_cases h1 : capFits s.cap (s.out.length + 1) = true
    · simp only [h1, if_true]
      rw [ih _ _ (by simpa [CapOk] using h1)]
      simp only [List.length_append, List.length_singleton, Nat.add_assoc, Nat.add_comm 1 k,
        List.append_assoc, List.singleton_append, wordsLE, restLE]
    · have h2 := capFits_mono' k h1
      rw [Nat.add_assoc, Nat.add_comm 1 k] at h2
      simp [h1, h2]

theorem restLE_toNat (k : Nat) (v : BitVec 64) :
    (restLE W k v).toNat = v.toNat / 2 ^ (k * W) := by
  induction k generalizing v with
  | zero => simp [restLE]
  | succ k ih =>
    rw [restLE, ih, BitVec.toNat_ushiftRight, Nat.shiftRight_eq_div_pow, Nat.div_div_eq_div_mul,
      ← Nat.pow_add, Nat.succ_mul, Nat.add_comm]

theorem wordsLE_bits (k : Nat) (v : BitVec 64) (m : Nat) :
    (wordsLE (W := W) k v).flatMap (wordBits .le) ++ fieldBits .le (restLE W k v).toNat m
      = fieldBits .le v.toNat (k * W + m) := by
  induction k generalizing v with
  | zero => simp [wordsLE, restLE]
  | succ k ih =>
    simp only [wordsLE, restLE, List.flatMap_cons, List.append_assoc]
    rw [ih, word_setWidth, BitVec.toNat_ushiftRight, Nat.shiftRight_eq_div_pow]
    simp only [fieldBits]
    rw [fieldLE_cut v.toNat (n := (k + 1) * W + m) (a := W) (by rw [Nat.succ_mul]; omega)]
    congr 2
    rw [Nat.succ_mul]; omega

end BufW
end Dsi
