/-
  Bit / byte lemmas for the `std::io::Write` / `std::io::Read` views (C12):
  the stream bits of a u64 assembled from bytes are the bits of those bytes in order,
  the remainder word of `ioWrite` never wraps, `beBytes`/`leBytes` invert `beVal`/`leVal`,
  and `chunksExact` decomposes a byte list.
-/
import Dsi.IOView
import Dsi.Lemmas.CodesAFrame
import Dsi.Lemmas.WriterLayout
namespace Dsi.IOViewL
open Dsi

/-! ### `bitsOfBytes` -/

theorem bitsOfBytes_nil (e : Endian) : bitsOfBytes e [] = [] := rfl

theorem bitsOfBytes_cons (e : Endian) (b : Nat) (bs : List Nat) :
    bitsOfBytes e (b :: bs) = fieldBits e b 8 ++ bitsOfBytes e bs := by
  simp [bitsOfBytes]

theorem bitsOfBytes_append (e : Endian) (a b : List Nat) :
    bitsOfBytes e (a ++ b) = bitsOfBytes e a ++ bitsOfBytes e b := by
  simp [bitsOfBytes]

theorem bitsOfBytes_length (e : Endian) (bs : List Nat) :
    (bitsOfBytes e bs).length = 8 * bs.length := by
  induction bs with
  | nil => rfl
  | cons b bs ih => rw [bitsOfBytes_cons, List.length_append, ih]; simp; omega

theorem bytes_tail {b : Nat} {c : List Nat} (h : ∀ x ∈ b :: c, x < 256) : ∀ x ∈ c, x < 256 :=
  fun x hx => h x (List.mem_cons_of_mem _ hx)

theorem bytes_head {b : Nat} {c : List Nat} (h : ∀ x ∈ b :: c, x < 256) : b < 256 :=
  h b (List.mem_cons_self ..)

/-! ### values of byte lists -/

theorem leVal_cons (b : Nat) (c : List Nat) : leVal (b :: c) = b + 256 * leVal c := rfl

/-- the generalised accumulator of `beVal` -/
def beAcc (a : Nat) (c : List Nat) : Nat := c.foldl (fun a b => a * 256 + b) a

theorem beAcc_nil (a : Nat) : beAcc a [] = a := rfl
theorem beAcc_cons (a b : Nat) (c : List Nat) : beAcc a (b :: c) = beAcc (a * 256 + b) c := rfl
theorem beVal_eq (c : List Nat) : beVal c = beAcc 0 c := rfl

theorem beVal_reverse (c : List Nat) : beVal c.reverse = leVal c := by
  unfold beVal leVal
  rw [List.foldl_reverse]
  congr 1
  funext b a
  omega

theorem leVal_reverse (c : List Nat) : leVal c.reverse = beVal c := by
  rw [← beVal_reverse, List.reverse_reverse]

theorem pow256 (k : Nat) : 2 ^ (8 * k) = 256 ^ k := by
  rw [Nat.pow_mul]

theorem leVal_lt (c : List Nat) (h : ∀ b ∈ c, b < 256) : leVal c < 256 ^ c.length := by
  induction c with
  | nil => simp [leVal]
  | cons b c ih =>
    have hb := bytes_head h
    have := ih (bytes_tail h)
    rw [leVal_cons, List.length_cons, Nat.pow_succ]
    omega

theorem beVal_lt (c : List Nat) (h : ∀ b ∈ c, b < 256) : beVal c < 256 ^ c.length := by
  rw [← leVal_reverse, ← List.length_reverse]
  apply leVal_lt
  intro b hb
  exact h b (List.mem_reverse.1 hb)

/-! ### the stream bits of an assembled word -/

theorem fieldLE_leVal (c : List Nat) (h : ∀ b ∈ c, b < 256) :
    fieldLE (leVal c) (8 * c.length) = bitsOfBytes .le c := by
  induction c with
  | nil => rfl
  | cons b c ih =>
    have hb := bytes_head h
    rw [leVal_cons, bitsOfBytes_cons, ← ih (bytes_tail h),
      fieldLE_cut _ (n := 8 * (b :: c).length) (a := 8) (by simp; omega)]
    have h1 : (b + 256 * leVal c) / 2 ^ 8 = leVal c := by
      rw [show (2:Nat) ^ 8 = 256 from rfl]; omega
    have h2 : 8 * (b :: c).length - 8 = 8 * c.length := by simp; omega
    rw [h1, h2]
    congr 1
    simp only [fieldBits]
    apply fieldLE_congr
    rw [show (2:Nat) ^ 8 = 256 from rfl]; omega

theorem fieldBits_le_leVal (c : List Nat) (h : ∀ b ∈ c, b < 256) :
    fieldBits .le (leVal c) (8 * c.length) = bitsOfBytes .le c := fieldLE_leVal c h

theorem fieldBits_be_beAcc (c : List Nat) (h : ∀ b ∈ c, b < 256) (a n : Nat) :
    fieldBits .be (beAcc a c) (n + 8 * c.length) = fieldBits .be a n ++ bitsOfBytes .be c := by
  induction c generalizing a n with
  | nil => simp [beAcc_nil, bitsOfBytes_nil]
  | cons b c ih =>
    have hb := bytes_head h
    rw [beAcc_cons, bitsOfBytes_cons, show n + 8 * (b :: c).length = (n + 8) + 8 * c.length by
      simp; omega, ih (bytes_tail h), fieldBE_cut (a * 256 + b) (n := n + 8) (b := 8) (by omega),
      List.append_assoc]
    have h1 : (a * 256 + b) / 2 ^ 8 = a := by
      rw [show (2:Nat) ^ 8 = 256 from rfl]; omega
    rw [h1, Nat.add_sub_cancel]
    congr 2
    apply fieldBits_congr
    rw [show (2:Nat) ^ 8 = 256 from rfl]; omega

theorem fieldBits_be_beVal (c : List Nat) (h : ∀ b ∈ c, b < 256) :
    fieldBits .be (beVal c) (8 * c.length) = bitsOfBytes .be c := by
  have := fieldBits_be_beAcc c h 0 0
  simpa [beVal_eq, fieldBits, fieldLE] using this

/-- both endiannesses at once: `wordOf e` is `u64::from_{be,le}_bytes` -/
def wordOf (e : Endian) (c : List Nat) : Nat :=
  match e with
  | .be => beVal c
  | .le => leVal c

theorem fieldBits_wordOf (e : Endian) (c : List Nat) (h : ∀ b ∈ c, b < 256) :
    fieldBits e (wordOf e c) (8 * c.length) = bitsOfBytes e c := by
  cases e
  · exact fieldBits_be_beVal c h
  · exact fieldBits_le_leVal c h

theorem wordOf_lt (e : Endian) (c : List Nat) (h : ∀ b ∈ c, b < 256) :
    wordOf e c < 2 ^ (8 * c.length) := by
  rw [pow256]
  cases e
  · exact beVal_lt c h
  · exact leVal_lt c h

/-! ### the remainder word (`word <<= 8; word |= byte` on a u64) -/

/-- the wrapping accumulator of `ioWrite` -/
def wrapAcc (a : Nat) (c : List Nat) : Nat := c.foldl (fun a b => (a * 256) % 2 ^ 64 + b) a

theorem wrapAcc_cons (a b : Nat) (c : List Nat) :
    wrapAcc a (b :: c) = wrapAcc ((a * 256) % 2 ^ 64 + b) c := rfl

theorem wrapAcc_eq (c : List Nat) (h : ∀ b ∈ c, b < 256) (a n : Nat) (ha : a < 256 ^ n)
    (hn : n + c.length ≤ 8) : wrapAcc a c = beAcc a c := by
  induction c generalizing a n with
  | nil => rfl
  | cons b c ih =>
    have hb := bytes_head h
    simp only [List.length_cons] at hn
    have hp : 256 ^ (n + 1) ≤ 256 ^ 8 := Nat.pow_le_pow_right (by decide) (by omega)
    have h8 : (256:Nat) ^ 8 = 2 ^ 64 := by decide
    have hs : 256 ^ (n + 1) = 256 ^ n * 256 := Nat.pow_succ ..
    have hm : (a * 256) % 2 ^ 64 = a * 256 := Nat.mod_eq_of_lt (by omega)
    rw [wrapAcc_cons, beAcc_cons, hm]
    exact ih (bytes_tail h) _ (n + 1) (by omega) (by omega)

theorem wrap_be (rem : List Nat) (h : ∀ b ∈ rem, b < 256) (hl : rem.length ≤ 8) :
    rem.foldl (fun a b => (a * 256) % 2 ^ 64 + b) 0 = beVal rem :=
  wrapAcc_eq rem h 0 0 (by decide) (by omega)

theorem wrap_le (rem : List Nat) (h : ∀ b ∈ rem, b < 256) (hl : rem.length ≤ 8) :
    rem.reverse.foldl (fun a b => (a * 256) % 2 ^ 64 + b) 0 = leVal rem := by
  rw [wrap_be rem.reverse (fun b hb => h b (List.mem_reverse.1 hb)) (by simpa using hl),
    beVal_reverse]

/-- the remainder word of `ioWrite` is the clean value of the remaining bytes -/
theorem remWord_eq (e : Endian) (rem : List Nat) (h : ∀ b ∈ rem, b < 256) (hl : rem.length ≤ 8) :
    (match e with
      | .be => rem.foldl (fun a b => (a * 256) % 2 ^ 64 + b) 0
      | .le => rem.reverse.foldl (fun a b => (a * 256) % 2 ^ 64 + b) 0) = wordOf e rem := by
  cases e
  · exact wrap_be rem h hl
  · exact wrap_le rem h hl

/-! ### bytes of a word -/

theorem leBytes_leVal (c : List Nat) (h : ∀ b ∈ c, b < 256) : leBytes (leVal c) c.length = c := by
  induction c with
  | nil => rfl
  | cons b c ih =>
    have hb := bytes_head h
    rw [leVal_cons, List.length_cons, leBytes]
    have h1 : (b + 256 * leVal c) % 256 = b := by omega
    have h2 : (b + 256 * leVal c) / 256 = leVal c := by omega
    rw [h1, h2, ih (bytes_tail h)]

theorem beBytes_beVal (c : List Nat) (h : ∀ b ∈ c, b < 256) : beBytes (beVal c) c.length = c := by
  unfold beBytes
  rw [← leVal_reverse, ← List.length_reverse,
    leBytes_leVal c.reverse (fun b hb => h b (List.mem_reverse.1 hb)), List.reverse_reverse]

theorem leBytes_leVal_mod (c : List Nat) (h : ∀ b ∈ c, b < 256) (k : Nat) (hk : c.length = k) :
    leBytes (leVal c % 2 ^ (8 * k)) k = c := by
  subst hk
  rw [Nat.mod_eq_of_lt (by rw [pow256]; exact leVal_lt c h), leBytes_leVal c h]

theorem beBytes_beVal_mod (c : List Nat) (h : ∀ b ∈ c, b < 256) (k : Nat) (hk : c.length = k) :
    beBytes (beVal c % 2 ^ (8 * k)) k = c := by
  subst hk
  rw [Nat.mod_eq_of_lt (by rw [pow256]; exact beVal_lt c h), beBytes_beVal c h]

/-- both endiannesses at once: `bytesOf e` is `to_{be,le}_bytes` truncated to `k` bytes -/
theorem bytesOf_wordOf (e : Endian) (c : List Nat) (h : ∀ b ∈ c, b < 256) (k : Nat)
    (hk : c.length = k) :
    (match e with
      | .be => beBytes (wordOf e c % 2 ^ (8 * k)) k
      | .le => leBytes (wordOf e c % 2 ^ (8 * k)) k) = c := by
  cases e
  · exact beBytes_beVal_mod c h k hk
  · exact leBytes_leVal_mod c h k hk

/-! ### `chunksExact` -/

theorem chunksExact_spec (fuel : Nat) : ∀ (l : List Nat), l.length ≤ fuel →
    l = (chunksExact 8 l fuel).1.flatten ++ (chunksExact 8 l fuel).2 ∧
    (∀ c ∈ (chunksExact 8 l fuel).1, c.length = 8) ∧ (chunksExact 8 l fuel).2.length < 8 := by
  induction fuel with
  | zero =>
    intro l hl
    have : l = [] := List.eq_nil_of_length_eq_zero (by omega)
    subst this
    simp [chunksExact]
  | succ fuel ih =>
    intro l hl
    by_cases h8 : l.length < 8
    · simp [chunksExact, h8]
    · have hd : (l.drop 8).length ≤ fuel := by simp only [List.length_drop]; omega
      obtain ⟨i1, i2, i3⟩ := ih (l.drop 8) hd
      have hu : chunksExact 8 l (fuel + 1)
          = (l.take 8 :: (chunksExact 8 (l.drop 8) fuel).1, (chunksExact 8 (l.drop 8) fuel).2) := by
        simp [chunksExact, h8]
      rw [hu]
      refine ⟨?_, ?_, i3⟩
      · simp only [List.flatten_cons, List.append_assoc]
        rw [← i1, List.take_append_drop]
      · intro c hc
        rcases List.mem_cons.1 hc with hc | hc
        · subst hc; simp only [List.length_take]; omega
        · exact i2 c hc

theorem flatten_length8 (cs : List (List Nat)) (h : ∀ c ∈ cs, c.length = 8) :
    cs.flatten.length = 8 * cs.length := by
  induction cs with
  | nil => rfl
  | cons c cs ih =>
    have h1 := h c (List.mem_cons_self ..)
    have h2 := ih (fun x hx => h x (List.mem_cons_of_mem _ hx))
    simp only [List.flatten_cons, List.length_append, List.length_cons]
    omega

end Dsi.IOViewL
