/-
  Frame for the refinement theorems L3 ⟶ L1: abstraction functions, invariants and the
  outcome-relation lifter.  Definitions only.
-/
import Dsi.Ref
import Dsi.Impl.BufWriter
import Dsi.Impl.BufReader
import Dsi.Impl.BitReader
namespace Dsi

/-- corresponding outcomes: equal errors, same kind of panic, related values -/
def ResRel {α β} (R : α → β → Prop) : Res α → Res β → Prop
  | .ok a, .ok b => R a b
  | .err e1, .err e2 => e1 = e2
  | .panic, .panic => True
  | .dpanic, .dpanic => True
  | _, _ => False

/-- the bits of a backend word in stream order (BE: most significant first) -/
def wordBits {W} (e : Endian) (w : BitVec W) : List Bool := fieldBits e w.toNat W

/-! ### writer -/
namespace BufW
variable {W : Nat}

/-- the valid (pending) bits of the buffer in stream order: BE the low `W - space` bits, most
    significant first; LE the high `W - space` bits, least significant first.  All other bits of
    `buffer` are unconstrained garbage. -/
def valid (e : Endian) (s : BufW W) : List Bool :=
  match e with
  | .be => fieldBits .be s.buffer.toNat (W - s.space)
  | .le => fieldBits .le (s.buffer.toNat / 2 ^ s.space) (W - s.space)

/-- abstraction: delivered words followed by the pending bits -/
def abs (e : Endian) (s : BufW W) : List Bool := s.out.flatMap (wordBits e) ++ s.valid e

def Inv (s : BufW W) : Prop := 1 ≤ s.space ∧ s.space ≤ W

/-- the concrete writer `s` represents the reference writer `r` -/
def Rel (e : Endian) (s : BufW W) (r : RefW) : Prop :=
  s.Inv ∧ r.e = e ∧ r.W = W ∧ r.cap = s.cap ∧ r.checks = s.checks ∧ r.bits = s.abs e
end BufW

/-! ### buffered reader -/
namespace BufR
variable {W : Nat}

/-- the `bib` valid bits of the buffer in stream order: BE the top `bib` bits of the `2W`-bit
    buffer, most significant first; LE the low `bib` bits, least significant first -/
def window (e : Endian) (s : BufR W) : List Bool :=
  match e with
  | .be => fieldBits .be (s.buffer.toNat / 2 ^ (2 * W - s.bib)) s.bib
  | .le => fieldBits .le s.buffer.toNat s.bib

/-- every bit outside the valid window is zero (`refill` ORs new words in) -/
def Clean (e : Endian) (s : BufR W) : Prop :=
  match e with
  | .be => s.buffer.toNat % 2 ^ (2 * W - s.bib) = 0
  | .le => s.buffer.toNat < 2 ^ s.bib

/-- the concrete reader `s` represents the reference reader `r`: same stream, and the reference
    position is the backend position minus the buffered bits -/
def Rel (e : Endian) (s : BufR W) (r : RefR) : Prop :=
  s.bib < 2 * W ∧ s.Clean e ∧ r.e = e ∧ r.strict = s.back.strict ∧ r.peekMax = W ∧
  r.stream = s.back.data.flatMap (wordBits e) ∧
  r.pos + s.bib = s.back.pos * W ∧
  (s.back.strict = true → s.back.pos ≤ s.back.data.length) ∧
  s.window e = takeZ s.bib r.rest
end BufR

/-! ### unbuffered reader -/
namespace BitR
def Rel (e : Endian) (s : BitR) (r : RefR) : Prop :=
  r.e = e ∧ r.strict = s.data.strict ∧ r.peekMax = 32 ∧
  r.stream = s.data.data.flatMap (wordBits e) ∧ r.pos = s.bitIndex
end BitR

end Dsi
