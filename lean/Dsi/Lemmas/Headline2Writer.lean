/-
  Headline2, writer: the generated `BufBitWriter` (`genWImpl`, Lemmas/HeadlineRunW.lean) agrees with
  the hand-written one on the struct invariant, off the debug-panic of the hand-written
  `write_unary` on an argument that is not a `u64` (`WAgree`, Lemmas/Headline2CongrW.lean).
-/
import Dsi.Lemmas.HeadlineRunW
import Dsi.Lemmas.Headline2CongrW
namespace Dsi
namespace Headline2
open Headline

theorem wagree_gen (e : Endian) {W : Nat} (hW : W < 2 ^ 64) :
    WAgree (genWImpl (W := W) e) (BufW.impl e) BufW.Inv where
  writeBits := fun s v n hj =>
    ⟨Or.inr (genW_writeBits e s hj v n), fun _ _ h => hand_writeBits_inv e hj h⟩
  writeUnary := fun s x hj => by
    refine ⟨?_, fun _ _ h => writeUnary_inv e hj h⟩
    by_cases hx : x < 2 ^ 64
    · exact Or.inr (genW_writeUnary e s hj hW x hx)
    · left
      show BufW.writeUnary e s x = .dpanic
      unfold BufW.writeUnary
      rw [if_pos (by omega)]
  flush := fun s hj => ⟨Or.inr (genW_flush e s), fun _ _ h => flush_inv e hj h⟩

end Headline2
end Dsi
