/-
  C05 — the ζ₃ decoding tables pass `chkReadTable`: recombination of the independently
  kernel-evaluated pieces `Dsi.Lemmas.TablesOkZetaRead*` (`chkReadRest_split`).
-/
import Dsi.Lemmas.TablesSound
import Dsi.Lemmas.TablesOkZetaReadBe0
import Dsi.Lemmas.TablesOkZetaReadBe1
import Dsi.Lemmas.TablesOkZetaReadBe2
import Dsi.Lemmas.TablesOkZetaReadBe3
import Dsi.Lemmas.TablesOkZetaReadLe0
import Dsi.Lemmas.TablesOkZetaReadLe1
import Dsi.Lemmas.TablesOkZetaReadLe2
import Dsi.Lemmas.TablesOkZetaReadLe3
namespace Dsi
open Gen

/-- every entry of the BE ζ₃ decoding table is a miss or agrees with `readZetaDefault 3`;
    the table has `2^READ_BITS` entries -/
theorem zeta_read_be_ok :
    chkReadTable .be (readZetaDefault 3) Zeta.READ_BITS Zeta.MISSING_VALUE_LEN_BE
      Zeta.READ_BE_chunks Zeta.READ_LEN_BE_chunks = true := by
  have h : chkReadRest .be (readZetaDefault 3) Zeta.READ_BITS Zeta.MISSING_VALUE_LEN_BE
      (0, Zeta.READ_BE_chunks, Zeta.READ_LEN_BE_chunks) = true := by
    rw [Tables.chkReadRest_split 2]
    refine Tables.band_intro Tables.zeta_read_be_p0 ?_
    rw [Tables.chkReadRest_split 2]
    refine Tables.band_intro Tables.zeta_read_be_p1 ?_
    rw [Tables.chkReadRest_split 2]
    refine Tables.band_intro Tables.zeta_read_be_p2 ?_
    exact Tables.zeta_read_be_p3
  exact Tables.band_intro (by decide) h

/-- every entry of the LE ζ₃ decoding table is a miss or agrees with `readZetaDefault 3`;
    the table has `2^READ_BITS` entries -/
theorem zeta_read_le_ok :
    chkReadTable .le (readZetaDefault 3) Zeta.READ_BITS Zeta.MISSING_VALUE_LEN_LE
      Zeta.READ_LE_chunks Zeta.READ_LEN_LE_chunks = true := by
  have h : chkReadRest .le (readZetaDefault 3) Zeta.READ_BITS Zeta.MISSING_VALUE_LEN_LE
      (0, Zeta.READ_LE_chunks, Zeta.READ_LEN_LE_chunks) = true := by
    rw [Tables.chkReadRest_split 2]
    refine Tables.band_intro Tables.zeta_read_le_p0 ?_
    rw [Tables.chkReadRest_split 2]
    refine Tables.band_intro Tables.zeta_read_le_p1 ?_
    rw [Tables.chkReadRest_split 2]
    refine Tables.band_intro Tables.zeta_read_le_p2 ?_
    exact Tables.zeta_read_le_p3
  exact Tables.band_intro (by decide) h

end Dsi
