/-
  Headline, part 1 (this file: the writer; readers in HeadlineRunR.lean): the method bodies translated from the Rust source on this run
  (lean/Dsi/Gen/BufWriterBodies.lean, BufReaderBodies.lean, BitReaderBodies.lean) assembled into
  implementations of the `BitWrite` / `BitRead` interfaces, and the proof that *every* program
  runs on them exactly as on the hand-written models, on the states of the struct invariants.

  * `genWImpl e : WImpl (BufW W)`  — `BufBitWriter<E, _>::{write_bits, write_unary, flush}`;
  * `genRImpl e : RImpl (BufR W)`  — `BufBitReader<E, _>::{read_bits, peek_bits,
    skip_bits_after_peek, skip_bits, read_unary}`;
  * `genBitRImpl e : RImpl BitR`   — the same five methods of the unbuffered `BitReader<E, _>`.

  Invariants: `BufW.Inv` (`1 ≤ space_left_in_buffer ≤ W`), `RInv` (`0 < W`,
  `bits_in_buffer < 2W`, and the backend shorter than `2^64` bits: the Rust counts in `u64`).
  Side conditions on programs: `U64` (the argument of every `write_unary` is a `u64`: it is one in
  the Rust) and `PeekLe W` (every `peek_bits` asks for at most `W` bits: a wider peek can fill the
  buffer completely, `bits_in_buffer = 2W`, after which the Rust `read_bits` debug-asserts).
-/
import Dsi.Props.BufWriterGen
namespace Dsi
namespace Headline
variable {W : Nat}

/-! ## 1. the buffered writer -/

/-- `impl BitWrite<E> for BufBitWriter<E, _>`, assembled from the translated bodies -/
def genWImpl (e : Endian) : WImpl (BufW W) :=
  { writeBits := fun s v n =>
      match e with
      | .be => Gen.BufW.write_bits_be s (BitVec.ofNat 64 v) n
      | .le => Gen.BufW.write_bits_le s (BitVec.ofNat 64 v) n,
    writeUnary := fun s x =>
      match e with
      | .be => Gen.BufW.write_unary_be s (BitVec.ofNat 64 x)
      | .le => Gen.BufW.write_unary_le s (BitVec.ofNat 64 x),
    flush := fun s =>
      match e with
      | .be => Gen.BufW.flush_be s
      | .le => Gen.BufW.flush_le s }

theorem genWImpl_eq (e : Endian) : genWImpl (W := W) e = GenBufW.genImpl e := by
  cases e <;> rfl

theorem genW_writeBits (e : Endian) (s : BufW W) (hi : s.Inv) (v n : Nat) :
    (genWImpl e).writeBits s v n = (BufW.impl e).writeBits s v n := by
  rw [genWImpl_eq]; exact GenBufW.genImpl_writeBits e s hi v n

theorem genW_writeUnary (e : Endian) (s : BufW W) (hi : s.Inv) (hW : W < 2 ^ 64) (x : Nat)
    (hx : x < 2 ^ 64) : (genWImpl e).writeUnary s x = (BufW.impl e).writeUnary s x := by
  rw [genWImpl_eq]; exact GenBufW.genImpl_writeUnary e s hi hW x hx

theorem genW_flush (e : Endian) (s : BufW W) : (genWImpl e).flush s = (BufW.impl e).flush s := by
  rw [genWImpl_eq]; exact GenBufW.genImpl_flush e s


/-! ### `write_bits` keeps `BufW.Inv` (hand-written model) -/

theorem spillBE_tw (v : BitVec 64) : ∀ k tw (s : BufW W) tw' s',
    BufW.spillBE v k tw s = .ok (tw', s') → tw' = tw - k * W
  | 0, tw, s, tw', s', h => by simp only [BufW.spillBE] at h; cases h; omega
  | k + 1, tw, s, tw', s', h => by
    simp only [BufW.spillBE] at h
    split at h
    · rename_i s1 _
      have := spillBE_tw v k _ s1 tw' s' h
      rw [this, Nat.add_mul]; omega
    all_goals cases h

theorem writeBitsBE_inv {s s' : BufW W} {v : BitVec 64} {n x : Nat} (hi : s.Inv)
    (h : BufW.writeBitsBE s v n = .ok (x, s')) : s'.Inv := by
  obtain ⟨h1, h2⟩ := hi
  unfold BufW.writeBitsBE at h
  split at h
  · cases h
  · split at h
    · cases h
    · split at h
      · rename_i hfast
        cases h
        exact ⟨by show 1 ≤ s.space - n; omega, by show s.space - n ≤ W; omega⟩
      · dsimp only at h
        split at h
        · rename_i s1 _
          split at h
          · rename_i tw s2 hsp
            cases h
            have htw := spillBE_tw v _ _ s1 tw s2 hsp
            have hW : 0 < W := by omega
            have hlt : (n - s.space) - (n - s.space) / W * W < W := by
              have := Nat.mod_lt (n - s.space) hW
              rw [Nat.mod_eq_sub_div_mul] at this; exact this
            exact ⟨by show 1 ≤ W - tw; omega, by show W - tw ≤ W; omega⟩
          all_goals cases h
        all_goals cases h

theorem writeBitsLE_inv {s s' : BufW W} {v : BitVec 64} {n x : Nat} (hi : s.Inv)
    (h : BufW.writeBitsLE s v n = .ok (x, s')) : s'.Inv := by
  obtain ⟨h1, h2⟩ := hi
  unfold BufW.writeBitsLE at h
  split at h
  · cases h
  · split at h
    · cases h
    · split at h
      · rename_i hfast
        cases h
        exact ⟨by show 1 ≤ s.space - n; omega, by show s.space - n ≤ W; omega⟩
      · dsimp only at h
        split at h
        · rename_i s1 _
          split at h
          · rename_i v2 s2 hsp
            cases h
            have hW : 0 < W := by omega
            have hlt := Nat.mod_lt (n - s.space) hW
            exact ⟨by show 1 ≤ W - (n - s.space) % W; omega, by show W - (n - s.space) % W ≤ W; omega⟩
          all_goals cases h
        all_goals cases h

/-! ### … and so do `write_unary` and `flush` -/

theorem writeUnary_inv (e : Endian) {s s' : BufW W} {x r : Nat} (hi : s.Inv)
    (h : BufW.writeUnary e s x = .ok (r, s')) : s'.Inv := by
  obtain ⟨h1, h2⟩ := hi
  unfold BufW.writeUnary at h
  split at h
  · cases h
  · dsimp only at h
    split at h
    · split at h
      · split at h
        · cases h; exact ⟨by show 1 ≤ W; omega, by show W ≤ W; omega⟩
        all_goals cases h
      · rename_i hsp
        cases h
        exact ⟨by show 1 ≤ s.space - (x + 1); omega, by show s.space - (x + 1) ≤ W; omega⟩
    · split at h
      · split at h
        · split at h
          · split at h
            · cases h; exact ⟨by show 1 ≤ W; omega, by show W ≤ W; omega⟩
            all_goals cases h
          · rename_i hne
            cases h
            have hW : 0 < W := by omega
            have := Nat.mod_lt (x - s.space) hW
            exact ⟨by show 1 ≤ W - ((x - s.space) % W + 1); omega,
              by show W - ((x - s.space) % W + 1) ≤ W; omega⟩
        all_goals cases h
      all_goals cases h

theorem flush_inv (e : Endian) {s s' : BufW W} {r : Nat} (hi : s.Inv)
    (h : BufW.flush e s = .ok (r, s')) : s'.Inv := by
  obtain ⟨h1, h2⟩ := hi
  unfold BufW.flush at h
  dsimp only at h
  split at h
  · split at h
    · cases h; exact ⟨by show 1 ≤ W; omega, by show W ≤ W; omega⟩
    all_goals cases h
  · cases h; exact ⟨h1, h2⟩

/-- the three hand-written methods keep the invariant -/
theorem hand_writeBits_inv (e : Endian) {s s' : BufW W} {v n r : Nat} (hi : s.Inv)
    (h : (BufW.impl e).writeBits s v n = .ok (r, s')) : s'.Inv := by
  cases e with
  | be => exact writeBitsBE_inv hi h
  | le => exact writeBitsLE_inv hi h

/-- so do the translated ones (on the same states they are the same functions) -/
theorem genW_writeBits_inv (e : Endian) {s s' : BufW W} {v n r : Nat} (hi : s.Inv)
    (h : (genWImpl e).writeBits s v n = .ok (r, s')) : s'.Inv := by
  rw [genW_writeBits e s hi] at h; exact hand_writeBits_inv e hi h

theorem genW_writeUnary_inv (e : Endian) {s s' : BufW W} {x r : Nat} (hi : s.Inv) (hW : W < 2 ^ 64)
    (hx : x < 2 ^ 64) (h : (genWImpl e).writeUnary s x = .ok (r, s')) : s'.Inv := by
  rw [genW_writeUnary e s hi hW x hx] at h; exact writeUnary_inv e hi h

theorem genW_flush_inv (e : Endian) {s s' : BufW W} {r : Nat} (hi : s.Inv)
    (h : (genWImpl e).flush s = .ok (r, s')) : s'.Inv := by
  rw [genW_flush e s] at h; exact flush_inv e hi h

/-! ### programs -/

/-- the argument of every `write_unary` of the program is a `u64` (it is one in the Rust, where the
    parameter has that type; the model passes `Nat`s) -/
def U64 {α : Type} : WProg α → Prop
  | .ret _ => True
  | .panic => True
  | .dpanic => True
  | .writeBits _ _ k => ∀ r, U64 (k r)
  | .writeUnary x k => x < 2 ^ 64 ∧ ∀ r, U64 (k r)
  | .flush k => ∀ r, U64 (k r)

theorem U64.bind {α β : Type} {p : WProg α} {f : α → WProg β} (hp : U64 p) (hf : ∀ a, U64 (f a)) :
    U64 (p.bind f) := by
  induction p with
  | ret a => exact hf a
  | panic => trivial
  | dpanic => trivial
  | writeBits v n k ih => exact fun r => ih r (hp r)
  | writeUnary x k ih => exact ⟨hp.1, fun r => ih r (hp.2 r)⟩
  | flush k ih => exact fun r => ih r (hp r)

/-- **Every writer program runs on the translated `BufBitWriter` exactly as on the hand-written
    model**, from every state of the struct invariant. -/
theorem gen_wrun_eq {α : Type} (e : Endian) (hW : W < 2 ^ 64) (p : WProg α) :
    ∀ (s : BufW W), s.Inv → U64 p → p.run (genWImpl e) s = p.run (BufW.impl e) s := by
  induction p with
  | ret a => intro s _ _; rfl
  | panic => intro s _ _; rfl
  | dpanic => intro s _ _; rfl
  | writeBits v n k ih =>
    intro s hi hu
    simp only [WProg.run]
    rw [genW_writeBits e s hi]
    cases h : (BufW.impl e).writeBits s v n with
    | ok q => obtain ⟨r, s'⟩ := q; exact ih r s' (hand_writeBits_inv e hi h) (hu r)
    | err _ => rfl
    | panic => rfl
    | dpanic => rfl
  | writeUnary x k ih =>
    intro s hi hu
    simp only [WProg.run]
    rw [genW_writeUnary e s hi hW x hu.1]
    cases h : (BufW.impl e).writeUnary s x with
    | ok q => obtain ⟨r, s'⟩ := q; exact ih r s' (writeUnary_inv e hi h) (hu.2 r)
    | err _ => rfl
    | panic => rfl
    | dpanic => rfl
  | flush k ih =>
    intro s hi hu
    simp only [WProg.run]
    rw [genW_flush e s]
    cases h : (BufW.impl e).flush s with
    | ok q => obtain ⟨r, s'⟩ := q; exact ih r s' (flush_inv e hi h) (hu r)
    | err _ => rfl
    | panic => rfl
    | dpanic => rfl

/-- the same without the side condition on the program: the hand-written `write_unary` refuses
    (debug assertion, outcome `dpanic`) an argument that is not below `2^64 - 1`, so a program with
    such a call debug-panics on the hand-written model; off that outcome the two runs are equal. -/
theorem gen_wrun_agree {α : Type} (e : Endian) (hW : W < 2 ^ 64) (p : WProg α) :
    ∀ (s : BufW W), s.Inv →
      p.run (BufW.impl e) s = .dpanic ∨ p.run (genWImpl e) s = p.run (BufW.impl e) s := by
  induction p with
  | ret a => intro s _; exact Or.inr rfl
  | panic => intro s _; exact Or.inr rfl
  | dpanic => intro s _; exact Or.inl rfl
  | writeBits v n k ih =>
    intro s hi
    simp only [WProg.run]
    rw [genW_writeBits e s hi]
    cases h : (BufW.impl e).writeBits s v n with
    | ok q => obtain ⟨r, s'⟩ := q; exact ih r s' (hand_writeBits_inv e hi h)
    | err _ => exact Or.inr rfl
    | panic => exact Or.inr rfl
    | dpanic => exact Or.inl rfl
  | writeUnary x k ih =>
    intro s hi
    simp only [WProg.run]
    by_cases hx : x < 2 ^ 64
    · rw [genW_writeUnary e s hi hW x hx]
      cases h : (BufW.impl e).writeUnary s x with
      | ok q => obtain ⟨r, s'⟩ := q; exact ih r s' (writeUnary_inv e hi h)
      | err _ => exact Or.inr rfl
      | panic => exact Or.inr rfl
      | dpanic => exact Or.inl rfl
    · have hd : (BufW.impl e).writeUnary s x = .dpanic := by
        show BufW.writeUnary e s x = .dpanic
        unfold BufW.writeUnary
        rw [if_pos (by omega)]
      rw [hd]; exact Or.inl rfl
  | flush k ih =>
    intro s hi
    simp only [WProg.run]
    rw [genW_flush e s]
    cases h : (BufW.impl e).flush s with
    | ok q => obtain ⟨r, s'⟩ := q; exact ih r s' (flush_inv e hi h)
    | err _ => exact Or.inr rfl
    | panic => exact Or.inr rfl
    | dpanic => exact Or.inl rfl

/-- in particular: a run that succeeds on the hand-written model is the run on the translated one -/
theorem gen_wrun_of_ok {α : Type} (e : Endian) (hW : W < 2 ^ 64) (p : WProg α) {s : BufW W}
    (hi : s.Inv) {a : α} {s' : BufW W} (h : p.run (BufW.impl e) s = .ok (a, s')) :
    p.run (genWImpl e) s = .ok (a, s') := by
  rcases gen_wrun_agree e hW p s hi with h1 | h1
  · rw [h] at h1; cases h1
  · rw [h1, h]

/-- the invariant holds again after any program has run on the translated writer -/
theorem gen_wrun_inv {α : Type} (e : Endian) (hW : W < 2 ^ 64) (p : WProg α) :
    ∀ (s : BufW W) (a : α) (s' : BufW W), s.Inv → U64 p → p.run (genWImpl e) s = .ok (a, s') →
      s'.Inv := by
  induction p with
  | ret a => intro s b s' hi _ h; simp only [WProg.run] at h; cases h; exact hi
  | panic => intro s b s' _ _ h; simp only [WProg.run] at h; cases h
  | dpanic => intro s b s' _ _ h; simp only [WProg.run] at h; cases h
  | writeBits v n k ih =>
    intro s b s' hi hu h
    simp only [WProg.run] at h
    cases hr : (genWImpl e).writeBits s v n with
    | ok q => obtain ⟨r, s1⟩ := q; rw [hr] at h; exact ih r s1 b s' (genW_writeBits_inv e hi hr) (hu r) h
    | err _ => rw [hr] at h; cases h
    | panic => rw [hr] at h; cases h
    | dpanic => rw [hr] at h; cases h
  | writeUnary x k ih =>
    intro s b s' hi hu h
    simp only [WProg.run] at h
    cases hr : (genWImpl e).writeUnary s x with
    | ok q =>
      obtain ⟨r, s1⟩ := q; rw [hr] at h
      exact ih r s1 b s' (genW_writeUnary_inv e hi hW hu.1 hr) (hu.2 r) h
    | err _ => rw [hr] at h; cases h
    | panic => rw [hr] at h; cases h
    | dpanic => rw [hr] at h; cases h
  | flush k ih =>
    intro s b s' hi hu h
    simp only [WProg.run] at h
    cases hr : (genWImpl e).flush s with
    | ok q => obtain ⟨r, s1⟩ := q; rw [hr] at h; exact ih r s1 b s' (genW_flush_inv e hi hr) (hu r) h
    | err _ => rw [hr] at h; cases h
    | panic => rw [hr] at h; cases h
    | dpanic => rw [hr] at h; cases h

theorem inv_new {Ww : Nat} (hW : 0 < Ww) (checks : Bool) (cap : Option Nat) : (BufW.new Ww checks cap).Inv :=
  ⟨hW, Nat.le_refl _⟩

end Headline
end Dsi
