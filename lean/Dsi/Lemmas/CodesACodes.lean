/-
  Helper lemmas shared by the code-by-code theorems of `Dsi.Props.CodesA`:
  the "header, then a fixed-width field" shape of γ, δ, Rice, π, exp-Golomb and ω.
-/
import Dsi.Codes
import Dsi.Spec
import Dsi.Lemmas.CodesAFrame
namespace Dsi

/-! ### writers: a header followed by a field -/

/-- `p`, then `n` bits of `v`; the field may be described by any `v'` congruent to `v` mod `2^n` -/
theorem Writes.then_bits {e : Endian} {checks : Bool} {p : WProg Nat} {b1 : List Bool} {v v' n : Nat}
    (h1 : Writes p e checks b1) (hn : n ≤ 64) (hv : checks = false ∨ v % 2 ^ 64 < 2 ^ n)
    (hvv : v % 2 ^ n = v' % 2 ^ n) :
    Writes (p.bind fun a => .writeBits v n fun b => .ret (a + b)) e checks (b1 ++ fieldBits e v' n) := by
  have h2 : WritesV (WProg.writeBits v n fun b => WProg.ret (b1.length + b)) e checks
      (fieldBits e v n ++ []) (b1.length + n) :=
    WritesV.writeBits hn hv (WritesV.ret e checks _)
  have := WritesV.bind (k := fun a => WProg.writeBits v n fun b => .ret (a + b)) h1.toV h2
  exact Writes.ofV (this.congr (by simp [fieldBits_congr e hvv]) rfl) (by simp)

/-- `x` in unary, then `n` bits of `v` -/
theorem Writes.unary_then_bits {e : Endian} {checks : Bool} {x v v' n : Nat}
    (hx : x < 2 ^ 64 - 1) (hn : n ≤ 64) (hv : checks = false ∨ v % 2 ^ 64 < 2 ^ n)
    (hvv : v % 2 ^ n = v' % 2 ^ n) :
    Writes (.writeUnary x fun a => .writeBits v n fun b => .ret (a + b)) e checks
      (unaryBits x ++ fieldBits e v' n) :=
  Writes.then_bits (p := .writeUnary x .ret) (Writes.wunary hx) hn hv hvv

/-- the value handed to `write_bits` for "`m` without its most significant bit" -/
theorem strip_msb_ok (checks : Bool) {m : Nat} (h0 : m ≠ 0) (h : m < 2 ^ 64) :
    (checks = false ∨ (if checks then m - 2 ^ m.log2 else m) % 2 ^ 64 < 2 ^ m.log2) ∧
    (if checks then m - 2 ^ m.log2 else m) % 2 ^ m.log2 = m % 2 ^ m.log2 := by
  cases checks
  · simp
  · have ⟨h1, h2⟩ := log2_bounds h0
    have hp : 2 ^ (m.log2 + 1) = 2 * 2 ^ m.log2 := by rw [Nat.pow_succ, Nat.mul_comm]
    refine ⟨Or.inr ?_, ?_⟩
    · have : (m - 2 ^ m.log2) % 2 ^ 64 = m - 2 ^ m.log2 := Nat.mod_eq_of_lt (by omega)
      simp only [if_true]; omega
    · simpa using sub_pow_log2_mod h0

/-- the low bits of Rice / exp-Golomb -/
theorem low_bits_ok (checks : Bool) (n k : Nat) :
    (checks = false ∨ (if checks then n % 2 ^ k else n) % 2 ^ 64 < 2 ^ k) ∧
    (if checks then n % 2 ^ k else n) % 2 ^ k = n % 2 ^ k := by
  cases checks
  · simp
  · have hlt : n % 2 ^ k < 2 ^ k := Nat.mod_lt _ (Nat.two_pow_pos k)
    have hle : n % 2 ^ k % 2 ^ 64 ≤ n % 2 ^ k := Nat.mod_le _ _
    refine ⟨Or.inr ?_, ?_⟩
    · simp only [if_true]; omega
    · simp

/-! ### readers -/

/-- read `n` bits and return a function of them -/
theorem Reads.bits_ret {α} {e : Endian} {n v : Nat} {f : Nat → α} {c : α} (hn : n ≤ 64)
    (hc : f (v % 2 ^ n) = c) :
    Reads (.readBits n fun x => .ret (f x)) e (fieldBits e v n) c := by
  have := Reads.readBits (k := fun x => RProg.ret (f x)) (v := v) hn (Reads.ret e (f (v % 2 ^ n)))
  exact this.congr (List.append_nil _) hc

/-- the tail of γ, δ, π: `m` without its most significant bit -/
theorem Reads.msb_tail {e : Endian} {m : Nat} (h0 : m ≠ 0) (h : m < 2 ^ 64) :
    Reads (.readBits m.log2 fun v => .ret (v + 2 ^ m.log2 - 1)) e (fieldBits e m m.log2) (m - 1) :=
  Reads.bits_ret (f := fun v => v + 2 ^ m.log2 - 1) (Nat.le_of_lt (log2_lt_64 h))
    (by simp only [mod_pow_log2_add h0])

theorem Reads.msb_tail' {e : Endian} {m : Nat} (h0 : m ≠ 0) (h : m < 2 ^ 64) :
    Reads (.readBits m.log2 fun v => .ret (2 ^ m.log2 + v - 1)) e (fieldBits e m m.log2) (m - 1) :=
  Reads.bits_ret (f := fun v => 2 ^ m.log2 + v - 1) (Nat.le_of_lt (log2_lt_64 h))
    (by simp only [Nat.add_comm (2 ^ m.log2), mod_pow_log2_add h0])

/-- the quotient of Rice / exp-Golomb stays below `2^64 - 1` -/
theorem quot_lt {k n : Nat} (hn : n < 2 ^ 64) (hk0 : k = 0 → n < 2 ^ 64 - 1) :
    n / 2 ^ k < 2 ^ 64 - 1 := by
  rcases Nat.eq_zero_or_pos k with h | h
  · subst h; simpa using hk0 rfl
  · have : n / 2 ^ k ≤ n / 2 := by
      apply Nat.div_le_div_left _ (by decide)
      calc 2 = 2 ^ 1 := rfl
        _ ≤ 2 ^ k := Nat.pow_le_pow_right (by decide) h
    omega

/-- the tail of Rice and exp-Golomb: the `k` low bits, recombined with the quotient -/
theorem Reads.quot_rem_tail {e : Endian} {k n : Nat} (hk : k ≤ 63) (hn : n < 2 ^ 64) :
    Reads (.readBits k fun v =>
        if n / 2 ^ k * 2 ^ k + v ≥ 2 ^ 64 then .dpanic else .ret (n / 2 ^ k * 2 ^ k + v))
      e (fieldBits e n k) n := by
  have hdm : n / 2 ^ k * 2 ^ k + n % 2 ^ k = n := by
    rw [Nat.mul_comm]; exact Nat.div_add_mod n (2 ^ k)
  refine (Reads.readBits (v := n) (rest := []) (c := n) (by omega) ?_).congr (List.append_nil _) rfl
  simp only [hdm]
  rw [if_neg (by omega)]
  exact Reads.ret e n

end Dsi
