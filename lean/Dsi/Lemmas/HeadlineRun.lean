/-
  Headline, part 1: the translated method bodies assembled into implementations of the
  `BitWrite` / `BitRead` interfaces and the run equalities (writer: HeadlineRunW.lean, readers:
  HeadlineRunR.lean; split so that a property about the writer does not depend on the reader
  bodies and conversely).
-/
import Dsi.Lemmas.HeadlineRunW
import Dsi.Lemmas.HeadlineRunR
