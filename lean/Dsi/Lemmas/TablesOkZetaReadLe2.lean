/-
  C05 — kernel-evaluated table theorems (ζ₃ decoding, LE, piece 2 of 3: chunks 4 and 5).  Each statement is a closed Boolean
  computation over the *generated* table (no table content is mentioned here), checked by the
  kernel's evaluator (`decide +kernel`: no `native_decide`, no compiler trust).
-/
import Dsi.Lemmas.TablesCheck
import Dsi.Gen.TablesZeta
namespace Dsi
open Gen

theorem Tables.zeta_read_le_p2 :
    chkReadHead .le (readZetaDefault 3) Zeta.READ_BITS Zeta.MISSING_VALUE_LEN_LE 2
      (Tables.RPos.adv 2 (Tables.RPos.adv 2 (0, Zeta.READ_LE_chunks, Zeta.READ_LEN_LE_chunks))) = true := by decide +kernel

end Dsi
