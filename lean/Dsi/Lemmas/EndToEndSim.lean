/-
  End-to-end, part 3: gluing the refinement theorems.
  * writer: from the initial state, a program that succeeds on the reference writer succeeds on the
    concrete one, and after `flush` the delivered byte image is the written bits plus padding;
  * readers: a concrete reader related to a reference reader standing in front of `bits` runs any
    program that `Reads` those bits with the same result and ends related to the reference reader
    standing after them.
-/
import Dsi.Lemmas.EndToEndBytes
import Dsi.Lemmas.EndToEndProgs
import Dsi.Lemmas.CodesAFrame
namespace Dsi
namespace E2E

theorem ResRel.ok_right {α β : Type} {R : α → β → Prop} {x : Res α} {b : β}
    (h : ResRel R x (.ok b)) : ∃ a, x = .ok a ∧ R a b := by
  cases x with
  | ok a => exact ⟨a, rfl, h⟩
  | err _ => exact h.elim
  | panic => exact h.elim
  | dpanic => exact h.elim

/-! ### the reference writer keeps its configuration -/

theorem refw_put_cfg {r r' : RefW} {bs : List Bool} {k a : Nat} (h : r.put bs k = .ok (a, r')) :
    r'.cap = r.cap ∧ r'.bits = r.bits ++ bs := by
  simp only [RefW.put] at h
  split at h
  · cases h; exact ⟨rfl, rfl⟩
  · cases h

theorem refw_writeBits_cfg {r r' : RefW} {v n a : Nat} (h : RefW.writeBits r v n = .ok (a, r')) :
    r'.cap = r.cap := by
  unfold RefW.writeBits at h
  split at h
  · cases h
  · split at h
    · cases h
    · exact (refw_put_cfg h).1

theorem refw_writeUnary_cfg {r r' : RefW} {x a : Nat} (h : RefW.writeUnary r x = .ok (a, r')) :
    r'.cap = r.cap := by
  unfold RefW.writeUnary at h
  split at h
  · cases h
  · exact (refw_put_cfg h).1

theorem refw_flush_cfg {r r' : RefW} {a : Nat} (h : RefW.flush r = .ok (a, r')) : r'.cap = r.cap :=
  (refw_put_cfg h).1

theorem refw_run_cap {α : Type} (p : WProg α) : ∀ {r r' : RefW} {a : α},
    p.run RefW.impl r = .ok (a, r') → r'.cap = r.cap := by
  induction p with
  | ret a => intro r r' a' h; cases h; rfl
  | panic => intro r r' a' h; cases h
  | dpanic => intro r r' a' h; cases h
  | writeBits v n k ih =>
    intro r r' a' h
    simp only [WProg.run] at h
    cases hw : RefW.impl.writeBits r v n with
    | ok q =>
      obtain ⟨x, r1⟩ := q
      rw [hw] at h
      exact (ih x h).trans (refw_writeBits_cfg hw)
    | err _ => rw [hw] at h; cases h
    | panic => rw [hw] at h; cases h
    | dpanic => rw [hw] at h; cases h
  | writeUnary x k ih =>
    intro r r' a' h
    simp only [WProg.run] at h
    cases hw : RefW.impl.writeUnary r x with
    | ok q =>
      obtain ⟨y, r1⟩ := q
      rw [hw] at h
      exact (ih y h).trans (refw_writeUnary_cfg hw)
    | err _ => rw [hw] at h; cases h
    | panic => rw [hw] at h; cases h
    | dpanic => rw [hw] at h; cases h
  | flush k ih =>
    intro r r' a' h
    simp only [WProg.run] at h
    cases hw : RefW.impl.flush r with
    | ok q =>
      obtain ⟨y, r1⟩ := q
      rw [hw] at h
      exact (ih y h).trans (refw_flush_cfg hw)
    | err _ => rw [hw] at h; cases h
    | panic => rw [hw] at h; cases h
    | dpanic => rw [hw] at h; cases h

/-! ### the concrete flush -/

/-- after a successful flush the buffer is empty -/
theorem flush_space {W : Nat} (e : Endian) {s s' : BufW W} {k : Nat} (hs : s.space ≤ W)
    (h : BufW.flush e s = .ok (k, s')) : s'.space = W := by
  unfold BufW.flush at h
  by_cases h0 : W - s.space = 0
  · simp only [h0, ne_eq, not_true_eq_false, if_false, Res.ok.injEq, Prod.mk.injEq] at h
    rw [← h.2]; omega
  · simp only [h0, ne_eq, not_false_eq_true, if_true] at h
    rw [BufW.emit_eq] at h
    by_cases h1 : capFits s.cap (s.out.length + 1) = true
    · simp only [h1, if_true, Res.ok.injEq, Prod.mk.injEq] at h
      rw [← h.2]
    · simp [h1] at h

theorem wordBytes_length {W : Nat} (e : Endian) (w : BitVec W) : (BufW.wordBytes e w).length = W / 8 := by
  cases e <;> simp [BufW.wordBytes]

theorem outBytes_length {W : Nat} (e : Endian) (s : BufW W) :
    (s.outBytes e).length = s.out.length * (W / 8) := by
  unfold BufW.outBytes
  induction s.out with
  | nil => simp
  | cons w ws ih =>
    rw [List.flatMap_cons, List.length_append, ih, wordBytes_length, List.length_cons, Nat.succ_mul]
    omega

theorem outBytes_lt {W : Nat} (e : Endian) (h8 : 8 ∣ W) (s : BufW W) : ∀ b ∈ s.outBytes e, b < 256 := by
  rw [outBytes_eq_layout e h8]
  exact layout_bytes_lt e _

/-- the bits of the delivered bytes are the bits of the delivered words -/
theorem bits_of_outBytes {W : Nat} (e : Endian) (h8 : 8 ∣ W) (s : BufW W) :
    bitsOfBytes e (s.outBytes e) = s.out.flatMap (wordBits e) := by
  rw [outBytes_eq_layout e h8, e2e_bits_of_layout, BufW.flatMap_wordBits_length]
  obtain ⟨m, rfl⟩ := h8
  have : s.out.length * (8 * m) % 8 = 0 := by
    rw [Nat.mul_left_comm]; exact Nat.mul_mod_right _ _
  rw [this]
  simp

/-! ### writer image -/

/-- padding added by `flush` on a writer of word size `W` holding `n` bits -/
def wpad (W n : Nat) : List Bool := List.replicate ((W - n % W) % W) false

theorem writer_image {α : Type} (e : Endian) {Ww : Nat} (hW : 0 < Ww) (h8 : 8 ∣ Ww) (checks : Bool)
    (p : WProg α) {a : α} {r' : RefW}
    (hp : p.run RefW.impl { e := e, W := Ww, checks := checks, cap := none } = .ok (a, r')) :
    ∃ (s : BufW Ww) (k : Nat) (s' : BufW Ww),
      p.run (BufW.impl e) (BufW.new Ww checks none) = .ok (a, s) ∧
      (BufW.impl e).flush s = .ok (k, s') ∧
      bitsOfBytes e (s'.outBytes e) = r'.bits ++ wpad Ww r'.bits.length ∧
      (∀ b ∈ s'.outBytes e, b < 256) ∧
      (s'.outBytes e).length % (Ww / 8) = 0 := by
  have h0 := rel_new e hW checks none
  have hsim := wprog_sim e p h0
  rw [hp] at hsim
  obtain ⟨⟨a', s⟩, hrun, ha, hrel, _⟩ := ResRel.ok_right hsim
  have ha : a' = a := ha
  subst ha
  have hcap : r'.cap = none := refw_run_cap p hp
  have hrW : r'.W = Ww := hrel.1.2.2.1
  have hfl : RefW.flush r' = .ok (r'.pending, { r' with bits := r'.bits ++ wpad Ww r'.bits.length }) := by
    unfold RefW.flush
    rw [RefW.put_growable r' hcap]
    simp only [RefW.pending, hrW, wpad]
  have hsim2 := flush_sim hrel
  rw [hfl] at hsim2
  obtain ⟨⟨k, s'⟩, hflush, hk, hrel2, _⟩ := ResRel.ok_right hsim2
  refine ⟨s, k, s', hrun, hflush, ?_, outBytes_lt e h8 s', ?_⟩
  · have hsp : s'.space = Ww := flush_space e hrel.1.1.2 hflush
    have hbits : r'.bits ++ wpad Ww r'.bits.length = s'.abs e := hrel2.1.2.2.2.2.2
    rw [bits_of_outBytes e h8, hbits, BufW.abs, BufW.valid_eq, hsp, BufW.validAt_full,
      List.append_nil]
  · rw [outBytes_length, Nat.mul_mod_left]

theorem wpad_all_false (W n : Nat) : ∀ b ∈ wpad W n, b = false := by
  intro b hb
  exact (List.mem_replicate.1 hb).2

/-! ### stream of the reader built on a byte image -/

/-- padding to a whole number of reader words, in bits -/
def rpad (Wr nbytes : Nat) : List Bool :=
  List.replicate (8 * ((Wr / 8 - nbytes % (Wr / 8)) % (Wr / 8))) false

theorem reader_stream (e : Endian) {Wr : Nat} (hW : 0 < Wr) (h8 : 8 ∣ Wr) (bytes : List Nat)
    (hb : ∀ b ∈ bytes, b < 256) :
    (wordsOfBytes e Wr bytes).flatMap (wordBits e) = bitsOfBytes e bytes ++ rpad Wr bytes.length := by
  have hB : 0 < Wr / 8 := by
    obtain ⟨m, rfl⟩ := h8
    rw [Nat.mul_div_cancel_left m (by omega : 0 < 8)]; omega
  rw [e2e_words_of_bytes_padded e h8 hW bytes hb, padTo_eq hB, bitsOfBytes_append, bitsOfBytes_zeros]
  rfl

/-! ### buffered reader -/

theorem after_eq_at (e : Endian) (pre b1 b2 post : List Bool) (st : Bool) (pm : Nat) :
    RefR.after e pre b1 (b2 ++ post) st pm = RefR.at e (pre ++ b1) b2 post st pm := by
  simp [RefR.at, RefR.after, List.append_assoc]

/-- the reference reader at the start of a stream -/
def ref0 (e : Endian) (stream : List Bool) (strict : Bool) (pm : Nat) : RefR :=
  { e := e, stream := stream, pos := 0, strict := strict, peekMax := pm }

theorem ref0_skip (e : Endian) (strict : Bool) (pm : Nat) (pre bits post : List Bool) :
    (ref0 e (pre ++ bits ++ post) strict pm).avail pre.length = true ∧
    RefR.skipBits (ref0 e (pre ++ bits ++ post) strict pm) pre.length
      = .ok (RefR.at e pre bits post strict pm) := by
  have hav : (ref0 e (pre ++ bits ++ post) strict pm).avail pre.length = true := by
    simp only [RefR.avail, ref0, List.length_append, Nat.zero_add]
    cases strict <;> simp <;> omega
  refine ⟨hav, ?_⟩
  unfold RefR.skipBits
  rw [if_pos hav]
  simp [ref0, RefR.at]

/-- skipping the prefix from a fresh buffered reader -/
theorem buf_start (e : Endian) {W : Nat} (hW : 0 < W) (data : List (BitVec W)) (strict : Bool)
    (pre bits post : List Bool) (hst : data.flatMap (wordBits e) = pre ++ bits ++ post) :
    ∃ s1, (BufR.impl e).skipBits (BufR.new ⟨data, 0, strict⟩) pre.length = .ok s1 ∧
      BufR.Rel e s1 (RefR.at e pre bits post strict W) := by
  have h0 : BufR.Rel e (BufR.new ⟨data, 0, strict⟩) (ref0 e (data.flatMap (wordBits e)) strict W) :=
    new_rel e hW data strict
  have hsim := skipBits_sim h0 pre.length
  rw [hst, (ref0_skip e strict W pre bits post).2] at hsim
  obtain ⟨s1, h1, h2⟩ := ResRel.ok_right hsim
  exact ⟨s1, h1, h2⟩

/-- one decoding step on the buffered reader -/
theorem buf_step {β : Type} {e : Endian} {W : Nat} (hW64 : e = .be → W ≤ 64) {s : BufR W}
    {pre bits post : List Bool} {strict : Bool}
    (h : BufR.Rel e s (RefR.at e pre bits post strict W)) {rp : RProg β} {v : β}
    (hr : Reads rp e bits v) (hpb : PeekBounded W 0 rp) :
    ∃ s', rp.run (BufR.impl e) s = .ok (v, s') ∧
      BufR.Rel e s' (RefR.after e pre bits post strict W) ∧
      s'.bitPos = pre.length + bits.length := by
  have hW : 1 ≤ W := Rel.pos_W h
  have hsim := rprog_sim hW64 rp hpb h
  rw [hr pre post strict W hW] at hsim
  obtain ⟨⟨v', s'⟩, h1, hv, hrel⟩ := ResRel.ok_right hsim
  have hv : v' = v := hv
  subst hv
  exact ⟨s', h1, hrel, bitPos_eq hrel⟩

/-! ### unbuffered reader -/

theorem bitr_start (e : Endian) (data : List (BitVec 64)) (strict : Bool)
    (pre bits post : List Bool) (hst : data.flatMap (wordBits e) = pre ++ bits ++ post) :
    ∃ s1, (BitR.impl e).skipBits { data := ⟨data, 0, strict⟩ } pre.length = .ok s1 ∧
      BitR.Rel' e s1 (RefR.at e pre bits post strict 32) := by
  have h0 : BitR.Rel' e { data := ⟨data, 0, strict⟩ } (ref0 e (data.flatMap (wordBits e)) strict 32) :=
    bitr_new_rel e data 0 strict
  rw [hst] at h0
  have hsim := bitr_skipBits h0 (ref0_skip e strict 32 pre bits post).1
  rw [(ref0_skip e strict 32 pre bits post).2] at hsim
  obtain ⟨s1, h1, h2⟩ := ResRel.ok_right hsim
  exact ⟨s1, h1, h2⟩

/-- one decoding step on the unbuffered reader -/
theorem bitr_step {β : Type} {e : Endian} {s : BitR} {pre bits post : List Bool} {strict : Bool}
    (h : BitR.Rel' e s (RefR.at e pre bits post strict 32)) {rp : RProg β} {v : β}
    (hr : Reads rp e bits v) (hok : BitR.ProgOK 0 rp) (hskip : BitR.NoSkip rp ∨ strict = false) :
    ∃ s', rp.run (BitR.impl e) s = .ok (v, s') ∧
      BitR.Rel' e s' (RefR.after e pre bits post strict 32) ∧
      s'.bitPos = pre.length + bits.length := by
  have hne : BitR.NoEofSkip rp (RefR.at e pre bits post strict 32) := by
    rcases hskip with h1 | h1
    · exact noEofSkip_of_noSkip rp h1 _
    · exact noEofSkip_of_nonstrict rp _ h1
  have hsim := bitr_rprog_sim rp hok h hne
  rw [hr pre post strict 32 (by decide)] at hsim
  obtain ⟨⟨v', s'⟩, h1, hv, hrel⟩ := ResRel.ok_right hsim
  have hv : v' = v := hv
  subst hv
  exact ⟨s', h1, hrel, bitr_bitPos hrel.1⟩

/-! ### raw fields as programs -/

theorem run_rbits_ok {σ : Type} (I : RImpl σ) (n : Nat) (s s' : σ) (v : Nat)
    (h : (RProg.rbits n).run I s = .ok (v, s')) : I.readBits s n = .ok (v, s') := by
  simp only [RProg.rbits, RProg.run] at h
  cases hx : I.readBits s n with
  | ok q => obtain ⟨a, b⟩ := q; rw [hx] at h; exact h
  | err _ => rw [hx] at h; cases h
  | panic => rw [hx] at h; cases h
  | dpanic => rw [hx] at h; cases h

theorem reads_rbits (e : Endian) {n : Nat} (hn : n ≤ 64) (v : Nat) :
    Reads (RProg.rbits n) e (fieldBits e v n) (v % 2 ^ n) :=
  (Reads.readBits (k := RProg.ret) (rest := []) hn (Reads.ret e _)).congr (List.append_nil _) rfl

end E2E
end Dsi
