/-
  C05 — the δ decoding tables pass `chkReadTable`: recombination of the independently
  kernel-evaluated pieces `Dsi.Lemmas.TablesOkDeltaRead*` (`chkReadRest_split`).
-/
import Dsi.Lemmas.TablesSound
import Dsi.Lemmas.TablesOkDeltaReadBe0
import Dsi.Lemmas.TablesOkDeltaReadBe1
import Dsi.Lemmas.TablesOkDeltaReadLe0
import Dsi.Lemmas.TablesOkDeltaReadLe1
namespace Dsi
open Gen

/-- every entry of the BE δ decoding table is a miss or agrees with `readDeltaDefault none`;
    the table has `2^READ_BITS` entries -/
theorem delta_read_be_ok :
    chkReadTable .be (readDeltaDefault none) Delta.READ_BITS Delta.MISSING_VALUE_LEN_BE
      Delta.READ_BE_chunks Delta.READ_LEN_BE_chunks = true := by
  have h : chkReadRest .be (readDeltaDefault none) Delta.READ_BITS Delta.MISSING_VALUE_LEN_BE
      (0, Delta.READ_BE_chunks, Delta.READ_LEN_BE_chunks) = true := by
    rw [Tables.chkReadRest_split 2]
    refine Tables.band_intro Tables.delta_read_be_p0 ?_
    exact Tables.delta_read_be_p1
  exact Tables.band_intro (by decide) h

/-- every entry of the LE δ decoding table is a miss or agrees with `readDeltaDefault none`;
    the table has `2^READ_BITS` entries -/
theorem delta_read_le_ok :
    chkReadTable .le (readDeltaDefault none) Delta.READ_BITS Delta.MISSING_VALUE_LEN_LE
      Delta.READ_LE_chunks Delta.READ_LEN_LE_chunks = true := by
  have h : chkReadRest .le (readDeltaDefault none) Delta.READ_BITS Delta.MISSING_VALUE_LEN_LE
      (0, Delta.READ_LE_chunks, Delta.READ_LEN_LE_chunks) = true := by
    rw [Tables.chkReadRest_split 2]
    refine Tables.band_intro Tables.delta_read_le_p0 ?_
    exact Tables.delta_read_le_p1
  exact Tables.band_intro (by decide) h

end Dsi
