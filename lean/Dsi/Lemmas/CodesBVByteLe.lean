/-
  VByte, little-endian byte-level reader and encoder; byte-level round trips and completeness
  for both variants.
-/
import Dsi.Lemmas.CodesBVByte
namespace Dsi.CodesB
open Dsi

/-! ### little-endian byte-level reader -/

theorem readLeLoop_ok : ∀ (bs : List Nat) (fuel result shift : Nat) (rest : List Nat),
    Term bs → bs.length ≤ fuel → shift < 64 →
    result + 2 ^ shift * vbyteValLe bs < 2 ^ 64 →
    vbyteReadLeLoop fuel result shift (bs ++ rest)
      = .ok (result + 2 ^ shift * vbyteValLe bs, rest) := by
  intro bs
  induction bs with
  | nil => intro _ _ _ _ h; exact h.elim
  | cons b t ih =>
    intro fuel result shift rest ht hf hs hb
    obtain ⟨f, rfl⟩ : ∃ f, fuel = f + 1 := ⟨fuel - 1, by simp at hf; omega⟩
    cases t with
    | nil =>
      have h0 : b / 128 = 0 := ht
      have hv : vbyteValLe [b] = b % 128 := by simp [vbyteValLe, h0]
      rw [hv] at hb ⊢
      have hsh : shl64 (b % 128) shift = 2 ^ shift * (b % 128) := by
        rw [shl64_of_lt (by rw [Nat.mul_comm]; omega), Nat.mul_comm]
      simp only [vbyteReadLeLoop, List.cons_append, List.nil_append]
      rw [if_neg (by omega), hsh, if_neg (by omega), if_pos h0]
    | cons c cs =>
      have hne : b / 128 ≠ 0 := ht.1
      have hv : vbyteValLe (b :: c :: cs) = b % 128 + 128 * (vbyteValLe (c :: cs) + 1) := by
        simp [vbyteValLe, hne]
      have hexp : 2 ^ shift * (b % 128 + 128 * (vbyteValLe (c :: cs) + 1))
          = 2 ^ shift * (b % 128) + 128 * (2 ^ shift * vbyteValLe (c :: cs)) + 128 * 2 ^ shift := by
        rw [Nat.mul_add, Nat.mul_left_comm, Nat.mul_add, Nat.mul_one, Nat.mul_add, Nat.add_assoc]
      have hp7 : 2 ^ (shift + 7) = 128 * 2 ^ shift := by rw [Nat.pow_add, Nat.mul_comm]
      rw [hv, hexp] at hb
      rw [hv, hexp]
      have hs7 : shift + 7 < 64 := by
        apply (Nat.pow_lt_pow_iff_right (a := 2) (by omega)).1
        rw [hp7]; omega
      have hsh : shl64 (b % 128) shift = 2 ^ shift * (b % 128) := by
        rw [shl64_of_lt (by rw [Nat.mul_comm]; omega), Nat.mul_comm]
      simp only [vbyteReadLeLoop, List.cons_append]
      rw [if_neg (by omega), hsh, if_neg (by omega), if_neg hne, if_neg (by rw [hp7]; omega)]
      have := ih f (result + 2 ^ shift * (b % 128) + 2 ^ (shift + 7)) (shift + 7) rest ht.2
        (by simp at hf ⊢; omega) hs7
        (by rw [hp7, Nat.mul_assoc]; omega)
      rw [List.cons_append] at this
      rw [this, hp7, Nat.mul_assoc]
      congr 2
      omega

theorem readLeLoop_inv : ∀ (fuel result shift : Nat) (bs : List Nat) (w : Nat),
    vbyteReadLeLoop fuel result shift bs = .ok (w, []) → Term bs := by
  intro fuel
  induction fuel with
  | zero => intro result shift bs w h; simp [vbyteReadLeLoop] at h
  | succ f ih =>
    intro result shift bs w h
    cases bs with
    | nil => simp [vbyteReadLeLoop] at h
    | cons b rest =>
      simp only [vbyteReadLeLoop] at h
      by_cases h0 : shift ≥ 64
      · rw [if_pos h0] at h; cases h
      · rw [if_neg h0] at h
        by_cases h1 : result + shl64 (b % 128) shift ≥ 2 ^ 64
        · rw [if_pos h1] at h; cases h
        · rw [if_neg h1] at h
          by_cases h2 : b / 128 = 0
          · rw [if_pos h2] at h
            injection h with h
            have : rest = [] := (Prod.mk.inj h).2
            subst this
            exact h2
          · rw [if_neg h2] at h
            by_cases h3 : shift + 7 ≥ 64 ∨
                result + shl64 (b % 128) shift + 2 ^ (shift + 7) ≥ 2 ^ 64
            · rw [if_pos h3] at h; cases h
            · rw [if_neg h3] at h
              exact term_cons h2 (ih _ _ _ _ h)

theorem vbyteReadLe_ok (s rest : List Nat) (ht : Term s) (hv : vbyteValLe s < 2 ^ 64) :
    vbyteReadLe (s ++ rest) = .ok (vbyteValLe s, rest) := by
  have := readLeLoop_ok s ((s ++ rest).length + 1) 0 0 rest ht (by simp; omega) (by omega)
    (by simpa using hv)
  simpa [vbyteReadLe] using this

theorem vbyteReadLe_inv (s : List Nat) (w : Nat) (h : vbyteReadLe s = .ok (w, [])) : Term s :=
  readLeLoop_inv _ _ _ _ _ h

/-! ### little-endian encoder -/

theorem leLoop_term : ∀ (fuel v : Nat), 1 ≤ fuel → v < 128 ^ fuel →
    Term (vbyteLeBytesLoop fuel v) := by
  intro fuel
  induction fuel with
  | zero => intro v h; omega
  | succ f ih =>
    intro v _ hv
    simp only [vbyteLeBytesLoop]
    by_cases h : v / 128 ≠ 0
    · rw [if_pos h]
      have hf : 1 ≤ f := by
        cases f with
        | zero => simp at hv; omega
        | succ f => omega
      have hv' : v / 128 - 1 < 128 ^ f := by
        have : v / 128 < 128 ^ f := by
          rw [Nat.div_lt_iff_lt_mul (by omega), ← Nat.pow_succ]; exact hv
        omega
      exact term_cons (by omega) (ih _ hf hv')
    · rw [if_neg h]
      show v % 128 / 128 = 0
      omega

theorem leLoop_val : ∀ (fuel v : Nat), 1 ≤ fuel → v < 128 ^ fuel →
    vbyteValLe (vbyteLeBytesLoop fuel v) = v := by
  intro fuel
  induction fuel with
  | zero => intro v h; omega
  | succ f ih =>
    intro v _ hv
    simp only [vbyteLeBytesLoop]
    by_cases h : v / 128 ≠ 0
    · rw [if_pos h]
      have hf : 1 ≤ f := by
        cases f with
        | zero => simp at hv; omega
        | succ f => omega
      have hv' : v / 128 - 1 < 128 ^ f := by
        have : v / 128 < 128 ^ f := by
          rw [Nat.div_lt_iff_lt_mul (by omega), ← Nat.pow_succ]; exact hv
        omega
      have hne : (v % 128 + 128) / 128 ≠ 0 := by omega
      simp only [vbyteValLe, if_neg hne, ih _ hf hv']
      omega
    · rw [if_neg h]
      have h0 : v % 128 / 128 = 0 := by omega
      simp only [vbyteValLe, if_pos h0]
      omega

theorem leLoop_range : ∀ (fuel v : Nat), ∀ x ∈ vbyteLeBytesLoop fuel v, x < 256 := by
  intro fuel
  induction fuel with
  | zero => intro v x hx; simp [vbyteLeBytesLoop] at hx
  | succ f ih =>
    intro v x hx
    simp only [vbyteLeBytesLoop] at hx
    by_cases h : v / 128 ≠ 0
    · rw [if_pos h] at hx
      rcases List.mem_cons.1 hx with rfl | hm
      · omega
      · exact ih _ x hm
    · rw [if_neg h] at hx
      have : x = v % 128 := by simpa using hx
      omega

/-- encoding the value of a terminated string gives the string back -/
theorem leLoop_complete : ∀ (s : List Nat) (fuel : Nat), Term s → (∀ x ∈ s, x < 256) →
    s.length ≤ fuel → vbyteLeBytesLoop fuel (vbyteValLe s) = s := by
  intro s
  induction s with
  | nil => intro _ h; exact h.elim
  | cons b t ih =>
    intro fuel ht hx hf
    obtain ⟨f, rfl⟩ : ∃ f, fuel = f + 1 := ⟨fuel - 1, by simp at hf; omega⟩
    have hb := hx b (by simp)
    cases t with
    | nil =>
      have h0 : b / 128 = 0 := ht
      have hv : vbyteValLe [b] = b := by simp [vbyteValLe, h0]; omega
      rw [hv]
      simp only [vbyteLeBytesLoop]
      rw [if_neg (by omega)]
      congr 1
      omega
    | cons c cs =>
      have hne : b / 128 ≠ 0 := ht.1
      have hv : vbyteValLe (b :: c :: cs) = b % 128 + 128 * (vbyteValLe (c :: cs) + 1) := by
        simp [vbyteValLe, hne]
      rw [hv]
      simp only [vbyteLeBytesLoop]
      have h1 : (b % 128 + 128 * (vbyteValLe (c :: cs) + 1)) / 128 = vbyteValLe (c :: cs) + 1 := by
        omega
      have h2 : (b % 128 + 128 * (vbyteValLe (c :: cs) + 1)) % 128 = b % 128 := by omega
      rw [h1, h2, if_pos (by omega), Nat.add_sub_cancel,
        ih f ht.2 (fun x hm => hx x (by simp [hm])) (by simp at hf ⊢; omega)]
      congr 1
      omega

/-! ### byte-level theorems (C18) -/

theorem pow128_10 : (128 : Nat) ^ 10 = 2 ^ 70 := by decide
theorem pow128_9 : (128 : Nat) ^ 9 = 2 ^ 63 := by decide

theorem vbyteBeBytes_term (v : Nat) : Term (vbyteBeBytes v) := by
  rw [vbyteBeBytes_eq]
  exact term_snoc _ _ (fun x hx => by have := beLoop_range 10 _ x hx; omega) (by omega)

theorem vbyteBeBytes_val (v : Nat) (hv : v < 2 ^ 64) : vbyteValBe (vbyteBeBytes v) = v := by
  rw [vbyteBeBytes_eq, valBe_snoc, beLoop_cont 10 (v / 128) (by rw [pow128_10]; omega)]
  omega

theorem vbyteBeBytes_range (v : Nat) : ∀ b ∈ vbyteBeBytes v, b < 256 := by
  intro b hb
  rw [vbyteBeBytes_eq] at hb
  rcases List.mem_append.1 hb with hm | hm
  · exact (beLoop_range 10 _ b hm).2
  · have : b = v % 128 := by simpa using hm
    omega

theorem vbyteLeBytes_term (v : Nat) (hv : v < 2 ^ 64) : Term (vbyteLeBytes v) :=
  leLoop_term 10 v (by omega) (by rw [pow128_10]; omega)

theorem vbyteLeBytes_val (v : Nat) (hv : v < 2 ^ 64) : vbyteValLe (vbyteLeBytes v) = v :=
  leLoop_val 10 v (by omega) (by rw [pow128_10]; omega)

theorem vbyteLeBytes_range (v : Nat) : ∀ b ∈ vbyteLeBytes v, b < 256 := leLoop_range 10 v

/-- a terminated string whose value fits in 64 bits has at most 10 bytes -/
theorem term_len_be (s : List Nat) (ht : Term s) (hv : vbyteValBe s < 2 ^ 64) : s.length ≤ 10 := by
  cases s with
  | nil => exact ht.elim
  | cons b bs =>
    have h1 := (valBe_bounds b bs).1
    have h2 := off10_gt
    by_cases h : bs.length ≤ 9
    · simp; omega
    · have := off_le (show 10 ≤ bs.length by omega)
      omega

theorem term_len_le (s : List Nat) (ht : Term s) (hv : vbyteValLe s < 2 ^ 64) : s.length ≤ 10 := by
  have h1 := (valLe_bounds s ht).1
  have h2 := off10_gt
  by_cases h : s.length ≤ 10
  · exact h
  · have := off_le (show 10 ≤ s.length - 1 by omega)
    omega

/-- values of short strings do not wrap -/
theorem val_lt_be (s : List Nat) (hl : s.length ≤ 9) : vbyteValBe s < 2 ^ 64 := by
  cases s with
  | nil => simp [vbyteValBe]
  | cons b bs =>
    have h1 := (valBe_bounds b bs).2
    have := off_le (show bs.length + 1 ≤ 9 by simpa using hl)
    have := off9_lt
    omega

theorem val_lt_le (s : List Nat) (ht : Term s) (hl : s.length ≤ 9) : vbyteValLe s < 2 ^ 64 := by
  have h1 := (valLe_bounds s ht).2
  have := off_le hl
  have := off9_lt
  omega

theorem be_encode_decode (s : List Nat) (ht : Term s) (hx : ∀ b ∈ s, b < 256)
    (hv : vbyteValBe s < 2 ^ 64) : vbyteBeBytes (vbyteValBe s) = s := by
  have hlen := term_len_be s ht hv
  obtain ⟨xs, l, rfl, hxs, hl⟩ := term_snoc_inv s ht
  have hll : l < 128 := by omega
  rw [valBe_snoc, vbyteBeBytes_eq]
  have h1 : (contBe xs * 128 + l % 128) / 128 = contBe xs := by omega
  have h2 : (contBe xs * 128 + l % 128) % 128 = l := by omega
  rw [h1, h2, beLoop_complete xs.length xs 10 rfl
    (fun x hm => by have := hx x (by simp [hm]); have := hxs x hm; omega)
    (by simp at hlen; omega)]

theorem le_encode_decode (s : List Nat) (ht : Term s) (hx : ∀ b ∈ s, b < 256)
    (hv : vbyteValLe s < 2 ^ 64) : vbyteLeBytes (vbyteValLe s) = s :=
  leLoop_complete s 10 ht hx (term_len_le s ht hv)

end Dsi.CodesB
