/-
  Elias ω: the block structure of the codeword against the recursive writer and the
  iterative reader.
-/
import Dsi.Lemmas.CodesACodes
namespace Dsi

/-! ### blocks -/

/-- an ω block starts with a one (the most significant bit of `m`) -/
theorem omegaBlock_be {m : Nat} (h0 : m ≠ 0) :
    Spec.omegaBlock .be m = true :: fieldBits .be m m.log2 := by
  simp [Spec.omegaBlock, fieldBits, fieldLE_succ_last, div_pow_log2 h0]

theorem omegaBlock_le_eq_field (m : Nat) :
    Spec.omegaBlock .le m = fieldBits .le (2 * m + 1) (m.log2 + 1) := by
  have h1 : (2 * m + 1) % 2 = 1 := by omega
  have h2 : (2 * m + 1) / 2 = m := by omega
  simp [Spec.omegaBlock, fieldBits, fieldLE, h1, h2]

theorem omegaBlock_cons (e : Endian) {m : Nat} (h0 : m ≠ 0) :
    Spec.omegaBlock e m = true :: fieldBits e m m.log2 := by
  cases e
  · exact omegaBlock_be h0
  · rfl

@[simp] theorem omegaBlock_length (e : Endian) (m : Nat) :
    (Spec.omegaBlock e m).length = m.log2 + 1 := by
  cases e <;> simp [Spec.omegaBlock]

/-- the value the reader reconstructs from a block -/
theorem omegaBlock_val (e : Endian) {m : Nat} (h0 : m ≠ 0) :
    (match e with
      | .be => bitsVal e (Spec.omegaBlock e m)
      | .le => bitsVal e (Spec.omegaBlock e m) / 2 + 2 ^ m.log2) = m := by
  cases e
  · simp only [Spec.omegaBlock, bitsVal_fieldBits]
    exact Nat.mod_eq_of_lt Nat.lt_log2_self
  · simp only [omegaBlock_le_eq_field, bitsVal_fieldBits]
    have hp : 2 ^ (m.log2 + 1) = 2 * 2 ^ m.log2 := by rw [Nat.pow_succ, Nat.mul_comm]
    have hpos : 0 < 2 ^ m.log2 := Nat.two_pow_pos _
    have hmod : (2 * m + 1) % (2 * 2 ^ m.log2) = 2 * (m % 2 ^ m.log2) + 1 := by
      rw [Nat.mod_mul]
      have h1 : (2 * m + 1) % 2 = 1 := by omega
      have h2 : (2 * m + 1) / 2 = m := by omega
      rw [h1, h2]; omega
    rw [hp, hmod]
    have := mod_pow_log2_add h0
    omega

/-! ### writer -/

/-- the rotated word handed to `write_bits` on LE streams -/
theorem omega_le_word_ok (checks : Bool) {m : Nat} (h : m < 2 ^ 64) :
    (checks = false ∨
      (if checks then (2 * m + 1) % 2 ^ 64 % 2 ^ (m.log2 + 1) else (2 * m + 1) % 2 ^ 64) % 2 ^ 64
        < 2 ^ (m.log2 + 1)) ∧
    (if checks then (2 * m + 1) % 2 ^ 64 % 2 ^ (m.log2 + 1) else (2 * m + 1) % 2 ^ 64)
        % 2 ^ (m.log2 + 1) = (2 * m + 1) % 2 ^ (m.log2 + 1) := by
  have hl := log2_lt_64 h
  have hdvd : 2 ^ (m.log2 + 1) ∣ 2 ^ 64 := Nat.pow_dvd_pow 2 (by omega)
  have hmm : (2 * m + 1) % 2 ^ 64 % 2 ^ (m.log2 + 1) = (2 * m + 1) % 2 ^ (m.log2 + 1) :=
    Nat.mod_mod_of_dvd _ hdvd
  cases checks
  · exact ⟨Or.inl rfl, hmm⟩
  · refine ⟨Or.inr ?_, ?_⟩
    · have h1 : (2 * m + 1) % 2 ^ 64 % 2 ^ (m.log2 + 1) < 2 ^ (m.log2 + 1) :=
        Nat.mod_lt _ (Nat.two_pow_pos _)
      have h2 := Nat.mod_le ((2 * m + 1) % 2 ^ 64 % 2 ^ (m.log2 + 1)) (2 ^ 64)
      simp only [if_true]; omega
    · simp only [if_true, Nat.mod_mod, hmm]

theorem omegaWriteRec_writes (e : Endian) (checks : Bool) :
    ∀ (fuel m : Nat), m < 2 ^ 64 →
      Writes (omegaWriteRec e checks fuel m) e checks (Spec.omegaBlocks e fuel m)
  | 0, m, _ => Writes.ofV (WritesV.ret e checks 0) rfl
  | fuel + 1, m, h => by
    unfold omegaWriteRec Spec.omegaBlocks
    by_cases hm : m ≤ 1
    · rw [if_pos hm, if_pos hm]; exact Writes.ofV (WritesV.ret e checks 0) rfl
    · rw [if_neg hm, if_neg hm]
      have hl := log2_lt_64 h
      have ih := omegaWriteRec_writes e checks fuel m.log2 (by omega)
      cases e
      · refine Writes.then_bits ih (by omega) (Or.inr ?_) rfl
        rw [Nat.mod_eq_of_lt h]; exact Nat.lt_log2_self
      · have ⟨h1, h2⟩ := omega_le_word_ok checks h
        rw [omegaBlock_le_eq_field]
        exact Writes.then_bits ih (by omega) h1 h2

theorem omegaLenRec_eq (e : Endian) :
    ∀ (fuel m : Nat), omegaLenRec fuel m = (Spec.omegaBlocks e fuel m).length + 1
  | 0, m => rfl
  | fuel + 1, m => by
    unfold omegaLenRec Spec.omegaBlocks
    by_cases hm : m ≤ 1
    · rw [if_pos hm, if_pos hm]; rfl
    · rw [if_neg hm, if_neg hm, omegaLenRec_eq e fuel m.log2]
      simp; omega

/-! ### reader -/

/-- reading one block: the reader holds `λ = ⌊log₂ m⌋`, sees a one, reads `λ+1` bits, and goes
    on holding `m` -/
theorem omega_block_reads (e : Endian) {m fr : Nat} (h0 : m ≠ 0) (h : m < 2 ^ 64)
    {rest : List Bool} {c : Nat} (hr : Reads (omegaReadLoop e fr m) e rest c) :
    Reads (omegaReadLoop e (fr + 1) m.log2) e (Spec.omegaBlock e m ++ rest) c := by
  have hl := log2_lt_64 h
  unfold omegaReadLoop
  have hc := omegaBlock_cons e h0
  have hpeek : ∀ k, Reads (k (.ok (if true then 1 else 0))) e (Spec.omegaBlock e m ++ rest) c →
      Reads (.peek 1 k) e (Spec.omegaBlock e m ++ rest) c := by
    intro k hk
    rw [hc, List.cons_append] at hk ⊢
    exact Reads.peek1 hk
  apply hpeek
  simp only [if_true]
  rw [if_neg (by decide), if_neg (by omega)]
  refine Reads.readBits_chunk (by omega) (omegaBlock_length e m) ?_
  have hv := omegaBlock_val e h0
  cases e
  · simp only at hv ⊢; rw [hv]; exact hr
  · simp only at hv ⊢; rw [hv]; exact hr

/-- the terminator -/
theorem omega_end_reads (e : Endian) (fr m : Nat) :
    Reads (omegaReadLoop e (fr + 1) m) e [false] (m - 1) := by
  unfold omegaReadLoop
  apply Reads.peek1
  simp only [Bool.false_eq_true, if_false, if_true]
  exact Reads.skipAfterPeek1 (Reads.ret e (m - 1))

/-- iterating `log2` from `m` reaches `≤ 1` within `fuel` steps -/
def omegaDone : Nat → Nat → Prop
  | 0, m => m ≤ 1
  | fuel + 1, m => m ≤ 1 ∨ omegaDone fuel m.log2

theorem omegaDone_of_le_one : ∀ (fuel : Nat) {m : Nat}, m ≤ 1 → omegaDone fuel m
  | 0, _, h => h
  | _ + 1, _, h => Or.inl h

/-- four steps are enough below `2^64`: `m → ≤ 63 → ≤ 5 → ≤ 2 → ≤ 1` -/
theorem omegaDone_of_lt {m : Nat} (h : m < 2 ^ 64) (fuel : Nat) : omegaDone (fuel + 4) m := by
  have h1 : m.log2 < 64 := log2_lt_64 h
  have h2 : m.log2.log2 < 6 := by
    by_cases h0 : m.log2 = 0
    · rw [h0]; decide
    · exact (Nat.log2_lt h0).2 (by omega)
  have h3 : m.log2.log2.log2 < 3 := by
    by_cases h0 : m.log2.log2 = 0
    · rw [h0]; decide
    · exact (Nat.log2_lt h0).2 (by omega)
  have h4 : m.log2.log2.log2.log2 < 2 := by
    by_cases h0 : m.log2.log2.log2 = 0
    · rw [h0]; decide
    · exact (Nat.log2_lt h0).2 (by omega)
  exact Or.inr (Or.inr (Or.inr (Or.inr (omegaDone_of_le_one fuel (by omega)))))

theorem omegaBlocks_of_le_one (e : Endian) : ∀ (fuel : Nat) {m : Nat}, m ≤ 1 →
    Spec.omegaBlocks e fuel m = []
  | 0, _, _ => rfl
  | _ + 1, _, h => by unfold Spec.omegaBlocks; rw [if_pos h]

/-- reading all the blocks of `m`: `fb` bounds their number, the codeword may have been built
    with any fuel `fb' ≥ fb`, and the reader needs `fb` iterations more than what follows -/
theorem omega_blocks_read (e : Endian) :
    ∀ (fb m : Nat), m ≠ 0 → m < 2 ^ 64 → omegaDone fb m →
      ∀ (fb' : Nat), fb ≤ fb' → ∀ (j : Nat) (rest : List Bool) (c : Nat),
        (∀ fr, j ≤ fr → Reads (omegaReadLoop e fr m) e rest c) →
        ∀ fr, j + fb ≤ fr → Reads (omegaReadLoop e fr 1) e (Spec.omegaBlocks e fb' m ++ rest) c
  | 0, m, h0, _, hd, fb', _, j, rest, c, hr, fr, hfr => by
    have : m = 1 := by unfold omegaDone at hd; omega
    subst this
    rw [omegaBlocks_of_le_one e fb' (Nat.le_refl 1)]
    exact hr fr (by omega)
  | fb + 1, m, h0, h, hd, fb', hfb, j, rest, c, hr, fr, hfr => by
    by_cases hm : m ≤ 1
    · have : m = 1 := by omega
      subst this
      rw [omegaBlocks_of_le_one e fb' hm]
      exact hr fr (by omega)
    · obtain ⟨fb'', rfl⟩ : ∃ x, fb' = x + 1 := ⟨fb' - 1, by omega⟩
      unfold Spec.omegaBlocks
      rw [if_neg hm, List.append_assoc]
      have hd' : omegaDone fb m.log2 := by
        unfold omegaDone at hd
        exact hd.resolve_left hm
      have hl := log2_lt_64 h
      have hl0 : m.log2 ≠ 0 := by
        intro h'
        have := @Nat.lt_log2_self m
        rw [h'] at this
        omega
      refine omega_blocks_read e fb m.log2 hl0 (by omega) hd' fb'' (by omega) (j + 1) _ c ?_ fr
        (by omega)
      intro fr' hfr'
      obtain ⟨fr'', rfl⟩ : ∃ x, fr' = x + 1 := ⟨fr' - 1, by omega⟩
      exact omega_block_reads e h0 h (hr fr'' (by omega))

end Dsi
