/-
  Headline2, C14: the counting wrappers assembled from the generated bodies
  (lean/Dsi/Gen/CountBodies.lean) and the lifting of `WAgree` / `RAgree` through them.
-/
import Dsi.Props.CountGen
import Dsi.Lemmas.Headline2CongrW
import Dsi.Lemmas.Headline2CongrR
namespace Dsi
namespace Headline2

/-- `impl BitWrite<E> for CountBitWriter<E, BW, PRINT>`, from the translated bodies -/
def genCountWImpl {ω : Type} (wi : WImpl ω) (PRINT : Bool) : WImpl (CountW ω) :=
  { writeBits := Gen.CountBitWriter.write_bits wi PRINT,
    writeUnary := Gen.CountBitWriter.write_unary wi PRINT,
    flush := Gen.CountBitWriter.flush wi PRINT }

/-- `impl BitRead<E> for CountBitReader<E, BR, PRINT>`, from the translated bodies -/
def genCountRImpl {ρ : Type} (ri : RImpl ρ) (PRINT : Bool) : RImpl (CountR ρ) :=
  { readBits := Gen.CountBitReader.read_bits ri PRINT,
    peekBits := Gen.CountBitReader.peek_bits ri PRINT,
    skipAfterPeek := Gen.CountBitReader.skip_bits_after_peek ri PRINT,
    skipBits := Gen.CountBitReader.skip_bits ri PRINT,
    readUnary := Gen.CountBitReader.read_unary ri PRINT }

theorem genCountWImpl_eq {ω : Type} (wi : WImpl ω) (P : Bool) : genCountWImpl wi P = CountW.impl wi := by
  unfold genCountWImpl CountW.impl
  congr 1
  all_goals first
    | (funext s v n; exact CountGen.write_bits_eq wi P s v n)
    | (funext s x; exact CountGen.write_unary_eq wi P s x)
    | (funext s; exact CountGen.flush_eq wi P s)

theorem genCountRImpl_eq {ρ : Type} (ri : RImpl ρ) (P : Bool) : genCountRImpl ri P = CountR.impl ri := by
  unfold genCountRImpl CountR.impl
  congr 1
  all_goals first
    | (funext s n; exact CountGen.read_bits_eq ri P s n)
    | (funext s n; exact CountGen.peek_bits_eq ri P s n)
    | (funext s n; exact CountGen.skip_bits_eq ri P s n)
    | (funext s; exact CountGen.read_unary_eq ri P s)

theorem map_dpanic_iff {α β : Type} (f : α → β) {x : Res α} (h : x = .dpanic) : x.map f = .dpanic := by
  rw [h]; rfl

theorem WAgree.count {ω : Type} {I I' : WImpl ω} {J : ω → Prop} (h : WAgree I I' J) :
    WAgree (CountW.impl I) (CountW.impl I') (fun x => J x.inner) where
  writeBits := fun s v n hj => by
    obtain ⟨h1, h2⟩ := h.writeBits s.inner v n hj
    constructor
    · rcases h1 with h1 | h1
      · exact Or.inl (map_dpanic_iff _ h1)
      · right; show (I.writeBits s.inner v n).map _ = (I'.writeBits s.inner v n).map _; rw [h1]
    · intro r s' hr
      change (I'.writeBits s.inner v n).map _ = _ at hr
      cases hq : I'.writeBits s.inner v n with
      | ok q => obtain ⟨r0, i⟩ := q; rw [hq] at hr; cases hr; exact h2 _ _ hq
      | err _ => rw [hq] at hr; cases hr
      | panic => rw [hq] at hr; cases hr
      | dpanic => rw [hq] at hr; cases hr
  writeUnary := fun s x hj => by
    obtain ⟨h1, h2⟩ := h.writeUnary s.inner x hj
    constructor
    · rcases h1 with h1 | h1
      · exact Or.inl (map_dpanic_iff _ h1)
      · right; show (I.writeUnary s.inner x).map _ = (I'.writeUnary s.inner x).map _; rw [h1]
    · intro r s' hr
      change (I'.writeUnary s.inner x).map _ = _ at hr
      cases hq : I'.writeUnary s.inner x with
      | ok q => obtain ⟨r0, i⟩ := q; rw [hq] at hr; cases hr; exact h2 _ _ hq
      | err _ => rw [hq] at hr; cases hr
      | panic => rw [hq] at hr; cases hr
      | dpanic => rw [hq] at hr; cases hr
  flush := fun s hj => by
    obtain ⟨h1, h2⟩ := h.flush s.inner hj
    constructor
    · rcases h1 with h1 | h1
      · exact Or.inl (map_dpanic_iff _ h1)
      · right; show (I.flush s.inner).map _ = (I'.flush s.inner).map _; rw [h1]
    · intro r s' hr
      change (I'.flush s.inner).map _ = _ at hr
      cases hq : I'.flush s.inner with
      | ok q => obtain ⟨r0, i⟩ := q; rw [hq] at hr; cases hr; exact h2 _ _ hq
      | err _ => rw [hq] at hr; cases hr
      | panic => rw [hq] at hr; cases hr
      | dpanic => rw [hq] at hr; cases hr

theorem RAgree.count {ρ : Type} {I I' : RImpl ρ} {J : ρ → Prop} {Wd : Nat} (h : RAgree I I' J Wd) :
    RAgree (CountR.impl I) (CountR.impl I') (fun x => J x.inner) Wd where
  readBits := fun s n hj => by
    obtain ⟨h1, h2⟩ := h.readBits s.inner n hj
    constructor
    · show (I.readBits s.inner n).map _ = (I'.readBits s.inner n).map _; rw [h1]
    · intro v s' hr
      change (I'.readBits s.inner n).map _ = _ at hr
      cases hq : I'.readBits s.inner n with
      | ok q => obtain ⟨r0, i⟩ := q; rw [hq] at hr; cases hr; exact h2 _ _ hq
      | err _ => rw [hq] at hr; cases hr
      | panic => rw [hq] at hr; cases hr
      | dpanic => rw [hq] at hr; cases hr
  readUnary := fun s hj => by
    obtain ⟨h1, h2⟩ := h.readUnary s.inner hj
    constructor
    · show (I.readUnary s.inner).map _ = (I'.readUnary s.inner).map _; rw [h1]
    · intro v s' hr
      change (I'.readUnary s.inner).map _ = _ at hr
      cases hq : I'.readUnary s.inner with
      | ok q => obtain ⟨r0, i⟩ := q; rw [hq] at hr; cases hr; exact h2 _ _ hq
      | err _ => rw [hq] at hr; cases hr
      | panic => rw [hq] at hr; cases hr
      | dpanic => rw [hq] at hr; cases hr
  peekBits := fun s n hj hn => by
    obtain ⟨h1, h2⟩ := h.peekBits s.inner n hj hn
    constructor
    · show (I.peekBits s.inner n).map _ = (I'.peekBits s.inner n).map _; rw [h1]
    · intro v s' hr
      change (I'.peekBits s.inner n).map _ = _ at hr
      cases hq : I'.peekBits s.inner n with
      | ok q => obtain ⟨r0, i⟩ := q; rw [hq] at hr; cases hr; exact h2 _ _ hq
      | err _ => rw [hq] at hr; cases hr
      | panic => rw [hq] at hr; cases hr
      | dpanic => rw [hq] at hr; cases hr
  skipAfterPeek := fun s n hj => by
    obtain ⟨h1, h2⟩ := h.skipAfterPeek s.inner n hj
    constructor
    · show ({ inner := I.skipAfterPeek s.inner n, bitsRead := s.bitsRead + n } : CountR ρ) = _
      rw [h1]; rfl
    · exact h2
  skipBits := fun s n hj => by
    obtain ⟨h1, h2⟩ := h.skipBits s.inner n hj
    constructor
    · show (I.skipBits s.inner n).map _ = (I'.skipBits s.inner n).map _; rw [h1]
    · intro s' hr
      change (I'.skipBits s.inner n).map _ = _ at hr
      cases hq : I'.skipBits s.inner n with
      | ok i => rw [hq] at hr; cases hr; exact h2 i hq
      | err _ => rw [hq] at hr; cases hr
      | panic => rw [hq] at hr; cases hr
      | dpanic => rw [hq] at hr; cases hr

end Headline2
end Dsi
