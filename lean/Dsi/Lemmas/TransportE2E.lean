/-
  The framed round trip of `Dsi.Props.EndToEnd` (`e2e_framed`, `e2e_framed_bitr`) for reader
  programs that look ahead (`ReadsPM K`, `K ≤` the look-ahead capacity of the reader): the same
  proofs with the middle decoding step taken on a reader whose capacity covers `K`.
-/
import Dsi.Lemmas.TransportProgs
import Dsi.Props.EndToEnd
namespace Dsi.TrL
open Dsi Dsi.E2E

/-- one decoding step on the buffered reader, for a program needing `K ≤ W` bits of look-ahead -/
theorem buf_step_pm {β : Type} {e : Endian} {W : Nat} (hW64 : e = .be → W ≤ 64) {s : BufR W}
    {pre bits post : List Bool} {strict : Bool}
    (h : BufR.Rel e s (RefR.at e pre bits post strict W)) {rp : RProg β} {v : β} {K : Nat}
    (hr : ReadsPM K rp e bits v) (hK : K ≤ W) (hpb : PeekBounded W 0 rp) :
    ∃ s', rp.run (BufR.impl e) s = .ok (v, s') ∧
      BufR.Rel e s' (RefR.after e pre bits post strict W) ∧
      s'.bitPos = pre.length + bits.length := by
  have hW : 1 ≤ W := Rel.pos_W h
  have hsim := rprog_sim hW64 rp hpb h
  rw [hr pre post strict W hK hW] at hsim
  obtain ⟨⟨v', s'⟩, h1, hv, hrel⟩ := ResRel.ok_right hsim
  have hv : v' = v := hv
  subst hv
  exact ⟨s', h1, hrel, bitPos_eq hrel⟩

/-- one decoding step on the unbuffered reader, for a program needing `K ≤ 32` bits of look-ahead -/
theorem bitr_step_pm {β : Type} {e : Endian} {s : BitR} {pre bits post : List Bool} {strict : Bool}
    (h : BitR.Rel' e s (RefR.at e pre bits post strict 32)) {rp : RProg β} {v : β} {K : Nat}
    (hr : ReadsPM K rp e bits v) (hK : K ≤ 32) (hok : BitR.ProgOK 0 rp)
    (hskip : BitR.NoSkip rp ∨ strict = false) :
    ∃ s', rp.run (BitR.impl e) s = .ok (v, s') ∧
      BitR.Rel' e s' (RefR.after e pre bits post strict 32) ∧
      s'.bitPos = pre.length + bits.length := by
  have hne : BitR.NoEofSkip rp (RefR.at e pre bits post strict 32) := by
    rcases hskip with h1 | h1
    · exact noEofSkip_of_noSkip rp h1 _
    · exact noEofSkip_of_nonstrict rp _ h1
  have hsim := bitr_rprog_sim rp hok h hne
  rw [hr pre post strict 32 hK (by decide)] at hsim
  obtain ⟨⟨v', s'⟩, h1, hv, hrel⟩ := ResRel.ok_right hsim
  have hv : v' = v := hv
  subst hv
  exact ⟨s', h1, hrel, bitr_bitPos hrel.1⟩

/-- `e2e_framed` for a reader program that looks `K ≤ Wr` bits ahead -/
theorem e2e_framed_pm (e : Endian) {Ww Wr : Nat} (hWw : 0 < Ww) (h8w : 8 ∣ Ww) (hWr : 0 < Wr)
    (h8r : 8 ∣ Wr) (hW64 : e = .be → Wr ≤ 64) (checks strict : Bool)
    {wc : WProg Nat} {rc : RProg Nat} {code : List Bool} {v : Nat} {K : Nat}
    (hw : Writes wc e checks code) (hr : ReadsPM K rc e code v) (hK : K ≤ Wr)
    (hpb : PeekBounded Wr 0 rc)
    (a na b nb : Nat) (hna : na ≤ 64) (hnb : nb ≤ 64)
    (ha : checks = false ∨ a % 2 ^ 64 < 2 ^ na) (hb : checks = false ∨ b % 2 ^ 64 < 2 ^ nb) :
    RoundTripsFramed e Ww Wr checks strict wc rc code.length v a na b nb := by
  have hW := framedW_writes hw hna hnb ha hb
  have hrun := hW { e := e, W := Ww, checks := checks, cap := none, bits := [] } rfl rfl rfl
  obtain ⟨sw, k, sw', zeros, h1, h2, _, hst⟩ :=
    e2e_reader_stream e hWw h8w hWr h8r checks _ hrun
  simp only [List.nil_append, List.append_nil] at hst
  have hst' : (wordsOfBytes e Wr (padTo (Wr / 8) (sw'.outBytes e))).flatMap (wordBits e)
      = [] ++ fieldBits e a na ++ (code ++ (fieldBits e b nb ++ zeros)) := by
    rw [hst]; simp [List.append_assoc]
  have hrel0 : BufR.Rel e (BufR.new ⟨wordsOfBytes e Wr (padTo (Wr / 8) (sw'.outBytes e)), 0, strict⟩)
      (RefR.at e [] (fieldBits e a na) (code ++ (fieldBits e b nb ++ zeros)) strict Wr) := by
    have := new_rel e hWr (wordsOfBytes e Wr (padTo (Wr / 8) (sw'.outBytes e))) strict
    rw [hst'] at this
    exact this
  obtain ⟨s1, r1, hrel1, _⟩ := buf_step hW64 hrel0 (reads_rbits e hna a) (pb_rbits Wr na)
  rw [after_eq_at] at hrel1
  obtain ⟨s2, r2, hrel2, _⟩ := buf_step_pm hW64 hrel1 hr hK hpb
  rw [after_eq_at] at hrel2
  obtain ⟨s3, r3, _, hpos⟩ := buf_step hW64 hrel2 (reads_rbits e hnb b) (pb_rbits Wr nb)
  refine ⟨sw, k, sw', s1, s2, s3, h1, h2, run_rbits_ok _ _ _ _ _ r1, r2, run_rbits_ok _ _ _ _ _ r3, ?_⟩
  rw [hpos]
  simp

/-- `e2e_framed_bitr` for a reader program that looks `K ≤ 32` bits ahead -/
theorem e2e_framed_bitr_pm (e : Endian) {Ww : Nat} (hWw : 0 < Ww) (h8w : 8 ∣ Ww)
    (checks strict : Bool) {wc : WProg Nat} {rc : RProg Nat} {code : List Bool} {v : Nat} {K : Nat}
    (hw : Writes wc e checks code) (hr : ReadsPM K rc e code v) (hK : K ≤ 32)
    (hok : BitR.ProgOK 0 rc) (hskip : BitR.NoSkip rc ∨ strict = false)
    (a na b nb : Nat) (hna : na ≤ 64) (hnb : nb ≤ 64)
    (ha : checks = false ∨ a % 2 ^ 64 < 2 ^ na) (hb : checks = false ∨ b % 2 ^ 64 < 2 ^ nb) :
    RoundTripsFramedBitR e Ww checks strict wc rc code.length v a na b nb := by
  have hW := framedW_writes hw hna hnb ha hb
  have hrun := hW { e := e, W := Ww, checks := checks, cap := none, bits := [] } rfl rfl rfl
  obtain ⟨sw, k, sw', zeros, h1, h2, _, hst⟩ :=
    e2e_reader_stream (Wr := 64) e hWw h8w (by decide) (by decide) checks _ hrun
  simp only [List.nil_append, List.append_nil] at hst
  have hst' : (wordsOfBytes e 64 (padTo 8 (sw'.outBytes e))).flatMap (wordBits e)
      = [] ++ fieldBits e a na ++ (code ++ (fieldBits e b nb ++ zeros)) := by
    have hst2 : (wordsOfBytes e 64 (padTo 8 (sw'.outBytes e))).flatMap (wordBits e)
        = fieldBits e a na ++ (code ++ fieldBits e b nb) ++ zeros := hst
    rw [hst2]; simp [List.append_assoc]
  have hrel0 : BitR.Rel' e { data := ⟨wordsOfBytes e 64 (padTo 8 (sw'.outBytes e)), 0, strict⟩ }
      (RefR.at e [] (fieldBits e a na) (code ++ (fieldBits e b nb ++ zeros)) strict 32) := by
    have := bitr_new_rel e (wordsOfBytes e 64 (padTo 8 (sw'.outBytes e))) 0 strict
    rw [hst'] at this
    exact this
  obtain ⟨s1, r1, hrel1, _⟩ :=
    bitr_step hrel0 (reads_rbits e hna a) (ok_rbits hna) (Or.inl (ns_rbits na))
  rw [after_eq_at] at hrel1
  obtain ⟨s2, r2, hrel2, _⟩ := bitr_step_pm hrel1 hr hK hok hskip
  rw [after_eq_at] at hrel2
  obtain ⟨s3, r3, _, hpos⟩ :=
    bitr_step hrel2 (reads_rbits e hnb b) (ok_rbits hnb) (Or.inl (ns_rbits nb))
  refine ⟨sw, k, sw', s1, s2, s3, h1, h2, run_rbits_ok _ _ _ _ _ r1, r2, run_rbits_ok _ _ _ _ _ r3, ?_⟩
  rw [hpos]
  simp

end Dsi.TrL
