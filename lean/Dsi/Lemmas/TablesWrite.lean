/-
  C05 — encoding and length tables: replaying a flush-free writer run on an arbitrary reference
  writer state (growable or fixed capacity), soundness of the checkers, `writeTable_eq`,
  `lenTable_eq`.
-/
import Dsi.Lemmas.TablesLift
namespace Dsi

/-- a writer program that never flushes -/
def FlushFree {α} : WProg α → Prop
  | .ret _ => True
  | .panic => True
  | .dpanic => True
  | .writeBits _ _ k => ∀ r, FlushFree (k r)
  | .writeUnary _ k => ∀ r, FlushFree (k r)
  | .flush _ => False

@[simp] theorem FlushFree.ret_iff {α} (a : α) : FlushFree (WProg.ret a) ↔ True := Iff.rfl
@[simp] theorem FlushFree.panic_iff {α} : FlushFree (WProg.panic : WProg α) ↔ True := Iff.rfl
@[simp] theorem FlushFree.dpanic_iff {α} : FlushFree (WProg.dpanic : WProg α) ↔ True := Iff.rfl
@[simp] theorem FlushFree.writeBits_iff {α} (v n : Nat) (k : Nat → WProg α) :
    FlushFree (WProg.writeBits v n k) ↔ ∀ r, FlushFree (k r) := Iff.rfl
@[simp] theorem FlushFree.writeUnary_iff {α} (x : Nat) (k : Nat → WProg α) :
    FlushFree (WProg.writeUnary x k) ↔ ∀ r, FlushFree (k r) := Iff.rfl
theorem FlushFree.ite {α} {c : Prop} [Decidable c] {p q : WProg α} (hp : FlushFree p)
    (hq : FlushFree q) : FlushFree (if c then p else q) := by
  split <;> assumption

theorem FlushFree.bind {α β} {p : WProg α} {f : α → WProg β} (hp : FlushFree p)
    (hf : ∀ a, FlushFree (f a)) : FlushFree (p.bind f) := by
  induction p with
  | ret a => exact hf a
  | panic => trivial
  | dpanic => trivial
  | writeBits v n k ih => intro r; exact ih r (hp r)
  | writeUnary x k ih => intro r; exact ih r (hp r)
  | flush k _ => exact hp.elim

namespace Tables

theorem fits_mono (s : RefW) {a b : List Bool} (hab : a.length ≤ b.length)
    (h : s.fits b = true) : s.fits a = true := by
  unfold RefW.fits at h ⊢
  cases hc : s.cap with
  | none => rfl
  | some c =>
    simp only [hc, decide_eq_true_eq] at h ⊢
    exact Nat.le_trans (Nat.div_le_div_right hab) h

theorem run_writeBits {σ α} (I : WImpl σ) (v n : Nat) (k : Nat → WProg α) (s : σ) :
    (WProg.writeBits v n k).run I s = (I.writeBits s v n).bind (fun x => (k x.1).run I x.2) := by
  simp only [WProg.run]; split <;> simp_all [Res.bind]

theorem run_writeUnary {σ α} (I : WImpl σ) (x : Nat) (k : Nat → WProg α) (s : σ) :
    (WProg.writeUnary x k).run I s = (I.writeUnary s x).bind (fun x => (k x.1).run I x.2) := by
  simp only [WProg.run]; split <;> simp_all [Res.bind]

/-- the `put` of the big writer, in terms of `fits` -/
theorem put_eq (w : RefW) (bs : List Bool) (r : Nat) :
    w.put bs r = if w.fits (w.bits ++ bs) = true then .ok (r, { w with bits := w.bits ++ bs })
      else .err .eof := rfl

/-- A successful flush-free run on a growable writer (bits `sb`), replayed on a writer with the
    same endianness and `checks` flag, any word size and capacity, and bits `pre ++ sb`:
    the same bits `ext` are appended; the run succeeds with the same result if the final bits fit,
    and is `eof` if they do not (provided something was written). -/
theorem wrun_embed_aux {α} (p : WProg α) (hp : FlushFree p) (e : Endian) (W W' : Nat) (c : Bool)
    (cap : Option Nat) (pre : List Bool) :
    ∀ (sb : List Bool) (a : α) (s' : RefW),
      p.run RefW.impl ⟨e, W, c, none, sb⟩ = .ok (a, s') →
      ∃ ext, s' = ⟨e, W, c, none, sb ++ ext⟩ ∧
        (RefW.fits ⟨e, W', c, cap, []⟩ (pre ++ sb ++ ext) = true →
          p.run RefW.impl ⟨e, W', c, cap, pre ++ sb⟩ = .ok (a, ⟨e, W', c, cap, pre ++ sb ++ ext⟩)) ∧
        (RefW.fits ⟨e, W', c, cap, []⟩ (pre ++ sb ++ ext) = false → ext ≠ [] →
          p.run RefW.impl ⟨e, W', c, cap, pre ++ sb⟩ = .err .eof) := by
  have hfits : ∀ (bits x : List Bool), RefW.fits ⟨e, W', c, cap, bits⟩ x
      = RefW.fits ⟨e, W', c, cap, []⟩ x := fun _ _ => rfl
  -- one `put` step, shared by `writeBits` and `writeUnary`
  have step : ∀ (k : Nat → WProg α) (sb fld : List Bool) (n : Nat) (a : α) (s' : RefW),
      (∀ (sb : List Bool) (a : α) (s' : RefW),
        (k n).run RefW.impl ⟨e, W, c, none, sb⟩ = .ok (a, s') →
        ∃ ext, s' = ⟨e, W, c, none, sb ++ ext⟩ ∧
          (RefW.fits ⟨e, W', c, cap, []⟩ (pre ++ sb ++ ext) = true →
            (k n).run RefW.impl ⟨e, W', c, cap, pre ++ sb⟩ = .ok (a, ⟨e, W', c, cap, pre ++ sb ++ ext⟩)) ∧
          (RefW.fits ⟨e, W', c, cap, []⟩ (pre ++ sb ++ ext) = false → ext ≠ [] →
            (k n).run RefW.impl ⟨e, W', c, cap, pre ++ sb⟩ = .err .eof)) →
      (k n).run RefW.impl ⟨e, W, c, none, sb ++ fld⟩ = .ok (a, s') →
      ∃ ext, s' = ⟨e, W, c, none, sb ++ ext⟩ ∧
        (RefW.fits ⟨e, W', c, cap, []⟩ (pre ++ sb ++ ext) = true →
          (RefW.put ⟨e, W', c, cap, pre ++ sb⟩ fld n).bind (fun x => (k x.1).run RefW.impl x.2)
            = .ok (a, ⟨e, W', c, cap, pre ++ sb ++ ext⟩)) ∧
        (RefW.fits ⟨e, W', c, cap, []⟩ (pre ++ sb ++ ext) = false → ext ≠ [] →
          (RefW.put ⟨e, W', c, cap, pre ++ sb⟩ fld n).bind (fun x => (k x.1).run RefW.impl x.2)
            = .err .eof) := by
    intro k sb fld n a s' ih h
    obtain ⟨ext, h1, h2, h3⟩ := ih (sb ++ fld) a s' h
    refine ⟨fld ++ ext, by rw [h1, List.append_assoc], ?_, ?_⟩
    · intro hf
      have hf' : RefW.fits ⟨e, W', c, cap, []⟩ (pre ++ (sb ++ fld) ++ ext) = true := by
        rw [← hf]; congr 1; simp [List.append_assoc]
      have hmid : RefW.fits ⟨e, W', c, cap, []⟩ (pre ++ sb ++ fld) = true :=
        fits_mono _ (by simp only [List.length_append]; omega) hf
      rw [put_eq]
      simp only [hfits, hmid, if_true, Res.bind]
      have := h2 hf'
      simp only [List.append_assoc] at this ⊢
      exact this
    · intro hf hne
      rw [put_eq]
      simp only [hfits]
      by_cases hmid : RefW.fits ⟨e, W', c, cap, []⟩ (pre ++ sb ++ fld) = true
      · simp only [hmid, if_true, Res.bind]
        have hf' : RefW.fits ⟨e, W', c, cap, []⟩ (pre ++ (sb ++ fld) ++ ext) = false := by
          rw [← hf]; congr 1; simp [List.append_assoc]
        have hext : ext ≠ [] := by
          intro hnil
          subst hnil
          simp only [List.append_nil] at hf
          rw [hmid] at hf
          cases hf
        have := h3 hf' hext
        simp only [List.append_assoc] at this ⊢
        exact this
      · simp only [hmid]
        rfl
  induction p with
  | ret a =>
    intro sb a' s' h
    simp only [WProg.run, Res.ok.injEq, Prod.mk.injEq] at h
    refine ⟨[], by simp [← h.2], ?_, ?_⟩
    · intro _; simp [WProg.run, h.1]
    · intro _ hne; exact absurd rfl hne
  | panic => intro sb a s' h; simp [WProg.run] at h
  | dpanic => intro sb a s' h; simp [WProg.run] at h
  | writeBits v n k ih =>
    intro sb a s' h
    simp only [run_writeBits, RefW.impl_writeBits, RefW.writeBits] at h ⊢
    by_cases hn : n > 64
    · simp [hn, Res.bind] at h
    · rw [if_neg hn] at h
      simp only [if_neg hn]
      by_cases hck : (c && decide (v % 2 ^ 64 ≥ 2 ^ n)) = true
      · simp [hck, Res.bind] at h
      · rw [if_neg hck] at h
        simp only [if_neg hck]
        have hput : RefW.put ⟨e, W, c, none, sb⟩ (fieldBits e v n) n
            = .ok (n, ⟨e, W, c, none, sb ++ fieldBits e v n⟩) := rfl
        rw [hput] at h
        simp only [Res.bind] at h
        exact step k sb (fieldBits e v n) n a s' (ih n (hp n)) h
  | writeUnary x k ih =>
    intro sb a s' h
    simp only [run_writeUnary, RefW.impl_writeUnary, RefW.writeUnary] at h ⊢
    by_cases hx : x ≥ 2 ^ 64 - 1
    · simp [hx, Res.bind] at h
    · rw [if_neg hx] at h
      simp only [if_neg hx]
      have hput : RefW.put ⟨e, W, c, none, sb⟩ (unaryBits x) (x + 1)
          = .ok (x + 1, ⟨e, W, c, none, sb ++ unaryBits x⟩) := rfl
      rw [hput] at h
      simp only [Res.bind] at h
      exact step k sb (unaryBits x) (x + 1) a s' (ih (x + 1) (hp (x + 1))) h
  | flush k _ => exact hp.elim

end Tables

/-- **Embedding for writers.**  If a flush-free program, run on the empty growable writer, appends
    `bs ≠ []` and returns `a`, then on every reference writer with the same endianness and
    `checks` flag it appends `bs` and returns `a` when the result fits the backend, and fails
    with `eof` otherwise. -/
theorem wrun_embed {α} (p : WProg α) (hp : FlushFree p) (e : Endian) (c : Bool) (a : α)
    (bs : List Bool) (hbs : bs ≠ [])
    (h : p.run RefW.impl (Tables.emptyW e c) = .ok (a, { Tables.emptyW e c with bits := bs }))
    (w : RefW) (he : w.e = e) (hc : w.checks = c) :
    p.run RefW.impl w = if w.fits (w.bits ++ bs) = true then .ok (a, { w with bits := w.bits ++ bs })
      else .err .eof := by
  obtain ⟨we, wW, wc, wcap, wbits⟩ := w
  simp only at he hc
  subst he; subst hc
  obtain ⟨ext, h1, h2, h3⟩ :=
    Tables.wrun_embed_aux p hp we 64 wW wc wcap wbits [] a _ h
  have hext : ext = bs := by
    simp only [Tables.emptyW, List.nil_append, RefW.mk.injEq, true_and] at h1
    exact h1.symm
  subst hext
  simp only [List.append_nil] at h2 h3
  by_cases hf : RefW.fits ⟨we, wW, wc, wcap, wbits⟩ (wbits ++ ext) = true
  · rw [if_pos hf]; exact h2 hf
  · rw [if_neg hf]
    exact h3 (Bool.eq_false_iff.2 hf) hbs

/-! ## encoding tables -/

namespace Tables

/-- what a checked encoding table guarantees -/
structure WriteOK (e : Endian) (dflt : Nat → WProg Nat) (t : WTab) : Prop where
  size_lt : t.vals.size < 2 ^ 64
  entries : ∀ n, n < t.vals.size → ∃ bits len, t.vals[n]? = some bits ∧ t.lens[n]? = some len ∧
    chkWriteEntry e dflt n bits len = true

theorem chkWriteChunk_sound {e : Endian} {dflt : Nat → WProg Nat} :
    ∀ (start : Nat) (bs ls : List Nat), chkWriteChunk e dflt start bs ls = true →
      bs.length = ls.length ∧ ∀ i, i < bs.length → ∃ b l, bs[i]? = some b ∧ ls[i]? = some l ∧
        chkWriteEntry e dflt (start + i) b l = true := by
  intro start bs
  induction bs generalizing start with
  | nil =>
    intro ls h
    cases ls with
    | nil => exact ⟨rfl, fun i hi => absurd hi (Nat.not_lt_zero _)⟩
    | cons l ls => simp [chkWriteChunk] at h
  | cons v vs ih =>
    intro ls h
    cases ls with
    | nil => simp [chkWriteChunk] at h
    | cons l ls =>
      simp only [chkWriteChunk, Bool.and_eq_true] at h
      have ⟨hlen, hrest⟩ := ih (start + 1) ls h.2
      refine ⟨by simp [hlen], ?_⟩
      intro i hi
      cases i with
      | zero => exact ⟨v, l, rfl, rfl, h.1⟩
      | succ i =>
        obtain ⟨v', l', h1, h2, h3⟩ := hrest i (by simpa using hi)
        refine ⟨v', l', by simpa using h1, by simpa using h2, ?_⟩
        rw [← h3]; congr 1; omega

theorem chkWriteChunks_sound {e : Endian} {dflt : Nat → WProg Nat} {wmax : Nat} :
    ∀ (vcs lcs : List (List Nat)) (start : Nat),
      chkWriteChunks e dflt wmax start vcs lcs = true →
      start + vcs.flatten.length = wmax + 1 ∧ lcs.flatten.length = vcs.flatten.length ∧
      ∀ i, i < vcs.flatten.length → ∃ v l, vcs.flatten[i]? = some v ∧ lcs.flatten[i]? = some l ∧
        chkWriteEntry e dflt (start + i) v l = true := by
  intro vcs
  induction vcs with
  | nil =>
    intro lcs start h
    cases lcs with
    | nil =>
      simp only [chkWriteChunks, beq_iff_eq] at h
      exact ⟨by simpa using h, rfl, fun i hi => by simp at hi⟩
    | cons l ls => simp [chkWriteChunks] at h
  | cons vc vcs ih =>
    intro lcs start h
    cases lcs with
    | nil => simp [chkWriteChunks] at h
    | cons lc lcs =>
      simp only [chkWriteChunks, Bool.and_eq_true] at h
      have ⟨hlen, hc⟩ := chkWriteChunk_sound start vc lc h.1
      have ⟨htot, hlens, hrest⟩ := ih lcs (start + vc.length) h.2
      refine ⟨by simp only [List.flatten_cons, List.length_append]; omega,
        by simp only [List.flatten_cons, List.length_append]; omega, ?_⟩
      intro i hi
      simp only [List.flatten_cons] at hi ⊢
      by_cases hiv : i < vc.length
      · obtain ⟨v, l, h1, h2, h3⟩ := hc i hiv
        refine ⟨v, l, ?_, ?_, h3⟩
        · rw [List.getElem?_append_left hiv]; exact h1
        · rw [List.getElem?_append_left (by omega)]; exact h2
      · have hiv' : vc.length ≤ i := Nat.le_of_not_lt hiv
        obtain ⟨v, l, h1, h2, h3⟩ := hrest (i - vc.length) (by
          simp only [List.length_append] at hi; omega)
        refine ⟨v, l, ?_, ?_, ?_⟩
        · rw [List.getElem?_append_right hiv']; exact h1
        · rw [List.getElem?_append_right (by omega), ← hlen]; exact h2
        · rw [← h3]; congr 1; omega

/-- a table that passes `chkWriteTable` is `WriteOK` -/
theorem writeOK_of_chk {e : Endian} {dflt : Nat → WProg Nat} {wmax : Nat} {vcs lcs : List (List Nat)}
    (h : chkWriteTable e dflt wmax vcs lcs = true) :
    WriteOK e dflt ⟨vcs.flatten.toArray, lcs.flatten.toArray⟩ := by
  simp only [chkWriteTable, Bool.and_eq_true, decide_eq_true_eq] at h
  have ⟨htot, _, hent⟩ := chkWriteChunks_sound vcs lcs 0 h.2
  refine ⟨by simp only [List.size_toArray]; omega, ?_⟩
  intro n hn
  simp only [List.size_toArray] at hn
  obtain ⟨v, l, h1, h2, h3⟩ := hent n hn
  refine ⟨v, l, by simpa using h1, by simpa using h2, ?_⟩
  simpa using h3

/-- a table that passes `chkWriteTable` has `wmax + 1` codewords and `wmax + 1` lengths -/
theorem chkWriteTable_sizes {e : Endian} {dflt : Nat → WProg Nat} {wmax : Nat}
    {vcs lcs : List (List Nat)} (h : chkWriteTable e dflt wmax vcs lcs = true) :
    vcs.flatten.toArray.size = wmax + 1 ∧ lcs.flatten.toArray.size = wmax + 1 := by
  simp only [chkWriteTable, Bool.and_eq_true, decide_eq_true_eq] at h
  have ⟨htot, hl, _⟩ := chkWriteChunks_sound vcs lcs 0 h.2
  simp only [List.size_toArray]
  omega

/-- what a passed entry says, once the run on the empty writer is known to keep the frame -/
theorem chkWriteEntry_run {e : Endian} {dflt : Nat → WProg Nat} {n bits len : Nat}
    (hff : FlushFree (dflt n)) (h : chkWriteEntry e dflt n bits len = true) :
    (dflt n).run RefW.impl (emptyW e false)
      = .ok (len, { emptyW e false with bits := fieldBits e bits len }) ∧
    1 ≤ len ∧ len ≤ 64 ∧ bits < 2 ^ len := by
  unfold chkWriteEntry at h
  split at h
  · rename_i r w heq
    simp only [Bool.and_eq_true, beq_iff_eq, decide_eq_true_eq] at h
    obtain ⟨⟨⟨⟨h1, h2⟩, h3⟩, h4⟩, h5⟩ := h
    refine ⟨?_, h3, h4, h5⟩
    obtain ⟨ext, hw, _, _⟩ := wrun_embed_aux (dflt n) hff e 64 64 false none [] [] r w heq
    rw [heq, h1, hw]
    rw [hw] at h2
    simp only [List.nil_append] at h2
    simp [emptyW, h2]
  · cases h

end Tables

/-- the table writer never looks at its fallback when the value is in the table -/
theorem writeTable_congr (t : WTab) (n : Nat) (fb fb' : WProg Nat) (w : RefW)
    (h : fb.run RefW.impl w = fb'.run RefW.impl w) :
    (writeTable t n fb).run RefW.impl w = (writeTable t n fb').run RefW.impl w := by
  unfold writeTable
  cases t.vals[n]? with
  | none => exact h
  | some b =>
    cases t.lens[n]? with
    | none => rfl
    | some l => rfl

/-- **Table encoding = bit-by-bit encoding**, generic in the table.  `dflt0` is the program the
    table was checked against (`checks` off); `dflt` is the fallback actually used, under the
    `checks` flag `c`; both are known (from the code theorems, C04) to append the same codeword on
    a growable writer.  Then on *every* reference writer state with flag `c` (growable or fixed
    capacity, any contents) the table-driven writer and the fallback have the same outcome. -/
theorem writeTable_eq {e : Endian} {dflt0 : Nat → WProg Nat} {t : WTab}
    (hok : Tables.WriteOK e dflt0 t) (c : Bool) (dflt : WProg Nat) (n : Nat)
    (hff0 : FlushFree (dflt0 n)) (hff : FlushFree dflt)
    (spec : n < 2 ^ 64 - 1 → ∃ bs, Writes (dflt0 n) e false bs ∧ Writes dflt e c bs)
    (w : RefW) (he : w.e = e) (hc : w.checks = c) :
    (writeTable t n dflt).run RefW.impl w = dflt.run RefW.impl w := by
  by_cases hn : n < t.vals.size
  · obtain ⟨bits, len, hv, hl, hchk⟩ := hok.entries n hn
    obtain ⟨hrun0, h1, h64, hclean⟩ := Tables.chkWriteEntry_run hff0 hchk
    obtain ⟨bs, hw0, hwc⟩ := spec (by have := hok.size_lt; omega)
    -- the codeword is the table entry
    have h0 := hw0 (Tables.emptyW e false) rfl rfl rfl
    rw [hrun0] at h0
    simp only [Tables.emptyW, List.nil_append, Res.ok.injEq, Prod.mk.injEq, RefW.mk.injEq,
      true_and] at h0
    obtain ⟨hlen, hbs⟩ := h0
    have hne : fieldBits e bits len ≠ [] := by
      intro hnil
      have := congrArg List.length hnil
      simp at this; omega
    have hrunc : dflt.run RefW.impl (Tables.emptyW e c)
        = .ok (len, { Tables.emptyW e c with bits := fieldBits e bits len }) := by
      have := hwc (Tables.emptyW e c) rfl rfl rfl
      rw [this, ← hlen, ← hbs]
      simp [Tables.emptyW]
    rw [wrun_embed dflt hff e c len _ hne hrunc w he hc]
    unfold writeTable
    rw [hv, hl]
    simp only [WProg.run, RefW.impl_writeBits, RefW.writeBits]
    rw [if_neg (by omega)]
    have hmod : bits % 2 ^ 64 < 2 ^ len := Nat.lt_of_le_of_lt (Nat.mod_le _ _) hclean
    rw [if_neg (by simp; intro _; exact hmod)]
    rw [Tables.put_eq, he]
    by_cases hf : w.fits (w.bits ++ fieldBits e bits len) = true
    · simp [hf]
    · simp [hf]
  · unfold writeTable
    rw [Array.getElem?_eq_none (Nat.le_of_not_lt hn)]

/-! ## length tables -/

namespace Tables

theorem chkLenChunk_sound {dflt : Nat → Nat} :
    ∀ (ls : List Nat) (start : Nat), chkLenChunk dflt start ls = true →
      ∀ i l, ls[i]? = some l → l = dflt (start + i) := by
  intro ls
  induction ls with
  | nil => intro start _ i l h; simp at h
  | cons x xs ih =>
    intro start h i l hl
    simp only [chkLenChunk, chkLenEntry, Bool.and_eq_true, beq_iff_eq] at h
    cases i with
    | zero => simp at hl; rw [← hl]; exact h.1
    | succ i =>
      have := ih (start + 1) h.2 i l (by simpa using hl)
      rw [this]; congr 1; omega

theorem chkLenChunks_sound {dflt : Nat → Nat} {wmax : Nat} :
    ∀ (cs : List (List Nat)) (start : Nat), chkLenChunks dflt wmax start cs = true →
      start + cs.flatten.length = wmax + 1 ∧
      ∀ i l, cs.flatten[i]? = some l → l = dflt (start + i) := by
  intro cs
  induction cs with
  | nil =>
    intro start h
    simp only [chkLenChunks, beq_iff_eq] at h
    exact ⟨by simpa using h, fun i l hl => by simp at hl⟩
  | cons c cs ih =>
    intro start h
    simp only [chkLenChunks, Bool.and_eq_true] at h
    have hc := chkLenChunk_sound c start h.1
    have ⟨htot, hrest⟩ := ih (start + c.length) h.2
    refine ⟨by simp only [List.flatten_cons, List.length_append]; omega, ?_⟩
    intro i l hl
    simp only [List.flatten_cons] at hl
    by_cases hic : i < c.length
    · rw [List.getElem?_append_left hic] at hl
      exact hc i l hl
    · have hic' : c.length ≤ i := Nat.le_of_not_lt hic
      rw [List.getElem?_append_right hic'] at hl
      have := hrest (i - c.length) l hl
      rw [this]; congr 1; omega

end Tables

/-- **Length table = length function**, generic in the table: every entry of a checked length
    table is the value of the function at its index. -/
theorem lenTable_eq {dflt : Nat → Nat} {wmax : Nat} {cs : List (List Nat)}
    (h : chkLenTable dflt wmax cs = true) (n l : Nat)
    (hl : cs.flatten.toArray[n]? = some l) : l = dflt n := by
  have ⟨_, hent⟩ := Tables.chkLenChunks_sound cs 0 h
  have := hent n l (by simpa using hl)
  simpa using this

theorem lenTable_size {dflt : Nat → Nat} {wmax : Nat} {cs : List (List Nat)}
    (h : chkLenTable dflt wmax cs = true) : cs.flatten.toArray.size = wmax + 1 := by
  have ⟨htot, _⟩ := Tables.chkLenChunks_sound cs 0 h
  simp only [List.size_toArray]; omega

end Dsi
