/-
  u64 arithmetic facts behind minimal binary and ζ: the wrapped `mbLimit` and `zetaU` agree with
  the published quantities on the whole claimed range.
-/
import Dsi.Codes
import Dsi.Spec
namespace Dsi.CodesB
open Dsi

theorem log2_bounds {u : Nat} (hu : 1 ≤ u) : 2 ^ u.log2 ≤ u ∧ u < 2 ^ (u.log2 + 1) :=
  ⟨Nat.log2_self_le (by omega), Nat.lt_log2_self⟩

theorem log2_le_63 {u : Nat} (hu : 1 ≤ u) (h64 : u < 2 ^ 64) : u.log2 ≤ 63 := by
  have := (Nat.log2_lt (n := u) (k := 64) (by omega)).2 h64
  omega

/-- Key fact: on `1 ≤ u < 2^64` the wrapped limit is the published `2^(⌊log₂ u⌋+1) − u`
    (for `u.log2 = 63`, `shl64` wraps to 0 and `wsub64` wraps back). -/
theorem mbLimit_eq {u : Nat} (hu : 1 ≤ u) (h64 : u < 2 ^ 64) :
    mbLimit u = 2 ^ (u.log2 + 1) - u := by
  obtain ⟨h1, h2⟩ := log2_bounds hu
  have hl := log2_le_63 hu h64
  unfold mbLimit wsub64 shl64
  rw [← Nat.pow_succ]
  by_cases h63 : u.log2 = 63
  · rw [h63] at h1 h2 ⊢
    omega
  · have hlt : u.log2 + 1 < 64 := by omega
    have hp : 2 ^ (u.log2 + 1) < 2 ^ 64 := Nat.pow_lt_pow_right (by omega) hlt
    rw [Nat.mod_eq_of_lt hp]
    generalize 2 ^ (u.log2 + 1) = P at *
    omega

/-- the published limit never exceeds `2^⌊log₂ u⌋` -/
theorem limit_le {u : Nat} (hu : 1 ≤ u) : 2 ^ (u.log2 + 1) - u ≤ 2 ^ u.log2 := by
  obtain ⟨h1, h2⟩ := log2_bounds hu
  rw [Nat.pow_succ] at *
  omega

/-! ### ζ -/

theorem zeta_h_bounds (m k : Nat) (hk : 1 ≤ k) :
    m.log2 / k * k ≤ m.log2 ∧ m.log2 < (m.log2 / k + 1) * k := by
  refine ⟨Nat.div_mul_le_self _ _, ?_⟩
  have := Nat.lt_mul_div_succ m.log2 (show 0 < k by omega)
  rwa [Nat.mul_comm] at this

/-- the upper bound handed to minimal binary by the implementation equals the one of
    `Spec.zetaWrapped` -/
theorem zetaU_eq (h k : Nat) (hhk : h * k ≤ 63) (hk : k ≤ 63) :
    zetaU h k = (if (h + 1) * k ≤ 64 then 2 ^ ((h + 1) * k) else 2 ^ 64) - 2 ^ (h * k) := by
  unfold zetaU wsub64 shl64
  rw [← Nat.pow_add, show (h + 1) * k = h * k + k by rw [Nat.add_mul, Nat.one_mul]]
  have hlow : 2 ^ (h * k) < 2 ^ 64 := Nat.pow_lt_pow_right (by omega) (by omega)
  have hpos : 0 < 2 ^ (h * k) := Nat.two_pow_pos _
  by_cases hc : h * k + k < 64
  · have hp : 2 ^ (h * k + k) < 2 ^ 64 := Nat.pow_lt_pow_right (by omega) hc
    have hmono : 2 ^ (h * k) ≤ 2 ^ (h * k + k) := Nat.pow_le_pow_right (by omega) (by omega)
    rw [if_pos (by omega), Nat.mod_eq_of_lt hp]
    generalize 2 ^ (h * k + k) = P at *
    generalize 2 ^ (h * k) = L at *
    omega
  · have hdvd : 2 ^ (h * k + k) % 2 ^ 64 = 0 := by
      have : h * k + k = 64 + (h * k + k - 64) := by omega
      rw [this, Nat.pow_add]
      exact Nat.mul_mod_right _ _
    rw [hdvd]
    by_cases h64 : h * k + k = 64
    · rw [if_pos (by omega), h64]
      generalize 2 ^ (h * k) = L at *
      omega
    · rw [if_neg (by omega)]
      generalize 2 ^ (h * k) = L at *
      omega

/-- ζ range facts: with `m = n+1 ≤ 2^64 − 1`, `h = ⌊log₂ m⌋ / k`, `U` the wrapped bound:
    `1 ≤ U < 2^64`, `2^{hk} ≤ m`, `m − 2^{hk} < U`. -/
theorem zeta_range (m k h : Nat) (hh : h = m.log2 / k) (hm : 1 ≤ m) (hm64 : m < 2 ^ 64)
    (hk1 : 1 ≤ k) :
    h * k ≤ 63 ∧
    1 ≤ (if (h + 1) * k ≤ 64 then 2 ^ ((h + 1) * k) else 2 ^ 64) - 2 ^ (h * k) ∧
    (if (h + 1) * k ≤ 64 then 2 ^ ((h + 1) * k) else 2 ^ 64) - 2 ^ (h * k) < 2 ^ 64 ∧
    2 ^ (h * k) ≤ m ∧
    m - 2 ^ (h * k) < (if (h + 1) * k ≤ 64 then 2 ^ ((h + 1) * k) else 2 ^ 64) - 2 ^ (h * k) := by
  obtain ⟨hb1, hb2⟩ := zeta_h_bounds m k hk1
  rw [← hh] at hb1 hb2
  obtain ⟨hl1, hl2⟩ := log2_bounds hm
  have hl63 := log2_le_63 hm hm64
  have hhk : h * k ≤ 63 := by omega
  have hlow : 2 ^ (h * k) ≤ 2 ^ m.log2 := Nat.pow_le_pow_right (by omega) hb1
  have hpos : 0 < 2 ^ (h * k) := Nat.two_pow_pos _
  have hlow64 : 2 ^ (h * k) ≤ 2 ^ 63 := Nat.pow_le_pow_right (by omega) hhk
  have hhi : 2 ^ (m.log2 + 1) ≤ 2 ^ ((h + 1) * k) := Nat.pow_le_pow_right (by omega) (by omega)
  refine ⟨hhk, ?_⟩
  by_cases hc : (h + 1) * k ≤ 64
  · simp only [if_pos hc]
    have hle : 2 ^ ((h + 1) * k) ≤ 2 ^ 64 := Nat.pow_le_pow_right (by omega) hc
    generalize 2 ^ ((h + 1) * k) = P at *
    generalize 2 ^ (h * k) = L at *
    generalize 2 ^ (m.log2 + 1) = Q at *
    generalize 2 ^ m.log2 = R at *
    omega
  · simp only [if_neg hc]
    generalize 2 ^ (h * k) = L at *
    omega

end Dsi.CodesB
