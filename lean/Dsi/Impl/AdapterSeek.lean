/-
  `WordAdapter<W, B>` (src/impls/word_adapter.rs), second part:

  * the struct itself (`WordAdapter β`: the wrapped object; `_marker: PhantomData<W>` carries no data);
  * `StdIO`: the vocabulary of `std` items that the bodies of word_adapter.rs call and that the
    translated bodies (lean/Dsi/Gen/AdapterBodies.lean, tools/translate_adapter.py) mention:
    `SeekFrom`, `Result::map_err`, `u64::div_ceil`, `to_ne_bytes` / `from_ne_bytes`;
  * the hand model of the `WordSeek` arithmetic over a `std::io::Cursor<Vec<u8>>` (`AdCursor`):
    the driver (`adSeekStep`, lean/Dsi/Glue/MiscDriver.lean) answers the `AD seek` requests with
    exactly `AdCursor.readWord`, `AdCursor.wordPos` and `AdCursor.setWordPos`.

  Trusted / recorded assumptions (they are about `std` and `common_traits`, not about the crate):
  * native endianness is little-endian (`to_ne_bytes` = `to_le_bytes`): all hosts the check runs on;
  * `W::BYTES` is the size of `W` in bytes and `W::Bytes` is `[u8; W::BYTES]` (`common_traits`);
  * `u64::div_ceil` is `d = a / b; r = a % b; if r > 0 { d + 1 } else { d }` (core::num);
  * `Cursor::stream_position` is the position, `Cursor::seek(Start(n))` sets it to `n` (any `n`),
    `Current(d)` / `End(d)` add `d` to the position / the length and fail with `InvalidInput` on a
    negative or overflowing result (std::io::Cursor).
-/
import Dsi.IOView
import Dsi.Impl.Adapter
namespace Dsi

/-- `struct WordAdapter<W, B> { backend: B, _marker: PhantomData<W> }` -/
structure WordAdapter (β : Type) where
  backend : β

namespace StdIO

/-- `std::io::SeekFrom` -/
inductive SeekFrom where
  | start (n : Nat)
  | current (d : Int)
  | fromEnd (d : Int)
  deriving Repr, DecidableEq

/-- `Result::map_err` (an `std::io::Error` is modelled by its canonical kind, `Err`) -/
def mapErr {α : Type} (f : Err → Err) : Res α → Res α
  | .ok a => .ok a
  | .err e => .err (f e)
  | .panic => .panic
  | .dpanic => .dpanic

/-- `u64::div_ceil` as core implements it for unsigned integers (`b = 0` panics in Rust: outside
    the domain of the theorems) -/
def divCeil (a b : Nat) : Nat := if a % b > 0 then a / b + 1 else a / b

/-- `W::to_ne_bytes` for a `nbytes`-byte word. RECORDED ASSUMPTION: the host is little-endian. -/
def toNeBytes (nbytes v : Nat) : List Nat := leBytes v nbytes

/-- `W::from_ne_bytes`. RECORDED ASSUMPTION: the host is little-endian. -/
def fromNeBytes (bs : List Nat) : Nat := leVal bs

end StdIO

/-! ### the seek / word-position model: a `Cursor<Vec<u8>>` -/

/-- `std::io::Cursor<Vec<u8>>`: the data and the position (which may be beyond the data) -/
structure AdCursor where
  data : List Nat
  pos : Nat := 0

/-- `Seek::stream_position` of a cursor -/
def AdCursor.streamPosition (c : AdCursor) : Res (Nat × AdCursor) := .ok (c.pos, c)

/-- `Seek::seek` of a cursor (`InvalidInput` is `E:io` in the canonical error vocabulary) -/
def AdCursor.seek (c : AdCursor) : StdIO.SeekFrom → Res (Nat × AdCursor)
  | .start n => .ok (n, { c with pos := n })
  | .current d =>
    let p : Int := (c.pos : Int) + d
    if 0 ≤ p ∧ p < 2 ^ 64 then .ok (p.toNat, { c with pos := p.toNat }) else .err .io
  | .fromEnd d =>
    let p : Int := (c.data.length : Int) + d
    if 0 ≤ p ∧ p < 2 ^ 64 then .ok (p.toNat, { c with pos := p.toNat }) else .err .io

/-- `WordAdapter::read_word` over a cursor, the word as its native bytes: the next `nbytes` bytes,
    or `UnexpectedEof` when fewer are left -/
def AdCursor.readWord (c : AdCursor) (nbytes : Nat) : Res (List Nat × AdCursor) :=
  if c.pos + nbytes ≤ c.data.length then
    .ok ((c.data.drop c.pos).take nbytes, { c with pos := c.pos + nbytes })
  else .err .eof

/-- the cursor after a `read_word` that failed: std's `Cursor::read_exact` "places the cursor at
    EOF" on failure (recorded assumption about std; the byte position may then be unaligned) -/
def AdCursor.afterFailedRead (c : AdCursor) : AdCursor := { c with pos := c.data.length }

/-- `WordSeek::word_pos`: the byte position divided by the word size, rounded up -/
def AdCursor.wordPos (c : AdCursor) (nbytes : Nat) : Nat := (c.pos + nbytes - 1) / nbytes

/-- `WordSeek::set_word_pos`: the byte position becomes `k * nbytes` -/
def AdCursor.setWordPos (c : AdCursor) (nbytes k : Nat) : AdCursor := { c with pos := k * nbytes }

/-! ### the same arithmetic over a storage-less source (positions beyond any real buffer) -/

/-- byte `i` of the virtual source of the harness (`VirtSrc`): `(i * 0x9E3779B97F4A7C15 mod 2^64) >> 56` -/
def virtByte (i : Nat) : Nat := ((i % 2 ^ 64) * 0x9E3779B97F4A7C15 % 2 ^ 64) / 2 ^ 56

/-- a seekable byte source of unbounded length whose content is `virtByte`; only the position is state -/
structure AdVirt where
  pos : Nat := 0

/-- `read_word`: the next `nbytes` bytes; never fails -/
def AdVirt.readWord (c : AdVirt) (nbytes : Nat) : List Nat × AdVirt :=
  ((List.range nbytes).map fun k => virtByte (c.pos + k), { pos := (c.pos + nbytes) % 2 ^ 64 })

/-- `word_pos`: byte position divided by the word size, rounded up (`u64::div_ceil`) -/
def AdVirt.wordPos (c : AdVirt) (nbytes : Nat) : Nat := (c.pos + nbytes - 1) / nbytes

/-- `set_word_pos(k)`: `Start(k * BYTES)`; the product is a `u64` (wraps in optimised builds) -/
def AdVirt.setWordPos (_c : AdVirt) (nbytes k : Nat) : AdVirt := { pos := (k * nbytes) % 2 ^ 64 }

end Dsi
