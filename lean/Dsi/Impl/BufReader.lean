/-
  L3 — `BufBitReader<E, WR>` (src/impls/buf_bit_reader.rs): a `2W`-bit buffer whose top (BE) /
  low (LE) `bib` bits are valid and whose other bits are zero, over a word backend.
  One definition per Rust function, same branches, same shifts.
-/
import Dsi.Prog
import Dsi.Impl.MemWord
namespace Dsi

structure BufR (W : Nat) where
  buffer : BitVec (2 * W)
  bib    : Nat                 -- bits_in_buffer
  back   : MemR W

namespace BufR
variable {W : Nat}

def new (back : MemR W) : BufR W := { buffer := 0, bib := 0, back := back }

/-! #### big-endian -/

def refillBE (s : BufR W) : Res (BufR W) :=
  if s.bib > W then .dpanic else     -- debug_assert!(BB::BITS - bits_in_buffer >= W)
  match s.back.readWord with
  | .ok (w, back) =>
    let bib := s.bib + W
    .ok { buffer := s.buffer ||| (w.setWidth (2 * W) <<< (2 * W - bib)), bib := bib, back := back }
  | .err e => .err e
  | .panic => .panic
  | .dpanic => .dpanic

def peekBitsBE (s : BufR W) (n : Nat) : Res (Nat × BufR W) :=
  if n = 0 ∨ n > 2 * W then .dpanic else
  let r := if n > s.bib then refillBE s else .ok s
  match r with
  | .ok s' =>
    if n > s'.bib then .dpanic      -- debug_assert!(n_bits <= self.bits_in_buffer)
    else .ok ((s'.buffer >>> (2 * W - n)).toNat, s')
  | .err e => .err e
  | .panic => .panic
  | .dpanic => .dpanic

def skipAfterPeekBE (s : BufR W) (n : Nat) : BufR W :=
  { s with bib := s.bib - n, buffer := s.buffer <<< n }

/-- `while n_bits > W { result = (result << W) | word; n_bits -= W }` -/
def readWordsBE (fuel : Nat) (back : MemR W) (result : BitVec 64) (n : Nat) :
    Res (BitVec 64 × Nat × MemR W) :=
  match fuel with
  | 0 => .ok (result, n, back)
  | fuel + 1 =>
    if n > W then
      match back.readWord with
      | .ok (w, back') => readWordsBE fuel back' ((result <<< W) ||| w.setWidth 64) (n - W)
      | .err e => .err e
      | .panic => .panic
      | .dpanic => .dpanic
    else .ok (result, n, back)

def readBitsBE (s : BufR W) (n : Nat) : Res (Nat × BufR W) :=
  if n > 64 then .dpanic
  else if n ≤ s.bib then
    let result := ((s.buffer >>> (2 * W - n - 1)) >>> 1).setWidth 64
    .ok (result.toNat, { s with bib := s.bib - n, buffer := s.buffer <<< n })
  else
    let result : BitVec 64 := ((s.buffer >>> (2 * W - 1 - s.bib)) >>> 1).setWidth 64
    let n := n - s.bib
    match readWordsBE 64 s.back result n with
    | .ok (result, n, back) =>
      match back.readWord with
      | .ok (w, back') =>
        let bib := W - n
        let finalBits : BitVec 64 := w.setWidth 64 >>> bib
        let result := ((result <<< (n - 1)) <<< 1) ||| finalBits
        .ok (result.toNat,
             { buffer := (w.setWidth (2 * W) <<< (2 * W - bib - 1)) <<< 1, bib := bib, back := back' })
      | .err e => .err e
      | .panic => .panic
      | .dpanic => .dpanic
    | .err e => .err e
    | .panic => .panic
    | .dpanic => .dpanic

/-- number of leading zeros of a `w`-bit vector (`w` if zero) -/
def clz {w : Nat} (x : BitVec w) : Nat :=
  (List.range w).takeWhile (fun i => !x.getMsbD i) |>.length

/-- number of trailing zeros (`w` if zero) -/
def ctz {w : Nat} (x : BitVec w) : Nat :=
  (List.range w).takeWhile (fun i => !x.getLsbD i) |>.length

/-- the word loop of `read_unary`; `fuel` bounds the words scanned (a zero-extended backend with
    no one ahead loops forever in the Rust: fuel exhaustion is `dpanic`) -/
def unaryWordsBE (fuel : Nat) (back : MemR W) (result : Nat) : Res (Nat × BufR W) :=
  match fuel with
  | 0 => .dpanic
  | fuel + 1 =>
    match back.readWord with
    | .ok (w, back') =>
      if w ≠ 0 then
        let zeros := clz w
        .ok (result + zeros,
             { buffer := (w.setWidth (2 * W) <<< (W + zeros)) <<< 1, bib := W - zeros - 1, back := back' })
      else unaryWordsBE fuel back' (result + W)
    | .err e => .err e
    | .panic => .panic
    | .dpanic => .dpanic

def readUnaryBE (s : BufR W) : Res (Nat × BufR W) :=
  let zeros := clz s.buffer
  if zeros < s.bib then
    .ok (zeros, { s with buffer := (s.buffer <<< zeros) <<< 1, bib := s.bib - (zeros + 1) })
  else unaryWordsBE (s.back.data.length + 2 - s.back.pos) s.back s.bib

/-- `while n_bits > W { read_word; n_bits -= W }` -/
def skipWords (fuel : Nat) (back : MemR W) (n : Nat) : Res (Nat × MemR W) :=
  match fuel with
  | 0 => .ok (n, back)
  | fuel + 1 =>
    if n > W then
      match back.readWord with
      | .ok (_, back') => skipWords fuel back' (n - W)
      | .err e => .err e
      | .panic => .panic
      | .dpanic => .dpanic
    else .ok (n, back)

def skipBitsBE (s : BufR W) (n : Nat) : Res (BufR W) :=
  if n ≤ s.bib then .ok { s with bib := s.bib - n, buffer := s.buffer <<< n }
  else
    let n := n - s.bib
    match skipWords n s.back n with
    | .ok (n, back) =>
      match back.readWord with
      | .ok (w, back') =>
        let bib := W - n
        .ok { buffer := (w.setWidth (2 * W) <<< (2 * W - 1 - bib)) <<< 1, bib := bib, back := back' }
      | .err e => .err e
      | .panic => .panic
      | .dpanic => .dpanic
    | .err e => .err e
    | .panic => .panic
    | .dpanic => .dpanic

def setBitPosBE (s : BufR W) (p : Nat) : Res (BufR W) :=
  match s.back.setWordPos (p / W) with
  | .ok back =>
    let off := p % W
    if off ≠ 0 then
      match back.readWord with
      | .ok (w, back') =>
        let bib := W - off
        .ok { buffer := w.setWidth (2 * W) <<< (2 * W - bib), bib := bib, back := back' }
      | .err e => .err e
      | .panic => .panic
      | .dpanic => .dpanic
    else .ok { buffer := 0, bib := 0, back := back }
  | .err e => .err e
  | .panic => .panic
  | .dpanic => .dpanic

/-! #### little-endian -/

def refillLE (s : BufR W) : Res (BufR W) :=
  if s.bib > W then .dpanic else
  match s.back.readWord with
  | .ok (w, back) =>
    .ok { buffer := s.buffer ||| (w.setWidth (2 * W) <<< s.bib), bib := s.bib + W, back := back }
  | .err e => .err e
  | .panic => .panic
  | .dpanic => .dpanic

def peekBitsLE (s : BufR W) (n : Nat) : Res (Nat × BufR W) :=
  if n = 0 ∨ n > 2 * W then .dpanic else
  let r := if n > s.bib then refillLE s else .ok s
  match r with
  | .ok s' =>
    if n > s'.bib then .dpanic
    else
      let shamt := 2 * W - n
      .ok (((s'.buffer <<< shamt) >>> shamt).toNat, s')
  | .err e => .err e
  | .panic => .panic
  | .dpanic => .dpanic

def skipAfterPeekLE (s : BufR W) (n : Nat) : BufR W :=
  { s with bib := s.bib - n, buffer := s.buffer >>> n }

/-- `while n_bits > W + bits_in_res { result |= word << bits_in_res; bits_in_res += W }` -/
def readWordsLE (fuel : Nat) (back : MemR W) (result : BitVec 64) (bitsInRes n : Nat) :
    Res (BitVec 64 × Nat × MemR W) :=
  match fuel with
  | 0 => .ok (result, bitsInRes, back)
  | fuel + 1 =>
    if n > W + bitsInRes then
      match back.readWord with
      | .ok (w, back') =>
        readWordsLE fuel back' (result ||| (w.setWidth 64 <<< bitsInRes)) (bitsInRes + W) n
      | .err e => .err e
      | .panic => .panic
      | .dpanic => .dpanic
    else .ok (result, bitsInRes, back)

def readBitsLE (s : BufR W) (n : Nat) : Res (Nat × BufR W) :=
  if n > 64 then .dpanic
  else if n ≤ s.bib then
    let result := (s.buffer &&& (((1 : BitVec (2 * W)) <<< n) - 1)).setWidth 64
    .ok (result.toNat, { s with bib := s.bib - n, buffer := s.buffer >>> n })
  else
    let result : BitVec 64 := s.buffer.setWidth 64
    match readWordsLE 64 s.back result s.bib n with
    | .ok (result, bitsInRes, back) =>
      let n := n - bitsInRes
      match back.readWord with
      | .ok (w, back') =>
        let bib := W - n
        let shamt := 64 - n
        let finalBits : BitVec 64 := (w.setWidth 64 <<< shamt) >>> shamt
        let result := result ||| (finalBits <<< bitsInRes)
        .ok (result.toNat, { buffer := w.setWidth (2 * W) >>> n, bib := bib, back := back' })
      | .err e => .err e
      | .panic => .panic
      | .dpanic => .dpanic
    | .err e => .err e
    | .panic => .panic
    | .dpanic => .dpanic

def unaryWordsLE (fuel : Nat) (back : MemR W) (result : Nat) : Res (Nat × BufR W) :=
  match fuel with
  | 0 => .dpanic
  | fuel + 1 =>
    match back.readWord with
    | .ok (w, back') =>
      if w ≠ 0 then
        let zeros := ctz w
        .ok (result + zeros,
             { buffer := (w.setWidth (2 * W) >>> zeros) >>> 1, bib := W - zeros - 1, back := back' })
      else unaryWordsLE fuel back' (result + W)
    | .err e => .err e
    | .panic => .panic
    | .dpanic => .dpanic

def readUnaryLE (s : BufR W) : Res (Nat × BufR W) :=
  let zeros := ctz s.buffer
  if zeros < s.bib then
    .ok (zeros, { s with buffer := (s.buffer >>> zeros) >>> 1, bib := s.bib - (zeros + 1) })
  else unaryWordsLE (s.back.data.length + 2 - s.back.pos) s.back s.bib

def skipBitsLE (s : BufR W) (n : Nat) : Res (BufR W) :=
  if n ≤ s.bib then .ok { s with bib := s.bib - n, buffer := s.buffer >>> n }
  else
    let n := n - s.bib
    match skipWords n s.back n with
    | .ok (n, back) =>
      match back.readWord with
      | .ok (w, back') =>
        .ok { buffer := w.setWidth (2 * W) >>> n, bib := W - n, back := back' }
      | .err e => .err e
      | .panic => .panic
      | .dpanic => .dpanic
    | .err e => .err e
    | .panic => .panic
    | .dpanic => .dpanic

def setBitPosLE (s : BufR W) (p : Nat) : Res (BufR W) :=
  match s.back.setWordPos (p / W) with
  | .ok back =>
    let off := p % W
    if off ≠ 0 then
      match back.readWord with
      | .ok (w, back') =>
        .ok { buffer := w.setWidth (2 * W) >>> off, bib := W - off, back := back' }
      | .err e => .err e
      | .panic => .panic
      | .dpanic => .dpanic
    else .ok { buffer := 0, bib := 0, back := back }
  | .err e => .err e
  | .panic => .panic
  | .dpanic => .dpanic

/-! #### both -/

/-- `bit_pos = word_pos * W - bits_in_buffer` -/
def bitPos (s : BufR W) : Nat := s.back.pos * W - s.bib

def impl (e : Endian) : RImpl (BufR W) :=
  match e with
  | .be => { readBits := readBitsBE, peekBits := peekBitsBE, skipAfterPeek := skipAfterPeekBE,
             skipBits := skipBitsBE, readUnary := readUnaryBE }
  | .le => { readBits := readBitsLE, peekBits := peekBitsLE, skipAfterPeek := skipAfterPeekLE,
             skipBits := skipBitsLE, readUnary := readUnaryLE }

def setBitPos (e : Endian) (s : BufR W) (p : Nat) : Res (BufR W) :=
  match e with
  | .be => setBitPosBE s p
  | .le => setBitPosLE s p

end BufR
end Dsi
