/-
  L3 — the unbuffered `BitReader<E, WR>` (src/impls/bit_reader.rs): u64 words, an absolute bit
  index; every operation seeks the backend to `bit_index / 64` and reads one or two words.
-/
import Dsi.Prog
import Dsi.Impl.MemWord
import Dsi.Impl.BufReader
namespace Dsi

structure BitR where
  data     : MemR 64
  bitIndex : Nat := 0

namespace BitR

/-- the shared body of `read_bits` / `peek_bits` (after the `n == 0` early return) -/
def extract (e : Endian) (s : BitR) (n : Nat) : Res (BitVec 64 × MemR 64) :=
  match s.data.setWordPos (s.bitIndex / 64) with
  | .ok d0 =>
    let off := s.bitIndex % 64
    if off + n ≤ 64 then
      match d0.readWord with
      | .ok (w, d1) =>
        match e with
        | .be => .ok ((w <<< off) >>> (64 - n), d1)
        | .le => let shamt := 64 - n
                 .ok ((w <<< (shamt - off)) >>> shamt, d1)
      | .err er => .err er
      | .panic => .panic
      | .dpanic => .dpanic
    else
      match d0.readWord with
      | .ok (w1, d1) =>
        match d1.readWord with
        | .ok (w2, d2) =>
          match e with
          | .be =>  -- w1 = high_word, w2 = low_word
            let shamt1 := 64 - n
            let shamt2 := 128 - off - n
            .ok (((w1 <<< off) >>> shamt1) ||| (w2 >>> shamt2), d2)
          | .le =>  -- w1 = low_word, w2 = high_word
            let shamt1 := 128 - off - n
            let shamt2 := 64 - n
            .ok (((w2 <<< shamt1) >>> shamt2) ||| (w1 >>> off), d2)
        | .err er => .err er
        | .panic => .panic
        | .dpanic => .dpanic
      | .err er => .err er
      | .panic => .panic
      | .dpanic => .dpanic
  | .err er => .err er
  | .panic => .panic
  | .dpanic => .dpanic

def readBits (e : Endian) (s : BitR) (n : Nat) : Res (Nat × BitR) :=
  if n = 0 then .ok (0, s)
  else if n > 64 then (match e with | .be => .panic | .le => .dpanic)   -- BE: assert!; LE: only under `checks`
  else
    match extract e s n with
    | .ok (v, d) => .ok (v.toNat, { data := d, bitIndex := s.bitIndex + n })
    | .err er => .err er
    | .panic => .panic
    | .dpanic => .dpanic

def peekBits (e : Endian) (s : BitR) (n : Nat) : Res (Nat × BitR) :=
  if n = 0 then .ok (0, s)
  else if n > 32 then .panic      -- assert!(n_bits <= 32)
  else
    match extract e s n with
    | .ok (v, d) => .ok ((v.setWidth 32).toNat, { s with data := d })
    | .err er => .err er
    | .panic => .panic
    | .dpanic => .dpanic

def skipAfterPeek (s : BitR) (n : Nat) : BitR := { s with bitIndex := s.bitIndex + n }
def skipBits (s : BitR) (n : Nat) : Res BitR := .ok { s with bitIndex := s.bitIndex + n }

/-- the word loop of `read_unary` -/
def unaryLoop (e : Endian) (fuel : Nat) (d : MemR 64) (word : BitVec 64) (bitsInWord total : Nat) :
    Res (Nat × MemR 64) :=
  match fuel with
  | 0 => .dpanic
  | fuel + 1 =>
    let zeros := match e with
      | .be => BufR.clz word
      | .le => BufR.ctz word
    if zeros < bitsInWord then .ok (total + zeros, d)
    else
      match d.readWord with
      | .ok (w, d') => unaryLoop e fuel d' w 64 (total + bitsInWord)
      | .err er => .err er
      | .panic => .panic
      | .dpanic => .dpanic

def readUnary (e : Endian) (s : BitR) : Res (Nat × BitR) :=
  match s.data.setWordPos (s.bitIndex / 64) with
  | .ok d0 =>
    let off := s.bitIndex % 64
    match d0.readWord with
    | .ok (w, d1) =>
      let word := match e with
        | .be => w <<< off
        | .le => w >>> off
      match unaryLoop e (d1.data.length + 3 - d1.pos) d1 word (64 - off) 0 with
      | .ok (r, d2) => .ok (r, { data := d2, bitIndex := s.bitIndex + r + 1 })
      | .err er => .err er
      | .panic => .panic
      | .dpanic => .dpanic
    | .err er => .err er
    | .panic => .panic
    | .dpanic => .dpanic
  | .err er => .err er
  | .panic => .panic
  | .dpanic => .dpanic

def bitPos (s : BitR) : Nat := s.bitIndex
def setBitPos (s : BitR) (p : Nat) : BitR := { s with bitIndex := p }

def impl (e : Endian) : RImpl BitR :=
  { readBits := readBits e, peekBits := peekBits e, skipAfterPeek := skipAfterPeek,
    skipBits := skipBits, readUnary := readUnary e }

end BitR
end Dsi
