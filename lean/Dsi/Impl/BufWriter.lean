/-
  L3 — `BufBitWriter<E, WW>` (src/impls/buf_bit_writer.rs), one definition per Rust function,
  same branches, machine words as `BitVec W`.  The backend is an append-only list of *logical*
  words (the value whose `to_be()` / `to_le()` image is stored), optionally with a capacity
  (fixed slice).
-/
import Dsi.Prog
namespace Dsi

structure BufW (W : Nat) where
  buffer : BitVec W
  space  : Nat                      -- space_left_in_buffer, 1 ≤ space ≤ W
  out    : List (BitVec W) := []    -- words delivered to the backend, oldest first
  cap    : Option Nat := none       -- capacity of a fixed backend, in words
  checks : Bool := false

namespace BufW
variable {W : Nat}

def new (W : Nat) (checks : Bool := false) (cap : Option Nat := none) : BufW W :=
  { buffer := 0, space := W, out := [], cap := cap, checks := checks }

/-- `backend.write_word(w)` -/
def emit (s : BufW W) (w : BitVec W) : Res (BufW W) :=
  match s.cap with
  | some c => if s.out.length < c then .ok { s with out := s.out ++ [w] } else .err .eof
  | none => .ok { s with out := s.out ++ [w] }

/-- the `checks` assertion at the top of `write_bits` -/
def dirty (s : BufW W) (v : BitVec 64) (n : Nat) : Bool := s.checks && decide (v.toNat ≥ 2 ^ n)

/-- BE spill loop: `for _ in 0..to_write / W { to_write -= W; emit(cast(value >> to_write)) }` -/
def spillBE (v : BitVec 64) : Nat → Nat → BufW W → Res (Nat × BufW W)
  | 0, toWrite, s => .ok (toWrite, s)
  | k + 1, toWrite, s =>
    let toWrite := toWrite - W
    match s.emit ((v >>> toWrite).setWidth W) with
    | .ok s' => spillBE v k toWrite s'
    | .err e => .err e
    | .panic => .panic
    | .dpanic => .dpanic

def writeBitsBE (s : BufW W) (v : BitVec 64) (n : Nat) : Res (Nat × BufW W) :=
  if n > 64 then .dpanic
  else if s.dirty v n then .panic
  else if n < s.space then
    .ok (n, { s with
      buffer := (s.buffer <<< n) ||| (v.setWidth W &&& ~~~(BitVec.allOnes W <<< n)),
      space := s.space - n })
  else
    let buffer := (s.buffer <<< (s.space - 1)) <<< 1
    let buffer := buffer ||| ((v <<< (64 - n)) >>> (64 - s.space)).setWidth W
    match s.emit buffer with
    | .ok s1 =>
      let toWrite := n - s.space
      match spillBE v (toWrite / W) toWrite s1 with
      | .ok (toWrite, s2) => .ok (n, { s2 with space := W - toWrite, buffer := v.setWidth W })
      | .err e => .err e
      | .panic => .panic
      | .dpanic => .dpanic
    | .err e => .err e
    | .panic => .panic
    | .dpanic => .dpanic

/-- LE spill loop: `for _ in 0..to_write / W { emit(cast(value)); value >>= W }` -/
def spillLE : Nat → BitVec 64 → BufW W → Res (BitVec 64 × BufW W)
  | 0, v, s => .ok (v, s)
  | k + 1, v, s =>
    match s.emit (v.setWidth W) with
    | .ok s' => spillLE k (v >>> W) s'
    | .err e => .err e
    | .panic => .panic
    | .dpanic => .dpanic

def writeBitsLE (s : BufW W) (v : BitVec 64) (n : Nat) : Res (Nat × BufW W) :=
  if n > 64 then .dpanic
  else if s.dirty v n then .panic
  else if n < s.space then
    .ok (n, { s with
      buffer := (s.buffer >>> n) |||
        (v.setWidth W &&& ~~~(BitVec.allOnes W <<< n)).rotateRight n,
      space := s.space - n })
  else
    let buffer := (s.buffer >>> (s.space - 1)) >>> 1
    let buffer := buffer ||| (v.setWidth W <<< (W - s.space))
    match s.emit buffer with
    | .ok s1 =>
      let toWrite := n - s.space
      let v1 := (v >>> (s.space - 1)) >>> 1
      match spillLE (toWrite / W) v1 s1 with
      | .ok (v2, s2) =>
        .ok (n, { s2 with space := W - toWrite % W,
                          buffer := (v2.setWidth W).rotateRight toWrite })
      | .err e => .err e
      | .panic => .panic
      | .dpanic => .dpanic
    | .err e => .err e
    | .panic => .panic
    | .dpanic => .dpanic

/-- `for _ in 0..k { write_word(ZERO) }` -/
def zeroWords : Nat → BufW W → Res (BufW W)
  | 0, s => .ok s
  | k + 1, s =>
    match s.emit 0 with
    | .ok s' => zeroWords k s'
    | .err e => .err e
    | .panic => .panic
    | .dpanic => .dpanic

/-- the word holding a single one at the stream-last position -/
def oneWord (e : Endian) : BitVec W :=
  match e with
  | .be => 1
  | .le => (1 : BitVec W) <<< (W - 1)

/-- shift the buffer towards the stream-first end by `k` positions -/
def shiftIn (e : Endian) (b : BitVec W) (k : Nat) : BitVec W :=
  match e with
  | .be => b <<< k
  | .le => b >>> k

def writeUnary (e : Endian) (s : BufW W) (x : Nat) : Res (Nat × BufW W) :=
  if x ≥ 2 ^ 64 - 1 then .dpanic
  else
  let codeLength := x + 1
  if codeLength ≤ s.space then
    let space := s.space - codeLength
    let buffer := shiftIn e (shiftIn e s.buffer x) 1 ||| oneWord e
    if space = 0 then
      match s.emit buffer with
      | .ok s' => .ok (codeLength, { s' with buffer := buffer, space := W })
      | .err er => .err er
      | .panic => .panic
      | .dpanic => .dpanic
    else .ok (codeLength, { s with buffer := buffer, space := space })
  else
    let buffer := shiftIn e (shiftIn e s.buffer (s.space - 1)) 1
    match s.emit buffer with
    | .ok s1 =>
      let x := x - s.space
      match zeroWords (x / W) { s1 with buffer := buffer } with
      | .ok s2 =>
        let x := x % W
        if x = W - 1 then
          match s2.emit (oneWord e) with
          | .ok s3 => .ok (codeLength, { s3 with space := W })
          | .err er => .err er
          | .panic => .panic
          | .dpanic => .dpanic
        else .ok (codeLength, { s2 with buffer := oneWord e, space := W - (x + 1) })
      | .err er => .err er
      | .panic => .panic
      | .dpanic => .dpanic
    | .err er => .err er
    | .panic => .panic
    | .dpanic => .dpanic

/-- `flush_be` / `flush_le` -/
def flush (e : Endian) (s : BufW W) : Res (Nat × BufW W) :=
  let toFlush := W - s.space
  if toFlush ≠ 0 then
    let buffer := shiftIn e s.buffer s.space
    match s.emit buffer with
    | .ok s' => .ok (toFlush, { s' with buffer := buffer, space := W })
    | .err er => .err er
    | .panic => .panic
    | .dpanic => .dpanic
  else .ok (toFlush, s)

def writeBits (e : Endian) (s : BufW W) (v : BitVec 64) (n : Nat) : Res (Nat × BufW W) :=
  match e with
  | .be => writeBitsBE s v n
  | .le => writeBitsLE s v n

def impl (e : Endian) : WImpl (BufW W) :=
  { writeBits := fun s v n => writeBits e s (BitVec.ofNat 64 v) n,
    writeUnary := writeUnary e,
    flush := flush e }

/-- Bytes of a delivered logical word in memory order: big-endian byte order for BE streams
    (`to_be()` then native store), little-endian for LE streams. -/
def wordBytes (e : Endian) (w : BitVec W) : List Nat :=
  let le := (List.range (W / 8)).map fun i => (w.toNat / 2 ^ (8 * i)) % 256
  match e with
  | .le => le
  | .be => le.reverse

def outBytes (e : Endian) (s : BufW W) : List Nat := s.out.flatMap (wordBytes e)

end BufW
end Dsi
