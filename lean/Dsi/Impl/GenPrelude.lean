/-
  Hand-written prelude of the generated method bodies (lean/Dsi/Gen/BufWriterBodies.lean,
  BufReaderBodies.lean, BitReaderBodies.lean, emitted by tools/translate_buf{w,r}.py,
  translate_bitr.py): the loop combinators the translators need besides `Res.bind`.
-/
import Dsi.Basic
namespace Dsi

/-- `for _ in 0..n { body }` over the tuple `st` of the variables the body assigns; a `?` inside
    the body leaves the loop (and the function) with that outcome. -/
def forN {σ : Type} : Nat → σ → (σ → Res σ) → Res σ
  | 0, st, _ => .ok st
  | k + 1, st, body => Res.bind (body st) fun st' => forN k st' body

/-- `while c { body }` over the tuple `st` of the variables the body assigns, with fuel: when the
    fuel runs out the loop is left as if the condition had become false (this is what the
    hand-written word loops `readWordsBE/LE`, `skipWords` do; the callers choose a fuel that
    suffices, see `Dsi.GenBufR.whileN_fuel_irrelevant` in lean/Dsi/Props/BufReaderGen.lean). -/
def whileN {σ : Type} : Nat → σ → (σ → Bool) → (σ → Res σ) → Res σ
  | 0, st, _, _ => .ok st
  | k + 1, st, c, body =>
    if c st then Res.bind (body st) fun st' => whileN k st' c body else .ok st

/-- one round of a `loop { .. }`: either the function returns (`return Ok(..)`) or the loop goes
    round again with the new values of the variables it assigns -/
inductive Step (ρ σ : Type) where
  | ret  : ρ → Step ρ σ
  | next : σ → Step ρ σ

/-- `loop { body }` whose only exits are `return`s (and `?`), with fuel; fuel exhaustion is
    `dpanic` (as in the hand-written `unaryWordsBE/LE`: the Rust loop would not terminate). -/
def loopN {ρ σ : Type} : Nat → σ → (σ → Res (Step ρ σ)) → Res ρ
  | 0, _, _ => .dpanic
  | k + 1, st, body =>
    Res.bind (body st) fun
      | .ret r => .ok r
      | .next st' => loopN k st' body

end Dsi
