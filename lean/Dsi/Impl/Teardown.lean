/-
  Teardown paths: `BufBitWriter::into_inner` and `impl Drop for BufBitWriter`
  (src/impls/buf_bit_writer.rs), `BufBitReader::into_inner` (src/impls/buf_bit_reader.rs),
  `CountBitWriter::into_inner` / `CountBitReader::into_inner` (src/utils/count.rs),
  `MemWordWriterSlice::into_inner` / `MemWordWriterVec::into_inner` (src/impls/mem_word_writer.rs),
  `MemWordReader::into_inner` (src/impls/mem_word_reader.rs).

  The session interpreter (lean/Dsi/Session.lean, ops `wdrop` / `winto`) uses `WImpl.dropW` /
  `WImpl.intoInnerW`; lean/Dsi/Props/TeardownGen.lean proves the definitions translated from the
  Rust bodies (lean/Dsi/Gen/TeardownBodies.lean) equal to the ones below.
  Model file: no import outside the project.
-/
import Dsi.Prog
import Dsi.Impl.BufWriter
import Dsi.Impl.BufReader
import Dsi.Impl.MemWord
import Dsi.Glue.Wrappers
namespace Dsi

/-! ### combinators the translated teardown bodies use -/

namespace Res
/-- `x.unwrap()` on a `Result`: an `Err` is a panic (in every build) -/
def unwrapR {α : Type} (x : Res α) : Res α :=
  match x with
  | .ok a => .ok a
  | .err _ => .panic
  | .panic => .panic
  | .dpanic => .dpanic

/-- `x?` inside a function that OWNS a value with a `Drop` impl (`self` by value, not yet
    `mem::forget`-ed): on `Err` the owned value is dropped before the error is returned, and a panic
    of that drop replaces the error.  The error outcomes of the model carry no state, so `dropped` is
    the drop run on the state BEFORE the failed call: for the model's backends a call that fails
    leaves the backend as it was (a full fixed slice stays full), and what a failed `flush` does
    change (the contents of the bit buffer) is not looked at by the second flush's control flow. -/
def tryDropping {α σ β : Type} (x : Res α) (dropped : Res σ) (k : α → Res β) : Res β :=
  match x with
  | .ok a => k a
  | .err e =>
    match dropped with
    | .ok _ => .err e
    | .err e' => .err e'
    | .panic => .panic
    | .dpanic => .dpanic
  | .panic => .panic
  | .dpanic => .dpanic
end Res

/-! ### writers, generically (any machine of a session: L3 model or L1 reference) -/

namespace WImpl
variable {ω : Type}

/-- `impl Drop for BufBitWriter`: flush and `unwrap()` the result — an error there is a panic.
    The value is the state the writer leaves behind (its backend is what a session dumps). -/
def dropW (wi : WImpl ω) (w : ω) : Res ω :=
  match wi.flush w with
  | .ok (_, w') => .ok w'
  | .err _ => .panic
  | .panic => .panic
  | .dpanic => .dpanic

/-- `BufBitWriter::into_inner`: flush and hand out the backend (here: the flushed state, whose
    backend is what a session dumps).  When that flush fails, `?` leaves the function and the writer
    is dropped on the way out: `Drop` flushes again and unwraps — a panic, since a flush that failed
    fails again. -/
def intoInnerW (wi : WImpl ω) (w : ω) : Res ω :=
  match wi.flush w with
  | .ok (_, w') => .ok w'
  | .err _ => .panic
  | .panic => .panic
  | .dpanic => .dpanic
end WImpl

/-! ### `BufBitWriter` -/

/-- the `backend: WW` field of a `BufBitWriter`: the words delivered so far and the capacity of a
    fixed backend (the model keeps both inside `BufW`) -/
structure WBackend (W : Nat) where
  out : List (BitVec W)
  cap : Option Nat

namespace BufW
variable {W : Nat}

def backend (s : BufW W) : WBackend W := { out := s.out, cap := s.cap }

/-- `impl Drop for BufBitWriter` -/
def dropW (e : Endian) (s : BufW W) : Res (BufW W) := (BufW.impl e).dropW s

/-- `BufBitWriter::into_inner` -/
def intoInner (e : Endian) (s : BufW W) : Res (WBackend W) := ((BufW.impl e).intoInnerW s).map backend
end BufW

/-! ### the teardowns that only take a field out -/

/-- `BufBitReader::into_inner`: `Ok(backend)` (the bits still in the buffer are lost) -/
def BufR.intoInner {W : Nat} (s : BufR W) : Res (MemR W) := .ok s.back

/-- `CountBitWriter::into_inner`: the wrapped writer (the counter is lost; nothing is flushed) -/
def CountW.intoInner {ω : Type} (s : CountW ω) : ω := s.inner

/-- `CountBitReader::into_inner` -/
def CountR.intoInner {ρ : Type} (s : CountR ρ) : ρ := s.inner

/-- `MemWordWriterSlice::into_inner` / `MemWordWriterVec::into_inner`: the slice / vector -/
def MemW.intoInner {W : Nat} (m : MemW W) : List (BitVec W) := m.data

/-- `MemWordReader::into_inner` -/
def MemR.intoInner {W : Nat} (m : MemR W) : List (BitVec W) := m.data

end Dsi
