/-
  `WordAdapter<W, B>` (src/impls/word_adapter.rs) over a `std::io::Read`/`Write` object whose
  behaviour is an explicit schedule of responses (everything the std::io contracts allow).
  `write_word` is `write_all`, `read_word` is `read_exact`; their retry loops are the std
  library's documented contract (trusted, recorded in the trusted base).
-/
import Dsi.Basic
namespace Dsi

/-- one response of the wrapped object to a `read`/`write` call -/
inductive IoResp where
  | accept (k : Nat)     -- transfer at most `k` bytes (`Ok(min k len)`); `accept 0` is `Ok(0)`
  | interrupted          -- `Err(ErrorKind::Interrupted)`
  | fail                 -- any other error
  deriving Repr, DecidableEq

/-- a sink: bytes received so far and the remaining schedule (afterwards everything is accepted) -/
structure Sink where
  bytes : List Nat := []
  sched : List IoResp := []

/-- `Write::write_all(buf)` against the schedule: retries on `Interrupted`, `Ok(0)` is
    `WriteZero`. `fuel` bounds the number of calls. -/
def Sink.writeAll : Nat → Sink → List Nat → Res Sink
  | 0, _, _ => .dpanic
  | fuel + 1, s, buf =>
    if buf.isEmpty then .ok s else
    match s.sched with
    | [] => .ok { s with bytes := s.bytes ++ buf }
    | .accept k :: rest =>
      if k = 0 then .err .writeZero
      else Sink.writeAll fuel { bytes := s.bytes ++ buf.take k, sched := rest } (buf.drop k)
    | .interrupted :: rest => Sink.writeAll fuel { s with sched := rest } buf
    | .fail :: _ => .err .io

/-- `WordAdapter::write_word` for a word given as its native bytes -/
def Sink.writeWord (s : Sink) (wordBytes : List Nat) : Res Sink :=
  Sink.writeAll (s.sched.length + wordBytes.length + 2) s wordBytes

/-- a source: the unread bytes and the remaining schedule (afterwards as much as asked) -/
structure Source where
  bytes : List Nat
  sched : List IoResp := []

/-- `Read::read_exact(buf of n bytes)`: retries on `Interrupted`, `Ok(0)` is `UnexpectedEof`. -/
def Source.readExact : Nat → Source → Nat → List Nat → Res (List Nat × Source)
  | 0, _, _, _ => .dpanic
  | fuel + 1, s, n, acc =>
    if n = 0 then .ok (acc, s) else
    if s.bytes.isEmpty then .err .eof else
    match s.sched with
    | [] => if s.bytes.length < n then .err .eof
            else .ok (acc ++ s.bytes.take n, { s with bytes := s.bytes.drop n })
    | .accept k :: rest =>
      if k = 0 then .err .eof
      else
        let m := min k n
        let got := s.bytes.take m
        Source.readExact fuel { bytes := s.bytes.drop m, sched := rest } (n - got.length) (acc ++ got)
    | .interrupted :: rest => Source.readExact fuel { s with sched := rest } n acc
    | .fail :: _ => .err .io

/-- `WordAdapter::read_word` for `nbytes`-byte words -/
def Source.readWord (s : Source) (nbytes : Nat) : Res (List Nat × Source) :=
  Source.readExact (s.sched.length + nbytes + 2) s nbytes []

end Dsi
