/-
  Bulk copy: the generic chunked default methods of `trait BitRead` / `trait BitWrite`
  (src/traits/bits.rs) and the specialised `copy_to` of `BufBitReader` / `copy_from` of
  `BufBitWriter`, modelled as written.
-/
import Dsi.Prog
import Dsi.Impl.BufReader
import Dsi.Impl.BufWriter
namespace Dsi

/-- `while n > 0 { let k = min(n, 64); write_bits(read_bits(k)?, k)?; n -= k }`
    (the default `copy_to` and `copy_from` are the same loop). -/
def copyGeneric {ρ ω} (ri : RImpl ρ) (wi : WImpl ω) : Nat → ρ → ω → Nat → Res (ρ × ω)
  | 0, r, w, n => if n = 0 then .ok (r, w) else .dpanic
  | fuel + 1, r, w, n =>
    if n = 0 then .ok (r, w) else
    let k := min n 64
    match ri.readBits r k with
    | .ok (v, r') =>
      match wi.writeBits w v k with
      | .ok (_, w') => copyGeneric ri wi fuel r' w' (n - k)
      | .err e => .err e
      | .panic => .panic
      | .dpanic => .dpanic
    | .err e => .err e
    | .panic => .panic
    | .dpanic => .dpanic

namespace BufR
variable {W : Nat}

/-- `while n > W { write_bits(read_word().upcast(), W); n -= W }` -/
def copyWords {ω} (wi : WImpl ω) : Nat → MemR W → ω → Nat → Res (MemR W × ω × Nat)
  | 0, back, w, n => .ok (back, w, n)
  | fuel + 1, back, w, n =>
    if n > W then
      match back.readWord with
      | .ok (word, back') =>
        match wi.writeBits w (word.setWidth 64).toNat W with
        | .ok (_, w') => copyWords wi fuel back' w' (n - W)
        | .err e => .err e
        | .panic => .panic
        | .dpanic => .dpanic
      | .err e => .err e
      | .panic => .panic
      | .dpanic => .dpanic
    else .ok (back, w, n)

/-- `BufBitReader::<BE>::copy_to` -/
def copyToBE {ω} (checks : Bool) (wi : WImpl ω) (s : BufR W) (w : ω) (n : Nat) : Res (BufR W × ω) :=
  let fromBuffer := min n s.bib
  let buffer := s.buffer.rotateLeft fromBuffer
  let v : BitVec 64 := buffer.setWidth 64
  let v := if checks && decide (n < 64) then v &&& (((1 : BitVec 64) <<< n) - 1) else v
  match wi.writeBits w v.toNat fromBuffer with
  | .ok (_, w1) =>
    let n := n - fromBuffer
    if n = 0 then .ok ({ s with buffer := buffer, bib := s.bib - fromBuffer }, w1)
    else
      match copyWords wi n s.back w1 n with
      | .ok (back, w2, n) =>
        match back.readWord with
        | .ok (word, back') =>
          let bib := W - n
          match wi.writeBits w2 ((word >>> bib).setWidth 64).toNat n with
          | .ok (_, w3) =>
            .ok ({ buffer := (word.setWidth (2 * W)).rotateRight (W - n), bib := bib, back := back' }, w3)
          | .err e => .err e
          | .panic => .panic
          | .dpanic => .dpanic
        | .err e => .err e
        | .panic => .panic
        | .dpanic => .dpanic
      | .err e => .err e
      | .panic => .panic
      | .dpanic => .dpanic
  | .err e => .err e
  | .panic => .panic
  | .dpanic => .dpanic

/-- `BufBitReader::<LE>::copy_to` -/
def copyToLE {ω} (checks : Bool) (wi : WImpl ω) (s : BufR W) (w : ω) (n : Nat) : Res (BufR W × ω) :=
  let fromBuffer := min n s.bib
  let v : BitVec 64 := s.buffer.setWidth 64
  let v := if checks && decide (n < 64) then v &&& (((1 : BitVec 64) <<< n) - 1) else v
  match wi.writeBits w v.toNat fromBuffer with
  | .ok (_, w1) =>
    let buffer := s.buffer >>> fromBuffer
    let n := n - fromBuffer
    if n = 0 then .ok ({ s with buffer := buffer, bib := s.bib - fromBuffer }, w1)
    else
      match copyWords wi n s.back w1 n with
      | .ok (back, w2, n) =>
        match back.readWord with
        | .ok (word, back') =>
          let bib := W - n
          let nw : BitVec 64 := word.setWidth 64
          let nw := if checks && decide (n < 64) then nw &&& (((1 : BitVec 64) <<< n) - 1) else nw
          match wi.writeBits w2 nw.toNat n with
          | .ok (_, w3) =>
            .ok ({ buffer := word.setWidth (2 * W) >>> n, bib := bib, back := back' }, w3)
          | .err e => .err e
          | .panic => .panic
          | .dpanic => .dpanic
        | .err e => .err e
        | .panic => .panic
        | .dpanic => .dpanic
      | .err e => .err e
      | .panic => .panic
      | .dpanic => .dpanic
  | .err e => .err e
  | .panic => .panic
  | .dpanic => .dpanic

def copyTo {ω} (e : Endian) (checks : Bool) (wi : WImpl ω) (s : BufR W) (w : ω) (n : Nat) :
    Res (BufR W × ω) :=
  match e with
  | .be => copyToBE checks wi s w n
  | .le => copyToLE checks wi s w n
end BufR

namespace BufW
variable {W : Nat}

/-- `for _ in 0..k { write_word(read_bits(W)?.cast()) }` -/
def copyWordsFrom {ρ} (ri : RImpl ρ) : Nat → ρ → BufW W → Res (ρ × BufW W)
  | 0, r, s => .ok (r, s)
  | k + 1, r, s =>
    match ri.readBits r W with
    | .ok (v, r') =>
      match s.emit (BitVec.ofNat W v) with
      | .ok s' => copyWordsFrom ri k r' s'
      | .err e => .err e
      | .panic => .panic
      | .dpanic => .dpanic
    | .err e => .err e
    | .panic => .panic
    | .dpanic => .dpanic

/-- place a freshly read field of `n` bits into the buffer (BE: low end; LE: rotated to the top) -/
def placed (e : Endian) (v : Nat) (n : Nat) : BitVec W :=
  match e with
  | .be => BitVec.ofNat W v
  | .le => (BitVec.ofNat W v).rotateRight n

/-- `BufBitWriter::copy_from` (both endiannesses share the shape; the LE one rotates). -/
def copyFrom {ρ} (e : Endian) (ri : RImpl ρ) (s : BufW W) (r : ρ) (n : Nat) : Res (ρ × BufW W) :=
  if n < s.space then
    match ri.readBits r n with
    | .ok (v, r') =>
      .ok (r', { s with buffer := shiftIn e s.buffer n ||| placed e v n, space := s.space - n })
    | .err er => .err er
    | .panic => .panic
    | .dpanic => .dpanic
  else
    match ri.readBits r s.space with
    | .ok (v, r1) =>
      let buffer := shiftIn e (shiftIn e s.buffer (s.space - 1)) 1 ||| placed e v s.space
      let n := n - s.space
      match s.emit buffer with
      | .ok s1 =>
        match copyWordsFrom ri (n / W) r1 { s1 with buffer := buffer } with
        | .ok (r2, s2) =>
          let n := n % W
          match ri.readBits r2 n with
          | .ok (v, r3) => .ok (r3, { s2 with buffer := placed e v n, space := W - n })
          | .err er => .err er
          | .panic => .panic
          | .dpanic => .dpanic
        | .err er => .err er
        | .panic => .panic
        | .dpanic => .dpanic
      | .err er => .err er
      | .panic => .panic
      | .dpanic => .dpanic
    | .err er => .err er
    | .panic => .panic
    | .dpanic => .dpanic
end BufW

end Dsi
