/-
  Bulk copy: the generic chunked default methods of `trait BitRead` / `trait BitWrite`
  (src/traits/bits.rs) and the specialised `copy_to` of `BufBitReader` / `copy_from` of
  `BufBitWriter`, modelled as written.
-/
import Dsi.Prog
import Dsi.Impl.BufReader
import Dsi.Impl.BufWriter
namespace Dsi

/-- `while n > 0 { let k = min(n, 64); write_bits(read_bits(k)?, k)?; n -= k }`
    (the default `copy_to` and `copy_from` are the same loop). -/
def copyGeneric {ρ ω} (ri : RImpl ρ) (wi : WImpl ω) : Nat → ρ → ω → Nat → Res (ρ × ω)
  | 0, r, w, n => if n = 0 then .ok (r, w) else .dpanic
  | fuel + 1, r, w, n =>
    if n = 0 then .ok (r, w) else
    let k := min n 64
    match ri.readBits r k with
    | .ok (v, r') =>
      match wi.writeBits w v k with
      | .ok (_, w') => copyGeneric ri wi fuel r' w' (n - k)
      | .err e => .err e
      | .panic => .panic
      | .dpanic => .dpanic
    | .err e => .err e
    | .panic => .panic
    | .dpanic => .dpanic

namespace BufR
variable {W : Nat}

/-- `while n > W { write_bits(read_word().upcast(), W); n -= W }` -/
def copyWords {ω} (wi : WImpl ω) : Nat → MemR W → ω → Nat → Res (MemR W × ω × Nat)
  | 0, back, w, n => .ok (back, w, n)
  | fuel + 1, back, w, n =>
    if n > W then
      match back.readWord with
      | .ok (word, back') =>
        match wi.writeBits w (word.setWidth 64).toNat W with
        | .ok (_, w') => copyWords wi fuel back' w' (n - W)
        | .err e => .err e
        | .panic => .panic
        | .dpanic => .dpanic
      | .err e => .err e
      | .panic => .panic
      | .dpanic => .dpanic
    else .ok (back, w, n)

/-- the buffered part: `while from_buffer > 0 { k = min(from_buffer, 64); write_bits(read_bits(k)?, k)? }`
    (`read_bits` takes its in-buffer path, the backend is not touched) -/
def copyBuffered {ω} (e : Endian) (wi : WImpl ω) : Nat → BufR W → ω → Nat → Res (BufR W × ω)
  | 0, s, w, fb => if fb = 0 then .ok (s, w) else .dpanic
  | fuel + 1, s, w, fb =>
    if fb = 0 then .ok (s, w) else
    let k := min fb 64
    match (BufR.impl e).readBits s k with
    | .ok (v, s') =>
      match wi.writeBits w v k with
      | .ok (_, w') => copyBuffered e wi fuel s' w' (fb - k)
      | .err er => .err er
      | .panic => .panic
      | .dpanic => .dpanic
    | .err er => .err er
    | .panic => .panic
    | .dpanic => .dpanic

/-- `BufBitReader::copy_to` (BE and LE differ only in how the tail word is split). -/
def copyTo {ω} (e : Endian) (checks : Bool) (wi : WImpl ω) (s : BufR W) (w : ω) (n : Nat) :
    Res (BufR W × ω) :=
  let fromBuffer := min n s.bib
  let n := n - fromBuffer
  match copyBuffered e wi fromBuffer s w fromBuffer with
  | .ok (s1, w1) =>
    if n = 0 then .ok (s1, w1)
    else
      match copyWords wi n s1.back w1 n with
      | .ok (back, w2, n) =>
        match back.readWord with
        | .ok (word, back') =>
          let bib := W - n
          let tailBits : BitVec 64 := match e with
            | .be => (word >>> bib).setWidth 64
            | .le =>
              let nw : BitVec 64 := word.setWidth 64
              if checks && decide (n < 64) then nw &&& (((1 : BitVec 64) <<< n) - 1) else nw
          match wi.writeBits w2 tailBits.toNat n with
          | .ok (_, w3) =>
            let buffer : BitVec (2 * W) := match e with
              | .be => (word.setWidth (2 * W) <<< (2 * W - bib - 1)) <<< 1
              | .le => word.setWidth (2 * W) >>> n
            .ok ({ buffer := buffer, bib := bib, back := back' }, w3)
          | .err er => .err er
          | .panic => .panic
          | .dpanic => .dpanic
        | .err er => .err er
        | .panic => .panic
        | .dpanic => .dpanic
      | .err er => .err er
      | .panic => .panic
      | .dpanic => .dpanic
  | .err er => .err er
  | .panic => .panic
  | .dpanic => .dpanic
end BufR

namespace BufW
variable {W : Nat}

/-- `for _ in 0..k { write_word(read_bits(W)?.cast()) }` -/
def copyWordsFrom {ρ} (ri : RImpl ρ) : Nat → ρ → BufW W → Res (ρ × BufW W)
  | 0, r, s => .ok (r, s)
  | k + 1, r, s =>
    match ri.readBits r W with
    | .ok (v, r') =>
      match s.emit (BitVec.ofNat W v) with
      | .ok s' => copyWordsFrom ri k r' s'
      | .err e => .err e
      | .panic => .panic
      | .dpanic => .dpanic
    | .err e => .err e
    | .panic => .panic
    | .dpanic => .dpanic

/-- place a freshly read field of `n` bits into the buffer (BE: low end; LE: rotated to the top) -/
def placed (e : Endian) (v : Nat) (n : Nat) : BitVec W :=
  match e with
  | .be => BitVec.ofNat W v
  | .le => (BitVec.ofNat W v).rotateRight n

/-- `BufBitWriter::copy_from` (both endiannesses share the shape; the LE one rotates). -/
def copyFrom {ρ} (e : Endian) (ri : RImpl ρ) (s : BufW W) (r : ρ) (n : Nat) : Res (ρ × BufW W) :=
  if W > 64 then copyGeneric ri (BufW.impl e) (n / 64 + 2) r s n     -- words wider than `read_bits` can return
  else if n < s.space then
    match ri.readBits r n with
    | .ok (v, r') =>
      .ok (r', { s with buffer := shiftIn e s.buffer n ||| placed e v n, space := s.space - n })
    | .err er => .err er
    | .panic => .panic
    | .dpanic => .dpanic
  else
    match ri.readBits r s.space with
    | .ok (v, r1) =>
      let buffer := shiftIn e (shiftIn e s.buffer (s.space - 1)) 1 ||| placed e v s.space
      let n := n - s.space
      match s.emit buffer with
      | .ok s1 =>
        match copyWordsFrom ri (n / W) r1 { s1 with buffer := buffer } with
        | .ok (r2, s2) =>
          let n := n % W
          match ri.readBits r2 n with
          | .ok (v, r3) => .ok (r3, { s2 with buffer := placed e v n, space := W - n })
          | .err er => .err er
          | .panic => .panic
          | .dpanic => .dpanic
        | .err er => .err er
        | .panic => .panic
        | .dpanic => .dpanic
      | .err er => .err er
      | .panic => .panic
      | .dpanic => .dpanic
    | .err er => .err er
    | .panic => .panic
    | .dpanic => .dpanic
end BufW

end Dsi
