/-
  Hand-written prelude of the generated bodies that work on slices / vectors and byte slices
  (lean/Dsi/Gen/MemWordBodies.lean, IOBodies.lean, emitted by tools/translate_mem.py, translate_io.py):
  the few `core` / `alloc` operations the translators map Rust calls to.  Slices and vectors are
  lists; out-of-bounds indexing panics (in every build).
-/
import Dsi.Basic
namespace Dsi

/-- `opt.ok_or(err)?` -/
def optOkOr {α : Type} (o : Option α) (e : Err) : Res α :=
  match o with
  | some x => .ok x
  | none => .err e

/-- `v[i] = x` (`IndexMut`): panics when `i` is out of bounds -/
def idxSet {α : Type} (l : List α) (i : Nat) (x : α) : Res (List α) :=
  if i < l.length then .ok (l.set i x) else .panic

/-- `Vec::resize(n, z)`: truncates to `n` elements or extends with copies of `z` -/
def vecResize {α : Type} (l : List α) (n : Nat) (z : α) : List α :=
  l.take n ++ List.replicate (n - l.length) z

/-- `for x in iter { body }` over the tuple `st` of the variables the body assigns; a `?` inside the
    body leaves the loop (and the function) with that outcome -/
def forEachN {α σ : Type} : List α → σ → (α → σ → Res σ) → Res σ
  | [], st, _ => .ok st
  | x :: xs, st, body => Res.bind (body x st) fun st' => forEachN xs st' body

/-- `for` over the windows `i = start, start + 1, .., start + count - 1` of a `chunks_exact_mut`
    iterator: the body gets the index of the window -/
def forRange {σ : Type} : Nat → Nat → σ → (Nat → σ → Res σ) → Res σ
  | _, 0, st, _ => .ok st
  | i, k + 1, st, body => Res.bind (body i st) fun st' => forRange (i + 1) k st' body

/-- `slice.try_into::<[u8; n]>().unwrap()`: panics unless the slice has exactly `n` elements -/
def arrOf (n : Nat) (l : List Nat) : Res (List Nat) :=
  if l.length = n then .ok l else .panic

/-- `x[lo..hi]` (`Index<Range>`): panics unless `lo ≤ hi ≤ x.len()` -/
def sliceRange (l : List Nat) (lo hi : Nat) : Res (List Nat) :=
  if lo ≤ hi ∧ hi ≤ l.length then .ok ((l.take hi).drop lo) else .panic

/-- `window.copy_from_slice(src)` where `window` is the sub-slice `buf[off .. off + n]` of the
    buffer: panics unless the lengths agree; otherwise the window is overwritten -/
def sliceCopy (buf : List Nat) (off n : Nat) (src : List Nat) : Res (List Nat) :=
  if src.length = n then .ok (buf.take off ++ src ++ buf.drop (off + n)) else .panic

end Dsi
