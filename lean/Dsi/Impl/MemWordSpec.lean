/-
  The one-line specification of the four in-memory word streams: an array plus a cursor (C13).
  Independent of `Dsi.Impl.MemWord` (which mirrors the Rust); words are plain numbers here.
-/
import Dsi.Basic
namespace Dsi

inductive MemKind where
  | readerZeroExt | readerStrict | writerSlice | writerVec
  deriving DecidableEq, Repr

structure ArrCur where
  kind : MemKind
  arr  : List Nat
  cur  : Nat := 0
  deriving Repr

namespace ArrCur
/-- the word under the cursor -/
def under (a : ArrCur) : Option Nat := a.arr[a.cur]?

/-- reads return the word under the cursor and advance; beyond the end the zero-extended reader
    yields 0 (and advances), every other kind reports an error without moving -/
def read (a : ArrCur) : Res (Nat × ArrCur) :=
  match a.under with
  | some w => .ok (w, { a with cur := a.cur + 1 })
  | none =>
    match a.kind with
    | .readerZeroExt => .ok (0, { a with cur := a.cur + 1 })
    | _ => .err .eof

/-- writes store at the cursor and advance; a vector grows with zero fill, a slice reports an
    error beyond the end without moving -/
def write (a : ArrCur) (w : Nat) : Res ArrCur :=
  if a.cur < a.arr.length then .ok { a with arr := a.arr.set a.cur w, cur := a.cur + 1 }
  else
    match a.kind with
    | .writerVec => .ok { a with arr := a.arr ++ List.replicate (a.cur - a.arr.length) 0 ++ [w], cur := a.cur + 1 }
    | _ => .err .eof

/-- a rejected set-position leaves the position unchanged; only the zero-extended reader accepts
    positions beyond the end -/
def seek (a : ArrCur) (p : Nat) : Res ArrCur :=
  match a.kind with
  | .readerZeroExt => .ok { a with cur := p }
  | _ => if p ≤ a.arr.length then .ok { a with cur := p } else .err .eof
end ArrCur

end Dsi
