/-
  Hand-written prelude of the generated method bodies of `utils/stats.rs`
  (lean/Dsi/Gen/StatsBodies.lean, emitted by tools/translate_statsbodies.py): the iterator loops the
  bodies use, the mutex primitive of `CodesStatsWrapper` and the fold of `Sum::sum`.
  Arrays `[u64; N]` are lists; references are the values they point to.
-/
import Dsi.Basic
namespace Dsi

/-- `for (i, x) in xs.iter().enumerate() { body }`, started at index `i`, over the tuple `st` of the
    variables the body assigns; a panic inside the body leaves the loop (and the function). -/
def forEnumFrom {σ : Type} : Nat → List Nat → σ → (Nat → Nat → σ → Res σ) → Res σ
  | _, [], st, _ => .ok st
  | i, x :: xs, st, body => Res.bind (body i x st) fun st' => forEnumFrom (i + 1) xs st' body

/-- `for (i, x) in xs.iter().enumerate() { body }` -/
def forEnum {σ : Type} (xs : List Nat) (st : σ) (body : Nat → Nat → σ → Res σ) : Res σ :=
  forEnumFrom 0 xs st body

/-- `for (i, x) in xs.iter_mut().enumerate() { body }`, started at index `i`: the body returns the
    new value of `*x` and of the variables it assigns; the result is the new array and variables. -/
def forEnumMutFrom {σ : Type} : Nat → List Nat → σ → (Nat → Nat → σ → Res (Nat × σ)) → Res (List Nat × σ)
  | _, [], st, _ => .ok ([], st)
  | i, x :: xs, st, body =>
    Res.bind (body i x st) fun r =>
    Res.bind (forEnumMutFrom (i + 1) xs r.2 body) fun rs => .ok (r.1 :: rs.1, rs.2)

/-- `for (i, x) in xs.iter_mut().enumerate() { body }` -/
def forEnumMut {σ : Type} (xs : List Nat) (st : σ) (body : Nat → Nat → σ → Res (Nat × σ)) :
    Res (List Nat × σ) :=
  forEnumMutFrom 0 xs st body

/-- `for (a, b) in xs.iter_mut().zip(ys.iter()) { body }`: the body returns the new value of `*a` and
    of the variables it assigns.  `zip` stops at the shorter side: the elements of `xs` beyond the
    length of `ys` are not visited (they keep their values). -/
def forZipMut {σ : Type} : List Nat → List Nat → σ → (Nat → Nat → σ → Res (Nat × σ)) → Res (List Nat × σ)
  | x :: xs, y :: ys, st, body =>
    Res.bind (body x y st) fun r =>
    Res.bind (forZipMut xs ys r.2 body) fun rs => .ok (r.1 :: rs.1, rs.2)
  | xs, _, st, _ => .ok (xs, st)

/-- `iter.fold(init, |acc, x| body)` over the items the iterator yields -/
def iterFold {α β : Type} : List α → β → (β → α → Res β) → Res β
  | [], acc, _ => .ok acc
  | x :: xs, acc, body => Res.bind (body acc x) fun acc' => iterFold xs acc' body

/-- `x.is_power_of_two()` -/
def isPow2 (x : Nat) : Bool := x != 0 && x &&& (x - 1) == 0

/-- a `std::sync::Mutex<α>` as the sequential code sees it: the protected value and the poison flag
    (set when a thread panicked while holding the lock).  Contention is not state: `lock()` waits. -/
structure Mutex (α : Type) where
  val : α
  poisoned : Bool
  deriving Repr

namespace Mutex
/-- `Mutex::new(v)` -/
def new {α : Type} (v : α) : Mutex α := { val := v, poisoned := false }
/-- `m.lock().unwrap()`: exclusive access to the protected value, once the lock is free; `lock()`
    returns `Err` exactly when the mutex is poisoned, and `unwrap` then panics (in every build).
    (`try_lock()` is a different operation: it also fails when another thread holds the lock.) -/
def lockUnwrap {α : Type} (m : Mutex α) : Res α := if m.poisoned then .panic else .ok m.val
/-- dropping the guard obtained from `m`: the protected value is what the guard's holder left -/
def release {α : Type} (m : Mutex α) (v : α) : Mutex α := { m with val := v }
/-- `m.into_inner().unwrap()` -/
def intoInnerUnwrap {α : Type} (m : Mutex α) : Res α := if m.poisoned then .panic else .ok m.val
end Mutex

end Dsi
