/-
  L3 — in-memory word streams (src/impls/mem_word_reader.rs, mem_word_writer.rs):
  an array plus a cursor.  Words are logical values (`BitVec W`).
-/
import Dsi.Basic
namespace Dsi

/-- `MemWordReader` (zero-extended, `strict = false`) and `MemWordReaderStrict`. -/
structure MemR (W : Nat) where
  data   : List (BitVec W)
  pos    : Nat := 0
  strict : Bool := false

namespace MemR
variable {W : Nat}

def readWord (m : MemR W) : Res (BitVec W × MemR W) :=
  match m.data[m.pos]? with
  | some w => .ok (w, { m with pos := m.pos + 1 })
  | none =>
    if m.strict then .err .eof
    else .ok (0, { m with pos := m.pos + 1 })

def wordPos (m : MemR W) : Nat := m.pos

/-- `set_word_pos`: the strict reader rejects (position unchanged, `UnexpectedEof`) a position
    beyond the end; the zero-extended reader accepts any position. -/
def setWordPos (m : MemR W) (p : Nat) : Res (MemR W) :=
  if m.strict && decide (p > m.data.length) then .err .eof else .ok { m with pos := p }

def len (m : MemR W) : Nat := m.data.length
end MemR

/-- `MemWordWriterSlice` (`growable = false`) and `MemWordWriterVec`. -/
structure MemW (W : Nat) where
  data     : List (BitVec W)
  pos      : Nat := 0
  growable : Bool := true

namespace MemW
variable {W : Nat}

def writeWord (m : MemW W) (w : BitVec W) : Res (MemW W) :=
  if m.pos < m.data.length then .ok { m with data := m.data.set m.pos w, pos := m.pos + 1 }
  else if m.growable then
    -- `if pos >= len { resize(pos + 1, 0) }` then store
    .ok { m with data := m.data ++ List.replicate (m.pos - m.data.length) 0 ++ [w], pos := m.pos + 1 }
  else .err .eof

def readWord (m : MemW W) : Res (BitVec W × MemW W) :=
  match m.data[m.pos]? with
  | some w => .ok (w, { m with pos := m.pos + 1 })
  | none => .err .eof

def wordPos (m : MemW W) : Nat := m.pos

def setWordPos (m : MemW W) (p : Nat) : Res (MemW W) :=
  if p > m.data.length then .err .eof else .ok { m with pos := p }

def len (m : MemW W) : Nat := m.data.length
end MemW

end Dsi
