/-
  Hand-written prelude of lean/Dsi/Gen/VByteIOBodies.lean (emitted by tools/translate_vbyteio.py):
  programs over `std::io::Read` / `std::io::Write`, and their meaning on byte lists.

  The byte sink is a `Vec`/`Cursor`-like writer that accepts everything (`write_all` appends and
  cannot fail); the byte source is a list, and `read_exact` of `n` bytes fails with
  `UnexpectedEof` when fewer than `n` bytes are left (this is the model of Dsi/VByteIO.lean).
-/
import Dsi.Basic
namespace Dsi

inductive BProg (α : Type) where
  | ret : α → BProg α
  | dpanic : BProg α
  /-- `r.read_exact(&mut buf)?` with `buf.len() = n`: continues with the new contents of `buf` -/
  | readExact : Nat → (List Nat → BProg α) → BProg α
  /-- `w.write_all(bytes)?` -/
  | writeAll : List Nat → BProg α → BProg α

namespace BProg
def bind {α β} : BProg α → (α → BProg β) → BProg β
  | ret a, f => f a
  | dpanic, _ => dpanic
  | readExact n k, f => readExact n fun buf => (k buf).bind f
  | writeAll bs k, f => writeAll bs (k.bind f)

/-- run on the unread input `inp` and the output written so far `out` -/
def run {α} : BProg α → List Nat → List Nat → Res (α × List Nat × List Nat)
  | ret a, inp, out => .ok (a, inp, out)
  | dpanic, _, _ => .dpanic
  | readExact n k, inp, out =>
    if inp.length < n then .err .eof else run (k (inp.take n)) (inp.drop n) out
  | writeAll bs k, inp, out => run k inp (out ++ bs)
end BProg

end Dsi
