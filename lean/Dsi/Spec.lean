/-
  L0 — codewords as *published*: an independent transcription of the definitions in the module
  documentation of src/codes/*.rs (and the table in src/codes/mod.rs), in stream order.
  Nothing here refers to the implementation model (`Dsi.Codes`).

  Conventions documented by the library for little-endian streams: fixed-width fields are written
  least-significant-bit first; a minimal-binary codeword is its prefix field followed by the
  extra bit; every ω block is rotated left by one so that its most significant bit comes first.
-/
import Dsi.Basic
namespace Dsi.Spec
open Dsi

def unary (n : Nat) : List Bool := unaryBits n

/-- γ(n): ⌊log₂(n+1)⌋ in unary, then n+1 without its most significant bit. -/
def gamma (e : Endian) (n : Nat) : List Bool :=
  unary (n + 1).log2 ++ fieldBits e (n + 1) (n + 1).log2

/-- δ(n): like γ with the length written in γ. -/
def delta (e : Endian) (n : Nat) : List Bool :=
  gamma e (n + 1).log2 ++ fieldBits e (n + 1) (n + 1).log2

/-- Minimal binary code of `x < u` (documented with `s = ⌈log₂ u⌉`: if `x < 2^s − u` then `x` in
    `s−1` bits, otherwise `x − u + 2^s` in `s` bits).  Stated here with `l = ⌊log₂ u⌋`, which is the
    same code (for `u` a power of two `2^{l+1} − u = u`, so every `x` takes the first branch and is
    written in `l = s` bits; otherwise `l = s − 1`) and makes the documented little-endian layout
    explicit: the decoder reads `l` bits and then decides whether to read one more, so a long
    codeword is its `l`-bit prefix followed by the last bit. -/
def minimalBinary (e : Endian) (x u : Nat) : List Bool :=
  let l := u.log2
  if x < 2 ^ (l + 1) - u then fieldBits e x l
  else
    let y := x + 2 ^ (l + 1) - u
    fieldBits e (y / 2) l ++ [y % 2 == 1]

/-- ζ_k(n): h = ⌊⌊log₂(n+1)⌋/k⌋ in unary, then the minimal binary code of n+1−2^{hk} with
    upper bound 2^{(h+1)k} − 2^{hk}. -/
def zeta (e : Endian) (k n : Nat) : List Bool :=
  let h := (n + 1).log2 / k
  unary h ++ minimalBinary e (n + 1 - 2 ^ (h * k)) (2 ^ ((h + 1) * k) - 2 ^ (h * k))

/-- ζ_k as written when 2^{(h+1)k} does not fit in 64 bits (outside the range C04 claims): the
    upper bound handed to the minimal binary code wraps to 2^64 − 2^{hk}. Equal to `zeta` whenever
    (h+1)k ≤ 64. -/
def zetaWrapped (e : Endian) (k n : Nat) : List Bool :=
  let h := (n + 1).log2 / k
  let hi := if (h + 1) * k ≤ 64 then 2 ^ ((h + 1) * k) else 2 ^ 64
  unary h ++ minimalBinary e (n + 1 - 2 ^ (h * k)) (hi - 2 ^ (h * k))

/-- one ω block holding `m ≥ 2` (λ+1 bits, starting with a one) -/
def omegaBlock (e : Endian) (m : Nat) : List Bool :=
  match e with
  | .be => fieldBits .be m (m.log2 + 1)
  | .le => true :: fieldBits .le m m.log2      -- rotated left by one: msb first, then lsb-first

/-- blocks b₀ … bₙ for m = n+1: each block's value plus one is the length of the next -/
def omegaBlocks (e : Endian) : Nat → Nat → List Bool
  | 0, _ => []
  | fuel + 1, m => if m ≤ 1 then [] else omegaBlocks e fuel m.log2 ++ omegaBlock e m

/-- ω(n): the blocks for n+1 followed by the terminator `0`. -/
def omega (e : Endian) (n : Nat) : List Bool := omegaBlocks e 8 (n + 1) ++ [false]

/-- Rice_k(n): ⌊n/2^k⌋ in unary, then the k low bits. -/
def rice (e : Endian) (k n : Nat) : List Bool := unary (n / 2 ^ k) ++ fieldBits e n k

/-- Golomb_b(n): ⌊n/b⌋ in unary, then the minimal binary code of n mod b with bound b. -/
def golomb (e : Endian) (b n : Nat) : List Bool := unary (n / b) ++ minimalBinary e (n % b) b

/-- π_k(n): Rice_k(⌊log₂(n+1)⌋), then n+1 without its most significant bit. -/
def pi (e : Endian) (k n : Nat) : List Bool :=
  rice e k (n + 1).log2 ++ fieldBits e (n + 1) (n + 1).log2

/-- exp-Golomb_k(n): γ(⌊n/2^k⌋), then the k low bits. -/
def expGolomb (e : Endian) (k n : Nat) : List Bool := gamma e (n / 2 ^ k) ++ fieldBits e n k

/-- first value representable with `k+1` bytes: 2^7 + 2^14 + … + 2^{7k} -/
def vbyteOffset : Nat → Nat
  | 0 => 0
  | k + 1 => vbyteOffset k + 2 ^ (7 * (k + 1))

/-- number of bytes of the complete code: the k with offset(k−1) ≤ v < offset(k) -/
def vbyteLen (v : Nat) : Nat :=
  ((List.range 11).find? fun k => v < vbyteOffset (k + 1)).getD 10 + 1

/-- complete VByte: v − offset(len−1) in `len` groups of 7 bits, continuation bit set on all but
    the last byte; big-endian variant has the most significant group first. -/
def vbyteBytes (big : Bool) (v : Nat) : List Nat :=
  let k := vbyteLen v
  let r := v - vbyteOffset (k - 1)
  let groups := (List.range k).map fun i => (r / 128 ^ i) % 128      -- least significant first
  let ordered := if big then groups.reverse else groups
  (List.range k).map fun i => ordered.getD i 0 + (if i + 1 < k then 128 else 0)

def vbyte (e : Endian) (big : Bool) (v : Nat) : List Bool :=
  (vbyteBytes big v).flatMap fun b => fieldBits e b 8

/-- the codeword of a code by name (the names of the line protocol) -/
def codeword (e : Endian) (code : String) (p v : Nat) : Option (List Bool) :=
  match code with
  | "unary" => some (unary v)
  | "gamma" => some (gamma e v)
  | "delta" => some (delta e v)
  | "zeta3" => some (zeta e 3 v)
  | "zeta" => some (zeta e p v)
  | "zetaw" => some (zetaWrapped e p v)
  | "zetaw3" => some (zetaWrapped e 3 v)
  | "omega" => some (omega e v)
  | "pi" => some (pi e p v)
  | "rice" => some (rice e p v)
  | "golomb" => some (golomb e p v)
  | "expg" => some (expGolomb e p v)
  | "minbin" => some (minimalBinary e v p)
  | "vbbe" => some (vbyte e true v)
  | "vble" => some (vbyte e false v)
  | _ => none

end Dsi.Spec
