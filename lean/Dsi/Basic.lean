/-
  L0 — basic vocabulary shared by every layer.
  Streams are `List Bool` in stream order.  No imports: the driver is a compiled `lean_exe`.
-/
namespace Dsi

inductive Endian where
  | be | le
  deriving DecidableEq, Repr, Inhabited

/-- Error kinds, canonicalised (the harness maps Rust errors to the same enum). -/
inductive Err where
  | eof | io | interrupted | writeZero | other
  deriving DecidableEq, Repr, Inhabited

/-- Outcome of an operation: a value, a returned error, a panic that happens in every build
    (`assert!`, `unwrap`, `ilog2(0)`, division by zero, the `checks` feature) or a panic that
    only a build with debug assertions / overflow checks raises (`dpanic`: the optimised build's
    behaviour at such a point is unspecified and no theorem or comparison relies on it).
    Panics are outcomes, never defaults. -/
inductive Res (α : Type) where
  | ok     : α → Res α
  | err    : Err → Res α
  | panic  : Res α
  | dpanic : Res α
  deriving Repr

namespace Res
@[inline] def bind {α β} (x : Res α) (f : α → Res β) : Res β :=
  match x with
  | ok a => f a
  | err e => err e
  | panic => panic
  | dpanic => dpanic
@[inline] def map {α β} (f : α → β) (x : Res α) : Res β :=
  match x with
  | ok a => ok (f a)
  | err e => err e
  | panic => panic
  | dpanic => dpanic
instance : Monad Res where
  pure := ok
  bind := bind
def isOk {α} : Res α → Bool
  | ok _ => true
  | _ => false
end Res

/-! ### Bit fields -/

/-- The `n` low bits of `v`, least significant first. -/
def fieldLE (v : Nat) : Nat → List Bool
  | 0 => []
  | n + 1 => (v % 2 == 1) :: fieldLE (v / 2) n

/-- The `n` low bits of `v` in stream order: most significant first for BE streams,
    least significant first for LE streams. -/
def fieldBits (e : Endian) (v n : Nat) : List Bool :=
  match e with
  | .le => fieldLE v n
  | .be => (fieldLE v n).reverse

/-- Value of a list of bits, least significant first. -/
def natLE : List Bool → Nat
  | [] => 0
  | b :: bs => (if b then 1 else 0) + 2 * natLE bs

/-- Value of a bit field in stream order (inverse of `fieldBits`). -/
def bitsVal (e : Endian) (bs : List Bool) : Nat :=
  match e with
  | .le => natLE bs
  | .be => natLE bs.reverse

/-- `x` zeros followed by a one. -/
def unaryBits (x : Nat) : List Bool := List.replicate x false ++ [true]

/-- First `n` bits of `l`, zero-extended when `l` is shorter. -/
def takeZ : Nat → List Bool → List Bool
  | 0, _ => []
  | n + 1, [] => false :: takeZ n []
  | n + 1, b :: bs => b :: takeZ n bs

/-! ### Canonical byte layout (C01): bit `i` of the stream lives in byte `i/8`,
    at bit `7 - i%8` (BE) or `i%8` (LE). -/

def byteOfBits (e : Endian) (bs : List Bool) : Nat := bitsVal e (takeZ 8 bs)

/-- Bytes of a bit list, zero padded to a byte boundary (`fuel` ≥ number of bytes). -/
def layoutAux (e : Endian) : Nat → List Bool → List Nat
  | 0, _ => []
  | fuel + 1, bs => if bs.isEmpty then [] else byteOfBits e bs :: layoutAux e fuel (bs.drop 8)

def layout (e : Endian) (bs : List Bool) : List Nat := layoutAux e bs.length bs

/-- The bits of a list of bytes in stream order. -/
def bitsOfBytes (e : Endian) (bytes : List Nat) : List Bool :=
  bytes.flatMap (fun b => fieldBits e b 8)

/-! ### u64 helpers used by the L2 programs (values are `Nat`; wrap-around explicit). -/

/-- `a.wrapping_sub(b)` on u64 (both `< 2^64`). -/
@[inline] def wsub64 (a b : Nat) : Nat := (a + 2 ^ 64 - b) % 2 ^ 64
/-- `a << k` on u64 with `k < 64` (high bits dropped). -/
@[inline] def shl64 (a k : Nat) : Nat := (a * 2 ^ k) % 2 ^ 64

end Dsi
