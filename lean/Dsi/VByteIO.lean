/-
  L2 — the byte-level VByte functions over `std::io::Read` / `std::io::Write`
  (`vbyte_write_be/le`, `vbyte_read_be/le`, src/codes/vbyte.rs), on byte lists.
  The writers produce exactly the bytes the bit-stream writers pass to `write_bits(_, 8)`
  (`vbyteBeBytes`, `vbyteLeBytes` in `Dsi.Codes`).
-/
import Dsi.Codes
namespace Dsi

/-- `vbyte_write_be`: the bytes and their count -/
def vbyteWriteBe (v : Nat) : List Nat × Nat := (vbyteBeBytes v, (vbyteBeBytes v).length)
/-- `vbyte_write_le` -/
def vbyteWriteLe (v : Nat) : List Nat × Nat := (vbyteLeBytes v, (vbyteLeBytes v).length)

/-- `vbyte_read_be`: `read_exact` one byte at a time; `value += 1` may overflow (debug panic) and
    `value << 7` silently drops high bits on over-long inputs. Returns the value and the unread
    bytes; `eof` when the input ends inside a codeword. -/
def vbyteReadBeLoop : Nat → Nat → Nat → List Nat → Res (Nat × List Nat)
  | 0, _, _, _ => .dpanic
  | fuel + 1, value, byte, rest =>
    if byte / 128 = 0 then .ok (value, rest) else
    if value + 1 ≥ 2 ^ 64 then .dpanic else
    match rest with
    | [] => .err .eof
    | b :: rest' => vbyteReadBeLoop fuel (shl64 (value + 1) 7 + b % 128) b rest'

def vbyteReadBe (bytes : List Nat) : Res (Nat × List Nat) :=
  match bytes with
  | [] => .err .eof
  | b :: rest => vbyteReadBeLoop (rest.length + 1) (b % 128) b rest

/-- `vbyte_read_le`: `result += (byte & 0x7F) << shift` (shift overflow and additive overflow
    panic in debug builds). -/
def vbyteReadLeLoop : Nat → Nat → Nat → List Nat → Res (Nat × List Nat)
  | 0, _, _, _ => .dpanic
  | fuel + 1, result, shift, bytes =>
    match bytes with
    | [] => .err .eof
    | b :: rest =>
      if shift ≥ 64 then .dpanic else
      let r := result + shl64 (b % 128) shift
      if r ≥ 2 ^ 64 then .dpanic else
      if b / 128 = 0 then .ok (r, rest)
      else if shift + 7 ≥ 64 ∨ r + 2 ^ (shift + 7) ≥ 2 ^ 64 then .dpanic
      else vbyteReadLeLoop fuel (r + 2 ^ (shift + 7)) (shift + 7) rest

def vbyteReadLe (bytes : List Nat) : Res (Nat × List Nat) := vbyteReadLeLoop (bytes.length + 1) 0 0 bytes

end Dsi
