/-
  Vocabulary shared by the generated description of `utils/stats.rs`
  (`Dsi.Gen.StatsOffsets`, data only) and the statistics model (`Dsi.Glue.Stats`).
  No imports: the driver is a compiled `lean_exe`.
-/
namespace Dsi

/-- the public total fields of `CodesStats` -/
inductive SField where
  | total | unary | gamma | delta | omega | vbyte      -- scalars
  | zeta | golomb | expGolomb | rice | pi              -- one total per tracked parameter
  deriving DecidableEq, Repr, Inhabited

/-- what a statement of `update_many` adds per observed value (times `count`) -/
inductive LenFn where
  | one            -- `count` itself
  | succ           -- `(n + 1)`
  | gamma          -- `len_gamma(n)`
  | delta          -- `len_delta(n)`
  | omega          -- `len_omega(n)`
  | vbyte          -- `bit_len_vbyte(n)`
  | zeta           -- `len_zeta(n, p)`
  | golomb         -- `len_golomb(n, p)`
  | expGolomb      -- `len_exp_golomb(n, p)`
  | rice           -- `len_rice(n, p)`
  | pi             -- `len_pi(n, p)`
  deriving DecidableEq, Repr, Inhabited

/-- the variants of `dispatch::Codes` -/
inductive CodeFam where
  | unary | gamma | delta | omega | vbyteLe | vbyteBe | zeta | pi | golomb | expGolomb | rice
  deriving DecidableEq, Repr, Inhabited

/-- a `Codes` value: parameterless variants carry parameter 0 -/
structure StatCodeId where
  fam : CodeFam
  param : Nat
  deriving DecidableEq, Repr, Inhabited

end Dsi
