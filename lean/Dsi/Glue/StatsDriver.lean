/-
  Line-protocol handlers for the families `ST` (C15), `FC`, `LEN`, `LEN1` (C20).
  Every answer is `<model> || <reference>`: the model follows the source (generated offsets,
  implemented length formulas/tables, the iterator's search), the reference is the documented
  behaviour (`Stats.exact`, `Stats.bestSpec`, published codeword lengths, least change points).
-/
import Dsi.Session
import Dsi.Glue.Stats
import Dsi.Glue.FindChange
namespace Dsi

/-! ### parsing / printing -/

def parseUpdates? (s : String) : Option (List (Nat × Nat)) :=
  if s = "-" then some [] else
  (s.splitOn ",").mapM fun item =>
    match item.splitOn ":" with
    | [v, c] => do let v ← num? v; let c ← num? c; pure (v, c)
    | [v] => do let v ← num? v; pure (v, 1)
    | _ => none

def parseNums? (s : String) : Option (List Nat) :=
  if s = "-" then some [] else (s.splitOn ",").mapM num?

def showNats (l : List Nat) : String := ",".intercalate (l.map toString)

def Stats.show (s : Stats) : String :=
  if !s.fits then "D" else
  "/".intercalate [showNats [s.total, s.unary, s.gamma, s.delta, s.omega, s.vbyte],
    showNats s.zeta, showNats s.golomb, showNats s.expGolomb, showNats s.rice, showNats s.pi]

def StatCodeId.show (c : StatCodeId) : String :=
  match c.fam with
  | .unary => "Unary" | .gamma => "Gamma" | .delta => "Delta" | .omega => "Omega"
  | .vbyteLe => "VByteLe" | .vbyteBe => "VByteBe"
  | .zeta => s!"Zeta({c.param})" | .pi => s!"Pi({c.param})" | .golomb => s!"Golomb({c.param})"
  | .expGolomb => s!"ExpGolomb({c.param})" | .rice => s!"Rice({c.param})"

def parseCode? (s : String) : Option StatCodeId :=
  match s.splitOn "(" with
  | [name] =>
    match name with
    | "Unary" => some ⟨.unary, 0⟩ | "Gamma" => some ⟨.gamma, 0⟩ | "Delta" => some ⟨.delta, 0⟩
    | "Omega" => some ⟨.omega, 0⟩ | "VByteLe" => some ⟨.vbyteLe, 0⟩ | "VByteBe" => some ⟨.vbyteBe, 0⟩
    | _ => none
  | [name, rest] =>
    match (rest.splitOn ")"), name with
    | [p, ""], "Zeta" => (num? p).map (⟨.zeta, ·⟩)
    | [p, ""], "Pi" => (num? p).map (⟨.pi, ·⟩)
    | [p, ""], "Golomb" => (num? p).map (⟨.golomb, ·⟩)
    | [p, ""], "ExpGolomb" => (num? p).map (⟨.expGolomb, ·⟩)
    | [p, ""], "Rice" => (num? p).map (⟨.rice, ·⟩)
    | _, _ => none
  | _ => none

/-- `CodeLen for Codes` -/
def StatCodeId.len (c : StatCodeId) (v : Nat) : Nat :=
  match c.fam with
  | .unary => v + 1
  | .gamma => lenGammaD v
  | .delta => lenDeltaD v
  | .omega => lenOmega v
  | .vbyteLe => bitLenVByte v
  | .vbyteBe => bitLenVByte v
  | .zeta => if c.param = 1 then lenGammaD v else lenZetaD v c.param
  | .pi => lenPi v c.param
  | .golomb => lenGolomb v c.param
  | .expGolomb => lenExpGolombD v c.param
  | .rice => lenRice v c.param

/-- the published codeword of a `Codes` value -/
def StatCodeId.specLen (c : StatCodeId) (v : Nat) : Nat :=
  let name := match c.fam with
    | .unary => "unary" | .gamma => "gamma" | .delta => "delta" | .omega => "omega"
    | .vbyteLe => "vble" | .vbyteBe => "vbbe" | .zeta => "zetaw" | .pi => "pi"
    | .golomb => "golomb" | .expGolomb => "expg" | .rice => "rice"
  ((Spec.codeword .be name c.param v).map List.length).getD 0

/-! ### ST -/

def iterN {α} (f : α → α) : Nat → α → α
  | 0, a => a
  | n + 1, a => iterN f n (f a)

/-- RPN evaluation of a merge shape; each stack entry carries the observations it stands for -/
def mergeEval (lists : List (List (Nat × Nat))) :
    List String → List (Stats × List (Nat × Nat)) → Option (Stats × List (Nat × Nat))
  | [], [x] => some x
  | [], _ => none
  | t :: ts, st =>
    if t = "a" ∨ t = "p" ∨ t = "e" then
      match st with
      | y :: x :: rest => mergeEval lists ts ((x.1.add y.1, x.2 ++ y.2) :: rest)
      | _ => none
    else if t.startsWith "s" then
      match num? (t.drop 1).toString with
      | some k =>
        if k ≤ st.length then
          let items := (st.take k).reverse
          mergeEval lists ts ((Stats.sum (items.map (·.1)), items.flatMap (·.2)) :: st.drop k)
        else none
      | none => none
    else
      match num? t with
      | some i =>
        match lists[i]? with
        | some us => mergeEval lists ts ((applyUpdates Stats.empty us, us) :: st)
        | none => none
      | none => none

def showBest (b : Option (StatCodeId × Nat)) (fits : Bool) : String :=
  if !fits then "D" else
  match b with
  | some (c, cost) => s!"{c.show} {cost}"
  | none => "none"

def handleST (args : List String) : String :=
  match args with
  | ["upd", ups] =>
    match parseUpdates? ups with
    | some us => (applyUpdates Stats.empty us).show ++ " || " ++ (Stats.exact us).show
    | none => "bad-request"
  | ["threads", _, ups] =>
    match parseUpdates? ups with
    | some us =>
      let s := us.foldl (fun s u => iterN (fun s => s.update u.1) u.2 s) Stats.empty
      s.show ++ " || " ++ (Stats.exact us).show
    | none => "bad-request"
  | ["merge", shape, lists] =>
    match (lists.splitOn "|").mapM parseUpdates? with
    | some ls =>
      match mergeEval ls (shape.splitOn ".") [] with
      | some (s, us) => s.show ++ " || " ++ (Stats.exact us).show
      | none => "bad-request"
    | none => "bad-request"
  | ["best", ups] =>
    match parseUpdates? ups with
    | some us =>
      let s := applyUpdates Stats.empty us
      showBest (some s.bestCode) s.fits ++ " || " ++ showBest (Stats.exact us).bestSpec (Stats.exact us).fits
    | none => "bad-request"
  | ["encode", wrap, ups] =>
    match parseCode? wrap, parseUpdates? ups with
    | some _, some us =>
      -- the wrapper observes every written value once per write
      let s := us.foldl (fun s u => iterN (fun s => s.update u.1) u.2 s) Stats.empty
      let b := s.bestCode
      let e := Stats.exact us
      let m := if !s.fits then "D" else
        s!"{b.1.show} {b.2} {(us.map fun u => u.2 * b.1.len u.1).sum}"
      let r := if !e.fits then "D" else
        match e.bestSpec with
        | some (c, cost) => s!"{c.show} {cost} {(us.map fun u => u.2 * c.specLen u.1).sum}"
        | none => "none"
      m ++ " || " ++ r
    | _, _ => "bad-request"
  | _ => "bad-request"

/-! ### length functions by protocol name -/

def U64 : Nat := 2 ^ 64

/-- outcome of `len_<code>[_param::<flags>](v[, p])` (for `minbin`: `len_minimal_binary(v, p)`) -/
def lenOutcome (code flags : String) (p v : Nat) : Option (Res Nat) :=
  let fl := flags.toList.map (· == '1')
  let succOvf : Bool := v + 1 ≥ U64
  match code, flags, fl with
  | "unary", _, _ => some (if succOvf then .dpanic else .ok (lenUnary v))
  | "gamma", "d", _ => some (if succOvf then .panic else .ok (lenGammaD v))
  | "gamma", _, [t] => some (if succOvf then .panic else .ok (lenGammaP t v))
  | "delta", "d", _ => some (if succOvf then .panic else .ok (lenDeltaD v))
  | "delta", _, [td, tg] => some (if succOvf then .panic else .ok (lenDeltaP td tg v))
  | "zeta", _, _ =>
    let r (f : Nat → Nat → Nat) : Res Nat :=
      if succOvf then .panic else if p = 0 then .panic else if p ≥ 64 then .dpanic else .ok (f v p)
    match flags, fl with
    | "d", _ => some (r lenZetaD)
    | _, [t] => some (r (lenZetaP t))
    | _, _ => none
  | "omega", _, _ => some (if succOvf then .dpanic else .ok (lenOmega v))
  | "pi", _, _ => some (if succOvf then .panic else if p ≥ 64 then .dpanic else .ok (lenPi v p))
  | "rice", _, _ =>
    some (if p ≥ 64 then .dpanic else if v / 2 ^ p + 1 + p ≥ U64 then .dpanic else .ok (lenRice v p))
  | "golomb", _, _ =>
    some (if p = 0 then .panic else if v / p + 1 ≥ U64 then .dpanic else .ok (lenGolomb v p))
  | "expg", _, _ =>
    some (if p ≥ 64 then .dpanic else if v / 2 ^ p + 1 ≥ U64 then .panic else .ok (lenExpGolombD v p))
  | "minbin", _, _ => some (.ok (lenMinimalBinary v p))
  | "vbyte", _, _ => some (.ok (bitLenVByte v))
  | "vbytes", _, _ => some (.ok (byteLenVByte v))
  | _, _, _ => none

/-- length of the published codeword -/
def specLen (code : String) (p v : Nat) : Option Nat :=
  match code with
  | "minbin" => if v < p then some (Spec.minimalBinary .be v p).length else none   -- domain: v < max
  | "vbyte" => some (Spec.vbyte .be true v).length
  | "vbytes" => some (Spec.vbyteLen v)
  | "zeta" => some (Spec.zetaWrapped .be p v).length
  | _ => (Spec.codeword .be code p v).map List.length

/-- lengths of the published codewords of the three codes with a unary part of unbounded length, in
    closed form (proved equal to `List.length` of the published codeword in `Props/C20.lean`:
    `specLenBig_sound`); used as the reference where the codeword is too long to build -/
def specLenBig (code : String) (p v : Nat) : Option Nat :=
  match code with
  | "unary" => some (v + 1)
  | "rice" => some (v / 2 ^ p + 1 + p)
  | "golomb" => if p = 0 then none else some (v / p + 1 + (Spec.minimalBinary .be (v % p) p).length)
  | _ => none

def showPairs (l : List (Nat × Nat)) : String := ",".intercalate (l.map fun (x, y) => s!"{x}:{y}")

/-- run-length encoding of `g start … g (start+count-1)`; stops at the first non-value outcome -/
def rle (g : Nat → Res Nat) : Nat → Nat → Option Nat → List (Nat × Nat) → Res (List (Nat × Nat))
  | 0, _, _, acc => .ok acc.reverse
  | fuel + 1, v, last, acc =>
    match g v with
    | .ok l => if last = some l then rle g fuel (v + 1) last acc else rle g fuel (v + 1) (some l) ((v, l) :: acc)
    | .err e => .err e
    | .panic => .panic
    | .dpanic => .dpanic

def handleLEN (args : List String) : String :=
  match args with
  | [code, flags, p, start, count] =>
    match num? p, num? start, num? count with
    | some p, some start, some count =>
      match lenOutcome code flags p 0 with
      | none => "bad-request"
      | some _ =>
        let g := fun v => (lenOutcome code flags p v).getD .panic
        let m := rle g count start none []
        let r := match m with
          | .ok _ => rle (fun v => match specLen code p v with | some l => .ok l | none => .err .other) count start none []
          | other => other
        let rs := match r with
          | .err _ => "-"          -- outside the domain of the published code: not compared
          | r => showRes showPairs r
        showRes showPairs m ++ " || " ++ rs
    | _, _, _ => "bad-request"
  | _ => "bad-request"

def handleLEN1 (args : List String) : String :=
  match args with
  | [code, flags, p, v] =>
    match num? p, num? v with
    | some p, some v =>
      match lenOutcome code flags p v with
      | none => "bad-request"
      | some (.ok l) =>
        let r := if l > 2 ^ 20 then
            (match specLenBig code p v with
             | some x => toString x
             | none => "-")
          else
          match specLen code p v with
          | some x => toString x
          | none => "-"
        toString l ++ " || " ++ r
      | some other => showRes (fun (_ : Nat) => "") other
    | _, _ => "bad-request"
  | _ => "bad-request"

/-! ### FC -/

/-- the library length function iterated by `FC lib` (in-domain arguments only) -/
def libLen (code : String) (p : Nat) : Option (Nat → Nat) :=
  match code with
  | "unary" => some lenUnary
  | "gamma" => some lenGammaD
  | "delta" => some lenDeltaD
  | "omega" => some lenOmega
  | "zeta" => if p = 0 ∨ p ≥ 64 then none else some (lenZetaD · p)
  | "pi" => if p ≥ 64 then none else some (lenPi · p)
  | "rice" => if p ≥ 64 then none else some (lenRice · p)
  | "golomb" => if p = 0 then none else some (lenGolomb · p)
  | "expg" => if p ≥ 64 then none else some (lenExpGolombD · p)
  | "minbin" => some (lenMinimalBinary · p)
  | "vbyte" => some bitLenVByte
  | _ => none

def showFC (r : List (Nat × Nat) × Bool) : String :=
  let items := r.1.map fun (x, y) => s!"{x}:{y}"
  ",".intercalate (items ++ (if r.2 then ["end"] else []))

def showFCRes : Res (List (Nat × Nat) × Bool) → String
  | .ok r => showFC r
  | .err _ => "HANG"
  | .panic => "P"
  | .dpanic => "D"

def handleFC (args : List String) : String :=
  match args with
  | ["lib", code, p, maxItems] =>
    match num? p, num? maxItems with
    | some p, some n =>
      match libLen code p with
      | some f => showFCRes (FC.changePoints f n) ++ " || " ++ showFC (FC.specChangePoints f n)
      | none => "bad-request"
    | _, _ => "bad-request"
  | ["steps", maxItems, ps] =>
    match num? maxItems, parseNums? ps with
    | some n, some ps =>
      let ps := (ps.toArray.qsort (· < ·)).toList
      let f := FC.stepFn ps
      showFCRes (FC.changePoints f n) ++ " || " ++ showFC (FC.specStepPoints ps n)
    | _, _ => "bad-request"
  | ["implied", code, p] =>
    match num? p with
    | some p =>
      match libLen code p with
      | some f =>
        let m := match FC.impliedChangePoints f with
          | .ok l => showPairs l
          | .err _ => "HANG"
          | .panic => "P"
          | .dpanic => "D"
        let r := showPairs ((FC.specChangePoints f 4096).1.takeWhile fun it => it.2 ≤ 128)
        (if m = "" then "-" else m) ++ " || " ++ (if r = "" then "-" else r)
      | none => "bad-request"
    | none => "bad-request"
  | _ => "bad-request"

end Dsi
