/-
  `check_tables` (src/traits/bits.rs) and the look-ahead capacities the reader constructors
  announce, against the capacity their `peek_bits` really guarantees.
-/
import Dsi.Gen.TablesGamma
import Dsi.Gen.TablesDelta
import Dsi.Gen.TablesZeta
namespace Dsi
open Gen

/-- names of the tables for which `check_tables(peek_bits)` prints its DANGER diagnostic -/
def checkTables (peekBits : Nat) : List String :=
  (if peekBits < Gamma.READ_BITS then ["gamma"] else []) ++
  (if peekBits < Delta.READ_BITS then ["delta"] else []) ++
  (if peekBits < Zeta.READ_BITS then ["zeta3"] else [])

/-- `BufBitReader::new` calls `check_tables(WR::Word::BITS)` -/
def bufReaderDiag (W : Nat) : List String := checkTables W
/-- `BitReader::new` calls `check_tables(32)` -/
def bitReaderDiag : List String := checkTables 32

/-- guaranteed look-ahead: a buffered reader with an empty buffer refills once (`W` bits); the
    unbuffered reader asserts `n ≤ 32` -/
def bufReaderCapacity (W : Nat) : Nat := W
def bitReaderCapacity : Nat := 32

end Dsi
