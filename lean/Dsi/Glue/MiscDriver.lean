/-
  Driver handlers for the small families: MW (in-memory word streams, C13), AD (byte-stream
  adapter, C11), Z (zig-zag, C17), VB (byte-level VByte, C18), TB (table diagnostics, C05).
  Answers are `<model> || <reference>`.
-/
import Dsi.Session
import Dsi.VByteIO
import Dsi.Impl.MemWordSpec
import Dsi.Impl.Adapter
import Dsi.Impl.AdapterSeek
import Dsi.Glue.ZigZag
import Dsi.Glue.CheckTables
namespace Dsi

def kvs (args : List String) (key : String) : Option String :=
  args.findSome? fun a =>
    match a.splitOn "=" with
    | [k, v] => if k == key then some v else none
    | _ => none

/-! ### MW -/

inductive MWState (W : Nat) where
  | r : MemR W → MWState W
  | w : MemW W → MWState W

def mwStep {W : Nat} (s : MWState W) (op : List String) : String × Option (MWState W) :=
  match s, op with
  | .r m, ["r"] =>
    match m.readWord with
    | .ok (v, m') => (toString v.toNat, some (.r m'))
    | x => (showRes (fun _ => "") x, some s)             -- a failed read leaves the cursor where it was
  | .w m, ["r"] =>
    match m.readWord with
    | .ok (v, m') => (toString v.toNat, some (.w m'))
    | x => (showRes (fun _ => "") x, some s)
  | .w m, ["w", v] =>
    match num? v with
    | some v =>
      match m.writeWord (BitVec.ofNat W v) with
      | .ok m' => ("ok", some (.w m'))
      | x => (showRes (fun _ => "") x, some (.w m))      -- a failed write leaves the stream usable
    | none => ("bad-op", none)
  | .r m, ["pos"] => (toString m.wordPos, some s)
  | .w m, ["pos"] => (toString m.wordPos, some s)
  | .r m, ["seek", p] =>
    match num? p with
    | some p =>
      match m.setWordPos p with
      | .ok m' => ("ok", some (.r m'))
      | x => (showRes (fun _ => "") x, some s)            -- rejected: position unchanged
    | none => ("bad-op", none)
  | .w m, ["seek", p] =>
    match num? p with
    | some p =>
      match m.setWordPos p with
      | .ok m' => ("ok", some (.w m'))
      | x => (showRes (fun _ => "") x, some s)
    | none => ("bad-op", none)
  | .w m, ["len"] => (toString m.len, some s)
  | .w m, ["dump"] => (",".intercalate (m.data.map fun x => toString x.toNat), some s)
  | .r m, ["dump"] => (",".intercalate (m.data.map fun x => toString x.toNat), some s)
  | _, _ => ("bad-op", none)

def mwSpecStep (a : ArrCur) (op : List String) : String × Option ArrCur :=
  match op with
  | ["r"] =>
    match a.read with
    | .ok (v, a') => (toString v, some a')
    | x => (showRes (fun _ => "") x, some a)
  | ["w", v] =>
    match num? v with
    | some v =>
      match a.write v with
      | .ok a' => ("ok", some a')
      | x => (showRes (fun _ => "") x, some a)
    | none => ("bad-op", none)
  | ["pos"] => (toString a.cur, some a)
  | ["seek", p] =>
    match num? p with
    | some p =>
      match a.seek p with
      | .ok a' => ("ok", some a')
      | x => (showRes (fun _ => "") x, some a)
    | none => ("bad-op", none)
  | ["len"] => (toString a.arr.length, some a)
  | ["dump"] => (",".intercalate (a.arr.map toString), some a)
  | _ => ("bad-op", none)

def runOpsD {σ} (step : σ → List String → String × Option σ) : σ → List (List String) → List String → List String
  | _, [], acc => acc.reverse
  | s, op :: ops, acc =>
    match step s op with
    | (o, some s') => runOpsD step s' ops (o :: acc)
    | (o, none) => (o :: acc).reverse

def handleMW (cfgs : List String) (ops : List (List String)) : String :=
  let W := ((kvs cfgs "w").bind num?).getD 64
  let kind := (kvs cfgs "kind").getD "rz"
  let kind := if kind == "rzb" then "rz" else if kind == "rsb" then "rs" else kind   -- borrowed storage
  let init := (((kvs cfgs "init").getD "-").splitOn ",").filterMap num?
  let mk : MWState W := match kind with
    | "rz" => .r { data := init.map (BitVec.ofNat W), strict := false }
    | "rs" => .r { data := init.map (BitVec.ofNat W), strict := true }
    | "ws" => .w { data := init.map (BitVec.ofNat W), growable := false }
    | _ => .w { data := init.map (BitVec.ofNat W), growable := true }
  let sk : MemKind := match kind with
    | "rz" => .readerZeroExt
    | "rs" => .readerStrict
    | "ws" => .writerSlice
    | _ => .writerVec
  -- the Rust strict reader has no write/len; the harness answers bad-op there as the model does
  let specStep (a : ArrCur) (op : List String) : String × Option ArrCur :=
    match a.kind, op with
    | .readerZeroExt, ["w", _] => ("bad-op", none)
    | .readerStrict, ["w", _] => ("bad-op", none)
    | .readerZeroExt, ["len"] => ("bad-op", none)
    | .readerStrict, ["len"] => ("bad-op", none)
    | _, ["w", v] => mwSpecStep a ["w", toString (((num? v).getD 0) % 2 ^ W)]   -- the argument is a W-bit word
    | _, _ => mwSpecStep a op
  let o3 := runOpsD mwStep mk ops []
  let o1 := runOpsD specStep { kind := sk, arr := init.map (· % 2 ^ W) } ops []
  ";".intercalate o3 ++ " || " ++ ";".intercalate o1

/-! ### AD -/

def parseSched (s : String) : List IoResp :=
  if s == "-" then [] else
  (s.splitOn ",").filterMap fun t =>
    match t.toList with
    | ['i'] => some .interrupted
    | ['f'] => some .fail
    | ['z'] => some (.accept 0)
    | 'a' :: rest => (String.ofList rest).toNat?.map .accept
    | _ => none

def adWrite (sched : List IoResp) (words : List (List Nat)) : String :=
  let rec go (s : Sink) (ws : List (List Nat)) (acc : List String) : List String × Sink :=
    match ws with
    | [] => (acc.reverse, s)
    | w :: rest =>
      match s.writeWord w with
      | .ok s' => go s' rest ("ok" :: acc)
      | x => ((showRes (fun _ => "") x :: acc).reverse, s)
  let (outs, s) := go { sched := sched } words []
  let failed := outs.any (· != "ok")
  -- after an error the sink content is unspecified by the contract: only report it on success
  ";".intercalate outs ++ (if failed then "" else "|sink=" ++ bytesHex s.bytes)

def adRead (sched : List IoResp) (data : List Nat) (nbytes count : Nat) : String :=
  let rec go (s : Source) (k : Nat) (acc : List String) : List String :=
    match k with
    | 0 => acc.reverse
    | k + 1 =>
      match s.readWord nbytes with
      | .ok (w, s') => go s' k (bytesHex w :: acc)
      | x => (showRes (fun _ => "") x :: acc).reverse
  ";".intercalate (go { bytes := data, sched := sched } count [])

/-- one `AD seek` operation over a cursor (`AdCursor`, lean/Dsi/Impl/AdapterSeek.lean): `rw` is
    `AdCursor.readWord`, `wp` is `AdCursor.wordPos`, `sp k` is `AdCursor.setWordPos`
    (lean/Dsi/Props/AdapterGen.lean: these are the translated bodies of src/impls/word_adapter.rs
    over the cursor's `read_exact` / `stream_position` / `seek`) -/
def adSeekStep (nbytes : Nat) (c : AdCursor) (op : List String) : String × Option AdCursor :=
  match op with
  | ["rw"] =>
    match c.readWord nbytes with
    | .ok (w, c') => (bytesHex w, some c')
    | .err e => (showRes (fun _ => "") (.err e : Res Unit), some c.afterFailedRead)
    | x => (showRes (fun _ => "") x, none)
  | ["wp"] => (toString (c.wordPos nbytes), some c)
  | ["sp", k] =>
    match num? k with
    | some k => ("ok", some (c.setWordPos nbytes k))
    | none => ("bad-op", none)
  | _ => ("bad-op", none)

def adVSeekStep (nbytes : Nat) (c : AdVirt) (op : List String) : String × Option AdVirt :=
  match op with
  | ["rw"] => let (w, c') := c.readWord nbytes; (bytesHex w, some c')
  | ["wp"] => (toString (c.wordPos nbytes), some c)
  | ["sp", k] =>
    match num? k with
    | some k => ("ok", some (c.setWordPos nbytes k))
    | none => ("bad-op", none)
  | _ => ("bad-op", none)

def handleAD (toks : List String) (body : String) : String :=
  match toks with
  | mode :: cfgs =>
    let W := ((kvs cfgs "w").bind num?).getD 64
    let nbytes := W / 8
    let sched := parseSched ((kvs cfgs "sched").getD "-")
    let data := ((kvs cfgs "data").bind hexBytes?).getD []
    match mode with
    | "write" =>
      let words := ((body.splitOn ";").map fun w => (hexBytes? w.trimAscii.toString).getD []).filter (!·.isEmpty)
      let a := adWrite sched words
      a ++ " || " ++ a
    | "read" =>
      let count := (num? body.trimAscii.toString).getD 0
      let a := adRead sched data nbytes count
      a ++ " || " ++ a
    | "seek" =>
      let ops := ((body.splitOn ";").map fun o => (o.trimAscii.toString.splitOn " ").filter (· ≠ "")).filter (· ≠ [])
      let a := ";".intercalate (runOpsD (adSeekStep nbytes) { data := data } ops [])
      a ++ " || " ++ a
    | "vseek" =>
      let ops := ((body.splitOn ";").map fun o => (o.trimAscii.toString.splitOn " ").filter (· ≠ "")).filter (· ≠ [])
      let a := ";".intercalate (runOpsD (adVSeekStep nbytes) {} ops [])
      a ++ " || " ++ a
    | _ => "bad-request"
  | _ => "bad-request"

/-! ### Z -/

def parseInt? (s : String) : Option Int :=
  match s.toList with
  | '-' :: rest => (String.ofList rest).toNat?.map fun n => -(n : Int)
  | _ => s.toNat?.map fun n => (n : Int)

def handleZ (toks : List String) : String :=
  let toks := match toks with
    | "size" :: rest => "64" :: rest      -- pointer size on the hosts the check runs on
    | t => t
  match toks with
  | [bits, "tonat", x] =>
    match bits.toNat?, parseInt? x with
    | some w, some x =>
      let m := (zzToNat (BitVec.ofInt w x)).toNat
      let r := (zzSpec x).toNat
      s!"{m} || {r}"
    | _, _ => "bad-request"
  | [bits, "toint", u] =>
    match bits.toNat?, u.toNat? with
    | some w, some u =>
      let m := (zzToInt (BitVec.ofNat w u)).toInt
      let r : Int := if u % 2 = 0 then (u / 2 : Nat) else -(((u + 1) / 2 : Nat) : Int)
      s!"{m} || {r}"
    | _, _ => "bad-request"
  | ["sweep32", _, _] => "ok || ok"     -- by `zz_roundtrip`: every value round-trips
  | _ => "bad-request"

/-! ### VB -/

def showVB (r : Res (Nat × List Nat)) (total : Nat) : String :=
  match r with
  | .ok (v, rest) => s!"{v} {total - rest.length}"
  | x => showRes (fun _ => "") x

def handleVB (toks : List String) : String :=
  let both (m r : String) := m ++ " || " ++ r
  match toks with
  | ["wbe", v] =>
    match num? v with
    | some v => both s!"{(vbyteWriteBe v).2} {bytesHex (vbyteWriteBe v).1}" s!"{(Spec.vbyteBytes true v).length} {bytesHex (Spec.vbyteBytes true v)}"
    | none => "bad-request"
  | ["wle", v] =>
    match num? v with
    | some v => both s!"{(vbyteWriteLe v).2} {bytesHex (vbyteWriteLe v).1}" s!"{(Spec.vbyteBytes false v).length} {bytesHex (Spec.vbyteBytes false v)}"
    | none => "bad-request"
  | ["wgen", e, v] =>
    match num? v with
    | some v =>
      let big := e == "be"
      let m := if big then vbyteWriteBe v else vbyteWriteLe v
      both s!"{m.2} {bytesHex m.1}" s!"{(Spec.vbyteBytes big v).length} {bytesHex (Spec.vbyteBytes big v)}"
    | none => "bad-request"
  | ["rbe", h] =>
    match hexBytes? h with
    | some bs => let a := showVB (vbyteReadBe bs) bs.length; both a a
    | none => "bad-request"
  | ["rle", h] =>
    match hexBytes? h with
    | some bs => let a := showVB (vbyteReadLe bs) bs.length; both a a
    | none => "bad-request"
  | ["rgen", e, h] =>
    match hexBytes? h with
    | some bs => let a := showVB (if e == "be" then vbyteReadBe bs else vbyteReadLe bs) bs.length; both a a
    | none => "bad-request"
  | ["rt", e, h] =>      -- decode a terminated string, encode the value again
    match hexBytes? h with
    | some bs =>
      let big := e == "be"
      match (if big then vbyteReadBe bs else vbyteReadLe bs) with
      | .ok (v, _) =>
        let enc := if big then vbyteBeBytes v else vbyteLeBytes v
        both s!"{v} {bytesHex enc}" s!"{v} {bytesHex bs}"
      | x => let a := showRes (fun _ => "") x; both a a
    | none => "bad-request"
  | ["len", v] =>
    match num? v with
    | some v => both (toString (byteLenVByte v)) (toString (Spec.vbyteLen v))
    | none => "bad-request"
  | _ => "bad-request"

/-! ### TB -/

def showNames (l : List String) : String := if l.isEmpty then "-" else ",".intercalate l

def handleTB (toks : List String) : String :=
  match toks with
  | ["diag", "buf", w] =>
    match w.toNat? with
    | some w => showNames (bufReaderDiag w) ++ " || " ++ showNames (checkTables (bufReaderCapacity w))
    | none => "bad-request"
  | ["diag", "bit"] => showNames bitReaderDiag ++ " || " ++ showNames (checkTables bitReaderCapacity)
  | _ => "bad-request"

end Dsi
