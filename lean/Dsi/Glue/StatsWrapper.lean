/-
  C15 — model of `CodesStatsWrapper` (`utils/stats.rs`): a code object `wrapped : W` together with
  mutex-protected statistics.  Every read / write forwards to the wrapped object and, when that
  succeeded, records the value (the value read; the value written, not the number of bits) with
  `Stats.update`, under exclusive access to the statistics.

  As in `Dsi.Glue.Stats` the totals are `Nat`s; the u64 range is the explicit guard `Stats.fits`
  of the theorems (lean/Dsi/Props/StatsGen.lean), not part of the model.
  The wrapped object is used through `&self` only, so its operations are functions of the
  reader / writer state alone: `ρ → Res (Nat × ρ)` (the value read and the new reader state) and
  `ω → Nat → Res (Nat × ω)` (the number of bits written and the new writer state).
-/
import Dsi.Glue.Stats
import Dsi.Impl.StatsPrelude
namespace Dsi

/-- `CodesStatsWrapper<W, ..>` -/
structure StatsWrapper (W : Type) where
  stats : Mutex Stats
  wrapped : W

namespace StatsWrapper

/-- record one value under the lock: `self.stats.lock().unwrap().update(v)` -/
def record {W : Type} (w : StatsWrapper W) (v : Nat) : Res (StatsWrapper W) :=
  if w.stats.poisoned then .panic else .ok { w with stats := { w.stats with val := w.stats.val.update v } }

/-- `DynamicCodeRead::read` / `StaticCodeRead::read`: the value read is recorded -/
def read {W ρ : Type} (inner : ρ → Res (Nat × ρ)) (w : StatsWrapper W) (r : ρ) :
    Res (Nat × ρ × StatsWrapper W) :=
  Res.bind (inner r) fun x =>
  Res.bind (w.record x.1) fun w' => .ok (x.1, x.2, w')

/-- `DynamicCodeWrite::write` / `StaticCodeWrite::write`: the value written is recorded, the number
    of bits written is returned -/
def write {W ω : Type} (inner : ω → Nat → Res (Nat × ω)) (w : StatsWrapper W) (wr : ω) (value : Nat) :
    Res (Nat × ω × StatsWrapper W) :=
  Res.bind (inner wr value) fun x =>
  Res.bind (w.record value) fun w' => .ok (x.1, x.2, w')

end StatsWrapper
end Dsi
