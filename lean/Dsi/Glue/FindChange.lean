/-
  C20 — model of `utils/find_change.rs` (`FindChangePoints`) and of the change-point list of
  `utils/implied.rs` (`get_implied_distribution`; the float weights are not modelled).

  u64 arithmetic is explicit: every sum the Rust computes is checked against 2^64 and overflow
  is the outcome `dpanic` (a debug build panics, an optimised build wraps); the theorems show it
  never happens.  The `debug_assert!`s on monotonicity are `dpanic` too.  Loops are unrolled by
  fuel (65 + 65 per `next`); running out of fuel is the outcome `err other` (printed `HANG`) and
  the theorems show it never happens.
-/
import Dsi.Basic
namespace Dsi

/-- `FindChangePoints` without the function; `prev = none` is the sentinel `usize::MAX` -/
structure FC where
  current : Nat := 0
  prev : Option Nat := none
  deriving DecidableEq, Repr, Inhabited

namespace FC

def U64MAX : Nat := 2 ^ 64 - 1

/-- `FindChangePoints::new` -/
def new : FC := {}

/-- `prev_value` as the Rust holds it -/
def prevValue (s : FC) : Nat := s.prev.getD U64MAX

/-- the exponential search: `some step` = left the loop through `break` with that step,
    `none` = `return None` -/
def expPhase (f : Nat → Nat) (cur prev : Nat) : Nat → Nat → Res (Option Nat)
  | 0, _ => .err .other
  | fuel + 1, step =>
    if U64MAX - cur ≤ step then .ok none
    else if cur + step ≥ 2 ^ 64 then .dpanic
    else if f (cur + step) < prev then .dpanic           -- debug_assert!(new_val >= prev_value)
    else if f (cur + step) ≠ prev then .ok (some step)
    else if step * 2 ≥ 2 ^ 64 then .ok none              -- checked_mul(2) = None
    else expPhase f cur prev fuel (step * 2)

/-- the binary search `while left < right` -/
def binPhase (f : Nat → Nat) (prev : Nat) : Nat → Nat → Nat → Res Nat
  | 0, _, _ => .err .other
  | fuel + 1, left, right =>
    if left < right then
      let mid := left + (right - left) / 2
      if f mid < prev then .dpanic                       -- debug_assert!(mid_val >= prev_value)
      else if f mid = prev then
        if mid + 1 ≥ 2 ^ 64 then .dpanic else binPhase f prev fuel (mid + 1) right
      else binPhase f prev fuel left mid
    else .ok left

/-- `Iterator::next` -/
def next (f : Nat → Nat) (s : FC) : Res (Option (Nat × Nat) × FC) :=
  if s.current = 0 ∧ s.prev = none then
    .ok (some (0, f 0), { current := 0, prev := some (f 0) })
  else
    match expPhase f s.current s.prevValue 65 1 with
    | .ok none => .ok (none, s)
    | .ok (some step) =>
      if s.current + step ≥ 2 ^ 64 then .dpanic else
      match binPhase f s.prevValue 65 (s.current + step / 2) (s.current + step) with
      | .ok left =>
        if f left < s.prevValue then .dpanic               -- debug_assert!(new_value >= prev_value)
        else .ok (some (left, f left), { current := left, prev := some (f left) })
      | .err e => .err e
      | .panic => .panic
      | .dpanic => .dpanic
    | .err e => .err e
    | .panic => .panic
    | .dpanic => .dpanic

/-- the iterator's outputs, at most `fuel` of them; the flag tells whether it returned `None`
    (ended) within them -/
def collect (f : Nat → Nat) : Nat → FC → List (Nat × Nat) → Res (List (Nat × Nat) × Bool)
  | 0, _, acc => .ok (acc.reverse, false)
  | fuel + 1, s, acc =>
    match next f s with
    | .ok (some item, s') => collect f fuel s' (item :: acc)
    | .ok (none, _) => .ok (acc.reverse, true)
    | .err e => .err e
    | .panic => .panic
    | .dpanic => .dpanic

def changePoints (f : Nat → Nat) (fuel : Nat) : Res (List (Nat × Nat) × Bool) := collect f fuel new []

/-- `get_implied_distribution(f).0`: `take_while(len <= 128)`; `take_while` pulls one item past
    the last one it keeps -/
def impliedCollect (f : Nat → Nat) : Nat → FC → List (Nat × Nat) → Res (List (Nat × Nat))
  | 0, _, _ => .err .other
  | fuel + 1, s, acc =>
    match next f s with
    | .ok (some item, s') => if item.2 ≤ 128 then impliedCollect f fuel s' (item :: acc) else .ok acc.reverse
    | .ok (none, _) => .ok acc.reverse
    | .err e => .err e
    | .panic => .panic
    | .dpanic => .dpanic

def impliedChangePoints (f : Nat → Nat) (fuel : Nat := 4096) : Res (List (Nat × Nat)) :=
  impliedCollect f fuel new []

/-! ### specification (independent of the search strategy) -/

/-- the largest `cur + 2^j` with `j < n` below `2^64 - 1`, if any -/
def reachTopAux (cur : Nat) : Nat → Option Nat
  | 0 => none
  | j + 1 => if cur + 2 ^ j < U64MAX then some (cur + 2 ^ j) else reachTopAux cur j

/-- the farthest point the search can probe from `cur`: the largest `cur + 2^j` (`j ≤ 63`) below
    `2^64 - 1`, if any -/
def reachTop (cur : Nat) : Option Nat := reachTopAux cur 64

/-- least `x` in `(lo, hi]` with `f x ≠ v`, for a non-decreasing `f` with `f lo = v ≠ f hi`
    (plain bisection; `fuel ≥ log2 (hi - lo) + 1`) -/
def leastChange (f : Nat → Nat) (v : Nat) : Nat → Nat → Nat → Nat
  | 0, _, hi => hi
  | fuel + 1, lo, hi =>
    if hi ≤ lo + 1 then hi
    else
      let mid := (lo + hi) / 2
      if f mid = v then leastChange f v fuel mid hi else leastChange f v fuel lo mid

/-- fuel of the reference bisection (`2^63 ≤ 2^bisectFuel`) -/
def bisectFuel : Nat := 70

/-- `specNext` given the farthest probe point -/
def specNextAt (f : Nat → Nat) (cur : Nat) : Option Nat → Option (Nat × Nat)
  | none => none
  | some top =>
    if f top = f cur then none
    else some (leastChange f (f cur) bisectFuel cur top, f (leastChange f (f cur) bisectFuel cur top))

/-- what `next` must return after the first call: the least change point after `cur` if it is
    within reach -/
def specNext (f : Nat → Nat) (cur : Nat) : Option (Nat × Nat) := specNextAt f cur (reachTop cur)

def specCollect (f : Nat → Nat) : Nat → Nat → List (Nat × Nat) → List (Nat × Nat) × Bool
  | 0, _, acc => (acc.reverse, false)
  | fuel + 1, cur, acc =>
    (specNext f cur).elim (acc.reverse, true) fun item => specCollect f fuel item.1 (item :: acc)

/-- the first `n` outputs the iterator must produce on a non-decreasing `f` -/
def specChangePoints (f : Nat → Nat) (n : Nat) : List (Nat × Nat) × Bool :=
  match n with
  | 0 => ([], false)
  | n + 1 => specCollect f n 0 [(0, f 0)]

/-! ### synthetic step functions -/

/-- number of positions `≤ x` -/
def stepFn (ps : List Nat) (x : Nat) : Nat := (ps.filter (· ≤ x)).length

/-- change points of `stepFn ps` read off the positions directly (sorted, distinct positions
    `> 0`), with the reach criterion of the search -/
def specSteps (ps : List Nat) : Nat → Nat → List (Nat × Nat) → List (Nat × Nat) × Bool
  | 0, _, acc => (acc.reverse, false)
  | fuel + 1, cur, acc =>
    match ps.find? (· > cur), reachTop cur with
    | some p, some top =>
      if p ≤ top then specSteps ps fuel p ((p, stepFn ps p) :: acc) else (acc.reverse, true)
    | _, _ => (acc.reverse, true)

def specStepPoints (ps : List Nat) (n : Nat) : List (Nat × Nat) × Bool :=
  match n with
  | 0 => ([], false)
  | n + 1 => specSteps ps n 0 [(0, stepFn ps 0)]

end FC
end Dsi
