/-
  `CountBitWriter` / `CountBitReader` (src/utils/count.rs) as transformers of writer / reader
  implementations.  `DbgBitWriter` / `DbgBitReader` (src/utils/dbg_codes.rs) forward every method
  unchanged (they only print), so their model is the identity.
-/
import Dsi.Prog
import Dsi.Defaults
namespace Dsi

structure CountW (ω : Type) where
  inner : ω
  bitsWritten : Nat := 0

structure CountR (ρ : Type) where
  inner : ρ
  bitsRead : Nat := 0

namespace CountW
variable {ω : Type}
/-- `BitWrite for CountBitWriter`: `write_bits`/`write_unary` add the returned count; `flush`
    forwards without counting (the pending bits were counted when written). -/
def impl (wi : WImpl ω) : WImpl (CountW ω) :=
  { writeBits := fun s v n => (wi.writeBits s.inner v n).map fun (r, i) => (r, { inner := i, bitsWritten := s.bitsWritten + r }),
    writeUnary := fun s x => (wi.writeUnary s.inner x).map fun (r, i) => (r, { inner := i, bitsWritten := s.bitsWritten + r }),
    flush := fun s => (wi.flush s.inner).map fun (r, i) => (r, { s with inner := i }) }

/-- the specialised `GammaWrite`/`DeltaWrite`/`ZetaWrite` impls: forward a whole program to the
    inner writer and add its result -/
def forward (wi : WImpl ω) (p : WProg Nat) (s : CountW ω) : Res (Nat × CountW ω) :=
  (p.run wi s.inner).map fun (r, i) => (r, { inner := i, bitsWritten := s.bitsWritten + r })
end CountW

namespace CountR
variable {ρ : Type}
/-- `BitRead for CountBitReader`: reads count what they consume, `peek_bits` is free,
    `skip_bits` and `skip_bits_after_peek` count their argument. -/
def impl (ri : RImpl ρ) : RImpl (CountR ρ) :=
  { readBits := fun s n => (ri.readBits s.inner n).map fun (v, i) => (v, { inner := i, bitsRead := s.bitsRead + n }),
    peekBits := fun s n => (ri.peekBits s.inner n).map fun (v, i) => (v, { s with inner := i }),
    skipAfterPeek := fun s n => { inner := ri.skipAfterPeek s.inner n, bitsRead := s.bitsRead + n },
    skipBits := fun s n => (ri.skipBits s.inner n).map fun i => { inner := i, bitsRead := s.bitsRead + n },
    readUnary := fun s => (ri.readUnary s.inner).map fun (v, i) => (v, { inner := i, bitsRead := s.bitsRead + v + 1 }) }

/-- the specialised `GammaRead`/`DeltaRead`/`ZetaRead` impls: run the program on the inner reader
    and add `len_code(value)` -/
def forward (ri : RImpl ρ) (p : RProg Nat) (len : Nat → Nat) (s : CountR ρ) : Res (Nat × CountR ρ) :=
  (p.run ri s.inner).map fun (v, i) => (v, { inner := i, bitsRead := s.bitsRead + len v })
end CountR

end Dsi
