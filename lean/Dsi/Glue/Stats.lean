/-
  C15 — model of `utils/stats.rs` (`CodesStats` with the default const generics).

  Every total is a `Nat`; the u64 wrap-around of the implementation is excluded by an explicit
  guard (`Stats.fits`) in the theorems and in the driver, not by the model.
  The index→parameter offsets, the length function of each slot, the fields summed by `add` and
  the scan of `best_code` come from the generated `Dsi.Gen.Stats` (data only), so the model
  follows the source; the documented behaviour is `Stats.exact` / `Stats.bestSpec`, which do not
  refer to generated data.
-/
import Dsi.Defaults
import Dsi.Glue.StatsTypes
import Dsi.Gen.StatsOffsets
namespace Dsi

structure Stats where
  total : Nat
  unary : Nat
  gamma : Nat
  delta : Nat
  omega : Nat
  vbyte : Nat
  zeta : List Nat
  golomb : List Nat
  expGolomb : List Nat
  rice : List Nat
  pi : List Nat
  deriving DecidableEq, Repr, Inhabited

namespace Stats

/-- `CodesStats::default()` -/
def empty : Stats :=
  { total := 0, unary := 0, gamma := 0, delta := 0, omega := 0, vbyte := 0,
    zeta := List.replicate Gen.Stats.ZETA 0, golomb := List.replicate Gen.Stats.GOLOMB 0,
    expGolomb := List.replicate Gen.Stats.EXP_GOLOMB 0, rice := List.replicate Gen.Stats.RICE 0,
    pi := List.replicate Gen.Stats.PI 0 }

def scalar (s : Stats) : SField → Nat
  | .total => s.total | .unary => s.unary | .gamma => s.gamma | .delta => s.delta
  | .omega => s.omega | .vbyte => s.vbyte | _ => 0

def family (s : Stats) : SField → List Nat
  | .zeta => s.zeta | .golomb => s.golomb | .expGolomb => s.expGolomb | .rice => s.rice
  | .pi => s.pi | _ => []

end Stats

/-- the library length functions (with their default table parameters) by tag -/
def evalLen : LenFn → Nat → Nat → Nat
  | .one, _, _ => 1
  | .succ, n, _ => n + 1
  | .gamma, n, _ => lenGammaD n
  | .delta, n, _ => lenDeltaD n
  | .omega, n, _ => lenOmega n
  | .vbyte, n, _ => bitLenVByte n
  | .zeta, n, p => lenZetaD n p
  | .golomb, n, p => lenGolomb n p
  | .expGolomb, n, p => lenExpGolombD n p
  | .rice, n, p => lenRice n p
  | .pi, n, p => lenPi n p

/-- what `update_many(n, count)` adds to scalar field `f` (all statements on that field) -/
def scalarInc (f : SField) (n count : Nat) : Nat :=
  ((Gen.Stats.updScalars.filter (·.1 == f)).map fun e => evalLen e.2 n 0 * count).sum

/-- what `update_many(n, count)` adds to slot `i` of family `f` -/
def familyInc (f : SField) (n count i : Nat) : Nat :=
  ((Gen.Stats.updFamilies.filter (·.1 == f)).map fun e => evalLen e.2.1 n (i + e.2.2) * count).sum

namespace Stats

def updateMany (s : Stats) (n count : Nat) : Stats :=
  { total := s.total + scalarInc .total n count,
    unary := s.unary + scalarInc .unary n count,
    gamma := s.gamma + scalarInc .gamma n count,
    delta := s.delta + scalarInc .delta n count,
    omega := s.omega + scalarInc .omega n count,
    vbyte := s.vbyte + scalarInc .vbyte n count,
    zeta := s.zeta.mapIdx fun i x => x + familyInc .zeta n count i,
    golomb := s.golomb.mapIdx fun i x => x + familyInc .golomb n count i,
    expGolomb := s.expGolomb.mapIdx fun i x => x + familyInc .expGolomb n count i,
    rice := s.rice.mapIdx fun i x => x + familyInc .rice n count i,
    pi := s.pi.mapIdx fun i x => x + familyInc .pi n count i }

def update (s : Stats) (n : Nat) : Stats := s.updateMany n Gen.Stats.updateCount

/-- what `add` adds to scalar field `f` of `self` -/
def addScalar (r : Stats) (f : SField) : Nat :=
  ((Gen.Stats.addPairs.filter (·.1 == f)).map fun e => r.scalar e.2).sum

/-- element-wise `*a += *b` over the zipped arrays, for every loop of `add` on family `f` -/
def addFamily (r : Stats) (f : SField) (xs : List Nat) : List Nat :=
  (Gen.Stats.addPairs.filter (·.1 == f)).foldl (fun acc e => List.zipWith (· + ·) acc (r.family e.2)) xs

/-- `self.add(&rhs)`, also `+=`, `+` and (folded from `empty`) `sum()` -/
def add (s r : Stats) : Stats :=
  { total := s.total + r.addScalar .total,
    unary := s.unary + r.addScalar .unary,
    gamma := s.gamma + r.addScalar .gamma,
    delta := s.delta + r.addScalar .delta,
    omega := s.omega + r.addScalar .omega,
    vbyte := s.vbyte + r.addScalar .vbyte,
    zeta := r.addFamily .zeta s.zeta,
    golomb := r.addFamily .golomb s.golomb,
    expGolomb := r.addFamily .expGolomb s.expGolomb,
    rice := r.addFamily .rice s.rice,
    pi := r.addFamily .pi s.pi }

/-- `iter.sum()` -/
def sum (l : List Stats) : Stats := l.foldl add empty

/-- candidates of the `best_code` scan after the initial one, in source order -/
def candidates (s : Stats) : List (StatCodeId × Nat) :=
  Gen.Stats.bestScan.flatMap fun e =>
    match e.2.2 with
    | none => [(⟨e.1, 0⟩, s.scalar e.2.1)]
    | some off => (s.family e.2.1).mapIdx fun i x => (⟨e.1, i + off⟩, x)

/-- the `check!` macro -/
def bestStep (strict : Bool) (acc : StatCodeId × Nat) (c : StatCodeId × Nat) : StatCodeId × Nat :=
  if (if strict then c.2 < acc.2 else c.2 ≤ acc.2) then c else acc

/-- `best_code()` -/
def bestCode (s : Stats) : StatCodeId × Nat :=
  s.candidates.foldl (bestStep Gen.Stats.bestStrict)
    (⟨Gen.Stats.bestInit.1, 0⟩, s.scalar Gen.Stats.bestInit.2)

/-- every tracked total, in the documented scan order -/
def tracked (s : Stats) : List Nat :=
  [s.unary, s.gamma, s.delta, s.omega, s.vbyte] ++ s.zeta ++ s.golomb ++ s.expGolomb ++ s.rice ++ s.pi

/-- all totals (including the element count) fit in u64 -/
def fits (s : Stats) : Bool := s.total < 2 ^ 64 && s.tracked.all (· < 2 ^ 64)

/-! ### documented behaviour (no generated data) -/

/-- `Σ count · f(value)` -/
def sumLen (f : Nat → Nat) (us : List (Nat × Nat)) : Nat := (us.map fun u => u.2 * f u.1).sum

/-- the statistics of a list of `(value, count)` observations as documented: slot `i` of ζ is
    ζ_{i+1}, of Golomb is `b = i+1`, of exp-Golomb `k = i`, of Rice `log2_b = i`, of π `k = i+2`;
    10/20/10/10/10 slots -/
def exact (us : List (Nat × Nat)) : Stats :=
  { total := (us.map (·.2)).sum,
    unary := sumLen lenUnary us,
    gamma := sumLen lenGammaD us,
    delta := sumLen lenDeltaD us,
    omega := sumLen lenOmega us,
    vbyte := sumLen bitLenVByte us,
    zeta := (List.range 10).map fun i => sumLen (lenZetaD · (i + 1)) us,
    golomb := (List.range 20).map fun i => sumLen (lenGolomb · (i + 1)) us,
    expGolomb := (List.range 10).map fun i => sumLen (lenExpGolombD · i) us,
    rice := (List.range 10).map fun i => sumLen (lenRice · i) us,
    pi := (List.range 10).map fun i => sumLen (lenPi · (i + 2)) us }

/-- the tracked codes in the documented order, paired with their totals -/
def trackedCodes (s : Stats) : List (StatCodeId × Nat) :=
  [(⟨.unary, 0⟩, s.unary), (⟨.gamma, 0⟩, s.gamma), (⟨.delta, 0⟩, s.delta), (⟨.omega, 0⟩, s.omega),
   (⟨.vbyteBe, 0⟩, s.vbyte)]
  ++ s.zeta.mapIdx (fun i x => (⟨.zeta, i + 1⟩, x))
  ++ s.golomb.mapIdx (fun i x => (⟨.golomb, i + 1⟩, x))
  ++ s.expGolomb.mapIdx (fun i x => (⟨.expGolomb, i⟩, x))
  ++ s.rice.mapIdx (fun i x => (⟨.rice, i⟩, x))
  ++ s.pi.mapIdx (fun i x => (⟨.pi, i + 2⟩, x))

/-- first entry with the least total -/
def firstMin : List (StatCodeId × Nat) → Option (StatCodeId × Nat)
  | [] => none
  | c :: cs =>
    match firstMin cs with
    | none => some c
    | some m => if m.2 < c.2 then some m else some c

/-- documented `best_code`: the first tracked code (in the documented order) with the least total -/
def bestSpec (s : Stats) : Option (StatCodeId × Nat) := firstMin s.trackedCodes

/-- the total kept for a code, by the documented slot assignment -/
def totalOf (s : Stats) (c : StatCodeId) : Option Nat :=
  match c.fam with
  | .unary => some s.unary
  | .gamma => some s.gamma
  | .delta => some s.delta
  | .omega => some s.omega
  | .vbyteBe => some s.vbyte
  | .vbyteLe => some s.vbyte
  | .zeta => if c.param ≥ 1 then s.zeta[c.param - 1]? else none
  | .golomb => if c.param ≥ 1 then s.golomb[c.param - 1]? else none
  | .expGolomb => s.expGolomb[c.param]?
  | .rice => s.rice[c.param]?
  | .pi => if c.param ≥ 2 then s.pi[c.param - 2]? else none

end Stats

/-- apply a list of `(value, count)` observations in order -/
def applyUpdates (s : Stats) (us : List (Nat × Nat)) : Stats :=
  us.foldl (fun s u => s.updateMany u.1 u.2) s

/-- a split-and-merge computation: leaves are partial statistics accumulated sequentially from
    `empty`, nodes merge with `add` (the model of threads / partial results merged in any shape) -/
inductive MergeTree where
  | leaf : List (Nat × Nat) → MergeTree
  | node : MergeTree → MergeTree → MergeTree

namespace MergeTree
def eval : MergeTree → Stats
  | leaf us => applyUpdates Stats.empty us
  | node l r => (eval l).add (eval r)
def flatten : MergeTree → List (Nat × Nat)
  | leaf us => us
  | node l r => flatten l ++ flatten r
end MergeTree

end Dsi
