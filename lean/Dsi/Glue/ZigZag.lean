/-
  `ToNat` / `ToInt` (src/codes/mod.rs), generic in the bit width: the signed and the unsigned value
  are both `BitVec w` (two's complement).
-/
namespace Dsi

/-- `to_nat`: `(x << 1) ^ (x >> (BITS - 1))` with an arithmetic right shift -/
def zzToNat {w : Nat} (x : BitVec w) : BitVec w := (x <<< 1) ^^^ (x.sshiftRight (w - 1))

/-- `to_int`: `(u >> 1) ^ -(u & 1)` -/
def zzToInt {w : Nat} (u : BitVec w) : BitVec w := (u >>> 1) ^^^ (-(u &&& 1))

/-- the documented mapping on integers: `x ≥ 0 ↦ 2x`, `x < 0 ↦ -2x - 1` -/
def zzSpec (x : Int) : Int := if 0 ≤ x then 2 * x else -2 * x - 1

end Dsi
