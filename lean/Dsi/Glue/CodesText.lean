/-
  Text and identifiers of `Codes`: models of `Display`, `FromStr`, `to_code_const`,
  `from_code_const` and `PartialEq` over the generated lists (`Dsi.Gen.CodesText`).
  Text is `List Char`.  No Mathlib: part of the compiled driver.
-/
import Dsi.Glue.Dispatch
import Dsi.Gen.CodesText
namespace Dsi

/-! ### decimal numbers (Rust's `Display` and `FromStr` for `usize`, 64-bit) -/

def digitChar (d : Nat) : Char := Char.ofNat (48 + d)

/-- `usize`'s `Display`: decimal, no sign, no leading zeros -/
def showNat (n : Nat) : List Char :=
  if n < 10 then [digitChar n] else showNat (n / 10) ++ [digitChar (n % 10)]
termination_by n
decreasing_by omega

/-- value of a string of ASCII digits continuing `acc`; `none` at the first other character -/
def parseDigits (acc : Nat) : List Char → Option Nat
  | [] => some acc
  | c :: cs =>
    match digitVal? c with
    | some d => parseDigits (10 * acc + d) cs
    | none => none

/-- the optional leading `+` -/
def stripPlus : List Char → List Char
  | [] => []
  | c :: r => if c = '+' then r else c :: r

/-- `usize::from_str`: an optional leading `+`, then at least one ASCII digit and nothing else;
    a value above `2^64 - 1` is an error. -/
def parseUsize (s : List Char) : Option Nat :=
  if (stripPlus s).isEmpty then none else
  match parseDigits 0 (stripPlus s) with
  | some n => if n < 2 ^ 64 then some n else none
  | none => none

/-! ### `Display` -/

/-- `write!(f, fmt, args…)` with `{}` placeholders only -/
def fmtApply : List Char → List (List Char) → List Char
  | [], _ => []
  | '{' :: '}' :: rest, a :: as => a ++ fmtApply rest as
  | c :: rest, as => c :: fmtApply rest as

def argText (bound : Nat) : Arg → List Char
  | .lit n => showNat n
  | .param => showNat bound

def renderArm (bound : Nat) (a : String × List Arg) : List Char :=
  fmtApply a.1.toList (a.2.map (argText bound))

/-- `c.to_string()` (`none`: no arm, cannot happen for a `match` that compiles) -/
def displayL (c : Codes) : Option (List Char) :=
  (lookupCodes Gen.CodesText.display c.variant c.param).map (renderArm c.param)

/-! ### `FromStr` -/

inductive PErr where
  /-- `CodeError::UnknownCode` -/
  | unknown
  /-- `CodeError::ParseError` -/
  | parse
  deriving DecidableEq, Repr

/-- `s.split(c)`: the text before the first `c`, and the text after it if there is one -/
def splitFirst (c : Char) : List Char → List Char × Option (List Char)
  | [] => ([], none)
  | x :: xs =>
    if x = c then ([], some xs)
    else ((x :: (splitFirst c xs).1), (splitFirst c xs).2)

/-- the parameter text: `parts.next()` (up to the next `(`) then `.split(')').next()` -/
def paramText (rest : List Char) : List Char := (splitFirst ')' (splitFirst '(' rest).1).1

def lookupLit (s : List Char) : List (String × Option Mk) → Option (Option Mk)
  | [] => none
  | (key, mk) :: rest => if key.toList = s then some mk else lookupLit s rest

def lookupParamName (name : List Char) : List (Option String × Option Mk) → Option (Option Mk)
  | [] => none
  | (none, mk) :: _ => some mk
  | (some key, mk) :: rest => if key.toList = name then some mk else lookupParamName name rest

/-- the value an arm builds; `k` = the parsed parameter, where the arm parses one -/
def mkCode (m : Mk) (k : Option Nat) : Option Codes :=
  match m.arg with
  | none => Codes.ofVariant? m.variant none
  | some (.lit n) => Codes.ofVariant? m.variant (some n)
  | some .param =>
    match k with
    | some k => Codes.ofVariant? m.variant (some k)
    | none => none

def okOr (c : Option Codes) : Except PErr Codes :=
  match c with
  | some c => .ok c
  | none => .error .unknown

/-- `<Codes as FromStr>::from_str` -/
def parseL (s : List Char) : Except PErr Codes :=
  match lookupLit s Gen.CodesText.fromStrLiteral with
  | some (some mk) => okOr (mkCode mk none)
  | some none => .error .unknown
  | none =>
    match splitFirst '(' s with
    | (_, none) => .error .unknown
    | (name, some rest) =>
      match lookupParamName name Gen.CodesText.fromStrParam with
      | some (some mk) =>
        match parseUsize (paramText rest) with
        | some n => okOr (mkCode mk (some n))
        | none => .error .parse
      | _ => .error .unknown

/-! ### identifiers -/

/-- `to_code_const` -/
def toCodeConst (c : Codes) : Option Nat :=
  match lookupCodes Gen.CodesText.toCodeConst c.variant c.param with
  | some (some name) => constVal Gen.Dispatch.codeConsts name
  | _ => none

/-- `from_code_const` -/
def fromCodeConst (id : Nat) : Option Codes :=
  match lookupConst Gen.Dispatch.codeConsts Gen.CodesText.fromCodeConst id with
  | some (some mk) => mkCode mk none
  | _ => none

/-! ### `PartialEq` -/

def lookupEq : List (List Pat × List Pat × EqRes) → String → Nat → String → Nat → Option EqRes
  | [], _, _, _, _ => none
  | (l, r, res) :: rest, v1, k1, v2, k2 =>
    if l.any (·.matches v1 k1) && r.any (·.matches v2 k2) then some res else lookupEq rest v1 k1 v2 k2

def evalEq (r : Option EqRes) (k1 k2 : Nat) : Bool :=
  match r with
  | some .tt => true
  | some .paramsEq => k1 == k2
  | _ => false

/-- `a == b` -/
def codesEq (a b : Codes) : Bool :=
  evalEq (lookupEq Gen.CodesText.eqArms a.variant a.param b.variant b.param) a.param b.param

end Dsi
