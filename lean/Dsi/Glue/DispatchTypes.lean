/-
  Vocabulary of the generated dispatch data (`Dsi/Gen/Dispatch.lean`, `Dsi/Gen/CodesText.lean`):
  what the translator can say about a `match` arm of `src/dispatch/*.rs`.  No logic here.
-/
namespace Dsi

/-- An argument of a call after the receiver / the value: a literal, or the parameter bound by
    the arm's pattern (`*k`, `*b as u64`, …). -/
inductive Arg where
  | lit (n : Nat)
  | param
  deriving DecidableEq, Repr, Inhabited

/-- What an arm (or a closure body) does. -/
inductive Call where
  /-- `reader.<method>(args)` -/
  | read (method : String) (args : List Arg)
  /-- `writer.<method>(value, args)` -/
  | write (method : String) (args : List Arg)
  /-- `<fn>(value, args)` -/
  | len (fn : String) (args : List Arg)
  /-- `value as usize + 1` -/
  | unaryLen
  /-- `panic!`, `bail!`, `return Err(..)`: the dispatcher refuses the code -/
  | unsupported
  deriving DecidableEq, Repr, Inhabited

/-- A pattern over the `Codes` enum: `Codes::V`, `Codes::V { f }` (binds: `param = none`),
    `Codes::V { f: n }` (`param = some n`), or `_`. -/
inductive Pat where
  | var (variant : String) (param : Option Nat)
  | wild
  deriving DecidableEq, Repr, Inhabited

/-- A pattern over `usize` identifiers: `code_consts::NAME`, a literal, or `_`. -/
inductive CPat where
  | name (c : String)
  | lit (n : Nat)
  | wild
  deriving DecidableEq, Repr, Inhabited

/-- A constructed `Codes` value: `Codes::V`, `Codes::V { f: n }`, `Codes::V { f: k.parse()? }`. -/
structure Mk where
  variant : String
  arg : Option Arg
  deriving DecidableEq, Repr, Inhabited

/-- Result of a `PartialEq::eq` arm: `true`, `false`, or the comparison of the two bound
    parameters. -/
inductive EqRes where
  | tt | ff | paramsEq
  deriving DecidableEq, Repr, Inhabited

end Dsi
