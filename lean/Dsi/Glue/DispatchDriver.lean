/-
  Driver side of the `D` (dispatch) and `T` (text / identifiers) request families.

  Every answer is `<model> || <reference>`:
  * model     = what the GENERATED lists select (`Dsi.Gen.Dispatch`, `Dsi.Gen.CodesText`), run on
                the reference bit writer / reader;
  * reference = the code's own method (`ownWrite` / `ownRead` / `ownLen`, i.e. what
                `Dsi.writeProg` / `Dsi.readProg` run with the default flags), resp. hand-written
                expectations for text and identifiers that do not look at the generated lists.
  No Mathlib.
-/
import Dsi.Session
import Dsi.Glue.Dispatch
import Dsi.Glue.CodesText
namespace Dsi.DD
open Dsi

/-- the 13-bit sentinel written after the code in `D … read` -/
def sentinel : Nat := 0x1555

/-! ### request tokens -/

def endianOf : String → Option Endian
  | "be" => some .be
  | "le" => some .le
  | _ => none

def kindOf : String → Option DKind
  | "codes" => some .codes
  | "stats" => some .codes
  | "func" => some .func
  | "factory" => some .factory
  | "const" => some .const
  | _ => none

def parameterless : List (String × Codes) :=
  [("Unary", .unary), ("Gamma", .gamma), ("Delta", .delta), ("Omega", .omega),
   ("VByteLe", .vbyteLe), ("VByteBe", .vbyteBe)]
def parametric : List (String × (Nat → Codes)) :=
  [("Zeta", .zeta), ("Pi", .pi), ("Golomb", .golomb), ("ExpGolomb", .expGolomb), ("Rice", .rice)]

/-- `<Variant> <k|->` -/
def codeOfVK (v k : String) : Option Codes :=
  if k = "-" then parameterless.lookup v
  else match parametric.lookup v, k.toNat? with
    | some f, some n => some (f n)
    | _, _ => none

def vkText (c : Codes) : String :=
  c.variant ++ " " ++ (if c.hasParam then toString c.param else "-")

/-- request syntax of a code in `D` lines: `Zeta(3)`, `Gamma` (hand-written, independent of the
    library's `FromStr` and of the generated lists) -/
def codeOfText (s : String) : Option Codes :=
  match parameterless.lookup s with
  | some c => some c
  | none =>
    match s.splitOn "(" with
    | [name, rest] =>
      if rest.toList.getLast? == some ')' then
        match parametric.lookup name, (String.ofList rest.toList.dropLast).toNat? with
        | some f, some n => some (f n)
        | _, _ => none
      else none
    | _ => none

/-- the codes the documentation promises for the function-pointer dispatchers and `ConstCode` -/
def documented (c : Codes) : Bool :=
  match c with
  | .zeta k => 1 ≤ k && k ≤ 10
  | .golomb b => 1 ≤ b && b ≤ 10
  | .pi k | .expGolomb k | .rice k => k ≤ 10
  | _ => true

/-! ### running programs on the reference writer / reader -/

def newW (e : Endian) : RefW := { e := e, W := 64 }

def bytesOfW (w : RefW) : List Nat := layout w.e w.delivered

def newR (e : Endian) (bytes : List Nat) : RefR :=
  { e := e, stream := bitsOfBytes e (padTo 4 bytes), strict := true, peekMax := 32 }

/-- run a writer program, then flush: `<len> <hex>` -/
def runWrite (e : Endian) (prog : WProg Nat) : Res (Nat × List Nat) :=
  match (prog.bind fun len => .flush fun _ => .ret len).run RefW.impl (newW e) with
  | .ok (len, w) => .ok (len, bytesOfW w)
  | .err er => .err er
  | .panic => .panic
  | .dpanic => .dpanic

def showW : Res (Nat × List Nat) → String :=
  showRes fun (len, bs) => s!"{len} {bytesHex bs}"

/-- the stream of a `read` request: the value written with the code's own method (if there is
    such a code), the sentinel, flush -/
def streamFor (e : Endian) (own : Option (WProg Nat)) : Res (List Nat) :=
  let p : WProg Nat :=
    (match own with
     | some p => p
     | none => .ret 0).bind fun _ => .writeBits sentinel 13 fun _ => .flush fun _ => .ret 0
  match p.run RefW.impl (newW e) with
  | .ok (_, w) => .ok (bytesOfW w)
  | .err er => .err er
  | .panic => .panic
  | .dpanic => .dpanic

/-- run a reader program, then the position and the sentinel: `<value> <pos> <sentinel>` -/
def runRead (e : Endian) (bytes : List Nat) (prog : RProg Nat) : Res (Nat × Nat × Nat) :=
  match prog.run RefR.impl (newR e bytes) with
  | .ok (v, r) =>
    match RefR.readBits r 13 with
    | .ok (s, _) => .ok (v, r.pos, s)
    | .err er => .err er
    | .panic => .panic
    | .dpanic => .dpanic
  | .err er => .err er
  | .panic => .panic
  | .dpanic => .dpanic

def showR : Res (Nat × Nat × Nat) → String :=
  showRes fun (v, p, s) => s!"{v} {p} {s}"

/-- append the wrapper's `total` -/
def withTotal {α} (r : Res α) (s : String) : String :=
  match r with
  | .ok _ => s ++ " 1"
  | _ => s

/-! ### targets -/

/-- what a `D` request addresses -/
structure Target where
  /-- selection through the generated lists (`none`: no arm at all) -/
  sel : Option (Call × Option Nat)
  /-- the named code (`none`: an identifier outside the constants) -/
  ref : Option CodeId
  /-- the dispatcher may refuse: answer `unsupported` (function pointers) rather than panic -/
  mayRefuse : Bool
  /-- the reference expects the code to be served -/
  promised : Bool

def firstNameOf (id : Nat) : Option String :=
  (Gen.Dispatch.codeConsts.find? (·.2 == id)).map (·.1)

def targetOf (kind : String) (dk : DKind) (k : Kind) (code : String) : Option Target :=
  match dk with
  | .const =>
    match code.toNat? with
    | some id =>
      some { sel := selectConst k id, ref := (firstNameOf id).bind codeOfName, mayRefuse := false, promised := true }
    | none =>
      match constVal Gen.Dispatch.codeConsts code with
      | some id => some { sel := selectConst k id, ref := codeOfName code, mayRefuse := false, promised := true }
      | none => none
  | _ =>
    if kind = "stats" && k = .len then none else
    match codeOfText code with
    | some c =>
      some { sel := selectCodes dk k c, ref := some c.id, mayRefuse := dk != .codes,
             promised := dk == .codes || documented c }
    | none => none

/-- values / parameters outside the domain where the optimised build is specified:
    `len_*` and the statistics update compute `n + 1` and shift by the parameter -/
def lenGuard (id : CodeId) (v : Nat) : Bool :=
  v ≥ 2 ^ 64 - 1 ||
  (match id.fam with
   | .zeta => id.p = 0 || id.p ≥ 64
   | .golomb => id.p = 0 || id.p ≥ 2 ^ 64
   | .pi | .rice | .expGolomb => id.p ≥ 64
   | _ => false)

/-- the answer when the selected arm refuses -/
def refusal (t : Target) : String := if t.mayRefuse then "unsupported" else "P"

def isRefusal (t : Target) : Bool :=
  match t.sel with
  | some (.unsupported, _) => true
  | _ => false

/-- reference: served iff promised, or (outside the promise) iff the dispatcher serves it -/
def refServes (t : Target) : Bool := t.promised || !isRefusal t

/-! ### D -/

def dWrite (stats : Bool) (e : Endian) (t : Target) (v : Nat) : String :=
  let model :=
    match t.sel with
    | none => "no-arm"
    | some (.unsupported, _) => refusal t
    | some sel =>
      match dispatchWrite e false sel v with
      | none => "no-meaning"
      | some p => let r := runWrite e p; if stats then withTotal r (showW r) else showW r
  let ref :=
    match t.ref with
    | none => "P"
    | some id =>
      if !refServes t then refusal t else
      let r := runWrite e (ownWrite e false id v); if stats then withTotal r (showW r) else showW r
  model ++ " || " ++ ref

def dRead (stats : Bool) (e : Endian) (t : Target) (v : Nat) : String :=
  match streamFor e (t.ref.map fun id => ownWrite e false id v) with
  | .ok bytes =>
    let model :=
      match t.sel with
      | none => "no-arm"
      | some (.unsupported, _) => refusal t
      | some sel =>
        match dispatchRead e sel with
        | none => "no-meaning"
        | some p => let r := runRead e bytes p; if stats then withTotal r (showR r) else showR r
    let ref :=
      match t.ref with
      | none => "P"
      | some id =>
        if !refServes t then refusal t else
        let r := runRead e bytes (ownRead e id); if stats then withTotal r (showR r) else showR r
    model ++ " || " ++ ref
  | r => let s := showRes (fun _ => "") r; s ++ " || " ++ s

def dLen (t : Target) (v : Nat) : String :=
  let model :=
    match t.sel with
    | none => "no-arm"
    | some (.unsupported, _) => refusal t
    | some sel =>
      match dispatchLen sel with
      | none => "no-meaning"
      | some f => toString (f v)
  let ref :=
    match t.ref with
    | none => "P"
    | some id => if !refServes t then refusal t else toString (ownLen id v)
  model ++ " || " ++ ref

def handleD (toks : List String) : String :=
  match toks with
  | [kind, "write", e, code, v] =>
    match kindOf kind, endianOf e, num? v with
    | some dk, some e, some v =>
      match targetOf kind dk .write code with
      | some t =>
        if kind = "stats" && v ≥ 2 ^ 64 - 1 then "D"   -- the statistics update computes `len_*(v)`
        else dWrite (kind = "stats") e t v
      | none => "bad-request"
    | _, _, _ => "bad-request"
  | [kind, "read", e, code, v] =>
    match kindOf kind, endianOf e, num? v with
    | some dk, some e, some v =>
      match targetOf kind dk .read code with
      | some t =>
        if kind = "stats" && v ≥ 2 ^ 64 - 1 then "D"   -- the statistics update computes `len_*(v)`
        else dRead (kind = "stats") e t v
      | none => "bad-request"
    | _, _, _ => "bad-request"
  | [kind, "len", code, v] =>
    match kindOf kind, num? v with
    | some dk, some v =>
      if dk == .factory then "bad-request" else
      match targetOf kind dk .len code with
      | some t =>
        if (match t.ref with | some id => lenGuard id v | none => false) then "D" else dLen t v
      | none => "bad-request"
    | _, _ => "bad-request"
  | _ => "bad-request"

/-! ### T -/

def utf8OfHex (h : String) : Option (List Char) :=
  match hexBytes? h with
  | some bs => (String.fromUTF8? (ByteArray.mk (bs.map UInt8.ofNat).toArray)).map String.toList
  | none => none

def showParse : Except PErr Codes → String
  | .ok c => "ok " ++ vkText c
  | .error .unknown => "E:unknown"
  | .error .parse => "E:parse"

/-- the documented grammar, written by hand: a parameterless name, or a parametric name, `(`,
    and a decimal `usize` (what `usize::from_str` accepts) up to the next `(` or `)` -/
def refParse (s : List Char) : Except PErr Codes :=
  match parameterless.lookup (String.ofList s) with
  | some c => .ok c
  | none =>
    if !s.contains '(' then .error .unknown else
    let name := s.takeWhile (· != '(')
    let rest := (s.dropWhile (· != '(')).drop 1
    let k := rest.takeWhile (fun c => c != '(' && c != ')')
    match parametric.lookup (String.ofList name) with
    | none => .error .unknown
    | some f =>
      let ds := match k with
        | '+' :: r => r
        | _ => k
      if ds.isEmpty || !ds.all (fun c => '0' ≤ c && c ≤ '9') then .error .parse else
      let n := ds.foldl (fun acc c => 10 * acc + (c.toNat - 48)) 0
      if n < 2 ^ 64 then .ok (f n) else .error .parse

def refDisplay (c : Codes) : String :=
  if c.hasParam then c.variant ++ "(" ++ toString c.param ++ ")" else c.variant

def constPrefix (f : Family) : String :=
  match f with
  | .unary => "UNARY" | .gamma => "GAMMA" | .delta => "DELTA" | .omega => "OMEGA"
  | .vbyteBe => "VBYTE_BE" | .vbyteLe => "VBYTE_LE" | .zeta => "ZETA" | .pi => "PI"
  | .golomb => "GOLOMB" | .expGolomb => "EXP_GOLOMB" | .rice => "RICE"

/-- the constant named after a code (hand-written naming rule) -/
def constNameOf (c : Codes) : String :=
  constPrefix c.fam ++ (if c.hasParam then toString c.param else "")

def showOptNat : Option Nat → String
  | some n => toString n
  | none => "E:unsupported"

def showOptCode : Option Codes → String
  | some c => vkText c
  | none => "E:unsupported"

def sameWrite (e : Endian) (a b : Codes) (v : Nat) : String :=
  match runWrite e (ownWrite e false a.id v), runWrite e (ownWrite e false b.id v) with
  | .ok x, .ok y => if x == y then "eq same" else "eq differ"
  | .panic, .panic => "eq same"
  | .dpanic, _ => "D"
  | _, .dpanic => "D"
  | _, _ => "eq differ"

def handleT (toks : List String) : String :=
  match toks with
  | ["display", v, k] =>
    match codeOfVK v k with
    | some c =>
      (match displayL c with
       | some s => String.ofList s
       | none => "no-arm") ++ " || " ++ refDisplay c
    | none => "bad-request"
  | ["parse", h] =>
    match utf8OfHex h with
    | some s => showParse (parseL s) ++ " || " ++ showParse (refParse s)
    | none => "bad-request"
  | ["rt", v, k] =>        -- parse (display c)
    match codeOfVK v k with
    | some c =>
      (match displayL c with
       | some s => showParse (parseL s)
       | none => "no-arm") ++ " || " ++ (if c.param < 2 ^ 64 then "ok " ++ vkText c else "D")
    | none => "bad-request"
  | ["toconst", v, k] =>
    match codeOfVK v k with
    | some c =>
      showOptNat (toCodeConst c) ++ " || " ++
        showOptNat (if documented c then constVal Gen.Dispatch.codeConsts (constNameOf c) else none)
    | none => "bad-request"
  | ["fromconst", id] =>
    match id.toNat? with
    | some id =>
      let m := fromCodeConst id
      let named := (firstNameOf id).bind codeOfName
      let ref :=
        match m, named with
        | some c, some want => if c.id.equiv want then vkText c else s!"a code equivalent to {repr want.fam} {want.p}"
        | none, none => "E:unsupported"
        | some _, none => "E:unsupported"
        | none, some want => s!"a code equivalent to {repr want.fam} {want.p}"
      showOptCode m ++ " || " ++ ref
    | none => "bad-request"
  | ["constrt", id] =>     -- to_code_const (from_code_const id)
    match id.toNat? with
    | some id =>
      showOptNat ((fromCodeConst id).bind toCodeConst) ++ " || " ++ (if id ≤ 50 then toString id else "E:unsupported")
    | none => "bad-request"
  | ["eq", v1, k1, v2, k2] =>
    match codeOfVK v1 k1, codeOfVK v2 k2 with
    | some a, some b =>
      toString (codesEq a b) ++ " || " ++
        (if a == b then "true" else if !a.id.equiv b.id then "false" else "-")
    | _, _ => "bad-request"
  | ["eqw", e, v1, k1, v2, k2, v] =>
    match endianOf e, codeOfVK v1 k1, codeOfVK v2 k2, num? v with
    | some e, some a, some b, some v =>
      let m := if codesEq a b then sameWrite e a b v else "ne"
      let r := if !a.id.equiv b.id then "ne" else if a == b || codesEq a b then
          (if sameWrite e a b v == "D" then "D" else "eq same") else "ne"
      m ++ " || " ++ r
    | _, _, _, _ => "bad-request"
  | ["crt", e, v1, k1, v] =>     -- code -> identifier -> code: identical codewords
    match endianOf e, codeOfVK v1 k1, num? v with
    | some e, some a, some v =>
      let m := match toCodeConst a with
        | some id =>
          match fromCodeConst id with
          | some b => sameWrite e a b v
          | none => "E:noback"
        | none => "E:unsupported"
      let r := if sameWrite e a a v == "D" then "D"
               else if documented a then "eq same"
               else if m == "E:unsupported" then "E:unsupported" else "eq same"
      m ++ " || " ++ r
    | _, _, _ => "bad-request"
  | _ => "bad-request"

end Dsi.DD

namespace Dsi
def handleD := DD.handleD
def handleT := DD.handleT
end Dsi
