/-
  L1 — reference bit writer / reader over `List Bool`.  These definitions *are* the
  statements of C01, C02, C07 and C09: a writer appends bits, a reader is a cursor in a list.
-/
import Dsi.Prog
namespace Dsi

/-! ### Reference writer -/

/-- Reference writer: the bits written so far; `W` is the backend word width (only flush
    padding and the capacity of a fixed slice depend on it); `cap` = capacity in words of a
    fixed-size backend (`none` = growable); `checks` = the `checks` cargo feature. -/
structure RefW where
  e      : Endian
  W      : Nat
  checks : Bool := false
  cap    : Option Nat := none
  bits   : List Bool := []
  deriving Repr

namespace RefW
/-- A fixed backend refuses the word that would exceed its capacity. -/
def fits (s : RefW) (newBits : List Bool) : Bool :=
  match s.cap with
  | none => true
  | some c => newBits.length / s.W ≤ c

def put (s : RefW) (bs : List Bool) (r : Nat) : Res (Nat × RefW) :=
  let nb := s.bits ++ bs
  if s.fits nb then .ok (r, { s with bits := nb }) else .err .eof

def writeBits (s : RefW) (v n : Nat) : Res (Nat × RefW) :=
  if n > 64 then .dpanic
  else if s.checks && v % 2 ^ 64 ≥ 2 ^ n then .panic
  else s.put (fieldBits s.e v n) n

def writeUnary (s : RefW) (x : Nat) : Res (Nat × RefW) :=
  if x ≥ 2 ^ 64 - 1 then .dpanic
  else s.put (unaryBits x) (x + 1)

/-- Number of bits pending in an incomplete word. -/
def pending (s : RefW) : Nat := s.bits.length % s.W

def flush (s : RefW) : Res (Nat × RefW) :=
  let p := s.pending
  s.put (List.replicate ((s.W - p) % s.W) false) p

def impl : WImpl RefW := { writeBits := writeBits, writeUnary := writeUnary, flush := flush }

/-- Words delivered to the backend so far, as bits. -/
def delivered (s : RefW) : List Bool := s.bits.take (s.bits.length / s.W * s.W)
end RefW

/-! ### Reference reader -/

/-- Reference reader: the whole stream, a cursor, and whether the backend is strict
    (errors beyond the end) or zero-extended.  `peekMax` is the documented look-ahead
    capacity (word size for the buffered reader, 32 for the unbuffered one). -/
structure RefR where
  e       : Endian
  stream  : List Bool
  pos     : Nat := 0
  strict  : Bool := false
  peekMax : Nat := 64
  deriving Repr

namespace RefR
def rest (r : RefR) : List Bool := r.stream.drop r.pos
def avail (r : RefR) (n : Nat) : Bool := !r.strict || r.pos + n ≤ r.stream.length

def readBits (r : RefR) (n : Nat) : Res (Nat × RefR) :=
  if n > 64 then .dpanic
  else if r.avail n then .ok (bitsVal r.e (takeZ n r.rest), { r with pos := r.pos + n })
  else .err .eof

def peekBits (r : RefR) (n : Nat) : Res (Nat × RefR) :=
  if n = 0 ∨ n > r.peekMax then .dpanic
  else if r.avail n then .ok (bitsVal r.e (takeZ n r.rest), r)
  else .err .eof

def skipAfterPeek (r : RefR) (n : Nat) : RefR := { r with pos := r.pos + n }

def skipBits (r : RefR) (n : Nat) : Res RefR :=
  if r.avail n then .ok { r with pos := r.pos + n } else .err .eof

/-- Index of the first `true` in a list. -/
def firstOne : List Bool → Option Nat
  | [] => none
  | true :: _ => some 0
  | false :: bs => (firstOne bs).map (· + 1)

/-- A unary read returns the number of zeros before the next one.  On a strict stream without
    a one ahead it is an error; on a zero-extended stream it does not terminate (modelled as
    `dpanic`: no comparison is made there). -/
def readUnary (r : RefR) : Res (Nat × RefR) :=
  match firstOne r.rest with
  | some z => .ok (z, { r with pos := r.pos + z + 1 })
  | none => if r.strict then .err .eof else .dpanic

def seek (r : RefR) (p : Nat) : RefR := { r with pos := p }

def impl : RImpl RefR :=
  { readBits := readBits, peekBits := peekBits, skipAfterPeek := skipAfterPeek,
    skipBits := skipBits, readUnary := readUnary }
end RefR

end Dsi
