/-
  L2 — every code reader / writer / length function of `src/codes/*.rs`, written as programs
  over the BitRead / BitWrite interfaces with the *implemented* arithmetic: u64 values are
  `Nat`s, every wrapping operation, dropped high bit and panic point is explicit.
  `checks` is the cargo feature of the same name.
-/
import Dsi.Prog
namespace Dsi
open RProg WProg

/-- Decoding table (`READ_*`, `READ_LEN_*`, `READ_BITS`, `MISSING_VALUE_LEN_*`). -/
structure RTab where
  readBits : Nat
  missing  : Nat
  vals : Array Nat
  lens : Array Nat
  deriving Inhabited

/-- Encoding table (`WRITE_*`, `WRITE_LEN_*`). -/
structure WTab where
  vals : Array Nat
  lens : Array Nat
  deriving Inhabited

/-- `read_table_{be,le}`: look ahead `READ_BITS`; a hit skips `len` bits and returns the value;
    a miss or a failed peek falls back to `fallback` (the bit-by-bit reader). -/
def readTable (t : RTab) (fallback : RProg Nat) : RProg Nat :=
  .peek t.readBits fun
    | .ok idx =>
      match t.lens[idx]?, t.vals[idx]? with
      | some len, some v => if len ≠ t.missing then .skipAfterPeek len (.ret v) else fallback
      | _, _ => .panic
    | .error _ => fallback

/-- `write_table_{be,le}`: `Some(len)` iff the value is in the table. -/
def writeTable (t : WTab) (n : Nat) (fallback : WProg Nat) : WProg Nat :=
  match t.vals[n]? with
  | some bits =>
    match t.lens[n]? with
    | some len => .writeBits bits len fun _ => .ret len
    | none => .panic
  | none => fallback

/-! ### unary -/
def writeUnaryC (n : Nat) : WProg Nat := wunary n
def readUnaryC : RProg Nat := runary
def lenUnary (n : Nat) : Nat := n + 1

/-! ### γ -/
def lenGammaDefault (n : Nat) : Nat := 2 * (n + 1).log2 + 1
def lenGamma (lenTab : Option (Array Nat)) (n : Nat) : Nat :=
  match lenTab with
  | some t => match t[n]? with
    | some l => l
    | none => lenGammaDefault n
  | none => lenGammaDefault n

/-- `default_write_gamma`: `n+1` overflows for `n = 2^64-1` (debug: overflow panic; release:
    wraps to 0 and `ilog2(0)` panics), hence a panic in every build. Under `checks` the top bit
    is cleared (`n ^= 1 << λ`), otherwise `write_bits` is relied upon to drop it. -/
def writeGammaDefault (checks : Bool) (n : Nat) : WProg Nat :=
  if n ≥ 2 ^ 64 - 1 then .panic else
  let m := n + 1
  let lam := m.log2
  let m' := if checks then m - 2 ^ lam else m
  .writeUnary lam fun a => .writeBits m' lam fun b => .ret (a + b)

def writeGamma (checks : Bool) (tab : Option WTab) (n : Nat) : WProg Nat :=
  match tab with
  | some t => writeTable t n (writeGammaDefault checks n)
  | none => writeGammaDefault checks n

/-- `default_read_gamma`: `1 << len` overflows for `len ≥ 64`. -/
def readGammaDefault : RProg Nat :=
  .readUnary fun len =>
    if len ≥ 64 then .dpanic else
    .readBits len fun v => .ret (v + 2 ^ len - 1)

def readGamma (tab : Option RTab) : RProg Nat :=
  match tab with
  | some t => readTable t readGammaDefault
  | none => readGammaDefault

/-! ### δ -/
def lenDelta (deltaLen : Option (Array Nat)) (gammaLen : Option (Array Nat)) (n : Nat) : Nat :=
  let dflt := (n + 1).log2 + lenGamma gammaLen (n + 1).log2
  match deltaLen with
  | some t => match t[n]? with
    | some l => l
    | none => dflt
  | none => dflt

def writeDeltaDefault (checks : Bool) (gtab : Option WTab) (n : Nat) : WProg Nat :=
  if n ≥ 2 ^ 64 - 1 then .panic else
  let m := n + 1
  let lam := m.log2
  let m' := if checks then m - 2 ^ lam else m
  (writeGamma checks gtab lam).bind fun a => .writeBits m' lam fun b => .ret (a + b)

def writeDelta (checks : Bool) (dtab gtab : Option WTab) (n : Nat) : WProg Nat :=
  match dtab with
  | some t => writeTable t n (writeDeltaDefault checks gtab n)
  | none => writeDeltaDefault checks gtab n

def readDeltaDefault (gtab : Option RTab) : RProg Nat :=
  (readGamma gtab).bind fun len =>
    if len ≥ 64 then .dpanic else
    .readBits len fun v => .ret (v + 2 ^ len - 1)

def readDelta (dtab gtab : Option RTab) : RProg Nat :=
  match dtab with
  | some t => readTable t (readDeltaDefault gtab)
  | none => readDeltaDefault gtab

/-! ### minimal binary -/
/-- `limit = ((1 << l) << 1).wrapping_sub(max)` on u64. -/
def mbLimit (max : Nat) : Nat := wsub64 (shl64 (2 ^ max.log2) 1) max

def lenMinimalBinary (n max : Nat) : Nat :=
  if max = 0 then 0 else
  if n ≥ mbLimit max then max.log2 + 1 else max.log2

def writeMinimalBinary (n max : Nat) : WProg Nat :=
  if max = 0 then .panic else      -- ilog2(0)
  let l := max.log2
  let limit := mbLimit max
  if n < limit then .writeBits n l fun _ => .ret l
  else
    let tw := n + limit
    if tw ≥ 2 ^ 64 then .dpanic else
    .writeBits (tw / 2) l fun _ => .writeBits (tw % 2) 1 fun _ => .ret (l + 1)

def readMinimalBinary (max : Nat) : RProg Nat :=
  if max = 0 then .panic else
  let l := max.log2
  let limit := mbLimit max
  .readBits l fun prefix_ =>
    if prefix_ < limit then .ret prefix_
    else .readBits 1 fun b =>
      let p := 2 * prefix_ + b
      if p ≥ 2 ^ 64 ∨ p < limit then .dpanic else .ret (p - limit)

/-! ### ζ_k -/
/-- upper bound passed to minimal binary: `(l << k).wrapping_sub(l)` with `l = 1 << (h*k)`. -/
def zetaU (h k : Nat) : Nat := wsub64 (shl64 (2 ^ (h * k)) k) (2 ^ (h * k))

def lenZetaDefault (n k : Nat) : Nat :=
  let m := n + 1
  let h := m.log2 / k
  h + 1 + lenMinimalBinary (m - 2 ^ (h * k)) (zetaU h k)

def lenZeta (lenTab : Option (Array Nat × Nat)) (n k : Nat) : Nat :=
  match lenTab with
  | some (t, tk) =>
    if k = tk then
      match t[n]? with
      | some l => l
      | none => lenZetaDefault n k
    else lenZetaDefault n k
  | none => lenZetaDefault n k

def writeZetaDefault (n k : Nat) : WProg Nat :=
  if n ≥ 2 ^ 64 - 1 then .panic else
  if k = 0 then .panic else          -- division by zero
  if k ≥ 64 then .dpanic else        -- `l << k`
  let m := n + 1
  let h := m.log2 / k
  let l := 2 ^ (h * k)
  .writeUnary h fun a => (writeMinimalBinary (m - l) (zetaU h k)).bind fun b => .ret (a + b)

def writeZeta3 (tab : Option WTab) (n : Nat) : WProg Nat :=
  match tab with
  | some t => writeTable t n (writeZetaDefault n 3)
  | none => writeZetaDefault n 3

def readZetaDefault (k : Nat) : RProg Nat :=
  .readUnary fun h =>
    if h * k ≥ 64 ∨ k ≥ 64 then .dpanic else
    let l := 2 ^ (h * k)
    (readMinimalBinary (zetaU h k)).bind fun res =>
      if l + res = 0 ∨ l + res - 1 ≥ 2 ^ 64 then .dpanic else .ret (l + res - 1)

def readZeta3 (tab : Option RTab) : RProg Nat :=
  match tab with
  | some t => readTable t (readZetaDefault 3)
  | none => readZetaDefault 3

/-! ### ω -/
def omegaLenRec : Nat → Nat → Nat
  | 0, _ => 1
  | fuel + 1, n => if n ≤ 1 then 1 else omegaLenRec fuel n.log2 + n.log2 + 1
def lenOmega (n : Nat) : Nat := omegaLenRec 8 (n + 1)

/-- `recursive_write`; on LE streams the block is rotated: `n = (n << 1) | 1` (u64, top bit
    dropped), masked to `λ+1` bits under `checks`. -/
def omegaWriteRec (e : Endian) (checks : Bool) : Nat → Nat → WProg Nat
  | 0, _ => .ret 0
  | fuel + 1, n =>
    if n ≤ 1 then .ret 0 else
    let lam := n.log2
    let n' := match e with
      | .be => n
      | .le => let r := (2 * n + 1) % 2 ^ 64
               if checks then r % 2 ^ (lam + 1) else r
    (omegaWriteRec e checks fuel lam).bind fun a => .writeBits n' (lam + 1) fun b => .ret (a + b)

def writeOmega (e : Endian) (checks : Bool) (n : Nat) : WProg Nat :=
  if n ≥ 2 ^ 64 - 1 then .dpanic else
  (omegaWriteRec e checks 8 (n + 1)).bind fun a => .writeBits 0 1 fun b => .ret (a + b)

def omegaReadLoop (e : Endian) : Nat → Nat → RProg Nat
  | 0, _ => .dpanic
  | fuel + 1, n =>
    .peek 1 fun
      | .error er => .fail er
      | .ok bit =>
        if bit = 0 then .skipAfterPeek 1 (.ret (n - 1))
        else if n ≥ 64 then .dpanic
        else .readBits (n + 1) fun v =>
          let n' := match e with
            | .be => v
            | .le => v / 2 + 2 ^ n     -- (n >> 1) | (1 << λ)
          omegaReadLoop e fuel n'

def readOmega (e : Endian) : RProg Nat := omegaReadLoop e 8 1

/-! ### Rice, π, Golomb, exp-Golomb -/
def lenRice (n k : Nat) : Nat := n / 2 ^ k + 1 + k

def writeRice (checks : Bool) (n k : Nat) : WProg Nat :=
  if k ≥ 64 then .dpanic else
  let low := if checks then n % 2 ^ k else n
  .writeUnary (n / 2 ^ k) fun a => .writeBits low k fun b => .ret (a + b)

def readRice (k : Nat) : RProg Nat :=
  if k ≥ 64 then .dpanic else
  .readUnary fun u => .readBits k fun v =>
    if u * 2 ^ k + v ≥ 2 ^ 64 then .dpanic else .ret (u * 2 ^ k + v)

def lenPi (n k : Nat) : Nat := lenRice (n + 1).log2 k + (n + 1).log2

def writePi (checks : Bool) (n k : Nat) : WProg Nat :=
  if n ≥ 2 ^ 64 - 1 then .panic else
  let m := n + 1
  let lam := m.log2
  let m' := if checks then m - 2 ^ lam else m
  (writeRice checks lam k).bind fun a => .writeBits m' lam fun b => .ret (a + b)

def readPi (k : Nat) : RProg Nat :=
  (readRice k).bind fun lam =>
    if lam ≥ 64 then .dpanic else
    .readBits lam fun v => .ret (2 ^ lam + v - 1)

def lenGolomb (n b : Nat) : Nat := n / b + 1 + lenMinimalBinary (n % b) b

def writeGolomb (n b : Nat) : WProg Nat :=
  if b = 0 then .panic else
  .writeUnary (n / b) fun a => (writeMinimalBinary (n % b) b).bind fun c => .ret (a + c)

def readGolomb (b : Nat) : RProg Nat :=
  .readUnary fun u => (readMinimalBinary b).bind fun r =>
    if u * b + r ≥ 2 ^ 64 then .dpanic else .ret (u * b + r)

def lenExpGolomb (gammaLen : Option (Array Nat)) (n k : Nat) : Nat := lenGamma gammaLen (n / 2 ^ k) + k

/-- exp-Golomb uses the reader's/writer's *default-parameter* γ (`GammaWrite::write_gamma`). -/
def writeExpGolomb (checks : Bool) (gtab : Option WTab) (n k : Nat) : WProg Nat :=
  if k ≥ 64 then .dpanic else
  let low := if checks then n % 2 ^ k else n
  (writeGamma checks gtab (n / 2 ^ k)).bind fun a => .writeBits low k fun b => .ret (a + b)

def readExpGolomb (gtab : Option RTab) (k : Nat) : RProg Nat :=
  if k ≥ 64 then .dpanic else
  (readGamma gtab).bind fun g => .readBits k fun v =>
    if g * 2 ^ k + v ≥ 2 ^ 64 then .dpanic else .ret (g * 2 ^ k + v)

/-! ### VByte (bit-stream variants; the byte-level io functions are in `VByteIO`) -/
def vbyteByteLenLoop : Nat → Nat → Nat → Nat
  | 0, _, len => len
  | fuel + 1, v, len =>
    let v := v / 128
    if v = 0 then len else vbyteByteLenLoop fuel (v - 1) (len + 1)
def byteLenVByte (v : Nat) : Nat := vbyteByteLenLoop 10 v 1
def bitLenVByte (v : Nat) : Nat := 8 * byteLenVByte v

/-- bytes of the big-endian VByte code of `v`, first byte first
    (the Rust fills a 10-byte buffer from the end). -/
def vbyteBeBytesLoop : Nat → Nat → List Nat → List Nat
  | 0, _, acc => acc
  | fuel + 1, v, acc =>
    if v = 0 then acc else
    let v := v - 1
    vbyteBeBytesLoop fuel (v / 128) ((128 + v % 128) :: acc)
def vbyteBeBytes (v : Nat) : List Nat := vbyteBeBytesLoop 10 (v / 128) [v % 128]

def vbyteLeBytesLoop : Nat → Nat → List Nat
  | 0, _ => []
  | fuel + 1, v =>
    let byte := v % 128
    let v := v / 128
    if v ≠ 0 then (byte + 128) :: vbyteLeBytesLoop fuel (v - 1) else [byte]
def vbyteLeBytes (v : Nat) : List Nat := vbyteLeBytesLoop 10 v

def writeBytesP : List Nat → WProg Nat
  | [] => .ret 0
  | b :: bs => .writeBits b 8 fun _ => (writeBytesP bs).bind fun r => .ret (r + 8)

def writeVByteBe (v : Nat) : WProg Nat := writeBytesP (vbyteBeBytes v)
def writeVByteLe (v : Nat) : WProg Nat := writeBytesP (vbyteLeBytes v)

/-- `read_vbyte_be`: `value += 1; value = (value << 7) | low7` on u64 (`<<` drops high bits,
    `+= 1` may overflow). The fuel bounds the number of continuation bytes followed. -/
def vbyteBeReadLoop : Nat → Nat → Nat → RProg Nat
  | 0, _, _ => .dpanic
  | fuel + 1, value, byte =>
    if byte / 128 = 0 then .ret value else
    if value + 1 ≥ 2 ^ 64 then .dpanic else
    .readBits 8 fun b => vbyteBeReadLoop fuel (shl64 (value + 1) 7 + b % 128) b
def readVByteBe (fuel : Nat := 12) : RProg Nat :=
  .readBits 8 fun b => vbyteBeReadLoop fuel (b % 128) b

/-- `read_vbyte_le`: `result += low7 << shift; shift += 7; result += 1 << shift`. -/
def vbyteLeReadLoop : Nat → Nat → Nat → RProg Nat
  | 0, _, _ => .dpanic
  | fuel + 1, result, shift =>
    if shift ≥ 64 then .dpanic else
    .readBits 8 fun b =>
      let r := result + shl64 (b % 128) shift
      if r ≥ 2 ^ 64 then .dpanic else
      if b / 128 = 0 then .ret r
      else if shift + 7 ≥ 64 ∨ r + 2 ^ (shift + 7) ≥ 2 ^ 64 then .dpanic
      else vbyteLeReadLoop fuel (r + 2 ^ (shift + 7)) (shift + 7)
def readVByteLe (fuel : Nat := 12) : RProg Nat := vbyteLeReadLoop fuel 0 0

end Dsi
