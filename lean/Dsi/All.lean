/- Everything: the model, the driver's modules and every proof module (built by setup; also a
   guard against name clashes between proof files). -/
import Dsi
import Dsi.Props.CodesA
import Dsi.Props.CodesB
import Dsi.Props.Writer
import Dsi.Props.Reader
import Dsi.Props.BitReader
import Dsi.Props.C11
import Dsi.Props.C13
import Dsi.Props.C14
import Dsi.Props.C17
import Dsi.Props.C19
import Dsi.Props.Copy
import Dsi.Props.IOView
import Dsi.Props.C10
import Dsi.Props.C16
import Dsi.Props.C05
import Dsi.Props.EndToEnd
import Dsi.Props.C15
import Dsi.Props.C20
import Dsi.Props.Equiv
import Dsi.Props.Transport
