/-
  Headline, C01: the byte image of the generated `BufBitWriter` (in a module of its own so that the
  property about the writer depends on the translated writer bodies only).  See Props/Headline.lean.
-/
import Dsi.Lemmas.HeadlineRunW
import Dsi.Props.EndToEnd
import Dsi.Props.IOView
namespace Dsi
namespace Headline

/-- **Byte image, any generated writer program.**  `pre` is an arbitrary writer program that (by
    the reference semantics) writes the bits `bits₀`; `gw` is a generated writer program equal to
    a program that appends `cw`.  Run `pre` then `gw` on the *generated* `BufBitWriter` from a fresh
    writer of word width `Ww`, then the generated `flush`: the writer returns the length of `cw`
    and the bytes delivered are exactly the canonical byte layout of `bits₀ ++ cw` zero-padded to
    a whole word. -/
theorem gen_write_image {α : Type} (e : Endian) {Ww : Nat} (hWw : 0 < Ww) (h8w : 8 ∣ Ww)
    (hWw64 : Ww < 2 ^ 64) (checks : Bool) (pre : WProg α) {a : α} {bits₀ : List Bool}
    (hpre : pre.run RefW.impl { e := e, W := Ww, checks := checks, cap := none, bits := [] }
      = .ok (a, { e := e, W := Ww, checks := checks, cap := none, bits := bits₀ }))
    {gw hw : WProg Nat} (heq : gw = hw) {cw : List Bool} (hwr : Writes hw e checks cw) :
    ∃ (sw : BufW Ww) (k : Nat) (sw' : BufW Ww),
      (pre.bind fun _ => gw).run (genWImpl e) (BufW.new Ww checks none) = .ok (cw.length, sw) ∧
      (genWImpl e).flush sw = .ok (k, sw') ∧
      sw'.outBytes e
        = layout e (bits₀ ++ cw ++ List.replicate ((Ww - (bits₀ ++ cw).length % Ww) % Ww) false) := by
  subst heq
  have hrun : (pre.bind fun _ => gw).run RefW.impl
      { e := e, W := Ww, checks := checks, cap := none, bits := [] }
      = .ok (cw.length, { e := e, W := Ww, checks := checks, cap := none, bits := bits₀ ++ cw }) := by
    rw [WProg.run_bind, hpre]
    exact hwr _ rfl rfl rfl
  obtain ⟨sw, k, sw', h1, h2, h3, h4, _⟩ := e2e_writer_image e hWw h8w checks _ hrun
  refine ⟨sw, k, sw', gen_wrun_of_ok e hWw64 _ (inv_new hWw checks none) h1, ?_, ?_⟩
  · rw [genW_flush]; exact h2
  · rw [← io_aligned_image e _ h4, h3]

end Headline
end Dsi
