/-
  The generated `check_tables` and the arguments its callers pass (lean/Dsi/Gen/CheckTablesBodies.lean,
  produced by tools/translate_checktables.py from src/traits/bits.rs, src/impls/buf_bit_reader.rs and
  src/impls/bit_reader.rs on every run) against the hand-written lean/Dsi/Glue/CheckTables.lean:

  * `check_tables`, translated statement by statement, is `checkTables`; it compares the three
    `READ_BITS` constants, in the order γ, δ, ζ₃;
  * the only uses of `check_tables` in src/ are the two reader constructors;
  * `BufBitReader::new` passes the word width of its backend, `BitReader::new` passes 32: these are
    `bufReaderCapacity` / `bitReaderCapacity`, so the diagnostics the constructors print are
    `bufReaderDiag` / `bitReaderDiag` (the objects of `diag_sound`, lean/Dsi/Props/C05.lean);
  * these arguments are the look-ahead the model works with: the `peekMax` of the reference reader
    a session creates (lean/Dsi/Session.lean), and the bound beyond which the unbuffered reader's
    `peek_bits` hits its `assert!` (lean/Dsi/Impl/BitReader.lean).
-/
import Dsi.Glue.CheckTables
import Dsi.Gen.CheckTablesBodies
import Dsi.Session
namespace Dsi
namespace CheckTablesGen
open Gen Gen.CheckTables

/-- `check_tables` is the hand-written `checkTables` -/
theorem check_tables_eq (peekBits : Nat) : check_tables peekBits = checkTables peekBits := rfl

/-- the constants compared: the index widths of the three read tables, γ, δ, ζ₃ in this order -/
theorem compared_eq : checkTablesCompared =
    [("gamma", "READ_BITS", Gamma.READ_BITS), ("delta", "READ_BITS", Delta.READ_BITS),
     ("zeta3", "READ_BITS", Zeta.READ_BITS)] := rfl

/-- the uses of `check_tables` in src/: the two reader constructors and nothing else -/
theorem callers_eq : checkTablesCallers =
    [("src/impls/bit_reader.rs", "BitReader::new"), ("src/impls/buf_bit_reader.rs", "BufBitReader::new")] := rfl

/-- `BufBitReader::new` announces the capacity the model guarantees (one refill of `W` bits) -/
theorem buf_peek_bits_eq (W : Nat) : BufBitReader.new_peek_bits W = bufReaderCapacity W := rfl

/-- `BitReader::new` announces the capacity the model guarantees (the `assert!(n_bits <= 32)`) -/
theorem bit_peek_bits_eq : BitReader.new_peek_bits = bitReaderCapacity := rfl

/-- the diagnostics of the constructors are those of the hand-written model -/
theorem buf_diag_eq (W : Nat) : BufBitReader.new_diag W = bufReaderDiag W := rfl
theorem bit_diag_eq : BitReader.new_diag = bitReaderDiag := rfl

/-- hence: a constructor prints the diagnostic of a table iff the capacity of the reader is below
    the index width of that table -/
theorem buf_diag_mem (W : Nat) :
    ("gamma" ∈ BufBitReader.new_diag W ↔ bufReaderCapacity W < Gamma.READ_BITS) ∧
    ("delta" ∈ BufBitReader.new_diag W ↔ bufReaderCapacity W < Delta.READ_BITS) ∧
    ("zeta3" ∈ BufBitReader.new_diag W ↔ bufReaderCapacity W < Zeta.READ_BITS) := by
  show ("gamma" ∈ checkTables W ↔ _) ∧ ("delta" ∈ checkTables W ↔ _) ∧ ("zeta3" ∈ checkTables W ↔ _)
  unfold checkTables bufReaderCapacity
  refine ⟨?_, ?_, ?_⟩ <;>
    (by_cases h1 : W < Gamma.READ_BITS <;> by_cases h2 : W < Delta.READ_BITS <;>
      by_cases h3 : W < Zeta.READ_BITS <;> simp [h1, h2, h3])

theorem bit_diag_mem :
    ("gamma" ∈ BitReader.new_diag ↔ bitReaderCapacity < Gamma.READ_BITS) ∧
    ("delta" ∈ BitReader.new_diag ↔ bitReaderCapacity < Delta.READ_BITS) ∧
    ("zeta3" ∈ BitReader.new_diag ↔ bitReaderCapacity < Zeta.READ_BITS) := by
  show ("gamma" ∈ checkTables 32 ↔ _) ∧ ("delta" ∈ checkTables 32 ↔ _) ∧ ("zeta3" ∈ checkTables 32 ↔ _)
  unfold checkTables bitReaderCapacity
  refine ⟨?_, ?_, ?_⟩ <;>
    (by_cases h1 : 32 < Gamma.READ_BITS <;> by_cases h2 : 32 < Delta.READ_BITS <;>
      by_cases h3 : 32 < Zeta.READ_BITS <;> simp [h1, h2, h3])

/-- the announced value is the look-ahead of the reference reader a session works with -/
theorem session_peekMax (e : Endian) (ww rw : Nat) (bitReader strict checks : Bool) (cap : Option Nat)
    (bytes : List Nat) :
    ((machL1 e ww rw bitReader strict checks cap).mkReader bytes).peekMax
      = if bitReader then BitReader.new_peek_bits else BufBitReader.new_peek_bits rw := by
  cases bitReader <;> rfl

/-- beyond the announced value the unbuffered reader's `peek_bits` hits `assert!(n_bits <= 32)` -/
theorem bitR_peek_beyond (e : Endian) (s : BitR) (n : Nat) (h : BitReader.new_peek_bits < n) :
    BitR.peekBits e s n = .panic := by
  have h' : 32 < n := h
  unfold BitR.peekBits
  have h0 : ¬ n = 0 := by omega
  simp only [h0, if_false, show n > 32 from h', if_true]

end CheckTablesGen
end Dsi
