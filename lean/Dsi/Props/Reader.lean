/-
  Refinement L3 ⟶ L1 for the buffered bit reader: every operation of `BufR.impl e` (and
  `BufR.setBitPos e`) simulates the reference reader `RefR` under `BufR.Rel e`, and so does every
  reader program whose peeks are bounded by the word size.

  Hypotheses beyond `BufR.Rel e s r` (which already implies `0 < W`):
  * `readBits_sim`, `rprog_sim`: `e = .be → W ≤ 64` (the BE slow path computes
    `(w as u64) >> (W - n)`; for `W > 64` the model truncates the word, see `readBitsBE_needs_W_le_64`);
  * `new_rel`: `0 < W`.
-/
import Dsi.Lemmas.ReaderBE
namespace Dsi
open BufR

variable {W : Nat}

/-! ### concrete states used by the `example`s: `W = 8`, a strict three-word backend, three bits
    already consumed, five bits left in the buffer -/

def readerExS (e : Endian) : BufR 8 :=
  { buffer := match e with | .le => 0x14#16 | .be => 0x2800#16, bib := 5,
    back := ⟨[0xA5#8, 0x3C#8, 0xF0#8], 1, true⟩ }

def readerExR (e : Endian) : RefR :=
  { e := e, stream := [0xA5#8, 0x3C#8, 0xF0#8].flatMap (wordBits e), pos := 3, strict := true,
    peekMax := 8 }

theorem readerEx_rel (e : Endian) : BufR.Rel e (readerExS e) (readerExR e) := by
  cases e <;> (unfold BufR.Rel BufR.Clean BufR.window; decide)

theorem Rel.pos_W {e : Endian} {s : BufR W} {r : RefR} (h : BufR.Rel e s r) : 0 < W := by
  have := h.1
  omega

private theorem liftLE {x : Res (Nat × BufR W)} {y : Res (Nat × RefR)}
    (h : ResRel (fun a b => a.1 = b.1 ∧ RelLE a.2 b.2) x y) :
    ResRel (fun (a, s') (b, r') => a = b ∧ BufR.Rel .le s' r') x y :=
  ResRel.mono_rr (fun _ _ hab => ⟨hab.1, (rel_le_iff _ _).2 hab.2⟩) h

private theorem liftBE {x : Res (Nat × BufR W)} {y : Res (Nat × RefR)}
    (h : ResRel (fun a b => a.1 = b.1 ∧ RelBE a.2 b.2) x y) :
    ResRel (fun (a, s') (b, r') => a = b ∧ BufR.Rel .be s' r') x y :=
  ResRel.mono_rr (fun _ _ hab => ⟨hab.1, (rel_be_iff _ _).2 hab.2⟩) h

/-! ### 1. readBits -/

theorem readBits_sim {e : Endian} (hW64 : e = .be → W ≤ 64) {s : BufR W} {r : RefR}
    (h : BufR.Rel e s r) (n : Nat) :
    ResRel (fun (a, s') (b, r') => a = b ∧ BufR.Rel e s' r')
      ((BufR.impl e).readBits s n) (RefR.readBits r n) := by
  have hW := Rel.pos_W h
  cases e with
  | le => exact liftLE (readBitsLE_sim hW ((rel_le_iff _ _).1 h) n)
  | be => exact liftBE (readBitsBE_sim hW (hW64 rfl) ((rel_be_iff _ _).1 h) n)

-- slow path (13 > 5 buffered bits, one whole word and a partial one), both endiannesses
example (e : Endian) : ResRel (fun (a, s') (b, r') => a = b ∧ BufR.Rel e s' r')
    ((BufR.impl e).readBits (readerExS e) 13) (RefR.readBits (readerExR e) 13) :=
  readBits_sim (fun _ => by decide) (readerEx_rel e) 13

/-! ### 2. peekBits -/

/-- `n = 0` is `dpanic` on both sides, so only `n ≤ W` is needed -/
theorem peekBits_sim {e : Endian} {s : BufR W} {r : RefR} (h : BufR.Rel e s r) {n : Nat} (hn : n ≤ W) :
    ResRel (fun (a, s') (b, r') => a = b ∧ BufR.Rel e s' r')
      ((BufR.impl e).peekBits s n) (RefR.peekBits r n) := by
  by_cases h0 : n = 0
  · subst h0
    cases e <;> simp [BufR.impl, peekBitsLE, peekBitsBE, RefR.peekBits, ResRel]
  · have h1 : 1 ≤ n := Nat.pos_of_ne_zero h0
    cases e with
    | le => exact liftLE (peekBitsLE_sim ((rel_le_iff _ _).1 h) h1 hn)
    | be => exact liftBE (peekBitsBE_sim ((rel_be_iff _ _).1 h) h1 hn)

-- a peek that has to refill (8 > 5 buffered bits)
example (e : Endian) : ResRel (fun (a, s') (b, r') => a = b ∧ BufR.Rel e s' r')
    ((BufR.impl e).peekBits (readerExS e) 8) (RefR.peekBits (readerExR e) 8) :=
  peekBits_sim (readerEx_rel e) (by decide)

/-- a peek never moves the reference reader -/
theorem RefR.peekBits_state {r r' : RefR} {n v : Nat} (h : RefR.peekBits r n = .ok (v, r')) : r' = r := by
  unfold RefR.peekBits at h
  split at h
  · cases h
  · split at h
    · cases h; rfl
    · cases h

/-- a failed peek consumed nothing: the interpreter continues from the old, still related, state -/
theorem peek_fail_state {e : Endian} {s : BufR W} {r : RefR} (h : BufR.Rel e s r) {n : Nat} {x : Err}
    (_ : (BufR.impl e).peekBits s n = .err x) : BufR.Rel e s r := h

/-- a failed peek fails identically on the reference side -/
theorem peek_fail_ref {e : Endian} {s : BufR W} {r : RefR} (h : BufR.Rel e s r) {n : Nat} (hn : n ≤ W)
    {x : Err} (hx : (BufR.impl e).peekBits s n = .err x) : RefR.peekBits r n = .err x := by
  have := peekBits_sim h hn
  rw [hx] at this
  cases hr : RefR.peekBits r n <;> rw [hr] at this <;> simp [ResRel] at this
  rw [this]

/-- a successful peek leaves at least `n` bits in the buffer -/
theorem peekBits_bib {e : Endian} {s s1 : BufR W} {n v : Nat}
    (h : (BufR.impl e).peekBits s n = .ok (v, s1)) : n ≤ s1.bib := by
  cases e with
  | le => exact peekBitsLE_bib h
  | be => exact peekBitsBE_bib h

/-- the state after a successful peek is related to the unmoved reference reader -/
theorem peek_ok_state {e : Endian} {s s1 : BufR W} {r : RefR} (h : BufR.Rel e s r) {n v : Nat}
    (hn : n ≤ W) (hpk : (BufR.impl e).peekBits s n = .ok (v, s1)) : BufR.Rel e s1 r := by
  have := peekBits_sim h hn
  rw [hpk] at this
  cases hr : RefR.peekBits r n with
  | ok b =>
    obtain ⟨b, r'⟩ := b
    rw [hr] at this
    have hr' := RefR.peekBits_state hr
    subst hr'
    exact this.2
  | err _ => rw [hr] at this; exact this.elim
  | panic => rw [hr] at this; exact this.elim
  | dpanic => rw [hr] at this; exact this.elim

/-! ### 3. skipAfterPeek -/

/-- skipping at most the number of buffered bits -/
theorem skipAfterPeek_rel {e : Endian} {s : BufR W} {r : RefR} (h : BufR.Rel e s r) {k : Nat}
    (hk : k ≤ s.bib) :
    BufR.Rel e ((BufR.impl e).skipAfterPeek s k) (RefR.skipAfterPeek r k) := by
  cases e with
  | le => exact (rel_le_iff _ _).2 (skipAfterPeekLE_rel ((rel_le_iff _ _).1 h) hk)
  | be => exact (rel_be_iff _ _).2 (skipAfterPeekBE_rel ((rel_be_iff _ _).1 h) hk)

theorem skipAfterPeek_sim {e : Endian} {s s1 : BufR W} {r : RefR} (h : BufR.Rel e s r) {n v k : Nat}
    (hn : n ≤ W) (hpk : (BufR.impl e).peekBits s n = .ok (v, s1)) (hk : k ≤ n) :
    BufR.Rel e ((BufR.impl e).skipAfterPeek s1 k) (RefR.skipAfterPeek r k) :=
  skipAfterPeek_rel (peek_ok_state h hn hpk) (Nat.le_trans hk (peekBits_bib hpk))

example (e : Endian) : ∃ v s1, (BufR.impl e).peekBits (readerExS e) 8 = .ok (v, s1) ∧
    BufR.Rel e ((BufR.impl e).skipAfterPeek s1 7) (RefR.skipAfterPeek (readerExR e) 7) := by
  cases e
  · exact ⟨_, _, rfl, skipAfterPeek_sim (n := 8) (readerEx_rel .be) (by decide) rfl (by decide)⟩
  · exact ⟨_, _, rfl, skipAfterPeek_sim (n := 8) (readerEx_rel .le) (by decide) rfl (by decide)⟩

/-! ### 4. skipBits, readUnary -/

theorem skipBits_sim {e : Endian} {s : BufR W} {r : RefR} (h : BufR.Rel e s r) (n : Nat) :
    ResRel (fun s' r' => BufR.Rel e s' r') ((BufR.impl e).skipBits s n) (RefR.skipBits r n) := by
  have hW := Rel.pos_W h
  cases e with
  | le =>
    exact ResRel.mono_rr (fun _ _ hab => (rel_le_iff _ _).2 hab) (skipBitsLE_sim hW ((rel_le_iff _ _).1 h) n)
  | be =>
    exact ResRel.mono_rr (fun _ _ hab => (rel_be_iff _ _).2 hab) (skipBitsBE_sim hW ((rel_be_iff _ _).1 h) n)

-- 14 > 5 buffered bits: skips one whole word and part of the next
example (e : Endian) : ResRel (fun s' r' => BufR.Rel e s' r')
    ((BufR.impl e).skipBits (readerExS e) 14) (RefR.skipBits (readerExR e) 14) :=
  skipBits_sim (readerEx_rel e) 14

/-- no restriction: on a zero-extended stream with no one ahead the model runs out of fuel
    (`dpanic`) exactly where the reference is `dpanic`; on a strict stream both are `err eof` -/
theorem readUnary_sim {e : Endian} {s : BufR W} {r : RefR} (h : BufR.Rel e s r) :
    ResRel (fun (a, s') (b, r') => a = b ∧ BufR.Rel e s' r')
      ((BufR.impl e).readUnary s) (RefR.readUnary r) := by
  have hW := Rel.pos_W h
  cases e with
  | le => exact liftLE (readUnaryLE_sim hW ((rel_le_iff _ _).1 h))
  | be => exact liftBE (readUnaryBE_sim hW ((rel_be_iff _ _).1 h))

example (e : Endian) : ResRel (fun (a, s') (b, r') => a = b ∧ BufR.Rel e s' r')
    ((BufR.impl e).readUnary (readerExS e)) (RefR.readUnary (readerExR e)) :=
  readUnary_sim (readerEx_rel e)

/-! ### 5. setBitPos, bitPos -/

theorem setBitPos_sim {e : Endian} {s : BufR W} {r : RefR} (h : BufR.Rel e s r) {p : Nat}
    (hp : p ≤ r.stream.length) :
    ResRel (fun s' r' => BufR.Rel e s' r') (BufR.setBitPos e s p) (.ok (r.seek p)) := by
  have hW := Rel.pos_W h
  cases e with
  | le =>
    exact ResRel.mono_rr (fun _ _ hab => (rel_le_iff _ _).2 hab) (setBitPosLE_sim hW ((rel_le_iff _ _).1 h) hp)
  | be =>
    exact ResRel.mono_rr (fun _ _ hab => (rel_be_iff _ _).2 hab) (setBitPosBE_sim hW ((rel_be_iff _ _).1 h) hp)

example (e : Endian) : ResRel (fun s' r' => BufR.Rel e s' r')
    (BufR.setBitPos e (readerExS e) 19) (.ok ((readerExR e).seek 19)) :=
  setBitPos_sim (readerEx_rel e) (by cases e <;> decide)

theorem bitPos_eq {e : Endian} {s : BufR W} {r : RefR} (h : BufR.Rel e s r) : s.bitPos = r.pos := by
  have := h.2.2.2.2.2.2.1
  unfold BufR.bitPos
  omega

example (e : Endian) : (readerExS e).bitPos = 3 := bitPos_eq (readerEx_rel e)

/-! ### 6. the initial state -/

theorem new_rel (e : Endian) (hW : 0 < W) (data : List (BitVec W)) (strict : Bool) :
    BufR.Rel e (BufR.new ⟨data, 0, strict⟩)
      { e := e, stream := data.flatMap (wordBits e), pos := 0, strict := strict, peekMax := W } := by
  refine ⟨by show 0 < 2 * W; omega, ?_, rfl, rfl, rfl, rfl, by simp [BufR.new], fun _ => Nat.zero_le _, ?_⟩
  · cases e <;> simp [BufR.Clean, BufR.new]
  · cases e <;> simp [BufR.window, BufR.new, fieldBits, fieldLE, takeZ]

example (e : Endian) : BufR.Rel e (BufR.new ⟨[0xA5#8, 0x3C#8], 0, true⟩)
    { e := e, stream := [0xA5#8, 0x3C#8].flatMap (wordBits e), pos := 0, strict := true, peekMax := 8 } :=
  new_rel e (by decide) _ _

/-- a fresh `W = 65` BE reader over the single word `2^64` (top bit set) -/
def readerCexS : BufR 65 := BufR.new ⟨[BitVec.ofNat 65 (2 ^ 64)], 0, false⟩
def readerCexR : RefR :=
  { e := .be, stream := [BitVec.ofNat 65 (2 ^ 64)].flatMap (wordBits .be), pos := 0, strict := false,
    peekMax := 65 }

/-- `W ≤ 64` is necessary for the BE reader as modelled: with `W = 65`, `read_bits(1)` on `readerCexS`
    returns `0`, the reference returns `1` (`(w as u64) >> (W - n)` truncates the word).
    The Rust only instantiates `W ≤ 64`. -/
theorem readBitsBE_needs_W_le_64 :
    BufR.Rel .be readerCexS readerCexR ∧
    ¬ ResRel (fun (a, s') (b, r') => a = b ∧ BufR.Rel .be s' r')
        ((BufR.impl .be).readBits readerCexS 1) (RefR.readBits readerCexR 1) := by
  refine ⟨new_rel .be (by decide) _ _, ?_⟩
  obtain ⟨s', hs⟩ : ∃ s', (BufR.impl .be).readBits readerCexS 1 = .ok (0, s') := ⟨_, rfl⟩
  obtain ⟨r', hr⟩ : ∃ r', RefR.readBits readerCexR 1 = .ok (1, r') := ⟨_, rfl⟩
  rw [hs, hr]
  intro h
  exact absurd h.1 (by decide)

/-! ### 7. reader programs -/

/-- `PeekBounded W c p`: every `peek` of `p` asks for at most `W` bits and every
    `skipAfterPeek k` is covered by the credit of bits known to be in the buffer: `c` initially,
    `n` after a successful `peek n`, the remainder after a `skipAfterPeek`, nothing after any
    other operation. -/
def PeekBounded {α : Type} (W : Nat) : Nat → RProg α → Prop
  | _, .ret _ => True
  | _, .fail _ => True
  | _, .panic => True
  | _, .dpanic => True
  | _, .readBits _ k => ∀ v, PeekBounded W 0 (k v)
  | _, .readUnary k => ∀ v, PeekBounded W 0 (k v)
  | c, .peek n k => n ≤ W ∧ (∀ v, PeekBounded W n (k (.ok v))) ∧ (∀ x, PeekBounded W c (k (.error x)))
  | c, .skipAfterPeek n k => n ≤ c ∧ PeekBounded W (c - n) k
  | _, .skip _ k => PeekBounded W 0 k

private theorem toProj {α : Type} {e : Endian} {x : Res (α × BufR W)} {y : Res (α × RefR)}
    (h : ResRel (fun (a, s') (b, r') => a = b ∧ BufR.Rel e s' r') x y) :
    ResRel (fun a b => a.1 = b.1 ∧ BufR.Rel e a.2 b.2) x y :=
  ResRel.mono_rr (fun _ _ hab => hab) h

private theorem ofProj {α : Type} {e : Endian} {x : Res (α × BufR W)} {y : Res (α × RefR)}
    (h : ResRel (fun a b => a.1 = b.1 ∧ BufR.Rel e a.2 b.2) x y) :
    ResRel (fun (a, s') (b, r') => a = b ∧ BufR.Rel e s' r') x y :=
  ResRel.mono_rr (fun _ _ hab => hab) h

private theorem rprog_sim_aux {α : Type} {e : Endian} (hW64 : e = .be → W ≤ 64) (p : RProg α) :
    ∀ (c : Nat), PeekBounded W c p → ∀ (s : BufR W) (r : RefR), BufR.Rel e s r → c ≤ s.bib →
    ResRel (fun a b => a.1 = b.1 ∧ BufR.Rel e a.2 b.2)
      (p.run (BufR.impl e) s) (p.run RefR.impl r) := by
  induction p with
  | ret a => intro c _ s r h _; exact ⟨rfl, h⟩
  | fail x => intro c _ s r h _; exact rfl
  | panic => intro c _ s r h _; exact trivial
  | dpanic => intro c _ s r h _; exact trivial
  | readBits n k ih =>
    intro c hp s r h _
    have hsim : ResRel _ ((BufR.impl e).readBits s n) (RefR.impl.readBits r n) :=
      toProj (readBits_sim hW64 h n)
    simp only [RProg.run]
    revert hsim
    generalize (BufR.impl e).readBits s n = x
    generalize RefR.impl.readBits r n = y
    intro hsim
    match x, y, hsim with
    | .ok (v, s'), .ok (v', r'), ⟨hv, hrel⟩ =>
      have hv : v = v' := hv
      subst hv
      exact ih v 0 (hp v) s' r' hrel (Nat.zero_le _)
    | .err _, .err _, hh => exact hh
    | .panic, .panic, _ => exact trivial
    | .dpanic, .dpanic, _ => exact trivial
  | readUnary k ih =>
    intro c hp s r h _
    have hsim : ResRel _ ((BufR.impl e).readUnary s) (RefR.impl.readUnary r) :=
      toProj (readUnary_sim h)
    simp only [RProg.run]
    revert hsim
    generalize (BufR.impl e).readUnary s = x
    generalize RefR.impl.readUnary r = y
    intro hsim
    match x, y, hsim with
    | .ok (v, s'), .ok (v', r'), ⟨hv, hrel⟩ =>
      have hv : v = v' := hv
      subst hv
      exact ih v 0 (hp v) s' r' hrel (Nat.zero_le _)
    | .err _, .err _, hh => exact hh
    | .panic, .panic, _ => exact trivial
    | .dpanic, .dpanic, _ => exact trivial
  | peek n k ih =>
    intro c hp s r h hc
    obtain ⟨hn, hok, herr⟩ := hp
    have hsim : ResRel _ ((BufR.impl e).peekBits s n) (RefR.impl.peekBits r n) :=
      toProj (peekBits_sim h hn)
    have hbib : ∀ v s1, (BufR.impl e).peekBits s n = .ok (v, s1) → n ≤ s1.bib :=
      fun v s1 hh => peekBits_bib hh
    simp only [RProg.run]
    revert hsim hbib
    generalize (BufR.impl e).peekBits s n = x
    generalize RefR.impl.peekBits r n = y
    intro hsim hbib
    match x, y, hsim with
    | .ok (v, s'), .ok (v', r'), ⟨hv, hrel⟩ =>
      have hv : v = v' := hv
      subst hv
      exact ih (.ok v) n (hok v) s' r' hrel (hbib v s' rfl)
    | .err x1, .err x2, hh =>
      have : x1 = x2 := hh
      subst this
      exact ih (.error x1) c (herr x1) s r h hc
    | .panic, .panic, _ => exact trivial
    | .dpanic, .dpanic, _ => exact trivial
  | skipAfterPeek n k ih =>
    intro c hp s r h hc
    obtain ⟨hn, hk⟩ := hp
    simp only [RProg.run]
    apply ih (c - n) hk _ _ (skipAfterPeek_rel h (Nat.le_trans hn hc))
    cases e <;> simp [BufR.impl, skipAfterPeekLE, skipAfterPeekBE] <;> omega
  | skip n k ih =>
    intro c hp s r h _
    have hsim : ResRel _ ((BufR.impl e).skipBits s n) (RefR.impl.skipBits r n) := skipBits_sim h n
    simp only [RProg.run]
    revert hsim
    generalize (BufR.impl e).skipBits s n = x
    generalize RefR.impl.skipBits r n = y
    intro hsim
    match x, y, hsim with
    | .ok s', .ok r', hrel => exact ih 0 hp s' r' hrel (Nat.zero_le _)
    | .err _, .err _, hh => exact hh
    | .panic, .panic, _ => exact trivial
    | .dpanic, .dpanic, _ => exact trivial

/-- the simulation with an initial credit `c ≤ s.bib` of bits known to be buffered -/
theorem rprog_sim_credit {α : Type} {e : Endian} (hW64 : e = .be → W ≤ 64) (p : RProg α)
    (c : Nat) (hp : PeekBounded W c p) {s : BufR W} {r : RefR} (h : BufR.Rel e s r) (hc : c ≤ s.bib) :
    ResRel (fun (a, s') (b, r') => a = b ∧ BufR.Rel e s' r')
      (p.run (BufR.impl e) s) (p.run RefR.impl r) :=
  ofProj (rprog_sim_aux hW64 p c hp s r h hc)

/-- every reader program with bounded, covered peeks runs identically (related outcomes, related
    final states) on the buffered reader and on the reference reader -/
theorem rprog_sim {α : Type} {e : Endian} (hW64 : e = .be → W ≤ 64) (p : RProg α)
    (hp : PeekBounded W 0 p) {s : BufR W} {r : RefR} (h : BufR.Rel e s r) :
    ResRel (fun (a, s') (b, r') => a = b ∧ BufR.Rel e s' r')
      (p.run (BufR.impl e) s) (p.run RefR.impl r) :=
  rprog_sim_credit hW64 p 0 hp h (Nat.zero_le _)

/-- the table-reader shape: peek `n ≤ W` bits, on success skip `len idx ≤ n` bits and return,
    on failure run a fallback -/
theorem peekBounded_table {α : Type} {n : Nat} (hn : n ≤ W) (len : Nat → Nat) (val : Nat → α)
    (fallback : Err → RProg α) (hlen : ∀ idx, len idx ≤ n) (hf : ∀ x, PeekBounded W 0 (fallback x)) :
    PeekBounded W 0 (.peek n (fun
      | .ok idx => .skipAfterPeek (len idx) (.ret (val idx))
      | .error x => fallback x)) :=
  ⟨hn, fun idx => ⟨hlen idx, trivial⟩, hf⟩

theorem table_sim {α : Type} {e : Endian} (hW64 : e = .be → W ≤ 64) {n : Nat} (hn : n ≤ W)
    (len : Nat → Nat) (val : Nat → α) (fallback : Err → RProg α) (hlen : ∀ idx, len idx ≤ n)
    (hf : ∀ x, PeekBounded W 0 (fallback x)) {s : BufR W} {r : RefR} (h : BufR.Rel e s r) :
    ResRel (fun (a, s') (b, r') => a = b ∧ BufR.Rel e s' r')
      ((RProg.peek n (fun
        | .ok idx => .skipAfterPeek (len idx) (.ret (val idx))
        | .error x => fallback x)).run (BufR.impl e) s)
      ((RProg.peek n (fun
        | .ok idx => .skipAfterPeek (len idx) (.ret (val idx))
        | .error x => fallback x)).run RefR.impl r) :=
  rprog_sim hW64 _ (peekBounded_table hn len val fallback hlen hf) h

/-- a program mixing every operation -/
def readerExProg : RProg Nat :=
  .peek 4 (fun
    | .ok idx => .skipAfterPeek 2 (.readBits 9 (fun v => .skip 3 (.readUnary (fun u => .ret (idx + v + u)))))
    | .error _ => .readUnary .ret)

theorem readerExProg_bounded : PeekBounded 8 0 readerExProg :=
  ⟨by decide, fun _ => ⟨by decide, fun _ => fun _ => trivial⟩, fun _ => fun _ => trivial⟩

example (e : Endian) : ResRel (fun (a, s') (b, r') => a = b ∧ BufR.Rel e s' r')
    (readerExProg.run (BufR.impl e) (readerExS e)) (readerExProg.run RefR.impl (readerExR e)) :=
  rprog_sim (fun _ => by decide) readerExProg readerExProg_bounded (readerEx_rel e)

end Dsi
