/-
  Headline theorems for C08 (bulk copy moves exactly `n` bits and leaves both streams intact),
  stated over generated definitions only:
  * `GenCopy.genCopyTo e checks (genWImpl e) s t n`: the specialised `BufBitReader::copy_to`
    (lean/Dsi/Gen/CopyBodies.lean), reading with the generated `read_bits` / backend and writing
    through the generated `BufBitWriter` (`genWImpl e`);
  * `GenBufW.genCopyFrom e (genRImpl e) t s n`: the specialised `BufBitWriter::copy_from`
    (lean/Dsi/Gen/BufWriterBodies.lean), reading through the generated `BufBitReader` (`genRImpl e`);
  * `Gen.Traits.copy_to_default` / `copy_from_default (genRImpl e) (genWImpl e)`: the trait-default
    chunked loops (what the build option `no_copy_impls` leaves), between the generated machines;
  * `bitByBit (genRImpl e) (genWImpl e) n`: `n` times `write_bits(read_bits(1)?, 1)?` on the
    generated machines: the bits transferred one at a time.

  `Moved e data strict pos checks bits₀ n x` says that the outcome `x` is a success `(s', t')` with
  * every generated reader program run from `s'` behaving (value or failure, and the generated
    `bit_pos` afterwards) as on the reference reader standing at bit `pos + n` of the backend: the
    reader has advanced by exactly `n` bits, and reads, peeks, table look-ahead, skips and further
    copies continue from there;
  * every generated writer program run from `t'`, followed by the generated `flush`, delivering the
    canonical byte layout of `bits₀ ++ (the reader's next n bits) ++ (what the program writes)`,
    zero-padded to a word: exactly the reader's next `n` bits, in order, were appended.
  `gen_copy_to_moves` / `gen_copy_moves`: the five ways of copying are all `Moved` with the same
  parameters — in particular each is observationally the bit-by-bit transfer — from a reader in
  any state reached by a generated program (so: any number of words buffered after a look-ahead)
  and a writer in any state reached by a generated program (any fill level).

  Hypotheses, and why (see Props/Copy.lean for the counterexamples):
  * `Wr ≤ 64` for the specialised `copy_to` (`genCopyTo_needs_W_le_64`: its word loop calls
    `write_bits(word, Wr)`); `e = .be → Wr ≤ 64` for the others (from `readBits_sim`);
  * `hck`: for LE, a `copy_to` compiled without `checks` hands a dirty word to a writer compiled
    with `checks` (`copyTo_le_unchecked_tail_dirty`: not a configuration cargo produces);
  * `hav`: on a strict backend the `n` bits are there (otherwise: `UnexpectedEof`, C09);
  * `n < 2^64` (`n: u64`), `Ww < 2^64`, `hfit` (stream shorter than `2^64` bits), `8 ∣ Ww` (a word
    is a whole number of bytes: the byte image).
-/
import Dsi.Lemmas.Headline2Reader
import Dsi.Lemmas.Headline2Trip
import Dsi.Props.Copy
import Dsi.Props.CopyGen
import Dsi.Props.BufWriterCopyWideGen
namespace Dsi
namespace Headline2
open Headline CopyL BufW E2E

/-! ## bits transferred one at a time -/

/-- `n` times `write_bits(read_bits(1)?, 1)?` -/
def bitByBit {ρ ω : Type} (ri : RImpl ρ) (wi : WImpl ω) : Nat → ρ → ω → Res (ρ × ω)
  | 0, r, w => .ok (r, w)
  | n + 1, r, w =>
    match ri.readBits r 1 with
    | .ok (v, r') =>
      match wi.writeBits w v 1 with
      | .ok (_, w') => bitByBit ri wi n r' w'
      | .err e => .err e
      | .panic => .panic
      | .dpanic => .dpanic
    | .err e => .err e
    | .panic => .panic
    | .dpanic => .dpanic

theorem bitByBit_succ {ρ ω : Type} (ri : RImpl ρ) (wi : WImpl ω) (n : Nat) (r : ρ) (w : ω) :
    bitByBit ri wi (n + 1) r w = (copyStep ri wi r w 1).bind (fun p => bitByBit ri wi n p.1 p.2) := by
  rw [bitByBit]
  unfold copyStep
  cases ri.readBits r 1 with
  | ok p =>
    obtain ⟨v, r'⟩ := p
    simp only
    cases wi.writeBits w v 1 with
    | ok q => obtain ⟨_, w'⟩ := q; rfl
    | err _ => rfl
    | panic => rfl
    | dpanic => rfl
  | err _ => rfl
  | panic => rfl
  | dpanic => rfl

theorem bitByBit_sim {ρ ω : Type} {ri : RImpl ρ} {wi : WImpl ω} {P : ρ → RefR → Prop}
    {Q : ω → RefW → Prop} (hr : RSim ri P) (hw : WSim wi Q) :
    ∀ (n : Nat) {s : ρ} {r : RefR} {t : ω} {w : RefW}, P s r → Q t w → w.e = r.e →
      ResRel (PQ P Q) (bitByBit ri wi n s t) (refCopyBits n r w) := by
  intro n
  induction n with
  | zero => intro s r t w hP hQ _; exact ⟨hP, hQ⟩
  | succ n ih =>
    intro s r t w hP hQ he
    rw [bitByBit_succ]
    show ResRel _ _ ((refCopy r w 1).bind fun p => refCopyBits n p.1 p.2)
    have h1 := copyStep_sim hr hw hP hQ 1
    rw [copyStep_ref r w 1 (by decide) he] at h1
    cases hc : refCopy r w 1 with
    | ok b =>
      rw [hc] at h1
      obtain ⟨a, ha, hPQ⟩ := ResRel.ok_right h1
      rw [ha]
      obtain ⟨hb1, hb2, _, _, _⟩ := refCopy_ok_facts (r' := b.1) (w' := b.2) hc
      exact ih hPQ.1 hPQ.2 (by rw [hb2, hb1]; exact he)
    | err x =>
      rw [hc] at h1
      revert h1
      cases copyStep ri wi s t 1 <;> intro h1 <;> first | exact h1.elim | exact h1
    | panic =>
      rw [hc] at h1
      revert h1
      cases copyStep ri wi s t 1 <;> intro h1 <;> first | exact h1.elim | exact h1
    | dpanic =>
      rw [hc] at h1
      revert h1
      cases copyStep ri wi s t 1 <;> intro h1 <;> first | exact h1.elim | exact h1

/-! ## the generated machines simulate the reference machines -/

theorem rsim_gen {W : Nat} {e : Endian} (hW64 : e = .be → W ≤ 64) :
    RSim (genRImpl e : RImpl (BufR W)) (GInv e) := by
  intro s r n h
  rw [genR_readBits e s h.2]
  have hs := readBits_sim hW64 h.1 n
  cases hx : (BufR.impl e).readBits s n with
  | ok x =>
    obtain ⟨v, s'⟩ := x
    rw [hx] at hs
    revert hs
    cases RefR.readBits r n with
    | ok y => intro hs; exact ⟨hs.1, hs.2, hand_readBits_rinv e h.2 hx⟩
    | err _ => exact id
    | panic => exact id
    | dpanic => exact id
  | err _ => rw [hx] at hs; revert hs; cases RefR.readBits r n <;> exact id
  | panic => rw [hx] at hs; revert hs; cases RefR.readBits r n <;> exact id
  | dpanic => rw [hx] at hs; revert hs; cases RefR.readBits r n <;> exact id

theorem wsim_gen {W : Nat} (e : Endian) : WSim (genWImpl e : WImpl (BufW W)) (BufW.RelC e) := by
  intro t w v n h
  rw [genW_writeBits e t h.1.1 v n]
  exact wsim_bufW e t w v n h

theorem genR_readBits_u64 {W : Nat} (e : Endian) :
    ∀ (r : BufR W) k v r', (genRImpl e).readBits r k = .ok (v, r') → v < 2 ^ 64 := by
  intro r k v r' h
  cases e <;>
  · change GenBufR.natOut _ = _ at h
    unfold GenBufR.natOut Res.map at h
    split at h
    · rename_i p _
      cases h
      exact p.1.isLt
    all_goals cases h

/-! ## the statement -/

/-- the outcome `x` of a transfer between a generated reader over `⟨data, _, strict⟩` standing at bit
    `pos` and a generated writer holding `bits₀`: success, the reader continues at `pos + n`, the
    writer holds `bits₀` followed by the reader's next `n` bits (see the header) -/
def Moved (e : Endian) {Wr Ww : Nat} (data : List (BitVec Wr)) (strict : Bool) (pos : Nat)
    (checks : Bool) (bits₀ : List Bool) (n : Nat) (x : Res (BufR Wr × BufW Ww)) : Prop :=
  ∃ s' t', x = .ok (s', t') ∧
    (∀ {β : Type} (q : RProg β), PeekBounded Wr 0 q →
      ResRel (fun (a : β × BufR Wr) (b : β × RefR) => a.1 = b.1 ∧
          ((b.2.strict = true ∨ b.2.pos + 2 * Wr ≤ 2 ^ 64) →
            GenBufR.genBitPos e a.2 = .ok (b.2.pos, a.2)))
        (q.run (genRImpl e) s') (q.run RefR.impl (refAt e data strict Wr (pos + n)))) ∧
    (∀ {β : Type} (qw : WProg β) (b : β) (w' : RefW),
      qw.run RefW.impl
        (refW e Ww checks (bits₀ ++ takeZ n ((data.flatMap (wordBits e)).drop pos))) = .ok (b, w') →
      ∃ (t1 : BufW Ww) (k : Nat) (t2 : BufW Ww),
        qw.run (genWImpl e) t' = .ok (b, t1) ∧ (genWImpl e).flush t1 = .ok (k, t2) ∧
        t2.outBytes e = layout e (w'.bits ++ wpad Ww w'.bits.length))

/-- a transfer that simulates the specification `refCopy` is `Moved` -/
theorem moved_of_sim {e : Endian} {Wr Ww : Nat} (hW64 : e = .be → Wr ≤ 64) (h8 : 8 ∣ Ww)
    (hWw64 : Ww < 2 ^ 64) {data : List (BitVec Wr)} {strict : Bool} {pos : Nat} {checks : Bool}
    {bits₀ : List Bool} {n : Nat} (hav : strict = true → pos + n ≤ data.length * Wr)
    {x : Res (BufR Wr × BufW Ww)}
    (h : ResRel (PQ (GInv e) (BufW.RelC e)) x
      (refCopy (refAt e data strict Wr pos) (refW e Ww checks bits₀) n)) :
    Moved e data strict pos checks bits₀ n x := by
  have hav' : (refAt e data strict Wr pos).avail n = true := by
    unfold RefR.avail refAt
    simp only [length_flatMap_wordBits, Bool.or_eq_true, Bool.not_eq_eq_eq_not, Bool.not_true,
      decide_eq_true_eq]
    cases strict
    · exact Or.inl rfl
    · exact Or.inr (hav rfl)
  rw [refCopy_growable _ _ n hav' rfl] at h
  obtain ⟨⟨s', t'⟩, hx, hs', ht'⟩ := ResRel.ok_right h
  refine ⟨s', t', hx, ?_, ?_⟩
  · intro β q hq
    exact (gen_run_sim hW64 q hq hs').mono_rr (fun _ _ hh => ⟨hh.1, fun hf => gen_bitPos_ginv hh.2 hf⟩)
  · intro β qw b w' hqw
    obtain ⟨t1, k, t2, h1, h2, h3, _⟩ := gen_image_of_relC e h8 hWw64 ht' qw hqw
    exact ⟨t1, k, t2, h1, h2, h3⟩

/-- the reader and the writer in the states the copy starts from -/
theorem copy_setup {α γ : Type} (e : Endian) {Wr Ww : Nat} (hWr : 0 < Wr) (hW64 : e = .be → Wr ≤ 64)
    (hWw : 0 < Ww) (hWw64 : Ww < 2 ^ 64)
    (data : List (BitVec Wr)) (strict : Bool) (hfit : data.length * Wr + 4 * Wr < 2 ^ 64)
    (pr : RProg α) (hpr : PeekBounded Wr 0 pr) {a : α} {r1 : RefR}
    (hrr : pr.run RefR.impl (refAt e data strict Wr 0) = .ok (a, r1))
    (checks : Bool) (pw : WProg γ) {c : γ} {w1 : RefW}
    (hpw : pw.run RefW.impl (refW e Ww checks []) = .ok (c, w1)) :
    ∃ (s : BufR Wr) (t : BufW Ww),
      pr.run (genRImpl e) (BufR.new ⟨data, 0, strict⟩) = .ok (a, s) ∧
      pw.run (genWImpl e) (BufW.new Ww checks none) = .ok (c, t) ∧
      GInv e s (refAt e data strict Wr r1.pos) ∧ BufW.RelC e t (refW e Ww checks w1.bits) := by
  obtain ⟨s, hs, hi⟩ := gen_run_of_ref_ok hW64 pr hpr (ginv_new e hWr data strict hfit) hrr
  obtain ⟨t, ht, hrel⟩ := gen_wrun_relC e hWw hWw64 checks pw hpw
  rw [ref_run_refAt hrr] at hi
  exact ⟨s, t, hs, ht, hi, hrel⟩

section
variable {α γ : Type} (e : Endian) {Wr Ww : Nat} (hWr : 0 < Wr) (hWw : 0 < Ww) (h8 : 8 ∣ Ww)
  (hWw64 : Ww < 2 ^ 64)
  (data : List (BitVec Wr)) (strict : Bool) (hfit : data.length * Wr + 4 * Wr < 2 ^ 64)
  (pr : RProg α) (hpr : PeekBounded Wr 0 pr) {a : α} {r1 : RefR}
  (hrr : pr.run RefR.impl (refAt e data strict Wr 0) = .ok (a, r1))
  (checks : Bool) (pw : WProg γ) {c : γ} {w1 : RefW}
  (hpw : pw.run RefW.impl (refW e Ww checks []) = .ok (c, w1))
  (n : Nat) (hn : n < 2 ^ 64) (hav : strict = true → r1.pos + n ≤ data.length * Wr)
include hWr hWw h8 hWw64 hfit hpr hrr hpw hn hav

/-- **C08, the specialised `BufBitReader::copy_to`** (compiled with `checks = ck`), from any reader
    state and any writer state reached by generated programs: the next `n` bits are moved. -/
theorem gen_copy_to_moves (hWr64 : Wr ≤ 64) (ck : Bool) (hck : e = .le → checks = true → ck = true) :
    ∃ (s : BufR Wr) (t : BufW Ww),
      pr.run (genRImpl e) (BufR.new ⟨data, 0, strict⟩) = .ok (a, s) ∧
      pw.run (genWImpl e) (BufW.new Ww checks none) = .ok (c, t) ∧
      Moved e data strict r1.pos checks w1.bits n
        (GenCopy.genCopyTo e ck (genWImpl e) s t (BitVec.ofNat 64 n)) := by
  obtain ⟨s, t, hs, ht, hi, hrel⟩ := copy_setup e hWr (fun _ => hWr64) hWw hWw64 data strict hfit pr hpr
    hrr checks pw hpw
  refine ⟨s, t, hs, ht, moved_of_sim (fun _ => hWr64) h8 hWw64 hav ?_⟩
  have htn : (BitVec.ofNat 64 n).toNat = n := by rw [BitVec.toNat_ofNat, Nat.mod_eq_of_lt hn]
  rw [GenCopy.genCopyTo_eq e ck _ s t _ hWr (by omega) hi.1.1, htn]
  have hav' : (refAt e data strict Wr r1.pos).avail n = true := by
    unfold RefR.avail refAt
    simp only [length_flatMap_wordBits, Bool.or_eq_true, Bool.not_eq_eq_eq_not, Bool.not_true,
      decide_eq_true_eq]
    cases strict
    · exact Or.inl rfl
    · exact Or.inr (hav rfl)
  have hsim := copyTo_sim_gen (wsim_gen (W := Ww) e) ck hWr64 hi.1 hrel rfl
    (fits_of_relC hrel) (fun hle hwc => hck hle hwc) hav'
  -- the reader's invariant after the copy
  revert hsim
  cases hc : refCopy (refAt e data strict Wr r1.pos) (refW e Ww checks w1.bits) n with
  | ok b =>
    intro hsim
    obtain ⟨x, hx, hP, hQ⟩ := ResRel.ok_right hsim
    rw [hx]
    obtain ⟨hb1, _⟩ := refCopy_ok_facts (r' := b.1) (w' := b.2) hc
    exact ⟨hi.of_rel hP (by rw [hb1]), hQ⟩
  | err _ => intro hsim; revert hsim; cases BufR.copyTo e ck (genWImpl e) s t n <;> exact id
  | panic => intro hsim; revert hsim; cases BufR.copyTo e ck (genWImpl e) s t n <;> exact id
  | dpanic => intro hsim; revert hsim; cases BufR.copyTo e ck (genWImpl e) s t n <;> exact id

/-- **C08, the other ways of copying**: the specialised `BufBitWriter::copy_from` (any writer word
    width), the trait-default `copy_to` and `copy_from` (`no_copy_impls`), and the transfer one bit
    at a time — all between the generated reader and the generated writer, from any states reached
    by generated programs: each moves the next `n` bits, with the same observable outcome. -/
theorem gen_copy_moves (hW64 : e = .be → Wr ≤ 64) :
    ∃ (s : BufR Wr) (t : BufW Ww),
      pr.run (genRImpl e) (BufR.new ⟨data, 0, strict⟩) = .ok (a, s) ∧
      pw.run (genWImpl e) (BufW.new Ww checks none) = .ok (c, t) ∧
      Moved e data strict r1.pos checks w1.bits n
        (GenBufW.genCopyFrom e (genRImpl e) t s (BitVec.ofNat 64 n)) ∧
      Moved e data strict r1.pos checks w1.bits n
        (Gen.Traits.copy_to_default (genRImpl e) (genWImpl e) s t (BitVec.ofNat 64 n)) ∧
      Moved e data strict r1.pos checks w1.bits n
        (Gen.Traits.copy_from_default (genRImpl e) (genWImpl e) s t (BitVec.ofNat 64 n)) ∧
      Moved e data strict r1.pos checks w1.bits n
        (bitByBit (genRImpl e) (genWImpl e) n s t) := by
  obtain ⟨s, t, hs, ht, hi, hrel⟩ := copy_setup e hWr hW64 hWw hWw64 data strict hfit pr hpr
    hrr checks pw hpw
  have htn : (BitVec.ofNat 64 n).toNat = n := by rw [BitVec.toNat_ofNat, Nat.mod_eq_of_lt hn]
  have hav' : (refAt e data strict Wr r1.pos).avail n = true := by
    unfold RefR.avail refAt
    simp only [length_flatMap_wordBits, Bool.or_eq_true, Bool.not_eq_eq_eq_not, Bool.not_true,
      decide_eq_true_eq]
    cases strict
    · exact Or.inl rfl
    · exact Or.inr (hav rfl)
  have hav0 : (refAt e data strict Wr r1.pos).avail 0 = true := avail_mono _ (Nat.zero_le n) hav'
  have hgen : ResRel (PQ (GInv e) (BufW.RelC e))
      (copyGeneric (genRImpl e) (genWImpl e) (n / 64 + 2) s t n)
      (refCopy (refAt e data strict Wr r1.pos) (refW e Ww checks w1.bits) n) := by
    have := copyGeneric_sim_gen (rsim_gen hW64) (wsim_gen (W := Ww) e) (n / 64 + 2) n hi hrel
    rwa [copyGeneric_ref_gen _ _ _ n rfl hav0 (fits_of_relC hrel) (by omega)] at this
  refine ⟨s, t, hs, ht, moved_of_sim hW64 h8 hWw64 hav ?_, moved_of_sim hW64 h8 hWw64 hav ?_,
    moved_of_sim hW64 h8 hWw64 hav ?_, moved_of_sim hW64 h8 hWw64 hav ?_⟩
  · rw [GenBufWWide.genCopyFrom_eq_all e _ t s _ hrel.1.1, htn]
    exact copyFrom_sim_gen (rsim_gen hW64) hrel hi rfl hav'
  · rw [GenCopy.copy_to_default_eq _ _ (genR_readBits_u64 e) s t _ (n / 64 + 2) (by rw [htn]; omega), htn]
    exact hgen
  · rw [GenCopy.copy_from_default_eq _ _ (genR_readBits_u64 e) s t _ (n / 64 + 2) (by rw [htn]; omega), htn]
    exact hgen
  · have := bitByBit_sim (rsim_gen hW64) (wsim_gen (W := Ww) e) n hi hrel rfl
    rwa [refCopy_bit_by_bit n _ _ hav0 (fits_of_relC hrel)] at this

end

/-! ## non-vacuity -/

/-- the reader: 3-byte strict stream after a look-ahead (`peek_bits(8)`, `skip_bits_after_peek(3)`:
    more than the consumed bits are buffered); the writer: five bits `10101` pending -/
def exCopyR : RProg Nat := .peek 8 fun
  | .ok _ => .skipAfterPeek 3 (.ret 0)
  | .error _ => .ret 0
def exCopyW : WProg Nat := WProg.wbits 21 5

/-- the five paths computed on the generated machines (17 bits from bit 3 into a 16-bit-word
    writer holding 5 bits), then one more 2-bit write and the flush: the same bytes -/
example :
    ∃ (s : BufR 8) (t : BufW 16),
      exCopyR.run (genRImpl .be) (BufR.new ⟨[0xA5#8, 0x3C#8, 0xF0#8], 0, true⟩) = .ok (0, s) ∧
      exCopyW.run (genWImpl .be) (BufW.new 16 false none) = .ok (5, t) ∧
      ∀ x, (x = GenCopy.genCopyTo .be false (genWImpl .be) s t 17 ∨
            x = GenBufW.genCopyFrom .be (genRImpl .be) t s 17 ∨
            x = Gen.Traits.copy_to_default (genRImpl .be) (genWImpl .be) s t 17 ∨
            x = bitByBit (genRImpl .be) (genWImpl .be) 17 s t) →
        ∃ s' t' t1 t2 k, x = .ok (s', t') ∧ GenBufR.genBitPos .be s' = .ok (20, s') ∧
          (WProg.wbits 3 2).run (genWImpl .be) t' = .ok (2, t1) ∧ (genWImpl .be).flush t1 = .ok (k, t2) ∧
          t2.outBytes .be = [0xA9, 0x4F, 0x3F, 0] := by
  refine ⟨_, _, rfl, rfl, ?_⟩
  intro x hx
  rcases hx with rfl | rfl | rfl | rfl <;> exact ⟨_, _, _, _, _, rfl, rfl, rfl, rfl, rfl⟩

example (e : Endian) {r1 : RefR} {w1 : RefW}
    (hrr : exCopyR.run RefR.impl (refAt e [0xA5#8, 0x3C#8, 0xF0#8] true 8 0) = .ok (0, r1))
    (hpw : exCopyW.run RefW.impl (refW e 16 false []) = .ok (5, w1))
    (n : Nat) (hav : r1.pos + n ≤ 24) :
    ∃ (s : BufR 8) (t : BufW 16),
      exCopyR.run (genRImpl e) (BufR.new ⟨[0xA5#8, 0x3C#8, 0xF0#8], 0, true⟩) = .ok (0, s) ∧
      exCopyW.run (genWImpl e) (BufW.new 16 false none) = .ok (5, t) ∧
      Moved e [0xA5#8, 0x3C#8, 0xF0#8] true r1.pos false w1.bits n
        (GenCopy.genCopyTo e false (genWImpl e) s t (BitVec.ofNat 64 n)) :=
  gen_copy_to_moves e (by decide) (by decide) (by decide) (by decide) _ true (by decide) exCopyR
    ⟨by decide, fun _ => ⟨by decide, trivial⟩, fun _ => trivial⟩ hrr false exCopyW hpw n
    (by omega) (fun _ => hav) (by decide) false (fun _ h => by cases h)

end Headline2
end Dsi
