/-
  The generated method bodies of `WordAdapter<W, B>` (lean/Dsi/Gen/AdapterBodies.lean, produced by
  tools/translate_adapter.py from src/impls/word_adapter.rs on every run) are the hand model:

  * for EVERY wrapped object `β` and every behaviour of its `std::io` methods (`*_eq`): the body is
    the forwarded call, with the word as its native bytes (`read_word`, `write_word`), the byte
    position divided by the word size rounded up (`word_pos`, hypothesis `0 < BYTES`) and the byte
    position `word_index * BYTES` (`set_word_pos`, hypothesis `word_index * BYTES < 2 ^ 64`: the
    Rust multiplication is a `u64` multiplication, which wraps in a build without overflow checks
    and panics in a build with them);
  * instantiated at the hand model's wrapped objects: `Sink.writeWord`, `Source.readWord`
    (lean/Dsi/Impl/Adapter.lean, the fault schedules) and `AdCursor.readWord / wordPos / setWordPos`
    (lean/Dsi/Impl/AdapterSeek.lean), which is what the driver's `adSeekStep` answers `AD seek` with
    (`ad_*_is_gen`).

  Recorded assumption (lean/Dsi/Impl/AdapterSeek.lean): native byte order is little-endian.
-/
import Dsi.Impl.Adapter
import Dsi.Impl.AdapterSeek
import Dsi.Glue.MiscDriver
import Dsi.Gen.AdapterBodies
namespace Dsi
namespace AdapterGen
open Gen

/-! ### the `std` vocabulary -/

/-- `u64::div_ceil` is "add `b - 1`, then divide" -/
theorem divCeil_eq (a b : Nat) (hb : 0 < b) : StdIO.divCeil a b = (a + b - 1) / b := by
  unfold StdIO.divCeil
  have hdm := Nat.div_add_mod a b
  have hr := Nat.mod_lt a hb
  generalize a / b = q at *
  generalize a % b = r at *
  subst hdm
  split
  · rename_i hpos
    symm
    apply Nat.div_eq_of_lt_le
    · rw [Nat.add_mul, Nat.one_mul, Nat.mul_comm q b]; omega
    · rw [Nat.add_mul, Nat.add_mul, Nat.one_mul, Nat.mul_comm q b]; omega
  · rename_i hz
    symm
    apply Nat.div_eq_of_lt_le
    · rw [Nat.mul_comm q b]; omega
    · rw [Nat.add_mul, Nat.one_mul, Nat.mul_comm q b]; omega

/-- the error mapping of `read_word` only changes the message -/
theorem mapErr_id {α : Type} (f : Err → Err) (hf : ∀ e, f e = e) (r : Res α) : StdIO.mapErr f r = r := by
  cases r <;> simp only [StdIO.mapErr, hf]

theorem toNeBytes_length (n w : Nat) : (StdIO.toNeBytes n w).length = n := by
  unfold StdIO.toNeBytes
  induction n generalizing w with
  | zero => rfl
  | succ n ih => simp only [leBytes, List.length_cons, ih]

theorem toNeBytes_lt (n w : Nat) : ∀ b ∈ StdIO.toNeBytes n w, b < 256 := by
  unfold StdIO.toNeBytes
  induction n generalizing w with
  | zero => intro b hb; cases hb
  | succ n ih =>
    intro b hb
    simp only [leBytes, List.mem_cons] at hb
    rcases hb with rfl | hb
    · exact Nat.mod_lt _ (by decide)
    · exact ih _ b hb

/-- `W::from_ne_bytes(w.to_ne_bytes()) == w` for a word of `n` bytes -/
theorem fromNeBytes_toNeBytes (n w : Nat) : StdIO.fromNeBytes (StdIO.toNeBytes n w) = w % 256 ^ n := by
  unfold StdIO.fromNeBytes StdIO.toNeBytes
  induction n generalizing w with
  | zero => simp [leBytes, leVal, Nat.mod_one]
  | succ n ih =>
    have h : leVal (leBytes w (n + 1)) = w % 256 + 256 * leVal (leBytes (w / 256) n) := rfl
    rw [h, ih, Nat.pow_succ, Nat.mul_comm (256 ^ n) 256, Nat.mod_mul]

theorem fromNeBytes_toNeBytes_word (n w : Nat) (h : w < 256 ^ n) :
    StdIO.fromNeBytes (StdIO.toNeBytes n w) = w := by
  rw [fromNeBytes_toNeBytes, Nat.mod_eq_of_lt h]

/-! ### constructors -/

theorem new_eq {β : Type} (b : β) : Gen.WordAdapter.new b = ({ backend := b } : WordAdapter β) := rfl

theorem into_inner_eq {β : Type} (a : WordAdapter β) : Gen.WordAdapter.into_inner a = a.backend := rfl

theorem into_inner_new {β : Type} (b : β) : Gen.WordAdapter.into_inner (Gen.WordAdapter.new b) = b := rfl

/-! ### `WordRead::read_word` -/

/-- for every wrapped object: `read_word` is `read_exact` into a buffer of `BYTES` bytes; the word
    is the native value of the bytes read, the error is the error of `read_exact` -/
theorem read_word_eq {β : Type} (n : Nat) (re : β → List Nat → Res (List Nat × β)) (a : WordAdapter β) :
    Gen.WordAdapter.read_word n re a =
      Res.map (fun x => (StdIO.fromNeBytes x.1, ({ backend := x.2 } : WordAdapter β)))
        (re a.backend (List.replicate n 0)) := by
  simp only [Gen.WordAdapter.read_word]
  rw [mapErr_id _ (fun e => by cases e <;> rfl)]
  cases re a.backend (List.replicate n 0) <;> rfl

/-- over a byte source with a fault schedule: the hand model `Source.readWord` -/
theorem read_word_source_eq (n : Nat) (src : Source) :
    Gen.WordAdapter.read_word n (fun s buf => s.readWord buf.length) { backend := src } =
      Res.map (fun x => (leVal x.1, ({ backend := x.2 } : WordAdapter Source))) (src.readWord n) := by
  rw [read_word_eq]
  simp only [List.length_replicate]
  rfl

/-- over a cursor: the hand model `AdCursor.readWord` (the driver's `rw`) -/
theorem read_word_cursor_eq (n : Nat) (c : AdCursor) :
    Gen.WordAdapter.read_word n (fun c buf => c.readWord buf.length) { backend := c } =
      Res.map (fun x => (leVal x.1, ({ backend := x.2 } : WordAdapter AdCursor))) (c.readWord n) := by
  rw [read_word_eq]
  simp only [List.length_replicate]
  rfl

/-! ### `WordWrite::write_word`, `flush` -/

/-- for every wrapped object: `write_word` is `write_all` of the native bytes of the word -/
theorem write_word_eq {β : Type} (n : Nat) (wa : β → List Nat → Res β) (a : WordAdapter β) (w : Nat) :
    Gen.WordAdapter.write_word n wa a w =
      Res.map (fun b => ({ backend := b } : WordAdapter β)) (wa a.backend (StdIO.toNeBytes n w)) := by
  unfold Gen.WordAdapter.write_word
  cases wa a.backend (StdIO.toNeBytes n w) <;> rfl

/-- over a byte sink with a fault schedule: the hand model `Sink.writeWord` on the `n` native
    bytes of the word -/
theorem write_word_sink_eq (n : Nat) (s : Sink) (w : Nat) :
    Gen.WordAdapter.write_word n Sink.writeWord { backend := s } w =
      Res.map (fun b => ({ backend := b } : WordAdapter Sink)) (s.writeWord (leBytes w n)) :=
  write_word_eq n Sink.writeWord { backend := s } w

/-- for every wrapped object: `flush` is forwarded -/
theorem flush_eq {β : Type} (fl : β → Res β) (a : WordAdapter β) :
    Gen.WordAdapter.flush fl a = Res.map (fun b => ({ backend := b } : WordAdapter β)) (fl a.backend) := by
  unfold Gen.WordAdapter.flush
  cases fl a.backend <;> rfl

/-! ### `WordSeek::word_pos`, `set_word_pos` -/

/-- for every wrapped object: `word_pos` is the byte position divided by the word size, rounded up -/
theorem word_pos_eq {β : Type} (n : Nat) (hn : 0 < n) (sp : β → Res (Nat × β)) (a : WordAdapter β) :
    Gen.WordAdapter.word_pos n sp a =
      Res.map (fun x => ((x.1 + n - 1) / n, ({ backend := x.2 } : WordAdapter β))) (sp a.backend) := by
  unfold Gen.WordAdapter.word_pos
  cases sp a.backend with
  | ok x => simp only [Res.bind, Res.map, divCeil_eq _ _ hn]
  | err e => rfl
  | panic => rfl
  | dpanic => rfl

/-- over a cursor: the hand model `AdCursor.wordPos` (the driver's `wp`) -/
theorem word_pos_cursor_eq (n : Nat) (hn : 0 < n) (c : AdCursor) :
    Gen.WordAdapter.word_pos n AdCursor.streamPosition { backend := c } =
      .ok (c.wordPos n, { backend := c }) := by
  rw [word_pos_eq n hn]
  rfl

/-- for every wrapped object: `set_word_pos(k)` seeks to the byte `k * BYTES` from the start,
    PROVIDED the `u64` product does not overflow -/
theorem set_word_pos_eq {β : Type} (n : Nat) (sk : β → StdIO.SeekFrom → Res (Nat × β)) (a : WordAdapter β)
    (k : Nat) (hk : k * n < 2 ^ 64) :
    Gen.WordAdapter.set_word_pos n sk a k =
      Res.map (fun x => ({ backend := x.2 } : WordAdapter β)) (sk a.backend (.start (k * n))) := by
  unfold Gen.WordAdapter.set_word_pos
  rw [Nat.mod_eq_of_lt hk]
  cases sk a.backend (.start (k * n)) <;> rfl

/-- over a cursor: the hand model `AdCursor.setWordPos` (the driver's `sp`), PROVIDED the `u64`
    product does not overflow -/
theorem set_word_pos_cursor_eq (n : Nat) (c : AdCursor) (k : Nat) (hk : k * n < 2 ^ 64) :
    Gen.WordAdapter.set_word_pos n AdCursor.seek { backend := c } k =
      .ok { backend := c.setWordPos n k } := by
  rw [set_word_pos_eq n _ _ k hk]
  rfl

/-- what the source does without the hypothesis (a build without overflow checks): the byte
    position is the product modulo `2 ^ 64`; the hand model `AdCursor.setWordPos` does not wrap -/
theorem set_word_pos_cursor_wraps (n : Nat) (c : AdCursor) (k : Nat) :
    Gen.WordAdapter.set_word_pos n AdCursor.seek { backend := c } k =
      .ok { backend := { c with pos := (k * n) % 2 ^ 64 } } := rfl

/-! ### the driver's `AD seek` answers are the translated bodies over the cursor -/

/-- `wp`: the number shown is the value the translated `word_pos` returns -/
theorem ad_wp_is_gen (n : Nat) (hn : 0 < n) (c : AdCursor) :
    ∃ p a, Gen.WordAdapter.word_pos n AdCursor.streamPosition { backend := c } = .ok (p, a) ∧
      adSeekStep n c ["wp"] = (toString p, some a.backend) :=
  ⟨c.wordPos n, { backend := c }, word_pos_cursor_eq n hn c, by simp [adSeekStep]⟩

/-- `sp k`: the cursor afterwards is the wrapped object after the translated `set_word_pos(k)` -/
theorem ad_sp_is_gen (n : Nat) (c : AdCursor) (ks : String) (k : Nat) (hks : num? ks = some k)
    (hk : k * n < 2 ^ 64) :
    ∃ a, Gen.WordAdapter.set_word_pos n AdCursor.seek { backend := c } k = .ok a ∧
      adSeekStep n c ["sp", ks] = ("ok", some a.backend) :=
  ⟨{ backend := c.setWordPos n k }, set_word_pos_cursor_eq n c k hk, by simp [adSeekStep, hks]⟩

/-- `rw`: the bytes shown are the native bytes of the word the translated `read_word` returns, the
    cursor afterwards is its wrapped object; an error of `read_word` is the error shown -/
theorem ad_rw_is_gen (n : Nat) (c : AdCursor) :
    (∀ v a, Gen.WordAdapter.read_word n (fun c buf => c.readWord buf.length) { backend := c } = .ok (v, a) →
      ∃ w, adSeekStep n c ["rw"] = (bytesHex w, some a.backend) ∧ StdIO.fromNeBytes w = v ∧ w.length = n) ∧
    (∀ e, Gen.WordAdapter.read_word n (fun c buf => c.readWord buf.length) { backend := c } = .err e →
      adSeekStep n c ["rw"] = (showRes (fun _ => "") (.err e : Res Unit), some c.afterFailedRead)) := by
  rw [read_word_cursor_eq]
  unfold AdCursor.readWord
  by_cases h : c.pos + n ≤ c.data.length
  · refine ⟨fun v a hva => ?_, fun e he => ?_⟩
    · simp only [h, if_true, Res.map, Res.ok.injEq, Prod.mk.injEq] at hva
      obtain ⟨rfl, rfl⟩ := hva
      refine ⟨(c.data.drop c.pos).take n, by simp [adSeekStep, AdCursor.readWord, h], rfl, ?_⟩
      rw [List.length_take, List.length_drop]; omega
    · simp only [h, if_true, Res.map] at he
      cases he
  · refine ⟨fun v a hva => ?_, fun e he => ?_⟩
    · simp only [h, if_false, Res.map] at hva
      cases hva
    · simp only [h, if_false, Res.map, Res.err.injEq] at he
      subst he
      simp [adSeekStep, AdCursor.readWord, h, showRes]

/-! ### concrete instances -/

example : Gen.WordAdapter.word_pos 4 AdCursor.streamPosition { backend := { data := List.range 16, pos := 9 } }
    = .ok (3, { backend := { data := List.range 16, pos := 9 } }) := by rfl

example : (Gen.WordAdapter.set_word_pos 8 AdCursor.seek { backend := { data := [], pos := 0 } } (2 ^ 61 + 1)).map
    (fun a => a.backend.pos) = .ok 8 := by
  rw [set_word_pos_cursor_wraps]; rfl

example : (Gen.WordAdapter.read_word 4 (fun s buf => s.readWord buf.length)
      { backend := ({ bytes := [1, 2, 3, 4, 5, 6], sched := [.accept 1, .interrupted, .accept 2] } : Source) }).map
    (fun x => (x.1, x.2.backend.bytes)) = .ok (0x04030201, [5, 6]) := by rfl

end AdapterGen
end Dsi
