/-
  The generated read / write bodies (lean/Dsi/Gen/CodeBodies.lean, produced by
  tools/translate_len.py from the Rust bodies of src/codes/*.rs on every run) against the
  hand-written programs of Dsi/Codes.lean.

  The generated programs are the literal composition of `write_unary` / `write_bits` /
  `read_unary` / `read_bits` calls of the Rust text, with no panic points.

  * Writers: on the parameter domain where the hand-written program has no panic point
    (`n < 2^64 - 1`, `k < 64`, `max ≠ 0`, …) the two programs are *equal* (`*_eq`).
  * Readers: the hand-written program is the generated one with panic points inserted, some of
    which depend on the values read (`Guarded hand gen`, theorems `*_guarded`); `Guarded.sound`
    turns this into: on every implementation and state the hand-written program either panics or
    runs exactly like the generated one.
-/
import Dsi.Defaults
import Dsi.Gen.CodeBodies
import Dsi.Lemmas.CodesBArith
import Dsi.Ref
namespace Dsi
namespace CodeBodiesGen
open Gen

/-! ### arithmetic helpers -/

theorem one_shl (l : Nat) : 1 <<< l = 2 ^ l := by
  simp [Nat.shiftLeft_eq]

theorem pow_lt64 {e : Nat} (h : e < 64) : 2 ^ e < 2 ^ 64 := Nat.pow_lt_pow_right (by decide) h

theorem one_shl_mod {e : Nat} (h : e < 64) : (1 <<< e) % 2 ^ 64 = 2 ^ e := by
  rw [one_shl, Nat.mod_eq_of_lt (pow_lt64 h)]

/-- `(1_u128 << k).wrapping_sub(1) as u64` is the mask `2^k - 1`. -/
theorem mask_eq {k : Nat} (hk : k < 64) :
    (((1 <<< k) % 2 ^ 128 + 2 ^ 128 - 1) % 2 ^ 128) % 2 ^ 64 = 2 ^ k - 1 := by
  have h2 : 2 ^ k < 2 ^ 64 := pow_lt64 hk
  have h3 : 0 < 2 ^ k := Nat.pow_pos (by decide)
  rw [one_shl]
  generalize 2 ^ k = P at *
  omega

theorem and_mask {k : Nat} (n : Nat) (hk : k < 64) :
    n &&& ((((1 <<< k) % 2 ^ 128 + 2 ^ 128 - 1) % 2 ^ 128) % 2 ^ 64) = n % 2 ^ k := by
  rw [mask_eq hk, Nat.and_two_pow_sub_one_eq_mod]

theorem xor_pow (l r : Nat) (hr : r < 2 ^ l) : (2 ^ l + r) ^^^ 2 ^ l = r := by
  apply Nat.eq_of_testBit_eq
  intro i
  rw [Nat.testBit_xor, Nat.testBit_two_pow]
  rcases Nat.lt_trichotomy i l with h | h | h
  · rw [Nat.testBit_two_pow_add_gt h]
    have : ¬ l = i := by omega
    simp [this]
  · subst h
    rw [Nat.testBit_two_pow_add_eq, Nat.testBit_lt_two_pow hr]
    simp
  · have h1 : 2 ^ l + r < 2 ^ i := by
      have : 2 ^ (l + 1) ≤ 2 ^ i := Nat.pow_le_pow_right (by decide) h
      rw [Nat.pow_succ] at this
      omega
    have h2 : r < 2 ^ i := by omega
    rw [Nat.testBit_lt_two_pow h1, Nat.testBit_lt_two_pow h2]
    have : ¬ l = i := by omega
    simp [this]

theorem log2_lt_64 {m : Nat} (h : m < 2 ^ 64) : m.log2 < 64 := by
  by_cases h0 : m = 0
  · subst h0; simp [Nat.log2_zero]
  · exact (Nat.log2_lt h0).2 h

/-- `n ^= 1 << λ` with `λ = ilog2 n` clears the top bit. -/
theorem xor_top {m : Nat} (h0 : m ≠ 0) (h64 : m < 2 ^ 64) :
    m ^^^ ((1 <<< m.log2) % 2 ^ 64) = m - 2 ^ m.log2 := by
  rw [one_shl_mod (log2_lt_64 h64)]
  have h1 : 2 ^ m.log2 ≤ m := Nat.log2_self_le h0
  have h2 : m < 2 ^ (m.log2 + 1) := Nat.lt_log2_self
  rw [Nat.pow_succ] at h2
  have e : m = 2 ^ m.log2 + (m - 2 ^ m.log2) := by omega
  conv => lhs; lhs; rw [e]
  exact xor_pow _ _ (by omega)

/-- the generated `limit` of minimal binary is the model's `mbLimit`. -/
theorem limit_eq (max : Nat) :
    ((((1 <<< max.log2) % 2 ^ 64) <<< 1) % 2 ^ 64 + 2 ^ 64 - max) % 2 ^ 64 = mbLimit max := by
  simp only [mbLimit, wsub64, shl64, Nat.shiftLeft_eq, Nat.one_mul, Nat.mod_mul_mod]

/-- `n + limit` does not overflow for an in-range argument. -/
theorem mb_dom {n max : Nat} (_h0 : max ≠ 0) (h64 : max < 2 ^ 64) (hn : n < max) :
    n + mbLimit max < 2 ^ 64 := by
  have h1 : 1 ≤ max := by omega
  rw [CodesB.mbLimit_eq h1 h64]
  have hb := (CodesB.log2_bounds h1).2
  have hl : max.log2 + 1 ≤ 64 := by have := CodesB.log2_le_63 h1 h64; omega
  have hp : 2 ^ (max.log2 + 1) ≤ 2 ^ 64 := Nat.pow_le_pow_right (by decide) hl
  omega

/-! ### writers: equal to the hand-written programs off their panic points -/

theorem write_rice_eq (checks : Bool) (n : Nat) {k : Nat} (hk : k < 64) :
    Gen.write_rice checks n k = writeRice checks n k := by
  have hk' : ¬ k ≥ 64 := by omega
  simp only [Gen.write_rice, writeRice, hk', if_false, and_mask n hk, Nat.shiftRight_eq_div_pow]
  cases checks <;> rfl

theorem write_pi_eq (checks : Bool) {n k : Nat} (hn : n < 2 ^ 64 - 1) (hk : k < 64) :
    Gen.write_pi checks n k = writePi checks n k := by
  have hn' : ¬ n ≥ 2 ^ 64 - 1 := by omega
  have hx := xor_top (m := n + 1) (by omega) (by omega)
  cases checks <;> simp [Gen.write_pi, writePi, hn', write_rice_eq _ _ hk, hx]

theorem write_minimal_binary_eq {n max : Nat} (h0 : max ≠ 0) (h : n + mbLimit max < 2 ^ 64) :
    Gen.write_minimal_binary n max = writeMinimalBinary n max := by
  have h' : ¬ n + mbLimit max ≥ 2 ^ 64 := by omega
  simp only [Gen.write_minimal_binary, writeMinimalBinary, limit_eq, h0, if_false, h',
    Nat.shiftRight_eq_div_pow, Nat.and_one_is_mod, Nat.pow_one]

theorem write_minimal_binary_eq' {n max : Nat} (h0 : max ≠ 0) (h64 : max < 2 ^ 64) (hn : n < max) :
    Gen.write_minimal_binary n max = writeMinimalBinary n max :=
  write_minimal_binary_eq h0 (mb_dom h0 h64 hn)

theorem write_golomb_eq (n : Nat) {b : Nat} (h0 : b ≠ 0) (h64 : b < 2 ^ 64) :
    Gen.write_golomb n b = writeGolomb n b := by
  have hm : n % b < b := Nat.mod_lt _ (by omega)
  simp only [Gen.write_golomb, writeGolomb, h0, if_false, write_minimal_binary_eq' h0 h64 hm]

/-- `write_gamma` is the writer's parameterless γ (`GammaWrite::write_gamma`, chosen in params.rs). -/
theorem write_exp_golomb_eq (checks : Bool) (gtab : Option WTab) (n : Nat) {k : Nat} (hk : k < 64) :
    Gen.write_exp_golomb (writeGamma checks gtab) checks n k = writeExpGolomb checks gtab n k := by
  have hk' : ¬ k ≥ 64 := by omega
  simp only [Gen.write_exp_golomb, writeExpGolomb, hk', if_false, and_mask n hk,
    Nat.shiftRight_eq_div_pow]
  cases checks <;> rfl

theorem default_write_gamma_eq (checks : Bool) {n : Nat} (hn : n < 2 ^ 64 - 1) :
    Gen.default_write_gamma checks n = writeGammaDefault checks n := by
  have hn' : ¬ n ≥ 2 ^ 64 - 1 := by omega
  have hx := xor_top (m := n + 1) (by omega) (by omega)
  cases checks <;> simp [Gen.default_write_gamma, writeGammaDefault, hn', hx]

/-- `write_gamma_param::<T>` is the writer's γ with the table chosen by the flag. -/
theorem default_write_delta_eq (e : Endian) (checks tg : Bool) {n : Nat} (hn : n < 2 ^ 64 - 1) :
    Gen.default_write_delta (fun t m => writeGammaP e checks t m) checks tg n
      = writeDeltaDefault checks (opt tg (gammaWTab e)) n := by
  have hn' : ¬ n ≥ 2 ^ 64 - 1 := by omega
  have hx := xor_top (m := n + 1) (by omega) (by omega)
  cases checks <;> simp [Gen.default_write_delta, writeDeltaDefault, writeGammaP, hn', hx]

theorem default_write_zeta_eq {n k : Nat} (hn : n < 2 ^ 64 - 1) (hk0 : k ≠ 0) (hk : k < 64) :
    Gen.default_write_zeta n k = writeZetaDefault n k := by
  have hn' : ¬ n ≥ 2 ^ 64 - 1 := by omega
  have hk' : ¬ k ≥ 64 := by omega
  obtain ⟨hhk, hU1, hU64, _, hlt⟩ :=
    CodesB.zeta_range (n + 1) k ((n + 1).log2 / k) rfl (by omega) (by omega) (by omega)
  have hU := CodesB.zetaU_eq ((n + 1).log2 / k) k hhk (by omega)
  rw [← hU] at hU1 hU64 hlt
  have hl : (1 <<< ((n + 1).log2 / k * k)) % 2 ^ 64 = 2 ^ ((n + 1).log2 / k * k) :=
    one_shl_mod (by omega)
  have hz : ((2 ^ ((n + 1).log2 / k * k) <<< k) % 2 ^ 64 + 2 ^ 64 - 2 ^ ((n + 1).log2 / k * k)) % 2 ^ 64
      = zetaU ((n + 1).log2 / k) k := by
    simp only [zetaU, wsub64, shl64, Nat.shiftLeft_eq]
  simp only [Gen.default_write_zeta, writeZetaDefault, hn', hk0, hk', if_false, hl, hz,
    write_minimal_binary_eq' (by omega) hU64 hlt]

/-! ### readers: the hand-written program is the generated one with panic points inserted -/

/-- `Guarded hand gen`: `hand` is `gen` with some sub-programs replaced by `panic` / `dpanic`. -/
inductive Guarded {α : Type} : RProg α → RProg α → Prop where
  | refl (p : RProg α) : Guarded p p
  | panic (g : RProg α) : Guarded .panic g
  | dpanic (g : RProg α) : Guarded .dpanic g
  | readBits (n : Nat) {k k' : Nat → RProg α} : (∀ v, v < 2 ^ n → Guarded (k v) (k' v)) →
      Guarded (.readBits n k) (.readBits n k')
  | readUnary {k k' : Nat → RProg α} : (∀ v, Guarded (k v) (k' v)) →
      Guarded (.readUnary k) (.readUnary k')
  | peek (n : Nat) {k k' : Except Err Nat → RProg α} : (∀ v, Guarded (k v) (k' v)) →
      Guarded (.peek n k) (.peek n k')
  | skipAfterPeek (n : Nat) {k k' : RProg α} : Guarded k k' →
      Guarded (.skipAfterPeek n k) (.skipAfterPeek n k')
  | skip (n : Nat) {k k' : RProg α} : Guarded k k' → Guarded (.skip n k) (.skip n k')

/-- The contract of `BitRead::read_bits`: the value returned for `n` bits is below `2^n`. -/
def ReadBitsBounded {σ : Type} (I : RImpl σ) : Prop :=
  ∀ s n v s', I.readBits s n = .ok (v, s') → v < 2 ^ n

theorem natLE_lt (s : List Bool) : natLE s < 2 ^ s.length := by
  induction s with
  | nil => simp [natLE]
  | cons b bs ih =>
    simp only [natLE, List.length_cons, Nat.pow_succ]
    cases b <;> simp <;> omega

theorem len_takeZ (n : Nat) (l : List Bool) : (takeZ n l).length = n := by
  induction n generalizing l with
  | zero => rfl
  | succ n ih => cases l <;> simp [takeZ, ih]

/-- the L1 reference reader honours the contract -/
theorem refR_bounded : ReadBitsBounded RefR.impl := by
  intro s n v s' h
  simp only [RefR.impl, RefR.readBits] at h
  split at h
  · cases h
  · split at h
    · cases h
      have : bitsVal s.e (takeZ n s.rest) < 2 ^ (takeZ n s.rest).length := by
        cases s.e with
        | le => exact natLE_lt _
        | be => simpa [bitsVal] using natLE_lt (takeZ n s.rest).reverse
      rwa [len_takeZ] at this
    · cases h

/-- Meaning of `Guarded`: on every implementation honouring the `read_bits` contract and every
    state the hand-written program panics (in every build, or in debug builds) or behaves exactly
    like the generated one. -/
theorem Guarded.sound {σ α : Type} (I : RImpl σ) (hI : ReadBitsBounded I) {hand gen : RProg α}
    (h : Guarded hand gen) :
    ∀ s, hand.run I s = .panic ∨ hand.run I s = .dpanic ∨ hand.run I s = gen.run I s := by
  induction h with
  | refl p => intro s; exact Or.inr (Or.inr rfl)
  | panic g => intro s; exact Or.inl rfl
  | dpanic g => intro s; exact Or.inr (Or.inl rfl)
  | readBits n _ ih =>
    intro s
    simp only [RProg.run]
    cases hr : I.readBits s n with
    | ok p => obtain ⟨v, s'⟩ := p; exact ih v (hI s n v s' hr) s'
    | err e => exact Or.inr (Or.inr rfl)
    | panic => exact Or.inl rfl
    | dpanic => exact Or.inr (Or.inl rfl)
  | readUnary _ ih =>
    intro s
    simp only [RProg.run]
    cases hr : I.readUnary s with
    | ok p => obtain ⟨v, s'⟩ := p; exact ih v s'
    | err e => exact Or.inr (Or.inr rfl)
    | panic => exact Or.inl rfl
    | dpanic => exact Or.inr (Or.inl rfl)
  | peek n _ ih =>
    intro s
    simp only [RProg.run]
    cases hr : I.peekBits s n with
    | ok p => obtain ⟨v, s'⟩ := p; exact ih (.ok v) s'
    | err e => exact ih (.error e) s
    | panic => exact Or.inl rfl
    | dpanic => exact Or.inr (Or.inl rfl)
  | skipAfterPeek n _ ih => intro s; simp only [RProg.run]; exact ih _
  | skip n _ ih =>
    intro s
    simp only [RProg.run]
    cases hr : I.skipBits s n with
    | ok s' => exact ih s'
    | err e => exact Or.inr (Or.inr rfl)
    | panic => exact Or.inl rfl
    | dpanic => exact Or.inr (Or.inl rfl)

theorem Guarded.of_eq {α : Type} {p q : RProg α} (h : p = q) : Guarded p q := h ▸ Guarded.refl p

/-- `Guarded` is preserved by sequencing. -/
theorem Guarded.bind {α β : Type} {p p' : RProg α} {f f' : α → RProg β} (hp : Guarded p p')
    (hf : ∀ a, Guarded (f a) (f' a)) : Guarded (p.bind f) (p'.bind f') := by
  induction hp with
  | refl p =>
    induction p with
    | ret a => exact hf a
    | fail e => exact Guarded.refl _
    | panic => exact Guarded.panic _
    | dpanic => exact Guarded.dpanic _
    | readBits n k ih => exact Guarded.readBits n fun v _ => ih v
    | readUnary k ih => exact Guarded.readUnary ih
    | peek n k ih => exact Guarded.peek n ih
    | skipAfterPeek n k ih => exact Guarded.skipAfterPeek n ih
    | skip n k ih => exact Guarded.skip n ih
  | panic g => exact Guarded.panic _
  | dpanic g => exact Guarded.dpanic _
  | readBits n _ ih => exact Guarded.readBits n ih
  | readUnary _ ih => exact Guarded.readUnary ih
  | peek n _ ih => exact Guarded.peek n ih
  | skipAfterPeek n _ ih => exact Guarded.skipAfterPeek n ih
  | skip n _ ih => exact Guarded.skip n ih

theorem read_rice_guarded (k : Nat) : Guarded (readRice k) (Gen.read_rice k) := by
  unfold readRice Gen.read_rice
  split
  · exact Guarded.dpanic _
  · refine Guarded.readUnary fun u => Guarded.readBits k fun v _ => ?_
    split
    · exact Guarded.dpanic _
    · rename_i h
      have hu : u * 2 ^ k < 2 ^ 64 := by omega
      rw [Nat.shiftLeft_eq, Nat.mod_eq_of_lt hu]
      exact Guarded.refl _

theorem read_pi_guarded (k : Nat) : Guarded (readPi k) (Gen.read_pi k) := by
  unfold readPi Gen.read_pi
  refine Guarded.bind (read_rice_guarded k) fun lam => ?_
  split
  · exact Guarded.dpanic _
  · rename_i h
    rw [one_shl_mod (by omega)]
    exact Guarded.refl _

theorem read_minimal_binary_guarded (max : Nat) :
    Guarded (readMinimalBinary max) (Gen.read_minimal_binary max) := by
  unfold readMinimalBinary Gen.read_minimal_binary
  split
  · exact Guarded.panic _
  · simp only [limit_eq]
    refine Guarded.readBits _ fun p _ => ?_
    by_cases hp : p < mbLimit max
    · simp only [hp, if_true]; exact Guarded.refl _
    · simp only [hp, if_false]
      refine Guarded.readBits 1 fun b hb => ?_
      split
      · exact Guarded.dpanic _
      · rename_i h
        have h2 : p <<< 1 < 2 ^ 64 := by rw [Nat.shiftLeft_eq]; omega
        rw [Nat.mod_eq_of_lt h2, ← Nat.shiftLeft_add_eq_or_of_lt hb p, Nat.shiftLeft_eq, Nat.pow_one,
          Nat.mul_comm p 2]
        exact Guarded.refl _

theorem read_golomb_guarded (b : Nat) : Guarded (readGolomb b) (Gen.read_golomb b) := by
  unfold readGolomb Gen.read_golomb
  refine Guarded.readUnary fun u => Guarded.bind (read_minimal_binary_guarded b) fun r => ?_
  split
  · exact Guarded.dpanic _
  · exact Guarded.refl _

/-- `read_gamma` is the reader's parameterless γ (`GammaRead::read_gamma`, chosen in params.rs). -/
theorem read_exp_golomb_guarded (gtab : Option RTab) (k : Nat) :
    Guarded (readExpGolomb gtab k) (Gen.read_exp_golomb (readGamma gtab) k) := by
  unfold readExpGolomb Gen.read_exp_golomb
  split
  · exact Guarded.dpanic _
  · refine Guarded.bind (Guarded.refl _) fun g => Guarded.readBits k fun v _ => ?_
    split
    · exact Guarded.dpanic _
    · rename_i h
      have hu : g * 2 ^ k < 2 ^ 64 := by omega
      rw [Nat.shiftLeft_eq, Nat.mod_eq_of_lt hu]
      exact Guarded.refl _

theorem default_read_gamma_guarded : Guarded readGammaDefault Gen.default_read_gamma := by
  unfold readGammaDefault Gen.default_read_gamma
  refine Guarded.readUnary fun len => ?_
  split
  · exact Guarded.dpanic _
  · rw [one_shl_mod (by omega)]
    exact Guarded.refl _

/-- `read_gamma_param::<T>` is the reader's γ with the table chosen by the flag. -/
theorem default_read_delta_guarded (e : Endian) (tg : Bool) :
    Guarded (readDeltaDefault (opt tg (gammaRTab e)))
      (Gen.default_read_delta (fun t => readGammaP e t) tg) := by
  unfold readDeltaDefault Gen.default_read_delta readGammaP
  refine Guarded.bind (Guarded.refl _) fun len => ?_
  split
  · exact Guarded.dpanic _
  · rw [one_shl_mod (by omega)]
    exact Guarded.refl _

theorem default_read_zeta_guarded (k : Nat) :
    Guarded (readZetaDefault k) (Gen.default_read_zeta k) := by
  unfold readZetaDefault Gen.default_read_zeta
  refine Guarded.readUnary fun h => ?_
  split
  · exact Guarded.dpanic _
  · rename_i hg
    have hl : (1 <<< (h * k)) % 2 ^ 64 = 2 ^ (h * k) := one_shl_mod (by omega)
    have hz : ((2 ^ (h * k) <<< k) % 2 ^ 64 + 2 ^ 64 - 2 ^ (h * k)) % 2 ^ 64 = zetaU h k := by
      simp only [zetaU, wsub64, shl64, Nat.shiftLeft_eq]
    simp only [hl, hz]
    refine Guarded.bind (read_minimal_binary_guarded _) fun res => ?_
    split
    · exact Guarded.dpanic _
    · exact Guarded.refl _

end CodeBodiesGen
end Dsi
