/-
  The method bodies of the in-memory word streams as TRANSLATED from src/impls/mem_word_reader.rs
  and src/impls/mem_word_writer.rs on every run (lean/Dsi/Gen/MemWordBodies.lean, emitted by
  tools/translate_mem.py) are EQUAL to the hand-written model (lean/Dsi/Impl/MemWord.lean), which
  the theorems of C13 (lean/Dsi/Props/C13.lean) relate to the array-plus-cursor specification.

  The hand model has one structure per side with a flag (`MemR.strict`, `MemW.growable`); the Rust
  has one impl per kind.  Each equality is stated for the states of its kind.

  Hypotheses, and why they are there:
  * `m.pos < 2 ^ 64` (word_pos): `self.word_index as u64`; a `usize` always fits.
  * `m.data.length < 2 ^ 64` (strict set_word_pos): `self.data.as_ref().len() as u64`.
  * the requested position is a `u64` (`p : BitVec 64`, i.e. `p.toNat < 2 ^ 64`): the zero-extended
    reader clamps it to `usize::MAX = 2^64 - 1`, which changes nothing on a 64-bit `usize`.
-/
import Dsi.Gen.MemWordBodies
import Dsi.Impl.MemWord
namespace Dsi
namespace GenMem
variable {W : Nat}

/-- the translated functions return `u64`; the hand model returns `Nat` -/
def natOut {w : Nat} {σ : Type} (x : Res (BitVec w × σ)) : Res (Nat × σ) :=
  x.map fun p => (p.1.toNat, p.2)

theorem ofNat64_toNat (x : Nat) (h : x < 2 ^ 64) : (BitVec.ofNat 64 x).toNat = x := by
  rw [BitVec.toNat_ofNat, Nat.mod_eq_of_lt h]

/-! ### `MemWordReader` -/

theorem read_word_inf_eq (m : MemR W) (h : m.strict = false) :
    Gen.MemR.read_word_inf m = m.readWord := by
  obtain ⟨data, pos, strict⟩ := m
  simp only at h
  subst h
  unfold Gen.MemR.read_word_inf MemR.readWord
  cases data[pos]? <;> simp

theorem read_word_strict_eq (m : MemR W) (h : m.strict = true) :
    Gen.MemR.read_word_strict m = m.readWord := by
  obtain ⟨data, pos, strict⟩ := m
  simp only at h
  subst h
  unfold Gen.MemR.read_word_strict MemR.readWord
  cases data[pos]? <;> simp [optOkOr, Res.bind]

theorem word_pos_inf_eq (m : MemR W) (h : m.pos < 2 ^ 64) :
    natOut (Gen.MemR.word_pos_inf m) = .ok (m.wordPos, m) := by
  simp only [natOut, Gen.MemR.word_pos_inf, Res.map, ofNat64_toNat _ h, MemR.wordPos]

theorem word_pos_strict_eq (m : MemR W) (h : m.pos < 2 ^ 64) :
    natOut (Gen.MemR.word_pos_strict m) = .ok (m.wordPos, m) := by
  simp only [natOut, Gen.MemR.word_pos_strict, Res.map, ofNat64_toNat _ h, MemR.wordPos]

/-- the zero-extended reader accepts every position; the clamp to `usize::MAX` is the identity on
    a `u64` -/
theorem set_word_pos_inf_eq (m : MemR W) (p : BitVec 64) (h : m.strict = false) :
    Gen.MemR.set_word_pos_inf m p = m.setWordPos p.toNat := by
  obtain ⟨data, pos, strict⟩ := m
  simp only at h
  subst h
  unfold Gen.MemR.set_word_pos_inf MemR.setWordPos
  have hle : p ≤ BitVec.ofNat 64 18446744073709551615 := by
    rw [BitVec.le_def, ofNat64_toNat _ (by omega)]; have := p.isLt; omega
  simp only [hle, if_true, Bool.false_and, Bool.false_eq_true, if_false]

theorem gt_len_iff (p : BitVec 64) (n : Nat) (h : n < 2 ^ 64) :
    (p > BitVec.ofNat 64 n) ↔ p.toNat > n := by
  rw [gt_iff_lt, BitVec.lt_def, ofNat64_toNat n h]

/-- the strict reader rejects a position beyond the end -/
theorem set_word_pos_strict_eq (m : MemR W) (p : BitVec 64) (h : m.strict = true)
    (hl : m.data.length < 2 ^ 64) :
    Gen.MemR.set_word_pos_strict m p = m.setWordPos p.toNat := by
  obtain ⟨data, pos, strict⟩ := m
  simp only at h hl
  subst h
  unfold Gen.MemR.set_word_pos_strict MemR.setWordPos
  simp only [gt_len_iff p _ hl, Bool.true_and]
  by_cases hp : p.toNat > data.length <;> simp [hp]

/-! ### `MemWordWriterSlice`, `MemWordWriterVec` -/

theorem read_word_slice_eq (m : MemW W) : Gen.MemW.read_word_slice m = m.readWord := by
  unfold Gen.MemW.read_word_slice MemW.readWord
  cases m.data[m.pos]? <;> rfl

theorem read_word_vec_eq (m : MemW W) : Gen.MemW.read_word_vec m = m.readWord := by
  unfold Gen.MemW.read_word_vec MemW.readWord
  cases m.data[m.pos]? <;> rfl

theorem word_pos_slice_eq (m : MemW W) (h : m.pos < 2 ^ 64) :
    natOut (Gen.MemW.word_pos_slice m) = .ok (m.wordPos, m) := by
  simp only [natOut, Gen.MemW.word_pos_slice, Res.map, ofNat64_toNat _ h, MemW.wordPos]

theorem word_pos_vec_eq (m : MemW W) (h : m.pos < 2 ^ 64) :
    natOut (Gen.MemW.word_pos_vec m) = .ok (m.wordPos, m) := by
  simp only [natOut, Gen.MemW.word_pos_vec, Res.map, ofNat64_toNat _ h, MemW.wordPos]

theorem set_word_pos_slice_eq (m : MemW W) (p : BitVec 64) (hl : m.data.length < 2 ^ 64) :
    Gen.MemW.set_word_pos_slice m p = m.setWordPos p.toNat := by
  unfold Gen.MemW.set_word_pos_slice MemW.setWordPos
  simp only [gt_len_iff p _ hl]

theorem set_word_pos_vec_eq (m : MemW W) (p : BitVec 64) (hl : m.data.length < 2 ^ 64) :
    Gen.MemW.set_word_pos_vec m p = m.setWordPos p.toNat := by
  unfold Gen.MemW.set_word_pos_vec MemW.setWordPos
  simp only [gt_len_iff p _ hl]

theorem len_slice_eq (m : MemW W) : Gen.MemW.len_slice m = m.len := rfl
theorem len_vec_eq (m : MemW W) : Gen.MemW.len_vec m = m.len := rfl

/-- a slice writer stores inside the slice and reports an error at its end -/
theorem write_word_slice_eq (m : MemW W) (w : BitVec W) (h : m.growable = false) :
    Gen.MemW.write_word_slice m w = m.writeWord w := by
  obtain ⟨data, pos, growable⟩ := m
  simp only at h
  subst h
  unfold Gen.MemW.write_word_slice MemW.writeWord
  by_cases hp : pos < data.length
  · simp [hp]
  · simp [hp]

/-- `resize(pos + 1, 0)` followed by the store at `pos` is "pad with zeros, then append" -/
theorem resize_set (data : List (BitVec W)) (pos : Nat) (w : BitVec W) (hp : data.length ≤ pos) :
    (vecResize data (pos + 1) 0).set pos w = data ++ List.replicate (pos - data.length) 0 ++ [w] := by
  unfold vecResize
  rw [List.take_of_length_le (by omega), show pos + 1 - data.length = (pos - data.length) + 1 by omega,
    List.replicate_succ', ← List.append_assoc]
  have hl : (data ++ List.replicate (pos - data.length) (0 : BitVec W)).length = pos := by
    rw [List.length_append, List.length_replicate]; omega
  rw [List.set_append_right _ _ (by omega), hl, Nat.sub_self]
  rfl

/-- a vector writer stores inside the vector and grows it (zero filled) beyond its end -/
theorem write_word_vec_eq (m : MemW W) (w : BitVec W) (h : m.growable = true) :
    Gen.MemW.write_word_vec m w = m.writeWord w := by
  obtain ⟨data, pos, growable⟩ := m
  simp only at h
  subst h
  unfold Gen.MemW.write_word_vec MemW.writeWord
  by_cases hp : pos < data.length
  · have : ¬ pos ≥ data.length := by omega
    simp only [this, if_false, Res.bind, idxSet, hp, if_true]
  · have hge : pos ≥ data.length := by omega
    have hlen : (vecResize data (pos + 1) (0 : BitVec W)).length = pos + 1 := by
      unfold vecResize
      rw [List.length_append, List.length_replicate, List.length_take]; omega
    simp only [hge, if_true, Res.bind, idxSet, hlen, Nat.lt_succ_self, hp, if_false,
      resize_set data pos w hge]

end GenMem
end Dsi
