/-
  The generated trait impls of `CountBitWriter` / `CountBitReader` (lean/Dsi/Gen/CountBodies.lean,
  produced by tools/translate_count.py from src/utils/count.rs on every run) are the fields of the
  hand-written `CountW.impl` / `CountR.impl` and, for the specialised code-trait impls,
  `CountW.forward` / `CountR.forward` with the right `len_*` function (lean/Dsi/Glue/Wrappers.lean).
  `PRINT` changes nothing (the translator checks that its branches only print).
-/
import Dsi.Glue.Wrappers
import Dsi.Gen.CountBodies
import Dsi.Props.LenGen
namespace Dsi
namespace CountGen
open Gen

/-! ### `BitWrite for CountBitWriter` -/

theorem write_bits_eq {ω : Type} (wi : WImpl ω) (P : Bool) (s : CountW ω) (v n : Nat) :
    Gen.CountBitWriter.write_bits wi P s v n = (CountW.impl wi).writeBits s v n := by
  cases h : wi.writeBits s.inner v n <;> simp only [Gen.CountBitWriter.write_bits, CountW.impl, h, Res.bind, Res.map]

theorem write_unary_eq {ω : Type} (wi : WImpl ω) (P : Bool) (s : CountW ω) (x : Nat) :
    Gen.CountBitWriter.write_unary wi P s x = (CountW.impl wi).writeUnary s x := by
  cases h : wi.writeUnary s.inner x <;> simp only [Gen.CountBitWriter.write_unary, CountW.impl, h, Res.bind, Res.map]

theorem flush_eq {ω : Type} (wi : WImpl ω) (P : Bool) (s : CountW ω) :
    Gen.CountBitWriter.flush wi P s = (CountW.impl wi).flush s := by
  cases h : wi.flush s.inner <;> simp only [Gen.CountBitWriter.flush, CountW.impl, h, Res.bind, Res.map]

/-! ### `GammaWrite` / `DeltaWrite` / `ZetaWrite for CountBitWriter`: the inner object's method is
    the inner writer running the method's program -/

theorem write_gamma_eq {ω : Type} (wi : WImpl ω) (p : Nat → WProg Nat) (P : Bool) (s : CountW ω) (v : Nat) :
    Gen.CountBitWriter.write_gamma (fun i v => (p v).run wi i) P s v = CountW.forward wi (p v) s := by
  cases h : (p v).run wi s.inner <;> simp only [Gen.CountBitWriter.write_gamma, CountW.forward, h, Res.bind, Res.map]

theorem write_delta_eq {ω : Type} (wi : WImpl ω) (p : Nat → WProg Nat) (P : Bool) (s : CountW ω) (v : Nat) :
    Gen.CountBitWriter.write_delta (fun i v => (p v).run wi i) P s v = CountW.forward wi (p v) s := by
  cases h : (p v).run wi s.inner <;> simp only [Gen.CountBitWriter.write_delta, CountW.forward, h, Res.bind, Res.map]

theorem write_zeta_eq {ω : Type} (wi : WImpl ω) (p : Nat → Nat → WProg Nat) (P : Bool) (s : CountW ω) (v k : Nat) :
    Gen.CountBitWriter.write_zeta (fun i v k => (p v k).run wi i) P s v k = CountW.forward wi (p v k) s := by
  cases h : (p v k).run wi s.inner <;> simp only [Gen.CountBitWriter.write_zeta, CountW.forward, h, Res.bind, Res.map]

theorem write_zeta3_eq {ω : Type} (wi : WImpl ω) (p : Nat → WProg Nat) (P : Bool) (s : CountW ω) (v : Nat) :
    Gen.CountBitWriter.write_zeta3 (fun i v => (p v).run wi i) P s v = CountW.forward wi (p v) s := by
  cases h : (p v).run wi s.inner <;> simp only [Gen.CountBitWriter.write_zeta3, CountW.forward, h, Res.bind, Res.map]

/-! ### `BitRead for CountBitReader` -/

theorem read_bits_eq {ρ : Type} (ri : RImpl ρ) (P : Bool) (s : CountR ρ) (n : Nat) :
    Gen.CountBitReader.read_bits ri P s n = (CountR.impl ri).readBits s n := by
  cases h : ri.readBits s.inner n <;> simp only [Gen.CountBitReader.read_bits, CountR.impl, h, Res.bind, Res.map]

theorem read_unary_eq {ρ : Type} (ri : RImpl ρ) (P : Bool) (s : CountR ρ) :
    Gen.CountBitReader.read_unary ri P s = (CountR.impl ri).readUnary s := by
  cases h : ri.readUnary s.inner <;> simp only [Gen.CountBitReader.read_unary, CountR.impl, h, Res.bind, Res.map, Nat.add_assoc]

theorem peek_bits_eq {ρ : Type} (ri : RImpl ρ) (P : Bool) (s : CountR ρ) (n : Nat) :
    Gen.CountBitReader.peek_bits ri P s n = (CountR.impl ri).peekBits s n := by
  cases h : ri.peekBits s.inner n <;> simp only [Gen.CountBitReader.peek_bits, CountR.impl, h, Res.bind, Res.map]

theorem skip_bits_eq {ρ : Type} (ri : RImpl ρ) (P : Bool) (s : CountR ρ) (n : Nat) :
    Gen.CountBitReader.skip_bits ri P s n = (CountR.impl ri).skipBits s n := by
  cases h : ri.skipBits s.inner n <;> simp only [Gen.CountBitReader.skip_bits, CountR.impl, h, Res.bind, Res.map]

theorem skip_bits_after_peek_eq {ρ : Type} (ri : RImpl ρ) (P : Bool) (s : CountR ρ) (n : Nat) :
    Gen.CountBitReader.skip_bits_after_peek ri P s n = (CountR.impl ri).skipAfterPeek s n := rfl

/-! ### `GammaRead` / `DeltaRead` / `ZetaRead for CountBitReader` -/

/-- with the generated `len_*` function -/
theorem read_gamma_eq' {ρ : Type} (ri : RImpl ρ) (p : RProg Nat) (P : Bool) (s : CountR ρ) :
    Gen.CountBitReader.read_gamma (fun i => p.run ri i) P s = CountR.forward ri p Gen.len_gamma s := by
  cases h : p.run ri s.inner <;> simp only [Gen.CountBitReader.read_gamma, CountR.forward, h, Res.bind, Res.map]

theorem read_gamma_eq {ρ : Type} (ri : RImpl ρ) (p : RProg Nat) (P : Bool) (s : CountR ρ) :
    Gen.CountBitReader.read_gamma (fun i => p.run ri i) P s = CountR.forward ri p lenGammaD s := by
  rw [read_gamma_eq']; congr 1; funext n; exact LenGen.len_gamma_eq n

theorem read_delta_eq' {ρ : Type} (ri : RImpl ρ) (p : RProg Nat) (P : Bool) (s : CountR ρ) :
    Gen.CountBitReader.read_delta (fun i => p.run ri i) P s = CountR.forward ri p Gen.len_delta s := by
  cases h : p.run ri s.inner <;> simp only [Gen.CountBitReader.read_delta, CountR.forward, h, Res.bind, Res.map]

theorem read_delta_eq {ρ : Type} (ri : RImpl ρ) (p : RProg Nat) (P : Bool) (s : CountR ρ) :
    Gen.CountBitReader.read_delta (fun i => p.run ri i) P s = CountR.forward ri p lenDeltaD s := by
  rw [read_delta_eq']; congr 1; funext n; exact LenGen.len_delta_eq n

theorem read_zeta_eq' {ρ : Type} (ri : RImpl ρ) (p : Nat → RProg Nat) (P : Bool) (s : CountR ρ) (k : Nat) :
    Gen.CountBitReader.read_zeta (fun i k => (p k).run ri i) P s k
      = CountR.forward ri (p k) (fun v => Gen.len_zeta v k) s := by
  cases h : (p k).run ri s.inner <;> simp only [Gen.CountBitReader.read_zeta, CountR.forward, h, Res.bind, Res.map]

theorem read_zeta3_eq' {ρ : Type} (ri : RImpl ρ) (p : RProg Nat) (P : Bool) (s : CountR ρ) :
    Gen.CountBitReader.read_zeta3 (fun i => p.run ri i) P s
      = CountR.forward ri p (fun v => Gen.len_zeta v 3) s := by
  cases h : p.run ri s.inner <;> simp only [Gen.CountBitReader.read_zeta3, CountR.forward, h, Res.bind, Res.map]

/-- `forward` only applies `len` to the value read -/
theorem forward_congr {ρ : Type} (ri : RImpl ρ) (p : RProg Nat) (len len' : Nat → Nat) (s : CountR ρ)
    (h : ∀ v s', p.run ri s.inner = .ok (v, s') → len v = len' v) :
    CountR.forward ri p len s = CountR.forward ri p len' s := by
  unfold CountR.forward
  cases hr : p.run ri s.inner with
  | ok x => obtain ⟨v, s'⟩ := x; simp only [Res.map]; rw [h v s' hr]
  | err e => rfl
  | panic => rfl
  | dpanic => rfl

/-- with the hand-written length function, for values below `u64::MAX` (`len_zeta` computes `n + 1`) -/
theorem read_zeta_eq {ρ : Type} (ri : RImpl ρ) (p : Nat → RProg Nat) (P : Bool) (s : CountR ρ) (k : Nat)
    (h : ∀ v s', (p k).run ri s.inner = .ok (v, s') → v < 2 ^ 64 - 1) :
    Gen.CountBitReader.read_zeta (fun i k => (p k).run ri i) P s k
      = CountR.forward ri (p k) (fun v => lenZetaD v k) s := by
  rw [read_zeta_eq']
  exact forward_congr ri (p k) _ _ s fun v s' hr => LenGen.len_zeta_eq k (h v s' hr)

theorem read_zeta3_eq {ρ : Type} (ri : RImpl ρ) (p : RProg Nat) (P : Bool) (s : CountR ρ)
    (h : ∀ v s', p.run ri s.inner = .ok (v, s') → v < 2 ^ 64 - 1) :
    Gen.CountBitReader.read_zeta3 (fun i => p.run ri i) P s
      = CountR.forward ri p (fun v => lenZetaD v 3) s := by
  rw [read_zeta3_eq']
  exact forward_congr ri p _ _ s fun v s' hr => LenGen.len_zeta_eq 3 (h v s' hr)

end CountGen
end Dsi
