/-
  C03/C04 for the "simple" instantaneous codes: on the L1 reference writer / reader every L2
  program writes exactly the published codeword (`Dsi.Spec`), reads it back wherever it is
  embedded in a stream, and the length function agrees with the codeword length.
-/
import Dsi.Lemmas.CodesAOmega
namespace Dsi

/-! ### unary -/

theorem unary_writes (e : Endian) (checks : Bool) (x : Nat) (hx : x < 2 ^ 64 - 1) :
    Writes (writeUnaryC x) e checks (Spec.unary x) :=
  Writes.wunary hx

theorem unary_reads (e : Endian) (x : Nat) : Reads readUnaryC e (Spec.unary x) x :=
  (Reads.readUnary (k := RProg.ret) (Reads.ret e x)).congr (List.append_nil _) rfl

theorem unary_len (x : Nat) : lenUnary x = (Spec.unary x).length := by
  simp [lenUnary, Spec.unary]

/-! ### γ -/

theorem gamma_writes (e : Endian) (checks : Bool) (n : Nat) (hn : n < 2 ^ 64 - 1) :
    Writes (writeGammaDefault checks n) e checks (Spec.gamma e n) := by
  have hm : n + 1 < 2 ^ 64 := by omega
  have ⟨h1, h2⟩ := strip_msb_ok checks (Nat.succ_ne_zero n) hm
  have hl := log2_lt_64 hm
  unfold writeGammaDefault
  rw [if_neg (by omega)]
  exact Writes.unary_then_bits (by omega) (by omega) h1 h2

theorem gamma_reads (e : Endian) (n : Nat) (hn : n < 2 ^ 64 - 1) :
    Reads readGammaDefault e (Spec.gamma e n) n := by
  have hm : n + 1 < 2 ^ 64 := by omega
  have hl := log2_lt_64 hm
  unfold readGammaDefault
  refine Reads.readUnary ?_
  rw [if_neg (by omega)]
  exact Reads.msb_tail (Nat.succ_ne_zero n) hm

theorem gamma_len (e : Endian) (n : Nat) : lenGammaDefault n = (Spec.gamma e n).length := by
  simp [lenGammaDefault, Spec.gamma, Spec.unary]; omega

/-! ### δ (γ tables off) -/

theorem delta_writes (e : Endian) (checks : Bool) (n : Nat) (hn : n < 2 ^ 64 - 1) :
    Writes (writeDeltaDefault checks none n) e checks (Spec.delta e n) := by
  have hm : n + 1 < 2 ^ 64 := by omega
  have ⟨h1, h2⟩ := strip_msb_ok checks (Nat.succ_ne_zero n) hm
  have hl := log2_lt_64 hm
  unfold writeDeltaDefault
  rw [if_neg (by omega)]
  exact Writes.then_bits (gamma_writes e checks _ (by omega)) (by omega) h1 h2

theorem delta_reads (e : Endian) (n : Nat) (hn : n < 2 ^ 64 - 1) :
    Reads (readDeltaDefault none) e (Spec.delta e n) n := by
  have hm : n + 1 < 2 ^ 64 := by omega
  have hl := log2_lt_64 hm
  unfold readDeltaDefault
  refine Reads.bind (gamma_reads e (n + 1).log2 (by omega)) ?_
  rw [if_neg (by omega)]
  exact Reads.msb_tail (Nat.succ_ne_zero n) hm

theorem delta_len (e : Endian) (n : Nat) : lenDelta none none n = (Spec.delta e n).length := by
  simp [lenDelta, lenGamma, lenGammaDefault, Spec.delta, Spec.gamma, Spec.unary]; omega

/-! ### Rice -/

/-- Needs `n / 2^k < 2^64 - 1` (the unary part must be writable): see `rice_writes_false`. -/
theorem rice_writes (e : Endian) (checks : Bool) (k n : Nat) (hk : k ≤ 63)
    (hq : n / 2 ^ k < 2 ^ 64 - 1) :
    Writes (writeRice checks n k) e checks (Spec.rice e k n) := by
  have ⟨h1, h2⟩ := low_bits_ok checks n k
  unfold writeRice
  rw [if_neg (by omega)]
  exact Writes.unary_then_bits hq (by omega) h1 h2

/-- the same, with the side condition in the form used for exp-Golomb -/
theorem rice_writes' (e : Endian) (checks : Bool) (k n : Nat) (hk : k ≤ 63) (hn : n < 2 ^ 64)
    (hk0 : k = 0 → n < 2 ^ 64 - 1) :
    Writes (writeRice checks n k) e checks (Spec.rice e k n) :=
  rice_writes e checks k n hk (quot_lt hn hk0)

theorem rice_reads (e : Endian) (k n : Nat) (hk : k ≤ 63) (hn : n < 2 ^ 64) :
    Reads (readRice k) e (Spec.rice e k n) n := by
  unfold readRice
  rw [if_neg (by omega)]
  exact Reads.readUnary (Reads.quot_rem_tail hk hn)

theorem rice_len (e : Endian) (k n : Nat) : lenRice n k = (Spec.rice e k n).length := by
  simp [lenRice, Spec.rice, Spec.unary]

/-- `rice_writes` does not hold for every `n < 2^64`: for `k = 0`, `n = 2^64 - 1` the unary part
    `2^64 - 1` is refused by `write_unary` (debug assertion). -/
theorem rice_writes_false :
    ¬ (∀ (e : Endian) (checks : Bool) (k n : Nat), k ≤ 63 → n < 2 ^ 64 →
        Writes (writeRice checks n k) e checks (Spec.rice e k n)) := by
  intro h
  have := h .be false 0 (2 ^ 64 - 1) (by decide) (by decide) { e := .be, W := 64 } rfl rfl rfl
  simp [writeRice, WProg.run, RefW.impl, RefW.writeUnary] at this

/-! ### π -/

theorem pi_writes (e : Endian) (checks : Bool) (k n : Nat) (hk : k ≤ 63) (hn : n < 2 ^ 64 - 1) :
    Writes (writePi checks n k) e checks (Spec.pi e k n) := by
  have hm : n + 1 < 2 ^ 64 := by omega
  have ⟨h1, h2⟩ := strip_msb_ok checks (Nat.succ_ne_zero n) hm
  have hl := log2_lt_64 hm
  have hq : (n + 1).log2 / 2 ^ k ≤ (n + 1).log2 := Nat.div_le_self _ _
  unfold writePi
  rw [if_neg (by omega)]
  exact Writes.then_bits (rice_writes e checks k _ hk (by omega)) (by omega) h1 h2

theorem pi_reads (e : Endian) (k n : Nat) (hk : k ≤ 63) (hn : n < 2 ^ 64 - 1) :
    Reads (readPi k) e (Spec.pi e k n) n := by
  have hm : n + 1 < 2 ^ 64 := by omega
  have hl := log2_lt_64 hm
  unfold readPi
  refine Reads.bind (rice_reads e k (n + 1).log2 hk (by omega)) ?_
  rw [if_neg (by omega)]
  exact Reads.msb_tail' (Nat.succ_ne_zero n) hm

theorem pi_len (e : Endian) (k n : Nat) : lenPi n k = (Spec.pi e k n).length := by
  simp [lenPi, lenRice, Spec.pi, Spec.rice, Spec.unary]; omega

/-! ### exp-Golomb (γ tables off) -/

theorem expGolomb_writes (e : Endian) (checks : Bool) (k n : Nat) (hk : k ≤ 63) (hn : n < 2 ^ 64)
    (hk0 : k = 0 → n < 2 ^ 64 - 1) :
    Writes (writeExpGolomb checks none n k) e checks (Spec.expGolomb e k n) := by
  have ⟨h1, h2⟩ := low_bits_ok checks n k
  have hq := quot_lt hn hk0
  unfold writeExpGolomb
  rw [if_neg (by omega)]
  exact Writes.then_bits (gamma_writes e checks _ hq) (by omega) h1 h2

theorem expGolomb_reads (e : Endian) (k n : Nat) (hk : k ≤ 63) (hn : n < 2 ^ 64)
    (hk0 : k = 0 → n < 2 ^ 64 - 1) :
    Reads (readExpGolomb none k) e (Spec.expGolomb e k n) n := by
  have hq := quot_lt hn hk0
  unfold readExpGolomb
  rw [if_neg (by omega)]
  exact Reads.bind (gamma_reads e _ hq) (Reads.quot_rem_tail hk hn)

theorem expGolomb_len (e : Endian) (k n : Nat) :
    lenExpGolomb none n k = (Spec.expGolomb e k n).length := by
  simp [lenExpGolomb, lenGamma, lenGammaDefault, Spec.expGolomb, Spec.gamma, Spec.unary]; omega

/-! ### ω -/

theorem omega_writes (e : Endian) (checks : Bool) (n : Nat) (hn : n < 2 ^ 64 - 1) :
    Writes (writeOmega e checks n) e checks (Spec.omega e n) := by
  have hz : fieldBits e 0 1 = [false] := by cases e <;> rfl
  unfold writeOmega Spec.omega
  rw [if_neg (by omega), ← hz]
  exact Writes.then_bits (omegaWriteRec_writes e checks 8 (n + 1) (by omega)) (by decide)
    (Or.inr (by decide)) rfl

theorem omega_reads (e : Endian) (n : Nat) (hn : n < 2 ^ 64 - 1) :
    Reads (readOmega e) e (Spec.omega e n) n := by
  have hm : n + 1 < 2 ^ 64 := by omega
  unfold readOmega Spec.omega
  refine omega_blocks_read e 4 (n + 1) (Nat.succ_ne_zero n) hm (omegaDone_of_lt hm 0) 8 (by decide)
    1 [false] n ?_ 8 (by decide)
  intro fr hfr
  obtain ⟨fr', rfl⟩ : ∃ x, fr = x + 1 := ⟨fr - 1, by omega⟩
  exact omega_end_reads e fr' (n + 1)

theorem omega_len (e : Endian) (n : Nat) : lenOmega n = (Spec.omega e n).length := by
  simp [lenOmega, Spec.omega, omegaLenRec_eq e]

/-! ### non-vacuity -/

example : Writes (writeUnaryC 5) .be true (Spec.unary 5) := unary_writes .be true 5 (by decide)
example : Reads readUnaryC .le (Spec.unary 5) 5 := unary_reads .le 5
example : lenUnary 5 = (Spec.unary 5).length := unary_len 5

example : Writes (writeGammaDefault true 4) .le true (Spec.gamma .le 4) :=
  gamma_writes .le true 4 (by decide)
example : Reads readGammaDefault .le (Spec.gamma .le 4) 4 := gamma_reads .le 4 (by decide)
example : lenGammaDefault 4 = (Spec.gamma .le 4).length := gamma_len .le 4

example : Writes (writeDeltaDefault false none 1000) .be false (Spec.delta .be 1000) :=
  delta_writes .be false 1000 (by decide)
example : Reads (readDeltaDefault none) .be (Spec.delta .be 1000) 1000 :=
  delta_reads .be 1000 (by decide)
example : lenDelta none none 1000 = (Spec.delta .be 1000).length := delta_len .be 1000

example : Writes (writeRice true 77 3) .le true (Spec.rice .le 3 77) :=
  rice_writes' .le true 3 77 (by decide) (by decide) (by decide)
example : Reads (readRice 3) .le (Spec.rice .le 3 77) 77 := rice_reads .le 3 77 (by decide) (by decide)
example : lenRice 77 3 = (Spec.rice .le 3 77).length := rice_len .le 3 77

example : Writes (writePi true 77 2) .be true (Spec.pi .be 2 77) :=
  pi_writes .be true 2 77 (by decide) (by decide)
example : Reads (readPi 2) .be (Spec.pi .be 2 77) 77 := pi_reads .be 2 77 (by decide) (by decide)
example : lenPi 77 2 = (Spec.pi .be 2 77).length := pi_len .be 2 77

example : Writes (writeExpGolomb false none 77 2) .le false (Spec.expGolomb .le 2 77) :=
  expGolomb_writes .le false 2 77 (by decide) (by decide) (by decide)
example : Reads (readExpGolomb none 2) .le (Spec.expGolomb .le 2 77) 77 :=
  expGolomb_reads .le 2 77 (by decide) (by decide) (by decide)
example : lenExpGolomb none 77 2 = (Spec.expGolomb .le 2 77).length := expGolomb_len .le 2 77

example : Writes (writeOmega .le true 1000000) .le true (Spec.omega .le 1000000) :=
  omega_writes .le true 1000000 (by decide)
example : Reads (readOmega .le) .le (Spec.omega .le 1000000) 1000000 :=
  omega_reads .le 1000000 (by decide)
example : Reads (readOmega .be) .be (Spec.omega .be 1000000) 1000000 :=
  omega_reads .be 1000000 (by decide)
example : lenOmega 1000000 = (Spec.omega .le 1000000).length := omega_len .le 1000000

end Dsi
