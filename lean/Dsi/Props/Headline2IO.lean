/-
  Headline theorems for C12 (the `std::io::Read` / `std::io::Write` views of a bit stream are
  byte-exact), stated over generated definitions only:
  * `genIOWrite e Ww (genWImpl e) t buf`: the body of `impl std::io::Write for BufBitWriter::write`
    (lean/Dsi/Gen/IOBodies.lean) running on the generated `BufBitWriter` (`genWImpl e`);
  * `genIORead e Wr (genRImpl e) s buf` / `genIOReadBitR e (genBitRImpl e) s buf`: the bodies of
    `impl std::io::Read for BufBitReader / BitReader::read` on the generated readers; they return
    `(count, the filled buffer, the reader)`;
  * `layout` (canonical byte layout of a bit list), `bitsOfBytes` (the bits of a byte list, eight
    per byte in stream order): the specification.
  Not generated: `BufW.new`, `BufR.new`, `BufW.outBytes` / `wordsOfBytes` / `padTo` (memory image of
  the backend words and back).

  * `gen_io_write_image`: after ANY preceding writer program (so at any bit offset), the generated
    `io::Write::write(bs)` returns `bs.len()`, and after `flush` the bytes delivered are the canonical
    layout of `(preceding bits) ++ (the bits of bs)`: the bytes appear as 8-bit fields, in order, at
    the current bit position; at a byte-aligned position the memory image contains `bs` verbatim;
  * `gen_io_read_bytes` / `gen_io_read_bytes_bitr`: a generated reader built on ANY byte image whose
    bits are `pre ++ bits of bs ++ post`, after skipping `pre` (any bit offset): the generated
    `io::Read::read` into a buffer of `bs.len()` bytes returns `bs.len()` and fills it with `bs`,
    and `bit_pos` has advanced by `8 * bs.len()`;
  * `gen_io_roundtrip`: the two together (bytes written through the generated writer, read back
    through the generated reader of any word width).

  Hypotheses: `∀ b ∈ bs, b < 256` (the elements of a `&[u8]`), word widths multiples of 8,
  `Ww < 2^64`, streams shorter than `2^64` bits (`hfit`), `e = .be → Wr ≤ 64`.
-/
import Dsi.Lemmas.Headline2Reader
import Dsi.Lemmas.Headline2Trip
import Dsi.Props.IOGen
namespace Dsi
namespace Headline2
open Headline E2E

/-- `impl std::io::Write for BufBitWriter<E, _>::write`, from the translated bodies -/
def genIOWrite (e : Endian) (Ww : Nat) {ω : Type} (wi : WImpl ω) (w : ω) (buf : List Nat) : Res (Nat × ω) :=
  match e with
  | .be => Gen.IO.write_be Ww wi w buf
  | .le => Gen.IO.write_le Ww wi w buf

/-- `impl std::io::Read for BufBitReader<E, _>::read`, from the translated bodies -/
def genIORead (e : Endian) (Wr : Nat) {ρ : Type} (ri : RImpl ρ) (r : ρ) (buf : List Nat) :
    Res (Nat × List Nat × ρ) :=
  match e with
  | .be => Gen.IO.read_bufr_be Wr ri r buf
  | .le => Gen.IO.read_bufr_le Wr ri r buf

/-- `impl std::io::Read for BitReader<E, _>::read`, from the translated bodies -/
def genIOReadBitR (e : Endian) {ρ : Type} (ri : RImpl ρ) (r : ρ) (buf : List Nat) :
    Res (Nat × List Nat × ρ) :=
  match e with
  | .be => Gen.IO.read_bitr_be 64 ri r buf
  | .le => Gen.IO.read_bitr_le 64 ri r buf

theorem genIOWrite_eq (e : Endian) (Ww : Nat) {ω : Type} (wi : WImpl ω) (w : ω) (buf : List Nat)
    (hb : ∀ b ∈ buf, b < 256) : genIOWrite e Ww wi w buf = (ioWrite e 8 buf).run wi w := by
  cases e
  · exact GenIO.write_be_eq Ww wi w buf hb
  · exact GenIO.write_le_eq Ww wi w buf hb

theorem genIORead_eq (e : Endian) (Wr : Nat) {ρ : Type} (ri : RImpl ρ)
    (hri : ∀ r k v r', ri.readBits r k = .ok (v, r') → v < 2 ^ 64) (r : ρ) (buf : List Nat) :
    genIORead e Wr ri r buf = ((ioRead e buf.length).run ri r).map fun p => (buf.length, p.1, p.2) := by
  cases e
  · exact GenIO.read_bufr_be_eq Wr ri hri r buf
  · exact GenIO.read_bufr_le_eq Wr ri hri r buf

theorem genIOReadBitR_eq (e : Endian) {ρ : Type} (ri : RImpl ρ)
    (hri : ∀ r k v r', ri.readBits r k = .ok (v, r') → v < 2 ^ 64) (r : ρ) (buf : List Nat) :
    genIOReadBitR e ri r buf = ((ioRead e buf.length).run ri r).map fun p => (buf.length, p.1, p.2) := by
  cases e
  · exact GenIO.read_bitr_be_eq 64 ri hri r buf
  · exact GenIO.read_bitr_le_eq 64 ri hri r buf

/-! ### the `io::Read` program asks for reads of at most 64 bits only -/

theorem pb_ioReadLoop (W : Nat) (e : Endian) : ∀ k acc, PeekBounded W 0 (ioReadLoop e k acc)
  | 0, _ => trivial
  | k + 1, _ => fun _ => pb_ioReadLoop W e k _

theorem pb_ioRead (W : Nat) (e : Endian) (len : Nat) : PeekBounded W 0 (ioRead e len) := by
  unfold ioRead
  refine peekBounded_bind _ _ (fun acc => ?_) (pb_ioReadLoop W e _ _)
  dsimp only
  split
  · trivial
  · exact fun _ => trivial

theorem ok_ioReadLoop (e : Endian) : ∀ k acc, BitR.ProgOK 0 (ioReadLoop e k acc)
  | 0, _ => trivial
  | k + 1, _ => ⟨by decide, fun _ => ok_ioReadLoop e k _⟩

theorem ok_ioRead (e : Endian) (len : Nat) : BitR.ProgOK 0 (ioRead e len) := by
  unfold ioRead
  refine progOK_bind _ _ (fun acc => ?_) (ok_ioReadLoop e _ _)
  dsimp only
  split
  · trivial
  · exact ⟨by have := Nat.mod_lt len (show 0 < 8 by decide); omega, fun _ => trivial⟩

theorem ns_ioReadLoop (e : Endian) : ∀ k acc, BitR.NoSkip (ioReadLoop e k acc)
  | 0, _ => trivial
  | k + 1, _ => fun _ => ns_ioReadLoop e k _

theorem ns_ioRead (e : Endian) (len : Nat) : BitR.NoSkip (ioRead e len) := by
  unfold ioRead
  refine noSkip_bind _ _ (fun acc => ?_) (ns_ioReadLoop e _ _)
  dsimp only
  split
  · trivial
  · exact fun _ => trivial

theorem genR_u64 {W : Nat} (e : Endian) :
    ∀ (r : BufR W) k v r', (genRImpl e).readBits r k = .ok (v, r') → v < 2 ^ 64 := by
  intro r k v r' h
  cases e <;>
  · change GenBufR.natOut _ = _ at h
    unfold GenBufR.natOut Res.map at h
    split at h
    · rename_i p _
      cases h
      exact p.1.isLt
    all_goals cases h

theorem genBitR_u64 (e : Endian) :
    ∀ (r : BitR) k v r', (genBitRImpl e).readBits r k = .ok (v, r') → v < 2 ^ 64 := by
  intro r k v r' h
  cases e <;>
  · change GenBitR.natOut _ = _ at h
    unfold GenBitR.natOut Res.map at h
    split at h
    · rename_i p _
      cases h
      exact p.1.isLt
    all_goals cases h

/-- a reference reader given by its fields -/
def refS (e : Endian) (stream : List Bool) (strict : Bool) (pm pos : Nat) : RefR :=
  { e := e, stream := stream, pos := pos, strict := strict, peekMax := pm }

/-! ## writing -/

/-- **C12, `io::Write`.**  After any preceding program `pre` (which wrote `w1.bits`: any bit
    offset), the generated `write(bs)` on the generated `BufBitWriter` returns `bs.len()`; after the
    generated `flush` the delivered bytes are the canonical layout of the preceding bits followed by
    the bits of `bs` (zero-padded to a word); and if the writer was byte aligned, the memory image
    is the image of the preceding bits, then `bs` verbatim, then the rest. -/
theorem gen_io_write_image {α : Type} (e : Endian) {Ww : Nat} (hWw : 0 < Ww) (h8w : 8 ∣ Ww)
    (hWw64 : Ww < 2 ^ 64) (checks : Bool) (pre : WProg α) {a : α} {w1 : RefW}
    (hpre : pre.run RefW.impl (refW e Ww checks []) = .ok (a, w1))
    (bs : List Nat) (hb : ∀ b ∈ bs, b < 256) :
    ∃ (t t1 : BufW Ww) (k : Nat) (t2 : BufW Ww),
      pre.run (genWImpl e) (BufW.new Ww checks none) = .ok (a, t) ∧
      genIOWrite e Ww (genWImpl e) t bs = .ok (bs.length, t1) ∧
      (genWImpl e).flush t1 = .ok (k, t2) ∧
      t2.outBytes e = layout e (w1.bits ++ bitsOfBytes e bs ++
        wpad Ww (w1.bits ++ bitsOfBytes e bs).length) ∧
      (8 ∣ w1.bits.length → ∃ tail, t2.outBytes e = layout e w1.bits ++ bs ++ tail) ∧
      bitsOfBytes e (t2.outBytes e) = w1.bits ++ bitsOfBytes e bs ++
        wpad Ww (w1.bits ++ bitsOfBytes e bs).length ∧
      (∀ b ∈ t2.outBytes e, b < 256) := by
  obtain ⟨t, ht, hrel⟩ := gen_wrun_relC e hWw hWw64 checks pre hpre
  have hq := io_write_run e bs hb (refW e Ww checks w1.bits) rfl rfl
  obtain ⟨t1, k, t2, h1, h2, h3, _, h5, h6⟩ := gen_image_of_relC e h8w hWw64 hrel (ioWrite e 8 bs) hq
  have h3 : t2.outBytes e = layout e (w1.bits ++ bitsOfBytes e bs ++
      wpad Ww (w1.bits ++ bitsOfBytes e bs).length) := h3
  have h5 : bitsOfBytes e (t2.outBytes e) = w1.bits ++ bitsOfBytes e bs ++
      wpad Ww (w1.bits ++ bitsOfBytes e bs).length := h5
  refine ⟨t, t1, k, t2, ht, ?_, h2, h3, ?_, h5, h6⟩
  · rw [genIOWrite_eq e Ww _ t bs hb]; exact h1
  · intro hal
    refine ⟨layout e (wpad Ww (w1.bits ++ bitsOfBytes e bs).length), ?_⟩
    rw [h3]
    rw [layout_append_of_aligned e (w1.bits ++ bitsOfBytes e bs) _
      (by rw [List.length_append, bitsOfBytes_length]; omega),
      io_aligned_image_at e w1.bits bs hb hal]

/-! ## reading -/

/-- **C12, `io::Read`, buffered reader.**  A generated `BufBitReader` of any word width built on any
    byte image whose bits are `pre ++ (bits of bs) ++ post`: after the generated `skip_bits` over
    `pre` (any bit offset), the generated `read` into a buffer of `bs.len()` bytes returns
    `bs.len()`, fills the buffer with `bs`, and the generated `bit_pos` is `pre.len() + 8 * bs.len()`. -/
theorem gen_io_read_bytes (e : Endian) {Wr : Nat} (hWr : 0 < Wr) (h8r : 8 ∣ Wr)
    (hW64 : e = .be → Wr ≤ 64) (strict : Bool) (bytes : List Nat) (hbytes : ∀ b ∈ bytes, b < 256)
    (pre post : List Bool) (bs : List Nat) (hb : ∀ b ∈ bs, b < 256)
    (hbits : bitsOfBytes e bytes = pre ++ bitsOfBytes e bs ++ post)
    (buf : List Nat) (hbuf : buf.length = bs.length)
    (hfit : (pre ++ bitsOfBytes e bs ++ post).length + 5 * Wr < 2 ^ 64) :
    ∃ (s1 s2 : BufR Wr),
      (genRImpl e).skipBits (BufR.new ⟨wordsOfBytes e Wr (padTo (Wr / 8) bytes), 0, strict⟩) pre.length
        = .ok s1 ∧
      genIORead e Wr (genRImpl e) s1 buf = .ok (bs.length, bs, s2) ∧
      GenBufR.genBitPos e s2 = .ok (pre.length + 8 * bs.length, s2) := by
  obtain ⟨zeros, hst, hlen⟩ := reader_words e hWr h8r hbytes hbits
  generalize wordsOfBytes e Wr (padTo (Wr / 8) bytes) = words at hst hlen
  have hi0 := ginv_new e hWr words strict (by omega)
  have hr0 : refAt e words strict Wr 0
      = refS e (pre ++ bitsOfBytes e bs ++ (post ++ zeros)) strict Wr 0 := by
    unfold refAt refS; rw [hst]; simp [List.append_assoc]
  rw [hr0] at hi0
  have hav : RefR.avail (refS e (pre ++ bitsOfBytes e bs ++ (post ++ zeros)) strict Wr 0) pre.length
      = true := by
    unfold RefR.avail refS
    simp only [List.length_append, Nat.zero_add, Bool.or_eq_true, Bool.not_eq_eq_eq_not,
      Bool.not_true, decide_eq_true_eq]
    right; omega
  obtain ⟨s1, hs1, hi1⟩ := gen_skip_ginv hi0 hav
  have hi1 : GInv e s1 (refS e (pre ++ bitsOfBytes e bs ++ (post ++ zeros)) strict Wr pre.length) := by
    have := hi1
    simp only [refS, Nat.zero_add] at this
    exact this
  have hread := io_read_run e bs hb pre (post ++ zeros) strict Wr hWr
  obtain ⟨s2, hs2, hi2⟩ := gen_run_of_ref_ok hW64 (ioRead e bs.length) (pb_ioRead Wr e _) hi1 hread
  refine ⟨s1, s2, hs1, ?_, ?_⟩
  · rw [genIORead_eq e Wr _ (genR_u64 e) s1 buf, hbuf, hs2]; rfl
  · apply gen_bitPos_ginv hi2
    right
    show pre.length + 8 * bs.length + 2 * Wr ≤ 2 ^ 64
    simp only [List.length_append, bitsOfBytes_length] at hfit
    omega

/-- **C12, `io::Read`, unbuffered `BitReader`** (64-bit words): the same statement. -/
theorem gen_io_read_bytes_bitr (e : Endian) (strict : Bool) (bytes : List Nat)
    (hbytes : ∀ b ∈ bytes, b < 256) (pre post : List Bool) (bs : List Nat) (hb : ∀ b ∈ bs, b < 256)
    (hbits : bitsOfBytes e bytes = pre ++ bitsOfBytes e bs ++ post)
    (buf : List Nat) (hbuf : buf.length = bs.length)
    (hfit : 2 * (pre ++ bitsOfBytes e bs ++ post).length + 5 * 64 < 2 ^ 64) :
    ∃ (s1 s2 : BitR),
      (genBitRImpl e).skipBits { data := ⟨wordsOfBytes e 64 (padTo 8 bytes), 0, strict⟩ } pre.length
        = .ok s1 ∧
      genIOReadBitR e (genBitRImpl e) s1 buf = .ok (bs.length, bs, s2) ∧
      genBitRBitPos e s2 = .ok (pre.length + 8 * bs.length, s2) := by
  obtain ⟨zeros, hst, hlen⟩ := reader_words e (Wr := 64) (by decide) (by decide) hbytes hbits
  have hst' : (wordsOfBytes e 64 (padTo 8 bytes)).flatMap (wordBits e)
      = pre ++ bitsOfBytes e bs ++ post ++ zeros := hst
  have hlen' : (wordsOfBytes e 64 (padTo 8 bytes)).length * 64
      ≤ (pre ++ bitsOfBytes e bs ++ post).length + 64 := hlen
  generalize wordsOfBytes e 64 (padTo 8 bytes) = words at hst' hlen'
  have hi0 := bitr_new_rel e words 0 strict
  have hr0 : refS e (words.flatMap (wordBits e)) strict 32 0
      = refS e (pre ++ bitsOfBytes e bs ++ (post ++ zeros)) strict 32 0 := by
    rw [hst']; simp [List.append_assoc]
  have hi0 : BitR.Rel' e { data := ⟨words, 0, strict⟩ }
      (refS e (pre ++ bitsOfBytes e bs ++ (post ++ zeros)) strict 32 0) := by
    rw [← hr0]; exact hi0
  have hav : RefR.avail (refS e (pre ++ bitsOfBytes e bs ++ (post ++ zeros)) strict 32 0) pre.length
      = true := by
    unfold RefR.avail refS
    simp only [List.length_append, Nat.zero_add, Bool.or_eq_true, Bool.not_eq_eq_eq_not,
      Bool.not_true, decide_eq_true_eq]
    right; omega
  have hsk := GenBitR.gen_bitr_skipBits hi0 hav (by
    show 0 + pre.length < 2 ^ 64
    simp only [List.length_append] at hfit; omega)
  unfold RefR.skipBits at hsk
  rw [if_pos hav] at hsk
  simp only [refS, Nat.zero_add] at hsk
  rw [← genBitRImpl_eq] at hsk
  cases hx : (genBitRImpl e).skipBits { data := ⟨words, 0, strict⟩ } pre.length with
  | ok s1 =>
    rw [hx] at hsk
    have hd1 : s1.data.data = words := by
      have := hsk.1.2.2.2.1
      have h0 := hi0.1.2.2.2.1
      -- the backend data is untouched by `skip_bits`
      have hstep : (genBitRImpl e).skipBits { data := ⟨words, 0, strict⟩ } pre.length
          = (BitR.impl e).skipBits { data := ⟨words, 0, strict⟩ } pre.length := by
        rw [genBitRImpl_eq]
        exact GenBitR.genImpl_skipBits e _ _ (by
          show 0 + pre.length < 2 ^ 64
          simp only [List.length_append] at hfit; omega)
      rw [hstep] at hx
      exact (bitr_skipBits_step hx).2
    have hread := io_read_run e bs hb pre (post ++ zeros) strict 32 (by decide)
    obtain ⟨s2, hs2, hi2, _⟩ := gen_bitr_run_of_ref_ok (ioRead e bs.length) hsk
      ⟨ok_ioRead e _, Or.inl (ns_ioRead e _)⟩ hread (by
        show pre.length + 8 * bs.length + (s1.data.data.length + 3) * 64 < 2 ^ 64
        rw [hd1]
        simp only [List.length_append, bitsOfBytes_length] at hfit hlen'
        omega)
    refine ⟨s1, s2, rfl, ?_, ?_⟩
    · rw [genIOReadBitR_eq e _ (genBitR_u64 e) s1 buf, hbuf, hs2]; rfl
    · apply genBitRBitPos_rel hi2.1
      show pre.length + 8 * bs.length < 2 ^ 64
      simp only [List.length_append, bitsOfBytes_length] at hfit
      omega
  | err _ => rw [hx] at hsk; exact hsk.elim
  | panic => rw [hx] at hsk; exact hsk.elim
  | dpanic => rw [hx] at hsk; exact hsk.elim

/-! ## round trip -/

/-- **C12, round trip on the generated machines.**  After any preceding program, `bs` written
    through the generated `io::Write::write` on the generated `BufBitWriter` (word width `Ww`) and
    flushed; a generated `BufBitReader` (word width `Wr`, strict or not) built on the delivered
    bytes skips the preceding bits and the generated `io::Read::read` returns `bs.len()` and `bs`. -/
theorem gen_io_roundtrip {α : Type} (e : Endian) {Ww Wr : Nat} (hWw : 0 < Ww) (h8w : 8 ∣ Ww)
    (hWw64 : Ww < 2 ^ 64) (hWr : 0 < Wr) (h8r : 8 ∣ Wr) (hW64 : e = .be → Wr ≤ 64)
    (checks strict : Bool) (pre : WProg α) {a : α} {w1 : RefW}
    (hpre : pre.run RefW.impl (refW e Ww checks []) = .ok (a, w1))
    (bs : List Nat) (hb : ∀ b ∈ bs, b < 256) (buf : List Nat) (hbuf : buf.length = bs.length)
    (hfit : w1.bits.length + 8 * bs.length + Ww + 5 * Wr < 2 ^ 64) :
    ∃ (t t1 : BufW Ww) (k : Nat) (t2 : BufW Ww) (s1 s2 : BufR Wr),
      pre.run (genWImpl e) (BufW.new Ww checks none) = .ok (a, t) ∧
      genIOWrite e Ww (genWImpl e) t bs = .ok (bs.length, t1) ∧
      (genWImpl e).flush t1 = .ok (k, t2) ∧
      (genRImpl e).skipBits
        (BufR.new ⟨wordsOfBytes e Wr (padTo (Wr / 8) (t2.outBytes e)), 0, strict⟩) w1.bits.length
        = .ok s1 ∧
      genIORead e Wr (genRImpl e) s1 buf = .ok (bs.length, bs, s2) ∧
      GenBufR.genBitPos e s2 = .ok (w1.bits.length + 8 * bs.length, s2) := by
  obtain ⟨t, t1, k, t2, h1, h2, h3, _, _, h6, h7⟩ :=
    gen_io_write_image e hWw h8w hWw64 checks pre hpre bs hb
  obtain ⟨s1, s2, h8, h9, h10⟩ := gen_io_read_bytes e hWr h8r hW64 strict (t2.outBytes e) h7
    w1.bits (wpad Ww (w1.bits ++ bitsOfBytes e bs).length) bs hb h6 buf hbuf (by
      have := wpad_length_lt (w1.bits ++ bitsOfBytes e bs).length hWw
      simp only [List.length_append, bitsOfBytes_length] at this ⊢
      omega)
  exact ⟨t, t1, k, t2, s1, s2, h1, h2, h3, h8, h9, h10⟩

/-! ## non-vacuity -/

/-- 11 bytes (one 8-byte chunk, a 3-byte remainder) written at bit offset 5 of a 16-bit LE writer,
    read back by an 8-bit-word strict LE reader: the generated machines compute -/
example : ∃ (t t1 : BufW 16) (k : Nat) (t2 : BufW 16) (s1 s2 : BufR 8),
    (WProg.wbits 21 5).run (genWImpl .le) (BufW.new 16 false none) = .ok (5, t) ∧
    genIOWrite .le 16 (genWImpl .le) t [1, 2, 3, 4, 5, 6, 7, 8, 9, 10, 255] = .ok (11, t1) ∧
    (genWImpl .le).flush t1 = .ok (k, t2) ∧
    (genRImpl .le).skipBits (BufR.new ⟨wordsOfBytes .le 8 (padTo (8 / 8) (t2.outBytes .le)), 0, true⟩) 5
      = .ok s1 ∧
    genIORead .le 8 (genRImpl .le) s1 (List.replicate 11 0)
      = .ok (11, [1, 2, 3, 4, 5, 6, 7, 8, 9, 10, 255], s2) ∧
    GenBufR.genBitPos .le s2 = .ok (93, s2) :=
  ⟨_, _, _, _, _, _, rfl, rfl, rfl, rfl, rfl, rfl⟩

/-- at a byte-aligned position (8 preceding bits) the image holds the bytes verbatim -/
example : ∃ (t t1 : BufW 32) (k : Nat) (t2 : BufW 32),
    (WProg.wbits 0xAB 8).run (genWImpl .be) (BufW.new 32 false none) = .ok (8, t) ∧
    genIOWrite .be 32 (genWImpl .be) t [1, 2, 3, 4, 5, 6, 7, 8, 9] = .ok (9, t1) ∧
    (genWImpl .be).flush t1 = .ok (k, t2) ∧
    t2.outBytes .be = [0xAB, 1, 2, 3, 4, 5, 6, 7, 8, 9, 0, 0] := ⟨_, _, _, _, rfl, rfl, rfl, rfl⟩

example (e : Endian) {w1 : RefW} (hpre : (WProg.wbits 21 5).run RefW.impl (refW e 16 true []) = .ok (5, w1))
    (hl : w1.bits.length = 5) :
    ∃ (t t1 : BufW 16) (k : Nat) (t2 : BufW 16) (s1 s2 : BufR 32),
      (WProg.wbits 21 5).run (genWImpl e) (BufW.new 16 true none) = .ok (5, t) ∧
      genIOWrite e 16 (genWImpl e) t [1, 2, 3, 4, 5, 6, 7, 8, 9, 10, 255] = .ok (11, t1) ∧
      (genWImpl e).flush t1 = .ok (k, t2) ∧
      (genRImpl e).skipBits
        (BufR.new ⟨wordsOfBytes e 32 (padTo (32 / 8) (t2.outBytes e)), 0, false⟩) w1.bits.length = .ok s1 ∧
      genIORead e 32 (genRImpl e) s1 (List.replicate 11 7) = .ok (11, [1, 2, 3, 4, 5, 6, 7, 8, 9, 10, 255], s2) ∧
      GenBufR.genBitPos e s2 = .ok (w1.bits.length + 8 * 11, s2) :=
  gen_io_roundtrip e (by decide) (by decide) (by decide) (by decide) (by decide) (fun _ => by decide)
    true false _ hpre _ (by decide) _ rfl (by rw [hl]; decide)

/-- the unbuffered reader on a byte image: 3 bits, then the bytes `[0xDE, 0xAD]`, then 5 bits -/
example : ∃ (s1 s2 : BitR),
    (genBitRImpl .be).skipBits { data := ⟨wordsOfBytes .be 64 (padTo 8 [0xBB, 0xD5, 0xB5]), 0, true⟩ } 3
      = .ok s1 ∧
    genIOReadBitR .be (genBitRImpl .be) s1 [0, 0] = .ok (2, [0xDE, 0xAD], s2) ∧
    genBitRBitPos .be s2 = .ok (19, s2) := ⟨_, _, rfl, rfl, rfl⟩

end Headline2
end Dsi
