/-
  With the sizes of the shipped tables (`gamma_table_sizes`, … of Dsi/Props/C05.lean) the generated
  `read_table_be/le` followed by the caller's fallback *is* `readTable (xRTab e) fb`, and
  `len_table_be/le` *is* `read_table_be/le` with the value dropped.
-/
import Dsi.Props.TableFnsGen
import Dsi.Props.C05
namespace Dsi
namespace TableFnsGen
open Gen

theorem gamma_rtab_sizes (e : Endian) : (gammaRTab e).vals.size = (gammaRTab e).lens.size := by
  obtain ⟨⟨h1, h2⟩, ⟨h3, h4⟩, _⟩ := gamma_table_sizes
  cases e
  · exact h1.trans h2.symm
  · exact h3.trans h4.symm
theorem delta_rtab_sizes (e : Endian) : (deltaRTab e).vals.size = (deltaRTab e).lens.size := by
  obtain ⟨⟨h1, h2⟩, ⟨h3, h4⟩, _⟩ := delta_table_sizes
  cases e
  · exact h1.trans h2.symm
  · exact h3.trans h4.symm
theorem zeta_rtab_sizes (e : Endian) : (zetaRTab e).vals.size = (zetaRTab e).lens.size := by
  obtain ⟨⟨h1, h2⟩, ⟨h3, h4⟩, _⟩ := zeta_table_sizes
  cases e
  · exact h1.trans h2.symm
  · exact h3.trans h4.symm

theorem gamma_read_table_eq' (e : Endian) (fb : RProg Nat) :
    (gammaReadTable e).bind (orElseR fb) = readTable (gammaRTab e) fb :=
  gamma_read_table_eq e (gamma_rtab_sizes e) fb
theorem delta_read_table_eq' (e : Endian) (fb : RProg Nat) :
    (deltaReadTable e).bind (orElseR fb) = readTable (deltaRTab e) fb :=
  delta_read_table_eq e (delta_rtab_sizes e) fb
theorem zeta_read_table_eq' (e : Endian) (fb : RProg Nat) :
    (zetaReadTable e).bind (orElseR fb) = readTable (zetaRTab e) fb :=
  zeta_read_table_eq e (zeta_rtab_sizes e) fb

theorem gamma_len_table_eq' (e : Endian) :
    gammaLenTable e = (gammaReadTable e).bind fun o => .ret (o.map Prod.snd) :=
  gamma_len_table_eq e (gamma_rtab_sizes e)
theorem delta_len_table_eq' (e : Endian) :
    deltaLenTable e = (deltaReadTable e).bind fun o => .ret (o.map Prod.snd) :=
  delta_len_table_eq e (delta_rtab_sizes e)
theorem zeta_len_table_eq' (e : Endian) :
    zetaLenTable e = (zetaReadTable e).bind fun o => .ret (o.map Prod.snd) :=
  zeta_len_table_eq e (zeta_rtab_sizes e)

end TableFnsGen
end Dsi
